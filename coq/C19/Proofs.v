From Coq Require Import ZArith Bool List Lia.
From SV Require Import Common.GoInt C19.Model C19.Spec.
Open Scope Z_scope.

Lemma in_int64_bounds z : in_int64 z = true -> min_int64 <= z <= max_int64.
Proof. unfold in_int64. intros H. apply andb_true_iff in H. destruct H as [A B].
  apply Z.leb_le in A. apply Z.leb_le in B. lia. Qed.

Lemma in_int64_of_bounds z : min_int64 <= z <= max_int64 -> in_int64 z = true.
Proof. unfold in_int64. intros H. apply andb_true_iff. split; apply Z.leb_le; lia. Qed.

Ltac range_hyps :=
  repeat match goal with
  | H : _ && _ = true |- _ => apply andb_true_iff in H; destruct H
  | H : negb _ = true |- _ => apply negb_true_iff in H
  | H : in_int64 ?a = true |- _ => pose proof (wrap64_id a H); apply in_int64_bounds in H
  | H : (_ =? _) = false |- _ => apply Z.eqb_neq in H
  end.

Lemma wrap_neg d : in_int64 d = true -> (d =? min_int64) = false -> wrap64 (- d) = - d.
Proof.
  intros H N. apply in_int64_bounds in H. apply Z.eqb_neq in N.
  apply wrap64_id, in_int64_of_bounds. unfold min_int64, max_int64 in *. lia.
Qed.

Lemma sat64_id z : in_int64 z = true -> sat64 z = z.
Proof.
  intros H. apply in_int64_bounds in H. unfold sat64.
  destruct (z <? min_int64) eqn:E1; [lia|]. destruct (max_int64 <? z) eqn:E2; [lia|]. reflexivity.
Qed.

Lemma binary_table_exact_lemma :
  forall o x y,
    involves_time x y = true ->
    val_in_range x = true -> val_in_range y = true ->
    out_in_range (spec o x y) = true ->
    dispatch o x y = spec o x y.
Proof.
  intros o x y Hinv Hx Hy Hr.
  unfold dispatch. unfold involves_time in Hinv. rewrite Hinv. cbn [negb].
  destruct o, x as [t z|d|i|f|tg], y as [t' z'|d'|i'|f'|tg'];
    cbn in Hinv; try discriminate Hinv;
    cbn [has_binary binary_method dur_binary time_binary spec orb negb] in *;
    cbn [val_in_range out_in_range] in *;
    try reflexivity.
  all: repeat match goal with
       | |- context [if ?c then _ else _] => destruct c eqn:?; cbn [negb orb] in *
       end; try reflexivity; try discriminate.
  all: cbn [out_in_range] in *; range_hyps.
  all: try (f_equal; first [ assumption | lia
                           | match goal with H : wrap64 ?a = ?a |- _ => rewrite H; lia end
                           | apply sat64_id, in_int64_of_bounds; lia ]).
  all: try (rewrite (wrap64_id (- _)) by (apply in_int64_of_bounds; unfold min_int64, max_int64 in *; lia); f_equal; lia).
  all: try (rewrite Z.mul_comm; match goal with H : wrap64 ?a = ?a |- _ => rewrite H; reflexivity end).
Qed.

(* Without the no-overflow guard: the implementation computes the table's
   result modulo 2^64 on durations (Go's silent int64 wrap) -- never another
   operation, never the reversed one. *)

Lemma binary_table_mod64_lemma :
  forall o x y,
    involves_time x y = true ->
    val_in_range x = true -> val_in_range y = true ->
    dispatch o x y = overflow_out x y (spec o x y).
Proof.
  intros o x y Hinv Hx Hy.
  unfold dispatch. unfold involves_time in Hinv. rewrite Hinv. cbn [negb].
  destruct o, x as [t z|d|i|f|tg], y as [t' z'|d'|i'|f'|tg'];
    cbn in Hinv; try discriminate Hinv;
    cbn [has_binary binary_method dur_binary time_binary spec orb negb overflow_out] in *;
    cbn [val_in_range] in *;
    try reflexivity.
  all: repeat match goal with
       | |- context [if ?c then _ else _] => destruct c eqn:?; cbn [negb orb overflow_out] in *
       end; try reflexivity; try discriminate.
  all: range_hyps.
  all: try (f_equal; lia).
  all: try (rewrite (wrap64_id (- _)) by (apply in_int64_of_bounds; unfold min_int64, max_int64 in *; lia); f_equal; lia).
  all: try (rewrite Z.mul_comm; reflexivity).
Qed.

(* every pair outside the documented table is rejected *)
Lemma rejects_outside_table_lemma :
  forall o x y, involves_time x y = true -> spec o x y = OErr -> dispatch o x y = OErr.
Proof.
  intros o x y Hinv Hs.
  unfold dispatch. unfold involves_time in Hinv. rewrite Hinv. cbn [negb].
  destruct o, x as [t z|d|i|f|tg], y as [t' z'|d'|i'|f'|tg'];
    cbn in Hinv; try discriminate Hinv;
    cbn [has_binary binary_method dur_binary time_binary spec orb negb] in *;
    try reflexivity; try discriminate Hs.
  all: repeat match goal with
       | |- context [if ?c then _ else _] => destruct c eqn:?; cbn [negb orb] in *
       | H : context [if ?c then _ else _] |- _ => destruct c eqn:?; cbn [negb orb] in *
       end; try reflexivity; try discriminate.
Qed.

Lemma add_sub_inverse_lemma :
  forall t z d,
    in_int64 d = true -> (d =? min_int64) = false ->
    dispatch PLUS (VTime t z) (VDur d) = OTime (t + d) z /\
    dispatch MINUS (VTime (t + d) z) (VDur d) = OTime t z.
Proof.
  intros t z d Hd Hm. unfold dispatch; cbn.
  split; [reflexivity|].
  rewrite wrap_neg by assumption. f_equal. lia.
Qed.

Lemma sub_add_inverse_lemma :
  forall t1 z1 t2 z2,
    in_int64 (t2 - t1) = true ->
    dispatch MINUS (VTime t2 z2) (VTime t1 z1) = ODur (t2 - t1) /\
    dispatch PLUS (VDur (t2 - t1)) (VTime t1 z1) = OTime t2 z1 /\
    dispatch PLUS (VTime t1 z1) (VDur (t2 - t1)) = OTime t2 z1.
Proof.
  intros. unfold dispatch; cbn. rewrite ?sat64_id, ?wrap64_id by assumption.
  repeat split; f_equal; lia.
Qed.

Lemma compare_spec_lemma :
  forall c x y, involves_time x y = true -> compare c x y = spec_compare c x y.
Proof.
  intros c x y H. unfold compare. unfold involves_time in H. rewrite H. cbn [negb].
  destruct x, y; cbn in *; try discriminate; try reflexivity;
    unfold cmp3; destruct c; cbn;
    repeat match goal with |- context [if ?c then _ else _] => destruct c eqn:? end;
    f_equal; lia.
Qed.

(* total order, zone-free *)
Lemma order_total_lemma :
  forall a za b zb,
    let x := VTime a za in let y := VTime b zb in
    (compare LT x y = OBool true /\ compare EQL x y = OBool false /\ compare GT x y = OBool false) \/
    (compare LT x y = OBool false /\ compare EQL x y = OBool true /\ compare GT x y = OBool false) \/
    (compare LT x y = OBool false /\ compare EQL x y = OBool false /\ compare GT x y = OBool true).
Proof.
  intros. subst x y. unfold compare, cmp3; cbn.
  destruct (a <? b) eqn:E1; destruct (a >? b) eqn:E2; cbn; try lia; auto.
Qed.

Lemma lt_trans_lemma :
  forall a za b zb c zc,
    compare LT (VTime a za) (VTime b zb) = OBool true ->
    compare LT (VTime b zb) (VTime c zc) = OBool true ->
    compare LT (VTime a za) (VTime c zc) = OBool true.
Proof.
  intros a za b zb c zc. rewrite !compare_spec_lemma by reflexivity. cbn.
  intros H1 H2. injection H1 as H1. injection H2 as H2. f_equal. lia.
Qed.

Lemma eq_zone_free_hash_lemma :
  forall a za b zb,
    compare EQL (VTime a za) (VTime b zb) = OBool true ->
    hash (VTime a za) = hash (VTime b zb) /\
    (forall c, compare c (VTime a za) (VTime b zb) = compare c (VTime a 0) (VTime b 0)).
Proof.
  intros a za b zb. rewrite compare_spec_lemma by reflexivity. cbn.
  intros H. injection H as H. apply Z.eqb_eq in H. subst b. split; reflexivity.
Qed.

Lemma dur_order_lemma :
  forall a b c,
    (compare LE (VDur a) (VDur b) = OBool true \/ compare LE (VDur b) (VDur a) = OBool true) /\
    (compare EQL (VDur a) (VDur b) = OBool true -> hash (VDur a) = hash (VDur b)) /\
    (compare LT (VDur a) (VDur b) = OBool true -> compare LT (VDur b) (VDur c) = OBool true ->
     compare LT (VDur a) (VDur c) = OBool true) /\
    (compare LE (VDur a) (VDur b) = OBool true -> compare LE (VDur b) (VDur a) = OBool true ->
     compare EQL (VDur a) (VDur b) = OBool true).
Proof.
  intros a b c. rewrite !compare_spec_lemma by reflexivity. cbn.
  repeat split.
  - destruct (a <=? b) eqn:E; [left; reflexivity| right; f_equal; lia].
  - intros H. injection H as H. apply Z.eqb_eq in H. subst. reflexivity.
  - intros H1 H2. injection H1 as H1. injection H2 as H2. f_equal. lia.
  - intros H1 H2. injection H1 as H1. injection H2 as H2. f_equal. lia.
Qed.

Lemma timestamp_roundtrip_lemma :
  forall t,
    from_timestamp (attr_unix t) (attr_nanosecond t) = t /\
    (in_int64 t = true -> from_timestamp 0 (attr_unix_nano t) = t) /\
    0 <= attr_nanosecond t < 1000000000.
Proof.
  intros t. unfold from_timestamp, attr_unix, attr_nanosecond, attr_unix_nano.
  repeat split.
  - pose proof (Z.div_mod t 1000000000 ltac:(lia)). lia.
  - intros H. rewrite wrap64_id by assumption. lia.
  - apply Z.mod_pos_bound. lia.
  - apply Z.mod_pos_bound. lia.
Qed.
