(* C19 -- the documented operator table, as a function of the operands in the
   order written, over exact integers.  Independent of the implementation model. *)
From Coq Require Import ZArith Bool List.
From SV Require Import Common.GoInt C19.Model.
Open Scope Z_scope.

Definition involves_time (x y : val) : bool := has_binary x || has_binary y.

(* exact result; None = the pair is not in the table = must be rejected *)
Definition spec (o : op) (x y : val) : out :=
  match o, x, y with
  | PLUS, VDur a, VDur b => ODur (a + b)
  | PLUS, VDur a, VTime t z => OTime (t + a) z
  | PLUS, VTime t z, VDur a => OTime (t + a) z
  | MINUS, VDur a, VDur b => ODur (a - b)
  | MINUS, VTime t z, VDur a => OTime (t - a) z
  | MINUS, VTime t _, VTime u _ => ODur (t - u)
  | SLASH, VDur a, VDur b => if b =? 0 then OErr else OFloatQuot a b
  | SLASH, VDur a, VInt i => if negb (in_int64 i) || (i =? 0) then OErr else ODur (Z.quot a i)
  | SLASH, VDur a, VFloat f => if fl_zero f then OErr else ODurOfFloatQuot a (fl_id f)
  | SLASHSLASH, VDur a, VDur b => if b =? 0 then OErr else OInt (Z.quot a b)
  | STAR, VDur a, VInt i => if negb (in_int64 i) then OErr else ODur (a * i)
  | STAR, VInt i, VDur a => if negb (in_int64 i) then OErr else ODur (i * a)
  | _, _, _ => OErr
  end.

(* the result is representable: no int64 wrap-around in the implementation *)
Definition out_in_range (r : out) : bool :=
  match r with
  | ODur n => in_int64 n
  | OTime n _ => in_int64 n
  | _ => true
  end.

Definition val_in_range (v : val) : bool :=
  match v with
  | VDur n => in_int64 n && negb (n =? min_int64)
  | VTime n _ => in_int64 n
  | _ => true
  end.

(* What the implementation does when the exact duration result does not fit in
   int64 nanoseconds: Go integer arithmetic wraps modulo 2^64, except that
   time - time saturates (time.Time.Sub is documented to saturate). *)
Definition overflow_out (x y : val) (r : out) : out :=
  match r with
  | ODur n => match x, y with
              | VTime _ _, VTime _ _ => ODur (sat64 n)
              | _, _ => ODur (wrap64 n)
              end
  | r => r
  end.

Definition spec_compare (c : cmpop) (x y : val) : out :=
  match x, y with
  | VTime a _, VTime b _ | VDur a, VDur b =>
      OBool (match c with
             | EQL => a =? b | NEQ => negb (a =? b)
             | LT => a <? b | LE => a <=? b | GT => b <? a | GE => b <=? a end)
  | _, _ => match c with EQL => OBool false | NEQ => OBool true | _ => OErr end
  end.
