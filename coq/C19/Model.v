(* C19 -- model of lib/time/time.go: Duration.Binary, Time.Binary, Cmp, Hash,
   from_timestamp / unix / unix_nano, and of the part of starlark.Binary /
   starlark.Compare that dispatches to them (starlark/eval.go).

   Instants are nanoseconds since the Unix epoch (Z) plus a zone tag that no
   operation inspects; durations are Go int64 nanoseconds, so every duration
   result is wrapped explicitly.  IEEE division is not modelled: a float result
   is the symbolic quotient of its two integer operands *in order*, which is
   what the property is about (the harness maps observed float bits back to
   that symbolic form using hardware division as the oracle). *)
From Coq Require Import ZArith Bool List Lia.
From SV Require Import Common.GoInt.
Import ListNotations.
Open Scope Z_scope.

Inductive op := PLUS | MINUS | STAR | SLASH | SLASHSLASH | PERCENT.
Inductive cmpop := EQL | NEQ | LT | LE | GT | GE.

(* a float operand is opaque except for whether it is zero *)
Record fl := { fl_id : Z; fl_zero : bool }.

Inductive val :=
| VTime (ns : Z) (zone : Z)
| VDur (ns : Z)
| VInt (z : Z)
| VFloat (f : fl)
| VOther (tag : Z).   (* None, list, ... : a value with no Binary method and no built-in case *)

Inductive out :=
| OTime (ns : Z) (zone : Z)
| ODur (ns : Z)
| OInt (z : Z)
| OFloatQuot (a b : Z)            (* float64(a) / float64(b) *)
| ODurOfFloatQuot (a : Z) (f : Z) (* Duration(float64(a) / f) *)
| OBool (b : bool)
| OErr                            (* rejected *)
| OBuiltin.                       (* neither operand is a time or duration: outside this property *)

Inductive side := Left | Right.

(* --- lib/time/time.go: func (d Duration) Binary(op, y, side) ; None = (nil, nil) = unhandled *)
Definition dur_binary (o : op) (d : Z) (y : val) (s : side) : option out :=
  match o with
  | PLUS =>
      match y with
      | VDur e => Some (ODur (wrap64 (d + e)))
      | VTime t z => Some (OTime (t + d) z)
      | _ => None
      end
  | MINUS =>
      match y with
      | VDur e => Some (ODur (wrap64 (d - e)))
      | _ => None
      end
  | SLASH =>
      match y with
      | VDur e => if e =? 0 then Some OErr else Some (OFloatQuot d e)
      | VInt i =>
          match s with
          | Right => Some OErr
          | Left =>
              if negb (in_int64 i) then Some OErr
              else if i =? 0 then Some OErr
              else Some (ODur (wrap64 (Z.quot d i)))
          end
      | VFloat f =>
          match s with
          | Right => Some OErr
          | Left => if fl_zero f then Some OErr else Some (ODurOfFloatQuot d (fl_id f))
          end
      | _ => None
      end
  | SLASHSLASH =>
      match y with
      | VDur e => if e =? 0 then Some OErr else Some (OInt (Z.quot d e))
      | _ => None
      end
  | STAR =>
      match y with
      | VInt i => if negb (in_int64 i) then Some OErr else Some (ODur (wrap64 (d * i)))
      | _ => None
      end
  | PERCENT => None
  end.

(* Go's time.Time.Sub saturates at the int64 range (documented behaviour) *)
Definition sat64 (z : Z) : Z := if z <? min_int64 then min_int64 else if max_int64 <? z then max_int64 else z.

(* --- func (t Time) Binary(op, y, side) *)
Definition time_binary (o : op) (t zone : Z) (y : val) (s : side) : option out :=
  match o with
  | PLUS => match y with VDur d => Some (OTime (t + d) zone) | _ => None end
  | MINUS =>
      match y with
      | VDur d => match s with Left => Some (OTime (t + wrap64 (- d)) zone) | Right => None end
      | VTime u _ => Some (ODur (sat64 (t - u)))
      | _ => None
      end
  | _ => None
  end.

Definition has_binary (v : val) : bool :=
  match v with VTime _ _ | VDur _ => true | _ => false end.

Definition binary_method (o : op) (x y : val) (s : side) : option out :=
  match x with
  | VDur d => dur_binary o d y s
  | VTime t z => time_binary o t z y s
  | _ => None
  end.

(* --- starlark.Binary: no built-in case applies when an operand is a time or a
   duration and the other is time/duration/int/float/None/list; then
   x.Binary(op,y,Left), then y.Binary(op,x,Right), then "unknown binary op". *)
Definition dispatch (o : op) (x y : val) : out :=
  if negb (has_binary x || has_binary y) then OBuiltin
  else
    match (if has_binary x then binary_method o x y Left else None) with
    | Some r => r
    | None =>
        match (if has_binary y then binary_method o y x Right else None) with
        | Some r => r
        | None => OErr
        end
    end.

(* --- starlark.Compare on time/duration values *)
Definition threeway (c : cmpop) (k : Z) : bool :=
  match c with
  | EQL => k =? 0 | NEQ => negb (k =? 0)
  | LT => k <? 0 | LE => k <=? 0 | GT => k >? 0 | GE => k >=? 0
  end.

Definition cmp3 (a b : Z) : Z := if a <? b then -1 else if a >? b then 1 else 0.

Definition same_kind (x y : val) : bool :=
  match x, y with
  | VTime _ _, VTime _ _ | VDur _, VDur _ => true
  | _, _ => false
  end.

Definition compare (c : cmpop) (x y : val) : out :=
  if negb (has_binary x || has_binary y) then OBuiltin
  else match x, y with
       | VTime a _, VTime b _ => OBool (threeway c (cmp3 a b))
       | VDur a, VDur b => OBool (threeway c (cmp3 a b))
       | _, _ => match c with EQL => OBool false | NEQ => OBool true | _ => OErr end
       end.

(* --- Hash: uint32(n) ^ uint32(int64(n) >> 32) on the int64 nanosecond count *)
Definition hash64 (n : Z) : Z :=
  Z.lxor (wrapu32 n) (wrapu32 (Z.shiftr (wrap64 n) 32)).
Definition hash (v : val) : option Z :=
  match v with
  | VTime t _ => Some (hash64 t)
  | VDur d => Some (hash64 d)
  | _ => None
  end.

(* --- from_timestamp(sec, nsec) = time.Unix(sec, nsec); attributes unix, nanosecond, unix_nano *)
Definition from_timestamp (sec nsec : Z) : Z := sec * 1000000000 + nsec.
Definition attr_unix (t : Z) : Z := t / 1000000000.          (* floor *)
Definition attr_nanosecond (t : Z) : Z := t mod 1000000000.
Definition attr_unix_nano (t : Z) : Z := wrap64 t.
