(* C19 -- further lemmas: comparison operators derived from one three-way
   result, != as the negation of == on every pair of values, equal values hash
   alike whatever their kind, and the constructor direction of the timestamp
   round trip (from_timestamp normalises any nanosecond argument). *)
From Coq Require Import ZArith Bool List Lia.
From SV Require Import Common.GoInt C19.Model C19.Spec C19.Proofs.
Open Scope Z_scope.

Definition out_negb (o : out) : out :=
  match o with OBool b => OBool (negb b) | r => r end.

Lemma neq_is_negation_lemma :
  forall x y, compare NEQ x y = out_negb (compare EQL x y).
Proof.
  intros x y; unfold compare.
  destruct (negb (has_binary x || has_binary y)); [reflexivity|].
  destruct x, y; reflexivity.
Qed.

Lemma cmp3_cases a b :
  (a < b /\ cmp3 a b = -1) \/ (a = b /\ cmp3 a b = 0) \/ (a > b /\ cmp3 a b = 1).
Proof.
  unfold cmp3.
  destruct (a <? b) eqn:H1; [left; split; [apply Z.ltb_lt; exact H1 | reflexivity]|].
  destruct (a >? b) eqn:H2.
  - right; right; split; [apply Z.gtb_lt in H2; lia | reflexivity].
  - right; left; split; [|reflexivity].
    apply Z.ltb_ge in H1. rewrite Z.gtb_ltb in H2. apply Z.ltb_ge in H2. lia.
Qed.

(* all six operators are read off one three-way comparison of the instants *)
Lemma derived_operators_lemma :
  forall x y, same_kind x y = true ->
    exists lt eq,
      compare LT x y = OBool lt /\ compare EQL x y = OBool eq /\
      compare LE x y = OBool (lt || eq) /\
      compare GT x y = OBool (negb (lt || eq)) /\
      compare GE x y = OBool (negb lt) /\
      compare NEQ x y = OBool (negb eq) /\
      compare GT y x = OBool lt /\ compare EQL y x = OBool eq /\
      (lt && eq = false).
Proof.
  intros x y Hk.
  destruct x as [a za| a | | |], y as [b zb| b | | |]; try discriminate Hk;
  unfold compare; cbn [has_binary orb negb threeway];
  destruct (cmp3_cases a b) as [[H E]|[[H E]|[H E]]];
  destruct (cmp3_cases b a) as [[H' E']|[[H' E']|[H' E']]]; try lia;
  rewrite E, E'; (exists true, false + exists false, true + exists false, false);
  repeat split; reflexivity.
Qed.

(* values of different kinds are never equal and never ordered *)
Lemma cross_kind_lemma :
  forall x y, involves_time x y = true -> same_kind x y = false ->
    compare EQL x y = OBool false /\ compare NEQ x y = OBool true /\
    compare LT x y = OErr /\ compare LE x y = OErr /\
    compare GT x y = OErr /\ compare GE x y = OErr.
Proof.
  intros x y Hi Hk.
  destruct x, y; try discriminate Hi; try discriminate Hk; repeat split; reflexivity.
Qed.

Lemma eq_hash_all_lemma :
  forall x y, involves_time x y = true ->
    compare EQL x y = OBool true -> hash x = hash y.
Proof.
  intros x y Hi He.
  destruct x as [a za| a | | |], y as [b zb| b | | |]; try discriminate Hi; try discriminate He;
  unfold compare in He; cbn [has_binary orb negb threeway] in He;
  destruct (cmp3_cases a b) as [[H E]|[[H E]|[H E]]]; rewrite E in He; try discriminate He;
  subst; reflexivity.
Qed.

Ltac Zify.zify_post_hook ::= Z.div_mod_to_equations.

(* time.Unix(sec, nsec) accepts any nsec and normalises it into the seconds *)
Lemma from_timestamp_normalises_lemma :
  forall sec nsec,
    attr_unix (from_timestamp sec nsec) = sec + nsec / 1000000000 /\
    attr_nanosecond (from_timestamp sec nsec) = nsec mod 1000000000 /\
    (0 <= nsec < 1000000000 ->
       attr_unix (from_timestamp sec nsec) = sec /\
       attr_nanosecond (from_timestamp sec nsec) = nsec).
Proof.
  intros sec nsec; unfold attr_unix, attr_nanosecond, from_timestamp.
  assert (A : (sec * 1000000000 + nsec) / 1000000000 = sec + nsec / 1000000000).
  { rewrite Z.add_comm, Z.div_add by lia. lia. }
  assert (B : (sec * 1000000000 + nsec) mod 1000000000 = nsec mod 1000000000).
  { rewrite Z.add_comm, Z.mod_add by lia. reflexivity. }
  rewrite A, B. repeat split; intros; try reflexivity.
  - rewrite Z.div_small by lia. lia.
  - apply Z.mod_small; lia.
Qed.

(* two constructor calls denote the same instant iff their normalised
   (second, nanosecond) pairs agree *)
Lemma from_timestamp_injective_lemma :
  forall s1 n1 s2 n2,
    from_timestamp s1 n1 = from_timestamp s2 n2 <->
    (s1 + n1 / 1000000000 = s2 + n2 / 1000000000 /\ n1 mod 1000000000 = n2 mod 1000000000).
Proof.
  intros; unfold from_timestamp. lia.
Qed.

(* The guard "d <> min int64" of add_sub_inverse cannot be dropped: Go's -d wraps
   for that one duration (-292.47 years, outside the +-292 years the property
   quantifies over), so t - d is evaluated as t + d there. *)
Lemma sub_min_duration_lemma :
  forall t z,
    dispatch MINUS (VTime t z) (VDur min_int64) = OTime (t + min_int64) z /\
    dispatch MINUS (VTime t z) (VDur min_int64) <> spec MINUS (VTime t z) (VDur min_int64).
Proof.
  intros t z.
  assert (E : dispatch MINUS (VTime t z) (VDur min_int64) = OTime (t + min_int64) z).
  { unfold dispatch, binary_method, time_binary; cbn [has_binary orb negb].
    replace (wrap64 (- min_int64)) with min_int64 by (vm_compute; reflexivity). reflexivity. }
  split; [exact E|]. rewrite E. cbn [spec]. intros H. injection H as H.
  assert (X : min_int64 = -9223372036854775808) by reflexivity. lia.
Qed.
