(* C19 -- the two Binary methods as they were on the pinned tree, before the
   "fix:" commit in /repo (lib/time/time.go).  This file is documentation of the
   finding: it is about a frozen copy of the old definitions, not about /repo. *)
From Coq Require Import ZArith Bool List.
From SV Require Import Common.GoInt C19.Model C19.Spec.
Open Scope Z_scope.

Definition old_dur_binary (o : op) (d : Z) (y : val) (s : side) : option out :=
  match o, y with
  | SLASH, VFloat f => if fl_zero f then Some OErr else Some (ODurOfFloatQuot d (fl_id f))
  | _, _ => dur_binary o d y s
  end.

Definition old_time_binary (o : op) (t zone : Z) (y : val) (s : side) : option out :=
  match o, y with
  | MINUS, VDur d => Some (OTime (t + wrap64 (- d)) zone)
  | _, _ => time_binary o t zone y s
  end.

Definition old_method (o : op) (x y : val) (s : side) : option out :=
  match x with
  | VDur d => old_dur_binary o d y s
  | VTime t z => old_time_binary o t z y s
  | _ => None
  end.

Definition old_dispatch (o : op) (x y : val) : out :=
  if negb (has_binary x || has_binary y) then OBuiltin
  else match (if has_binary x then old_method o x y Left else None) with
       | Some r => r
       | None => match (if has_binary y then old_method o y x Right else None) with
                 | Some r => r | None => OErr end
       end.

(* duration - time was evaluated as time - duration; float / duration as duration / float *)
Lemma binary_table_exact_refuted_before_fix :
  (exists x y, involves_time x y = true /\ val_in_range x = true /\ val_in_range y = true /\
               spec MINUS x y = OErr /\ old_dispatch MINUS x y <> OErr) /\
  (exists x y, involves_time x y = true /\ val_in_range x = true /\ val_in_range y = true /\
               spec SLASH x y = OErr /\ old_dispatch SLASH x y <> OErr).
Proof.
  split.
  - exists (VDur 3600000000000), (VTime 1700000000000000000 0). vm_compute. repeat split; discriminate.
  - exists (VFloat {| fl_id := 1; fl_zero := false |}), (VDur 1000000000). vm_compute. repeat split; discriminate.
Qed.
