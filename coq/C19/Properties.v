(* C19 -- property theorems only.  Each is closed by `exact <lemma>`; axioms are
   printed by the audit step of bin/check (Print Assumptions per theorem). *)
From Coq Require Import ZArith Bool List.
From SV Require Import Common.GoInt C19.Model C19.Spec C19.Proofs C19.ProofsExt.
Open Scope Z_scope.

(* Each operator applied to operands in the order written gives the exact
   nanosecond result the documented table defines for that ordered pair of
   kinds, or is rejected; never the reversed or another operation.  Guard:
   operands and the exact result are representable (int64 nanoseconds, the
   +-292 year range of the property's quantifier). *)
Theorem binary_table_exact :
  forall o x y,
    involves_time x y = true ->
    val_in_range x = true -> val_in_range y = true ->
    out_in_range (spec o x y) = true ->
    dispatch o x y = spec o x y.
Proof. exact binary_table_exact_lemma. Qed.

(* The same without the guard on the result: a duration result is the exact one
   modulo 2^64 (Go's int64 wrap; time - time saturates instead), still in the written order. *)
Theorem binary_table_mod64 :
  forall o x y,
    involves_time x y = true ->
    val_in_range x = true -> val_in_range y = true ->
    dispatch o x y = overflow_out x y (spec o x y).
Proof. exact binary_table_mod64_lemma. Qed.

(* Everything outside the table is rejected, for all values whatsoever. *)
Theorem rejects_outside_table :
  forall o x y, involves_time x y = true -> spec o x y = OErr -> dispatch o x y = OErr.
Proof. exact rejects_outside_table_lemma. Qed.

Theorem add_sub_inverse :
  forall t z d,
    in_int64 d = true -> (d =? min_int64) = false ->
    dispatch PLUS (VTime t z) (VDur d) = OTime (t + d) z /\
    dispatch MINUS (VTime (t + d) z) (VDur d) = OTime t z.
Proof. exact add_sub_inverse_lemma. Qed.

Theorem sub_add_inverse :
  forall t1 z1 t2 z2,
    in_int64 (t2 - t1) = true ->
    dispatch MINUS (VTime t2 z2) (VTime t1 z1) = ODur (t2 - t1) /\
    dispatch PLUS (VDur (t2 - t1)) (VTime t1 z1) = OTime t2 z1 /\
    dispatch PLUS (VTime t1 z1) (VDur (t2 - t1)) = OTime t2 z1.
Proof. exact sub_add_inverse_lemma. Qed.

Theorem compare_exact :
  forall c x y, involves_time x y = true -> compare c x y = spec_compare c x y.
Proof. exact compare_spec_lemma. Qed.

Theorem time_order_total :
  forall a za b zb,
    let x := VTime a za in let y := VTime b zb in
    (compare LT x y = OBool true /\ compare EQL x y = OBool false /\ compare GT x y = OBool false) \/
    (compare LT x y = OBool false /\ compare EQL x y = OBool true /\ compare GT x y = OBool false) \/
    (compare LT x y = OBool false /\ compare EQL x y = OBool false /\ compare GT x y = OBool true).
Proof. exact order_total_lemma. Qed.

Theorem time_lt_transitive :
  forall a za b zb c zc,
    compare LT (VTime a za) (VTime b zb) = OBool true ->
    compare LT (VTime b zb) (VTime c zc) = OBool true ->
    compare LT (VTime a za) (VTime c zc) = OBool true.
Proof. exact lt_trans_lemma. Qed.

Theorem time_eq_hash_zone_free :
  forall a za b zb,
    compare EQL (VTime a za) (VTime b zb) = OBool true ->
    hash (VTime a za) = hash (VTime b zb) /\
    (forall c, compare c (VTime a za) (VTime b zb) = compare c (VTime a 0) (VTime b 0)).
Proof. exact eq_zone_free_hash_lemma. Qed.

Theorem duration_order :
  forall a b c,
    (compare LE (VDur a) (VDur b) = OBool true \/ compare LE (VDur b) (VDur a) = OBool true) /\
    (compare EQL (VDur a) (VDur b) = OBool true -> hash (VDur a) = hash (VDur b)) /\
    (compare LT (VDur a) (VDur b) = OBool true -> compare LT (VDur b) (VDur c) = OBool true ->
     compare LT (VDur a) (VDur c) = OBool true) /\
    (compare LE (VDur a) (VDur b) = OBool true -> compare LE (VDur b) (VDur a) = OBool true ->
     compare EQL (VDur a) (VDur b) = OBool true).
Proof. exact dur_order_lemma. Qed.

Theorem timestamp_roundtrip :
  forall t,
    from_timestamp (attr_unix t) (attr_nanosecond t) = t /\
    (in_int64 t = true -> from_timestamp 0 (attr_unix_nano t) = t) /\
    0 <= attr_nanosecond t < 1000000000.
Proof. exact timestamp_roundtrip_lemma. Qed.

(* != is the negation of == on every pair of values (an error or an
   out-of-scope answer is the same for both). *)
Theorem neq_is_negation :
  forall x y, compare NEQ x y = out_negb (compare EQL x y).
Proof. exact neq_is_negation_lemma. Qed.

(* On two times or two durations all six operators are read off one three-way
   comparison of the instants: <= is (< or ==), > its negation, >= the negation
   of <, and the mirrored comparison agrees. *)
Theorem comparison_operators_coherent :
  forall x y, same_kind x y = true ->
    exists lt eq,
      compare LT x y = OBool lt /\ compare EQL x y = OBool eq /\
      compare LE x y = OBool (lt || eq) /\
      compare GT x y = OBool (negb (lt || eq)) /\
      compare GE x y = OBool (negb lt) /\
      compare NEQ x y = OBool (negb eq) /\
      compare GT y x = OBool lt /\ compare EQL y x = OBool eq /\
      (lt && eq = false).
Proof. exact derived_operators_lemma. Qed.

(* A time or duration is never equal to, and never ordered with, a value of
   another kind. *)
Theorem cross_kind_comparisons :
  forall x y, involves_time x y = true -> same_kind x y = false ->
    compare EQL x y = OBool false /\ compare NEQ x y = OBool true /\
    compare LT x y = OErr /\ compare LE x y = OErr /\
    compare GT x y = OErr /\ compare GE x y = OErr.
Proof. exact cross_kind_lemma. Qed.

(* == implies equal hashes for every pair of values involving a time or a
   duration, whatever the zones. *)
Theorem eq_implies_equal_hash :
  forall x y, involves_time x y = true ->
    compare EQL x y = OBool true -> hash x = hash y.
Proof. exact eq_hash_all_lemma. Qed.

(* Constructor direction of the timestamp round trip: from_timestamp accepts any
   nanosecond argument and carries it into the seconds; in-range arguments read
   back unchanged. *)
Theorem from_timestamp_normalises :
  forall sec nsec,
    attr_unix (from_timestamp sec nsec) = sec + nsec / 1000000000 /\
    attr_nanosecond (from_timestamp sec nsec) = nsec mod 1000000000 /\
    (0 <= nsec < 1000000000 ->
       attr_unix (from_timestamp sec nsec) = sec /\
       attr_nanosecond (from_timestamp sec nsec) = nsec).
Proof. exact from_timestamp_normalises_lemma. Qed.

Theorem from_timestamp_injective :
  forall s1 n1 s2 n2,
    from_timestamp s1 n1 = from_timestamp s2 n2 <->
    (s1 + n1 / 1000000000 = s2 + n2 / 1000000000 /\ n1 mod 1000000000 = n2 mod 1000000000).
Proof. exact from_timestamp_injective_lemma. Qed.

(* The guard of add_sub_inverse (d is not the minimum int64) is needed: for that
   single duration (-292.47 years, outside the quantified +-292 years) Go's -d
   wraps and `t - d` is evaluated as `t + d`.  Stated so that the exclusion in
   val_in_range is visible, not silently assumed. *)
Theorem sub_min_duration_wraps :
  forall t z,
    dispatch MINUS (VTime t z) (VDur min_int64) = OTime (t + min_int64) z /\
    dispatch MINUS (VTime t z) (VDur min_int64) <> spec MINUS (VTime t z) (VDur min_int64).
Proof. exact sub_min_duration_lemma. Qed.

Example comparison_premises_hold :
  same_kind (VTime 5 1) (VTime 5 2) = true /\ compare LE (VTime 5 1) (VTime 5 2) = OBool true /\
  involves_time (VDur 1) (VInt 1) = true /\ same_kind (VDur 1) (VInt 1) = false /\
  attr_unix (from_timestamp 10 (-1)) = 9 /\ attr_nanosecond (from_timestamp 10 (-1)) = 999999999.
Proof. vm_compute. repeat split. Qed.

(* Non-vacuity: concrete operands meet the hypotheses of binary_table_exact. *)
Example table_premises_hold :
  let x := VDur 3600000000000 in let y := VTime 1700000000123456789 2 in
  involves_time x y = true /\ val_in_range x = true /\ val_in_range y = true /\
  out_in_range (spec PLUS x y) = true /\ dispatch MINUS x y = OErr /\
  dispatch PLUS x y = OTime 1700003600123456789 2.
Proof. vm_compute. repeat split. Qed.
