(* C19 -- property theorems only.  Each is closed by `exact <lemma>`; axioms are
   printed by the audit step of bin/check (Print Assumptions per theorem). *)
From Coq Require Import ZArith Bool List.
From SV Require Import Common.GoInt C19.Model C19.Spec C19.Proofs.
Open Scope Z_scope.

(* Each operator applied to operands in the order written gives the exact
   nanosecond result the documented table defines for that ordered pair of
   kinds, or is rejected; never the reversed or another operation.  Guard:
   operands and the exact result are representable (int64 nanoseconds, the
   +-292 year range of the property's quantifier). *)
Theorem binary_table_exact :
  forall o x y,
    involves_time x y = true ->
    val_in_range x = true -> val_in_range y = true ->
    out_in_range (spec o x y) = true ->
    dispatch o x y = spec o x y.
Proof. exact binary_table_exact_lemma. Qed.

(* The same without the guard on the result: a duration result is the exact one
   modulo 2^64 (Go's int64 wrap; time - time saturates instead), still in the written order. *)
Theorem binary_table_mod64 :
  forall o x y,
    involves_time x y = true ->
    val_in_range x = true -> val_in_range y = true ->
    dispatch o x y = overflow_out x y (spec o x y).
Proof. exact binary_table_mod64_lemma. Qed.

(* Everything outside the table is rejected, for all values whatsoever. *)
Theorem rejects_outside_table :
  forall o x y, involves_time x y = true -> spec o x y = OErr -> dispatch o x y = OErr.
Proof. exact rejects_outside_table_lemma. Qed.

Theorem add_sub_inverse :
  forall t z d,
    in_int64 d = true -> (d =? min_int64) = false ->
    dispatch PLUS (VTime t z) (VDur d) = OTime (t + d) z /\
    dispatch MINUS (VTime (t + d) z) (VDur d) = OTime t z.
Proof. exact add_sub_inverse_lemma. Qed.

Theorem sub_add_inverse :
  forall t1 z1 t2 z2,
    in_int64 (t2 - t1) = true ->
    dispatch MINUS (VTime t2 z2) (VTime t1 z1) = ODur (t2 - t1) /\
    dispatch PLUS (VDur (t2 - t1)) (VTime t1 z1) = OTime t2 z1 /\
    dispatch PLUS (VTime t1 z1) (VDur (t2 - t1)) = OTime t2 z1.
Proof. exact sub_add_inverse_lemma. Qed.

Theorem compare_exact :
  forall c x y, involves_time x y = true -> compare c x y = spec_compare c x y.
Proof. exact compare_spec_lemma. Qed.

Theorem time_order_total :
  forall a za b zb,
    let x := VTime a za in let y := VTime b zb in
    (compare LT x y = OBool true /\ compare EQL x y = OBool false /\ compare GT x y = OBool false) \/
    (compare LT x y = OBool false /\ compare EQL x y = OBool true /\ compare GT x y = OBool false) \/
    (compare LT x y = OBool false /\ compare EQL x y = OBool false /\ compare GT x y = OBool true).
Proof. exact order_total_lemma. Qed.

Theorem time_lt_transitive :
  forall a za b zb c zc,
    compare LT (VTime a za) (VTime b zb) = OBool true ->
    compare LT (VTime b zb) (VTime c zc) = OBool true ->
    compare LT (VTime a za) (VTime c zc) = OBool true.
Proof. exact lt_trans_lemma. Qed.

Theorem time_eq_hash_zone_free :
  forall a za b zb,
    compare EQL (VTime a za) (VTime b zb) = OBool true ->
    hash (VTime a za) = hash (VTime b zb) /\
    (forall c, compare c (VTime a za) (VTime b zb) = compare c (VTime a 0) (VTime b 0)).
Proof. exact eq_zone_free_hash_lemma. Qed.

Theorem duration_order :
  forall a b c,
    (compare LE (VDur a) (VDur b) = OBool true \/ compare LE (VDur b) (VDur a) = OBool true) /\
    (compare EQL (VDur a) (VDur b) = OBool true -> hash (VDur a) = hash (VDur b)) /\
    (compare LT (VDur a) (VDur b) = OBool true -> compare LT (VDur b) (VDur c) = OBool true ->
     compare LT (VDur a) (VDur c) = OBool true) /\
    (compare LE (VDur a) (VDur b) = OBool true -> compare LE (VDur b) (VDur a) = OBool true ->
     compare EQL (VDur a) (VDur b) = OBool true).
Proof. exact dur_order_lemma. Qed.

Theorem timestamp_roundtrip :
  forall t,
    from_timestamp (attr_unix t) (attr_nanosecond t) = t /\
    (in_int64 t = true -> from_timestamp 0 (attr_unix_nano t) = t) /\
    0 <= attr_nanosecond t < 1000000000.
Proof. exact timestamp_roundtrip_lemma. Qed.

(* Non-vacuity: concrete operands meet the hypotheses of binary_table_exact. *)
Example table_premises_hold :
  let x := VDur 3600000000000 in let y := VTime 1700000000123456789 2 in
  involves_time x y = true /\ val_in_range x = true /\ val_in_range y = true /\
  out_in_range (spec PLUS x y) = true /\ dispatch MINUS x y = OErr /\
  dispatch PLUS x y = OTime 1700003600123456789 2.
Proof. vm_compute. repeat split. Qed.
