(* C18 -- executable model of lib/json/json.go: `decode` and `encode` as written
   (after the three "fix:" commits; the pinned-tree versions are frozen in
   History.v).

   decode.  The Go code keeps a cursor i into the input string s shared by the
   closures skipSpace / next / parse.  Here the cursor is the remaining suffix
   s[i:] (a list of bytes); `MOk v rest` = parse returned v with the cursor at
   rest, `MErr` = the `failure` panic (recovered at the top: error, or the
   caller's default).  Recursion of parse() is by explicit fuel (MFuel is
   excluded for fuel > length by Proofs).  Starlark results are written with
   the constructors of Spec.json: None/Bool/Int/Float/String/List/Dict
   correspond one to one to JNull/JBool/JInt/JFloat/JStr/JArr/JObj (a Dict is
   its item list in iteration order).

   Library calls are modelled by their documented behaviour (oracles, defined
   here, trusted, exercised by the correspondence check on every run):
     encoding/json.Unmarshal(tok, *string)  = ej_unmarshal_string
     encoding/json.Marshal(string)          = ej_marshal_string
     strconv.AppendQuote (ASCII domain)     = append_quote
     strconv.ParseFloat(tok, 64)            = go_parse_float  (via C15.Float.dec_to_b64)
     big.Int.SetString(tok, 10)             = big_set_string
     starlark.Dict.SetKey                   = dict_setkey
     Int.String / Float.String              = int_string / fmt_g over the shortest-digits oracle *)
From Coq Require Import NArith ZArith List Bool.
From SV Require Import C15.Utf8 C15.Float C18.Spec.
Import ListNotations.
Open Scope N_scope.

Inductive mres (A : Type) :=
| MOk (a : A) (rest : list N)
| MErr
| MFuel.
Arguments MOk {A}. Arguments MErr {A}. Arguments MFuel {A}.

Definition mmap {A B} (f : A -> B) (r : mres A) : mres B :=
  match r with MOk a rest => MOk (f a) rest | MErr => MErr | MFuel => MFuel end.

(* ------------------------------------------------------------ skipSpace/next *)
Definition is_space (b : N) : bool :=
  negb (negb (b =? 32) && negb (b =? 9) && negb (b =? 10) && negb (b =? 13)).
Fixpoint skip_space (d : list N) : list N :=
  match d with
  | b :: r => if is_space b then skip_space r else d
  | [] => []
  end.

(* ------------------------------------------------- oracle: encoding/json, in *)
(* checkValid on a token that starts with a quotation mark: the scanner's string
   states (stateInString, stateInStringEsc, stateInStringEscU..U123) and
   stateEndValue/stateEndTop (only white space may follow). *)
Definition is_hex (b : N) : bool :=
  ((48 <=? b) && (b <=? 57)) || ((97 <=? b) && (b <=? 102)) || ((65 <=? b) && (b <=? 70)).
Definition is_esc_char (c : N) : bool :=
  (c =? 98) || (c =? 102) || (c =? 110) || (c =? 114) || (c =? 116) || (c =? 92) || (c =? 47) || (c =? 34).
Fixpoint ej_scan_string (d : list N) : bool :=
  match d with
  | [] => false
  | b :: r =>
      if b =? 34 then forallb is_space r
      else if b =? 92 then
        match r with
        | [] => false
        | c :: r2 =>
            if c =? 117 then
              match r2 with
              | h1 :: h2 :: h3 :: h4 :: r3 => is_hex h1 && is_hex h2 && is_hex h3 && is_hex h4 && ej_scan_string r3
              | _ => false
              end
            else if is_esc_char c then ej_scan_string r2
            else false
        end
      else if b <? 32 then false
      else ej_scan_string r
  end.

(* getu4: the code unit of "\uXXXX" at the head of s, None for Go's -1 *)
Definition hexdigit (b : N) : option N :=
  if (48 <=? b) && (b <=? 57) then Some (b - 48)
  else if (97 <=? b) && (b <=? 102) then Some (b - 97 + 10)
  else if (65 <=? b) && (b <=? 70) then Some (b - 65 + 10)
  else None.
Definition getu4 (s : list N) : option N :=
  match s with
  | a :: b :: h1 :: h2 :: h3 :: h4 :: _ =>
      if (a =? 92) && (b =? 117) then
        match hexdigit h1, hexdigit h2, hexdigit h3, hexdigit h4 with
        | Some x, Some y, Some z, Some w => Some (((x * 16 + y) * 16 + z) * 16 + w)
        | _, _, _, _ => None
        end
      else None
  | _ => None
  end.
(* utf16.DecodeRune(r1, r2); r2 = None stands for -1 *)
Definition utf16_decode (r1 : N) (r2 : option N) : N :=
  match r2 with
  | Some r2 =>
      if (0xD800 <=? r1) && (r1 <? 0xDC00) && (0xDC00 <=? r2) && (r2 <? 0xE000)
      then (r1 - 0xD800) * 1024 + (r2 - 0xDC00) + 0x10000
      else 0xFFFD
  | None => 0xFFFD
  end.

(* unquoteBytes on the text between the quotation marks (general loop; the
   "nothing unusual" fast path returns the same bytes) *)
Fixpoint ej_unquote (fuel : nat) (s : list N) : option (list N) :=
  match fuel with
  | O => None
  | S f =>
      match s with
      | [] => Some []
      | c :: r =>
          if c =? 92 then
            match r with
            | [] => None
            | e :: r2 =>
                let lit (x : N) := option_map (cons x) (ej_unquote f r2) in
                if (e =? 34) || (e =? 92) || (e =? 47) || (e =? 39) then lit e
                else if e =? 98 then lit 8
                else if e =? 102 then lit 12
                else if e =? 110 then lit 10
                else if e =? 114 then lit 13
                else if e =? 116 then lit 9
                else if e =? 117 then
                  match getu4 s with
                  | None => None
                  | Some rr =>
                      let r6 := skipn 6 s in
                      if is_surrogate rr then
                        let dec := utf16_decode rr (getu4 r6) in
                        if negb (dec =? 0xFFFD)
                        then option_map (app (utf8_encode dec)) (ej_unquote f (skipn 6 r6))
                        else option_map (app (utf8_encode 0xFFFD)) (ej_unquote f r6)
                      else option_map (app (utf8_encode rr)) (ej_unquote f r6)
                  end
                else None
            end
          else if (c =? 34) || (c <? 32) then None
          else if c <? 128 then option_map (cons c) (ej_unquote f r)
          else
            let (rr, size) := utf8_decode s in
            option_map (app (utf8_encode rr)) (ej_unquote f (skipn size s))
      end
  end.

(* json.Unmarshal([]byte(tok), &r) for a token that begins with a quotation mark:
   None = error *)
Definition ej_unmarshal_string (tok : list N) : option (list N) :=
  match tok with
  | q :: body =>
      if (q =? 34) && ej_scan_string body
      then
        (* literal = tok (no surrounding space in our use); strip the two quotes *)
        let inner := removelast body in
        ej_unquote (S (length inner)) inner
      else None
  | [] => None
  end.

(* ------------------------------------------------------ parse: string tokens *)
(* the loop "for ; j < len(s); j++" starting after the opening quote.
   Returns (raw text between the quotes, safe, cursor after the closing quote);
   None = not closed. *)
Fixpoint scan_string (d : list N) (safe : bool) (acc : list N) : option (list N * bool * list N) :=
  match d with
  | [] => None
  | b :: r =>
      if b =? 92 then
        match r with
        | [] => None                                  (* j++ runs past the end: not closed *)
        | c :: r2 => scan_string r2 false (c :: b :: acc)
        end
      else if b =? 34 then Some (rev acc, safe, r)
      else if (128 <=? b) || (b <? 32) then scan_string r false (b :: acc)
      else scan_string r safe (b :: acc)
  end.

Definition parse_string (r : list N) : mres json :=
  match scan_string r true [] with
  | None => MErr
  | Some (raw, safe, rest) =>
      if safe then MOk (JStr raw) rest
      else match ej_unmarshal_string (34 :: raw ++ [34]) with
           | Some s => MOk (JStr s) rest
           | None => MErr
           end
  end.

(* ------------------------------------------------------ parse: number tokens *)
Definition isdigit (b : N) : bool := (48 <=? b) && (b <=? 57).
(* the scan "for j = i + 1; ..." : (bytes taken, float, rest) *)
Fixpoint scan_num (d : list N) : list N * bool * list N :=
  match d with
  | b :: r =>
      if isdigit b then let '(t, fl, rest) := scan_num r in (b :: t, fl, rest)
      else if (b =? 46) || (b =? 101) || (b =? 69) || (b =? 43) || (b =? 45)
      then let '(t, _, rest) := scan_num r in (b :: t, true, rest)
      else ([], false, d)
  | [] => ([], false, [])
  end.

Fixpoint skip_digits (s : list N) : list N :=
  match s with
  | b :: r => if isdigit b then skip_digits r else s
  | [] => []
  end.

(* func validNumber(s string) bool -- the RFC 8259 number grammar on a whole token *)
Definition valid_number (s : list N) : bool :=
  let s1 := match s with b :: r => if b =? 45 then r else s | [] => s end in
  match s1 with
  | [] => false
  | b :: r =>
      let after_int :=
        if b =? 48 then Some r
        else if (49 <=? b) && (b <=? 57) then Some (skip_digits r)
        else None in
      match after_int with
      | None => false
      | Some s2 =>
          let after_frac :=
            match s2 with
            | c :: r2 =>
                if c =? 46 then
                  match r2 with
                  | g :: _ => if isdigit g then Some (skip_digits r2) else None
                  | [] => None
                  end
                else Some s2
            | [] => Some s2
            end in
          match after_frac with
          | None => false
          | Some s3 =>
              match s3 with
              | [] => true
              | c :: r3 =>
                  if (c =? 101) || (c =? 69) then
                    let r4 := match r3 with
                              | g :: r' => if (g =? 43) || (g =? 45) then r' else r3
                              | [] => r3
                              end in
                    match r4 with
                    | g :: _ => if isdigit g then match skip_digits r4 with [] => true | _ => false end else false
                    | [] => false
                    end
                  else false
              end
          end
      end
  end.

(* oracle strconv.ParseFloat(s, 64) on the reachable alphabet [0-9+-.eE]
   (readFloat: optional sign, digits with at most one '.', at least one digit,
   optional exponent with at least one digit, nothing left over).
   None = syntax error; Some None = ErrRange (overflow); Some (Some bits). *)
Fixpoint span_digits (s : list N) : list N * list N :=
  match s with
  | b :: r => if isdigit b then let (ds, rest) := span_digits r in (b :: ds, rest) else ([], s)
  | [] => ([], [])
  end.
Definition dec_value (ds : list N) : N := fold_left (fun a b => a * 10 + (b - 48)) ds 0.
Definition go_parse_float (s : list N) : option (option N) :=
  let '(neg, s1) := match s with
                    | b :: r => if b =? 43 then (false, r) else if b =? 45 then (true, r) else (false, s)
                    | [] => (false, s)
                    end in
  let '(ip, s2) := span_digits s1 in
  let '(fp, s3) := match s2 with
                   | b :: r => if b =? 46 then span_digits r else ([], s2)
                   | [] => ([], s2)
                   end in
  match ip ++ fp with
  | [] => None
  | _ :: _ =>
      let mant := dec_value (ip ++ fp) in
      let scale := Z.of_nat (length fp) in
      match s3 with
      | [] => Some (dec_to_b64 neg mant (- scale)%Z)
      | c :: r =>
          if (c =? 101) || (c =? 69) then
            let '(eneg, r1) := match r with
                               | g :: r' => if g =? 43 then (false, r') else if g =? 45 then (true, r') else (false, r)
                               | [] => (false, r)
                               end in
            match span_digits r1 with
            | ((_ :: _) as ed, []) =>
                let e := Z.of_N (dec_value ed) in
                Some (dec_to_b64 neg mant ((if eneg then - e else e) - scale)%Z)
            | _ => None
            end
          else None
      end
  end.

(* oracle big.Int.SetString(s, 10): optional sign, one or more digits *)
Definition big_set_string (s : list N) : option Z :=
  let '(neg, s1) := match s with
                    | b :: r => if b =? 43 then (false, r) else if b =? 45 then (true, r) else (false, s)
                    | [] => (false, s)
                    end in
  match span_digits s1 with
  | ((_ :: _) as ds, []) => Some (if neg then (- Z.of_N (dec_value ds))%Z else Z.of_N (dec_value ds))
  | _ => None
  end.

(* d = b :: r with b a digit or '-' *)
Definition parse_number (b : N) (r : list N) : mres json :=
  let '(t, float, rest) := scan_num r in
  let num := b :: t in
  if negb (valid_number num) then MErr
  else if float then
    match go_parse_float num with
    | Some (Some bits) => MOk (JFloat bits) rest
    | _ => MErr
    end
  else
    match big_set_string num with
    | Some z => MOk (JInt z) rest
    | None => MErr
    end.

(* -------------------------------------------------------------- Dict.SetKey *)
Fixpoint dict_setkey (kv : list (list N * json)) (k : list N) (v : json) : list (list N * json) :=
  match kv with
  | [] => [(k, v)]
  | (k', v') :: t => if bytes_eqb k' k then (k', v) :: t else (k', v') :: dict_setkey t k v
  end.

(* --------------------------------------------------------- arrays / objects *)
(* the `for` loop of case '['; pv = parse; d = cursor at the first element *)
Fixpoint parse_elems (pv : list N -> mres json) (n : nat) (d : list N) (elems : list json) : mres json :=
  match n with
  | O => MFuel
  | S n' =>
      match pv d with
      | MOk elem rest =>
          match skip_space rest with
          | [] => MErr                                     (* next(): end of file *)
          | b :: r =>
              if negb (b =? 44) then
                if negb (b =? 93) then MErr else MOk (JArr (rev (elem :: elems))) r
              else parse_elems pv n' r (elem :: elems)
          end
      | MErr => MErr
      | MFuel => MFuel
      end
  end.

Fixpoint parse_members (pv : list N -> mres json) (n : nat) (d : list N) (dict : list (list N * json)) : mres json :=
  match n with
  | O => MFuel
  | S n' =>
      match pv d with
      | MOk (JStr key) rest =>
          match skip_space rest with
          | [] => MErr
          | c :: r1 =>
              if negb (c =? 58) then MErr
              else
                match pv r1 with
                | MOk value rest2 =>
                    let dict' := dict_setkey dict key value in
                    match skip_space rest2 with
                    | [] => MErr
                    | b :: r =>
                        if negb (b =? 44) then
                          if negb (b =? 125) then MErr else MOk (JObj dict') r
                        else parse_members pv n' r dict'
                    end
                | MErr => MErr
                | MFuel => MFuel
                end
          end
      | MOk _ _ => MErr                                    (* got %s for object key, want string *)
      | MErr => MErr
      | MFuel => MFuel
      end
  end.

Fixpoint parse (fuel : nat) (d : list N) : mres json :=
  match fuel with
  | O => MFuel
  | S f =>
      match skip_space d with
      | [] => MErr
      | b :: r =>
          if b =? 34 then parse_string r
          else if b =? 110 then
            match has_prefix lit_null (b :: r) with Some rest => MOk JNull rest | None => MErr end
          else if b =? 116 then
            match has_prefix lit_true (b :: r) with Some rest => MOk (JBool true) rest | None => MErr end
          else if b =? 102 then
            match has_prefix lit_false (b :: r) with Some rest => MOk (JBool false) rest | None => MErr end
          else if b =? 91 then
            match skip_space r with
            | [] => MErr
            | c :: r' => if negb (c =? 93) then parse_elems (parse f) f (c :: r') [] else MOk (JArr []) r'
            end
          else if b =? 123 then
            match skip_space r with
            | [] => MErr
            | c :: r' => if negb (c =? 125) then parse_members (parse f) f (c :: r') [] else MOk (JObj []) r'
            end
          else if isdigit b || (b =? 45) then parse_number b r
          else MErr
      end
  end.

Inductive dres := DOk (j : json) | DErr | DFuel.

(* v = parse(); if skipSpace() { fail } *)
Definition decode (d : list N) : dres :=
  match parse (S (length d)) d with
  | MOk v rest => match skip_space rest with [] => DOk v | _ :: _ => DErr end
  | MErr => DErr
  | MFuel => DFuel
  end.

(* decode(x, default): the recover() handler returns d exactly on `failure` *)
Inductive dres_default (A : Type) := RValue (j : json) | RDefault (a : A) | RFuel.
Arguments RValue {A}. Arguments RDefault {A}. Arguments RFuel {A}.
Definition decode_default {A} (d : list N) (dflt : A) : dres_default A :=
  match decode d with DOk j => RValue j | DErr => RDefault dflt | DFuel => RFuel end.

(* ====================================================================== encode *)
Inductive value :=
| VNone
| VBool (b : bool)
| VInt (z : Z)
| VFloat (bits : N)
| VStr (s : list N)
| VList (l : list value)
| VTuple (l : list value)
| VDict (kv : list (value * value))        (* items in iteration order; keys pairwise distinct *)
| VStruct (kv : list (list N * value))     (* fields; names pairwise distinct *)
| VOther.                                   (* function, set member of no encodable kind, ... *)

(* isPrintableASCII *)
Definition is_printable_ascii (s : list N) : bool :=
  forallb (fun b => negb ((b <? 32) || (127 <=? b))) s.

Definition hexchar (n : N) : N := if n <? 10 then 48 + n else 87 + n.

(* strconv.AppendQuote, ASCII domain (bytes >= 0x80 are never passed: guarded
   by isPrintableASCII; they are rendered here as Go renders an invalid byte) *)
Definition append_quote_byte (b : N) : list N :=
  if b =? 34 then [92; 34]
  else if b =? 92 then [92; 92]
  else if (32 <=? b) && (b <? 127) then [b]
  else if b =? 7 then [92; 97] else if b =? 8 then [92; 98] else if b =? 12 then [92; 102]
  else if b =? 10 then [92; 110] else if b =? 13 then [92; 114] else if b =? 9 then [92; 116]
  else if b =? 11 then [92; 118]
  else [92; 120; hexchar (b / 16); hexchar (b mod 16)].
Definition append_quote (s : list N) : list N := 34 :: flat_map append_quote_byte s ++ [34].

(* encoding/json.Marshal(string): appendString with escapeHTML = true *)
Definition html_safe (b : N) : bool :=
  (32 <=? b) && (b <? 128) && negb ((b =? 34) || (b =? 38) || (b =? 60) || (b =? 62) || (b =? 92)).
Definition ej_escape_byte (b : N) : list N :=
  if (b =? 92) || (b =? 34) then [92; b]
  else if b =? 8 then [92; 98] else if b =? 12 then [92; 102] else if b =? 10 then [92; 110]
  else if b =? 13 then [92; 114] else if b =? 9 then [92; 116]
  else [92; 117; 48; 48; hexchar (b / 16); hexchar (b mod 16)].
Fixpoint ej_append_string (fuel : nat) (s : list N) : list N :=
  match fuel with
  | O => []
  | S f =>
      match s with
      | [] => []
      | b :: r =>
          if b <? 128 then
            (if html_safe b then [b] else ej_escape_byte b) ++ ej_append_string f r
          else
            let (c, size) := utf8_decode s in
            if (c =? 0xFFFD) && Nat.eqb size 1 then [92; 117; 102; 102; 102; 100] ++ ej_append_string f r
            else if (c =? 0x2028) || (c =? 0x2029)
            then [92; 117; 50; 48; 50; hexchar (c mod 16)] ++ ej_append_string f (skipn size s)
            else firstn size s ++ ej_append_string f (skipn size s)
      end
  end.
Definition ej_marshal_string (s : list N) : list N := 34 :: ej_append_string (length s) s ++ [34].

(* the `quote` closure *)
Definition quote (s : list N) : list N :=
  if is_printable_ascii s then append_quote s else ej_marshal_string s.

(* Int.String: decimal *)
Fixpoint dec_digits (fuel : nat) (n : N) (acc : list N) : list N :=
  match fuel with
  | O => acc
  | S f => if n <? 10 then (48 + n) :: acc else dec_digits f (n / 10) ((48 + n mod 10) :: acc)
  end.
Definition nat_string (n : N) : list N := dec_digits (S (N.to_nat (N.log2 n))) n [].
Definition int_string (z : Z) : list N :=
  if (z <? 0)%Z then 45 :: nat_string (Z.to_N (- z)) else nat_string (Z.to_N z).

(* sort.Slice(items, key <) / sort.Strings: keys are pairwise distinct, so the
   result is the unique sorted permutation; modelled by insertion sort on the
   byte-wise order of Go strings *)
Fixpoint bytes_ltb (a b : list N) : bool :=
  match a, b with
  | [], [] => false
  | [], _ :: _ => true
  | _ :: _, [] => false
  | x :: a', y :: b' => if x <? y then true else if y <? x then false else bytes_ltb a' b'
  end.
Fixpoint insert_by_key {A} (k : list N) (v : A) (l : list (list N * A)) : list (list N * A) :=
  match l with
  | [] => [(k, v)]
  | (k', v') :: t => if bytes_ltb k' k then (k', v') :: insert_by_key k v t else (k, v) :: l
  end.
Fixpoint sort_by_key {A} (l : list (list N * A)) : list (list N * A) :=
  match l with
  | [] => []
  | (k, v) :: t => insert_by_key k v (sort_by_key t)
  end.

Fixpoint join (l : list (list N)) : list N :=
  match l with
  | [] => []
  | [a] => a
  | a :: t => a ++ [44] ++ join t
  end.
Definition obind {A B} (o : option A) (f : A -> option B) : option B :=
  match o with Some a => f a | None => None end.
Definition member (kv : list N * list N) : list N := quote (fst kv) ++ [58] ++ snd kv.

Section Emit.
  (* Float.String(): fstr bits = fmt_g applied to strconv's shortest digits *)
  Variable fstr : N -> list N.

  (* None = encode returned an error.  The Go code emits the members of a dict
     while walking the sorted items; here every value is emitted first and the
     emitted texts are sorted by key -- the same bytes, and an error in any
     member is an error of the whole (only error / no error is modelled). *)
  Fixpoint emit (x : value) : option (list N) :=
    match x with
    | VNone => Some lit_null
    | VBool true => Some lit_true
    | VBool false => Some lit_false
    | VInt z => Some (int_string z)
    | VFloat bits => if b64_is_finite bits then Some (fstr bits) else None
    | VStr s => Some (quote s)
    | VDict kv =>
        obind ((fix go (l : list (value * value)) : option (list (list N * list N)) :=
                  match l with
                  | [] => Some []
                  | (VStr k, v) :: t => obind (emit v) (fun sv => option_map (cons (k, sv)) (go t))
                  | _ :: _ => None                      (* %s has %s key, want string *)
                  end) kv)
              (fun items => Some ([123] ++ join (map member (sort_by_key items)) ++ [125]))
    | VList l | VTuple l =>
        obind ((fix go (l : list value) : option (list (list N)) :=
                  match l with
                  | [] => Some []
                  | e :: t => obind (emit e) (fun se => option_map (cons se) (go t))
                  end) l)
              (fun items => Some ([91] ++ join items ++ [93]))
    | VStruct kv =>
        obind ((fix go (l : list (list N * value)) : option (list (list N * list N)) :=
                  match l with
                  | [] => Some []
                  | (k, v) :: t => obind (emit v) (fun sv => option_map (cons (k, sv)) (go t))
                  end) kv)
              (fun items => Some ([123] ++ join (map member (sort_by_key items)) ++ [125]))
    | VOther => None
    end.
End Emit.

Definition encode := emit.
