(* C18 -- RFC 8259 as a reference decoder over byte lists (a byte is an N < 256).

   Written from the grammar of RFC 8259 sections 2-9, independently of
   lib/json/json.go.  It is a left-to-right recursive descent with maximal
   munch on numbers; every loop has explicit fuel and fuel exhaustion is the
   distinguished result SFuel / SpecFuel, which Proofs*.v exclude for the fuel
   used by spec_decode (S (length d)).

     JSON-text = ws value ws          ws = *( %x20 / %x09 / %x0A / %x0D )
     value     = false / null / true / object / array / number / string
     number    = [ minus ] int [ frac ] [ exp ]      int = zero / ( digit1-9 *DIGIT )
     frac      = "." 1*DIGIT                          exp = e [ minus / plus ] 1*DIGIT
     string    = quotation-mark *char quotation-mark
     char      = unescaped (%x20-21 / %x23-5B / %x5D-10FFFF) / backslash ( quote / backslash / slash / b f n r t / uXXXX )
     array     = "[" ws [ value *( ws "," ws value ) ] ws "]"
     object    = "{" ws [ member *( ws "," ws member ) ] ws "}"   member = string ws ":" ws value

   The value of a document is a [json] tree.  Choices where the RFC leaves room
   (each is a judgement call, the first three fixed by the task brief):

   1. Strings are sequences of Unicode code points; the value carries their
      UTF-8 bytes.  A \uXXXX escape that is a high surrogate immediately
      followed by a \uXXXX low surrogate denotes the astral code point.  A lone
      surrogate escape is grammatical (RFC 8259 section 8.2 leaves the
      behaviour open); it denotes U+FFFD (EF BF BD); a high surrogate followed
      by a \u escape that is not a low surrogate gives U+FFFD and the second
      escape is then read on its own (what Go's encoding/json does).
   2. Ill-formed UTF-8 inside a string is accepted; each offending byte denotes
      U+FFFD, stepping exactly as Go's utf8.DecodeRune (width 1 per bad byte).
      RFC 8259 section 8.1 requires UTF-8 but says nothing about a receiver's
      duty to reject; Go's decoder is lenient here and so is this reference.
   3. Numbers: a token with neither frac nor exp is an integer of any size
      ("-0" is the integer 0).  A token with frac or exp is a binary64: the
      correctly rounded (nearest-even) value of the decimal, underflow gives a
      zero of the token's sign; if it rounds to infinity the document is
      "valid but not representable": the decoder stops with SRange at that
      token (what follows it is not examined - such a document is rejected by
      the implementation either way).
   4. Objects have dict semantics: a later duplicate of a key overwrites the
      value and keeps the position of the first occurrence (RFC 8259 section 4
      leaves duplicates open; this is what starlark.Dict.SetKey does).  Keys
      are compared after unescaping. *)
From Coq Require Import NArith ZArith List Bool.
From SV Require Import C15.Utf8 C15.Float.
Import ListNotations.
Open Scope N_scope.

Inductive json :=
| JNull
| JBool (b : bool)
| JInt (z : Z)
| JFloat (bits : N)                 (* IEEE-754 binary64 bit pattern *)
| JStr (s : list N)                 (* UTF-8 bytes of the decoded string *)
| JArr (l : list json)
| JObj (kv : list (list N * json)).

Inductive sres (A : Type) :=
| SOk (a : A) (rest : list N)
| SInvalid
| SRange
| SFuel.
Arguments SOk {A}. Arguments SInvalid {A}. Arguments SRange {A}. Arguments SFuel {A}.

Definition smap {A B} (f : A -> B) (r : sres A) : sres B :=
  match r with SOk a rest => SOk (f a) rest | SInvalid => SInvalid | SRange => SRange | SFuel => SFuel end.

(* ---------------------------------------------------------------- whitespace *)
Definition is_ws (b : N) : bool := (b =? 32) || (b =? 9) || (b =? 10) || (b =? 13).
Fixpoint skip_ws (d : list N) : list N :=
  match d with
  | b :: r => if is_ws b then skip_ws r else d
  | [] => []
  end.

(* ------------------------------------------------------------------- numbers *)
Definition is_digit (b : N) : bool := (48 <=? b) && (b <=? 57).
Fixpoint take_digits (d : list N) : list N * list N :=
  match d with
  | b :: r => if is_digit b then let (ds, rest) := take_digits r in (b :: ds, rest) else ([], d)
  | [] => ([], [])
  end.
Definition digits_val (ds : list N) : N := fold_left (fun a b => a * 10 + (b - 48)) ds 0.

(* frac = "." 1*DIGIT ; returns the digits (possibly none: no frac present) *)
Definition take_frac (d : list N) : list N * list N :=
  match d with
  | b :: r =>
      if b =? 46 then
        match take_digits r with
        | ([], _) => ([], d)            (* "." not followed by a digit: not a frac *)
        | (ds, rest) => (ds, rest)
        end
      else ([], d)
  | [] => ([], [])
  end.

(* exp = ("e"/"E") ["-"/"+"] 1*DIGIT ; Some (exponent) when present *)
Definition take_exp (d : list N) : option Z * list N :=
  match d with
  | b :: r =>
      if (b =? 101) || (b =? 69) then
        let '(neg, r1) := match r with
                          | c :: r' => if c =? 45 then (true, r') else if c =? 43 then (false, r') else (false, r)
                          | [] => (false, r)
                          end in
        match take_digits r1 with
        | ([], _) => (None, d)
        | (ds, rest) => (Some (if neg then (- Z.of_N (digits_val ds))%Z else Z.of_N (digits_val ds)), rest)
        end
      else (None, d)
  | [] => (None, [])
  end.

(* d starts at the first byte of the token *)
Definition spec_number (d : list N) : sres json :=
  let '(neg, d1) := match d with
                    | b :: r => if b =? 45 then (true, r) else (false, d)
                    | [] => (false, d)
                    end in
  match d1 with
  | [] => SInvalid
  | b :: r =>
      if negb (is_digit b) then SInvalid
      else
        let '(ip, d2) := if b =? 48 then ([b], r) else take_digits d1 in
        let '(fp, d3) := take_frac d2 in
        let '(ex, d4) := take_exp d3 in
        match fp, ex with
        | [], None => SOk (JInt (if neg then (- Z.of_N (digits_val ip))%Z else Z.of_N (digits_val ip))) d4
        | _, _ =>
            let e := match ex with Some e => e | None => 0%Z end in
            match dec_to_b64 neg (digits_val (ip ++ fp)) (e - Z.of_nat (length fp))%Z with
            | Some bits => SOk (JFloat bits) d4
            | None => SRange
            end
        end
  end.

(* ------------------------------------------------------------------- strings *)
Definition hexval (b : N) : option N :=
  if is_digit b then Some (b - 48)
  else if (97 <=? b) && (b <=? 102) then Some (b - 87)
  else if (65 <=? b) && (b <=? 70) then Some (b - 55)
  else None.
Definition hex4 (d : list N) : option (N * list N) :=
  match d with
  | a :: b :: c :: e :: r =>
      match hexval a, hexval b, hexval c, hexval e with
      | Some x, Some y, Some z, Some w => Some (x * 4096 + y * 256 + z * 16 + w, r)
      | _, _, _, _ => None
      end
  | _ => None
  end.
(* "\uXXXX" at the head of d *)
Definition u_escape (d : list N) : option (N * list N) :=
  match d with
  | a :: b :: r => if (a =? 92) && (b =? 117) then hex4 r else None
  | _ => None
  end.
Definition is_high (u : N) : bool := (0xD800 <=? u) && (u <? 0xDC00).
Definition is_low (u : N) : bool := (0xDC00 <=? u) && (u <? 0xE000).
Definition pair_rune (hi lo : N) : N := 0x10000 + (hi - 0xD800) * 1024 + (lo - 0xDC00).
Definition short_escape (c : N) : option N :=
  if c =? 34 then Some 34 else if c =? 92 then Some 92 else if c =? 47 then Some 47
  else if c =? 98 then Some 8 else if c =? 102 then Some 12 else if c =? 110 then Some 10
  else if c =? 114 then Some 13 else if c =? 116 then Some 9 else None.

Definition scons (pre : list N) (r : sres (list N)) : sres (list N) := smap (app pre) r.

(* after the opening quotation mark; yields the UTF-8 bytes of the code points *)
Fixpoint spec_chars (fuel : nat) (d : list N) : sres (list N) :=
  match fuel with
  | O => SFuel
  | S f =>
      match d with
      | [] => SInvalid
      | b :: r =>
          if b =? 34 then SOk [] r
          else if b <? 32 then SInvalid
          else if b =? 92 then
            match r with
            | [] => SInvalid
            | c :: r2 =>
                if c =? 117 then
                  match hex4 r2 with
                  | None => SInvalid
                  | Some (u, r3) =>
                      if is_high u then
                        match u_escape r3 with
                        | Some (u2, r5) =>
                            if is_low u2 then scons (utf8_encode (pair_rune u u2)) (spec_chars f r5)
                            else scons (utf8_encode rune_error) (spec_chars f r3)
                        | None => scons (utf8_encode rune_error) (spec_chars f r3)
                        end
                      else if is_low u then scons (utf8_encode rune_error) (spec_chars f r3)
                      else scons (utf8_encode u) (spec_chars f r3)
                  end
                else
                  match short_escape c with
                  | Some x => scons [x] (spec_chars f r2)
                  | None => SInvalid
                  end
            end
          else
            (* unescaped: one code point; an ill-formed byte reads as (U+FFFD, 1) *)
            let (rn, w) := utf8_decode d in
            scons (utf8_encode rn) (spec_chars f (skipn w d))
      end
  end.

Definition spec_string (r : list N) : sres (list N) := spec_chars (S (length r)) r.

(* ------------------------------------------------------------------- objects *)
Fixpoint bytes_eqb (a b : list N) : bool :=
  match a, b with
  | [], [] => true
  | x :: a', y :: b' => (x =? y) && bytes_eqb a' b'
  | _, _ => false
  end.
Fixpoint obj_set (kv : list (list N * json)) (k : list N) (v : json) : list (list N * json) :=
  match kv with
  | [] => [(k, v)]
  | (k', v') :: t => if bytes_eqb k k' then (k', v) :: t else (k', v') :: obj_set t k v
  end.

(* ----------------------------------------------------------- arrays, objects *)
(* pv reads one value (skipping leading ws).  d is just after "[" ws or "," *)
Fixpoint spec_elems (pv : list N -> sres json) (n : nat) (d : list N) (acc : list json) : sres (list json) :=
  match n with
  | O => SFuel
  | S n' =>
      match pv d with
      | SOk v rest =>
          match skip_ws rest with
          | b :: r =>
              if b =? 44 then spec_elems pv n' r (v :: acc)
              else if b =? 93 then SOk (rev (v :: acc)) r
              else SInvalid
          | [] => SInvalid
          end
      | SInvalid => SInvalid
      | SRange => SRange
      | SFuel => SFuel
      end
  end.

Fixpoint spec_members (pv : list N -> sres json) (n : nat) (d : list N) (acc : list (list N * json))
  : sres (list (list N * json)) :=
  match n with
  | O => SFuel
  | S n' =>
      match skip_ws d with
      | [] => SInvalid
      | q :: r0 =>
          if negb (q =? 34) then SInvalid
          else
            match spec_string r0 with
            | SOk k rest =>
                match skip_ws rest with
                | c :: r1 =>
                    if negb (c =? 58) then SInvalid
                    else
                      match pv r1 with
                      | SOk v rest2 =>
                          match skip_ws rest2 with
                          | b :: r =>
                              if b =? 44 then spec_members pv n' r (obj_set acc k v)
                              else if b =? 125 then SOk (obj_set acc k v) r
                              else SInvalid
                          | [] => SInvalid
                          end
                      | SInvalid => SInvalid
                      | SRange => SRange
                      | SFuel => SFuel
                      end
                | [] => SInvalid
                end
            | SInvalid => SInvalid
            | SRange => SRange
            | SFuel => SFuel
            end
      end
  end.

Fixpoint has_prefix (p d : list N) : option (list N) :=
  match p, d with
  | [], _ => Some d
  | x :: p', y :: d' => if x =? y then has_prefix p' d' else None
  | _ :: _, [] => None
  end.

Definition lit_null : list N := [110; 117; 108; 108].
Definition lit_true : list N := [116; 114; 117; 101].
Definition lit_false : list N := [102; 97; 108; 115; 101].

Fixpoint spec_value (fuel : nat) (d : list N) : sres json :=
  match fuel with
  | O => SFuel
  | S f =>
      match skip_ws d with
      | [] => SInvalid
      | b :: r =>
          if b =? 34 then smap JStr (spec_string r)
          else if b =? 110 then match has_prefix lit_null (b :: r) with Some rest => SOk JNull rest | None => SInvalid end
          else if b =? 116 then match has_prefix lit_true (b :: r) with Some rest => SOk (JBool true) rest | None => SInvalid end
          else if b =? 102 then match has_prefix lit_false (b :: r) with Some rest => SOk (JBool false) rest | None => SInvalid end
          else if b =? 91 then
            match skip_ws r with
            | c :: r' => if c =? 93 then SOk (JArr []) r' else smap JArr (spec_elems (spec_value f) f r [])
            | [] => SInvalid
            end
          else if b =? 123 then
            match skip_ws r with
            | c :: r' => if c =? 125 then SOk (JObj []) r' else smap JObj (spec_members (spec_value f) f r [])
            | [] => SInvalid
            end
          else if is_digit b || (b =? 45) then spec_number (b :: r)
          else SInvalid
      end
  end.

Inductive spec_outcome :=
| SpecOk (j : json)
| SpecInvalid
| SpecRange
| SpecFuel.

Definition spec_decode (d : list N) : spec_outcome :=
  match spec_value (S (length d)) d with
  | SOk j rest => match skip_ws rest with [] => SpecOk j | _ :: _ => SpecInvalid end
  | SInvalid => SpecInvalid
  | SRange => SpecRange
  | SFuel => SpecFuel
  end.

Definition spec_valid (d : list N) : bool :=
  match spec_decode d with SpecOk _ | SpecRange => true | _ => false end.

(* ------------------------------------------------------- decidable equality *)
Fixpoint json_eqb (a b : json) : bool :=
  match a, b with
  | JNull, JNull => true
  | JBool x, JBool y => Bool.eqb x y
  | JInt x, JInt y => Z.eqb x y
  | JFloat x, JFloat y => N.eqb x y
  | JStr x, JStr y => bytes_eqb x y
  | JArr x, JArr y =>
      (fix go (x y : list json) : bool :=
         match x, y with
         | [], [] => true
         | a :: x', b :: y' => json_eqb a b && go x' y'
         | _, _ => false
         end) x y
  | JObj x, JObj y =>
      (fix go (x y : list (list N * json)) : bool :=
         match x, y with
         | [], [] => true
         | (k, a) :: x', (k', b) :: y' => bytes_eqb k k' && json_eqb a b && go x' y'
         | _, _ => false
         end) x y
  | _, _ => false
  end.
