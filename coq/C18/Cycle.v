(* C18 -- cycle detection of json.encode on values with identity.

   The tree-shaped `value` of Model.v cannot be cyclic.  Here a Starlark object
   graph is a heap: a list of nodes addressed by index; a container node lists
   the references of its children.  `emit_h` is `emit` restricted to what
   matters for cycles: the `path` of container pointers (pathContains / append
   / the deferred pop), recursion into the children, errors.  Scalars (None,
   Bool, Int, Float, String: pointer(x) == nil in the Go code) are leaves that
   are not pushed.

   Theorem: with the check, encode returns (a text or an error) on EVERY heap,
   cyclic or not: recursion depth is bounded by the number of containers, so
   fuel = S (length heap) always suffices.  Without the check a self-loop
   exhausts every fuel (the Go program overflows its stack). *)
From Coq Require Import NArith List Bool Lia PeanoNat.
Import ListNotations.

Notation ref := nat (only parsing).
Inductive hnode :=
| HLeaf (text : list N)            (* scalar: its JSON text *)
| HSeq (children : list ref)       (* list / tuple / dict values / struct fields *)
| HBad.                            (* a value json.encode cannot encode *)
Definition heap := list hnode.

Inductive eres := EOk (out : list N) | ECycle | EOther | EFuel.

Definition on_path (path : list ref) (r : ref) : bool := existsb (Nat.eqb r) path.

Fixpoint emit_h (fuel : nat) (h : heap) (path : list ref) (r : ref) : eres :=
  match fuel with
  | O => EFuel
  | S f =>
      match nth_error h r with
      | None => EOther
      | Some (HLeaf t) => EOk t
      | Some HBad => EOther
      | Some (HSeq cs) =>
          if on_path path r then ECycle                 (* "cycle in JSON structure" *)
          else
            match
            (fix go (cs : list ref) (first : bool) : eres :=
               match cs with
               | [] => EOk [93%N]
               | c :: t =>
                   match emit_h f h (r :: path) c with
                   | EOk s =>
                       match go t false with
                       | EOk st => EOk ((if first then [] else [44%N]) ++ s ++ st)
                       | e => e
                       end
                   | e => e
                   end
               end) cs true
            with EOk s => EOk (91%N :: s) | e => e end
      end
  end.

(* the same without the check *)
Fixpoint emit_nocheck (fuel : nat) (h : heap) (r : ref) : eres :=
  match fuel with
  | O => EFuel
  | S f =>
      match nth_error h r with
      | None => EOther
      | Some (HLeaf t) => EOk t
      | Some HBad => EOther
      | Some (HSeq cs) =>
          match
          (fix go (cs : list ref) (first : bool) : eres :=
             match cs with
             | [] => EOk [93%N]
             | c :: t =>
                 match emit_nocheck f h c with
                 | EOk s =>
                     match go t false with
                     | EOk st => EOk ((if first then [] else [44%N]) ++ s ++ st)
                     | e => e
                     end
                 | e => e
                 end
             end) cs true
          with EOk s => EOk (91%N :: s) | e => e end
      end
  end.

Definition encode_h (h : heap) (r : ref) : eres := emit_h (S (length h)) h [] r.

(* ------------------------------------------------------------------ proofs *)
Lemma on_path_In path r : on_path path r = true <-> In r path.
Proof.
  unfold on_path. rewrite existsb_exists. split.
  - intros (x & I & E). apply Nat.eqb_eq in E. subst. exact I.
  - intros I. exists r. split; [exact I|apply Nat.eqb_refl].
Qed.

Lemma path_bounded (n : nat) (path : list ref) :
  NoDup path -> (forall p, In p path -> p < n) -> length path <= n.
Proof.
  intros ND B. rewrite <- (seq_length n 0). apply NoDup_incl_length; [exact ND|].
  intros p I. apply in_seq. specialize (B p I). lia.
Qed.

Lemma emit_h_total : forall fuel h path r,
  NoDup path -> (forall p, In p path -> p < length h) ->
  length h - length path < fuel ->
  emit_h fuel h path r <> EFuel.
Proof.
  induction fuel as [|f IH]; intros h path r ND B L; [lia|].
  cbn [emit_h].
  destruct (nth_error h r) as [[t|cs|]|] eqn:E; try discriminate.
  destruct (on_path path r) eqn:OP; [discriminate|].
  assert (NI : ~ In r path) by (intros I; apply on_path_In in I; congruence).
  assert (Rlt : r < length h) by (apply nth_error_Some; congruence).
  assert (ND' : NoDup (r :: path)) by (constructor; assumption).
  assert (B' : forall p, In p (r :: path) -> p < length h) by (intros p [<-|I]; auto).
  pose proof (path_bounded _ _ ND' B') as PB. cbn [length] in PB.
  assert (L' : length h - length (r :: path) < f).
  { cbn [length]. clear - L PB. lia. }
  clear E.
  match goal with
  | |- context [?g cs true] =>
      assert (G : forall first, g cs first <> EFuel);
      [|specialize (G true); destruct (g cs true); congruence]
  end.
  induction cs as [|c t IHcs]; intros first; [discriminate|].
  pose proof (IH h (r :: path) c ND' B' L') as Hc.
  destruct (emit_h f h (r :: path) c); try congruence; try discriminate.
  specialize (IHcs false).
  match goal with |- context [match ?g with EOk _ => _ | _ => _ end] => destruct g end; try congruence; discriminate.
Qed.

Lemma encode_h_total_lemma h r : encode_h h r <> EFuel.
Proof.
  unfold encode_h. apply emit_h_total; [constructor | intros p [] | cbn [length]; lia].
Qed.

(* l = []; l.append(l): node 0 is a list containing itself *)
Lemma self_loop_detected : encode_h [HSeq [0]] 0 = ECycle.
Proof. reflexivity. Qed.

(* a = [b], b = [a] ; and a shared (not cyclic) child is fine *)
Lemma indirect_loop_detected : encode_h [HSeq [1]; HSeq [0]] 0 = ECycle.
Proof. reflexivity. Qed.
(* [[1],[1]] with both elements the same list object: a DAG, not a cycle *)
Lemma shared_child_is_not_a_cycle :
  encode_h [HSeq [1; 1]; HSeq [2]; HLeaf [49%N]] 0 = EOk [91; 91; 49; 93; 44; 91; 49; 93; 93]%N.
Proof. reflexivity. Qed.

Lemma nocheck_diverges_lemma : forall fuel, emit_nocheck fuel [HSeq [0]] 0 = EFuel.
Proof. induction fuel as [|f IH]; [reflexivity|]. cbn [emit_nocheck nth_error]. rewrite IH. reflexivity. Qed.
