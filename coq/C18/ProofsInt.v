(* C18 -- the decimal text json.encode writes for an Int is read back by the
   reference as the same integer, at any size. *)
From Coq Require Import NArith ZArith List Bool Lia ZifyBool ZifyNat ZifyN.
From SV Require Import C15.Utf8 C15.Float C18.Spec C18.Model C18.ProofsBasic C18.ProofsSpec C18.ProofsNum.
Import ListNotations.
Open Scope N_scope.

Lemma digits_val_snoc ds x : digits_val (ds ++ [x]) = digits_val ds * 10 + (x - 48).
Proof. unfold digits_val. rewrite fold_left_app. reflexivity. Qed.

Lemma log2_div10 n : 10 <= n -> (N.to_nat (N.log2 (n / 10)) < N.to_nat (N.log2 n))%nat.
Proof.
  intros H.
  assert (A : n / 10 <= n / 2).
  { apply N.div_le_compat_l. lia. }
  assert (B : N.log2 (n / 10) <= N.log2 (n / 2)) by (apply N.log2_le_mono; exact A).
  assert (C : N.log2 (n / 2) = N.log2 n - 1).
  { change 2 with (2 ^ 1). rewrite <- N.shiftr_div_pow2. apply N.log2_shiftr. }
  assert (D : 1 <= N.log2 n).
  { change 1 with (N.log2 2). apply N.log2_le_mono. lia. }
  lia.
Qed.

Lemma dec_digits_spec : forall f n acc, (N.to_nat (N.log2 n) < f)%nat ->
  exists ds, dec_digits f n acc = ds ++ acc /\ forallb is_digit ds = true /\ digits_val ds = n /\
    match ds with
    | [] => False
    | d0 :: ds' => d0 = 48 -> ds' = []
    end.
Proof.
  induction f as [|f IH]; intros n acc L; [lia|]. cbn [dec_digits].
  destruct (n <? 10) eqn:N10.
  - exists [48 + n]. repeat split.
    + cbn [forallb]. unfold is_digit. lia.
    + unfold digits_val. cbn [fold_left]. lia.
  - assert (G : 10 <= n) by lia.
    pose proof (log2_div10 n G) as LD.
    destruct (IH (n / 10) ((48 + n mod 10) :: acc)) as (ds1 & E & A & V & H); [lia|].
    exists (ds1 ++ [48 + n mod 10]). repeat split.
    + rewrite E, <- app_assoc. reflexivity.
    + rewrite forallb_app, A. cbn [forallb]. pose proof (N.mod_lt n 10). unfold is_digit. lia.
    + rewrite digits_val_snoc, V. pose proof (N.div_mod n 10). pose proof (N.mod_lt n 10). lia.
    + destruct ds1 as [|d0 ds']; [contradiction|]. cbn [app]. intros Z. specialize (H Z). subst ds'.
      exfalso. subst d0. unfold digits_val in V. cbn [fold_left] in V.
      assert (n / 10 = 0) by lia.
      assert (n < 10) by (apply N.div_small_iff in H; lia). lia.
Qed.

Lemma nat_string_spec n :
  forallb is_digit (nat_string n) = true /\ digits_val (nat_string n) = n /\
  match nat_string n with [] => False | d0 :: ds' => d0 = 48 -> ds' = [] end.
Proof.
  unfold nat_string.
  destruct (dec_digits_spec (S (N.to_nat (N.log2 n))) n [] (Nat.lt_succ_diag_r _)) as (ds & E & A & V & H).
  rewrite E, app_nil_r. auto.
Qed.

Lemma take_digits_all_app ds rest : forallb is_digit ds = true -> nodigit_head rest ->
  take_digits (ds ++ rest) = (ds, rest).
Proof.
  intros A ND. revert A. induction ds as [|d ds IH]; intros A; cbn [app].
  - destruct rest as [|b t]; [reflexivity|]. simpl in *. rewrite ND. reflexivity.
  - simpl in A. apply andb_true_iff in A as [Ad A]. cbn [take_digits]. rewrite Ad, (IH A). reflexivity.
Qed.

Lemma num_parts_digits (neg : bool) ds rest :
  forallb is_digit ds = true -> match ds with [] => False | d0 :: ds' => d0 = 48 -> ds' = [] end ->
  notnum_head rest ->
  num_parts ((if neg then [45] else []) ++ ds ++ rest) = Some (neg, ds, [], None, rest).
Proof.
  intros A H NN. pose proof (notnum_nodigit _ NN) as ND.
  destruct ds as [|d0 ds']; [contradiction|].
  assert (Ad : is_digit d0 = true) by (simpl in A; apply andb_true_iff in A as [X _]; exact X).
  assert (TF : take_frac rest = ([], rest)).
  { destruct rest as [|c t]; [reflexivity|]. simpl in *. assert (E : (c =? 46) = false) by (unfold is_numchar in NN; lia).
    rewrite E. reflexivity. }
  assert (TE : take_exp rest = (None, rest)).
  { destruct rest as [|c t]; [reflexivity|]. cbn [take_exp]. simpl in NN.
    assert (E : ((c =? 101) || (c =? 69)) = false) by (unfold is_numchar in NN; lia). rewrite E. reflexivity. }
  assert (body : forall neg0 : bool,
    match (d0 :: ds') ++ rest with
    | [] => None
    | b :: r =>
        if negb (is_digit b) then None
        else let '(ip, d2) := if b =? 48 then ([b], r) else take_digits ((d0 :: ds') ++ rest) in
             let '(fp, d3) := take_frac d2 in let '(ex, d4) := take_exp d3 in Some (neg0, ip, fp, ex, d4)
    end = Some (neg0, d0 :: ds', [], None, rest)).
  { intros neg0. cbn [app]. rewrite Ad. cbn [negb].
    destruct (d0 =? 48) eqn:Z.
    - assert (d0 = 48) by lia. rewrite (H H0). cbn [app]. rewrite TF, TE. subst d0. reflexivity.
    - change (d0 :: ds' ++ rest) with ((d0 :: ds') ++ rest).
      rewrite (take_digits_all_app _ _ A ND), TF, TE. reflexivity. }
  unfold num_parts. destruct neg; cbn [app].
  - change (45 =? 45) with true. cbv iota. exact (body true).
  - assert (E : (d0 =? 45) = false) by (unfold is_digit in Ad; lia). rewrite E. exact (body false).
Qed.

Lemma int_string_reads z rest : notnum_head rest ->
  spec_number (int_string z ++ rest) = SOk (JInt z) rest /\
  exists b t, int_string z = b :: t /\ (is_digit b || (b =? 45)) = true.
Proof.
  intros NN. unfold int_string.
  destruct (z <? 0)%Z eqn:NEG.
  - destruct (nat_string_spec (Z.to_N (- z))) as (A & V & H). split.
    + rewrite spec_number_parts.
      change (45 :: nat_string (Z.to_N (- z))) with ([45] ++ nat_string (Z.to_N (- z))).
      rewrite <- app_assoc. rewrite (num_parts_digits true _ _ A H NN).
      unfold num_result, signed. rewrite V. do 2 f_equal. lia.
    + eexists _, _. split; reflexivity.
  - destruct (nat_string_spec (Z.to_N z)) as (A & V & H). split.
    + rewrite spec_number_parts.
      pose proof (num_parts_digits false _ _ A H NN) as P. cbn [app] in P. rewrite P.
      unfold num_result, signed. rewrite V. do 2 f_equal. lia.
    + destruct (nat_string (Z.to_N z)) as [|d0 ds']; [contradiction|].
      exists d0, ds'. split; [reflexivity|]. simpl in A. apply andb_true_iff in A as [X _]. rewrite X. reflexivity.
Qed.
