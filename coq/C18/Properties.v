(* C18 -- property theorems only.  Each is closed by `exact <lemma>`; axioms are
   printed by the audit step of bin/check (Print Assumptions per theorem).

   decode / parse / encode are the executable model of lib/json/json.go
   (Model.v, tied to /repo by the correspondence check on every run);
   spec_decode is the RFC 8259 reference decoder (Spec.v); jread is the JSON
   reading of a Starlark value (Reading.v). *)
From Coq Require Import NArith ZArith List Bool.
From SV Require Import C15.Utf8 C15.Float C18.Spec C18.Model C18.Reading
  C18.ProofsSpec C18.ProofsDecode C18.ProofsEncode C18.ProofsReading C18.Cycle C18.History.
Import ListNotations.
Open Scope N_scope.

(* The reference decoder is total: the fuel it runs with always suffices, so
   SpecOk / SpecInvalid / SpecRange exhaust the outcomes on every byte string. *)
Theorem spec_decode_total : forall d, spec_decode d <> SpecFuel.
Proof. exact spec_decode_total_lemma. Qed.

(* json.decode agrees with the standards-conforming decoder on EVERY byte
   string: the same value (same integers at any size, same binary64 bits, same
   string bytes, same member order) on every valid document, rejection of every
   invalid document and of every document whose number overflows binary64; and
   the model's own recursion fuel never runs out. *)
Theorem decode_agrees_with_spec : forall d,
  (forall j, spec_decode d = SpecOk j -> decode d = DOk j) /\
  (spec_decode d = SpecInvalid -> decode d = DErr) /\
  (spec_decode d = SpecRange -> decode d = DErr) /\
  decode d <> DFuel.
Proof. exact decode_agrees_with_spec_lemma. Qed.

(* json.decode(d, default) returns the caller's default exactly when the
   document is invalid (or not representable), and the document's value exactly
   when the reference gives it one -- never the default on a valid document. *)
Theorem default_only_on_invalid : forall (A : Type) (d : list N) (dflt : A),
  (decode_default d dflt = RDefault dflt <-> (spec_decode d = SpecInvalid \/ spec_decode d = SpecRange)) /\
  (forall j, decode_default d dflt = RValue j <-> spec_decode d = SpecOk j).
Proof. exact default_lemma. Qed.

(* json.encode emits a valid JSON document denoting the same data as its
   argument: for every value x on which encode succeeds (fstr = Float.String,
   constrained only by the named oracle `float_texts_read_back`: strconv's
   shortest formatting reads back), the reference decoder accepts the output and
   reads it as the JSON reading of x -- strings byte for byte (control and
   non-ASCII characters included), integers exact at any size, floats
   bit-identical, tuples as arrays, dict/struct members as an object in byte-wise
   key order.  (For a string that is not valid UTF-8 the reading has U+FFFD for
   each offending byte: Reading.v.) *)
Theorem encode_valid : forall (fstr : N -> list N) (x : value) (out : list N),
  encode fstr x = Some out -> float_texts_read_back fstr x ->
  spec_decode out = SpecOk (jread x).
Proof. exact encode_valid_lemma. Qed.

(* json.decode(json.encode(x)) is the JSON reading of x. *)
Theorem decode_encode : forall (fstr : N -> list N) (x : value) (out : list N),
  encode fstr x = Some out -> float_texts_read_back fstr x ->
  decode out = DOk (jread x).
Proof. exact decode_encode_lemma. Qed.

(* On JSON-representable x (strings valid UTF-8, finite floats, string keys,
   keys pairwise distinct) the reading is the plain one -- nothing is coerced or
   merged: strings byte for byte, tuples as lists, dict and struct as objects
   with their members in byte-wise key order. *)
Theorem reading_exact : forall x, representable x = true -> jread x = jplain x.
Proof. exact reading_exact_lemma. Qed.

(* json.decode(json.encode(x)) equals x for every JSON-representable x. *)
Theorem decode_encode_representable : forall (fstr : N -> list N) (x : value) (out : list N),
  representable x = true -> encode fstr x = Some out -> float_texts_read_back fstr x ->
  spec_decode out = SpecOk (jplain x) /\ decode out = DOk (jplain x).
Proof. exact decode_encode_representable_lemma. Qed.

(* json.encode fails exactly on the values its documentation excludes:
   non-finite floats, dicts with a non-string key, values of no JSON kind. *)
Theorem encode_errors_exactly : forall (fstr : N -> list N) (x : value),
  (exists out, encode fstr x = Some out) <-> encodable x = true.
Proof. exact encode_errors_lemma. Qed.

(* Cyclic values (Cycle.v: object graphs as heaps; the pointer path of emit):
   json.encode returns -- a text or an error, never runs away -- on EVERY object
   graph, cyclic or not; a self-referential list is reported as a cycle; and
   without the path check the same input exhausts every recursion budget. *)
Theorem encode_terminates_on_every_graph : forall (h : heap) (r : nat), encode_h h r <> EFuel.
Proof. exact encode_h_total_lemma. Qed.

Theorem cycle_check_is_needed :
  encode_h [HSeq [0%nat]] 0 = ECycle /\ forall fuel, emit_nocheck fuel [HSeq [0%nat]] 0 = EFuel.
Proof. exact (conj self_loop_detected nocheck_diverges_lemma). Qed.

(* Non-vacuity: each premise above holds on concrete, non-trivial documents.
   {"a":[1,2.5e0,"é😀"],"a":null}   (duplicate key, escapes, a pair)
   [1.]   and   "<raw newline>"                       (invalid: the repaired defects)
   [1e999]                                            (valid but not representable) *)
Example premises_hold :
  spec_decode [123;34;97;34;58;91;49;44;50;46;53;101;48;44;34;92;117;48;48;101;57;92;117;100;56;51;100;92;117;100;101;48;48;34;93;44;34;97;34;58;110;117;108;108;125]
    = SpecOk (JObj [([97], JNull)]) /\
  spec_decode [123;34;97;34;58;91;49;44;50;46;53;101;48;44;34;92;117;48;48;101;57;92;117;100;56;51;100;92;117;100;101;48;48;34;93;125]
    = SpecOk (JObj [([97], JArr [JInt 1; JFloat 4612811918334230528; JStr [195;169;240;159;152;128]])]) /\
  spec_decode [91;49;46;93] = SpecInvalid /\
  spec_decode [34;10;34] = SpecInvalid /\
  spec_decode [91;49;101;57;57;57;93] = SpecRange /\
  decode_default [91;49;46;93] 7%nat = RDefault 7%nat.
Proof. vm_compute. repeat split. Qed.

(* Non-vacuity of encode_valid / decode_encode: struct(b = (1.5, -0.0, 1e21), a = {"k\x7f": [None, 2^70]})
   with Float.String given by fmt_g on the shortest digits of the three floats. *)
Definition ex_fstr (b : N) : list N :=
  if b =? 4609434218613702656 then fmt_g false [1; 5] 1
  else if b =? 9223372036854775808 then fmt_g true [] 0
  else fmt_g false [1] 22.
Definition ex_value : value :=
  VStruct [([98], VTuple [VFloat 4609434218613702656; VFloat 9223372036854775808; VFloat 4921056587992461136]);
           ([97], VDict [(VStr [107; 127], VList [VNone; VInt 1180591620717411303424])])].
Example encode_premises_hold :
  float_texts_read_back ex_fstr ex_value /\
  representable ex_value = true /\
  exists out, encode ex_fstr ex_value = Some out /\ decode out = DOk (jread ex_value) /\
    jread ex_value = JObj [([97], JObj [([107; 127], JArr [JNull; JInt 1180591620717411303424])]);
                           ([98], JArr [JFloat 4609434218613702656; JFloat 9223372036854775808; JFloat 4921056587992461136])].
Proof.
  split; [vm_compute; repeat split|]. split; [reflexivity|].
  eexists. split; [vm_compute; reflexivity|]. split; vm_compute; reflexivity.
Qed.
