(* C18 -- property theorems only. *)
From Coq Require Import NArith ZArith List Bool.
From SV Require Import C15.Utf8 C15.Float C18.Spec C18.Model C18.Reading C18.Proofs.
Import ListNotations.
Open Scope N_scope.

(* json.decode(d, default) returns the caller's default exactly when parsing fails *)
Theorem default_iff_decode_fails : forall (A : Type) (d : list N) (dflt : A),
  decode_default d dflt = RDefault dflt <-> decode d = DErr.
Proof. exact decode_default_iff_lemma. Qed.
