(* C18 -- json.encode (model) writes a document that the reference decoder
   accepts and reads as the JSON reading of the value. *)
From Coq Require Import NArith ZArith List Bool Lia ZifyBool ZifyNat ZifyN.
From SV Require Import C15.Utf8 C15.Float C18.Spec C18.Model C18.Reading
  C18.ProofsBasic C18.ProofsSpec C18.ProofsNum C18.ProofsQuote C18.ProofsInt.
Import ListNotations.
Open Scope N_scope.

(* ---------------------------------------------- induction over value trees *)
Section ValueInd.
  Variable P : value -> Prop.
  Hypothesis HNone : P VNone.
  Hypothesis HBool : forall b, P (VBool b).
  Hypothesis HInt : forall z, P (VInt z).
  Hypothesis HFloat : forall b, P (VFloat b).
  Hypothesis HStr : forall s, P (VStr s).
  Hypothesis HList : forall l, Forall P l -> P (VList l).
  Hypothesis HTuple : forall l, Forall P l -> P (VTuple l).
  Hypothesis HDict : forall kv, Forall (fun p => P (snd p)) kv -> P (VDict kv).
  Hypothesis HStruct : forall kv, Forall (fun p => P (snd p)) kv -> P (VStruct kv).
  Hypothesis HOther : P VOther.

  Fixpoint value_rect' (x : value) : P x :=
    match x with
    | VNone => HNone
    | VBool b => HBool b
    | VInt z => HInt z
    | VFloat b => HFloat b
    | VStr s => HStr s
    | VList l => HList l ((fix go (l : list value) : Forall P l :=
                             match l with [] => Forall_nil _ | e :: t => Forall_cons _ (value_rect' e) (go t) end) l)
    | VTuple l => HTuple l ((fix go (l : list value) : Forall P l :=
                             match l with [] => Forall_nil _ | e :: t => Forall_cons _ (value_rect' e) (go t) end) l)
    | VDict kv => HDict kv ((fix go (l : list (value * value)) : Forall (fun p => P (snd p)) l :=
                             match l with [] => Forall_nil _ | p :: t => Forall_cons _ (value_rect' (snd p)) (go t) end) kv)
    | VStruct kv => HStruct kv ((fix go (l : list (list N * value)) : Forall (fun p => P (snd p)) l :=
                             match l with [] => Forall_nil _ | p :: t => Forall_cons _ (value_rect' (snd p)) (go t) end) kv)
    | VOther => HOther
    end.
End ValueInd.

(* ------------------------------------------------ number-token helpers *)
  Lemma spec_number_head d v r : spec_number d = SOk v r ->
    exists c t, d = c :: t /\ (is_digit c || (c =? 45)) = true.
  Proof.
    unfold spec_number. destruct d as [|c t]; [discriminate|].
    destruct (c =? 45) eqn:C; [intros _; exists c, t; split; [reflexivity|lia]|].
    destruct (negb (is_digit c)) eqn:D; [discriminate|]. intros _. exists c, t. split; [reflexivity|].
    apply negb_false_iff in D. rewrite D. reflexivity.
  Qed.

  Lemma spec_number_app_tail c t v rest : spec_number (c :: t) = SOk v [] -> notnum_head rest ->
    spec_number ((c :: t) ++ rest) = SOk v rest.
  Proof.
    intros H NN. rewrite spec_number_parts in *. rewrite (num_parts_app _ _ _ NN).
    destruct (num_parts (c :: t)) as [[[[[neg ip] fp] ex] d4]|]; [|discriminate]. cbn [parts_app].
    unfold num_result in *.
    destruct fp, ex; try (injection H as <- ->; reflexivity);
    destruct (dec_to_b64 _ _ _); try discriminate; injection H as <- ->; reflexivity.
  Qed.

  (* a value whose text starts with a digit or '-' goes to the number reader *)
  Lemma spec_value_number f c t : (is_digit c || (c =? 45)) = true ->
    spec_value (S f) (c :: t) = spec_number (c :: t).
  Proof.
    intros H. cbn [spec_value].
    assert (W : is_ws c = false) by (unfold is_ws, is_digit in *; lia).
    rewrite (skip_ws_nows _ _ W).
    assert (E1 : (c =? 34) = false) by (unfold is_digit in *; lia).
    assert (E2 : (c =? 110) = false) by (unfold is_digit in *; lia).
    assert (E3 : (c =? 116) = false) by (unfold is_digit in *; lia).
    assert (E4 : (c =? 102) = false) by (unfold is_digit in *; lia).
    assert (E5 : (c =? 91) = false) by (unfold is_digit in *; lia).
    assert (E6 : (c =? 123) = false) by (unfold is_digit in *; lia).
    rewrite E1, E2, E3, E4, E5, E6, H. reflexivity.
  Qed.

  Definition head_ok (out : list N) : Prop :=
    exists b t, out = b :: t /\ is_ws b = false /\ (b =? 93) = false /\ (b =? 125) = false.

  Lemma head_ok_numstart c t : (is_digit c || (c =? 45)) = true -> head_ok (c :: t).
  Proof. intros H. exists c, t. unfold is_ws, is_digit in *. repeat split; lia. Qed.


(* ------------------------------------- emit, with its inner loops named *)
Section Enc.
  Variable fstr : N -> list N.

  Fixpoint emit_all (l : list value) : option (list (list N)) :=
    match l with
    | [] => Some []
    | e :: t => obind (emit fstr e) (fun se => option_map (cons se) (emit_all t))
    end.
  Fixpoint emit_dict (l : list (value * value)) : option (list (list N * list N)) :=
    match l with
    | [] => Some []
    | (VStr k, v) :: t => obind (emit fstr v) (fun sv => option_map (cons (k, sv)) (emit_dict t))
    | _ :: _ => None
    end.
  Fixpoint emit_fields (l : list (list N * value)) : option (list (list N * list N)) :=
    match l with
    | [] => Some []
    | (k, v) :: t => obind (emit fstr v) (fun sv => option_map (cons (k, sv)) (emit_fields t))
    end.

  Lemma emit_list_unfold l :
    emit fstr (VList l) = obind (emit_all l) (fun items => Some ([91] ++ join items ++ [93])).
  Proof. reflexivity. Qed.
  Lemma emit_tuple_unfold l :
    emit fstr (VTuple l) = obind (emit_all l) (fun items => Some ([91] ++ join items ++ [93])).
  Proof. reflexivity. Qed.
  Lemma emit_dict_unfold kv :
    emit fstr (VDict kv) = obind (emit_dict kv) (fun items => Some ([123] ++ join (map member (sort_by_key items)) ++ [125])).
  Proof. reflexivity. Qed.
  Lemma emit_struct_unfold kv :
    emit fstr (VStruct kv) = obind (emit_fields kv) (fun items => Some ([123] ++ join (map member (sort_by_key items)) ++ [125])).
  Proof. reflexivity. Qed.

  (* what has to be shown for every value *)
  Definition reads (x : value) : Prop :=
    forall out, emit fstr x = Some out -> float_texts_read_back fstr x ->
    (exists b t, out = b :: t /\ is_ws b = false /\ (b =? 93) = false /\ (b =? 125) = false) /\
    forall rest f, notnum_head rest -> (length (out ++ rest) < f)%nat ->
    spec_value f (out ++ rest) = SOk (jread x) rest.

  (* ---- arrays *)
  Lemma emit_all_spec l items : emit_all l = Some items ->
    Forall2 (fun e se => emit fstr e = Some se) l items.
  Proof.
    revert items. induction l as [|e t IH]; intros items; cbn [emit_all].
    - intros H; injection H as <-. constructor.
    - destruct (emit fstr e) as [se|] eqn:E; [|discriminate]. cbn [obind].
      destruct (emit_all t) as [st|]; [|discriminate]. intros H; injection H as <-.
      constructor; auto.
  Qed.

  Fixpoint all_floats_ok (l : list value) : Prop :=
    match l with [] => True | e :: t => float_texts_read_back fstr e /\ all_floats_ok t end.

  Lemma elems_reads : forall l items, Forall2 (fun e se => emit fstr e = Some se) l items ->
    Forall reads l -> all_floats_ok l -> l <> [] ->
    forall rest f n acc, (length (join items ++ 93%N :: rest) < f)%nat -> (length (join items ++ 93%N :: rest) < n)%nat ->
    spec_elems (spec_value f) n (join items ++ 93 :: rest) acc = SOk (rev acc ++ map jread l) rest.
  Proof.
    induction 1 as [|e se t st Hse F2 IH]; intros FR FO NE rest f n acc Lf Ln; [congruence|].
    inversion FR as [|? ? Re FRt]; subst. destruct FO as [FOe FOt].
    destruct (Re se Hse FOe) as (_ & RD).
    destruct n as [|n]; [lia|]. cbn [spec_elems].
    destruct F2 as [|e2 se2 t2 st2 Hse2 F2'].
    - (* last element *)
      cbn [join] in *.
      rewrite (RD (93 :: rest) f); [|cbn; unfold is_numchar, is_digit; reflexivity|exact Lf].
      cbn [skip_ws]. change (is_ws 93) with false. cbv iota. change (93 =? 44) with false. change (93 =? 93) with true. cbv iota.
      cbn [rev map]. reflexivity.
    - assert (J : join (se :: se2 :: st2) = se ++ [44] ++ join (se2 :: st2)) by reflexivity.
      rewrite J in *. rewrite <- !app_assoc in *. cbn [app] in *.
      rewrite (RD (44 :: join (se2 :: st2) ++ 93 :: rest) f); [|cbn; unfold is_numchar, is_digit; reflexivity|exact Lf].
      cbn [skip_ws]. change (is_ws 44) with false. cbv iota. change (44 =? 44) with true. cbv iota.
      rewrite app_length in Lf, Ln. cbn [length] in Lf, Ln.
      rewrite IH; auto; try discriminate; try lia.
      cbn [rev map]. rewrite <- app_assoc. reflexivity.
  Qed.

  (* ---- objects *)
  Definition pair_ok (p : list N * value) (it : list N * list N) : Prop :=
    fst p = fst it /\ emit fstr (snd p) = Some (snd it).

  Fixpoint pairs_floats_ok (l : list (list N * value)) : Prop :=
    match l with [] => True | p :: t => float_texts_read_back fstr (snd p) /\ pairs_floats_ok t end.

  Definition set_all (acc : list (list N * json)) (pairs : list (list N * value)) :=
    fold_left (fun a kv => obj_set a (coerce (fst kv)) (jread (snd kv))) pairs acc.

  Lemma members_reads : forall pairs items, Forall2 pair_ok pairs items ->
    Forall (fun p => reads (snd p)) pairs -> pairs_floats_ok pairs -> pairs <> [] ->
    forall rest f n acc,
      (length (join (map member items) ++ 125%N :: rest) < f)%nat ->
      (length (join (map member items) ++ 125%N :: rest) < n)%nat ->
    spec_members (spec_value f) n (join (map member items) ++ 125 :: rest) acc = SOk (set_all acc pairs) rest.
  Proof.
    induction 1 as [|[k v] [k' sv] t st [Hk Hsv] F2 IH]; intros FR FO NE rest f n acc Lf Ln; [congruence|].
    cbn [fst snd] in Hk, Hsv. subst k'.
    inversion FR as [|? ? Re FRt]; subst. destruct FO as [FOe FOt]. cbn [snd] in Re, FOe.
    destruct (Re sv Hsv FOe) as (_ & RD).
    destruct n as [|n]; [lia|]. cbn [spec_members].
    assert (step : forall tail, notnum_head tail ->
      (length (member (k, sv) ++ tail) < f)%nat ->
      exists body, member (k, sv) ++ tail = 34 :: body /\
        spec_string body = SOk (coerce k) (58 :: sv ++ tail) /\
        spec_value f (sv ++ tail) = SOk (jread v) tail).
    { intros tail NT LT. unfold member in *. cbn [fst snd] in *.
      destruct (quote_reads k ([58] ++ sv ++ tail)) as (body & Q & SS).
      exists (body ++ [58] ++ sv ++ tail). split; [rewrite Q, <- !app_assoc; reflexivity|].
      split; [exact SS|].
      apply RD; [exact NT|]. rewrite !app_length in LT. rewrite app_length. cbn [length] in *. lia. }
    destruct F2 as [|[k2 v2] [k2' sv2] t2 st2 Hp2 F2'].
    - cbn [map join] in *.
      destruct (step (125 :: rest)) as (body & E & SS & SV); [cbn; unfold is_numchar, is_digit; reflexivity|exact Lf|].
      rewrite E. cbn [skip_ws]. change (is_ws 34) with false. cbv iota. change (34 =? 34) with true. cbn [negb].
      rewrite SS. cbn [skip_ws]. change (is_ws 58) with false. cbv iota. change (58 =? 58) with true. cbn [negb].
      rewrite SV. cbn [skip_ws]. change (is_ws 125) with false. cbv iota. change (125 =? 44) with false.
      change (125 =? 125) with true. cbv iota. reflexivity.
    - assert (J : join (map member ((k, sv) :: (k2', sv2) :: st2)) =
                  member (k, sv) ++ [44] ++ join (map member ((k2', sv2) :: st2))) by reflexivity.
      rewrite J in *. rewrite <- !app_assoc in *. cbn [app] in Lf, Ln |- *.
      destruct (step (44 :: join (map member ((k2', sv2) :: st2)) ++ 125 :: rest)) as (body & E & SS & SV);
        [cbn; unfold is_numchar, is_digit; reflexivity|exact Lf|].
      rewrite E. cbn [skip_ws]. change (is_ws 34) with false. cbv iota. change (34 =? 34) with true. cbn [negb].
      rewrite SS. cbn [skip_ws]. change (is_ws 58) with false. cbv iota. change (58 =? 58) with true. cbn [negb].
      rewrite SV. cbn [skip_ws]. change (is_ws 44) with false. cbv iota. change (44 =? 44) with true. cbv iota.
      rewrite app_length in Lf, Ln. cbn [length] in Lf, Ln.
      rewrite IH; auto; try discriminate; try lia.
  Qed.
End Enc.

(* ------------------------------------------------- sorting is parametric *)
Section Sort.
  Context {A B : Type}.
  Variable S : A -> B -> Prop.
  Definition krel (p : list N * A) (q : list N * B) : Prop := fst p = fst q /\ S (snd p) (snd q).

  Lemma insert_Forall2 k a b l1 l2 : S a b -> Forall2 krel l1 l2 ->
    Forall2 krel (insert_by_key k a l1) (insert_by_key k b l2).
  Proof.
    intros Hab. induction 1 as [|[k1 v1] [k2 v2] t1 t2 [Hk Hv] F IH]; cbn [insert_by_key].
    - constructor; [split; auto|constructor].
    - cbn [fst snd] in Hk, Hv. subst k2. destruct (bytes_ltb k1 k).
      + constructor; [split; auto|exact IH].
      + constructor; [split; auto|]. constructor; [split; auto|exact F].
  Qed.

  Lemma sort_Forall2 l1 l2 : Forall2 krel l1 l2 -> Forall2 krel (sort_by_key l1) (sort_by_key l2).
  Proof.
    induction 1 as [|[k1 v1] [k2 v2] t1 t2 [Hk Hv] F IH]; cbn [sort_by_key]; [constructor|].
    cbn [fst snd] in Hk, Hv. subst k2. apply insert_Forall2; assumption.
  Qed.
End Sort.

Lemma insert_Forall {A} (Q : list N * A -> Prop) k v l : Q (k, v) -> Forall Q l -> Forall Q (insert_by_key k v l).
Proof.
  intros Hq. induction 1 as [|[k1 v1] t H1 F IH]; cbn [insert_by_key]; [repeat constructor; auto|].
  destruct (bytes_ltb k1 k); repeat constructor; auto.
Qed.

Lemma sort_Forall {A} (Q : list N * A -> Prop) l : Forall Q l -> Forall Q (sort_by_key l).
Proof.
  induction 1 as [|[k v] t H1 F IH]; cbn [sort_by_key]; [constructor|]. apply insert_Forall; assumption.
Qed.

Lemma insert_map {A B} (g : A -> B) k v l :
  insert_by_key k (g v) (map (fun kv => (fst kv, g (snd kv))) l) =
  map (fun kv => (fst kv, g (snd kv))) (insert_by_key k v l).
Proof.
  induction l as [|[k1 v1] t IH]; cbn [insert_by_key map fst snd]; [reflexivity|].
  destruct (bytes_ltb k1 k); cbn [map fst snd]; [rewrite IH|]; reflexivity.
Qed.

Lemma sort_map {A B} (g : A -> B) l :
  sort_by_key (map (fun kv => (fst kv, g (snd kv))) l) = map (fun kv => (fst kv, g (snd kv))) (sort_by_key l).
Proof.
  induction l as [|[k v] t IH]; cbn [sort_by_key map fst snd]; [reflexivity|].
  rewrite IH. apply insert_map.
Qed.

Lemma insert_nonempty {A} k (v : A) l : insert_by_key k v l <> [].
Proof. destruct l as [|[k1 v1] t]; cbn [insert_by_key]; [discriminate|]. destruct (bytes_ltb k1 k); discriminate. Qed.

Lemma sort_nonempty {A} (l : list (list N * A)) : l <> [] -> sort_by_key l <> [].
Proof. destruct l as [|[k v] t]; [congruence|]. intros _. cbn [sort_by_key]. apply insert_nonempty. Qed.

Lemma fold_left_map {A B C} (f : A -> B -> A) (g : C -> B) l a :
  fold_left f (map g l) a = fold_left (fun a x => f a (g x)) l a.
Proof. revert a. induction l as [|x l IH]; intros a; cbn; [reflexivity|apply IH]. Qed.

(* --------------------------------------------------------- every value *)
Section Enc2.
  Variable fstr : N -> list N.

  Lemma floats_list l : float_texts_read_back fstr (VList l) = all_floats_ok fstr l.
  Proof. induction l as [|e t IH]; [reflexivity|]. cbn in *. rewrite <- IH. reflexivity. Qed.
  Lemma floats_tuple l : float_texts_read_back fstr (VTuple l) = all_floats_ok fstr l.
  Proof. induction l as [|e t IH]; [reflexivity|]. cbn in *. rewrite <- IH. reflexivity. Qed.
  Lemma floats_struct kv : float_texts_read_back fstr (VStruct kv) = pairs_floats_ok fstr kv.
  Proof. induction kv as [|[k v] t IH]; [reflexivity|]. cbn in *. rewrite <- IH. reflexivity. Qed.

  Lemma pairs_floats_Forall l :
    pairs_floats_ok fstr l <-> Forall (fun p => float_texts_read_back fstr (snd p)) l.
  Proof.
    induction l as [|p t IH]; cbn [pairs_floats_ok]; split; intros H.
    - constructor.
    - exact I.
    - destruct H as [H1 H2]. constructor; [exact H1|apply IH; exact H2].
    - inversion H; subst. split; [assumption|apply IH; assumption].
  Qed.

  Lemma emit_fields_spec kv items : emit_fields fstr kv = Some items -> Forall2 (pair_ok fstr) kv items.
  Proof.
    revert items. induction kv as [|[k v] t IH]; intros items; cbn [emit_fields].
    - intros H; injection H as <-. constructor.
    - destruct (emit fstr v) as [sv|] eqn:E; [|discriminate]. cbn [obind].
      destruct (emit_fields fstr t) as [st|]; [|discriminate]. intros H; injection H as <-.
      constructor; [split; auto|auto].
  Qed.

  Definition dict_key (p : value * value) : list N := match fst p with VStr k => k | _ => [] end.

  Lemma emit_dict_spec kv items : emit_dict fstr kv = Some items ->
    Forall2 (pair_ok fstr) (map (fun p => (dict_key p, snd p)) kv) items.
  Proof.
    revert items. induction kv as [|[kx v] t IH]; intros items; cbn [emit_dict].
    - intros H; injection H as <-. constructor.
    - destruct kx; try discriminate.
      destruct (emit fstr v) as [sv|] eqn:E; [|discriminate]. cbn [obind].
      destruct (emit_dict fstr t) as [st|]; [|discriminate]. intros H; injection H as <-.
      cbn [map]. constructor; [split; auto|auto].
  Qed.

  Lemma floats_dict kv : float_texts_read_back fstr (VDict kv) = pairs_floats_ok fstr (map (fun p => (dict_key p, snd p)) kv).
  Proof. induction kv as [|[k v] t IH]; [reflexivity|]. cbn in *. rewrite <- IH. reflexivity. Qed.

  (* "{" members "}" given the (key, value) pairs in written order *)
  Lemma object_reads (pairs : list (list N * value)) items :
    Forall2 (pair_ok fstr) pairs items ->
    Forall (fun p => reads fstr (snd p)) pairs -> pairs_floats_ok fstr pairs ->
    forall rest f, (length (([123%N] ++ join (map member (sort_by_key items)) ++ [125%N]) ++ rest) < f)%nat ->
    spec_value f (([123] ++ join (map member (sort_by_key items)) ++ [125]) ++ rest) =
    SOk (JObj (obj_of (map (fun kv => (coerce (fst kv), snd kv))
                 (sort_by_key (map (fun kv => (fst kv, jread (snd kv))) pairs))))) rest.
  Proof.
    intros F2 FR FO rest f L.
    destruct f as [|f]; [lia|].
    rewrite <- !app_assoc in *. cbn [app] in *.
    cbn [spec_value]. cbn [skip_ws]. change (is_ws 123) with false. cbv iota.
    change (123 =? 34) with false. change (123 =? 110) with false. change (123 =? 116) with false.
    change (123 =? 102) with false. change (123 =? 91) with false. change (123 =? 123) with true. cbv iota.
    assert (SF2 : Forall2 (pair_ok fstr) (sort_by_key pairs) (sort_by_key items)).
    { apply (sort_Forall2 (fun v sv => emit fstr v = Some sv)). exact F2. }
    destruct pairs as [|p0 pt].
    - inversion F2; subst. cbn [sort_by_key map join app skip_ws]. change (is_ws 125) with false. cbv iota.
      change (125 =? 125) with true. reflexivity.
    - assert (NE : sort_by_key (p0 :: pt) <> []) by (apply sort_nonempty; discriminate).
      assert (FRs : Forall (fun p => reads fstr (snd p)) (sort_by_key (p0 :: pt))) by (apply sort_Forall; exact FR).
      assert (FOs : pairs_floats_ok fstr (sort_by_key (p0 :: pt))).
      { apply pairs_floats_Forall. apply sort_Forall. apply pairs_floats_Forall. exact FO. }
      assert (VAL : set_all [] (sort_by_key (p0 :: pt)) =
                    obj_of (map (fun kv => (coerce (fst kv), snd kv))
                      (sort_by_key (map (fun kv => (fst kv, jread (snd kv))) (p0 :: pt))))).
      { unfold set_all, obj_of. rewrite sort_map, map_map, fold_left_map. reflexivity. }
      rewrite <- VAL. clear VAL.
      destruct (sort_by_key (p0 :: pt)) as [|[k v] spt]; [congruence|].
      destruct (sort_by_key items) as [|[k' sv] sit]; [inversion SF2|].
      inversion SF2 as [|? ? ? ? [Hk Hsv] SF2']; subst. cbn [fst snd] in Hk, Hsv. subst k'.
      (* the text starts with the quotation mark of the first key *)
      assert (HD : exists tl, join (map member ((k, sv) :: sit)) ++ 125 :: rest = 34 :: tl).
      { destruct (quote_reads k []) as (body & Q & _).
        destruct sit as [|it2 sit']; cbn [map join]; unfold member at 1; cbn [fst snd]; rewrite Q;
        cbn [app]; eexists; reflexivity. }
      destruct HD as (tl & HD).
      rewrite HD. cbn [skip_ws]. change (is_ws 34) with false. cbv iota. change (34 =? 125) with false. cbv iota.
      rewrite <- HD.
      rewrite (members_reads fstr ((k, v) :: spt) ((k, sv) :: sit)); auto; try discriminate.
      + cbn [length] in L. lia.
      + cbn [length] in L. lia.
  Qed.

  Lemma array_reads l items : emit_all fstr l = Some items -> Forall (reads fstr) l -> all_floats_ok fstr l ->
    forall rest f, (length (([91%N] ++ join items ++ [93%N]) ++ rest) < f)%nat ->
    spec_value f (([91] ++ join items ++ [93]) ++ rest) = SOk (JArr (map jread l)) rest.
  Proof.
    intros EA FR FO rest f L. apply emit_all_spec in EA.
    destruct f as [|f]; [lia|].
    rewrite <- !app_assoc in *. cbn [app] in *.
    cbn [spec_value]. cbn [skip_ws]. change (is_ws 91) with false. cbv iota.
    change (91 =? 34) with false. change (91 =? 110) with false. change (91 =? 116) with false.
    change (91 =? 102) with false. change (91 =? 91) with true. cbv iota.
    destruct EA as [|e se t st Hse F2].
    - cbn [join app skip_ws]. change (is_ws 93) with false. cbv iota. change (93 =? 93) with true. reflexivity.
    - assert (FR' := FR). inversion FR' as [|? ? Re _]; subst.
      destruct (Re se Hse (proj1 FO)) as ((b0 & t0 & -> & W & N93 & _) & _).
      assert (HD : exists tl, join ((b0 :: t0) :: st) ++ 93 :: rest = b0 :: tl).
      { destruct st; cbn [join app]; eexists; reflexivity. }
      destruct HD as (tl & HD). rewrite HD. rewrite (skip_ws_nows _ _ W), N93. rewrite <- HD.
      rewrite (elems_reads fstr (e :: t) ((b0 :: t0) :: st));
        [reflexivity | constructor; assumption | exact FR | exact FO | discriminate
        | cbn [length] in L; lia | cbn [length] in L; lia].
  Qed.

  Lemma emit_reads_all : forall x, reads fstr x.
  Proof.
    apply value_rect'; unfold reads.
    - (* None *)
      intros out H _. injection H as <-. split.
      + exists 110, [117; 108; 108]. repeat split.
      + intros rest f _ L. destruct f; [lia|]. reflexivity.
    - intros b out H _. destruct b; injection H as <-.
      + split; [exists 116, [114; 117; 101]; repeat split|]. intros rest f _ L. destruct f; [lia|]. reflexivity.
      + split; [exists 102, [97; 108; 115; 101]; repeat split|]. intros rest f _ L. destruct f; [lia|]. reflexivity.
    - (* Int *)
      intros z out H _. injection H as <-.
      destruct (int_string_reads z [] I) as (_ & c & t & E & HC).
      split; [rewrite E; apply head_ok_numstart; exact HC|].
      intros rest f NN L. destruct f; [lia|].
      destruct (int_string_reads z rest NN) as (SN & _).
      rewrite E in *. cbn [app]. rewrite (spec_value_number _ _ _ HC). exact SN.
    - (* Float *)
      intros b out H FO. cbn [emit] in H. destruct (b64_is_finite b); [|discriminate]. injection H as <-.
      cbn [float_texts_read_back] in FO.
      destruct (spec_number_head _ _ _ FO) as (c & t & E & HC).
      split; [rewrite E; apply head_ok_numstart; exact HC|].
      intros rest f NN L. destruct f; [lia|].
      rewrite E in *. cbn [app]. rewrite (spec_value_number _ _ _ HC).
      exact (spec_number_app_tail c t _ rest FO NN).
    - (* String *)
      intros s out H _. injection H as <-.
      split.
      + destruct (quote_reads s []) as (body & Q & _). exists 34, body. repeat split. exact Q.
      + intros rest f _ L. destruct f; [lia|].
        destruct (quote_reads s rest) as (body & Q & SS). rewrite Q. cbn [app spec_value skip_ws].
        change (is_ws 34) with false. cbv iota. change (34 =? 34) with true. cbv iota.
        rewrite SS. reflexivity.
    - (* list *)
      intros l FR out H FO. rewrite emit_list_unfold in H.
      destruct (emit_all fstr l) as [items|] eqn:EA; [|discriminate]. injection H as <-.
      rewrite floats_list in FO. split.
      + exists 91, (join items ++ [93]). repeat split.
      + intros rest f _ L. exact (array_reads l items EA FR FO rest f L).
    - (* tuple *)
      intros l FR out H FO. rewrite emit_tuple_unfold in H.
      destruct (emit_all fstr l) as [items|] eqn:EA; [|discriminate]. injection H as <-.
      rewrite floats_tuple in FO. split.
      + exists 91, (join items ++ [93]). repeat split.
      + intros rest f _ L. exact (array_reads l items EA FR FO rest f L).
    - (* dict *)
      intros kv FR out H FO. rewrite emit_dict_unfold in H.
      destruct (emit_dict fstr kv) as [items|] eqn:ED; [|discriminate]. injection H as <-.
      rewrite floats_dict in FO. split.
      + exists 123, (join (map member (sort_by_key items)) ++ [125]). repeat split.
      + intros rest f _ L.
        rewrite (object_reads _ _ (emit_dict_spec _ _ ED)); auto.
        * cbn [jread]. rewrite map_map. reflexivity.
        * apply Forall_map. exact FR.
    - (* struct *)
      intros kv FR out H FO. rewrite emit_struct_unfold in H.
      destruct (emit_fields fstr kv) as [items|] eqn:ED; [|discriminate]. injection H as <-.
      rewrite floats_struct in FO. split.
      + exists 123, (join (map member (sort_by_key items)) ++ [125]). repeat split.
      + intros rest f _ L.
        rewrite (object_reads _ _ (emit_fields_spec _ _ ED)); auto.
    - intros out H. discriminate.
  Qed.

  Lemma encode_valid_lemma x out : encode fstr x = Some out -> float_texts_read_back fstr x ->
    spec_decode out = SpecOk (jread x).
  Proof.
    intros H FO. destruct (emit_reads_all x out H FO) as (_ & RD).
    unfold spec_decode. specialize (RD [] (S (length out)) I).
    rewrite app_nil_r in RD. rewrite RD; [reflexivity|lia].
  Qed.
End Enc2.
