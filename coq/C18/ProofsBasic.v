(* C18 -- small facts shared by the proof files: the model's helper functions
   coincide with the specification's, lengths, "number character" heads. *)
From Coq Require Import NArith ZArith List Bool Lia ZifyBool ZifyNat ZifyN.
From SV Require Import C15.Utf8 C15.Float C18.Spec C18.Model.
Import ListNotations.
Open Scope N_scope.

Lemma is_space_ws b : is_space b = is_ws b.
Proof. unfold is_space, is_ws. destruct (b =? 32), (b =? 9), (b =? 10), (b =? 13); reflexivity. Qed.

Lemma skip_space_ws d : skip_space d = skip_ws d.
Proof. induction d as [|b r IH]; simpl; [reflexivity|]. rewrite is_space_ws, IH. reflexivity. Qed.

Lemma isdigit_eq b : isdigit b = is_digit b.
Proof. reflexivity. Qed.

Lemma span_take d : span_digits d = take_digits d.
Proof. induction d as [|b r IH]; simpl; [reflexivity|]. rewrite IH. reflexivity. Qed.

Lemma dec_value_eq ds : dec_value ds = digits_val ds.
Proof. reflexivity. Qed.

Lemma skip_ws_length d : (length (skip_ws d) <= length d)%nat.
Proof. induction d as [|b r IH]; simpl; [lia|]. destruct (is_ws b); simpl; lia. Qed.

Lemma skip_ws_idem d : skip_ws (skip_ws d) = skip_ws d.
Proof.
  induction d as [|b r IH]; simpl; [reflexivity|].
  destruct (is_ws b) eqn:E; [exact IH|]. simpl. rewrite E. reflexivity.
Qed.

Lemma skip_ws_head d b r : skip_ws d = b :: r -> is_ws b = false.
Proof.
  induction d as [|c t IH]; simpl; [discriminate|].
  destruct (is_ws c) eqn:E; [exact IH|]. intros H. injection H as -> _. exact E.
Qed.

Lemma skip_ws_nows b r : is_ws b = false -> skip_ws (b :: r) = b :: r.
Proof. intros H. simpl. rewrite H. reflexivity. Qed.

Lemma bytes_eqb_sym a : forall b, bytes_eqb a b = bytes_eqb b a.
Proof.
  induction a as [|x a IH]; destruct b as [|y b]; simpl; try reflexivity.
  rewrite IH, N.eqb_sym. reflexivity.
Qed.

Lemma bytes_eqb_refl a : bytes_eqb a a = true.
Proof. induction a as [|x a IH]; simpl; [reflexivity|]. rewrite N.eqb_refl, IH. reflexivity. Qed.

Lemma bytes_eqb_eq a : forall b, bytes_eqb a b = true <-> a = b.
Proof.
  induction a as [|x a IH]; destruct b as [|y b]; simpl; split; intros H; try discriminate; try reflexivity.
  - apply andb_true_iff in H as [H1 H2]. apply N.eqb_eq in H1. apply IH in H2. subst. reflexivity.
  - injection H as -> ->. rewrite N.eqb_refl. simpl. apply IH. reflexivity.
Qed.

Lemma dict_setkey_obj_set kv k v : dict_setkey kv k v = obj_set kv k v.
Proof.
  induction kv as [|[k' v'] t IH]; simpl; [reflexivity|].
  rewrite (bytes_eqb_sym k' k), IH. reflexivity.
Qed.

(* a byte that can belong to the model's number scan *)
Definition is_numchar (b : N) : bool :=
  is_digit b || (b =? 46) || (b =? 101) || (b =? 69) || (b =? 43) || (b =? 45).
Definition numhead (d : list N) : Prop :=
  match d with b :: _ => is_numchar b = true | [] => False end.

Lemma numchar_not_ws b : is_numchar b = true -> is_ws b = false.
Proof. unfold is_numchar, is_ws, is_digit. lia. Qed.

Lemma numchar_not_sep b : is_numchar b = true ->
  (b =? 44) = false /\ (b =? 93) = false /\ (b =? 125) = false /\ (b =? 58) = false /\ (b =? 34) = false.
Proof. unfold is_numchar, is_digit. lia. Qed.

Lemma numhead_skip_ws d : numhead d -> skip_ws d = d.
Proof.
  destruct d as [|b r]; simpl; [contradiction|]. intros H.
  rewrite (numchar_not_ws _ H). reflexivity.
Qed.

Lemma take_digits_app d : let (ds, rest) := take_digits d in d = ds ++ rest.
Proof.
  induction d as [|b r IH]; simpl; [reflexivity|].
  destruct (is_digit b); [|reflexivity].
  destruct (take_digits r) as [ds rest]. simpl. rewrite IH at 1. reflexivity.
Qed.

Lemma take_digits_length d ds rest : take_digits d = (ds, rest) -> length d = (length ds + length rest)%nat.
Proof.
  intros H. pose proof (take_digits_app d) as A. rewrite H in A. rewrite A at 1. apply app_length.
Qed.

Lemma take_digits_rest_nodigit d ds rest :
  take_digits d = (ds, rest) -> match rest with b :: _ => is_digit b = false | [] => True end.
Proof.
  revert ds rest. induction d as [|b r IH]; simpl; intros ds rest H.
  - injection H as <- <-. exact I.
  - destruct (is_digit b) eqn:E.
    + destruct (take_digits r) as [ds' rest'] eqn:T. injection H as <- <-. eapply IH. reflexivity.
    + injection H as <- <-. exact E.
Qed.

Lemma take_digits_all d ds rest : take_digits d = (ds, rest) -> forallb is_digit ds = true.
Proof.
  revert ds rest. induction d as [|b r IH]; simpl; intros ds rest H.
  - injection H as <- <-. reflexivity.
  - destruct (is_digit b) eqn:E.
    + destruct (take_digits r) as [ds' rest'] eqn:T. injection H as <- <-. simpl. rewrite E. eapply IH. reflexivity.
    + injection H as <- <-. reflexivity.
Qed.
