(* C18 -- json.decode (model) agrees with the RFC 8259 reference on every input. *)
From Coq Require Import NArith ZArith List Bool Lia ZifyBool ZifyNat ZifyN.
From SV Require Import C15.Utf8 C15.Float C18.Spec C18.Model C18.ProofsBasic C18.ProofsSpec C18.ProofsNum C18.ProofsStr.
Import ListNotations.
Open Scope N_scope.

(* A value followed by a "number character" can only happen when the grammar
   stopped inside a run of [0-9+-.eE]: the model then fails at once (its number
   scanner takes the whole run), the reference at the next token. *)
Definition val_rel (s : sres json) (m : mres json) : Prop :=
  match s with
  | SOk v rest => m = MOk v rest \/ (m = MErr /\ numhead rest)
  | SInvalid | SRange => m = MErr
  | SFuel => True
  end.

Definition pv_agree (f : nat) (pvs : list N -> sres json) (pvm : list N -> mres json) : Prop :=
  forall d, (length d < f)%nat -> val_rel (pvs d) (pvm d).

Definition not_str (v : json) : Prop := match v with JStr _ => False | _ => True end.

(* what parse() does at an object key *)
Definition pv_keys (pvm : list N -> mres json) : Prop :=
  forall d, match skip_ws d with
            | [] => pvm d = MErr
            | q :: r0 => if q =? 34 then pvm d = parse_string r0
                         else forall v rest, pvm d = MOk v rest -> not_str v
            end.

Definition seq_rel {A} (wrap : A -> json) (s : sres A) (m : mres json) : Prop :=
  match s with
  | SOk l rest => m = MOk (wrap l) rest
  | SInvalid | SRange => m = MErr
  | SFuel => False
  end.

Lemma numhead_fails rest : numhead rest ->
  exists c r, skip_ws rest = c :: r /\ (c =? 44) = false /\ (c =? 93) = false /\ (c =? 125) = false /\ (c =? 58) = false.
Proof.
  intros H. rewrite (numhead_skip_ws _ H). destruct rest as [|c r]; [contradiction|].
  simpl in H. destruct (numchar_not_sep _ H) as (A & B & C & D & _). eauto 10.
Qed.

Lemma elems_agree f pvs pvm : pv_agree f pvs pvm -> pv_progress pvs -> pv_nofuel f pvs ->
  forall n d acc, (length d < n)%nat -> (length d < f)%nat ->
  seq_rel JArr (spec_elems pvs n d acc) (parse_elems pvm n d acc).
Proof.
  intros AG PR NF. induction n as [|n IH]; intros d acc Ln Lf; [lia|].
  cbn [spec_elems parse_elems].
  pose proof (AG d Lf) as H. pose proof (NF d Lf) as HF.
  destruct (pvs d) as [v r1| | |] eqn:E; cbn [val_rel] in H.
  - apply PR in E. pose proof (skip_ws_length r1) as L1.
    destruct H as [H|[H NH]]; rewrite H.
    + rewrite skip_space_ws. destruct (skip_ws r1) as [|b r]; [reflexivity|].
      destruct (b =? 44) eqn:B1; cbn [negb].
      * apply IH; simpl in L1; lia.
      * destruct (b =? 93); reflexivity.
    + destruct (numhead_fails _ NH) as (c & r & -> & A & B & _). rewrite A, B. reflexivity.
  - rewrite H. reflexivity.
  - rewrite H. reflexivity.
  - congruence.
Qed.

Lemma members_agree f pvs pvm : pv_agree f pvs pvm -> pv_progress pvs -> pv_nofuel f pvs -> pv_keys pvm ->
  forall n d acc, (length d < n)%nat -> (length d < f)%nat ->
  seq_rel JObj (spec_members pvs n d acc) (parse_members pvm n d acc).
Proof.
  intros AG PR NF KY. induction n as [|n IH]; intros d acc Ln Lf; [lia|].
  cbn [spec_members parse_members].
  pose proof (KY d) as K. pose proof (skip_ws_length d) as L0.
  destruct (skip_ws d) as [|q r0]; [rewrite K; reflexivity|].
  destruct (q =? 34) eqn:Q; cbn [negb].
  - rewrite K. pose proof (string_agree r0) as SA. unfold parse_string in *.
    destruct (spec_string r0) as [k r1| | |] eqn:ES; cbn [str_rel] in SA; try contradiction.
    + fold (parse_string r0) in SA |- *. rewrite SA.
      apply spec_string_progress in ES. pose proof (skip_ws_length r1) as L1.
      rewrite skip_space_ws. destruct (skip_ws r1) as [|c r2]; [reflexivity|].
      destruct (c =? 58); cbn [negb]; [|reflexivity].
      assert (Lr2 : (length r2 < f)%nat) by (simpl in *; lia).
      pose proof (AG r2 Lr2) as H. pose proof (NF r2 Lr2) as HF.
      destruct (pvs r2) as [v r3| | |] eqn:E; cbn [val_rel] in H.
      * apply PR in E. pose proof (skip_ws_length r3) as L3.
        destruct H as [H|[H NH]]; rewrite H.
        -- rewrite skip_space_ws, dict_setkey_obj_set. destruct (skip_ws r3) as [|b r]; [reflexivity|].
           destruct (b =? 44) eqn:B1; cbn [negb].
           ++ apply IH; simpl in *; lia.
           ++ destruct (b =? 125); reflexivity.
        -- destruct (numhead_fails _ NH) as (c' & r & -> & A & _ & B & _). rewrite A, B. reflexivity.
      * rewrite H. reflexivity.
      * rewrite H. reflexivity.
      * congruence.
    + fold (parse_string r0) in SA |- *. rewrite SA. reflexivity.
  - (* the key does not start with a quotation mark *)
    pose proof (AG d Lf) as H. pose proof (NF d Lf) as HF.
    destruct (pvm d) as [v rest| |] eqn:E.
    + specialize (K v rest eq_refl). destruct v; try reflexivity. contradiction.
    + reflexivity.
    + exfalso. destruct (pvs d); cbn [val_rel] in H; try congruence. destruct H as [H|[H _]]; congruence.
Qed.

(* the model never returns a string except through parse_string *)
Lemma parse_elems_shape pv : forall n d acc v rest, parse_elems pv n d acc = MOk v rest -> not_str v.
Proof.
  induction n as [|n IH]; intros d acc v rest; cbn [parse_elems]; [discriminate|].
  destruct (pv d) as [e r1| |]; try discriminate.
  destruct (skip_space r1) as [|b r]; [discriminate|].
  destruct (negb (b =? 44)).
  - destruct (negb (b =? 93)); [discriminate|]. intros H; injection H as <- _. exact I.
  - apply IH.
Qed.

Lemma parse_members_shape pv : forall n d acc v rest, parse_members pv n d acc = MOk v rest -> not_str v.
Proof.
  induction n as [|n IH]; intros d acc v rest; cbn [parse_members]; [discriminate|].
  destruct (pv d) as [k r1| |]; try discriminate.
  destruct k; try discriminate.
  destruct (skip_space r1) as [|c r2]; [discriminate|].
  destruct (negb (c =? 58)); [discriminate|].
  destruct (pv r2) as [e r3| |]; try discriminate.
  destruct (skip_space r3) as [|b r]; [discriminate|].
  destruct (negb (b =? 44)).
  - destruct (negb (b =? 125)); [discriminate|]. intros H; injection H as <- _. exact I.
  - apply IH.
Qed.

Lemma parse_number_shape b r v rest : parse_number b r = MOk v rest -> not_str v.
Proof.
  unfold parse_number. destruct (scan_num r) as [[t fl] rest0].
  destruct (negb (valid_number (b :: t))); [discriminate|].
  destruct fl.
  - destruct (go_parse_float (b :: t)) as [[bits|]|]; try discriminate; intros H; injection H as <- _; exact I.
  - destruct (big_set_string (b :: t)); try discriminate; intros H; injection H as <- _; exact I.
Qed.

Lemma parse_keys f : pv_keys (parse (S f)).
Proof.
  intros d. cbn [parse]. rewrite skip_space_ws.
  destruct (skip_ws d) as [|q r0]; [reflexivity|].
  destruct (q =? 34); [reflexivity|].
  intros v rest.
  destruct (q =? 110). { destruct (has_prefix lit_null (q :: r0)); [|discriminate]. intros H; injection H as <- _. exact I. }
  destruct (q =? 116). { destruct (has_prefix lit_true (q :: r0)); [|discriminate]. intros H; injection H as <- _. exact I. }
  destruct (q =? 102). { destruct (has_prefix lit_false (q :: r0)); [|discriminate]. intros H; injection H as <- _. exact I. }
  destruct (q =? 91).
  { destruct (skip_space r0) as [|c r']; [discriminate|].
    destruct (negb (c =? 93)); [apply parse_elems_shape|]. intros H; injection H as <- _. exact I. }
  destruct (q =? 123).
  { destruct (skip_space r0) as [|c r']; [discriminate|].
    destruct (negb (c =? 125)); [apply parse_members_shape|]. intros H; injection H as <- _. exact I. }
  destruct (isdigit q || (q =? 45)); [apply parse_number_shape|discriminate].
Qed.

Lemma spec_value_skip f d : spec_value f d = spec_value f (skip_ws d).
Proof. destruct f; cbn [spec_value]; [reflexivity|]. rewrite skip_ws_idem. reflexivity. Qed.

Lemma spec_elems_skip f n d acc : spec_elems (spec_value f) n d acc = spec_elems (spec_value f) n (skip_ws d) acc.
Proof. destruct n; cbn [spec_elems]; [reflexivity|]. rewrite <- spec_value_skip. reflexivity. Qed.

Lemma spec_members_skip pv n d acc : spec_members pv n d acc = spec_members pv n (skip_ws d) acc.
Proof. destruct n; cbn [spec_members]; [reflexivity|]. rewrite skip_ws_idem. reflexivity. Qed.

Lemma seq_to_val {A} (wrap : A -> json) s m : seq_rel wrap s m -> val_rel (smap wrap s) m.
Proof. destruct s; cbn; auto. Qed.

Lemma value_agree : forall f, pv_agree f (spec_value f) (parse f).
Proof.
  induction f as [|f IH]; intros d L; [lia|].
  cbn [spec_value parse]. rewrite skip_space_ws.
  pose proof (skip_ws_length d) as L0.
  destruct (skip_ws d) as [|b r]; [reflexivity|].
  destruct (b =? 34).
  { pose proof (string_agree r) as SA. destruct (spec_string r); cbn in *; auto; contradiction. }
  destruct (b =? 110). { destruct (has_prefix lit_null (b :: r)); cbn; auto. }
  destruct (b =? 116). { destruct (has_prefix lit_true (b :: r)); cbn; auto. }
  destruct (b =? 102). { destruct (has_prefix lit_false (b :: r)); cbn; auto. }
  destruct (b =? 91).
  { rewrite skip_space_ws. pose proof (skip_ws_length r) as L1.
    rewrite spec_elems_skip.
    destruct (skip_ws r) as [|c r']; [reflexivity|].
    destruct (c =? 93); cbn [negb]; [left; reflexivity|].
    apply seq_to_val. apply (elems_agree f); auto using spec_value_progress, spec_value_nofuel; simpl in *; lia. }
  destruct (b =? 123).
  { rewrite skip_space_ws. pose proof (skip_ws_length r) as L1.
    rewrite spec_members_skip.
    destruct (skip_ws r) as [|c r']; [reflexivity|].
    destruct (c =? 125); cbn [negb]; [left; reflexivity|].
    apply seq_to_val.
    destruct f as [|f']; [simpl in *; lia|].
    apply (members_agree (S f')); auto using spec_value_progress, spec_value_nofuel, parse_keys; simpl in *; lia. }
  change (isdigit b) with (is_digit b).
  destruct (is_digit b || (b =? 45)) eqn:DB; [|reflexivity].
  exact (number_agree b r DB).
Qed.

(* ------------------------------------------------------------ the theorems *)
Lemma decode_agrees_lemma : forall d,
  match spec_decode d with
  | SpecOk j => decode d = DOk j
  | SpecInvalid | SpecRange => decode d = DErr
  | SpecFuel => False
  end.
Proof.
  intros d. unfold spec_decode, decode.
  pose proof (value_agree (S (length d)) d (Nat.lt_succ_diag_r _)) as H.
  pose proof (spec_value_nofuel (S (length d)) d (Nat.lt_succ_diag_r _)) as NF.
  destruct (spec_value (S (length d)) d) as [j rest| | |]; cbn [val_rel] in H.
  - destruct H as [H|[H NH]]; rewrite H.
    + rewrite skip_space_ws. destruct (skip_ws rest); reflexivity.
    + destruct (numhead_fails _ NH) as (c & r & -> & _). reflexivity.
  - rewrite H. reflexivity.
  - rewrite H. reflexivity.
  - congruence.
Qed.

Lemma decode_value_lemma d j : spec_decode d = SpecOk j -> decode d = DOk j.
Proof. intros H. pose proof (decode_agrees_lemma d) as A. rewrite H in A. exact A. Qed.
Lemma decode_invalid_lemma d : spec_decode d = SpecInvalid -> decode d = DErr.
Proof. intros H. pose proof (decode_agrees_lemma d) as A. rewrite H in A. exact A. Qed.
Lemma decode_range_lemma d : spec_decode d = SpecRange -> decode d = DErr.
Proof. intros H. pose proof (decode_agrees_lemma d) as A. rewrite H in A. exact A. Qed.

Lemma decode_total_lemma d : decode d <> DFuel.
Proof.
  pose proof (decode_agrees_lemma d) as A.
  destruct (spec_decode d); try contradiction; rewrite A; discriminate.
Qed.

(* the default comes back exactly for the documents the reference does not give a value to *)
Lemma default_lemma : forall (A : Type) (d : list N) (dflt : A),
  (decode_default d dflt = RDefault dflt <-> (spec_decode d = SpecInvalid \/ spec_decode d = SpecRange)) /\
  (forall j, decode_default d dflt = RValue j <-> spec_decode d = SpecOk j).
Proof.
  intros A d dflt. unfold decode_default.
  pose proof (decode_agrees_lemma d) as H.
  destruct (spec_decode d) as [j| | |]; try contradiction; rewrite H; split.
  - split; [discriminate|]. intros [X|X]; discriminate.
  - intros j'. split; intros X; injection X as ->; reflexivity.
  - split; auto.
  - intros j'. split; discriminate.
  - split; auto.
  - intros j'. split; discriminate.
Qed.

Lemma decode_agrees_with_spec_lemma : forall d,
  (forall j, spec_decode d = SpecOk j -> decode d = DOk j) /\
  (spec_decode d = SpecInvalid -> decode d = DErr) /\
  (spec_decode d = SpecRange -> decode d = DErr) /\
  decode d <> DFuel.
Proof.
  intros d. repeat split.
  - intros j. exact (decode_value_lemma d j).
  - exact (decode_invalid_lemma d).
  - exact (decode_range_lemma d).
  - exact (decode_total_lemma d).
Qed.
