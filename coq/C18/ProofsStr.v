(* C18 -- string tokens: the model's hand scanner (safe flag, backslash
   skipping) followed by the encoding/json oracle, against the reference. *)
From Coq Require Import NArith ZArith List Bool Lia ZifyBool ZifyNat ZifyN.
From SV Require Import C15.Utf8 C15.Float C18.Spec C18.Model C18.ProofsBasic C18.ProofsSpec.
Import ListNotations.
Open Scope N_scope.

(* text between the quotes: backslash pairs and bytes other than quote/backslash *)
Inductive items : list N -> Prop :=
| items_nil : items []
| items_esc c body : items body -> items (92 :: c :: body)
| items_plain b body : b <> 92 -> b <> 34 -> items body -> items (b :: body).

Definition plain_safe (b : N) : bool := (32 <=? b) && (b <? 128) && negb (b =? 92).

Lemma items_app_plain l y : Forall (fun b => b <> 92 /\ b <> 34) l -> items y -> items (l ++ y).
Proof. induction 1 as [|b l [H1 H2] _ IH]; intros Y; simpl; [exact Y|]. apply items_plain; auto. Qed.

Lemma items_drop_plain l y : Forall (fun b => b <> 92 /\ b <> 34) l -> items (l ++ y) -> items y.
Proof.
  induction 1 as [|b l [H1 H2] _ IH]; simpl; intros Y; [exact Y|].
  inversion Y; subst; [congruence|]. auto.
Qed.

(* ------------------------------------------------------------ scan_string *)
Lemma scan_string_items body : items body -> forall rest safe acc,
  scan_string (body ++ 34 :: rest) safe acc =
  Some (rev acc ++ body, safe && forallb plain_safe body, rest).
Proof.
  induction 1 as [|c body _ IH|b body H1 H2 _ IH]; intros rest safe acc.
  - simpl. rewrite app_nil_r, andb_true_r. reflexivity.
  - cbn [app scan_string]. cbn [N.eqb Pos.eqb]. rewrite IH. cbn [rev]. rewrite <- !app_assoc. cbn [app].
    cbn [forallb]. replace (plain_safe 92) with false by reflexivity. cbn [andb].
    (* the backslash itself clears `safe` *)
    rewrite andb_false_r. reflexivity.
  - cbn [app scan_string].
    assert (E1 : (b =? 92) = false) by lia. assert (E2 : (b =? 34) = false) by lia. rewrite E1, E2.
    destruct ((128 <=? b) || (b <? 32)) eqn:U.
    + rewrite IH. cbn [rev forallb]. rewrite <- app_assoc. cbn [app].
      assert (P : plain_safe b = false) by (unfold plain_safe; lia). rewrite P. cbn [andb].
      rewrite andb_false_r. reflexivity.
    + rewrite IH. cbn [rev forallb]. rewrite <- app_assoc. cbn [app].
      assert (P : plain_safe b = true) by (unfold plain_safe; lia). rewrite P. reflexivity.
Qed.

Lemma scan_string_some : forall n d, (length d < n)%nat -> forall safe acc raw safe' rest,
  scan_string d safe acc = Some (raw, safe', rest) ->
  exists body, d = body ++ 34 :: rest /\ items body.
Proof.
  induction n as [|n IH]; intros d L safe acc raw safe' rest; [lia|].
  destruct d as [|b r]; [discriminate|]. cbn [scan_string].
  destruct (b =? 92) eqn:B1.
  - destruct r as [|c r2]; [discriminate|]. intros H.
    apply IH in H as (body & -> & I); [|simpl in L; lia].
    exists (92 :: c :: body). split; [simpl; f_equal; lia | constructor; exact I].
  - destruct (b =? 34) eqn:B2.
    + intros H; injection H as _ _ <-. exists []. split; [simpl; f_equal; lia | constructor].
    + destruct ((128 <=? b) || (b <? 32)); intros H;
      (apply IH in H as (body & -> & I); [|simpl in L; lia]);
      exists (b :: body); (split; [reflexivity | apply items_plain; [lia|lia|exact I]]).
Qed.

(* ------------------------------------- the reference finds a closing quote *)
Lemma hexval_plain h x : hexval h = Some x -> h <> 92 /\ h <> 34.
Proof.
  unfold hexval, is_digit.
  destruct ((48 <=? h) && (h <=? 57)) eqn:A; [lia|].
  destruct ((97 <=? h) && (h <=? 102)) eqn:B; [lia|].
  destruct ((65 <=? h) && (h <=? 70)) eqn:C; [lia|discriminate].
Qed.

Lemma hex4_split d u r : hex4 d = Some (u, r) ->
  exists l, d = l ++ r /\ length l = 4%nat /\ Forall (fun b => b <> 92 /\ b <> 34) l.
Proof.
  destruct d as [|a [|b [|c [|e t]]]]; simpl; try discriminate.
  destruct (hexval a) eqn:Ha, (hexval b) eqn:Hb, (hexval c) eqn:Hc, (hexval e) eqn:He; try discriminate.
  intros H; injection H as _ <-. exists [a; b; c; e]. repeat split.
  repeat constructor; eauto using hexval_plain; eapply hexval_plain; eauto.
Qed.

Lemma u_escape_split d u r : u_escape d = Some (u, r) ->
  exists l, d = 92 :: 117 :: l ++ r /\ Forall (fun b => b <> 92 /\ b <> 34) l.
Proof.
  destruct d as [|a [|b t]]; simpl; try discriminate.
  destruct ((a =? 92) && (b =? 117)) eqn:E; [|discriminate].
  intros H. apply hex4_split in H as (l & -> & _ & F). exists l. split; [|exact F].
  f_equal; [lia|]. f_equal. lia.
Qed.

(* UTF-8 facts: continuation bytes are >= 0x80; a quote never continues a sequence *)
Lemma utf8_tail_high b r rn w : utf8_decode (b :: r) = (rn, w) ->
  exists l', firstn w (b :: r) = b :: l' /\ Forall (fun x => 128 <= x) l'.
Proof.
  unfold utf8_decode.
  repeat match goal with
         | |- context [if ?c then _ else _] => destruct c eqn:?
         | |- context [match ?l with [] => _ | _ :: _ => _ end] => destruct l
         end;
  intros H; injection H as <- <-; simpl; eexists; (split; [reflexivity|]);
  repeat constructor; unfold is_cont in *; lia.
Qed.

Lemma utf8_decode_app_quote s t : s <> [] -> utf8_decode (s ++ 34 :: t) = utf8_decode s.
Proof.
  destruct s as [|p0 [|b1 [|b2 [|b3 s']]]]; [congruence| | | |]; intros _; cbn [app]; unfold utf8_decode;
  destruct (p0 =? 224) eqn:?, (p0 =? 237) eqn:?, (p0 =? 240) eqn:?, (p0 =? 244) eqn:?;
  repeat (cbv beta iota;
          match goal with
          | |- context [if ?c then _ else _] => destruct c eqn:?
          | |- context [match ?l with [] => _ | _ :: _ => _ end] => is_var l; destruct l
          end); try reflexivity; exfalso; unfold is_cont in *; lia.
Qed.

Lemma high_plain l : Forall (fun x => 128 <= x) l -> Forall (fun b => b <> 92 /\ b <> 34) l.
Proof. apply Forall_impl. intros a H. lia. Qed.

Lemma char_step_items b r pre x : (b =? 34) = false -> char_step (b :: r) = Some (pre, x) ->
  forall body rest, x = body ++ 34 :: rest -> items body ->
  exists body0, b :: r = body0 ++ 34 :: rest /\ items body0.
Proof.
  intros NQ. cbn [char_step].
  destruct (b <? 32) eqn:B0; [discriminate|].
  destruct (b =? 92) eqn:B1.
  - assert (b = 92) by lia. subst b.
    destruct r as [|c r2]; [discriminate|].
    destruct (c =? 117) eqn:C.
    + destruct (hex4 r2) as [[u r3]|] eqn:H4; [|discriminate].
      apply hex4_split in H4 as (l & -> & _ & Fl).
      assert (K : forall body rest, r3 = body ++ 34 :: rest -> items body ->
                  exists body0, 92 :: c :: l ++ r3 = body0 ++ 34 :: rest /\ items body0).
      { intros body rest -> I. exists (92 :: c :: l ++ body). split.
        - simpl. rewrite <- app_assoc. reflexivity.
        - constructor. apply items_app_plain; assumption. }
      destruct (is_high u).
      * destruct (u_escape r3) as [[u2 r5]|] eqn:UE.
        -- destruct (is_low u2).
           ++ intros H; injection H as _ <-. intros body rest -> I.
              apply u_escape_split in UE as (l2 & -> & F2).
              exists (92 :: c :: l ++ 92 :: 117 :: l2 ++ body). split.
              ** simpl. rewrite <- !app_assoc. simpl. rewrite <- app_assoc. reflexivity.
              ** constructor. apply items_app_plain; [assumption|]. constructor. apply items_app_plain; assumption.
           ++ intros H; injection H as _ <-. exact K.
        -- intros H; injection H as _ <-. exact K.
      * destruct (is_low u); intros H; injection H as _ <-; exact K.
    + destruct (short_escape c); [|discriminate]. intros H; injection H as _ <-.
      intros body rest -> I. exists (92 :: c :: body). split; [reflexivity|constructor; exact I].
  - destruct (utf8_decode (b :: r)) as [rn w] eqn:U. intros H; injection H as _ <-.
    intros body rest Hx I.
    destruct (utf8_tail_high _ _ _ _ U) as (l' & Hf & Hh).
    exists (b :: l' ++ body). split.
    + rewrite <- (firstn_skipn w (b :: r)), Hf, Hx. simpl. rewrite <- app_assoc. reflexivity.
    + apply items_plain; [lia|lia|]. apply items_app_plain; [apply high_plain; exact Hh|exact I].
Qed.

Lemma spec_chars_ok_items : forall f d s rest, spec_chars f d = SOk s rest ->
  exists body, d = body ++ 34 :: rest /\ items body.
Proof.
  induction f as [|f IH]; intros d s rest; [discriminate|].
  destruct d as [|b r]; [discriminate|]. rewrite spec_chars_unfold.
  destruct (b =? 34) eqn:Q.
  - intros H; injection H as _ <-. exists []. split; [simpl; f_equal; lia|constructor].
  - destruct (char_step (b :: r)) as [[pre x]|] eqn:CS; [|discriminate].
    intros H. apply scons_ok in H as (s' & H & _). apply IH in H as (body & Hx & I).
    eapply char_step_items; eauto.
Qed.

(* ------------------------------------------------------------ the safe path *)
Lemma spec_chars_safe body : forallb plain_safe body = true -> items body ->
  forall rest f, (length body < f)%nat -> spec_chars f (body ++ 34 :: rest) = SOk body rest.
Proof.
  induction body as [|b body IH]; intros P I rest f L.
  - destruct f; [simpl in L; lia|]. reflexivity.
  - destruct f as [|f]; [simpl in L; lia|]. simpl in P. apply andb_true_iff in P as [Pb P].
    inversion I as [| |b' body' N1 N2 I']; subst; [discriminate Pb|].
    cbn [app]. rewrite spec_chars_unfold.
    assert (E : (b =? 34) = false) by lia. rewrite E. cbn [char_step].
    assert (E0 : (b <? 32) = false) by (unfold plain_safe in Pb; lia).
    assert (E1 : (b =? 92) = false) by lia. rewrite E0, E1.
    rewrite utf8_decode_ascii by (unfold plain_safe in Pb; lia).
    rewrite utf8_encode_ascii by (unfold plain_safe in Pb; lia).
    cbn [skipn]. rewrite IH; auto. simpl in L; lia.
Qed.

(* ----------------------------------------------- the encoding/json oracle *)
Lemma is_hex_hexval x : is_hex x = match hexval x with Some _ => true | None => false end.
Proof.
  unfold is_hex, hexval, is_digit.
  destruct ((48 <=? x) && (x <=? 57)); [reflexivity|].
  destruct ((97 <=? x) && (x <=? 102)); [reflexivity|].
  destruct ((65 <=? x) && (x <=? 70)); reflexivity.
Qed.

Lemma hexdigit_hexval x : hexdigit x = hexval x.
Proof.
  unfold hexdigit, hexval, is_digit.
  destruct ((48 <=? x) && (x <=? 57)); [reflexivity|].
  destruct ((97 <=? x) && (x <=? 102)) eqn:A; [f_equal; lia|].
  destruct ((65 <=? x) && (x <=? 70)) eqn:B; [f_equal; lia|reflexivity].
Qed.

Lemma hexval_quote : hexval 34 = None.
Proof. reflexivity. Qed.

Lemma hex4_quote l rest :
  hex4 (l ++ 34 :: rest) = match hex4 l with Some (u, l') => Some (u, l' ++ 34 :: rest) | None => None end.
Proof.
  destruct l as [|a [|b [|c [|e l']]]]; cbn [app hex4].
  - destruct rest as [|? [|? [|? ?]]]; reflexivity.
  - destruct rest as [|? [|? ?]]; try reflexivity. rewrite hexval_quote. destruct (hexval a); reflexivity.
  - destruct rest as [|? ?]; try reflexivity. rewrite hexval_quote. destruct (hexval a), (hexval b); reflexivity.
  - rewrite hexval_quote. destruct (hexval a), (hexval b), (hexval c); reflexivity.
  - destruct (hexval a), (hexval b), (hexval c), (hexval e); reflexivity.
Qed.

Lemma u_escape_quote l rest :
  u_escape (l ++ 34 :: rest) = match u_escape l with Some (u, l') => Some (u, l' ++ 34 :: rest) | None => None end.
Proof.
  destruct l as [|a [|b l']]; cbn [app u_escape].
  - destruct rest; reflexivity.
  - destruct (a =? 92); reflexivity.
  - destruct ((a =? 92) && (b =? 117)); [apply hex4_quote|reflexivity].
Qed.

Lemma ej_scan_u_quote l :
  ej_scan_string (92 :: 117 :: l ++ [34]) =
  match hex4 l with Some (_, l') => ej_scan_string (l' ++ [34]) | None => false end.
Proof.
  change (ej_scan_string (92 :: 117 :: l ++ [34])) with
    (match l ++ [34] with
     | h1 :: h2 :: h3 :: h4 :: r3 => is_hex h1 && is_hex h2 && is_hex h3 && is_hex h4 && ej_scan_string r3
     | _ => false
     end).
  destruct l as [|a [|b [|c [|e l']]]]; cbn [app hex4]; rewrite ?is_hex_hexval.
  - reflexivity.
  - reflexivity.
  - reflexivity.
  - rewrite hexval_quote. destruct (hexval a), (hexval b), (hexval c); reflexivity.
  - destruct (hexval a), (hexval b), (hexval c), (hexval e); reflexivity.
Qed.

Lemma getu4_hex4 l : getu4 (92 :: 117 :: l) = match hex4 l with Some (u, _) => Some u | None => None end.
Proof.
  destruct l as [|a [|b [|c [|e l']]]]; try reflexivity.
  cbn [getu4 hex4]. cbn [N.eqb Pos.eqb andb]. rewrite !hexdigit_hexval.
  destruct (hexval a), (hexval b), (hexval c), (hexval e); try reflexivity. f_equal. lia.
Qed.

Lemma getu4_u_escape l : getu4 l = match u_escape l with Some (u, _) => Some u | None => None end.
Proof.
  destruct l as [|a [|b l']]; try reflexivity.
  cbn [u_escape]. destruct ((a =? 92) && (b =? 117)) eqn:E.
  - assert (a = 92) by lia. assert (b = 117) by lia. subst. apply getu4_hex4.
  - destruct l' as [|h1 [|h2 [|h3 [|h4 t]]]]; try reflexivity. cbn [getu4]. rewrite E. reflexivity.
Qed.

Lemma ej_scan_high l y : Forall (fun x => 128 <= x) l -> ej_scan_string (l ++ y) = ej_scan_string y.
Proof.
  induction 1 as [|b l Hb _ IH]; [reflexivity|]. cbn [app ej_scan_string].
  assert (E1 : (b =? 34) = false) by lia. assert (E2 : (b =? 92) = false) by lia.
  assert (E3 : (b <? 32) = false) by lia. rewrite E1, E2, E3. exact IH.
Qed.

Lemma esc_char_short c : (c =? 117) = false ->
  is_esc_char c = match short_escape c with Some _ => true | None => false end.
Proof.
  intros _. unfold is_esc_char, short_escape.
  destruct (c =? 34), (c =? 92), (c =? 47), (c =? 98), (c =? 102), (c =? 110), (c =? 114), (c =? 116); reflexivity.
Qed.

Lemma ej_unquote_short f c x r2 : short_escape c = Some x ->
  ej_unquote (S f) (92 :: c :: r2) = option_map (cons x) (ej_unquote f r2).
Proof.
  unfold short_escape.
  destruct (c =? 34) eqn:E1; [assert (c = 34) by lia; subst; intros H; injection H as <-; reflexivity|].
  destruct (c =? 92) eqn:E2; [assert (c = 92) by lia; subst; intros H; injection H as <-; reflexivity|].
  destruct (c =? 47) eqn:E3; [assert (c = 47) by lia; subst; intros H; injection H as <-; reflexivity|].
  destruct (c =? 98) eqn:E4; [assert (c = 98) by lia; subst; intros H; injection H as <-; reflexivity|].
  destruct (c =? 102) eqn:E5; [assert (c = 102) by lia; subst; intros H; injection H as <-; reflexivity|].
  destruct (c =? 110) eqn:E6; [assert (c = 110) by lia; subst; intros H; injection H as <-; reflexivity|].
  destruct (c =? 114) eqn:E7; [assert (c = 114) by lia; subst; intros H; injection H as <-; reflexivity|].
  destruct (c =? 116) eqn:E8; [assert (c = 116) by lia; subst; intros H; injection H as <-; reflexivity|].
  discriminate.
Qed.

Lemma ej_unquote_u f l u l' : hex4 l = Some (u, l') ->
  ej_unquote (S f) (92 :: 117 :: l) =
  if is_surrogate u then
    if negb (utf16_decode u (getu4 l') =? 0xFFFD)
    then option_map (app (utf8_encode (utf16_decode u (getu4 l')))) (ej_unquote f (skipn 6 l'))
    else option_map (app (utf8_encode 0xFFFD)) (ej_unquote f l')
  else option_map (app (utf8_encode u)) (ej_unquote f l').
Proof.
  intros H4.
  assert (G : getu4 (92 :: 117 :: l) = Some u) by (rewrite getu4_hex4, H4; reflexivity).
  assert (S6 : skipn 6 (92 :: 117 :: l) = l').
  { apply hex4_split in H4 as (l4 & -> & L4 & _).
    destruct l4 as [|a [|b [|c [|e [|? ?]]]]]; simpl in L4; try lia. reflexivity. }
  change (ej_unquote (S f) (92 :: 117 :: l)) with
    (match getu4 (92 :: 117 :: l) with
     | None => None
     | Some rr =>
         let r6 := skipn 6 (92 :: 117 :: l) in
         if is_surrogate rr then
           let dec := utf16_decode rr (getu4 r6) in
           if negb (dec =? 0xFFFD)
           then option_map (app (utf8_encode dec)) (ej_unquote f (skipn 6 r6))
           else option_map (app (utf8_encode 0xFFFD)) (ej_unquote f r6)
         else option_map (app (utf8_encode rr)) (ej_unquote f r6)
     end).
  rewrite G. cbv zeta. rewrite S6. reflexivity.
Qed.

(* one character: the reference's step against the oracle's scanner and unquoter *)
Lemma ej_step b body rest : items (b :: body) ->
  match char_step ((b :: body) ++ 34 :: rest) with
  | None => ej_scan_string ((b :: body) ++ [34]) = false
  | Some (pre, x) =>
      exists body2, x = body2 ++ 34 :: rest /\ items body2 /\ (length body2 < length (b :: body))%nat /\
        ej_scan_string ((b :: body) ++ [34]) = ej_scan_string (body2 ++ [34]) /\
        forall f, ej_unquote (S f) (b :: body) = option_map (app pre) (ej_unquote f body2)
  end.
Proof.
  intros I. inversion I as [|c body'' I''|b' body' N1 N2 I']; subst.
  - (* backslash *)
    cbn [app char_step]. change (92 <? 32) with false. change (92 =? 92) with true. cbv iota.
    destruct (c =? 117) eqn:C.
    + assert (c = 117) by lia. subst c.
      rewrite hex4_quote. rewrite ej_scan_u_quote.
      destruct (hex4 body'') as [[u l']|] eqn:H4; [|reflexivity].
      pose proof H4 as H4'. apply hex4_split in H4' as (l4 & E4 & L4 & F4).
      assert (Il' : items l') by (subst body''; eapply items_drop_plain; eauto).
      assert (Ll' : (length l' < S (S (length body'')))%nat) by (subst body''; rewrite app_length; simpl; lia).
      assert (K : forall pre, (forall f, ej_unquote (S f) (92 :: 117 :: body'') = option_map (app pre) (ej_unquote f l')) ->
                exists body2, l' ++ 34 :: rest = body2 ++ 34 :: rest /\ items body2 /\
                  (length body2 < S (S (length body'')))%nat /\
                  ej_scan_string (l' ++ [34]) = ej_scan_string (body2 ++ [34]) /\
                  forall f, ej_unquote (S f) (92 :: 117 :: body'') = option_map (app pre) (ej_unquote f body2)).
      { intros pre Hq. exists l'. repeat split; auto. }
      rewrite u_escape_quote.
      destruct (is_high u) eqn:HI.
      * assert (SU : is_surrogate u = true) by (unfold is_high, is_surrogate in *; lia).
        destruct (u_escape l') as [[u2 l'']|] eqn:UE.
        -- pose proof (getu4_u_escape l') as G. rewrite UE in G.
           destruct (is_low u2) eqn:LO.
           ++ (* a surrogate pair *)
              pose proof UE as UE'. apply u_escape_split in UE' as (l5 & E5 & F5).
              assert (L5 : length l' = (6 + length l'')%nat) by (apply u_escape_length in UE; exact UE).
              exists l''. split; [reflexivity|]. split; [subst l'; inversion Il'; subst; [eapply items_drop_plain; eauto|congruence]|].
              split; [simpl in *; lia|]. split.
              ** subst l'. cbn [app]. rewrite ej_scan_u_quote.
                 assert (H5 : hex4 (l5 ++ l'') = Some (u2, l'')).
                 { unfold u_escape in UE. change (92 =? 92) with true in UE. change (117 =? 117) with true in UE. exact UE. }
                 rewrite H5. reflexivity.
              ** intros f. rewrite (ej_unquote_u f _ _ _ H4), SU, G.
                 assert (D : utf16_decode u (Some u2) = pair_rune u u2).
                 { unfold utf16_decode, pair_rune. unfold is_high, is_low in *.
                   assert (X : ((55296 <=? u) && (u <? 56320) && (56320 <=? u2) && (u2 <? 57344)) = true) by lia.
                   rewrite X. lia. }
                 rewrite D.
                 assert (NF : negb (pair_rune u u2 =? 65533) = true) by (unfold pair_rune, is_high, is_low in *; lia).
                 rewrite NF.
                 assert (S6 : skipn 6 l' = l'').
                 { subst l'.
                   assert (H : length l5 = 4%nat).
                   { simpl in L5. rewrite app_length in L5. lia. }
                   destruct l5 as [|? [|? [|? [|? [|? ?]]]]]; simpl in H; try lia. reflexivity. }
                 rewrite S6. reflexivity.
           ++ apply K. intros f. rewrite (ej_unquote_u f _ _ _ H4), SU, G.
              assert (D : utf16_decode u (Some u2) = 65533).
              { unfold utf16_decode. unfold is_low in LO.
                assert (X : ((55296 <=? u) && (u <? 56320) && (56320 <=? u2) && (u2 <? 57344)) = false) by lia.
                rewrite X. reflexivity. }
              rewrite D. reflexivity.
        -- pose proof (getu4_u_escape l') as G. rewrite UE in G.
           apply K. intros f. rewrite (ej_unquote_u f _ _ _ H4), SU, G. reflexivity.
      * destruct (is_low u) eqn:LO.
        -- assert (SU : is_surrogate u = true) by (unfold is_low, is_surrogate in *; lia).
           apply K. intros f. rewrite (ej_unquote_u f _ _ _ H4), SU.
           assert (D : forall o, utf16_decode u o = 65533).
           { intros o. unfold utf16_decode. destruct o as [r2|]; [|reflexivity]. unfold is_high in HI.
             assert (X : ((55296 <=? u) && (u <? 56320) && (56320 <=? r2) && (r2 <? 57344)) = false) by lia.
             rewrite X. reflexivity. }
           rewrite D. reflexivity.
        -- assert (SU : is_surrogate u = false) by (unfold is_high, is_low, is_surrogate in *; lia).
           apply K. intros f. rewrite (ej_unquote_u f _ _ _ H4), SU. reflexivity.
    + cbn [ej_scan_string]. change (92 =? 34) with false. change (92 =? 92) with true. cbv iota.
      rewrite C, (esc_char_short _ C).
      destruct (short_escape c) as [x|] eqn:SE; [|reflexivity].
      exists body''. split; [reflexivity|]. split; [exact I''|]. split; [simpl; lia|]. split; [reflexivity|].
      intros f. rewrite (ej_unquote_short f _ _ _ SE). reflexivity.
  - (* an unescaped byte *)
    cbn [app char_step].
    assert (E1 : (b =? 34) = false) by lia. assert (E2 : (b =? 92) = false) by lia.
    destruct (b <? 32) eqn:B0.
    + cbn [ej_scan_string]. rewrite E1, E2, B0. reflexivity.
    + rewrite E2.
      change (b :: body ++ 34 :: rest) with ((b :: body) ++ 34 :: rest).
      rewrite utf8_decode_app_quote by discriminate.
      destruct (utf8_decode (b :: body)) as [rn w] eqn:U.
      destruct (utf8_tail_high _ _ _ _ U) as (l' & Hf & Hh).
      pose proof (utf8_decode_width (b :: body)) as W. rewrite U in W. cbn [snd] in W.
      pose proof (utf8_decode_width_pos b body) as W1. rewrite U in W1. cbn [snd] in W1.
      assert (Split : b :: body = (b :: l') ++ skipn w (b :: body)) by (rewrite <- Hf; symmetry; apply firstn_skipn).
      exists (skipn w (b :: body)). split.
      { rewrite skipn_app. replace (w - length (b :: body))%nat with 0%nat by lia. reflexivity. }
      split.
      { rewrite Split in I. eapply items_drop_plain; [|exact I]. constructor; [lia|]. apply high_plain. exact Hh. }
      split.
      { rewrite skipn_length. lia. }
      split.
      { replace (b :: body ++ [34]) with ((b :: l') ++ skipn w (b :: body) ++ [34])
          by (rewrite app_assoc, <- Split; reflexivity).
        cbn [app ej_scan_string]. rewrite E1, E2, B0. apply ej_scan_high. exact Hh. }
      intros f. cbn [ej_unquote]. rewrite E2, E1, B0. cbn [orb].
      destruct (b <? 128) eqn:B7.
      * rewrite utf8_decode_ascii in U by lia. injection U as <- <-.
        rewrite utf8_encode_ascii by lia. reflexivity.
      * rewrite U. reflexivity.
Qed.

Lemma ej_unquote_agree : forall n body, (length body < n)%nat -> items body ->
  forall rest f1 f2, (length body < f1)%nat -> (length body < f2)%nat ->
  if ej_scan_string (body ++ [34])
  then exists s, ej_unquote f1 body = Some s /\ spec_chars f2 (body ++ 34 :: rest) = SOk s rest
  else spec_chars f2 (body ++ 34 :: rest) = SInvalid.
Proof.
  induction n as [|n IH]; intros body L I rest f1 f2 L1 L2; [lia|].
  destruct f1 as [|f1]; [lia|]. destruct f2 as [|f2]; [lia|].
  destruct body as [|b body].
  - simpl. exists []. split; reflexivity.
  - pose proof (ej_step b body rest I) as ST.
    change ((b :: body) ++ 34 :: rest) with (b :: body ++ 34 :: rest) in *.
    rewrite spec_chars_unfold.
    assert (E1 : (b =? 34) = false) by (inversion I; subst; [reflexivity|lia]). rewrite E1.
    destruct (char_step (b :: body ++ 34 :: rest)) as [[pre x]|].
    + destruct ST as (body2 & -> & I2 & L2' & SC & UQ).
      rewrite SC.
      assert (A : (length body2 < n)%nat) by (simpl in *; lia).
      specialize (IH body2 A I2 rest f1 f2).
      assert (B1 : (length body2 < f1)%nat) by (simpl in *; lia).
      assert (B2 : (length body2 < f2)%nat) by (simpl in *; lia).
      specialize (IH B1 B2).
      destruct (ej_scan_string (body2 ++ [34])).
      * destruct IH as (s & U2 & S2). exists (pre ++ s). split.
        -- rewrite UQ, U2. reflexivity.
        -- rewrite S2. reflexivity.
      * rewrite IH. reflexivity.
    + rewrite ST. reflexivity.
Qed.

(* ---------------------------------------------------------------- assembly *)
Definition str_rel (s : sres (list N)) (m : mres json) : Prop :=
  match s with
  | SOk v rest => m = MOk (JStr v) rest
  | SInvalid => m = MErr
  | SRange => False
  | SFuel => False
  end.

Lemma removelast_snoc {A} (l : list A) x : removelast (l ++ [x]) = l.
Proof. apply removelast_last. Qed.

Lemma string_agree r : str_rel (spec_string r) (parse_string r).
Proof.
  unfold parse_string.
  destruct (scan_string r true []) as [[[raw safe] rest]|] eqn:SC.
  - pose proof SC as SC'. apply (scan_string_some (S (length r))) in SC' as (body & -> & I); [|lia].
    rewrite (scan_string_items _ I) in SC. injection SC as <- <-. cbn [rev app andb].
    unfold spec_string.
    destruct (forallb plain_safe body) eqn:P.
    + rewrite (spec_chars_safe _ P I); [reflexivity|]. rewrite app_length. simpl. lia.
    + unfold ej_unmarshal_string. change (34 =? 34) with true. cbn [andb].
      rewrite removelast_snoc.
      pose proof (ej_unquote_agree (S (length body)) body (Nat.lt_succ_diag_r _) I rest (S (length body))
                    (S (length (body ++ 34 :: rest)))) as A.
      assert (B2 : (length body < S (length (body ++ 34%N :: rest)))%nat) by (rewrite app_length; simpl; lia).
      specialize (A (Nat.lt_succ_diag_r _) B2).
      destruct (ej_scan_string (body ++ [34])).
      * destruct A as (s & -> & ->). reflexivity.
      * rewrite A. reflexivity.
  - destruct (spec_string r) as [s rest| | |] eqn:E; simpl; auto.
    + exfalso. apply spec_chars_ok_items in E as (body & -> & I).
      rewrite (scan_string_items _ I) in SC. discriminate.
    + eapply spec_string_norange; eauto.
    + eapply spec_string_nofuel; eauto.
Qed.
