(* C18 -- what json.encode's `quote` writes is read back by the reference as
   the same string (each ill-formed UTF-8 byte as U+FFFD). *)
From Coq Require Import NArith ZArith List Bool Lia ZifyBool ZifyNat ZifyN.
From SV Require Import C15.Utf8 C15.Float C18.Spec C18.Model C18.Reading C18.ProofsBasic C18.ProofsSpec.
Import ListNotations.
Open Scope N_scope.

(* ------------------------------------------------ one chunk of quoted text *)
Lemma cs_plain b T : 32 <= b -> b < 128 -> b <> 34 -> b <> 92 -> char_step (b :: T) = Some ([b], T).
Proof.
  intros H1 H2 H3 H4. cbn [char_step].
  assert (E1 : (b <? 32) = false) by lia. assert (E2 : (b =? 92) = false) by lia. rewrite E1, E2.
  rewrite utf8_decode_ascii by lia. rewrite utf8_encode_ascii by lia. reflexivity.
Qed.

Lemma cs_short c x T : short_escape c = Some x -> char_step (92 :: c :: T) = Some ([x], T).
Proof.
  intros H. cbn [char_step]. change (92 <? 32) with false. change (92 =? 92) with true. cbv iota.
  destruct (c =? 117) eqn:C.
  - assert (c = 117) by lia. subst c. discriminate H.
  - rewrite H. reflexivity.
Qed.

Lemma hexval_hexchar n : n < 16 -> hexval (hexchar n) = Some n.
Proof.
  intros H. unfold hexchar, hexval, is_digit.
  destruct (n <? 10) eqn:A.
  - assert (E : ((48 <=? 48 + n) && (48 + n <=? 57)) = true) by lia. rewrite E. f_equal. lia.
  - assert (E : ((48 <=? 87 + n) && (87 + n <=? 57)) = false) by lia. rewrite E.
    assert (E2 : ((97 <=? 87 + n) && (87 + n <=? 102)) = true) by lia. rewrite E2. f_equal. lia.
Qed.

Lemma cs_u00 b T : b < 128 ->
  char_step (92 :: 117 :: 48 :: 48 :: hexchar (b / 16) :: hexchar (b mod 16) :: T) = Some ([b], T).
Proof.
  intros H. cbn [char_step]. change (92 <? 32) with false. change (92 =? 92) with true.
  change (117 =? 117) with true. cbv iota. cbn [hex4].
  assert (D : b / 16 < 16) by (apply N.div_lt_upper_bound; lia).
  assert (M : b mod 16 < 16) by (apply N.mod_lt; lia).
  rewrite (hexval_hexchar _ D), (hexval_hexchar _ M). change (hexval 48) with (Some 0). cbv iota beta.
  assert (V : 0 * 4096 + 0 * 256 + b / 16 * 16 + b mod 16 = b).
  { pose proof (N.div_mod b 16). lia. }
  rewrite V.
  assert (E1 : is_high b = false) by (unfold is_high; lia).
  assert (E2 : is_low b = false) by (unfold is_low; lia).
  rewrite E1, E2. rewrite utf8_encode_ascii by lia. reflexivity.
Qed.

Lemma cs_fffd T : char_step (92 :: 117 :: 102 :: 102 :: 102 :: 100 :: T) = Some (utf8_encode 65533, T).
Proof. reflexivity. Qed.
Lemma cs_2028 T : char_step (92 :: 117 :: 50 :: 48 :: 50 :: 56 :: T) = Some (utf8_encode 8232, T).
Proof. reflexivity. Qed.
Lemma cs_2029 T : char_step (92 :: 117 :: 50 :: 48 :: 50 :: 57 :: T) = Some (utf8_encode 8233, T).
Proof. reflexivity. Qed.

Lemma utf8_decode_prefix s c w T : utf8_decode s = (c, w) -> decode_invalid (c, w) = false -> s <> [] ->
  firstn w s = utf8_encode c /\ utf8_decode (firstn w s ++ T) = (c, w).
Proof.
  intros U V NE. destruct (utf8_decode_inv _ _ _ U V NE) as (SC & E & W).
  assert (F : firstn w s = utf8_encode c).
  { rewrite E at 1. rewrite W. rewrite firstn_app, Nat.sub_diag, firstn_all. simpl. apply app_nil_r. }
  split; [exact F|]. rewrite F, W. apply utf8_decode_encode. exact SC.
Qed.

Lemma cs_raw b r c w T : 128 <= b -> utf8_decode (b :: r) = (c, w) -> decode_invalid (c, w) = false ->
  char_step (firstn w (b :: r) ++ T) = Some (utf8_encode c, T).
Proof.
  intros Hb U V.
  destruct (utf8_decode_prefix _ _ _ T U V ltac:(discriminate)) as (F & D).
  pose proof (utf8_decode_width_pos b r) as W1. rewrite U in W1. cbn [snd] in W1.
  pose proof (utf8_decode_width (b :: r)) as W2. rewrite U in W2. cbn [snd] in W2.
  destruct w as [|w']; [lia|]. cbn [firstn app] in *.
  cbn [char_step].
  assert (E1 : (b <? 32) = false) by lia. assert (E2 : (b =? 92) = false) by lia. rewrite E1, E2.
  rewrite D. f_equal. f_equal.
  change (b :: firstn w' r ++ T) with ((b :: firstn w' r) ++ T).
  rewrite skipn_app.
  assert (L : length (b :: firstn w' r) = S w') by (simpl; rewrite firstn_length; simpl in W2; lia).
  rewrite L, Nat.sub_diag. rewrite <- L at 1. rewrite skipn_all. reflexivity.
Qed.

(* ------------------------------------------------------------- utf8_coerce *)
Lemma utf8_coerce_unfold f b r :
  utf8_coerce (S f) (b :: r) = let (c, w) := utf8_decode (b :: r) in utf8_encode c ++ utf8_coerce f (skipn w (b :: r)).
Proof. reflexivity. Qed.

(* ------------------------------------------- strconv.AppendQuote (ASCII) *)
Lemma coerce_ascii : forall s f, forallb (fun b => b <? 128) s = true -> (length s <= f)%nat -> utf8_coerce f s = s.
Proof.
  induction s as [|b s IH]; intros f A L.
  - destruct f; reflexivity.
  - destruct f as [|f]; [simpl in L; lia|]. simpl in A. apply andb_true_iff in A as [Ab A].
    rewrite utf8_coerce_unfold. rewrite utf8_decode_ascii by lia. rewrite utf8_encode_ascii by lia.
    cbn [skipn app]. rewrite IH; auto. simpl in L; lia.
Qed.

Lemma printable_ascii s : is_printable_ascii s = true -> forallb (fun b => b <? 128) s = true.
Proof.
  unfold is_printable_ascii. induction s as [|b s IH]; simpl; [auto|].
  intros H. apply andb_true_iff in H as [Hb H]. rewrite (IH H), andb_true_r. lia.
Qed.

Lemma append_quote_reads : forall s, is_printable_ascii s = true ->
  forall rest f, (length (flat_map append_quote_byte s) < f)%nat ->
  spec_chars f (flat_map append_quote_byte s ++ 34 :: rest) = SOk s rest.
Proof.
  unfold is_printable_ascii.
  induction s as [|b s IH]; intros P rest f L.
  - destruct f; [simpl in L; lia|]. reflexivity.
  - simpl in P. apply andb_true_iff in P as [Pb P]. cbn [flat_map] in *.
    rewrite app_length in L. rewrite <- app_assoc.
    destruct f as [|f]; [lia|].
    unfold append_quote_byte in *.
    destruct (b =? 34) eqn:B1.
    + assert (b = 34) by lia. subst b. cbn [app]. rewrite spec_chars_unfold. change (92 =? 34) with false. cbv iota.
      rewrite (cs_short 34 34) by reflexivity. rewrite IH; auto. simpl in L; lia.
    + destruct (b =? 92) eqn:B2.
      * assert (b = 92) by lia. subst b. cbn [app]. rewrite spec_chars_unfold. change (92 =? 34) with false. cbv iota.
        rewrite (cs_short 92 92) by reflexivity. rewrite IH; auto. simpl in L; lia.
      * assert (E : ((32 <=? b) && (b <? 127)) = true) by lia. rewrite E in *. cbn [app].
        rewrite spec_chars_unfold, B1. rewrite cs_plain by lia. rewrite IH; auto. simpl in L; lia.
Qed.

(* ------------------------------------------------ encoding/json.Marshal *)
Lemma short_escape_ej b : b < 128 -> html_safe b = false -> b <> 38 -> b <> 60 -> b <> 62 ->
  (b = 34 \/ b = 92 \/ b < 32).
Proof. unfold html_safe. lia. Qed.

Lemma ej_escape_reads b T : b < 128 -> html_safe b = false ->
  char_step (ej_escape_byte b ++ T) = Some ([b], T) /\ (1 <= length (ej_escape_byte b))%nat /\
  match ej_escape_byte b with c :: _ => (c =? 34) = false | [] => False end.
Proof.
  intros H1 H2. unfold ej_escape_byte.
  destruct ((b =? 92) || (b =? 34)) eqn:A.
  { cbn [app]. split; [|split; [simpl; lia|reflexivity]]. apply cs_short. unfold short_escape.
    destruct (b =? 34) eqn:B; [f_equal; lia|]. assert (E : (b =? 92) = true) by lia. rewrite E. f_equal. lia. }
  destruct (b =? 8) eqn:B8. { split; [|split; [simpl; lia|reflexivity]]. assert (b = 8) by lia. subst. reflexivity. }
  destruct (b =? 12) eqn:B12. { split; [|split; [simpl; lia|reflexivity]]. assert (b = 12) by lia. subst. reflexivity. }
  destruct (b =? 10) eqn:B10. { split; [|split; [simpl; lia|reflexivity]]. assert (b = 10) by lia. subst. reflexivity. }
  destruct (b =? 13) eqn:B13. { split; [|split; [simpl; lia|reflexivity]]. assert (b = 13) by lia. subst. reflexivity. }
  destruct (b =? 9) eqn:B9. { split; [|split; [simpl; lia|reflexivity]]. assert (b = 9) by lia. subst. reflexivity. }
  split; [|split; [simpl; lia|reflexivity]]. cbn [app]. apply cs_u00. exact H1.
Qed.

Ltac use_IH IH s fa fc rest f :=
  let H := fresh in
  assert (H : spec_chars f (ej_append_string fa s ++ 34 :: rest) = SOk (utf8_coerce fc s) rest)
    by (apply (IH s); rewrite ?skipn_length; cbn [length app] in *; rewrite ?app_length in *; cbn [length] in *; lia);
  rewrite H; reflexivity.

Lemma marshal_reads : forall n s, (length s <= n)%nat ->
  forall fa fc, (length s <= fa)%nat -> (length s <= fc)%nat ->
  forall rest f, (length (ej_append_string fa s) < f)%nat ->
  spec_chars f (ej_append_string fa s ++ 34 :: rest) = SOk (utf8_coerce fc s) rest.
Proof.
  induction n as [|n IH]; intros s Ln fa fc La Lc rest f Lf.
  - destruct s; [|simpl in Ln; lia]. destruct fa, fc, f; try (simpl in Lf; lia); reflexivity.
  - destruct s as [|b r].
    + destruct fa, fc, f; try (simpl in Lf; lia); reflexivity.
    + destruct fa as [|fa]; [simpl in La; lia|]. destruct fc as [|fc]; [simpl in Lc; lia|].
      destruct f as [|f]; [lia|].
      cbn [ej_append_string] in *. rewrite utf8_coerce_unfold.
      destruct (b <? 128) eqn:B7.
      * rewrite utf8_decode_ascii by lia. rewrite utf8_encode_ascii by lia. cbn [skipn].
        rewrite app_length in Lf. rewrite <- app_assoc.
        destruct (html_safe b) eqn:HS.
        -- cbn [app]. rewrite spec_chars_unfold.
           assert (E : (b =? 34) = false) by (unfold html_safe in HS; lia). rewrite E.
           rewrite cs_plain by (unfold html_safe in HS; lia).
           use_IH IH r fa fc rest f.
        -- destruct (ej_escape_reads b (ej_append_string fa r ++ 34 :: rest)) as (CS & L1 & HD); [lia|exact HS|].
           destruct (ej_escape_byte b) as [|c t] eqn:EB; [contradiction|].
           cbn [app] in *. rewrite spec_chars_unfold, HD, CS.
           use_IH IH r fa fc rest f.
      * destruct (utf8_decode (b :: r)) as [c w] eqn:U.
        pose proof (utf8_decode_width_pos b r) as W1. rewrite U in W1. cbn [snd] in W1.
        pose proof (utf8_decode_width (b :: r)) as W2. rewrite U in W2. cbn [snd] in W2.
        assert (Lsk : (length (skipn w (b :: r)) <= n)%nat) by (rewrite skipn_length; cbn [length] in *; lia).
        destruct ((c =? 65533) && Nat.eqb w 1) eqn:INV.
        -- assert (w = 1%nat) by (apply andb_true_iff in INV as [_ X]; apply Nat.eqb_eq in X; exact X).
           assert (c = 65533) by lia. subst w c. cbn [skipn] in *.
           cbn [app]. rewrite spec_chars_unfold. change (92 =? 34) with false. cbv iota.
           rewrite cs_fffd. use_IH IH r fa fc rest f.
        -- assert (V : decode_invalid (c, w) = false) by (unfold decode_invalid; cbn [fst snd]; exact INV).
           destruct ((c =? 8232) || (c =? 8233)) eqn:LS.
           ++ cbn [app]. rewrite spec_chars_unfold. change (92 =? 34) with false. cbv iota.
              destruct (c =? 8232) eqn:C8.
              ** assert (c = 8232) by lia. subst c. change (hexchar (8232 mod 16)) with 56.
                 rewrite cs_2028. use_IH IH (skipn w (b :: r)) fa fc rest f.
              ** assert (c = 8233) by lia. subst c. change (hexchar (8233 mod 16)) with 57.
                 rewrite cs_2029. use_IH IH (skipn w (b :: r)) fa fc rest f.
           ++ rewrite <- app_assoc. rewrite app_length in Lf.
              assert (Hb : 128 <= b) by lia.
              pose proof (cs_raw b r c w (ej_append_string fa (skipn w (b :: r)) ++ 34 :: rest) Hb U V) as CS.
              destruct w as [|w']; [lia|]. cbn [firstn app] in *.
              rewrite spec_chars_unfold.
              assert (E : (b =? 34) = false) by lia. rewrite E, CS.
              use_IH IH (skipn (S w') (b :: r)) fa fc rest f.
Qed.

(* ---------------------------------------------------------------- `quote` *)
Lemma quote_reads s rest :
  exists body, quote s = 34 :: body /\ spec_string (body ++ rest) = SOk (coerce s) rest.
Proof.
  unfold quote, spec_string, coerce.
  destruct (is_printable_ascii s) eqn:P.
  - exists (flat_map append_quote_byte s ++ [34]). split; [reflexivity|].
    rewrite <- app_assoc. cbn [app].
    rewrite append_quote_reads; auto.
    + rewrite coerce_ascii; auto using printable_ascii.
    + rewrite app_length. simpl. lia.
  - exists (ej_append_string (length s) s ++ [34]). split; [reflexivity|].
    rewrite <- app_assoc. cbn [app].
    apply (marshal_reads (length s)); auto. rewrite app_length. simpl. lia.
Qed.
