(* C18 -- lib/json/json.go as it was on the pinned tree, before the three "fix:"
   commits in /repo.  Documentation of the findings: this file is about frozen
   copies of the old definitions, not about /repo.

   (a) isPrintableASCII accepted 0x7f, so a string containing DEL went through
       strconv.AppendQuote and came out as "\x7f" -- not JSON.
   (b) the number scanner took the longest run of [0-9+-.eE], rejected only a
       leading zero followed by a digit, and left the rest to strconv.ParseFloat,
       which accepts "1.", "-.5", "1.e5", "-0.e-3" ...
   (c) the string scanner kept `safe` = true for raw control characters, so they
       were accepted without ever reaching encoding/json. *)
From Coq Require Import NArith ZArith List Bool.
From SV Require Import C15.Utf8 C15.Float C18.Spec C18.Model.
Import ListNotations.
Open Scope N_scope.

(* ---- (a) *)
Definition old_is_printable_ascii (s : list N) : bool :=
  forallb (fun b => negb ((b <? 32) || (128 <=? b))) s.
Definition old_quote (s : list N) : list N :=
  if old_is_printable_ascii s then append_quote s else ej_marshal_string s.

(* ---- (c) *)
Fixpoint old_scan_string (d : list N) (safe : bool) (acc : list N) : option (list N * bool * list N) :=
  match d with
  | [] => None
  | b :: r =>
      if b =? 92 then
        match r with
        | [] => None
        | c :: r2 => old_scan_string r2 false (c :: b :: acc)
        end
      else if b =? 34 then Some (rev acc, safe, r)
      else if 128 <=? b then old_scan_string r false (b :: acc)
      else old_scan_string r safe (b :: acc)
  end.
Definition old_parse_string (r : list N) : mres json :=
  match old_scan_string r true [] with
  | None => MErr
  | Some (raw, safe, rest) =>
      if safe then MOk (JStr raw) rest
      else match ej_unmarshal_string (34 :: raw ++ [34]) with
           | Some s => MOk (JStr s) rest
           | None => MErr
           end
  end.

(* ---- (b) *)
Definition old_precheck_fails (num : list N) : bool :=
  let digits := match num with b :: r => if b =? 45 then r else num | [] => num end in
  match digits with
  | [] => true
  | d0 :: t => (d0 =? 48) && match t with d1 :: _ => isdigit d1 | [] => false end
  end.
Definition old_parse_number (b : N) (r : list N) : mres json :=
  let '(t, float, rest) := scan_num r in
  let num := b :: t in
  if old_precheck_fails num then MErr
  else if float then
    match go_parse_float num with
    | Some (Some bits) => MOk (JFloat bits) rest
    | _ => MErr
    end
  else
    match big_set_string num with
    | Some z => MOk (JInt z) rest
    | None => MErr
    end.

Fixpoint old_parse (fuel : nat) (d : list N) : mres json :=
  match fuel with
  | O => MFuel
  | S f =>
      match skip_space d with
      | [] => MErr
      | b :: r =>
          if b =? 34 then old_parse_string r
          else if b =? 110 then
            match has_prefix lit_null (b :: r) with Some rest => MOk JNull rest | None => MErr end
          else if b =? 116 then
            match has_prefix lit_true (b :: r) with Some rest => MOk (JBool true) rest | None => MErr end
          else if b =? 102 then
            match has_prefix lit_false (b :: r) with Some rest => MOk (JBool false) rest | None => MErr end
          else if b =? 91 then
            match skip_space r with
            | [] => MErr
            | c :: r' => if negb (c =? 93) then parse_elems (old_parse f) f (c :: r') [] else MOk (JArr []) r'
            end
          else if b =? 123 then
            match skip_space r with
            | [] => MErr
            | c :: r' => if negb (c =? 125) then parse_members (old_parse f) f (c :: r') [] else MOk (JObj []) r'
            end
          else if isdigit b || (b =? 45) then old_parse_number b r
          else MErr
      end
  end.

Definition old_decode (d : list N) : dres :=
  match old_parse (S (length d)) d with
  | MOk v rest => match skip_space rest with [] => DOk v | _ :: _ => DErr end
  | MErr => DErr
  | MFuel => DFuel
  end.

(* ---- the refutations (witnesses replayed on the real code by bin/check C18
        before the fixes: finding keys decode-accepts:number-frac-no-digits,
        decode-accepts:number-no-int-digits, decode-accepts:string-raw-control,
        encode-invalid:0x7f) *)

(* "1." *)
Lemma decode_rejects_invalid_refuted_trailing_dot :
  exists d, spec_decode d = SpecInvalid /\ old_decode d <> DErr.
Proof. exists [49; 46]. vm_compute. split; [reflexivity | discriminate]. Qed.

(* "-.5" *)
Lemma decode_rejects_invalid_refuted_no_int_digits :
  exists d, spec_decode d = SpecInvalid /\ old_decode d <> DErr.
Proof. exists [45; 46; 53]. vm_compute. split; [reflexivity | discriminate]. Qed.

(* a string holding a raw LF: quote, 'a', 0x0a, 'b', quote *)
Lemma decode_rejects_invalid_refuted_raw_control :
  exists d, spec_decode d = SpecInvalid /\ old_decode d <> DErr.
Proof. exists [34; 97; 10; 98; 34]. vm_compute. split; [reflexivity | discriminate]. Qed.

(* encode("\x7f") was  quote backslash x 7 f quote *)
Lemma encode_valid_refuted_del :
  exists s, spec_valid (old_quote s) = false.
Proof. exists [127]. vm_compute. reflexivity. Qed.
