(* C18 -- facts about the JSON reading: json.encode fails exactly on the values
   the documentation excludes; on valid UTF-8 the reading of a string is the
   string itself. *)
From Coq Require Import NArith ZArith List Bool Lia ZifyBool ZifyNat ZifyN.
From SV Require Import C15.Utf8 C15.Float C18.Spec C18.Model C18.Reading
  C18.ProofsBasic C18.ProofsDecode C18.ProofsEncode.
Import ListNotations.
Open Scope N_scope.

Section Enc.
  Variable fstr : N -> list N.

  Definition enc_ok (x : value) : Prop :=
    match emit fstr x with Some _ => encodable x = true | None => encodable x = false end.

  Lemma emit_all_ok l : Forall enc_ok l ->
    match emit_all fstr l with Some _ => forallb encodable l = true | None => forallb encodable l = false end.
  Proof.
    induction 1 as [|e t He _ IH]; [reflexivity|]. cbn [emit_all forallb]. unfold enc_ok in He.
    destruct (emit fstr e); rewrite He; cbn [obind andb]; [|reflexivity].
    destruct (emit_all fstr t); cbn [option_map]; exact IH.
  Qed.

  Lemma emit_fields_ok kv : Forall (fun p => enc_ok (snd p)) kv ->
    match emit_fields fstr kv with
    | Some _ => forallb (fun kv => encodable (snd kv)) kv = true
    | None => forallb (fun kv => encodable (snd kv)) kv = false
    end.
  Proof.
    induction 1 as [|[k v] t He _ IH]; [reflexivity|]. cbn [emit_fields forallb snd] in *. unfold enc_ok in He.
    destruct (emit fstr v); rewrite He; cbn [obind andb]; [|reflexivity].
    destruct (emit_fields fstr t); cbn [option_map]; exact IH.
  Qed.

  Lemma emit_dict_ok kv : Forall (fun p => enc_ok (snd p)) kv ->
    match emit_dict fstr kv with
    | Some _ => forallb (fun kv => match fst kv with VStr _ => true | _ => false end && encodable (snd kv)) kv = true
    | None => forallb (fun kv => match fst kv with VStr _ => true | _ => false end && encodable (snd kv)) kv = false
    end.
  Proof.
    induction 1 as [|[k v] t He _ IH]; [reflexivity|]. cbn [emit_dict forallb fst snd] in *. unfold enc_ok in He.
    destruct k; try reflexivity.
    destruct (emit fstr v); rewrite He; cbn [obind andb]; [|reflexivity].
    destruct (emit_dict fstr t); cbn [option_map]; exact IH.
  Qed.

  Lemma encode_ok_all : forall x, enc_ok x.
  Proof.
    apply value_rect'; unfold enc_ok; try reflexivity.
    - intros b. destruct b; reflexivity.
    - intros b. cbn [emit encodable]. destruct (b64_is_finite b); reflexivity.
    - intros l FR. rewrite emit_list_unfold. pose proof (emit_all_ok l FR) as H.
      destruct (emit_all fstr l); exact H.
    - intros l FR. rewrite emit_tuple_unfold. pose proof (emit_all_ok l FR) as H.
      destruct (emit_all fstr l); exact H.
    - intros kv FR. rewrite emit_dict_unfold. pose proof (emit_dict_ok kv FR) as H.
      destruct (emit_dict fstr kv); exact H.
    - intros kv FR. rewrite emit_struct_unfold. pose proof (emit_fields_ok kv FR) as H.
      destruct (emit_fields fstr kv); exact H.
  Qed.

  Lemma encode_errors_lemma x : (exists out, encode fstr x = Some out) <-> encodable x = true.
  Proof.
    pose proof (encode_ok_all x) as H. unfold enc_ok, encode in *.
    destruct (emit fstr x) as [out|]; split.
    - intros _. exact H.
    - intros _. eauto.
    - intros [out E]. discriminate.
    - intros E. congruence.
  Qed.
End Enc.

(* ---------------------------------------------- valid UTF-8 is not changed *)
Lemma valid_from_skip : forall k r, valid_utf8_from k r = true ->
  (k <= length r)%nat /\ valid_utf8_from 0 (skipn k r) = true.
Proof.
  induction k as [|k IH]; intros r H.
  - split; [lia|exact H].
  - destruct r as [|b r]; [discriminate|]. cbn [valid_utf8_from] in H.
    apply IH in H as [L V]. split; [simpl; lia|exact V].
Qed.

Lemma coerce_valid_aux : forall n s, (length s <= n)%nat -> valid_utf8_from 0 s = true ->
  forall f, (length s <= f)%nat -> utf8_coerce f s = s.
Proof.
  induction n as [|n IH]; intros s Ln V f Lf.
  - destruct s; [|simpl in Ln; lia]. destruct f; reflexivity.
  - destruct s as [|b r]; [destruct f; reflexivity|].
    destruct f as [|f]; [simpl in Lf; lia|].
    cbn [valid_utf8_from] in V.
    destruct (utf8_decode (b :: r)) as [c w] eqn:U.
    destruct (decode_invalid (c, w)) eqn:DI; [discriminate|]. cbn [snd] in V.
    pose proof (utf8_decode_width_pos b r) as W1. rewrite U in W1. cbn [snd] in W1.
    apply valid_from_skip in V as [Lw V].
    destruct (utf8_decode_inv _ _ _ U DI ltac:(discriminate)) as (_ & E & _).
    change (utf8_coerce (S f) (b :: r)) with
      (let (c, w) := utf8_decode (b :: r) in utf8_encode c ++ utf8_coerce f (skipn w (b :: r))).
    rewrite U.
    assert (SK : skipn w (b :: r) = skipn (w - 1) r) by (destruct w; [lia|]; cbn [skipn]; f_equal; lia).
    rewrite (IH (skipn w (b :: r))).
    + symmetry. exact E.
    + rewrite skipn_length. cbn [length] in *. lia.
    + rewrite SK. exact V.
    + rewrite skipn_length. cbn [length] in *. lia.
Qed.

Lemma coerce_valid s : valid_utf8 s = true -> coerce s = s.
Proof. intros V. unfold coerce. apply (coerce_valid_aux (length s)); auto. Qed.

(* ------------------------- on representable values the reading is the plain one *)
Lemma obj_set_fresh acc k v : existsb (bytes_eqb k) (map fst acc) = false -> obj_set acc k v = acc ++ [(k, v)].
Proof.
  induction acc as [|[k' v'] t IH]; cbn [map fst existsb obj_set app]; [reflexivity|].
  intros H. apply orb_false_iff in H as [H1 H2]. rewrite H1, (IH H2). reflexivity.
Qed.

Lemma distinct_app_fresh a k b : distinct (a ++ k :: b) = true -> existsb (bytes_eqb k) a = false.
Proof.
  induction a as [|x a IH]; cbn [app distinct existsb]; [reflexivity|].
  intros H. apply andb_true_iff in H as [H1 H2]. rewrite (IH H2), orb_false_r.
  apply negb_true_iff in H1. rewrite existsb_app in H1. apply orb_false_iff in H1 as [_ H1].
  cbn [existsb] in H1. apply orb_false_iff in H1 as [H1 _]. rewrite bytes_eqb_sym. exact H1.
Qed.

Lemma obj_of_distinct_aux : forall l acc, distinct (map fst (acc ++ l)) = true ->
  fold_left (fun a kv => obj_set a (fst kv) (snd kv)) l acc = acc ++ l.
Proof.
  induction l as [|[k v] t IH]; intros acc D; cbn [fold_left fst snd].
  - rewrite app_nil_r. reflexivity.
  - rewrite map_app in D. cbn [map fst] in D.
    rewrite (obj_set_fresh acc k v (distinct_app_fresh _ _ _ D)).
    rewrite IH; rewrite <- app_assoc; [reflexivity|]. cbn [app]. rewrite map_app. exact D.
Qed.

Lemma obj_of_distinct l : distinct (map fst l) = true -> obj_of l = l.
Proof. intros D. unfold obj_of. apply (obj_of_distinct_aux l []). exact D. Qed.

Lemma existsb_insert {A} x k (v : A) l :
  existsb (bytes_eqb x) (map fst (insert_by_key k v l)) = bytes_eqb x k || existsb (bytes_eqb x) (map fst l).
Proof.
  induction l as [|[k1 v1] t IH]; cbn [insert_by_key map fst existsb]; [reflexivity|].
  destruct (bytes_ltb k1 k); cbn [map fst existsb]; [rewrite IH|reflexivity].
  destruct (bytes_eqb x k1), (bytes_eqb x k); reflexivity.
Qed.

Lemma existsb_sort {A} x (l : list (list N * A)) :
  existsb (bytes_eqb x) (map fst (sort_by_key l)) = existsb (bytes_eqb x) (map fst l).
Proof.
  induction l as [|[k v] t IH]; cbn [sort_by_key map fst existsb]; [reflexivity|].
  rewrite existsb_insert, IH. reflexivity.
Qed.

Lemma distinct_insert {A} k (v : A) l :
  existsb (bytes_eqb k) (map fst l) = false -> distinct (map fst l) = true ->
  distinct (map fst (insert_by_key k v l)) = true.
Proof.
  induction l as [|[k1 v1] t IH]; cbn [insert_by_key map fst existsb distinct]; [reflexivity|].
  intros F D. apply orb_false_iff in F as [F1 F2]. apply andb_true_iff in D as [D1 D2].
  destruct (bytes_ltb k1 k); cbn [map fst distinct existsb].
  - rewrite existsb_insert, (bytes_eqb_sym k1 k), F1. cbn [orb]. rewrite D1, (IH F2 D2). reflexivity.
  - rewrite F1, F2, D1, D2. reflexivity.
Qed.

Lemma distinct_sort {A} (l : list (list N * A)) :
  distinct (map fst l) = true -> distinct (map fst (sort_by_key l)) = true.
Proof.
  induction l as [|[k v] t IH]; cbn [sort_by_key map fst distinct]; [reflexivity|].
  intros D. apply andb_true_iff in D as [D1 D2]. apply negb_true_iff in D1.
  apply distinct_insert; [rewrite existsb_sort; exact D1|exact (IH D2)].
Qed.

Lemma coerce_keys_valid (l : list (list N * json)) : Forall (fun kv => valid_utf8 (fst kv) = true) l ->
  map (fun kv => (coerce (fst kv), snd kv)) l = l.
Proof.
  induction 1 as [|[k v] t H _ IH]; cbn [map fst snd]; [reflexivity|].
  cbn [fst] in H. rewrite (coerce_valid k H), IH. reflexivity.
Qed.

Lemma object_exact (L : list (list N * json)) :
  Forall (fun kv => valid_utf8 (fst kv) = true) L -> distinct (map fst L) = true ->
  obj_of (map (fun kv => (coerce (fst kv), snd kv)) (sort_by_key L)) = sort_by_key L.
Proof.
  intros V D. rewrite coerce_keys_valid by (apply sort_Forall; exact V).
  apply obj_of_distinct. apply distinct_sort. exact D.
Qed.

Lemma reading_exact_lemma : forall x, representable x = true -> jread x = jplain x.
Proof.
  apply (value_rect' (fun x => representable x = true -> jread x = jplain x)).
  - reflexivity.
  - reflexivity.
  - reflexivity.
  - reflexivity.
  - intros s V. cbn [representable] in V. cbn [jread jplain]. rewrite (coerce_valid s V). reflexivity.
  - intros l FR R. cbn [representable] in R. cbn [jread jplain]. f_equal.
    induction FR as [|e t He _ IH]; [reflexivity|]. cbn [forallb] in R. apply andb_true_iff in R as [R1 R2].
    cbn [map]. rewrite (He R1), (IH R2). reflexivity.
  - intros l FR R. cbn [representable] in R. cbn [jread jplain]. f_equal.
    induction FR as [|e t He _ IH]; [reflexivity|]. cbn [forallb] in R. apply andb_true_iff in R as [R1 R2].
    cbn [map]. rewrite (He R1), (IH R2). reflexivity.
  - intros kv FR R. cbn [representable] in R. apply andb_true_iff in R as [R D]. cbn [jread jplain]. f_equal.
    assert (E : map (fun kv => (match fst kv with VStr k => k | _ => [] end, jread (snd kv))) kv =
                map (fun kv => (match fst kv with VStr k => k | _ => [] end, jplain (snd kv))) kv).
    { clear D. induction FR as [|p t Hp _ IH]; [reflexivity|]. cbn [forallb] in R. apply andb_true_iff in R as [R1 R2].
      apply andb_true_iff in R1 as [_ R1]. cbn [map]. rewrite (Hp R1), (IH R2). reflexivity. }
    rewrite E. apply object_exact.
    + clear D E FR. induction kv as [|[k v] t IH]; [constructor|]. cbn [forallb] in R. apply andb_true_iff in R as [R1 R2].
      cbn [map]. constructor; [|exact (IH R2)]. cbn [fst snd] in *. apply andb_true_iff in R1 as [R1 _].
      destruct k; try discriminate. exact R1.
    + rewrite map_map. cbn [fst]. exact D.
  - intros kv FR R. cbn [representable] in R. apply andb_true_iff in R as [R D]. cbn [jread jplain]. f_equal.
    assert (E : map (fun kv => (fst kv, jread (snd kv))) kv = map (fun kv => (fst kv, jplain (snd kv))) kv).
    { clear D. induction FR as [|p t Hp _ IH]; [reflexivity|]. cbn [forallb] in R. apply andb_true_iff in R as [R1 R2].
      apply andb_true_iff in R1 as [_ R1]. cbn [map]. rewrite (Hp R1), (IH R2). reflexivity. }
    rewrite E. apply object_exact.
    + clear D E FR. induction kv as [|[k v] t IH]; [constructor|]. cbn [forallb] in R. apply andb_true_iff in R as [R1 R2].
      cbn [map]. constructor; [|exact (IH R2)]. cbn [fst snd] in *. apply andb_true_iff in R1 as [R1 _]. exact R1.
    + rewrite map_map. cbn [fst]. rewrite <- D. f_equal.
  - discriminate.
Qed.

Lemma decode_encode_lemma (fstr : N -> list N) x out :
  encode fstr x = Some out -> float_texts_read_back fstr x -> C18.Model.decode out = DOk (jread x).
Proof.
  intros H FO. apply C18.ProofsDecode.decode_value_lemma. exact (encode_valid_lemma fstr x out H FO).
Qed.

Lemma decode_encode_representable_lemma (fstr : N -> list N) x out :
  representable x = true -> encode fstr x = Some out -> float_texts_read_back fstr x ->
  spec_decode out = SpecOk (jplain x) /\ C18.Model.decode out = DOk (jplain x).
Proof.
  intros R H FO. rewrite <- (reading_exact_lemma x R). split.
  - exact (encode_valid_lemma fstr x out H FO).
  - exact (decode_encode_lemma fstr x out H FO).
Qed.
