(* C18 -- the reference decoder is total for the fuel it is run with: every
   successful step consumes input (progress) and fuel > length suffices. *)
From Coq Require Import NArith ZArith List Bool Lia ZifyBool ZifyNat ZifyN.
From SV Require Import C15.Utf8 C15.Float C18.Spec C18.Model C18.ProofsBasic.
Import ListNotations.
Open Scope N_scope.

(* ---------------------------------------------------------------- strings *)
(* one character of a string (the head is not the closing quote):
   (bytes denoted, remaining input) *)
Definition char_step (d : list N) : option (list N * list N) :=
  match d with
  | [] => None
  | b :: r =>
      if b <? 32 then None
      else if b =? 92 then
        match r with
        | [] => None
        | c :: r2 =>
            if c =? 117 then
              match hex4 r2 with
              | None => None
              | Some (u, r3) =>
                  if is_high u then
                    match u_escape r3 with
                    | Some (u2, r5) =>
                        if is_low u2 then Some (utf8_encode (pair_rune u u2), r5)
                        else Some (utf8_encode rune_error, r3)
                    | None => Some (utf8_encode rune_error, r3)
                    end
                  else if is_low u then Some (utf8_encode rune_error, r3)
                  else Some (utf8_encode u, r3)
              end
            else match short_escape c with Some x => Some ([x], r2) | None => None end
        end
      else let (rn, w) := utf8_decode d in Some (utf8_encode rn, skipn w d)
  end.

Lemma spec_chars_unfold f b r :
  spec_chars (S f) (b :: r) =
  if b =? 34 then SOk [] r
  else match char_step (b :: r) with
       | None => SInvalid
       | Some (pre, x) => scons pre (spec_chars f x)
       end.
Proof.
  cbn [spec_chars char_step].
  destruct (b =? 34); [reflexivity|].
  destruct (b <? 32); [reflexivity|].
  destruct (b =? 92).
  - destruct r as [|c r2]; [reflexivity|].
    destruct (c =? 117).
    + destruct (hex4 r2) as [[u r3]|]; [|reflexivity].
      destruct (is_high u).
      * destruct (u_escape r3) as [[u2 r5]|]; [|reflexivity].
        destruct (is_low u2); reflexivity.
      * destruct (is_low u); reflexivity.
    + destruct (short_escape c); reflexivity.
  - destruct (utf8_decode (b :: r)) as [rn w]. reflexivity.
Qed.

Lemma hex4_length d u r : hex4 d = Some (u, r) -> length d = (4 + length r)%nat.
Proof.
  destruct d as [|a [|b [|c [|e t]]]]; simpl; try discriminate.
  destruct (hexval a), (hexval b), (hexval c), (hexval e); try discriminate.
  intros H. injection H as _ <-. reflexivity.
Qed.

Lemma u_escape_length d u r : u_escape d = Some (u, r) -> length d = (6 + length r)%nat.
Proof.
  destruct d as [|a [|b t]]; simpl; try discriminate.
  destruct ((a =? 92) && (b =? 117)); [|discriminate].
  intros H. apply hex4_length in H. lia.
Qed.

Lemma char_step_shorter d pre x : char_step d = Some (pre, x) -> (length x < length d)%nat.
Proof.
  destruct d as [|b r]; cbn [char_step]; [discriminate|].
  destruct (b <? 32); [discriminate|].
  destruct (b =? 92).
  - destruct r as [|c r2]; [discriminate|].
    destruct (c =? 117).
    + destruct (hex4 r2) as [[u r3]|] eqn:H4; [|discriminate].
      apply hex4_length in H4.
      destruct (is_high u).
      * destruct (u_escape r3) as [[u2 r5]|] eqn:UE.
        -- apply u_escape_length in UE.
           destruct (is_low u2); intros H; injection H as _ <-; simpl; lia.
        -- intros H; injection H as _ <-; simpl; lia.
      * destruct (is_low u); intros H; injection H as _ <-; simpl; lia.
    + destruct (short_escape c); [|discriminate]. intros H; injection H as _ <-; simpl; lia.
  - destruct (utf8_decode (b :: r)) as [rn w] eqn:U.
    intros H; injection H as _ <-.
    pose proof (utf8_decode_width_pos b r) as P. rewrite U in P. simpl in P.
    rewrite skipn_length. cbn [length]. lia.
Qed.

Lemma scons_ok pre r s rest : scons pre r = SOk s rest -> exists s', r = SOk s' rest /\ s = pre ++ s'.
Proof. destruct r; simpl; try discriminate. intros H; injection H as <- <-. eauto. Qed.

Lemma spec_chars_facts : forall f d,
  (forall s rest, spec_chars f d = SOk s rest -> (length rest < length d)%nat) /\
  ((length d < f)%nat -> spec_chars f d <> SFuel) /\
  spec_chars f d <> SRange.
Proof.
  induction f as [|f IH]; intros d.
  - simpl. repeat split; try discriminate. lia.
  - destruct d as [|b r].
    + simpl. repeat split; discriminate.
    + rewrite spec_chars_unfold.
      destruct (b =? 34).
      * repeat split; try discriminate. intros s rest H; injection H as _ <-. simpl; lia.
      * destruct (char_step (b :: r)) as [[pre x]|] eqn:CS; [|repeat split; discriminate].
        apply char_step_shorter in CS.
        destruct (IH x) as (P & F & R).
        repeat split.
        -- intros s rest H. apply scons_ok in H as (s' & H & _). apply P in H. lia.
        -- intros L. destruct (spec_chars f x) eqn:E; simpl; try discriminate.
           exfalso. apply F; [simpl in L, CS; lia | reflexivity].
        -- destruct (spec_chars f x) eqn:E; simpl; try discriminate. exfalso. apply R. reflexivity.
Qed.

Lemma spec_string_progress r s rest : spec_string r = SOk s rest -> (length rest < length r)%nat.
Proof. apply spec_chars_facts. Qed.
Lemma spec_string_nofuel r : spec_string r <> SFuel.
Proof. apply spec_chars_facts. lia. Qed.
Lemma spec_string_norange r : spec_string r <> SRange.
Proof. apply spec_chars_facts. Qed.

(* ---------------------------------------------------------------- numbers *)
Lemma take_frac_length d fp rest : take_frac d = (fp, rest) -> (length rest <= length d)%nat.
Proof.
  destruct d as [|b r]; simpl.
  - intros H; injection H as _ <-. simpl; lia.
  - destruct (b =? 46).
    + destruct (take_digits r) as [ds rest'] eqn:T. apply take_digits_length in T.
      destruct ds; intros H; injection H as _ <-; simpl in *; lia.
    + intros H; injection H as _ <-. simpl; lia.
Qed.

Lemma take_exp_length d ex rest : take_exp d = (ex, rest) -> (length rest <= length d)%nat.
Proof.
  destruct d as [|b r]; simpl.
  - intros H; injection H as _ <-. simpl; lia.
  - destruct ((b =? 101) || (b =? 69)).
    + destruct r as [|c r'].
      * simpl. intros H; injection H as _ <-. simpl; lia.
      * destruct (c =? 45).
        -- destruct (take_digits r') as [ds rest'] eqn:T. apply take_digits_length in T.
           destruct ds; intros H; injection H as _ <-; simpl in *; lia.
        -- destruct (c =? 43).
           ++ destruct (take_digits r') as [ds rest'] eqn:T. apply take_digits_length in T.
              destruct ds; intros H; injection H as _ <-; simpl in *; lia.
           ++ destruct (take_digits (c :: r')) as [ds rest'] eqn:T. apply take_digits_length in T.
              destruct ds; intros H; injection H as _ <-; simpl in *; lia.
    + intros H; injection H as _ <-. simpl; lia.
Qed.

Lemma spec_number_progress d v rest : spec_number d = SOk v rest -> (length rest < length d)%nat.
Proof.
  unfold spec_number.
  set (p := match d with b :: r => if b =? 45 then (true, r) else (false, d) | [] => (false, d) end).
  assert (L : (length (snd p) <= length d)%nat).
  { subst p. destruct d as [|b r]; simpl; [lia|]. destruct (b =? 45); simpl; lia. }
  destruct p as [neg d1]. simpl in L.
  destruct d1 as [|b r]; [discriminate|].
  destruct (negb (is_digit b)) eqn:DB; [discriminate|].
  set (q := if b =? 48 then ([b], r) else take_digits (b :: r)).
  assert (L2 : (length (snd q) < length (b :: r))%nat).
  { subst q. destruct (b =? 48); simpl; [lia|].
    apply negb_false_iff in DB. rewrite DB.
    destruct (take_digits r) as [ds rest'] eqn:T. apply take_digits_length in T. simpl. lia. }
  destruct q as [ip d2]. simpl in L2.
  destruct (take_frac d2) as [fp d3] eqn:TF. apply take_frac_length in TF.
  destruct (take_exp d3) as [ex d4] eqn:TE. apply take_exp_length in TE.
  intros H.
  assert (rest = d4).
  { destruct fp, ex; try (injection H as _ <-; reflexivity);
    match type of H with context [dec_to_b64 ?a ?b ?c] => destruct (dec_to_b64 a b c) end;
    try discriminate; injection H as _ <-; reflexivity. }
  subst rest. simpl in *. lia.
Qed.

Lemma spec_number_nofuel d : spec_number d <> SFuel.
Proof.
  unfold spec_number.
  destruct (match d with b :: r => if b =? 45 then (true, r) else (false, d) | [] => (false, d) end) as [neg d1].
  destruct d1 as [|b r]; [discriminate|].
  destruct (negb (is_digit b)); [discriminate|].
  destruct (if b =? 48 then ([b], r) else take_digits (b :: r)) as [ip d2].
  destruct (take_frac d2) as [fp d3]. destruct (take_exp d3) as [ex d4].
  destruct fp, ex; try discriminate;
  match goal with |- context [dec_to_b64 ?a ?b ?c] => destruct (dec_to_b64 a b c) end; discriminate.
Qed.

(* ------------------------------------------------------------------ loops *)
Definition pv_progress (pv : list N -> sres json) : Prop :=
  forall d v rest, pv d = SOk v rest -> (length rest < length d)%nat.
Definition pv_nofuel (f : nat) (pv : list N -> sres json) : Prop :=
  forall d, (length d < f)%nat -> pv d <> SFuel.

Lemma spec_elems_progress pv : pv_progress pv ->
  forall n d acc l rest, spec_elems pv n d acc = SOk l rest -> (length rest < length d)%nat.
Proof.
  intros P. induction n as [|n IH]; intros d acc l rest; simpl; [discriminate|].
  destruct (pv d) as [v r1| | |] eqn:E; try discriminate.
  apply P in E. pose proof (skip_ws_length r1) as L.
  destruct (skip_ws r1) as [|b r]; [discriminate|].
  destruct (b =? 44).
  - intros H. apply IH in H. simpl in L. lia.
  - destruct (b =? 93); [|discriminate]. intros H; injection H as _ <-. simpl in L. lia.
Qed.

Lemma spec_elems_nofuel pv f : pv_progress pv -> pv_nofuel f pv ->
  forall n d acc, (length d < n)%nat -> (length d < f)%nat -> spec_elems pv n d acc <> SFuel.
Proof.
  intros P F. induction n as [|n IH]; intros d acc Ln Lf; [lia|]. simpl.
  destruct (pv d) as [v r1| | |] eqn:E; try discriminate.
  - apply P in E. pose proof (skip_ws_length r1) as L.
    destruct (skip_ws r1) as [|b r]; [discriminate|].
    destruct (b =? 44).
    + apply IH; simpl in L; lia.
    + destruct (b =? 93); discriminate.
  - exfalso. eapply F; eauto.
Qed.

Lemma spec_members_progress pv : pv_progress pv ->
  forall n d acc l rest, spec_members pv n d acc = SOk l rest -> (length rest < length d)%nat.
Proof.
  intros P. induction n as [|n IH]; intros d acc l rest; simpl; [discriminate|].
  pose proof (skip_ws_length d) as L0.
  destruct (skip_ws d) as [|q r0]; [discriminate|].
  destruct (negb (q =? 34)); [discriminate|].
  destruct (spec_string r0) as [k r1| | |] eqn:ES; try discriminate.
  apply spec_string_progress in ES. pose proof (skip_ws_length r1) as L1.
  destruct (skip_ws r1) as [|c r2]; [discriminate|].
  destruct (negb (c =? 58)); [discriminate|].
  destruct (pv r2) as [v r3| | |] eqn:E; try discriminate.
  apply P in E. pose proof (skip_ws_length r3) as L3.
  destruct (skip_ws r3) as [|b r]; [discriminate|].
  destruct (b =? 44).
  - intros H. apply IH in H. simpl in *. lia.
  - destruct (b =? 125); [|discriminate]. intros H; injection H as _ <-. simpl in *. lia.
Qed.

Lemma spec_members_nofuel pv f : pv_progress pv -> pv_nofuel f pv ->
  forall n d acc, (length d < n)%nat -> (length d < f)%nat -> spec_members pv n d acc <> SFuel.
Proof.
  intros P F. induction n as [|n IH]; intros d acc Ln Lf; [lia|]. simpl.
  pose proof (skip_ws_length d) as L0.
  destruct (skip_ws d) as [|q r0]; [discriminate|].
  destruct (negb (q =? 34)); [discriminate|].
  destruct (spec_string r0) as [k r1| | |] eqn:ES; try discriminate.
  - apply spec_string_progress in ES. pose proof (skip_ws_length r1) as L1.
    destruct (skip_ws r1) as [|c r2]; [discriminate|].
    destruct (negb (c =? 58)); [discriminate|].
    destruct (pv r2) as [v r3| | |] eqn:E; try discriminate.
    + apply P in E. pose proof (skip_ws_length r3) as L3.
      destruct (skip_ws r3) as [|b r]; [discriminate|].
      destruct (b =? 44).
      * apply IH; simpl in *; lia.
      * destruct (b =? 125); discriminate.
    + exfalso. eapply F; [|exact E]. simpl in *. lia.
  - exfalso. eapply spec_string_nofuel; eauto.
Qed.

(* ------------------------------------------------------------------ values *)
Lemma has_prefix_length p : forall d rest, has_prefix p d = Some rest -> length d = (length p + length rest)%nat.
Proof.
  induction p as [|x p IH]; intros d rest; simpl.
  - intros H; injection H as <-. reflexivity.
  - destruct d as [|y d]; [discriminate|]. destruct (x =? y); [|discriminate].
    intros H. apply IH in H. simpl. lia.
Qed.

Lemma smap_ok {A B} (g : A -> B) r b rest : smap g r = SOk b rest -> exists a, r = SOk a rest /\ b = g a.
Proof. destruct r; simpl; try discriminate. intros H; injection H as <- <-. eauto. Qed.

Lemma spec_value_progress : forall f, pv_progress (spec_value f).
Proof.
  induction f as [|f IH]; intros d v rest; cbn [spec_value]; [discriminate|].
  pose proof (skip_ws_length d) as L0.
  destruct (skip_ws d) as [|b r]; [discriminate|].
  destruct (b =? 34).
  { intros H. apply smap_ok in H as (s & H & _). apply spec_string_progress in H. simpl in *; lia. }
  destruct (b =? 110).
  { destruct (has_prefix lit_null (b :: r)) eqn:HP; [|discriminate].
    apply has_prefix_length in HP. intros H; injection H as _ <-. simpl in *; lia. }
  destruct (b =? 116).
  { destruct (has_prefix lit_true (b :: r)) eqn:HP; [|discriminate].
    apply has_prefix_length in HP. intros H; injection H as _ <-. simpl in *; lia. }
  destruct (b =? 102).
  { destruct (has_prefix lit_false (b :: r)) eqn:HP; [|discriminate].
    apply has_prefix_length in HP. intros H; injection H as _ <-. simpl in *; lia. }
  destruct (b =? 91).
  { pose proof (skip_ws_length r) as L1.
    destruct (skip_ws r) as [|c r']; [discriminate|].
    destruct (c =? 93).
    - intros H; injection H as _ <-. simpl in *; lia.
    - intros H. apply smap_ok in H as (l & H & _). apply (spec_elems_progress _ IH) in H. simpl in *; lia. }
  destruct (b =? 123).
  { pose proof (skip_ws_length r) as L1.
    destruct (skip_ws r) as [|c r']; [discriminate|].
    destruct (c =? 125).
    - intros H; injection H as _ <-. simpl in *; lia.
    - intros H. apply smap_ok in H as (l & H & _). apply (spec_members_progress _ IH) in H. simpl in *; lia. }
  destruct (is_digit b || (b =? 45)); [|discriminate].
  intros H. apply spec_number_progress in H. simpl in *; lia.
Qed.

Lemma smap_nofuel {A B} (g : A -> B) r : r <> SFuel -> smap g r <> SFuel.
Proof. destruct r; simpl; congruence. Qed.

Lemma spec_value_nofuel : forall f, pv_nofuel f (spec_value f).
Proof.
  induction f as [|f IH]; intros d L; [lia|]. cbn [spec_value].
  pose proof (skip_ws_length d) as L0.
  destruct (skip_ws d) as [|b r]; [discriminate|].
  destruct (b =? 34). { apply smap_nofuel, spec_string_nofuel. }
  destruct (b =? 110). { destruct (has_prefix lit_null (b :: r)); discriminate. }
  destruct (b =? 116). { destruct (has_prefix lit_true (b :: r)); discriminate. }
  destruct (b =? 102). { destruct (has_prefix lit_false (b :: r)); discriminate. }
  destruct (b =? 91).
  { destruct (skip_ws r) as [|c r']; [discriminate|].
    destruct (c =? 93); [discriminate|].
    apply smap_nofuel. apply (spec_elems_nofuel _ f); [apply spec_value_progress | exact IH | simpl in *; lia | simpl in *; lia]. }
  destruct (b =? 123).
  { destruct (skip_ws r) as [|c r']; [discriminate|].
    destruct (c =? 125); [discriminate|].
    apply smap_nofuel. apply (spec_members_nofuel _ f); [apply spec_value_progress | exact IH | simpl in *; lia | simpl in *; lia]. }
  destruct (is_digit b || (b =? 45)); [|discriminate].
  apply spec_number_nofuel.
Qed.

Lemma spec_decode_total_lemma : forall d, spec_decode d <> SpecFuel.
Proof.
  intros d. unfold spec_decode.
  destruct (spec_value (S (length d)) d) as [j rest| | |] eqn:E; try discriminate.
  - destruct (skip_ws rest); discriminate.
  - exfalso. eapply spec_value_nofuel; [|exact E]. lia.
Qed.
