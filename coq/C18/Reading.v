(* C18 -- the JSON reading of a Starlark value: what a standards-conforming
   decoder must return for json.encode(x).  Tuples read as arrays, structs and
   dicts as objects with the members in byte-wise key order (json.encode sorts
   them), strings as their bytes -- for a string that is not valid UTF-8 each
   offending byte reads as U+FFFD (json.encode cannot represent it; such values
   are outside "JSON-representable").  Part of the specification side. *)
From Coq Require Import NArith ZArith List Bool.
From SV Require Import C15.Utf8 C15.Float C18.Spec C18.Model.
Import ListNotations.
Open Scope N_scope.

Fixpoint utf8_coerce (fuel : nat) (s : list N) : list N :=
  match fuel with
  | O => []
  | S f =>
      match s with
      | [] => []
      | _ :: _ => let (r, w) := utf8_decode s in utf8_encode r ++ utf8_coerce f (skipn w s)
      end
  end.
Definition coerce (s : list N) : list N := utf8_coerce (length s) s.

Definition obj_of (items : list (list N * json)) : list (list N * json) :=
  fold_left (fun acc kv => obj_set acc (fst kv) (snd kv)) items [].

Fixpoint jread (x : value) : json :=
  match x with
  | VNone => JNull
  | VBool b => JBool b
  | VInt z => JInt z
  | VFloat bits => JFloat bits
  | VStr s => JStr (coerce s)
  | VList l | VTuple l => JArr (map jread l)
  | VDict kv =>
      JObj (obj_of (map (fun kv => (coerce (fst kv), snd kv))
             (sort_by_key (map (fun kv => (match fst kv with VStr k => k | _ => [] end, jread (snd kv))) kv))))
  | VStruct kv =>
      JObj (obj_of (map (fun kv => (coerce (fst kv), snd kv))
             (sort_by_key (map (fun kv => (fst kv, jread (snd kv))) kv))))
  | VOther => JNull
  end.

(* JSON-representable: strings valid UTF-8, floats finite, dict keys strings,
   keys pairwise distinct (an invariant of dict and struct), nothing opaque *)
Fixpoint distinct (ks : list (list N)) : bool :=
  match ks with
  | [] => true
  | k :: t => negb (existsb (bytes_eqb k) t) && distinct t
  end.
Fixpoint representable (x : value) : bool :=
  match x with
  | VNone | VBool _ | VInt _ => true
  | VFloat bits => b64_is_finite bits
  | VStr s => valid_utf8 s
  | VList l | VTuple l => forallb representable l
  | VDict kv =>
      forallb (fun kv => match fst kv with VStr k => valid_utf8 k | _ => false end && representable (snd kv)) kv
      && distinct (map (fun kv => match fst kv with VStr k => k | _ => [] end) kv)
  | VStruct kv =>
      forallb (fun kv => valid_utf8 (fst kv) && representable (snd kv)) kv && distinct (map fst kv)
  | VOther => false
  end.

(* encodable: json.encode returns no error (what the Go documentation promises) *)
Fixpoint encodable (x : value) : bool :=
  match x with
  | VNone | VBool _ | VInt _ | VStr _ => true
  | VFloat bits => b64_is_finite bits
  | VList l | VTuple l => forallb encodable l
  | VDict kv => forallb (fun kv => match fst kv with VStr _ => true | _ => false end && encodable (snd kv)) kv
  | VStruct kv => forallb (fun kv => encodable (snd kv)) kv
  | VOther => false
  end.

(* The oracle for Float.String(): strconv.FormatFloat(f, 'g', -1, 64) prints the
   shortest decimal that reads back as f under correct rounding (strconv's
   documented guarantee), in a form that is a JSON number with a fraction or an
   exponent (Float.String appends ".0" otherwise).  Stated for the floats that
   occur in x: the text for each of them, read as one number token by the
   reference, is that float. *)
Fixpoint float_texts_read_back (fstr : N -> list N) (x : value) : Prop :=
  match x with
  | VFloat bits => spec_number (fstr bits) = SOk (JFloat bits) []
  | VList l | VTuple l =>
      (fix go (l : list value) : Prop :=
         match l with [] => True | e :: t => float_texts_read_back fstr e /\ go t end) l
  | VDict kv =>
      (fix go (l : list (value * value)) : Prop :=
         match l with [] => True | (_, v) :: t => float_texts_read_back fstr v /\ go t end) kv
  | VStruct kv =>
      (fix go (l : list (list N * value)) : Prop :=
         match l with [] => True | (_, v) :: t => float_texts_read_back fstr v /\ go t end) kv
  | _ => True
  end.

(* The plain reading, for JSON-representable values: no coercion, no merging
   of members (Properties.reading_exact: it equals jread on representable x). *)
Fixpoint jplain (x : value) : json :=
  match x with
  | VNone => JNull
  | VBool b => JBool b
  | VInt z => JInt z
  | VFloat bits => JFloat bits
  | VStr s => JStr s
  | VList l | VTuple l => JArr (map jplain l)
  | VDict kv =>
      JObj (sort_by_key (map (fun kv => (match fst kv with VStr k => k | _ => [] end, jplain (snd kv))) kv))
  | VStruct kv => JObj (sort_by_key (map (fun kv => (fst kv, jplain (snd kv))) kv))
  | VOther => JNull
  end.
