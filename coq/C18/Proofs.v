(* C18 -- basic lemmas. *)
From Coq Require Import NArith ZArith List Bool Lia ZifyBool ZifyNat ZifyN.
From SV Require Import C15.Utf8 C15.Float C18.Spec C18.Model.
Import ListNotations.
Open Scope N_scope.

Lemma decode_default_iff_lemma : forall (A : Type) (d : list N) (dflt : A),
  decode_default d dflt = RDefault dflt <-> decode d = DErr.
Proof.
  intros A d dflt. unfold decode_default. destruct (decode d); split; intro H; try discriminate; reflexivity.
Qed.
