(* C18 -- number tokens: the model (scan of [0-9+-.eE], validNumber, then
   ParseFloat / SetString) against the grammar-directed reference. *)
From Coq Require Import NArith ZArith List Bool Lia ZifyBool ZifyNat ZifyN.
From SV Require Import C15.Utf8 C15.Float C18.Spec C18.Model C18.ProofsBasic.
Import ListNotations.
Open Scope N_scope.

(* the reference's reading of a token, keeping the pieces *)
Definition num_parts (d : list N) : option (bool * list N * list N * option Z * list N) :=
  let '(neg, d1) := match d with
                    | b :: r => if b =? 45 then (true, r) else (false, d)
                    | [] => (false, d)
                    end in
  match d1 with
  | [] => None
  | b :: r =>
      if negb (is_digit b) then None
      else
        let '(ip, d2) := if b =? 48 then ([b], r) else take_digits d1 in
        let '(fp, d3) := take_frac d2 in
        let '(ex, d4) := take_exp d3 in
        Some (neg, ip, fp, ex, d4)
  end.

Definition exp_of (ex : option Z) : Z := match ex with Some e => e | None => 0%Z end.
Definition signed (neg : bool) (n : N) : Z := if neg then (- Z.of_N n)%Z else Z.of_N n.

Definition num_result (neg : bool) (ip fp : list N) (ex : option Z) (d4 : list N) : sres json :=
  match fp, ex with
  | [], None => SOk (JInt (signed neg (digits_val ip))) d4
  | _, _ =>
      match dec_to_b64 neg (digits_val (ip ++ fp)) (exp_of ex - Z.of_nat (length fp))%Z with
      | Some bits => SOk (JFloat bits) d4
      | None => SRange
      end
  end.

Lemma spec_number_parts d :
  spec_number d = match num_parts d with
                  | None => SInvalid
                  | Some (neg, ip, fp, ex, d4) => num_result neg ip fp ex d4
                  end.
Proof.
  unfold spec_number, num_parts.
  destruct (match d with b :: r => if b =? 45 then (true, r) else (false, d) | [] => (false, d) end) as [neg d1].
  destruct d1 as [|b r]; [reflexivity|].
  destruct (negb (is_digit b)); [reflexivity|].
  destruct (if b =? 48 then ([b], r) else take_digits (b :: r)) as [ip d2].
  destruct (take_frac d2) as [fp d3]. destruct (take_exp d3) as [ex d4].
  unfold num_result, signed, exp_of. destruct fp, ex; reflexivity.
Qed.

(* ------------------------------------------------ appending a delimiter tail *)
Definition nodigit_head (rest : list N) : Prop :=
  match rest with b :: _ => is_digit b = false | [] => True end.

Lemma take_digits_app_tail x rest ds r' :
  nodigit_head rest -> take_digits x = (ds, r') -> take_digits (x ++ rest) = (ds, r' ++ rest).
Proof.
  intros ND. revert ds r'. induction x as [|b x IH]; intros ds r'; simpl.
  - intros H; injection H as <- <-. destruct rest as [|c t]; [reflexivity|]. simpl in *. rewrite ND. reflexivity.
  - destruct (is_digit b).
    + destruct (take_digits x) as [ds0 r0]. intros H; injection H as <- <-.
      rewrite (IH ds0 r0 eq_refl). reflexivity.
    + intros H; injection H as <- <-. reflexivity.
Qed.

Definition notnum_head (rest : list N) : Prop :=
  match rest with b :: _ => is_numchar b = false | [] => True end.

Lemma notnum_nodigit rest : notnum_head rest -> nodigit_head rest.
Proof. destruct rest as [|b t]; simpl; [auto|]. unfold is_numchar. lia. Qed.

Lemma take_frac_app_tail x rest fp r' :
  notnum_head rest -> take_frac x = (fp, r') -> take_frac (x ++ rest) = (fp, r' ++ rest).
Proof.
  intros NN. pose proof (notnum_nodigit _ NN) as ND.
  destruct x as [|b x]; simpl.
  - intros H; injection H as <- <-. destruct rest as [|c t]; [reflexivity|]. simpl in *.
    assert (E : (c =? 46) = false) by (unfold is_numchar in NN; lia). rewrite E. reflexivity.
  - destruct (b =? 46); [|intros H; injection H as <- <-; reflexivity].
    destruct (take_digits x) as [ds r0] eqn:T.
    rewrite (take_digits_app_tail _ _ _ _ ND T).
    destruct ds; intros H; injection H as <- <-; reflexivity.
Qed.

Lemma take_exp_app_tail x rest ex r' :
  notnum_head rest -> take_exp x = (ex, r') -> take_exp (x ++ rest) = (ex, r' ++ rest).
Proof.
  intros NN. pose proof (notnum_nodigit _ NN) as ND.
  destruct x as [|b x]; cbn [take_exp app].
  - intros H; injection H as <- <-. destruct rest as [|c t]; [reflexivity|]. simpl in *.
    assert (E : ((c =? 101) || (c =? 69)) = false) by (unfold is_numchar in NN; lia). rewrite E. reflexivity.
  - destruct ((b =? 101) || (b =? 69)); [|intros H; injection H as <- <-; reflexivity].
    destruct x as [|c x']; cbn [app].
    + (* "e" at the very end of the token *)
      simpl. intros H; injection H as <- <-.
      destruct rest as [|g t]; [reflexivity|]. simpl in NN.
      assert (E1 : (g =? 45) = false) by (unfold is_numchar in NN; lia).
      assert (E2 : (g =? 43) = false) by (unfold is_numchar in NN; lia).
      assert (E3 : is_digit g = false) by (unfold is_numchar in NN; lia).
      rewrite E1, E2. simpl. rewrite E3. reflexivity.
    + destruct (c =? 45).
      * destruct (take_digits x') as [ds r0] eqn:T. rewrite (take_digits_app_tail _ _ _ _ ND T).
        destruct ds; intros H; injection H as <- <-; reflexivity.
      * destruct (c =? 43).
        -- destruct (take_digits x') as [ds r0] eqn:T. rewrite (take_digits_app_tail _ _ _ _ ND T).
           destruct ds; intros H; injection H as <- <-; reflexivity.
        -- destruct (take_digits (c :: x')) as [ds r0] eqn:T.
           change (c :: x' ++ rest) with ((c :: x') ++ rest).
           rewrite (take_digits_app_tail _ _ _ _ ND T).
           destruct ds; intros H; injection H as <- <-; reflexivity.
Qed.

Definition parts_app (p : option (bool * list N * list N * option Z * list N)) (rest : list N) :=
  match p with
  | Some (neg, ip, fp, ex, d4) => Some (neg, ip, fp, ex, d4 ++ rest)
  | None => None
  end.

Lemma num_parts_app b t rest :
  notnum_head rest -> num_parts ((b :: t) ++ rest) = parts_app (num_parts (b :: t)) rest.
Proof.
  intros NN. pose proof (notnum_nodigit _ NN) as ND.
  unfold num_parts. cbn [app].
  assert (main : forall neg d1,
    match d1 ++ rest with
    | [] => None
    | b0 :: r =>
        if negb (is_digit b0) then None
        else let '(ip, d2) := if b0 =? 48 then ([b0], r) else take_digits (d1 ++ rest) in
             let '(fp, d3) := take_frac d2 in let '(ex, d4) := take_exp d3 in Some (neg, ip, fp, ex, d4)
    end =
    parts_app (match d1 with
    | [] => None
    | b0 :: r =>
        if negb (is_digit b0) then None
        else let '(ip, d2) := if b0 =? 48 then ([b0], r) else take_digits d1 in
             let '(fp, d3) := take_frac d2 in let '(ex, d4) := take_exp d3 in Some (neg, ip, fp, ex, d4)
    end) rest).
  { intros neg d1. destruct d1 as [|b0 r]; cbn [app].
    - destruct rest as [|c u]; [reflexivity|]. simpl in ND. rewrite ND. reflexivity.
    - destruct (negb (is_digit b0)); [reflexivity|].
      destruct (b0 =? 48).
      + destruct (take_frac r) as [fp d3] eqn:TF. rewrite (take_frac_app_tail _ _ _ _ NN TF).
        destruct (take_exp d3) as [ex d4] eqn:TE. rewrite (take_exp_app_tail _ _ _ _ NN TE). reflexivity.
      + destruct (take_digits (b0 :: r)) as [ip d2] eqn:TD.
        change (b0 :: r ++ rest) with ((b0 :: r) ++ rest).
        rewrite (take_digits_app_tail _ _ _ _ ND TD).
        destruct (take_frac d2) as [fp d3] eqn:TF. rewrite (take_frac_app_tail _ _ _ _ NN TF).
        destruct (take_exp d3) as [ex d4] eqn:TE. rewrite (take_exp_app_tail _ _ _ _ NN TE). reflexivity. }
  destruct (b =? 45).
  - apply (main true t).
  - change (b :: t ++ rest) with ((b :: t) ++ rest). apply (main false (b :: t)).
Qed.

(* --------------------------------------------- validNumber follows the parts *)
Lemma skip_digits_take s : skip_digits s = snd (take_digits s).
Proof.
  induction s as [|b r IH]; simpl; [reflexivity|].
  change (isdigit b) with (is_digit b).
  destruct (is_digit b) eqn:E; [|reflexivity].
  destruct (take_digits r). simpl in *. exact IH.
Qed.

Lemma take_frac_none d rest : take_frac d = ([], rest) -> rest = d.
Proof.
  destruct d as [|b r]; simpl; [intros H; injection H as <-; reflexivity|].
  destruct (b =? 46); [|intros H; injection H as <-; reflexivity].
  destruct (take_digits r) as [ds r0]. destruct ds; intros H; [injection H as <-; reflexivity|discriminate].
Qed.

Lemma take_exp_none d rest : take_exp d = (None, rest) -> rest = d.
Proof.
  destruct d as [|b r]; simpl; [intros H; injection H as <-; reflexivity|].
  destruct ((b =? 101) || (b =? 69)); [|intros H; injection H as <-; reflexivity].
  destruct r as [|c r'].
  - simpl. intros H; injection H as <-; reflexivity.
  - destruct (c =? 45); [|destruct (c =? 43)];
    match goal with |- context [take_digits ?x] => destruct (take_digits x) as [ds r0] end;
    destruct ds; intros H; try discriminate; injection H as <-; reflexivity.
Qed.

Definition fully (p : option (bool * list N * list N * option Z * list N)) : bool :=
  match p with Some (_, _, _, _, []) => true | _ => false end.

(* validNumber cut into its three phases (definitionally the same function) *)
Definition vn_int (b : N) (r : list N) : option (list N) :=
  if b =? 48 then Some r
  else if (49 <=? b) && (b <=? 57) then Some (skip_digits r)
  else None.
Definition vn_frac (s2 : list N) : option (list N) :=
  match s2 with
  | c :: r2 =>
      if c =? 46 then
        match r2 with
        | g :: _ => if isdigit g then Some (skip_digits r2) else None
        | [] => None
        end
      else Some s2
  | [] => Some s2
  end.
Definition vn_exp (s3 : list N) : bool :=
  match s3 with
  | [] => true
  | c :: r3 =>
      if (c =? 101) || (c =? 69) then
        let r4 := match r3 with
                  | g :: r' => if (g =? 43) || (g =? 45) then r' else r3
                  | [] => r3
                  end in
        match r4 with
        | g :: _ => if isdigit g then match skip_digits r4 with [] => true | _ => false end else false
        | [] => false
        end
      else false
  end.
Definition strip_minus (s : list N) : list N :=
  match s with b :: r => if b =? 45 then r else s | [] => s end.

Lemma valid_number_phases s :
  valid_number s =
  match strip_minus s with
  | [] => false
  | b :: r =>
      match vn_int b r with
      | None => false
      | Some s2 => match vn_frac s2 with None => false | Some s3 => vn_exp s3 end
      end
  end.
Proof. reflexivity. Qed.

Lemma vn_exp_spec s3 : vn_exp s3 = match take_exp s3 with (_, []) => true | _ => false end.
Proof.
  destruct s3 as [|c r3]; [reflexivity|]. cbn [vn_exp take_exp].
  destruct ((c =? 101) || (c =? 69)); [|reflexivity].
  assert (tail : forall r4 (neg : bool),
    match r4 with
    | g :: _ => if isdigit g then match skip_digits r4 with [] => true | _ => false end else false
    | [] => false
    end =
    match (match take_digits r4 with
           | ([], _) => (None, c :: r3)
           | (ds, rest) => (Some (if neg then (- Z.of_N (digits_val ds))%Z else Z.of_N (digits_val ds)), rest)
           end) with (_, []) => true | _ => false end).
  { intros r4 neg. destruct r4 as [|g r5]; [reflexivity|].
    rewrite skip_digits_take. change (isdigit g) with (is_digit g). cbn [take_digits].
    destruct (is_digit g); [|reflexivity].
    destruct (take_digits r5) as [ds rest]. cbn [snd]. destruct rest; reflexivity. }
  destruct r3 as [|g r'].
  - reflexivity.
  - destruct (g =? 45) eqn:G1.
    + rewrite orb_true_r. exact (tail r' true).
    + destruct (g =? 43) eqn:G2; cbn [orb]; [exact (tail r' false) | exact (tail (g :: r') false)].
Qed.

Lemma valid_number_parts num : valid_number num = fully (num_parts num).
Proof.
  rewrite valid_number_phases. unfold num_parts, strip_minus.
  assert (body : forall neg s1,
    match s1 with
    | [] => false
    | b :: r => match vn_int b r with
                | None => false
                | Some s2 => match vn_frac s2 with None => false | Some s3 => vn_exp s3 end
                end
    end =
    fully (match s1 with
           | [] => None
           | b :: r =>
               if negb (is_digit b) then None
               else let '(ip, d2) := if b =? 48 then ([b], r) else take_digits s1 in
                    let '(fp, d3) := take_frac d2 in let '(ex, d4) := take_exp d3 in Some (neg, ip, fp, ex, d4)
           end)).
  { intros neg s1. destruct s1 as [|b r]; [reflexivity|].
    assert (EI : vn_int b r = if negb (is_digit b) then None
                              else Some (snd (if b =? 48 then ([b], r) else take_digits (b :: r)))).
    { unfold vn_int. destruct (b =? 48) eqn:B0.
      - assert (H : is_digit b = true) by (unfold is_digit; lia). rewrite H. reflexivity.
      - destruct (is_digit b) eqn:D.
        + assert (H : ((49 <=? b) && (b <=? 57)) = true) by (unfold is_digit in D; lia). rewrite H.
          cbn [negb take_digits]. rewrite D. rewrite skip_digits_take. destruct (take_digits r). reflexivity.
        + assert (H : ((49 <=? b) && (b <=? 57)) = false) by (unfold is_digit in D; lia). rewrite H. reflexivity. }
    rewrite EI. clear EI.
    destruct (negb (is_digit b)); [reflexivity|].
    destruct (if b =? 48 then ([b], r) else take_digits (b :: r)) as [ip d2]. cbn [snd].
    (* fraction *)
    destruct d2 as [|c r2].
    { reflexivity. }
    cbn [vn_frac take_frac].
    destruct (c =? 46) eqn:C.
    - destruct r2 as [|g r3].
      + cbn [take_digits take_exp]. assert (E : ((c =? 101) || (c =? 69)) = false) by lia. rewrite E. reflexivity.
      + change (isdigit g) with (is_digit g). cbn [take_digits]. destruct (is_digit g) eqn:G.
        * rewrite skip_digits_take. cbn [take_digits]. rewrite G.
          destruct (take_digits r3) as [ds r0]. cbn [snd].
          rewrite vn_exp_spec. destruct (take_exp r0) as [ex d4]. destruct d4; reflexivity.
        * cbn [take_exp]. assert (E : ((c =? 101) || (c =? 69)) = false) by lia. rewrite E. reflexivity.
    - rewrite vn_exp_spec. destruct (take_exp (c :: r2)) as [ex d4]. destruct d4; reflexivity. }
  destruct num as [|b t]; [reflexivity|].
  destruct (b =? 45).
  - apply (body true t).
  - apply (body false (b :: t)).
Qed.

(* ----------------------------------------- ParseFloat / SetString on a token *)
Definition gp_sign (s : list N) : bool * list N :=
  match s with
  | b :: r => if b =? 43 then (false, r) else if b =? 45 then (true, r) else (false, s)
  | [] => (false, s)
  end.
Definition gp_frac (s2 : list N) : list N * list N :=
  match s2 with
  | b :: r => if b =? 46 then span_digits r else ([], s2)
  | [] => ([], s2)
  end.
Definition gp_exp (neg : bool) (mant : N) (scale : Z) (s3 : list N) : option (option N) :=
  match s3 with
  | [] => Some (dec_to_b64 neg mant (- scale)%Z)
  | c :: r =>
      if (c =? 101) || (c =? 69) then
        let '(eneg, r1) := match r with
                           | g :: r' => if g =? 43 then (false, r') else if g =? 45 then (true, r') else (false, r)
                           | [] => (false, r)
                           end in
        match span_digits r1 with
        | ((_ :: _) as ed, []) =>
            let e := Z.of_N (dec_value ed) in
            Some (dec_to_b64 neg mant ((if eneg then - e else e) - scale)%Z)
        | _ => None
        end
      else None
  end.

Lemma go_parse_float_phases s :
  go_parse_float s =
  let '(neg, s1) := gp_sign s in
  let '(ip, s2) := span_digits s1 in
  let '(fp, s3) := gp_frac s2 in
  match ip ++ fp with
  | [] => None
  | _ :: _ => gp_exp neg (dec_value (ip ++ fp)) (Z.of_nat (length fp)) s3
  end.
Proof. reflexivity. Qed.

Lemma gp_exp_spec neg mant scale s3 ex :
  take_exp s3 = (ex, []) -> gp_exp neg mant scale s3 = Some (dec_to_b64 neg mant (exp_of ex - scale)%Z).
Proof.
  destruct s3 as [|c r]; cbn [take_exp gp_exp].
  - intros H; injection H as <-. simpl. do 2 f_equal.
  - destruct ((c =? 101) || (c =? 69)); [|discriminate].
    assert (tail : forall r1 (eneg : bool),
      match take_digits r1 with
      | ([], _) => (None, c :: r)
      | (ds, rest) => (Some (if eneg then (- Z.of_N (digits_val ds))%Z else Z.of_N (digits_val ds)), rest)
      end = (ex, []) ->
      match span_digits r1 with
      | ((_ :: _) as ed, []) =>
          let e := Z.of_N (dec_value ed) in
          Some (dec_to_b64 neg mant ((if eneg then - e else e) - scale)%Z)
      | _ => None
      end = Some (dec_to_b64 neg mant (exp_of ex - scale)%Z)).
    { intros r1 eneg. change span_digits with take_digits. destruct (take_digits r1) as [ds rest].
      destruct ds as [|x ds]; [discriminate|]. intros H; injection H as <- ->.
      cbn zeta. unfold exp_of. change dec_value with digits_val. destruct eneg; reflexivity. }
    destruct r as [|g r'].
    + simpl. discriminate.
    + destruct (g =? 45) eqn:G1.
      * assert (G2 : (g =? 43) = false) by lia. rewrite G2. exact (tail r' true).
      * destruct (g =? 43) eqn:G2; [exact (tail r' false) | exact (tail (g :: r') false)].
Qed.

Lemma gp_frac_spec d2 fp d3 ex : take_frac d2 = (fp, d3) -> take_exp d3 = (ex, []) -> gp_frac d2 = (fp, d3).
Proof.
  destruct d2 as [|c r]; cbn [take_frac gp_frac]; [auto|].
  destruct (c =? 46) eqn:C; [|auto].
  change span_digits with take_digits. destruct (take_digits r) as [ds r0]. destruct ds as [|x ds]; [|auto].
  intros H; injection H as <- <-. cbn [take_exp].
  assert (E : ((c =? 101) || (c =? 69)) = false) by lia. rewrite E. discriminate.
Qed.

(* structure of a fully consumed token *)
Lemma parts_full num neg ip fp ex :
  num_parts num = Some (neg, ip, fp, ex, []) ->
  exists d1 d2 d3,
    num = (if neg then 45 :: d1 else d1) /\ gp_sign num = (neg, d1) /\
    take_digits d1 = (ip, d2) /\ ip <> [] /\ take_frac d2 = (fp, d3) /\ take_exp d3 = (ex, []).
Proof.
  unfold num_parts.
  assert (body : forall s1 neg0,
    match s1 with
    | [] => None
    | b :: r =>
        if negb (is_digit b) then None
        else let '(ip, d2) := if b =? 48 then ([b], r) else take_digits s1 in
             let '(fp, d3) := take_frac d2 in let '(ex, d4) := take_exp d3 in Some (neg0, ip, fp, ex, d4)
    end = Some (neg, ip, fp, ex, []) ->
    neg0 = neg /\ exists d2 d3, take_digits s1 = (ip, d2) /\ ip <> [] /\ take_frac d2 = (fp, d3) /\ take_exp d3 = (ex, []) /\
    match s1 with b :: _ => is_digit b = true | [] => False end).
  { intros s1 neg0. destruct s1 as [|b r]; [discriminate|].
    destruct (is_digit b) eqn:D; [|discriminate]. cbn [negb].
    destruct (b =? 48) eqn:B0.
    - destruct (take_frac r) as [fp0 d3] eqn:TF. destruct (take_exp d3) as [ex0 d4] eqn:TE.
      intros H; injection H as -> <- -> -> ->.
      split; [reflexivity|]. exists r, d3. repeat split; try assumption; try discriminate.
      (* r does not start with a digit *)
      cbn [take_digits]. rewrite D.
      destruct r as [|g r'].
      + reflexivity.
      + cbn [take_digits]. destruct (is_digit g) eqn:G; [|reflexivity]. exfalso.
        cbn [take_frac] in TF. assert (E : (g =? 46) = false) by (unfold is_digit in G; lia). rewrite E in TF.
        injection TF as <- <-. cbn [take_exp] in TE.
        assert (E2 : ((g =? 101) || (g =? 69)) = false) by (unfold is_digit in G; lia). rewrite E2 in TE. discriminate.
    - destruct (take_digits (b :: r)) as [ip0 d2] eqn:TD.
      destruct (take_frac d2) as [fp0 d3] eqn:TF. destruct (take_exp d3) as [ex0 d4] eqn:TE.
      intros H; injection H as -> <- -> -> ->.
      split; [reflexivity|]. exists d2, d3. repeat split; try assumption.
      cbn [take_digits] in TD. rewrite D in TD. destruct (take_digits r). injection TD as <- _. discriminate. }
  destruct num as [|b t]; [discriminate|].
  destruct (b =? 45) eqn:B.
  - intros H. apply (body t true) in H as (<- & d2 & d3 & H1 & H2 & H3 & H4 & _).
    exists t, d2, d3. repeat split; try assumption.
    + f_equal. lia.
    + unfold gp_sign. assert (E : (b =? 43) = false) by lia. rewrite E, B. reflexivity.
  - intros H. apply (body (b :: t) false) in H as (<- & d2 & d3 & H1 & H2 & H3 & H4 & H5).
    exists (b :: t), d2, d3. repeat split; try assumption.
    unfold gp_sign. assert (E : (b =? 43) = false) by (unfold is_digit in H5; lia). rewrite E, B. reflexivity.
Qed.

Definition tok_float (num : list N) : bool :=
  match num with _ :: t => existsb (fun c => negb (isdigit c)) t | [] => false end.

Lemma existsb_nondigit_false l : forallb is_digit l = true -> existsb (fun c => negb (isdigit c)) l = false.
Proof.
  induction l as [|x l IH]; simpl; [reflexivity|]. intros H. apply andb_true_iff in H as [H1 H2].
  change (isdigit x) with (is_digit x). rewrite H1, (IH H2). reflexivity.
Qed.

Lemma token_eval num neg ip fp ex :
  num_parts num = Some (neg, ip, fp, ex, []) ->
  match fp, ex with
  | [], None => big_set_string num = Some (signed neg (digits_val ip)) /\ tok_float num = false
  | _, _ => go_parse_float num = Some (dec_to_b64 neg (digits_val (ip ++ fp)) (exp_of ex - Z.of_nat (length fp))%Z)
            /\ tok_float num = true
  end.
Proof.
  intros H. apply parts_full in H as (d1 & d2 & d3 & Hnum & Hsign & TD & Hip & TF & TE).
  pose proof (take_digits_app d1) as A1. rewrite TD in A1.
  pose proof (take_digits_all _ _ _ TD) as ALL.
  pose proof (take_digits_rest_nodigit _ _ _ TD) as ND.
  assert (Hfloat : go_parse_float num = Some (dec_to_b64 neg (digits_val (ip ++ fp)) (exp_of ex - Z.of_nat (length fp))%Z)).
  { rewrite go_parse_float_phases, Hsign; change span_digits with take_digits; rewrite TD, (gp_frac_spec _ _ _ _ TF TE).
    destruct (ip ++ fp) eqn:E; [destruct ip; [congruence|discriminate]|]. rewrite <- E.
    change dec_value with digits_val. apply gp_exp_spec. exact TE. }
  assert (Hfl : d2 <> [] -> tok_float num = true).
  { intros NE. destruct d2 as [|c d2']; [congruence|]. simpl in ND.
    destruct ip as [|i0 ip']; [congruence|].
    assert (X : existsb (fun c => negb (isdigit c)) (ip' ++ c :: d2') = true).
    { rewrite existsb_app. simpl. change (isdigit c) with (is_digit c). rewrite ND. simpl. apply orb_true_r. }
    subst d1. rewrite Hnum. destruct neg; simpl.
    - change (isdigit i0) with (is_digit i0). rewrite X. apply orb_true_r.
    - exact X. }
  destruct fp as [|f0 fp'].
  - apply take_frac_none in TF as ->.
    destruct ex as [e|].
    + split; [exact Hfloat|]. apply Hfl. intros ->. simpl in TE. discriminate.
    + apply take_exp_none in TE. subst d2. rewrite app_nil_r in A1. subst d1.
      split.
      * unfold big_set_string. fold (gp_sign num). rewrite Hsign; change span_digits with take_digits; rewrite TD.
        destruct ip; [congruence|]. unfold signed. change dec_value with digits_val. reflexivity.
      * rewrite Hnum. destruct neg; simpl.
        -- apply existsb_nondigit_false. exact ALL.
        -- destruct ip as [|i0 ip']; [congruence|]. simpl in *. apply andb_true_iff in ALL as [_ ALL].
           apply existsb_nondigit_false. exact ALL.
  - split; [exact Hfloat|]. apply Hfl. intros ->. simpl in TF. discriminate.
Qed.

(* the pieces returned are a suffix of the token *)
Lemma take_frac_suffix d fp rest : take_frac d = (fp, rest) -> exists pre, d = pre ++ rest.
Proof.
  destruct d as [|b r]; simpl.
  - intros H; injection H as _ <-. exists []. reflexivity.
  - destruct (b =? 46).
    + destruct (take_digits r) as [ds r0] eqn:T. pose proof (take_digits_app r) as A. rewrite T in A.
      destruct ds; intros H; injection H as _ <-.
      * exists []. reflexivity.
      * exists (b :: n :: ds). rewrite A. reflexivity.
    + intros H; injection H as _ <-. exists []. reflexivity.
Qed.

Lemma take_exp_suffix d ex rest : take_exp d = (ex, rest) -> exists pre, d = pre ++ rest.
Proof.
  destruct d as [|b r]; cbn [take_exp].
  - intros H; injection H as _ <-. exists []. reflexivity.
  - destruct ((b =? 101) || (b =? 69)); [|intros H; injection H as _ <-; exists []; reflexivity].
    assert (tail : forall r1 (neg : bool) pre0, r = pre0 ++ r1 ->
      match take_digits r1 with
      | ([], _) => (None, b :: r)
      | (ds, rest) => (Some (if neg then (- Z.of_N (digits_val ds))%Z else Z.of_N (digits_val ds)), rest)
      end = (ex, rest) -> exists pre, b :: r = pre ++ rest).
    { intros r1 neg pre0 Hr. destruct (take_digits r1) as [ds r0] eqn:T.
      pose proof (take_digits_app r1) as A. rewrite T in A.
      destruct ds; intros H; injection H as _ <-.
      - exists []. reflexivity.
      - exists (b :: pre0 ++ n :: ds). rewrite Hr, A. simpl. rewrite <- app_assoc. reflexivity. }
    destruct r as [|c r'].
    + simpl. intros H; injection H as _ <-. exists []. reflexivity.
    + destruct (c =? 45); [exact (tail r' true [c] eq_refl)|].
      destruct (c =? 43); [exact (tail r' false [c] eq_refl)|].
      exact (tail (c :: r') false [] eq_refl).
Qed.

Lemma parts_suffix num neg ip fp ex d4 :
  num_parts num = Some (neg, ip, fp, ex, d4) -> exists pre, num = pre ++ d4.
Proof.
  unfold num_parts.
  assert (body : forall s1 neg0,
    match s1 with
    | [] => None
    | b :: r =>
        if negb (is_digit b) then None
        else let '(ip, d2) := if b =? 48 then ([b], r) else take_digits s1 in
             let '(fp, d3) := take_frac d2 in let '(ex, d4) := take_exp d3 in Some (neg0, ip, fp, ex, d4)
    end = Some (neg, ip, fp, ex, d4) -> exists pre, s1 = pre ++ d4).
  { intros s1 neg0. destruct s1 as [|b r]; [discriminate|].
    destruct (negb (is_digit b)); [discriminate|].
    assert (exists ip0 d2, (if b =? 48 then ([b], r) else take_digits (b :: r)) = (ip0, d2) /\ exists p, b :: r = p ++ d2) as (ip0 & d2 & -> & p & Hp).
    { destruct (b =? 48).
      - exists [b], r. split; [reflexivity|]. exists [b]. reflexivity.
      - destruct (take_digits (b :: r)) as [ip0 d2] eqn:T. exists ip0, d2. split; [reflexivity|].
        exists ip0. pose proof (take_digits_app (b :: r)) as A. rewrite T in A. exact A. }
    destruct (take_frac d2) as [fp0 d3] eqn:TF. apply take_frac_suffix in TF as (p2 & ->).
    destruct (take_exp d3) as [ex0 d40] eqn:TE. apply take_exp_suffix in TE as (p3 & ->).
    intros H; injection H as _ _ _ _ <-.
    exists (p ++ p2 ++ p3). rewrite Hp. rewrite <- !app_assoc. reflexivity. }
  destruct num as [|b t]; [discriminate|].
  destruct (b =? 45).
  - intros H. apply (body t true) in H as (pre & ->). exists (b :: pre). reflexivity.
  - apply (body (b :: t) false).
Qed.

(* --------------------------------------------------------------- scan_num *)
Lemma scan_num_spec r : forall t fl rest,
  scan_num r = (t, fl, rest) ->
  r = t ++ rest /\ notnum_head rest /\ forallb is_numchar t = true /\
  fl = existsb (fun c => negb (isdigit c)) t.
Proof.
  induction r as [|b r IH]; intros t fl rest; simpl.
  - intros H; injection H as <- <- <-. repeat split.
  - destruct (isdigit b) eqn:D.
    + destruct (scan_num r) as [[t0 fl0] rest0]. intros H; injection H as <- <- <-.
      destruct (IH _ _ _ eq_refl) as (E & NN & ALL & F). subst r.
      repeat split; auto.
      * simpl. unfold is_numchar. change (is_digit b) with (isdigit b). rewrite D. simpl. exact ALL.
      * simpl. rewrite D. simpl. exact F.
    + destruct ((b =? 46) || (b =? 101) || (b =? 69) || (b =? 43) || (b =? 45)) eqn:C.
      * destruct (scan_num r) as [[t0 fl0] rest0]. intros H; injection H as <- <- <-.
        destruct (IH _ _ _ eq_refl) as (E & NN & ALL & F). subst r.
        repeat split; auto.
        -- simpl. rewrite ALL. unfold is_numchar. change (is_digit b) with (isdigit b). rewrite D.
           simpl. rewrite andb_true_r. exact C.
        -- simpl. rewrite D. reflexivity.
      * intros H; injection H as <- <- <-. repeat split.
        simpl. unfold is_numchar. change (is_digit b) with (isdigit b). rewrite D. exact C.
Qed.

(* ---------------------------------------------------------------- assembly *)
Definition num_rel (s : sres json) (m : mres json) : Prop :=
  match s with
  | SOk v rest => m = MOk v rest \/ (m = MErr /\ numhead rest)
  | SInvalid | SRange => m = MErr
  | SFuel => True
  end.

Lemma number_agree b r :
  (is_digit b || (b =? 45)) = true -> num_rel (spec_number (b :: r)) (parse_number b r).
Proof.
  intros Hb. unfold parse_number.
  destruct (scan_num r) as [[t fl] rest] eqn:SN.
  apply scan_num_spec in SN as (-> & NN & ALL & ->).
  change (b :: t ++ rest) with ((b :: t) ++ rest).
  rewrite spec_number_parts, (num_parts_app _ _ _ NN), valid_number_parts.
  destruct (num_parts (b :: t)) as [[[[[neg ip] fp] ex] d4]|] eqn:NP; [|simpl; reflexivity].
  destruct d4 as [|c d4'].
  - (* the whole token is one number *)
    cbn [fully negb parts_app app].
    pose proof (token_eval _ _ _ _ _ NP) as TE.
    change (existsb (fun c => negb (isdigit c)) t) with (tok_float (b :: t)).
    unfold num_result.
    destruct fp as [|f0 fp'].
    + destruct ex as [e|].
      * destruct TE as [-> ->].
        destruct (dec_to_b64 _ _ _); simpl; [left|]; reflexivity.
      * destruct TE as [-> ->]. simpl. left. reflexivity.
    + destruct TE as [-> ->].
      destruct (dec_to_b64 _ _ _); simpl; [left|]; reflexivity.
  - (* the grammar stops inside the run: the model rejects the whole run *)
    cbn [fully negb parts_app].
    apply parts_suffix in NP as (pre & Hpre).
    assert (NC : is_numchar c = true).
    { assert (A : forallb is_numchar (b :: t) = true).
      { simpl. rewrite ALL. unfold is_numchar. rewrite andb_true_r. unfold is_numchar in *.
        destruct (is_digit b); [reflexivity|]. simpl in *. rewrite Hb. rewrite !orb_true_r. reflexivity. }
      rewrite Hpre, forallb_app in A. apply andb_true_iff in A as [_ A]. simpl in A.
      apply andb_true_iff in A as [A _]. exact A. }
    unfold num_result.
    destruct fp, ex; try (simpl; right; split; [reflexivity|exact NC]);
    destruct (dec_to_b64 _ _ _); simpl; try reflexivity; right; split; try reflexivity; exact NC.
Qed.
