(* C09 -- scoping proofs, part 6: all rules together -- the resolver accepts a
   program exactly when no static rule is broken. *)
From Coq Require Import String Ascii List Bool Arith NArith Lia.
From SV Require Import C09.Syntax C09.Model C09.Spec C09.ScopeSpec C09.Proofs C09.ProofsTop
  C09.ProofsScope C09.ProofsScopeBridge.
Import ListNotations.

Lemma accepted_iff_lemma (o : options) (W : world) (p : program) :
  resolve o W p = [] <-> no_rule_broken o W p.
Proof.
  split.
  - intros H. split; [apply (accepted_no_violation_lemma o W p H)|].
    split; [apply accepted_no_undefined_lemma; exact H|]. split; [|split].
    + destruct (set_uses o W p) as [|u l] eqn:E; auto.
      destruct (set_main o W p) as [_ S2]. destruct S2 as (n & Hn); [rewrite E; discriminate|].
      rewrite H in Hn. destruct Hn.
    + intros n Hn. apply reassign_lemma in Hn. rewrite H in Hn. destruct Hn.
    + intros n Hn. destruct (rebind_lemma o W p RLoadReassign n (or_intror eq_refl)) as [A _].
      apply A in Hn. rewrite H in Hn. destruct Hn.
  - intros (Hv & Hu & Hs & Hr & Hl).
    destruct (resolve o W p) as [|[r n] l] eqn:E; auto. exfalso.
    assert (Hin : In (r, n) (resolve o W p)) by (rewrite E; left; auto).
    destruct (scoping_rule r) eqn:Es.
    + destruct r; try discriminate.
      * apply reassign_lemma in Hin. apply (Hr n Hin).
      * destruct (rebind_lemma o W p RLoadReassign n (or_intror eq_refl)) as [_ B].
        destruct (B Hin) as [K|[_ K]]; [apply (Hl n K)|].
        destruct (top_fn_load_viol o) as [_ T]. destruct (T p top n K) as [e He].
        unfold viol in Hv. rewrite Hv in He. destruct He.
      * destruct (set_main o W p) as [S1 _]. destruct (S1 n Hin) as (u & Hu' & _). rewrite Hs in Hu'. destruct Hu'.
      * destruct (undefined_lemma o W p) as [S1 _]. destruct (S1 n Hin) as (u & Hu' & _). rewrite Hu in Hu'. destruct Hu'.
    + apply (sound_complete_lemma o W p r n Es) in Hin. unfold violates in Hin. rewrite Hv in Hin. destruct Hin.
Qed.

Lemma broken_ns o W p r n : scoping_rule r = false -> broken o W p r n = violates o p r n.
Proof. destruct r; try discriminate; reflexivity. Qed.

Lemma all_rules_lemma (o : options) (W : world) (p : program) (r : rule) (n : N) :
  (In (r, n) (resolve o W p) -> broken o W p r n \/ (r = RLoadReassign /\ In n (top_fn_loads_stmts p))) /\
  (broken o W p r n ->
     In (r, n) (resolve o W p) \/
     ((r = RUndefined \/ r = RSetUnsupported) /\ exists n', In (r, n') (resolve o W p))).
Proof.
  destruct (scoping_rule r) eqn:Es.
  - destruct r; try discriminate; simpl.
    + split; [intros H; left; apply reassign_lemma; exact H|intros H; left; apply reassign_lemma; exact H].
    + destruct (rebind_lemma o W p RLoadReassign n (or_intror eq_refl)) as [A B]. split.
      * intros H. destruct (B H) as [K|K]; auto.
      * intros H. left. apply A. exact H.
    + destruct (set_main o W p) as [S1 S2]. split.
      * intros H. left. apply S1. exact H.
      * intros (u & Hu & _). right. split; auto. apply S2. intros E. rewrite E in Hu. destruct Hu.
    + destruct (undefined_lemma o W p) as (S1 & S2 & _). split.
      * intros H. left. apply S1. exact H.
      * intros (u & Hu & _). right. split; auto. destruct (S2 u Hu) as (u' & _ & _ & K). eauto.
  - rewrite (broken_ns o W p r n Es). pose proof (sound_complete_lemma o W p r n Es) as SC. split.
    + intros H. left. apply SC. exact H.
    + intros H. left. apply SC. exact H.
Qed.

Lemma set_oracle_lemma (o : options) (W : world) (p : program) :
  regular o p = true ->
  (forall n, In (RSetUnsupported, n) (scope_viol o W p) <-> exists u, In u (set_uses o W p) /\ s_n u = n) /\
  (forall n, In (RSetUnsupported, n) (resolve o W p) -> In (RSetUnsupported, n) (scope_viol o W p)) /\
  ((exists n, In (RSetUnsupported, n) (scope_viol o W p)) -> exists n, In (RSetUnsupported, n) (resolve o W p)).
Proof.
  intros H. split; [apply scope_viol_bridge_set; exact H|]. apply set_vs_oracle_lemma. exact H.
Qed.
