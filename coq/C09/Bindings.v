(* C09 -- which binding every identifier USE refers to (the resolver's decision
   recorded in syntax.Ident.Binding: local or cell / free / global / predeclared /
   universal / undefined), as an executable function written from the scoping
   rules like Spec.scope_viol (same environment discipline: complete binding
   sets per block; at file level under GlobalReassign only what is bound so
   far).  Used by the check to compare with the real resolver's decision for every
   identifier occurrence; no theorem is proved about it.  Indices are not modelled;
   Local and Cell are one class. *)
From Coq Require Import String Ascii List Bool Arith NArith.
From SV Require Import C09.Syntax C09.Spec.
Import ListNotations.

Inductive scope := SLocal | SFree | SGlobal | SPredeclared | SUniversal | SUndefined.

Definition scope_code (s : scope) : N :=
  match s with SUndefined => 0 | SLocal => 1 | SFree => 2 | SGlobal => 3 | SPredeclared => 4 | SUniversal => 5 end%N.

(* innermost block first; the flag says whether the block is a function (not a comprehension) *)
Fixpoint find_local (env : list (bool * list string)) (x : string) (crossed : bool) : option scope :=
  match env with
  | [] => None
  | (isfn, names) :: r =>
      if smem x names then Some (if crossed then SFree else SLocal)
      else find_local r x (crossed || isfn)
  end.

Section B.
Variable o : options.
Variable W : world.
Variable cg cf : list string.     (* all globals / all load-bound file-locals of the module *)

Definition use_scope (env : list (bool * list string)) (fl : option (list string * list string))
                     (n : N) (x : string) : list (N * scope) :=
  match find_local env x false with
  | Some s => [(n, s)]
  | None =>
      let gf := match fl with Some gf => gf | None => (cg, cf) end in
      (* a load-bound file-local is a local of the file block: a function that uses it captures it *)
      [(n, if smem x (snd gf) then (if existsb fst env then SFree else SLocal)
           else if smem x (fst gf) then SGlobal
           else if smem x (w_predeclared W) then SPredeclared
           else if smem x (w_universal W) then SUniversal
           else SUndefined)]
  end.

Fixpoint b_expr (env : list (bool * list string)) (fl : option (list string * list string)) (e : expr) {struct e}
  : list (N * scope) :=
  match e with
  | EId n x => use_scope env fl n x
  | ELit => []
  | EOp es => b_exprs env fl es
  | ECall _ f a => b_expr env fl f ++ b_args env fl a
  | ELambda _ ps body => b_defaults env fl ps ++ b_expr ((true, param_names ps) :: env) None body
  | EComp _ iter vars cl body =>
      let env' := (false, lhs_names vars ++ clause_names cl) :: env in
      b_expr env fl iter ++ b_lhs env' None vars ++ b_clauses env' cl ++ b_expr env' None body
  end
with b_exprs (env : list (bool * list string)) (fl : option (list string * list string)) (es : exprs) {struct es}
  : list (N * scope) :=
  match es with ENil => [] | ECons e r => b_expr env fl e ++ b_exprs env fl r end
with b_args (env : list (bool * list string)) (fl : option (list string * list string)) (a : args) {struct a}
  : list (N * scope) :=
  match a with
  | ANil => []
  | APos _ e r | ANamed _ _ e r | AStar _ e r | AStarStar _ e r => b_expr env fl e ++ b_args env fl r
  end
with b_defaults (env : list (bool * list string)) (fl : option (list string * list string)) (ps : params) {struct ps}
  : list (N * scope) :=
  match ps with
  | PNil => []
  | PId _ _ r | PStar _ _ r | PStarStar _ _ _ r => b_defaults env fl r
  | PDef _ _ d r => b_expr env fl d ++ b_defaults env fl r
  end
with b_clauses (env : list (bool * list string)) (cl : clauses) {struct cl} : list (N * scope) :=
  match cl with
  | CNil => []
  | CFor vars iter r => b_lhs env None vars ++ b_expr env None iter ++ b_clauses env r
  | CIf c r => b_expr env None c ++ b_clauses env r
  end
with b_lhs (env : list (bool * list string)) (fl : option (list string * list string)) (l : lhs) {struct l}
  : list (N * scope) :=
  match l with
  | LId _ _ => []
  | LSeq _ ls => b_lhss env fl ls
  | LExpr es => b_exprs env fl es
  | LBad _ => []
  end
with b_lhss (env : list (bool * list string)) (fl : option (list string * list string)) (ls : lhss) {struct ls}
  : list (N * scope) :=
  match ls with LNil => [] | LCons l r => b_lhs env fl l ++ b_lhss env fl r end.

Fixpoint b_stmt (env : list (bool * list string)) (s : stmt) {struct s} : list (N * scope) :=
  match s with
  | SExpr e => b_expr env None e
  | SBranch _ => []
  | SIf _ c t f => b_expr env None c ++ b_stmts env t ++ b_stmts env f
  | SAssign _ l e => b_expr env None e ++ b_lhs env None l
  | SDef _ _ _ ps body =>
      b_defaults env None ps ++ b_stmts ((true, param_names ps ++ bound_stmts body) :: env) body
  | SFor _ vars iter body => b_expr env None iter ++ b_lhs env None vars ++ b_stmts env body
  | SWhile _ c body => b_expr env None c ++ b_stmts env body
  | SReturn _ e => match e with Some e => b_expr env None e | None => [] end
  | SLoad _ _ => []
  end
with b_stmts (env : list (bool * list string)) (ss : stmts) {struct ss} : list (N * scope) :=
  match ss with SNil => [] | SCons s r => b_stmt env s ++ b_stmts env r end.

Definition fl2 (g f : list string) : option (list string * list string) :=
  if o_global_reassign o then Some (g, f) else None.

(* file level: g, f = globals / file-locals bound so far (threaded exactly as in Spec.t_stmt) *)
Fixpoint tb_stmt (g f : list string) (s : stmt) {struct s} : list (N * scope) * (list string * list string) :=
  match s with
  | SExpr e => (b_expr [] (fl2 g f) e, (g, f))
  | SBranch _ => ([], (g, f))
  | SIf _ c t e =>
      let a := tb_stmts g f t in
      let b := tb_stmts (fst (snd a)) (snd (snd a)) e in
      (b_expr [] (fl2 g f) c ++ fst a ++ fst b, snd b)
  | SAssign _ l e =>
      let b := t_bind o g f l in
      (b_expr [] (fl2 g f) e ++ b_lhs [] (fl2 g f) l, (snd b, f))
  | SDef _ nn x ps body =>
      let b := t_bind o g f (LId nn x) in
      (b_defaults [] (fl2 (snd b) f) ps ++ b_stmts [(true, param_names ps ++ bound_stmts body)] body, (snd b, f))
  | SFor _ vars iter body =>
      let b := t_bind o g f vars in
      let c := tb_stmts (snd b) f body in
      (b_expr [] (fl2 g f) iter ++ b_lhs [] (fl2 g f) vars ++ fst c, snd c)
  | SWhile _ c body =>
      let b := tb_stmts g f body in (b_expr [] (fl2 g f) c ++ fst b, snd b)
  | SReturn _ e => (match e with Some e => b_expr [] (fl2 g f) e | None => [] end, (g, f))
  | SLoad _ items => ([], snd (t_load o g f items))
  end
with tb_stmts (g f : list string) (ss : stmts) {struct ss} : list (N * scope) * (list string * list string) :=
  match ss with
  | SNil => ([], (g, f))
  | SCons s r =>
      let a := tb_stmt g f s in
      let b := tb_stmts (fst (snd a)) (snd (snd a)) r in (fst a ++ fst b, snd b)
  end.

End B.

(* the decision for every identifier use of the program *)
Definition bindings (o : options) (W : world) (p : program) : list (N * scope) :=
  let gf := snd (t_stmts o W (bound_stmts p) [] [] p) in
  fst (tb_stmts o W (fst gf) (snd gf) [] [] p).

Fixpoint lookupN (n : N) (l : list (N * N)) : option N :=
  match l with [] => None | (m, c) :: r => if N.eqb m n then Some c else lookupN n r end.

(* used by the check: every use is bound as the real resolver bound it *)
Definition bindings_agree (o : options) (W : world) (p : program) (obs : list (N * N)) : bool :=
  forallb (fun ns => match lookupN (fst ns) obs with
                     | Some c => N.eqb c (scope_code (snd ns))
                     | None => false
                     end) (bindings o W p).
