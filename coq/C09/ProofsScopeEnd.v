(* C09 -- scoping proofs, part 3: the end-of-module pass (resolveNonLocalUses /
   lookupLexical with its memoisation) over a fixed block skeleton.
   - every "undefined" report it adds is for a deferred use whose chain of blocks
     does not bind the name and whose name is not visible at file level;
   - memoised entries agree with fresh lookups: a name memoised in a block from
     which it is unbound has been reported;
   - every deferred use is looked up (the recursion over the block tree reaches
     every container within the fuel), so an unbound use is reported itself or
     suppressed by the memo of an earlier report of the same name. *)
From Coq Require Import String Ascii List Bool Arith NArith Lia.
From SV Require Import C09.Syntax C09.Model C09.Spec C09.ScopeSpec C09.Unfold C09.Proofs C09.ProofsScopeDefs C09.ProofsScopeDefs2.
Import ListNotations.

Definition sk (BL : list blk) : list (option nat * list string) := map (fun k => (k_parent k, k_names k)) BL.

Lemma sk_nth BL i k : nth_error BL i = Some k -> nth_error (sk BL) i = Some (k_parent k, k_names k).
Proof. intros H. unfold sk. apply (map_nth_error (fun k => (k_parent k, k_names k)) _ _ H). Qed.

Lemma sk_nth_inv BL i p ns :
  nth_error (sk BL) i = Some (p, ns) -> exists k, nth_error BL i = Some k /\ k_parent k = p /\ k_names k = ns.
Proof.
  revert i. induction BL as [|a BL IH]; intros [|i]; simpl; try discriminate.
  - intros H. inversion H; subst. eauto.
  - apply IH.
Qed.

Lemma sk_upd_memo b x BL :
  sk (upd_blk b (fun k => {| k_parent := k_parent k; k_isfn := k_isfn k; k_names := k_names k; k_memo := x :: k_memo k |}) BL)
  = sk BL.
Proof. revert b. induction BL as [|a BL IH]; intros [|b]; simpl; auto. rewrite IH. reflexivity. Qed.

Definition matchc (a c : option nat) : bool :=
  match a, c with None, None => true | Some a, Some b => a =? b | _, _ => false end.
Lemma matchc_refl a : matchc a a = true.
Proof. destruct a; simpl; auto. apply Nat.eqb_refl. Qed.
Lemma matchc_eq a c : matchc a c = true -> a = c.
Proof. destruct a, c; simpl; try discriminate; auto. intros H. apply Nat.eqb_eq in H. congruence. Qed.

Section E.
Variable opts : options.
Variable W : world.
Variable SK : list (option nat * list string).
Variable G F : list string.
Variable BU : list (option nat * use).
Variable E0 : N -> Prop.
Hypothesis Hpar : forall i p ns, nth_error SK i = Some (Some p, ns) -> p < i.
Hypothesis BUenv : forall c u b, In (c, u) BU -> u_env u = Some b -> b < length SK.
Hypothesis BUcont : forall c u i, In (c, u) BU -> c = Some i -> i < length SK.

(* the name is bound by no block of the chain from e up to the file *)
Inductive Unb (x : string) : option nat -> Prop :=
| Unb_top : Unb x None
| Unb_blk b par ns : nth_error SK b = Some (par, ns) -> mem x ns = false -> Unb x par -> Unb x (Some b).

Definition TU (x : string) : Prop :=
  mem x F = false /\ mem x G = false /\ mem x (w_predeclared W) = false /\ mem x (w_universal W) = false.

Definition Rep (st : rs) (x : string) : Prop :=
  exists c u, In (c, u) BU /\ u_name u = x /\ und st (u_node u) /\ Unb x (u_env u) /\ TU x.

Definition Inv (st : rs) : Prop :=
  sk (blocks st) = SK /\ globals st = G /\ fileb st = F /\ buses st = BU /\
  (forall x, mem x (premem st) = true -> mem x (w_predeclared W) || mem x (w_universal W) = true) /\
  (forall i k y, nth_error (blocks st) i = Some k -> mem y (k_memo k) = true -> Unb y (Some i) -> TU y -> Rep st y) /\
  (forall m, und st m -> E0 m \/ exists c u, In (c, u) BU /\ u_node u = m /\ Unb (u_name u) (u_env u) /\ TU (u_name u)).

Definition mono (st st' : rs) : Prop := forall m, und st m -> und st' m.

Lemma Rep_mono st st' y : mono st st' -> Rep st y -> Rep st' y.
Proof.
  intros M (c & u & H1 & H2 & H3 & H4 & H5). exists c, u.
  split; [auto|]. split; [auto|]. split; [apply M; auto|]. split; auto.
Qed.

Section Look.
Variable n : N.
Variable x : string.
Variable c0 : option nat.
Variable u0 : use.
Hypothesis Hin : In (c0, u0) BU.
Hypothesis Hn : u_node u0 = n.
Hypothesis Hx : u_name u0 = x.

Lemma Inv_ext st st' (P : Prop) :
  blocks st' = blocks st -> globals st' = globals st -> fileb st' = fileb st -> buses st' = buses st ->
  (forall y, mem y (premem st') = true -> mem y (w_predeclared W) || mem y (w_universal W) = true) ->
  (forall m, und st' m <-> und st m \/ (m = n /\ P)) ->
  (P -> Unb x (u_env u0) /\ TU x) ->
  Inv st -> Inv st' /\ mono st st'.
Proof.
  intros B Gl Fi Bu Pm Hu HP (I1 & I2 & I3 & I4 & I5 & I6 & I7).
  assert (M : mono st st') by (intros m Hm; apply Hu; auto).
  split; [|exact M]. unfold Inv. rewrite B, Gl, Fi, Bu. repeat split; auto.
  - intros i k y Hk Hy HU HT. eapply Rep_mono; [exact M|]. eapply I6; eauto.
  - intros m Hm. apply Hu in Hm. destruct Hm as [Hm|[-> HPP]]; auto.
    right. exists c0, u0. rewrite Hn, Hx. destruct (HP HPP). auto.
Qed.

Lemma useTop_inv st :
  Inv st -> (Unb x None -> Unb x (u_env u0)) ->
  Inv (useToplevel opts W st n x) /\ mono st (useToplevel opts W st n x) /\
  (TU x -> Rep (useToplevel opts W st n x) x /\ und (useToplevel opts W st n x) n).
Proof.
  intros HI Hch. pose proof HI as (I1 & I2 & I3 & I4 & I5 & I6 & I7). unfold useToplevel.
  destruct (mem x (fileb st)) eqn:Ef.
  { split; [exact HI|]. split; [intros m; auto|]. intros (T1 & _). congruence. }
  destruct (mem x (globals st)) eqn:Eg.
  { split; [exact HI|]. split; [intros m; auto|]. intros (_ & T2 & _). congruence. }
  destruct (mem x (premem st)) eqn:Ep.
  { split; [exact HI|]. split; [intros m; auto|]. intros (_ & _ & T3 & T4). apply I5 in Ep. rewrite T3, T4 in Ep. discriminate. }
  destruct (mem x (w_predeclared W)) eqn:Epre.
  { match goal with |- Inv ?S /\ _ => destruct (Inv_ext st S False) as [A B]; auto end.
    - simpl. intros y. destruct (String.eqb y x) eqn:Ey; simpl; auto. apply String.eqb_eq in Ey. subst. rewrite Epre. auto.
    - intros m. simpl. tauto.
    - tauto.
    - split; [exact A|]. split; [exact B|]. intros (_ & _ & T3 & _). congruence. }
  destruct (mem x (w_universal W)) eqn:Euni.
  { match goal with |- Inv ?S /\ _ => destruct (Inv_ext st S False) as [A B]; auto end.
    - destruct (negb (o_set opts) && String.eqb x "set"); reflexivity.
    - destruct (negb (o_set opts) && String.eqb x "set"); reflexivity.
    - destruct (negb (o_set opts) && String.eqb x "set"); reflexivity.
    - destruct (negb (o_set opts) && String.eqb x "set"); reflexivity.
    - assert (Hp : forall st0, premem st0 = premem st ->
                forall y, mem y (x :: premem st0) = true -> mem y (w_predeclared W) || mem y (w_universal W) = true).
      { intros st0 -> y. simpl. destruct (String.eqb y x) eqn:Ey; simpl; auto.
        apply String.eqb_eq in Ey. subst. rewrite Euni. intros _. apply orb_true_r. }
      destruct (negb (o_set opts) && String.eqb x "set"); simpl; apply Hp; reflexivity.
    - intros m. unfold und. split.
      + destruct (negb (o_set opts) && String.eqb x "set"); simpl; auto.
        intros H. apply in_app_or in H. destruct H as [H|[H|[]]]; auto. inversion H.
      + intros [H|[_ []]]. destruct (negb (o_set opts) && String.eqb x "set"); simpl; auto. apply in_or_app. auto.
    - tauto.
    - split; [exact A|]. split; [exact B|]. intros (_ & _ & _ & T4). congruence. }
  assert (HT : TU x).
  { unfold TU. rewrite <- I2, <- I3. auto. }
  match goal with |- Inv ?S /\ _ => destruct (Inv_ext st S True) as [A B]; auto end.
  - intros m. unfold und. simpl. split.
    + intros H. apply in_app_or in H. destruct H as [H|[H|[]]]; auto. inversion H; subst. auto.
    + intros [H|[-> _]]; apply in_or_app; simpl; auto.
  - intros _. split; auto. apply Hch. constructor.
  - split; [exact A|]. split; [exact B|]. intros _.
    assert (Hu : und (errorf st RUndefined n) n) by (unfold und; simpl; apply in_or_app; simpl; auto).
    split; auto. exists c0, u0. rewrite Hn, Hx. repeat split; auto; try apply HT. apply Hch. constructor.
Qed.

Lemma lookup_inv : forall fuel st e,
  Inv st -> (forall b, e = Some b -> b < fuel) -> (Unb x e -> Unb x (u_env u0)) ->
  Inv (lookupLexical opts W fuel st n x e) /\ mono st (lookupLexical opts W fuel st n x e) /\
  (Unb x e -> TU x -> Rep (lookupLexical opts W fuel st n x e) x) /\
  (e = None -> TU x -> und (lookupLexical opts W fuel st n x e) n).
Proof.
  induction fuel as [|fu IH]; intros st e HI Hfu Hch.
  - destruct e as [b|]; [specialize (Hfu b eq_refl); lia|]. simpl.
    destruct (useTop_inv st HI Hch) as (A & B & C). split; [exact A|]. split; [exact B|]. split; intros; apply C; auto.
  - destruct e as [b|]; simpl.
    2:{ destruct (useTop_inv st HI Hch) as (A & B & C). split; [exact A|]. split; [exact B|]. split; intros; apply C; auto. }
    pose proof HI as (I1 & I2 & I3 & I4 & I5 & I6 & I7).
    destruct (nth_error (blocks st) b) as [k|] eqn:Ek.
    2:{ split; [exact HI|]. split; [intros m; auto|]. split; [|discriminate].
        intros HU _. inversion HU; subst. rewrite <- I1 in H0. apply sk_nth_inv in H0.
        destruct H0 as (k & Hk & _). congruence. }
    pose proof (sk_nth _ _ _ Ek) as Hsk. rewrite I1 in Hsk.
    destruct (mem x (k_names k) || mem x (k_memo k)) eqn:Efound.
    { split; [exact HI|]. split; [intros m; auto|]. split; [|discriminate].
      intros HU HT. inversion HU; subst. rewrite Hsk in H0. inversion H0; subst.
      rewrite H1 in Efound. simpl in Efound. eapply I6; eauto. }
    apply orb_false_iff in Efound. destruct Efound as [En Em].
    assert (Hch' : Unb x (k_parent k) -> Unb x (u_env u0)).
    { intros HU. apply Hch. econstructor; eauto. }
    assert (Hfu' : forall p, k_parent k = Some p -> p < fu).
    { intros p Hp. rewrite Hp in Hsk. apply Hpar in Hsk. specialize (Hfu b eq_refl). lia. }
    destruct (IH st (k_parent k) HI Hfu' Hch') as (A & B & C & _).
    set (st1 := lookupLexical opts W fu st n x (k_parent k)) in *.
    pose proof A as (A1 & A2 & A3 & A4 & A5 & A6 & A7).
    assert (Hk1 : exists k1, nth_error (blocks st1) b = Some k1 /\ k_parent k1 = k_parent k /\ k_names k1 = k_names k).
    { apply sk_nth_inv. rewrite A1. exact Hsk. }
    destruct Hk1 as (k1 & Hk1 & Hp1 & Hn1).
    assert (HUpar : Unb x (Some b) -> Unb x (k_parent k)).
    { intros HU. inversion HU; subst. rewrite Hsk in H0. inversion H0; subst. auto. }
    split; [|split; [exact B|split; [|discriminate]]].
    + unfold Inv. simpl. rewrite sk_upd_memo. repeat split; auto.
      intros i k' y Hk' Hy HU HT. destruct (Nat.eq_dec b i) as [<-|Hne].
      * rewrite (nth_error_upd_blk_same _ _ _ _ Hk1) in Hk'. inversion Hk'; subst k'. simpl in Hy.
        destruct (String.eqb y x) eqn:Ey.
        -- apply String.eqb_eq in Ey. subst y. apply C; auto.
        -- simpl in Hy. eapply (A6 b k1 y); eauto.
      * rewrite nth_error_upd_blk_other in Hk' by auto. eapply (A6 i k' y); eauto.
    + intros HU HT. apply C; auto.
Qed.

End Look.

Definition Q (st : rs) (cu : option nat * use) : Prop :=
  (Unb (u_name (snd cu)) (u_env (snd cu)) -> TU (u_name (snd cu)) -> Rep st (u_name (snd cu))) /\
  (u_env (snd cu) = None -> TU (u_name (snd cu)) -> und st (u_node (snd cu))).

Lemma Q_mono st st' cu : mono st st' -> Q st cu -> Q st' cu.
Proof.
  intros M [A B]. split.
  - intros HU HT. eapply Rep_mono; eauto.
  - intros He HT. apply M. auto.
Qed.

Lemma mono_refl st : mono st st.
Proof. intros m; auto. Qed.
Lemma mono_trans a b c : mono a b -> mono b c -> mono a c.
Proof. intros H1 H2 m Hm. auto. Qed.

Definition ustep (c : option nat) (st : rs) (cu : option nat * use) : rs :=
  if matchc (fst cu) c
  then lookupLexical opts W (length (blocks st)) st (u_node (snd cu)) (u_name (snd cu)) (u_env (snd cu))
  else st.

Lemma Inv_len st : Inv st -> length (blocks st) = length SK.
Proof. intros (I1 & _). rewrite <- I1. unfold sk. rewrite map_length. reflexivity. Qed.

Lemma fold_uses c l : (forall cu, In cu l -> In cu BU) -> forall st, Inv st ->
  Inv (fold_left (ustep c) l st) /\ mono st (fold_left (ustep c) l st) /\
  (forall cu, In cu l -> matchc (fst cu) c = true -> Q (fold_left (ustep c) l st) cu).
Proof.
  induction l as [|cu l IH]; intros Hl st HI; simpl.
  - split; [exact HI|]. split; [apply mono_refl|]. intros cu [].
  - assert (S1 : Inv (ustep c st cu) /\ mono st (ustep c st cu) /\ (matchc (fst cu) c = true -> Q (ustep c st cu) cu)).
    { unfold ustep. destruct (matchc (fst cu) c) eqn:Em.
      - destruct cu as [c1 u1]. simpl.
        assert (Hin : In (c1, u1) BU) by (apply Hl; left; auto).
        destruct (lookup_inv (u_node u1) (u_name u1) c1 u1 Hin eq_refl eq_refl (length (blocks st)) st (u_env u1) HI)
          as (A & B & C & D).
        + intros b Hb. rewrite (Inv_len st HI). eapply BUenv; eauto.
        + auto.
        + split; [exact A|]. split; [exact B|]. intros _. split; auto.
      - split; [exact HI|]. split; [apply mono_refl|]. discriminate. }
    destruct S1 as (A & B & C).
    destruct (IH (fun cu' H => Hl cu' (or_intror H)) _ A) as (A' & B' & C').
    split; [exact A'|]. split; [eapply mono_trans; eauto|].
    intros cu' [<-|Hin] Hm; auto. eapply Q_mono; [exact B'|]. auto.
Qed.

Lemma resolve_uses_inv st c : Inv st ->
  Inv (resolve_uses_of opts W st c) /\ mono st (resolve_uses_of opts W st c) /\
  (forall cu, In cu BU -> matchc (fst cu) c = true -> Q (resolve_uses_of opts W st c) cu).
Proof.
  intros HI. pose proof HI as (_ & _ & _ & I4 & _).
  change (resolve_uses_of opts W st c) with (fold_left (ustep c) (buses st) st). rewrite I4.
  apply fold_uses; auto.
Qed.

(* c is a container reached from b within the fuel *)
Inductive reach : nat -> option nat -> option nat -> Prop :=
| reach_here f b : reach (S f) b b
| reach_child f b i c ns : nth_error SK i = Some (b, ns) -> reach f (Some i) c -> reach (S f) b c.

Lemma reach_mono f b c : reach f b c -> forall f', f <= f' -> reach f' b c.
Proof.
  induction 1; intros f' Hle; (destruct f' as [|f']; [lia|]).
  - constructor.
  - econstructor; eauto. apply IHreach. lia.
Qed.

Lemma reach_all : forall i, i < length SK -> forall c f, reach f (Some i) c -> reach (f + i + 1) None c.
Proof.
  induction i as [i IH] using lt_wf_ind. intros Hi c f Hr.
  destruct (nth_error SK i) as [[par ns]|] eqn:Ei.
  2:{ apply nth_error_None in Ei. lia. }
  destruct par as [p|].
  - pose proof (Hpar _ _ _ Ei) as Hp.
    assert (Hr' : reach (S f) (Some p) c) by (econstructor; eauto).
    eapply reach_mono; [apply (IH p Hp ltac:(lia) c (S f) Hr')|]. lia.
  - eapply reach_mono; [econstructor; eauto|]. lia.
Qed.

Lemma children_In st b i : sk (blocks st) = SK -> (In i (children_of st b) <-> exists ns, nth_error SK i = Some (b, ns)).
Proof.
  intros I1. unfold children_of. rewrite filter_In, in_seq. split.
  - intros [_ H]. destruct (nth_error (blocks st) i) as [k|] eqn:Ek; [|discriminate].
    apply sk_nth in Ek. rewrite I1 in Ek. apply (matchc_eq (k_parent k) b) in H. subst b. eauto.
  - intros (ns & H). rewrite <- I1 in H. pose proof H as H'. apply sk_nth_inv in H. destruct H as (k & Hk & Hp & _).
    split.
    + split; [lia|]. simpl. apply nth_error_Some. congruence.
    + rewrite Hk, Hp. apply (matchc_refl b).
Qed.

Lemma rnlu_inv : forall fuel st b, Inv st ->
  Inv (resolveNonLocalUses opts W fuel st b) /\ mono st (resolveNonLocalUses opts W fuel st b) /\
  (forall cu, In cu BU -> reach fuel b (fst cu) -> Q (resolveNonLocalUses opts W fuel st b) cu).
Proof.
  induction fuel as [|fu IH]; intros st b HI; simpl.
  - split; [exact HI|]. split; [apply mono_refl|]. intros cu _ H. inversion H.
  - assert (Ch : forall l st, Inv st ->
              Inv (fold_left (fun st c => resolveNonLocalUses opts W fu st (Some c)) l st) /\
              mono st (fold_left (fun st c => resolveNonLocalUses opts W fu st (Some c)) l st) /\
              (forall i, In i l -> forall cu, In cu BU -> reach fu (Some i) (fst cu) ->
                 Q (fold_left (fun st c => resolveNonLocalUses opts W fu st (Some c)) l st) cu)).
    { induction l as [|i l IHl]; intros s HIs; simpl.
      - split; [exact HIs|]. split; [apply mono_refl|]. intros i [].
      - destruct (IH s (Some i) HIs) as (A & B & C).
        destruct (IHl _ A) as (A' & B' & C').
        split; [exact A'|]. split; [eapply mono_trans; eauto|].
        intros j [<-|Hj] cu Hcu Hr; [|eauto]. eapply Q_mono; [exact B'|]. auto. }
    destruct (Ch (children_of st b) st HI) as (A & B & C).
    set (st1 := fold_left (fun st c => resolveNonLocalUses opts W fu st (Some c)) (children_of st b) st) in *.
    destruct (resolve_uses_inv st1 b A) as (A' & B' & C').
    split; [exact A'|]. split; [eapply mono_trans; eauto|].
    intros cu Hcu Hr. inversion Hr; subst.
    + apply C'; auto. apply matchc_refl.
    + eapply Q_mono; [exact B'|]. eapply C; eauto. apply (children_In st b i (proj1 HI)). eauto.
Qed.

Lemma end_pass st : Inv st ->
  Inv (resolveNonLocalUses opts W (S (length SK)) st None) /\
  mono st (resolveNonLocalUses opts W (S (length SK)) st None) /\
  (forall cu, In cu BU -> Q (resolveNonLocalUses opts W (S (length SK)) st None) cu).
Proof.
  intros HI. destruct (rnlu_inv (S (length SK)) st None HI) as (A & B & C).
  split; [exact A|]. split; [exact B|]. intros [c u] Hcu. apply C; auto. simpl.
  destruct c as [i|]; [|constructor].
  pose proof (BUcont _ _ i Hcu eq_refl) as Hi.
  eapply reach_mono; [apply (reach_all i Hi (Some i) 1); constructor|]. lia.
Qed.

(* ---- the same pass, generically: any invariant I with a monotone order M and a per-use goal Qg
   established by one lookup is established for every deferred use ---- *)
Section Gen.
Variable I : rs -> Prop.
Variable M : rs -> rs -> Prop.
Variable Qg : rs -> option nat * use -> Prop.
Hypothesis M_refl : forall st, M st st.
Hypothesis M_trans : forall a b c, M a b -> M b c -> M a c.
Hypothesis Qg_mono : forall st st' cu, M st st' -> Qg st cu -> Qg st' cu.
Hypothesis I_sk : forall st, I st -> sk (blocks st) = SK.
Hypothesis I_bu : forall st, I st -> buses st = BU.
Hypothesis I_step : forall c u, In (c, u) BU -> forall st, I st ->
  I (lookupLexical opts W (length (blocks st)) st (u_node u) (u_name u) (u_env u)) /\
  M st (lookupLexical opts W (length (blocks st)) st (u_node u) (u_name u) (u_env u)) /\
  Qg (lookupLexical opts W (length (blocks st)) st (u_node u) (u_name u) (u_env u)) (c, u).

Lemma g_fold_uses c l : (forall cu, In cu l -> In cu BU) -> forall st, I st ->
  I (fold_left (ustep c) l st) /\ M st (fold_left (ustep c) l st) /\
  (forall cu, In cu l -> matchc (fst cu) c = true -> Qg (fold_left (ustep c) l st) cu).
Proof.
  induction l as [|cu l IH]; intros Hl st HI; simpl.
  - split; [exact HI|]. split; [apply M_refl|]. intros cu [].
  - assert (S1 : I (ustep c st cu) /\ M st (ustep c st cu) /\ (matchc (fst cu) c = true -> Qg (ustep c st cu) cu)).
    { unfold ustep. destruct (matchc (fst cu) c) eqn:Em.
      - destruct cu as [c1 u1]. simpl.
        assert (Hin : In (c1, u1) BU) by (apply Hl; left; auto).
        destruct (I_step c1 u1 Hin st HI) as (A & B & C). split; [exact A|]. split; [exact B|]. intros _. exact C.
      - split; [exact HI|]. split; [apply M_refl|]. discriminate. }
    destruct S1 as (A & B & C).
    destruct (IH (fun cu' H => Hl cu' (or_intror H)) _ A) as (A' & B' & C').
    split; [exact A'|]. split; [eapply M_trans; eauto|].
    intros cu' [<-|Hin] Hm; auto. eapply Qg_mono; [exact B'|]. auto.
Qed.

Lemma g_resolve_uses st c : I st ->
  I (resolve_uses_of opts W st c) /\ M st (resolve_uses_of opts W st c) /\
  (forall cu, In cu BU -> matchc (fst cu) c = true -> Qg (resolve_uses_of opts W st c) cu).
Proof.
  intros HI. pose proof (I_bu st HI) as I4.
  change (resolve_uses_of opts W st c) with (fold_left (ustep c) (buses st) st). rewrite I4.
  apply g_fold_uses; auto.
Qed.

Lemma g_rnlu : forall fuel st b, I st ->
  I (resolveNonLocalUses opts W fuel st b) /\ M st (resolveNonLocalUses opts W fuel st b) /\
  (forall cu, In cu BU -> reach fuel b (fst cu) -> Qg (resolveNonLocalUses opts W fuel st b) cu).
Proof.
  induction fuel as [|fu IH]; intros st b HI; simpl.
  - split; [exact HI|]. split; [apply M_refl|]. intros cu _ H. inversion H.
  - assert (Ch : forall l st, I st ->
              I (fold_left (fun st c => resolveNonLocalUses opts W fu st (Some c)) l st) /\
              M st (fold_left (fun st c => resolveNonLocalUses opts W fu st (Some c)) l st) /\
              (forall i, In i l -> forall cu, In cu BU -> reach fu (Some i) (fst cu) ->
                 Qg (fold_left (fun st c => resolveNonLocalUses opts W fu st (Some c)) l st) cu)).
    { induction l as [|i l IHl]; intros s HIs; simpl.
      - split; [exact HIs|]. split; [apply M_refl|]. intros i [].
      - destruct (IH s (Some i) HIs) as (A & B & C).
        destruct (IHl _ A) as (A' & B' & C').
        split; [exact A'|]. split; [eapply M_trans; eauto|].
        intros j [<-|Hj] cu Hcu Hr; [|eauto]. eapply Qg_mono; [exact B'|]. auto. }
    destruct (Ch (children_of st b) st HI) as (A & B & C).
    set (st1 := fold_left (fun st c => resolveNonLocalUses opts W fu st (Some c)) (children_of st b) st) in *.
    destruct (g_resolve_uses st1 b A) as (A' & B' & C').
    split; [exact A'|]. split; [eapply M_trans; eauto|].
    intros cu Hcu Hr. inversion Hr; subst.
    + apply C'; auto. apply matchc_refl.
    + eapply Qg_mono; [exact B'|]. eapply C; eauto. apply (children_In st b i (I_sk st HI)). eauto.
Qed.

Lemma g_end_pass st : I st ->
  I (resolveNonLocalUses opts W (S (length SK)) st None) /\
  M st (resolveNonLocalUses opts W (S (length SK)) st None) /\
  (forall cu, In cu BU -> Qg (resolveNonLocalUses opts W (S (length SK)) st None) cu).
Proof.
  intros HI. destruct (g_rnlu (S (length SK)) st None HI) as (A & B & C).
  split; [exact A|]. split; [exact B|]. intros [c u] Hcu. apply C; auto. simpl.
  destruct c as [i|]; [|constructor].
  pose proof (BUcont _ _ i Hcu eq_refl) as Hi.
  eapply reach_mono; [apply (reach_all i Hi (Some i) 1); constructor|]. lia.
Qed.

End Gen.

(* ---- `set` without the Set option ---- *)
Variable E0S : N -> Prop.

Definition TUS : Prop :=
  o_set opts = false /\ mem "set"%string F = false /\ mem "set"%string G = false /\
  mem "set"%string (w_predeclared W) = false /\ mem "set"%string (w_universal W) = true.

Definition InvS (st : rs) : Prop :=
  sk (blocks st) = SK /\ globals st = G /\ fileb st = F /\ buses st = BU /\
  PremOK opts W st /\
  (forall i k, nth_error (blocks st) i = Some k -> mem "set"%string (k_memo k) = true ->
     Unb "set"%string (Some i) -> TUS -> SR st) /\
  (forall m, setr st m -> E0S m \/ exists c u, In (c, u) BU /\ u_node u = m /\ u_name u = "set"%string /\
                                   Unb "set"%string (u_env u) /\ TUS).

Definition monoS (st st' : rs) : Prop := SR st -> SR st'.

Section LookS.
Variable n : N.
Variable x : string.
Variable c0 : option nat.
Variable u0 : use.
Hypothesis Hin : In (c0, u0) BU.
Hypothesis Hn : u_node u0 = n.
Hypothesis Hx : u_name u0 = x.

Lemma InvS_ext st st' (P : Prop) :
  blocks st' = blocks st -> globals st' = globals st -> fileb st' = fileb st -> buses st' = buses st ->
  PremOK opts W st' ->
  (forall m, setr st' m <-> setr st m \/ (m = n /\ P)) ->
  (P -> x = "set"%string /\ Unb "set"%string (u_env u0) /\ TUS) ->
  InvS st -> InvS st' /\ monoS st st'.
Proof.
  intros B Gl Fi Bu Pm Hu HP (I1 & I2 & I3 & I4 & I5 & I6 & I7).
  assert (Mo : monoS st st') by (intros (m & Hm); exists m; apply Hu; auto).
  split; [|exact Mo]. unfold InvS. rewrite B, Gl, Fi, Bu. repeat split; auto.
  - intros i k Hk Hy HU HT. apply Mo. eapply I6; eauto.
  - intros m Hm. apply Hu in Hm. destruct Hm as [Hm|[-> HPP]]; auto.
    right. exists c0, u0. destruct (HP HPP) as (E & HU & HT). rewrite Hn, Hx. auto.
Qed.

Lemma useTop_invS st :
  InvS st -> (Unb x None -> Unb x (u_env u0)) ->
  InvS (useToplevel opts W st n x) /\ monoS st (useToplevel opts W st n x) /\
  (x = "set"%string -> TUS -> SR (useToplevel opts W st n x)).
Proof.
  intros HI Hch. pose proof HI as (I1 & I2 & I3 & I4 & I5 & I6 & I7). unfold useToplevel.
  destruct (mem x (fileb st)) eqn:Ef.
  { split; [exact HI|]. split; [intros H; exact H|]. intros Exs (_ & T1 & _). rewrite Exs, I3 in Ef. congruence. }
  destruct (mem x (globals st)) eqn:Eg.
  { split; [exact HI|]. split; [intros H; exact H|]. intros Exs (_ & _ & T2 & _). rewrite Exs, I2 in Eg. congruence. }
  destruct (mem x (premem st)) eqn:Ep.
  { split; [exact HI|]. split; [intros H; exact H|]. intros Exs (T0 & _ & _ & T3 & _). rewrite Exs in Ep.
    destruct (I5 Ep) as [H|[H|H]]; auto; congruence. }
  destruct (mem x (w_predeclared W)) eqn:Epre.
  { match goal with |- InvS ?S /\ _ => destruct (InvS_ext st S False) as [A B]; auto end.
    - unfold PremOK. simpl premem. rewrite mem_cons_set. intros H. apply orb_prop in H. destruct H as [H|H].
      + apply String.eqb_eq in H. rewrite <- H in Epre. left. exact Epre.
      + destruct (I5 H) as [K0|[K0|K0]]; auto.
    - intros m. simpl. tauto.
    - tauto.
    - split; [exact A|]. split; [exact B|]. intros Exs (_ & _ & _ & T3 & _). rewrite Exs in Epre. congruence. }
  destruct (mem x (w_universal W)) eqn:Euni.
  { destruct (negb (o_set opts) && String.eqb x "set") eqn:Ec.
    - apply andb_prop in Ec. destruct Ec as [Ec1 Ec2]. apply String.eqb_eq in Ec2.
      assert (Hos : o_set opts = false) by (destruct (o_set opts); [discriminate|reflexivity]).
      assert (HS : SR (set_scope (errorf st RSetUnsupported n) (globals (errorf st RSetUnsupported n))
                         (fileb (errorf st RSetUnsupported n)) (x :: premem (errorf st RSetUnsupported n)))).
      { exists n. unfold setr. simpl. apply in_or_app. right. left. reflexivity. }
      match goal with |- InvS ?S /\ _ => destruct (InvS_ext st S True) as [A B]; auto end.
      + intros _. right. right. exact HS.
      + intros m. unfold setr. simpl. rewrite in_app_iff. simpl. split.
        * intros [H|[H|[]]]; auto. inversion H; subst. auto.
        * intros [H|[-> _]]; auto.
      + intros _. split; [exact Ec2|]. split.
        * rewrite <- Ec2. apply Hch. constructor.
        * unfold TUS. rewrite <- I2, <- I3, <- Ec2. auto.
    - match goal with |- InvS ?S /\ _ => destruct (InvS_ext st S False) as [A B]; auto end.
      + unfold PremOK. simpl premem. rewrite mem_cons_set. intros H. apply orb_prop in H. destruct H as [H|H].
        * apply String.eqb_eq in H. rewrite <- H in Ec. simpl in Ec. rewrite andb_true_r in Ec.
          right. left. destruct (o_set opts); [reflexivity|discriminate].
        * destruct (I5 H) as [K0|[K0|K0]]; auto.
      + intros m. simpl. tauto.
      + tauto.
      + split; [exact A|]. split; [exact B|]. intros Exs (T0 & _). rewrite T0, Exs in Ec. simpl in Ec. discriminate. }
  match goal with |- InvS ?S /\ _ => destruct (InvS_ext st S False) as [A B]; auto end.
  - unfold PremOK. simpl premem. intros H. destruct (I5 H) as [K0|[K0|[m K0]]]; auto.
    right. right. exists m. apply setr_errorf. auto.
  - intros m. rewrite setr_errorf. split; [|intros [H|[_ []]]; auto]. intros [H|[H _]]; auto. discriminate.
  - tauto.
  - split; [exact A|]. split; [exact B|]. intros Exs (_ & _ & _ & _ & T4). rewrite Exs in Euni. congruence.
Qed.

Lemma lookup_invS : forall fuel st e,
  InvS st -> (forall b, e = Some b -> b < fuel) -> (Unb x e -> Unb x (u_env u0)) ->
  InvS (lookupLexical opts W fuel st n x e) /\ monoS st (lookupLexical opts W fuel st n x e) /\
  (x = "set"%string -> Unb x e -> TUS -> SR (lookupLexical opts W fuel st n x e)).
Proof.
  induction fuel as [|fu IH]; intros st e HI Hfu Hch.
  - destruct e as [b|]; [specialize (Hfu b eq_refl); lia|]. simpl.
    destruct (useTop_invS st HI Hch) as (A & B & C). split; [exact A|]. split; [exact B|]. intros; apply C; auto.
  - destruct e as [b|]; simpl.
    2:{ destruct (useTop_invS st HI Hch) as (A & B & C). split; [exact A|]. split; [exact B|]. intros; apply C; auto. }
    pose proof HI as (I1 & I2 & I3 & I4 & I5 & I6 & I7).
    destruct (nth_error (blocks st) b) as [k|] eqn:Ek.
    2:{ split; [exact HI|]. split; [intros H; exact H|].
        intros _ HU _. inversion HU; subst. rewrite <- I1 in H0. apply sk_nth_inv in H0.
        destruct H0 as (k & Hk & _). congruence. }
    pose proof (sk_nth _ _ _ Ek) as Hsk. rewrite I1 in Hsk.
    destruct (mem x (k_names k) || mem x (k_memo k)) eqn:Efound.
    { split; [exact HI|]. split; [intros H; exact H|].
      intros Exs HU HT. rewrite Exs in HU, Efound. inversion HU; subst. rewrite Hsk in H0. inversion H0; subst.
      rewrite H1 in Efound. simpl in Efound. eapply I6; eauto. }
    apply orb_false_iff in Efound. destruct Efound as [En Em].
    assert (Hch' : Unb x (k_parent k) -> Unb x (u_env u0)).
    { intros HU. apply Hch. econstructor; eauto. }
    assert (Hfu' : forall p, k_parent k = Some p -> p < fu).
    { intros p Hp. rewrite Hp in Hsk. apply Hpar in Hsk. specialize (Hfu b eq_refl). lia. }
    destruct (IH st (k_parent k) HI Hfu' Hch') as (A & B & C).
    set (st1 := lookupLexical opts W fu st n x (k_parent k)) in *.
    pose proof A as (A1 & A2 & A3 & A4 & A5 & A6 & A7).
    assert (Hk1 : exists k1, nth_error (blocks st1) b = Some k1 /\ k_parent k1 = k_parent k /\ k_names k1 = k_names k).
    { apply sk_nth_inv. rewrite A1. exact Hsk. }
    destruct Hk1 as (k1 & Hk1 & Hp1 & Hn1).
    assert (HUpar : Unb x (Some b) -> Unb x (k_parent k)).
    { intros HU. inversion HU; subst. rewrite Hsk in H0. inversion H0; subst. auto. }
    split; [|split; [exact B|]].
    + unfold InvS. simpl. rewrite sk_upd_memo. repeat split; auto.
      intros i k' Hk' Hy HU HT. destruct (Nat.eq_dec b i) as [<-|Hne].
      * rewrite (nth_error_upd_blk_same _ _ _ _ Hk1) in Hk'. inversion Hk'; subst k'. cbn [k_memo] in Hy. rewrite mem_cons_set in Hy.
        destruct (String.eqb "set" x) eqn:Ey.
        -- apply String.eqb_eq in Ey. apply C; [symmetry; exact Ey|apply HUpar; rewrite <- Ey; exact HU|exact HT].
        -- simpl in Hy. apply (A6 b k1 Hk1 Hy HU HT).
      * rewrite nth_error_upd_blk_other in Hk' by auto. apply (A6 i k' Hk' Hy HU HT).
    + intros Hxs HU HT. apply C; [exact Hxs|apply HUpar; exact HU|exact HT].
Qed.

End LookS.

Definition QS (st : rs) (cu : option nat * use) : Prop :=
  u_name (snd cu) = "set"%string -> Unb "set"%string (u_env (snd cu)) -> TUS -> SR st.

Lemma end_passS st : InvS st ->
  InvS (resolveNonLocalUses opts W (S (length SK)) st None) /\
  monoS st (resolveNonLocalUses opts W (S (length SK)) st None) /\
  (forall cu, In cu BU -> QS (resolveNonLocalUses opts W (S (length SK)) st None) cu).
Proof.
  apply (g_end_pass InvS monoS QS).
  - intros s H. exact H.
  - intros a b c H1 H2 H. auto.
  - intros s s' cu Mo Hq E HU HT. apply Mo. apply Hq; auto.
  - intros s (I1 & _). exact I1.
  - intros s (_ & _ & _ & I4 & _). exact I4.
  - intros c u Hin s HI.
    assert (Hlen : length (blocks s) = length SK).
    { destruct HI as (I1 & _). rewrite <- I1. unfold sk. rewrite map_length. reflexivity. }
    destruct (lookup_invS (u_node u) (u_name u) c u Hin eq_refl eq_refl (length (blocks s)) s (u_env u) HI)
      as (A & B & C).
    + intros b Hb. rewrite Hlen. eapply BUenv; eauto.
    + auto.
    + split; [exact A|]. split; [exact B|]. intros E HU HT. simpl in *. apply C; auto. rewrite E. exact HU.
Qed.

End E.
