From Coq Require Import List Bool Arith Lia.
From SV Require Import C09.Recursion.
Import ListNotations.

Section P.
Variable rec_on : nat -> bool.
Variable max_depth : nat.

Lemma existsb_same_code code st :
  existsb (same_code code) st = true <-> active code st.
Proof.
  unfold active. rewrite existsb_exists. split.
  - intros [[fv c|b] [Hin H]]; simpl in H; [|discriminate].
    apply Nat.eqb_eq in H. subst. eauto.
  - intros [fv Hin]. exists (Fn fv code). split; auto. simpl. apply Nat.eqb_refl.
Qed.

Lemma off_codes_In code st :
  rec_on code = false -> (In code (off_codes rec_on st) <-> active code st).
Proof.
  intros Hoff. unfold active. induction st as [|[fv c|b] st IH]; simpl.
  - split; [contradiction|intros [fv []]].
  - destruct (rec_on c) eqn:Ec.
    + rewrite IH. split.
      * intros [fv' H]. exists fv'. auto.
      * intros [fv' [H|H]]; [inversion H; subst; congruence|eauto].
    + simpl. rewrite IH. split.
      * intros [H|[fv' H]]; [subst; eauto|eauto].
      * intros [fv' [H|H]]; [inversion H; auto|right; eauto].
  - rewrite IH. split.
    + intros [fv H]. eauto.
    + intros [fv [H|H]]; [discriminate|eauto].
Qed.

(* one step preserves the invariant, whatever the event *)
Lemma step_preserves st e :
  distinct_active rec_on st -> distinct_active rec_on (fst (step rec_on max_depth st e)).
Proof.
  unfold distinct_active. intros H. destruct e as [fv code|b|]; simpl.
  - unfold call_internal_head. simpl tl. destruct (rec_on code) eqn:Er.
    + simpl length. destruct (max_depth <? S (length st)); simpl; auto. rewrite Er. exact H.
    + destruct (existsb (same_code code) st) eqn:Ex; simpl; auto.
      rewrite Er. constructor; auto.
      intro Hin. apply (off_codes_In code st Er) in Hin. apply existsb_same_code in Hin. congruence.
  - exact H.
  - destruct st as [|[fv c|b] r]; simpl; auto.
    + simpl in H. destruct (rec_on c); auto. inversion H; auto.
Qed.

Lemma run_preserves evs : forall st,
  distinct_active rec_on st -> distinct_active rec_on (fst (run rec_on max_depth st evs)).
Proof.
  induction evs as [|e evs IH]; intros st H; simpl; auto.
  apply IH. apply step_preserves. exact H.
Qed.

(* the full statement used by Properties.v *)
Lemma no_reentry_lemma :
  (* for ALL call sequences, from the empty stack, the invariant holds at the end (hence after every prefix) *)
  (forall evs, distinct_active rec_on (fst (run rec_on max_depth [] evs))) /\
  (* with recursion off a call of a function whose code is already active fails and leaves the stack as it
     was -- whichever closure of that code is called and whatever frames (built-in or not) lie in between;
     any other call of it enters *)
  (forall st fv code, rec_on code = false ->
     (active code st -> step rec_on max_depth st (CallFn fv code) = (st, FailedRecursion)) /\
     (~ active code st -> step rec_on max_depth st (CallFn fv code) = (Fn fv code :: st, Entered))) /\
  (* with recursion on the same call enters (up to the depth limit) *)
  (forall st fv code, rec_on code = true -> length st < max_depth ->
     step rec_on max_depth st (CallFn fv code) = (Fn fv code :: st, Entered)).
Proof.
  split; [|split].
  - intros evs. apply run_preserves. constructor.
  - intros st fv code Hoff. split; intros Ha; simpl; unfold call_internal_head; simpl tl; rewrite Hoff.
    + apply existsb_same_code in Ha. rewrite Ha. reflexivity.
    + destruct (existsb (same_code code) st) eqn:Ex; auto.
      apply existsb_same_code in Ex. contradiction.
  - intros st fv code Hon Hl. simpl. unfold call_internal_head. rewrite Hon. simpl length.
    destruct (Nat.ltb_spec max_depth (S (length st))); [lia|reflexivity].
Qed.

End P.
