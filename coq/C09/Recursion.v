(* C09 -- the dynamic recursion check (starlark/eval.go Call, starlark/interp.go
   Function.CallInternal): the thread's call stack as a list of frames, the
   scan over the frames below the new one, and the events that change the stack.
   No proofs here.

   A Starlark function value is a closure: (value identity, code identity).
   Two closures created from one `def` share the code identity (Funcode); the
   check compares code identities.  Whether a function may recurse is a
   property of the program (file) its code belongs to: Funcode.Prog.Recursion. *)
From Coq Require Import List Bool Arith.
Import ListNotations.

Inductive frame :=
| Fn (fv : nat) (code : nat)        (* Starlark function: closure identity, Funcode identity *)
| Builtin (b : nat).                (* any other Callable: sorted, min, max, a host function ... *)

Inductive event :=
| CallFn (fv : nat) (code : nat)    (* Call(thread, fn, ...) with fn a Starlark function *)
| CallBuiltin (b : nat)             (* Call(thread, fn, ...) with fn a built-in *)
| Return.                           (* the innermost active call returns (normally or with an error) *)

Inductive outcome := Entered | FailedRecursion | FailedDepth | Returned | NoFrame.

Section Rec.
Variable rec_on : nat -> bool.      (* code identity -> Prog.Recursion of its file *)
Variable max_depth : nat.           (* 100_000 *)

Definition same_code (code : nat) (fr : frame) : bool :=
  match fr with Fn _ c => c =? code | Builtin _ => false end.

(* the head of CallInternal, run with the new frame already pushed (stack head = new frame):
     if f.Prog.Recursion { if len(thread.stack) > 100_000 { error } }
     else { for _, fr := range thread.stack[:len(thread.stack)-1] { if fr is a Starlark function with funcode == f { error } } } *)
Definition call_internal_head (stack : list frame) (code : nat) : outcome :=
  if rec_on code then
    if max_depth <? length stack then FailedDepth else Entered
  else
    if existsb (same_code code) (tl stack) then FailedRecursion else Entered.

(* Call: push the frame, run CallInternal, pop on the way out (deferred) *)
Definition step (stack : list frame) (e : event) : list frame * outcome :=
  match e with
  | CallFn fv code =>
      let pushed := Fn fv code :: stack in
      match call_internal_head pushed code with
      | Entered => (pushed, Entered)
      | o => (stack, o)                   (* the deferred pop has run: the failed call leaves no frame *)
      end
  | CallBuiltin b => (Builtin b :: stack, Entered)
  | Return => match stack with [] => ([], NoFrame) | _ :: r => (r, Returned) end
  end.

Fixpoint run (stack : list frame) (evs : list event) : list frame * list outcome :=
  match evs with
  | [] => (stack, [])
  | e :: r => let s := step stack e in
              let t := run (fst s) r in (fst t, snd s :: snd t)
  end.

(* ---- specification vocabulary ---- *)
(* the code identities of the active function frames whose file has recursion off *)
Fixpoint off_codes (stack : list frame) : list nat :=
  match stack with
  | [] => []
  | Fn _ c :: r => if rec_on c then off_codes r else c :: off_codes r
  | Builtin _ :: r => off_codes r
  end.

(* "active function frames have pairwise distinct code identities" *)
Definition distinct_active (stack : list frame) : Prop := NoDup (off_codes stack).

Definition active (code : nat) (stack : list frame) : Prop := exists fv, In (Fn fv code) stack.

End Rec.
