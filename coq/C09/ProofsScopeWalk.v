(* C09 -- scoping proofs, part 2: the walk of the resolver model satisfies the
   invariant R of ProofsScopeDefs.v for every construct (mutual induction over
   the syntax, in the traversal order of the model). *)
From Coq Require Import String Ascii List Bool Arith NArith Lia.
From SV Require Import C09.Syntax C09.Model C09.Spec C09.ScopeSpec C09.Unfold C09.Proofs C09.ProofsScopeDefs C09.ProofsScopeDefs2.
Import ListNotations.

Section Wk.
Variable opts : options.
Variable W : world.
Notation R := (R opts W).
Notation WF := (WF W).
Notation flof := (flof opts).

Ltac neu :=
  cbv zeta;
  repeat match goal with
  | |- Neutral ?s ?s => apply Neutral_refl
  | |- Neutral _ (errorf _ _ _) => apply Neutral_errorf'; [|reflexivity]
  | |- Neutral _ (set_loops _ _) => apply Neutral_set_loops
  | |- Neutral _ (set_ifstmts _ _) => apply Neutral_set_ifstmts
  | |- Neutral _ (set_fdepth _ _) => apply Neutral_set_fdepth
  | |- Neutral _ (gate _ _ _ _) => unfold gate
  | |- Neutral _ (if ?c then _ else _) => destruct c
  end.

Lemma flof_blk st : top st = false -> None = flof st.
Proof. unfold ProofsScopeDefs.flof. intros ->. reflexivity. Qed.
Lemma flof_top st g f : top st = true -> g = globals st -> f = fileb st -> fl_of opts g f = flof st.
Proof. unfold ProofsScopeDefs.flof. intros -> -> ->. reflexivity. Qed.

Ltac cb := cbn [globals fileb env enter_fn push set_loops set_fdepth set_env set_blocks set_ifstmts] in *.
Ltac cg := first [congruence | (cb; congruence)].
Ltac side :=
  first [ assumption | reflexivity | cg
        | (eapply flof_tr; [eassumption | cg ..])
        | (eapply top_tr; [eassumption | cg])
        | (apply flof_blk; assumption)
        | (apply flof_blk; eapply top_tr; [eassumption | cg])
        | (apply flof_top; [first [assumption | eapply top_tr; [eassumption | cg]] | cg | cg]) ].

Definition pstar (p : pstate) : option (option string) :=
  match p_star p with Some (_, nm) => Some (option_map snd nm) | None => None end.
Definition pss (p : pstate) : option string :=
  match p_starstar p with Some (_, x) => Some x | None => None end.

Definition PE (e : expr) : Prop := forall st fl g f, WF st -> fl = flof st -> g = globals st -> f = fileb st ->
  R st (expr_ opts W st e) [] (uses_expr fl e) g f [] [].
Definition PEs (es : exprs) : Prop := forall st fl g f, WF st -> fl = flof st -> g = globals st -> f = fileb st ->
  R st (exprs_ opts W st es) [] (uses_exprs fl es) g f [] [].
Definition PA (a : args) : Prop := forall st ast fl g f, WF st -> fl = flof st -> g = globals st -> f = fileb st ->
  R st (fst (args_ opts W st ast a)) [] (uses_args fl a) g f [] [].
Definition PP (ps : params) : Prop :=
  (forall st fl g f, WF st -> fl = flof st -> g = globals st -> f = fileb st ->
     R st (defaults_ opts W st ps) [] (uses_defaults fl ps) g f [] []) /\
  (forall st p g f, WF st -> top st = false -> g = globals st -> f = fileb st ->
     R st (params_ opts W st p ps) (pn (pstar p) (pss p) ps) [] g f [] []).
Definition PC (cl : clauses) : Prop := forall st g f, WF st -> top st = false -> g = globals st -> f = fileb st ->
  R st (clauses_ opts W st cl) (clause_names cl) (uses_clauses cl) g f [] [].
Definition PL (l : lhs) : Prop := forall st aug g f, WF st -> top st = false -> g = globals st -> f = fileb st ->
  R st (assign_ opts W st aug l) (lhs_names l) (uses_lhs l) g f [] [].
Definition PLs (ls : lhss) : Prop := forall st aug g f, WF st -> top st = false -> g = globals st -> f = fileb st ->
  R st (assigns_ opts W st aug ls) (lhss_names ls) (uses_lhss ls) g f [] [].

Ltac chain :=
  eapply R_then_eq; [assumption | | intros Hw1 He1 Hg1 Hf1 | | | |].

Theorem walk_scope_exprs :
  (forall e, PE e) /\ (forall es, PEs es) /\ (forall a, PA a) /\ (forall ps, PP ps) /\
  (forall cl, PC cl) /\ (forall l, PL l) /\ (forall ls, PLs ls).
Proof.
  apply expr_mutind.
  - (* EId *) intros n x st fl g f Hw -> -> ->. rewrite u_EId. apply R_use. exact Hw.
  - (* ELit *) intros st fl g f Hw _ -> ->. apply R_skip. exact Hw.
  - (* EOp *) intros es IH st fl g f Hw Hfl Hg Hf. rewrite u_EOp. apply IH; auto.
  - (* ECall *) intros n fe IHf a IHa st fl g f Hw Hfl Hg Hf. rewrite u_ECall. cbv zeta.
    apply R_post with (st1 := fst (args_ opts W (expr_ opts W st fe) a0 a)); [|neu].
    chain; [apply (IHf _ fl g f); side | apply (IHa _ _ fl g f); side | reflexivity | reflexivity | reflexivity | reflexivity].
  - (* ELambda *) intros n ps [IHd IHp] body IHb st fl g f Hw Hfl Hg Hf. rewrite u_ELambda. cbv zeta.
    chain; [apply (IHd _ fl g f); side | | reflexivity | reflexivity | reflexivity | reflexivity].
    apply R_fn; [exact Hw1|].
    pose proof (WF_enter W _ Hw1) as Hwe.
    eapply R_then_eq; [exact Hwe | apply (IHp _ p0 g f); side | intros Hw2 He2 Hg2 Hf2; apply (IHb _ None g f); try side | | reflexivity | reflexivity | reflexivity].
    + apply flof_blk. unfold top. rewrite He2. reflexivity.
    + unfold bound_params. simpl. rewrite app_nil_r. reflexivity.
  - (* EComp *) intros n iter IHi vars IHv cl IHc body IHb st fl g f Hw Hfl Hg Hf. rewrite u_EComp.
    chain; [apply (IHi _ fl g f); side | | reflexivity | reflexivity | reflexivity | reflexivity].
    eapply R_block with (isfn := false); [exact Hw1|].
    pose proof (WF_push W _ false Hw1) as Hwe.
    eapply R_then_eq; [exact Hwe | apply (IHv _ false g f); side | intros Hw2 He2 Hg2 Hf2 | | reflexivity | reflexivity | reflexivity].
    + eapply R_then_eq; [exact Hw2 | apply (IHc _ g f); try side | intros Hw3 He3 Hg3 Hf3; apply (IHb _ None g f); try side | | reflexivity | reflexivity | reflexivity].
      * unfold top. rewrite He2. reflexivity.
      * apply flof_blk. unfold top. rewrite He3, He2. reflexivity.
      * reflexivity.
    + rewrite app_nil_r. reflexivity.
  - (* ENil *) intros st fl g f Hw _ -> ->. apply R_skip. exact Hw.
  - (* ECons *) intros e IHe r IHr st fl g f Hw Hfl Hg Hf. rewrite u_ECons.
    chain; [apply (IHe _ fl g f); side | apply (IHr _ fl g f); side | reflexivity | reflexivity | reflexivity | reflexivity].
  - (* ANil *) intros st ast fl g f Hw _ -> ->. rewrite u_ANil. apply R_skip. exact Hw.
  - (* APos *) intros n e IHe r IHr st ast fl g f Hw Hfl Hg Hf. rewrite u_APos. cbv zeta.
    match goal with |- context [expr_ opts W ?X e] => apply R_pre' with (st0 := X); [|intros Hw0 He0 Hg0 Hf0|exact Hw] end.
    { neu. }
    chain; [apply (IHe _ fl g f); side | apply (IHr _ _ fl g f); side | reflexivity | reflexivity | reflexivity | reflexivity].
  - (* ANamed *) intros n x e IHe r IHr st ast fl g f Hw Hfl Hg Hf. rewrite u_ANamed. cbv zeta.
    match goal with |- context [expr_ opts W ?X e] => apply R_pre' with (st0 := X); [|intros Hw0 He0 Hg0 Hf0|exact Hw] end.
    { neu. }
    chain; [apply (IHe _ fl g f); side | apply (IHr _ _ fl g f); side | reflexivity | reflexivity | reflexivity | reflexivity].
  - (* AStar *) intros n e IHe r IHr st ast fl g f Hw Hfl Hg Hf. rewrite u_AStar. cbv zeta.
    match goal with |- context [expr_ opts W ?X e] => apply R_pre' with (st0 := X); [|intros Hw0 He0 Hg0 Hf0|exact Hw] end.
    { neu. }
    chain; [apply (IHe _ fl g f); side | apply (IHr _ _ fl g f); side | reflexivity | reflexivity | reflexivity | reflexivity].
  - (* AStarStar *) intros n e IHe r IHr st ast fl g f Hw Hfl Hg Hf. rewrite u_AStarStar. cbv zeta.
    match goal with |- context [expr_ opts W ?X e] => apply R_pre' with (st0 := X); [|intros Hw0 He0 Hg0 Hf0|exact Hw] end.
    { neu. }
    chain; [apply (IHe _ fl g f); side | apply (IHr _ _ fl g f); side | reflexivity | reflexivity | reflexivity | reflexivity].
  - (* PNil *) split; [intros st fl g f Hw _ -> ->; apply R_skip; exact Hw|].
    intros st p g f Hw Ht -> ->. rewrite u_pNil. cbv zeta. unfold pstar, pss.
    destruct (p_star p) as [[n [[an ax]|]]|]; destruct (p_starstar p) as [[nn x]|]; simpl.
    + chain; [apply (R_bind_dup_blk opts W st an ax an); auto
             | rewrite <- Hg1, <- Hf1; apply (R_bind_dup_blk opts W _ nn x nn); [exact Hw1|eapply top_tr; eauto]
             | reflexivity | reflexivity | reflexivity | reflexivity].
    + eapply R_ns; [|apply R_bind_dup_blk; auto]. reflexivity.
    + apply R_pre' with (st0 := if p_nkw p =? 0 then errorf st RParBareStar n else st); [neu| |exact Hw].
      intros Hw0 He0 Hg0 Hf0. rewrite <- Hg0, <- Hf0. apply R_bind_dup_blk; auto. eapply top_tr; eauto.
    + apply R_neutral; auto. neu.
    + apply R_bind_dup_blk; auto.
    + apply R_skip; auto.
  - (* PId *) intros n x r [IHd IHp]. split; [intros st fl g f Hw Hfl Hg Hf; rewrite u_dId; apply IHd; auto|].
    intros st p g f Hw Ht Hg Hf. rewrite u_pId. cbv zeta.
    match goal with |- context [bind_dup opts ?X n x n] => apply R_pre' with (st0 := X); [|intros Hw0 He0 Hg0 Hf0|exact Hw] end.
    { neu. }
    chain; [apply (R_bind_dup_blk opts W _ n x n); [exact Hw0|eapply top_tr; eauto] | apply (IHp _ _ g f); try side | reflexivity | reflexivity | reflexivity | reflexivity].
  - (* PDef *) intros n x d IHe r [IHd IHp]. split.
    + intros st fl g f Hw Hfl Hg Hf. rewrite u_dDef.
      chain; [apply (IHe _ fl g f); side | apply (IHd _ fl g f); side | reflexivity | reflexivity | reflexivity | reflexivity].
    + intros st p g f Hw Ht Hg Hf. rewrite u_pDef. cbv zeta.
      match goal with |- context [bind_dup opts ?X n x n] => apply R_pre' with (st0 := X); [|intros Hw0 He0 Hg0 Hf0|exact Hw] end.
      { neu. }
      chain; [apply (R_bind_dup_blk opts W _ n x n); [exact Hw0|eapply top_tr; eauto] | apply (IHp _ _ g f); try side | reflexivity | reflexivity | reflexivity | reflexivity].
    - (* PStar *) intros n name r [IHd IHp]. split; [intros st fl g f Hw Hfl Hg Hf; rewrite u_dStar; apply IHd; auto|].
    intros st p g f Hw Ht Hg Hf. rewrite u_pStar. unfold pstar, pss.
    destruct (p_starstar p) as [[nn x]|] eqn:Ess; [|destruct (p_star p) as [[n0 nm0]|] eqn:Est]; simpl.
    + apply R_pre' with (st0 := errorf st RParStarAfterKwargs n); [neu| |exact Hw].
      intros Hw0 He0 Hg0 Hf0. pose proof (IHp (errorf st RParStarAfterKwargs n) p g f Hw0) as H.
      unfold pstar, pss in H. rewrite Ess in H. apply H; try side.
    + apply R_pre' with (st0 := errorf st RParMultipleStar n); [neu| |exact Hw].
      intros Hw0 He0 Hg0 Hf0. pose proof (IHp (errorf st RParMultipleStar n) p g f Hw0) as H.
      unfold pstar, pss in H. rewrite Ess, Est in H. apply H; try side.
    + match goal with |- context [params_ opts W st ?P r] => pose proof (IHp st P g f Hw Ht Hg Hf) as H end.
      unfold pstar, pss in H. simpl in H. try rewrite Ess in H. exact H.
  - (* PStarStar *) intros n nn x r [IHd IHp]. split; [intros st fl g f Hw Hfl Hg Hf; rewrite u_dSS; apply IHd; auto|].
    intros st p g f Hw Ht Hg Hf. rewrite u_pSS. cbv zeta.
    match goal with |- context [params_ opts W ?X ?P r] => apply R_pre' with (st0 := X); [|intros Hw0 He0 Hg0 Hf0|exact Hw];
      [|pose proof (IHp X P g f Hw0) as H] end.
    { neu. }
    unfold pstar, pss in *. simpl in H. apply H; try side.
  - (* CNil *) intros st g f Hw _ -> ->. apply R_skip. exact Hw.
  - (* CFor *) intros vars IHv iter IHi r IHr st g f Hw Ht Hg Hf. rewrite u_CFor.
    chain; [apply (IHv _ false g f); side | | reflexivity | reflexivity | reflexivity | reflexivity].
    eapply R_then_eq; [exact Hw1 | apply (IHi _ None g f); try side | intros Hw2 He2 Hg2 Hf2; apply (IHr _ g f); try side | reflexivity | reflexivity | reflexivity | reflexivity].
    all: try (apply flof_blk; eapply top_tr; eauto).
  - (* CIf *) intros c IHc r IHr st g f Hw Ht Hg Hf. rewrite u_CIf.
    chain; [apply (IHc _ None g f); try side | apply (IHr _ g f); try side | reflexivity | reflexivity | reflexivity | reflexivity].
    all: try (apply flof_blk; exact Ht).
  - (* LId *) intros n x st aug g f Hw Ht -> ->. rewrite u_LId. apply R_bind_blk; auto.
  - (* LSeq *) intros n ls IH st aug g f Hw Ht Hg Hf. rewrite u_LSeq.
    apply R_pre' with (st0 := if aug then errorf st RAugSeq n else st); [neu| |exact Hw].
    intros Hw0 He0 Hg0 Hf0. apply (IH _ _ g f); try side.
  - (* LExpr *) intros es IH st aug g f Hw Ht Hg Hf. rewrite u_LExpr. apply (IH _ None g f); auto. apply flof_blk. exact Ht.
  - (* LBad *) intros n st aug g f Hw Ht -> ->. rewrite u_LBad. apply R_neutral; auto. neu.
  - (* LNil *) intros st aug g f Hw _ -> ->. apply R_skip. exact Hw.
  - (* LCons *) intros l IHl r IHr st aug g f Hw Ht Hg Hf. rewrite u_LCons.
    chain; [apply (IHl _ aug g f); side | apply (IHr _ aug g f); try side | reflexivity | reflexivity | reflexivity | reflexivity].
Qed.

Definition to_names (items : list (N * string * N * string)) : list string :=
  map (fun it => match it with (_, _, _, to) => to end) items.

Lemma R_load_blk items : forall st g f, WF st -> top st = false -> g = globals st -> f = fileb st ->
  R st (load_items opts st items) (to_names items) [] g f [] (tn_names items).
Proof.
  induction items as [|[[[fn from] tn] to] items IH]; intros st g f Hw Ht Hg Hf; simpl load_items.
  - subst. apply R_skip. exact Hw.
  - match goal with |- context [bindLocal ?X tn to] => apply R_pre' with (st0 := X); [neu|intros Hw0 He0 Hg0 Hf0|exact Hw] end.
    destruct (o_load_binds_globally opts).
    + eapply R_then_eq with (S1 := [tn]);
        [exact Hw0 | eapply R_weakS; [apply (R_bind_blk opts W _ tn to); [exact Hw0|side]|intros y []]
        | intros Hw1 He1 Hg1 Hf1; apply (IH _ g f); try side | reflexivity | reflexivity | reflexivity | reflexivity].
    + cbv zeta.
      match goal with |- context [load_items opts ?Y items] => eapply R_then_eq with (st1 := Y) (S1 := [tn]) end;
        [exact Hw0 | apply (R_slack opts W _ _ _ _ _ _ _ [] _ tn); apply (R_bindLocal_blk opts W _ tn to); [exact Hw0|side]
        | intros Hw1 He1 Hg1 Hf1; apply (IH _ g f); try side | reflexivity | reflexivity | reflexivity | reflexivity].
Qed.

Definition PS (s : stmt) : Prop := forall st g f, WF st -> top st = false -> g = globals st -> f = fileb st ->
  R st (stmt_ opts W st s) (bound_stmt s) (uses_stmt s) g f [] (fn_loads_stmt s).
Definition PSs (ss : stmts) : Prop := forall st g f, WF st -> top st = false -> g = globals st -> f = fileb st ->
  R st (stmts_ opts W st ss) (bound_stmts ss) (uses_stmts ss) g f [] (fn_loads_stmts ss).

Ltac post_neu :=
  match goal with |- ProofsScopeDefs2.R _ _ _ (_ ?Y _) _ _ _ _ _ _ => apply R_post with (st1 := Y); [|neu] end.

Theorem walk_scope_stmts_blk : (forall s, PS s) /\ (forall ss, PSs ss).
Proof.
  destruct walk_scope_exprs as (WE & WEs & WA & WP & WC & WL & WLs).
  apply stmt_mutind.
  - (* SExpr *) intros e st g f Hw Ht Hg Hf. rewrite u_SExpr. apply (WE e _ None g f); side.
  - (* SBranch *) intros n st g f Hw Ht -> ->. rewrite u_SBranch. apply R_neutral; auto. neu.
  - (* SIf *) intros n c t IHt e IHe st g f Hw Ht Hg Hf. rewrite u_SIf. cbv zeta. post_neu.
    apply R_pre' with (st0 := gate opts st RIfToplevel n); [neu|intros Hw0 He0 Hg0 Hf0|exact Hw].
    eapply R_then_eq; [exact Hw0 | apply (WE c _ None g f); side | intros Hw1 He1 Hg1 Hf1 | reflexivity | reflexivity | reflexivity | reflexivity].
    match goal with |- context [stmts_ opts W ?X t] => apply R_pre' with (st0 := X); [neu|intros Hw2 He2 Hg2 Hf2|exact Hw1] end.
    eapply R_then_eq; [exact Hw2 | apply (IHt _ g f); side | intros Hw3 He3 Hg3 Hf3; apply (IHe _ g f); side
                      | reflexivity | reflexivity | reflexivity | reflexivity].
  - (* SAssign *) intros aug l e st g f Hw Ht Hg Hf. rewrite u_SAssign.
    eapply R_then_eq; [exact Hw | apply (WE e _ None g f); side | intros Hw1 He1 Hg1 Hf1; apply (WL l _ aug g f); side
                      | reflexivity | reflexivity | reflexivity | reflexivity].
  - (* SDef *) intros n nn x ps body IHb st g f Hw Ht Hg Hf. rewrite u_SDef. cbv zeta. destruct (WP ps) as [WPd WPp].
    eapply R_then_eq; [exact Hw | apply (R_bind_blk opts W st nn x); side | intros Hw1 He1 Hg1 Hf1 | reflexivity | reflexivity | reflexivity | reflexivity].
    eapply R_then_eq; [exact Hw1 | apply (WPd _ None g f); side | intros Hw2 He2 Hg2 Hf2 | reflexivity | reflexivity | reflexivity | reflexivity].
    apply R_fn; [exact Hw2|]. pose proof (WF_enter W _ Hw2) as Hwe.
    eapply R_then_eq; [exact Hwe | apply (WPp _ p0 g f); side | intros Hw3 He3 Hg3 Hf3; apply (IHb _ g f); try side
                      | reflexivity | reflexivity | reflexivity | reflexivity].
    unfold top. rewrite He3. reflexivity.
  - (* SFor *) intros n vars iter body IHb st g f Hw Ht Hg Hf. rewrite u_SFor. cbv zeta. post_neu.
    apply R_pre' with (st0 := gate opts st RForToplevel n); [neu|intros Hw0 He0 Hg0 Hf0|exact Hw].
    eapply R_then_eq; [exact Hw0 | apply (WE iter _ None g f); side | intros Hw1 He1 Hg1 Hf1 | reflexivity | reflexivity | reflexivity | reflexivity].
    eapply R_then_eq; [exact Hw1 | apply (WL vars _ false g f); side | intros Hw2 He2 Hg2 Hf2 | reflexivity | reflexivity | reflexivity | reflexivity].
    match goal with |- context [stmts_ opts W ?X body] => apply R_pre' with (st0 := X); [neu|intros Hw3 He3 Hg3 Hf3|exact Hw2] end.
    apply (IHb _ g f); side.
  - (* SWhile *) intros n c body IHb st g f Hw Ht Hg Hf. rewrite u_SWhile. cbv zeta. post_neu.
    match goal with |- context [expr_ opts W ?X c] => apply R_pre' with (st0 := X); [neu|intros Hw0 He0 Hg0 Hf0|exact Hw] end.
    eapply R_then_eq; [exact Hw0 | apply (WE c _ None g f); side | intros Hw1 He1 Hg1 Hf1 | reflexivity | reflexivity | reflexivity | reflexivity].
    match goal with |- context [stmts_ opts W ?X body] => apply R_pre' with (st0 := X); [neu|intros Hw3 He3 Hg3 Hf3|exact Hw1] end.
    apply (IHb _ g f); side.
  - (* SReturn *) intros n e st g f Hw Ht Hg Hf. rewrite u_SReturn. cbv zeta.
    apply R_pre' with (st0 := if negb (in_function st) then errorf st RReturnToplevel n else st);
      [neu|intros Hw0 He0 Hg0 Hf0|exact Hw].
    destruct e as [e|].
    + apply (WE e _ None g f); side.
    + rewrite <- Hg0 in Hg. rewrite <- Hf0 in Hf. subst g f. apply R_skip. exact Hw0.
  - (* SLoad *) intros n items st g f Hw Ht Hg Hf. rewrite u_SLoad.
    match goal with |- context [load_items opts ?X items] => apply R_pre' with (st0 := X); [neu|intros Hw0 He0 Hg0 Hf0|exact Hw] end.
    apply (R_load_blk items _ g f); side.
  - (* SNil *) intros st g f Hw _ -> ->. apply R_skip. exact Hw.
  - (* SCons *) intros s IHs r IHr st g f Hw Ht Hg Hf. rewrite u_SCons.
    eapply R_then_eq; [exact Hw | apply (IHs _ g f); side | intros Hw1 He1 Hg1 Hf1; apply (IHr _ g f); side
                      | reflexivity | reflexivity | reflexivity | reflexivity].
Qed.

(* ---- file level ---- *)
Lemma snd_t_bind_LId g f n x : snd (t_bind opts g f (LId n x)) = addg g f x.
Proof.
  unfold addg.
  change (t_bind opts g f (LId n x)) with
    (if smem x f || smem x g then (when (negb (o_global_reassign opts)) RReassign n, g) else ([], g ++ [x])).
  destruct (smem x f || smem x g); reflexivity.
Qed.

Lemma snd_t_load_cons g f fn from tn to items :
  snd (t_load opts g f ((fn, from, tn, to) :: items)) =
  if o_load_binds_globally opts then snd (t_load opts (addg g f to) f items)
  else if smem to f then snd (t_load opts g f items) else snd (t_load opts g (f ++ [to]) items).
Proof.
  change (t_load opts g f ((fn, from, tn, to) :: items)) with
    (if o_load_binds_globally opts then
       let a := t_bind opts g f (LId tn to) in
       let b := t_load opts (snd a) f items in (fst a ++ fst b, snd b)
     else if smem to f then
       let b := t_load opts g f items in (when (negb (o_global_reassign opts)) RLoadReassign tn ++ fst b, snd b)
     else t_load opts g (f ++ [to]) items).
  destruct (o_load_binds_globally opts).
  - cbv zeta. simpl snd. rewrite snd_t_bind_LId. reflexivity.
  - destruct (smem to f); reflexivity.
Qed.

Lemma fst_t_load_cons g f fn from tn to items :
  fst (t_load opts g f ((fn, from, tn, to) :: items)) =
  if o_load_binds_globally opts then fst (t_bind opts g f (LId tn to)) ++ fst (t_load opts (addg g f to) f items)
  else if smem to f then when (negb (o_global_reassign opts)) RLoadReassign tn ++ fst (t_load opts g f items)
       else fst (t_load opts g (f ++ [to]) items).
Proof.
  change (t_load opts g f ((fn, from, tn, to) :: items)) with
    (if o_load_binds_globally opts then
       let a := t_bind opts g f (LId tn to) in
       let b := t_load opts (snd a) f items in (fst a ++ fst b, snd b)
     else if smem to f then
       let b := t_load opts g f items in (when (negb (o_global_reassign opts)) RLoadReassign tn ++ fst b, snd b)
     else t_load opts g (f ++ [to]) items).
  destruct (o_load_binds_globally opts).
  - cbv zeta. simpl fst. rewrite snd_t_bind_LId. reflexivity.
  - destruct (smem to f); reflexivity.
Qed.

Lemma R_load_top items : forall st g f, WF st -> top st = true -> g = globals st -> f = fileb st ->
  R st (load_items opts st items) (to_names items) []
    (fst (snd (t_load opts g f items))) (snd (snd (t_load opts g f items))) (fst (t_load opts g f items)) [].
Proof.
  induction items as [|[[[fn from] tn] to] items IH]; intros st g f Hw Ht Hg Hf.
  - simpl. subst. apply R_skip. exact Hw.
  - rewrite snd_t_load_cons, fst_t_load_cons. simpl load_items.
    match goal with |- context [bindLocal ?X tn to] => apply R_pre' with (st0 := X); [neu|intros Hw0 He0 Hg0 Hf0|exact Hw] end.
    rewrite Hg, Hf, <- Hg0, <- Hf0.
    assert (Ht0 : top (if starts_with_underscore from then errorf st RLoadUnderscore fn else st) = true)
      by (eapply top_tr; eauto).
    destruct (o_load_binds_globally opts).
    + eapply R_then_eq; [exact Hw0 | apply (R_bind_top opts W _ tn to); [exact Hw0|exact Ht0]
                        | intros Hw1 He1 Hg1 Hf1 | reflexivity | reflexivity | reflexivity | reflexivity].
      apply (IH _ _ _ Hw1); side.
    + cbv zeta.
      pose proof (R_loadre_top opts W _ tn to Hw0 Ht0) as HL.
      destruct (smem to (fileb (if starts_with_underscore from then errorf st RLoadUnderscore fn else st))) eqn:Em.
      * match goal with |- context [load_items opts ?Y items] => eapply R_then_eq with (st1 := Y) end;
          [exact Hw0 | exact HL | intros Hw1 He1 Hg1 Hf1; apply (IH _ _ _ Hw1); side
          | reflexivity | reflexivity | reflexivity | reflexivity].
      * match goal with |- context [load_items opts ?Y items] => eapply R_then_eq with (st1 := Y) end;
          [exact Hw0 | exact HL | intros Hw1 He1 Hg1 Hf1; apply (IH _ _ _ Hw1); side
          | reflexivity | reflexivity | reflexivity | reflexivity].
Qed.

Definition PLt (l : lhs) : Prop := forall st aug g f, WF st -> top st = true -> g = globals st -> f = fileb st ->
  R st (assign_ opts W st aug l) (lhs_names l) (fst (tu_lhs opts g f l)) (snd (tu_lhs opts g f l)) f (re_lhs opts g f l) [].
Definition PLst (ls : lhss) : Prop := forall st aug g f, WF st -> top st = true -> g = globals st -> f = fileb st ->
  R st (assigns_ opts W st aug ls) (lhss_names ls) (fst (tu_lhss opts g f ls)) (snd (tu_lhss opts g f ls)) f (re_lhss opts g f ls) [].

Lemma walk_lhs_top : (forall l, PLt l) /\ (forall ls, PLst ls).
Proof.
  destruct walk_scope_exprs as (WE & WEs & WA & WP & WC & WL & WLs).
  assert (H : (forall e : expr, True) /\ (forall es : exprs, True) /\ (forall a : args, True) /\
              (forall p : params, True) /\ (forall c : clauses, True) /\ (forall l, PLt l) /\ (forall ls, PLst ls)).
  { apply expr_mutind; auto.
    - intros n x st aug g f Hw Ht -> ->. rewrite u_LId. apply R_bind_top; auto.
    - intros n ls IH st aug g f Hw Ht Hg Hf. rewrite u_LSeq.
      apply R_pre' with (st0 := if aug then errorf st RAugSeq n else st); [neu| |exact Hw].
      intros Hw0 He0 Hg0 Hf0. apply (IH _ aug g f); side.
    - intros es _ st aug g f Hw Ht Hg Hf. rewrite u_LExpr. simpl.
      pose proof (WEs es st (fl_of opts g f) g f Hw) as H. subst f. apply H; side.
    - intros n st aug g f Hw Ht -> ->. rewrite u_LBad. apply R_neutral; auto. neu.
    - intros st aug g f Hw _ -> ->. apply R_skip. exact Hw.
    - intros l IHl r IHr st aug g f Hw Ht Hg Hf. rewrite u_LCons.
      eapply R_then_eq; [exact Hw | apply (IHl _ aug g f); side
                        | intros Hw1 He1 Hg1 Hf1; apply (IHr _ aug (snd (tu_lhs opts g f l)) f); side
                        | reflexivity | reflexivity | reflexivity | reflexivity]. }
  tauto.
Qed.

Definition PT (s : stmt) : Prop := forall st g f, WF st -> top st = true -> g = globals st -> f = fileb st ->
  R st (stmt_ opts W st s) (bound_stmt s) (fst (tu_stmt opts g f s))
    (fst (snd (tu_stmt opts g f s))) (snd (snd (tu_stmt opts g f s)))
    (re_stmt opts g f s) (top_fn_loads_stmt s).
Definition PTs (ss : stmts) : Prop := forall st g f, WF st -> top st = true -> g = globals st -> f = fileb st ->
  R st (stmts_ opts W st ss) (bound_stmts ss) (fst (tu_stmts opts g f ss))
    (fst (snd (tu_stmts opts g f ss))) (snd (snd (tu_stmts opts g f ss)))
    (re_stmts opts g f ss) (top_fn_loads_stmts ss).

Theorem walk_scope_stmts_top : (forall s, PT s) /\ (forall ss, PTs ss).
Proof.
  destruct walk_scope_exprs as (WE & WEs & WA & WP & WC & WL & WLs).
  destruct walk_scope_stmts_blk as (WS & WSs).
  destruct walk_lhs_top as (WLt & WLst).
  apply stmt_mutind.
  - (* SExpr *) intros e st g f Hw Ht Hg Hf. rewrite u_SExpr. apply (WE e _ (fl_of opts g f) g f); side.
  - (* SBranch *) intros n st g f Hw Ht -> ->. rewrite u_SBranch. apply R_neutral; auto. neu.
  - (* SIf *) intros n c t IHt e IHe st g f Hw Ht Hg Hf. rewrite u_SIf. cbv zeta. post_neu.
    apply R_pre' with (st0 := gate opts st RIfToplevel n); [neu|intros Hw0 He0 Hg0 Hf0|exact Hw].
    eapply R_then_eq; [exact Hw0 | apply (WE c _ (fl_of opts g f) g f); side | intros Hw1 He1 Hg1 Hf1 | reflexivity | reflexivity | reflexivity | reflexivity].
    match goal with |- context [stmts_ opts W ?X t] => apply R_pre' with (st0 := X); [neu|intros Hw2 He2 Hg2 Hf2|exact Hw1] end.
    eapply R_then_eq; [exact Hw2 | apply (IHt _ g f); side
                      | intros Hw3 He3 Hg3 Hf3;
                        apply (IHe _ (fst (snd (tu_stmts opts g f t))) (snd (snd (tu_stmts opts g f t)))); side
                      | reflexivity | reflexivity | reflexivity | reflexivity].
  - (* SAssign *) intros aug l e st g f Hw Ht Hg Hf. rewrite u_SAssign.
    eapply R_then_eq; [exact Hw | apply (WE e _ (fl_of opts g f) g f); side
                      | intros Hw1 He1 Hg1 Hf1; apply (WLt l _ aug g f); side
                      | reflexivity | reflexivity | reflexivity | reflexivity].
  - (* SDef *) intros n nn x ps body IHb st g f Hw Ht Hg Hf. rewrite u_SDef. cbv zeta. destruct (WP ps) as [WPd WPp].
    eapply R_then_eq; [exact Hw | apply (R_bind_top opts W st nn x); side | intros Hw1 He1 Hg1 Hf1 | reflexivity | reflexivity | | reflexivity].
    2:{ rewrite Hg, Hf. simpl. rewrite app_nil_r. reflexivity. }
    rewrite <- Hg, <- Hf in *.
    eapply R_then_eq; [exact Hw1 | apply (WPd _ (fl_of opts (addg g f x) f) (addg g f x) f); side
                      | intros Hw2 He2 Hg2 Hf2 | reflexivity | reflexivity | reflexivity | reflexivity].
    apply R_fn; [exact Hw2|]. pose proof (WF_enter W _ Hw2) as Hwe.
    eapply R_then_eq; [exact Hwe | apply (WPp _ p0 (addg g f x) f); side
                      | intros Hw3 He3 Hg3 Hf3; apply (WSs body _ (addg g f x) f); try side
                      | reflexivity | reflexivity | reflexivity | reflexivity].
    unfold top. rewrite He3. reflexivity.
  - (* SFor *) intros n vars iter body IHb st g f Hw Ht Hg Hf. rewrite u_SFor. cbv zeta. post_neu.
    apply R_pre' with (st0 := gate opts st RForToplevel n); [neu|intros Hw0 He0 Hg0 Hf0|exact Hw].
    eapply R_then_eq; [exact Hw0 | apply (WE iter _ (fl_of opts g f) g f); side | intros Hw1 He1 Hg1 Hf1 | reflexivity | reflexivity | reflexivity | reflexivity].
    eapply R_then_eq; [exact Hw1 | apply (WLt vars _ false g f); side | intros Hw2 He2 Hg2 Hf2 | reflexivity | reflexivity | reflexivity | reflexivity].
    match goal with |- context [stmts_ opts W ?X body] => apply R_pre' with (st0 := X); [neu|intros Hw3 He3 Hg3 Hf3|exact Hw2] end.
    apply (IHb _ (snd (tu_lhs opts g f vars)) f); side.
  - (* SWhile *) intros n c body IHb st g f Hw Ht Hg Hf. rewrite u_SWhile. cbv zeta. post_neu.
    match goal with |- context [expr_ opts W ?X c] => apply R_pre' with (st0 := X); [neu|intros Hw0 He0 Hg0 Hf0|exact Hw] end.
    eapply R_then_eq; [exact Hw0 | apply (WE c _ (fl_of opts g f) g f); side | intros Hw1 He1 Hg1 Hf1 | reflexivity | reflexivity | reflexivity | reflexivity].
    match goal with |- context [stmts_ opts W ?X body] => apply R_pre' with (st0 := X); [neu|intros Hw3 He3 Hg3 Hf3|exact Hw1] end.
    apply (IHb _ g f); side.
  - (* SReturn *) intros n e st g f Hw Ht Hg Hf. rewrite u_SReturn. cbv zeta.
    apply R_pre' with (st0 := if negb (in_function st) then errorf st RReturnToplevel n else st);
      [neu|intros Hw0 He0 Hg0 Hf0|exact Hw].
    destruct e as [e|].
    + apply (WE e _ (fl_of opts g f) g f); side.
    + rewrite <- Hg0 in Hg. rewrite <- Hf0 in Hf. subst g f. apply R_skip. exact Hw0.
  - (* SLoad *) intros n items st g f Hw Ht Hg Hf. rewrite u_SLoad.
    match goal with |- context [load_items opts ?X items] => apply R_pre' with (st0 := X); [neu|intros Hw0 He0 Hg0 Hf0|exact Hw] end.
    apply (R_load_top items _ g f); side.
  - (* SNil *) intros st g f Hw _ -> ->. apply R_skip. exact Hw.
  - (* SCons *) intros s IHs r IHr st g f Hw Ht Hg Hf. rewrite u_SCons.
    eapply R_then_eq; [exact Hw | apply (IHs _ g f); side
                      | intros Hw1 He1 Hg1 Hf1;
                        apply (IHr _ (fst (snd (tu_stmt opts g f s))) (snd (snd (tu_stmt opts g f s)))); side
                      | reflexivity | reflexivity | reflexivity | reflexivity].
Qed.

End Wk.
