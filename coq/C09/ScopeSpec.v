(* C09 -- the scoping rule "undefined name" as a declarative specification over
   the identifier occurrences of a program, in the form the proofs of
   ProofsScope*.v use (Spec.scope_viol is the executable oracle of the check; the
   two are proved equal on regular programs in ProofsScopeBridge.v and differ in
   two corners, see there).  No proofs here.

   Every identifier USE of the program is listed with its static context:
     s_rel  the binding sets of the function / comprehension blocks that enclose
            it, innermost first; a block binds a name if it binds it ANYWHERE in
            its body (parameters, assignment / for / def / load targets;
            comprehension variables for a comprehension block);
     s_fl   Some sofar  for a use at file level (outside every block) under
            GlobalReassign: the names bound at file level SO FAR, in execution
            order (the legacy semantics the option carries);
            None        otherwise: the use sees every name bound at file level
            anywhere in the module.
   The use is UNBOUND when no enclosing block binds the name, no file-level
   binding is visible, and the name is neither predeclared nor universal. *)
From Coq Require Import String Ascii List Bool Arith NArith.
From SV Require Import C09.Syntax C09.Spec.
Import ListNotations.

Record suse := mkU { s_n : N; s_x : string; s_rel : list (list string); s_fl : option (list string) }.

(* the use is inside one more block, whose binding set is ns *)
Definition under (ns : list string) (u : suse) : suse :=
  {| s_n := s_n u; s_x := s_x u; s_rel := s_rel u ++ [ns]; s_fl := s_fl u |}.

(* The names a parameter list binds: the ordinary parameters, the first * parameter
   (unless a ** precedes it), the last ** parameter.  (A second * or a * after **
   is an error of the parameter-list rules and binds nothing.)
   star = Some nm: a * was seen (nm its name, if any); ss = the last ** name so far. *)
Fixpoint pn (star : option (option string)) (ss : option string) (ps : params) : list string :=
  match ps with
  | PNil => match star with Some (Some a) => [a] | _ => [] end ++ match ss with Some k => [k] | None => [] end
  | PId _ x r | PDef _ x _ r => x :: pn star ss r
  | PStar _ nm r =>
      match ss, star with
      | Some _, _ => pn star ss r
      | None, Some _ => pn star ss r
      | None, None => pn (Some (option_map snd nm)) ss r
      end
  | PStarStar _ _ x r => pn star (Some x) r
  end.
Definition bound_params (ps : params) : list string := pn None None ps.

(* ---- uses of expressions; fl = what a use directly at this level sees ---- *)
Fixpoint uses_expr (fl : option (list string)) (e : expr) {struct e} : list suse :=
  match e with
  | EId n x => [mkU n x [] fl]
  | ELit => []
  | EOp es => uses_exprs fl es
  | ECall _ f a => uses_expr fl f ++ uses_args fl a
  | ELambda _ ps body => uses_defaults fl ps ++ map (under (bound_params ps)) (uses_expr None body)
  | EComp _ iter vars cl body =>
      uses_expr fl iter ++
      map (under (lhs_names vars ++ clause_names cl)) (uses_lhs vars ++ uses_clauses cl ++ uses_expr None body)
  end
with uses_exprs (fl : option (list string)) (es : exprs) {struct es} : list suse :=
  match es with ENil => [] | ECons e r => uses_expr fl e ++ uses_exprs fl r end
with uses_args (fl : option (list string)) (a : args) {struct a} : list suse :=
  match a with
  | ANil => []
  | APos _ e r | ANamed _ _ e r | AStar _ e r | AStarStar _ e r => uses_expr fl e ++ uses_args fl r
  end
(* default values are evaluated in the enclosing block *)
with uses_defaults (fl : option (list string)) (ps : params) {struct ps} : list suse :=
  match ps with
  | PNil => []
  | PId _ _ r | PStar _ _ r | PStarStar _ _ _ r => uses_defaults fl r
  | PDef _ _ d r => uses_expr fl d ++ uses_defaults fl r
  end
with uses_clauses (cl : clauses) {struct cl} : list suse :=
  match cl with
  | CNil => []
  | CFor vars iter r => uses_lhs vars ++ uses_expr None iter ++ uses_clauses r
  | CIf c r => uses_expr None c ++ uses_clauses r
  end
(* the uses inside an assignment target (x[i] = .., x.f = ..), inside a block *)
with uses_lhs (l : lhs) {struct l} : list suse :=
  match l with
  | LId _ _ => []
  | LSeq _ ls => uses_lhss ls
  | LExpr es => uses_exprs None es
  | LBad _ => []
  end
with uses_lhss (ls : lhss) {struct ls} : list suse :=
  match ls with LNil => [] | LCons l r => uses_lhs l ++ uses_lhss r end.

(* ---- statements inside a function ---- *)
Fixpoint uses_stmt (s : stmt) {struct s} : list suse :=
  match s with
  | SExpr e => uses_expr None e
  | SBranch _ => []
  | SIf _ c t f => uses_expr None c ++ uses_stmts t ++ uses_stmts f
  | SAssign _ l e => uses_expr None e ++ uses_lhs l
  | SDef _ _ _ ps body =>
      uses_defaults None ps ++ map (under (bound_params ps ++ bound_stmts body)) (uses_stmts body)
  | SFor _ vars iter body => uses_expr None iter ++ uses_lhs vars ++ uses_stmts body
  | SWhile _ c body => uses_expr None c ++ uses_stmts body
  | SReturn _ e => match e with Some e => uses_expr None e | None => [] end
  | SLoad _ _ => []
  end
with uses_stmts (ss : stmts) {struct ss} : list suse :=
  match ss with SNil => [] | SCons s r => uses_stmt s ++ uses_stmts r end.

Section Top.
Variable o : options.

(* a new global, unless the name is already bound at file level *)
Definition addg (g f : list string) (x : string) : list string :=
  if smem x f || smem x g then g else g ++ [x].

(* file level: g = globals bound so far, f = load-bound file-locals so far.
   The elements of a tuple target are bound left to right: in `x, y[x] = ..` the
   use of x follows its binding. *)
Fixpoint tu_lhs (g f : list string) (l : lhs) {struct l} : list suse * list string :=
  match l with
  | LId _ x => ([], addg g f x)
  | LSeq _ ls => tu_lhss g f ls
  | LExpr es => (uses_exprs (fl_of o g f) es, g)
  | LBad _ => ([], g)
  end
with tu_lhss (g f : list string) (ls : lhss) {struct ls} : list suse * list string :=
  match ls with
  | LNil => ([], g)
  | LCons l r => let a := tu_lhs g f l in let b := tu_lhss (snd a) f r in (fst a ++ fst b, snd b)
  end.

Fixpoint tu_stmt (g f : list string) (s : stmt) {struct s} : list suse * (list string * list string) :=
  match s with
  | SExpr e => (uses_expr (fl_of o g f) e, (g, f))
  | SBranch _ => ([], (g, f))
  | SIf _ c t e =>
      let a := tu_stmts g f t in
      let b := tu_stmts (fst (snd a)) (snd (snd a)) e in
      (uses_expr (fl_of o g f) c ++ fst a ++ fst b, snd b)
  | SAssign _ l e => let b := tu_lhs g f l in (uses_expr (fl_of o g f) e ++ fst b, (snd b, f))
  | SDef _ _ x ps body =>
      let g' := addg g f x in
      (uses_defaults (fl_of o g' f) ps ++ map (under (bound_params ps ++ bound_stmts body)) (uses_stmts body), (g', f))
  | SFor _ vars iter body =>
      let b := tu_lhs g f vars in
      let c := tu_stmts (snd b) f body in
      (uses_expr (fl_of o g f) iter ++ fst b ++ fst c, snd c)
  | SWhile _ c body => let b := tu_stmts g f body in (uses_expr (fl_of o g f) c ++ fst b, snd b)
  | SReturn _ e => (match e with Some e => uses_expr (fl_of o g f) e | None => [] end, (g, f))
  | SLoad _ items => ([], snd (t_load o g f items))
  end
with tu_stmts (g f : list string) (ss : stmts) {struct ss} : list suse * (list string * list string) :=
  match ss with
  | SNil => ([], (g, f))
  | SCons s r =>
      let a := tu_stmt g f s in
      let b := tu_stmts (fst (snd a)) (snd (snd a)) r in (fst a ++ fst b, snd b)
  end.

End Top.

(* every identifier use of the program, in source order *)
Definition uses_prog (o : options) (p : program) : list suse := fst (tu_stmts o [] [] p).

(* not a file-level name of `visible`, not predeclared, not universal *)
Definition tl_undefb (W : world) (visible : list string) (x : string) : bool :=
  negb (smem x visible) && negb (smem x (w_predeclared W)) && negb (smem x (w_universal W)).

Definition unboundb (W : world) (complete : list string) (u : suse) : bool :=
  match s_fl u with
  | Some sofar => tl_undefb W sofar (s_x u)
  | None => negb (existsb (smem (s_x u)) (s_rel u)) && tl_undefb W complete (s_x u)
  end.

(* the uses the scoping rules call undefined *)
Definition undefined_uses (o : options) (W : world) (p : program) : list suse :=
  filter (unboundb W (bound_stmts p)) (uses_prog o p).

(* ---- regular programs: where the oracle Spec.scope_viol lists exactly the undefined uses above
   (ProofsScopeBridge.v).  Two corners are excluded:
   - a parameter list with a superfluous * or ** (a static error of the parameter-list rules):
     the resolver does not bind its name, Spec.param_names lists it;
   - under GlobalReassign, a tuple target at file level with a use inside (x, y[x] = ..):
     the resolver binds the elements left to right, the oracle resolves the uses first. ---- *)
Definition set_eqb (a b : list string) : bool :=
  forallb (fun x => smem x b) a && forallb (fun x => smem x a) b.
Definition params_reg (ps : params) : bool := set_eqb (param_names ps) (bound_params ps).

Fixpoint reg_expr (e : expr) {struct e} : bool :=
  match e with
  | EId _ _ | ELit => true
  | EOp es => reg_exprs es
  | ECall _ f a => reg_expr f && reg_args a
  | ELambda _ ps body => params_reg ps && reg_params ps && reg_expr body
  | EComp _ iter vars cl body => reg_expr iter && reg_lhs vars && reg_clauses cl && reg_expr body
  end
with reg_exprs (es : exprs) {struct es} : bool :=
  match es with ENil => true | ECons e r => reg_expr e && reg_exprs r end
with reg_args (a : args) {struct a} : bool :=
  match a with
  | ANil => true
  | APos _ e r | ANamed _ _ e r | AStar _ e r | AStarStar _ e r => reg_expr e && reg_args r
  end
with reg_params (ps : params) {struct ps} : bool :=
  match ps with
  | PNil => true
  | PId _ _ r | PStar _ _ r | PStarStar _ _ _ r => reg_params r
  | PDef _ _ d r => reg_expr d && reg_params r
  end
with reg_clauses (cl : clauses) {struct cl} : bool :=
  match cl with
  | CNil => true
  | CFor vars iter r => reg_lhs vars && reg_expr iter && reg_clauses r
  | CIf c r => reg_expr c && reg_clauses r
  end
with reg_lhs (l : lhs) {struct l} : bool :=
  match l with
  | LId _ _ | LBad _ => true
  | LSeq _ ls => reg_lhss ls
  | LExpr es => reg_exprs es
  end
with reg_lhss (ls : lhss) {struct ls} : bool :=
  match ls with LNil => true | LCons l r => reg_lhs l && reg_lhss r end.

Fixpoint reg_stmt (s : stmt) {struct s} : bool :=
  match s with
  | SExpr e => reg_expr e
  | SBranch _ | SLoad _ _ => true
  | SIf _ c t f => reg_expr c && reg_stmts t && reg_stmts f
  | SAssign _ l e => reg_expr e && reg_lhs l
  | SDef _ _ _ ps body => params_reg ps && reg_params ps && reg_stmts body
  | SFor _ vars iter body => reg_expr iter && reg_lhs vars && reg_stmts body
  | SWhile _ c body => reg_expr c && reg_stmts body
  | SReturn _ e => match e with Some e => reg_expr e | None => true end
  end
with reg_stmts (ss : stmts) {struct ss} : bool :=
  match ss with SNil => true | SCons s r => reg_stmt s && reg_stmts r end.

Fixpoint no_use_lhs (l : lhs) {struct l} : bool :=
  match l with
  | LId _ _ | LBad _ => true
  | LSeq _ ls => no_use_lhss ls
  | LExpr _ => false
  end
with no_use_lhss (ls : lhss) {struct ls} : bool :=
  match ls with LNil => true | LCons l r => no_use_lhs l && no_use_lhss r end.
Definition flat_lhs (l : lhs) : bool := match l with LSeq _ ls => no_use_lhss ls | _ => true end.

(* the targets of the file-level statements *)
Fixpoint flat_stmt (s : stmt) {struct s} : bool :=
  match s with
  | SAssign _ l _ => flat_lhs l
  | SFor _ vars _ body => flat_lhs vars && flat_stmts body
  | SIf _ _ t f => flat_stmts t && flat_stmts f
  | SWhile _ _ body => flat_stmts body
  | _ => true
  end
with flat_stmts (ss : stmts) {struct ss} : bool :=
  match ss with SNil => true | SCons s r => flat_stmt s && flat_stmts r end.

Definition regular (o : options) (p : program) : bool :=
  reg_stmts p && (negb (o_global_reassign o) || flat_stmts p).

(* ---- rebinding at file level (RReassign, RLoadReassign) ----
   The reports are those of Spec.t_bind / Spec.t_load at the file-level binders, in
   execution order (g, f threaded as above). *)
Definition tn_names (items : list (N * string * N * string)) : list N :=
  map (fun it => match it with (_, _, tn, _) => tn end) items.

(* the load items inside function bodies: a load there is an error by itself
   (RLoadInFunction); its names go to the function block and the resolver may
   also report a rebinding there, about which the specification says nothing *)
Fixpoint fn_loads_stmt (s : stmt) {struct s} : list N :=
  match s with
  | SLoad _ items => tn_names items
  | SIf _ _ t f => fn_loads_stmts t ++ fn_loads_stmts f
  | SDef _ _ _ _ body | SFor _ _ _ body | SWhile _ _ body => fn_loads_stmts body
  | _ => []
  end
with fn_loads_stmts (ss : stmts) {struct ss} : list N :=
  match ss with SNil => [] | SCons s r => fn_loads_stmt s ++ fn_loads_stmts r end.

Fixpoint top_fn_loads_stmt (s : stmt) {struct s} : list N :=
  match s with
  | SDef _ _ _ _ body => fn_loads_stmts body
  | SIf _ _ t f => top_fn_loads_stmts t ++ top_fn_loads_stmts f
  | SFor _ _ _ body | SWhile _ _ body => top_fn_loads_stmts body
  | _ => []
  end
with top_fn_loads_stmts (ss : stmts) {struct ss} : list N :=
  match ss with SNil => [] | SCons s r => top_fn_loads_stmt s ++ top_fn_loads_stmts r end.

Section Re.
Variable o : options.

Fixpoint re_lhs (g f : list string) (l : lhs) {struct l} : list (rule * N) :=
  match l with
  | LId n x => fst (t_bind o g f (LId n x))
  | LSeq _ ls => re_lhss g f ls
  | _ => []
  end
with re_lhss (g f : list string) (ls : lhss) {struct ls} : list (rule * N) :=
  match ls with
  | LNil => []
  | LCons l r => re_lhs g f l ++ re_lhss (snd (tu_lhs o g f l)) f r
  end.

Fixpoint re_stmt (g f : list string) (s : stmt) {struct s} : list (rule * N) :=
  match s with
  | SAssign _ l _ => re_lhs g f l
  | SDef _ nn x _ _ => fst (t_bind o g f (LId nn x))
  | SFor _ vars _ body => re_lhs g f vars ++ re_stmts (snd (tu_lhs o g f vars)) f body
  | SIf _ _ t e =>
      re_stmts g f t ++ re_stmts (fst (snd (tu_stmts o g f t))) (snd (snd (tu_stmts o g f t))) e
  | SWhile _ _ body => re_stmts g f body
  | SLoad _ items => fst (t_load o g f items)
  | _ => []
  end
with re_stmts (g f : list string) (ss : stmts) {struct ss} : list (rule * N) :=
  match ss with
  | SNil => []
  | SCons s r => re_stmt g f s ++ re_stmts (fst (snd (tu_stmt o g f s))) (snd (snd (tu_stmt o g f s))) r
  end.

End Re.

(* the rebinding reports of the program *)
Definition rebindings (o : options) (p : program) : list (rule * N) := re_stmts o [] [] p.

(* ---- `set` without the Set option (RSetUnsupported): the uses of the name `set` that resolve
   to the universal name (bound by no enclosing block, by no visible file-level binding, not
   predeclared), when the option is off ---- *)
Definition set_useb (W : world) (complete : list string) (u : suse) : bool :=
  String.eqb (s_x u) "set" && negb (smem (s_x u) (w_predeclared W)) && smem (s_x u) (w_universal W) &&
  match s_fl u with
  | Some sofar => negb (smem (s_x u) sofar)
  | None => negb (existsb (smem (s_x u)) (s_rel u)) && negb (smem (s_x u) complete)
  end.
Definition set_uses (o : options) (W : world) (p : program) : list suse :=
  if o_set o then [] else filter (set_useb W (bound_stmts p)) (uses_prog o p).

(* ---- no static rule is broken: the 30 rules of Spec.viol, no undefined use, no use of `set`
   without the option, no rebinding at file level ---- *)
Definition no_rule_broken (o : options) (W : world) (p : program) : Prop :=
  viol o p = [] /\ undefined_uses o W p = [] /\ set_uses o W p = [] /\
  (forall n, ~ In (RReassign, n) (scope_viol o W p)) /\
  (forall n, ~ In (RLoadReassign, n) (scope_viol o W p)).

(* rule r is broken at position n *)
Definition broken (o : options) (W : world) (p : program) (r : rule) (n : N) : Prop :=
  match r with
  | RReassign | RLoadReassign => In (r, n) (scope_viol o W p)
  | RUndefined => exists u, In u (undefined_uses o W p) /\ s_n u = n
  | RSetUnsupported => exists u, In u (set_uses o W p) /\ s_n u = n
  | _ => violates o p r n
  end.
