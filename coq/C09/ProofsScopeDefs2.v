(* C09 -- scoping proofs: the walk invariant of ProofsScopeDefs.v extended with
   the rebinding reports (RReassign, RLoadReassign).
   K st st' E S: the walk from st to st' added exactly the rebinding reports E,
   except that a load statement INSIDE A FUNCTION (itself an error) may add
   "load rebinding" reports at the positions S (its binding goes to the function
   block; the specification says nothing about it).
   R and Neutral of this file shadow those of ProofsScopeDefs.v. *)
From Coq Require Import String Ascii List Bool Arith NArith Lia.
From SV Require Import C09.Syntax C09.Model C09.Spec C09.ScopeSpec C09.Unfold C09.Proofs C09.ProofsScopeDefs.
Import ListNotations.

Definition tracked (r : rule) : Prop := r = RReassign \/ r = RLoadReassign.
Definition rep (r : rule) (st : rs) (n : N) : Prop := In (r, n) (errs st).
Definition untracked (r : rule) : bool :=
  match r with RUndefined | RReassign | RLoadReassign | RSetUnsupported => false | _ => true end.

Definition K (st st' : rs) (E : list (rule * N)) (S : list N) : Prop :=
  forall r n, tracked r ->
    ((rep r st n \/ In (r, n) E -> rep r st' n) /\
     (rep r st' n -> rep r st n \/ In (r, n) E \/ (r = RLoadReassign /\ In n S))).

Lemma K_refl st : K st st [] [].
Proof. intros r n _. split; [intros [H|[]]; auto|auto]. Qed.

Lemma K_trans a b c E1 E2 S1 S2 : K a b E1 S1 -> K b c E2 S2 -> K a c (E1 ++ E2) (S1 ++ S2).
Proof.
  intros H1 H2 r n Hr. destruct (H1 r n Hr) as [A1 A2]. destruct (H2 r n Hr) as [B1 B2]. split.
  - intros [H|H]; [apply B1; left; apply A1; auto|].
    apply in_app_or in H. destruct H as [H|H]; [apply B1; left; apply A1; auto|apply B1; auto].
  - intros H. apply B2 in H. destruct H as [H|[H|[H H']]].
    + apply A2 in H. destruct H as [H|[H|[H H']]]; auto.
      * right; left. apply in_or_app; auto.
      * right; right. split; auto. apply in_or_app; auto.
    + right; left. apply in_or_app; auto.
    + right; right. split; auto. apply in_or_app; auto.
Qed.

Definition same_rep (st st' : rs) : Prop := forall r n, tracked r -> (rep r st' n <-> rep r st n).

Lemma same_rep_errs st st' : errs st' = errs st -> same_rep st st'.
Proof. intros E r n _. unfold rep. rewrite E. tauto. Qed.

Lemma K_same st st' : same_rep st st' -> K st st' [] [].
Proof. intros H r n Hr. split; [intros [K0|[]]; apply H; auto|intros K0; left; apply H; auto]. Qed.

Lemma K_pre st st0 st' E S : same_rep st st0 -> K st0 st' E S -> K st st' E S.
Proof.
  intros H HK r n Hr. destruct (HK r n Hr) as [A B]. split.
  - intros [K0|K0]; apply A; auto. left. apply H; auto.
  - intros K0. apply B in K0. destruct K0 as [K0|K0]; auto. left. apply H; auto.
Qed.

Lemma K_post st st1 st' E S : K st st1 E S -> same_rep st1 st' -> K st st' E S.
Proof.
  intros HK H r n Hr. destruct (HK r n Hr) as [A B]. split.
  - intros K0. apply H; auto.
  - intros K0. apply B. apply H; auto.
Qed.

Lemma rep_errorf r st r' m n : rep r (errorf st r' m) n <-> rep r st n \/ (r' = r /\ m = n).
Proof.
  unfold rep. simpl. rewrite in_app_iff. simpl. split.
  - intros [H|[H|[]]]; auto. inversion H; auto.
  - intros [H|[-> ->]]; auto.
Qed.

Lemma same_rep_errorf st r m : untracked r = true -> same_rep st (errorf st r m).
Proof.
  intros Hu r0 n Hr. rewrite rep_errorf. split; auto. intros [H|[-> _]]; auto.
  destruct Hr as [->| ->]; discriminate.
Qed.

Lemma K_weak st st' E S S' : K st st' E S -> incl S S' -> K st st' E S'.
Proof.
  intros H Hi r n Hr. destruct (H r n Hr) as [A B]. split; auto.
  intros H0. apply B in H0. destruct H0 as [H0|[H0|[H0 H1]]]; auto.
Qed.

Lemma K_slack st (c : bool) tn : K st (if c then errorf st RLoadReassign tn else st) [] [tn].
Proof.
  destruct c; [|eapply K_weak; [apply K_refl|intros x []]]. intros r n Hr. rewrite rep_errorf. split.
  - intros [H|[]]. auto.
  - intros [H|[<- <-]]; auto. right. right. split; auto. left. reflexivity.
Qed.

Definition setr (st : rs) (n : N) : Prop := In (RSetUnsupported, n) (errs st).
Definition SR (st : rs) : Prop := exists m, setr st m.

Lemma setr_errorf st r m n : setr (errorf st r m) n <-> setr st n \/ (r = RSetUnsupported /\ m = n).
Proof.
  unfold setr. simpl. rewrite in_app_iff. simpl. split.
  - intros [H|[H|[]]]; auto. inversion H; auto.
  - intros [H|[-> ->]]; auto.
Qed.

Section D2.
Variable opts : options.
Variable W : world.

(* `set` without the Set option, at file level under GlobalReassign *)
Definition tl_set (g : list string) (x : string) : Prop :=
  o_set opts = false /\ x = "set"%string /\ smem x g = false /\
  mem x (w_predeclared W) = false /\ mem x (w_universal W) = true.
Definition ImmSet (n : N) (us : list suse) : Prop :=
  exists u g, In u us /\ s_n u = n /\ s_fl u = Some g /\ tl_set g (s_x u).
(* r.predeclared caches the predeclared / universal names found so far: once `set` is in it,
   useToplevel does not report it again *)
Definition PremOK (st : rs) : Prop :=
  mem "set"%string (premem st) = true -> mem "set"%string (w_predeclared W) = true \/ o_set opts = true \/ SR st.

Definition Z (st st' : rs) (us : list suse) : Prop :=
  (forall n, setr st' n -> setr st n \/ ImmSet n us) /\
  (SR st -> SR st') /\
  (PremOK st -> PremOK st' /\ ((exists n, ImmSet n us) -> SR st')).

Lemma ImmSet_app n a b : ImmSet n (a ++ b) <-> ImmSet n a \/ ImmSet n b.
Proof.
  unfold ImmSet. split.
  - intros (u & g & Hin & H). apply in_app_or in Hin. destruct Hin; [left|right]; exists u, g; auto.
  - intros [(u & g & Hin & H)|(u & g & Hin & H)]; exists u, g; split; auto; apply in_or_app; auto.
Qed.
Lemma ImmSet_nil n : ImmSet n [] <-> False.
Proof. split; [intros (u & g & [] & _)|tauto]. Qed.
Lemma ImmSet_under n ns us : ImmSet n (map (under ns) us) <-> ImmSet n us.
Proof.
  unfold ImmSet. split.
  - intros (u & g & Hin & H). apply in_map_iff in Hin. destruct Hin as (v & <- & Hv). exists v, g. auto.
  - intros (u & g & Hin & H). exists (under ns u), g. split; [apply in_map; auto|exact H].
Qed.

Definition same_set (st st' : rs) : Prop := (forall n, setr st' n <-> setr st n) /\ premem st' = premem st.

Lemma Z_same st st' : same_set st st' -> Z st st' [].
Proof.
  intros [H1 H2]. split; [|split].
  - intros n H. left. apply H1. exact H.
  - intros (m & H). exists m. apply H1. exact H.
  - intros HP. split.
    + unfold PremOK. rewrite H2. intros H. apply HP in H. destruct H as [H|[H|(m & H)]]; auto.
      right. right. exists m. apply H1. exact H.
    + intros [n H]. apply ImmSet_nil in H. destruct H.
Qed.

Lemma Z_nouse st st' us : same_set st st' -> (forall n, ~ ImmSet n us) -> Z st st' us.
Proof.
  intros Hs Hn. destruct (Z_same _ _ Hs) as (A1 & A2 & A3). split; [|split]; auto.
  - intros m H. apply A1 in H. destruct H as [H|H]; auto. apply ImmSet_nil in H. destruct H.
  - intros HP. destruct (A3 HP) as [P _]. split; auto. intros [m H]. exfalso. apply (Hn m H).
Qed.

Lemma Z_refl st : Z st st [].
Proof. apply Z_same. split; [tauto|reflexivity]. Qed.

Lemma Z_trans a b c us1 us2 : Z a b us1 -> Z b c us2 -> Z a c (us1 ++ us2).
Proof.
  intros (A1 & A2 & A3) (B1 & B2 & B3). split; [|split].
  - intros n H. rewrite ImmSet_app. apply B1 in H. destruct H as [H|H]; auto. apply A1 in H. tauto.
  - auto.
  - intros HP. destruct (A3 HP) as [P1 C1]. destruct (B3 P1) as [P2 C2]. split; auto.
    intros [n H]. apply ImmSet_app in H. destruct H as [H|H]; [apply B2, C1; exists n; exact H|apply C2; exists n; exact H].
Qed.

Lemma Z_pre st st0 st' us : same_set st st0 -> Z st0 st' us -> Z st st' us.
Proof.
  intros H HZ. pose proof (Z_trans _ _ _ [] us (Z_same _ _ H) HZ) as T. exact T.
Qed.

Lemma Z_post st st1 st' us : Z st st1 us -> same_set st1 st' -> Z st st' us.
Proof.
  intros HZ H. pose proof (Z_trans _ _ _ us [] HZ (Z_same _ _ H)) as T. rewrite app_nil_r in T. exact T.
Qed.

Lemma Z_under st st' ns us : Z st st' us -> Z st st' (map (under ns) us).
Proof.
  intros (A1 & A2 & A3). split; [|split]; auto.
  - intros n H. rewrite ImmSet_under. apply A1. exact H.
  - intros HP. destruct (A3 HP) as [P C]. split; [exact P|]. intros [n H]. apply C. exists n. apply (ImmSet_under n ns us). exact H.
Qed.

Lemma same_set_eq st st' : errs st' = errs st -> premem st' = premem st -> same_set st st'.
Proof. intros E P. split; auto. intros n. unfold setr. rewrite E. tauto. Qed.

Lemma same_set_errorf_ne st r m : r <> RSetUnsupported -> same_set st (errorf st r m).
Proof.
  intros Hr. split; [|reflexivity]. intros n. rewrite setr_errorf. split; auto. intros [H|[H _]]; auto. congruence.
Qed.

Lemma same_set_errorf st r m : untracked r = true -> same_set st (errorf st r m).
Proof.
  intros Hu. split; [|reflexivity]. intros n. rewrite setr_errorf. split; auto. intros [H|[-> _]]; auto. discriminate.
Qed.

Definition R (st st' : rs) (ns : list string) (us : list suse) (g f : list string)
             (E : list (rule * N)) (S : list N) : Prop :=
  ProofsScopeDefs.R W st st' ns us g f /\ K st st' E S /\ Z st st' us.

Definition Neutral (st st' : rs) : Prop :=
  ProofsScopeDefs.Neutral st st' /\ same_rep st st' /\ same_set st st'.

Lemma Neutral_refl st : Neutral st st.
Proof.
  split; [apply ProofsScopeDefs.Neutral_refl|]. split; [intros r n _; tauto|]. split; [tauto|reflexivity].
Qed.

Lemma same_set_trans a b c : same_set a b -> same_set b c -> same_set a c.
Proof. intros [A1 A2] [B1 B2]. split; [|congruence]. intros n. rewrite B1. apply A1. Qed.

Lemma Neutral_trans a b c : Neutral a b -> Neutral b c -> Neutral a c.
Proof.
  intros (A1 & A2 & A3) (B1 & B2 & B3). split; [eapply ProofsScopeDefs.Neutral_trans; eauto|]. split.
  - intros r n Hr. rewrite (B2 r n Hr). apply A2. exact Hr.
  - eapply same_set_trans; eauto.
Qed.

Lemma Neutral_errorf' a b r n : Neutral a b -> untracked r = true -> Neutral a (errorf b r n).
Proof.
  intros H Hr. eapply Neutral_trans; [exact H|]. split; [|split].
  - apply ProofsScopeDefs.Neutral_errorf. intros ->. discriminate.
  - apply same_rep_errorf. exact Hr.
  - apply same_set_errorf. exact Hr.
Qed.

Lemma Neutral_eq st st' :
  blocks st' = blocks st -> env st' = env st -> globals st' = globals st -> fileb st' = fileb st ->
  premem st' = premem st -> buses st' = buses st -> errs st' = errs st -> Neutral st st'.
Proof.
  intros. split; [|split].
  - repeat split; auto; unfold und; congruence.
  - apply same_rep_errs. auto.
  - apply same_set_eq; auto.
Qed.

Lemma Neutral_set_loops a b k : Neutral a b -> Neutral a (set_loops b k).
Proof. intros H. eapply Neutral_trans; [exact H|apply Neutral_eq; reflexivity]. Qed.
Lemma Neutral_set_ifstmts a b k : Neutral a b -> Neutral a (set_ifstmts b k).
Proof. intros H. eapply Neutral_trans; [exact H|apply Neutral_eq; reflexivity]. Qed.
Lemma Neutral_set_fdepth a b k : Neutral a b -> Neutral a (set_fdepth b k).
Proof. intros H. eapply Neutral_trans; [exact H|apply Neutral_eq; reflexivity]. Qed.

Lemma R_pre st st0 st' ns us g f E S : Neutral st st0 -> R st0 st' ns us g f E S -> R st st' ns us g f E S.
Proof.
  intros (N1 & N2 & N3) (H1 & H2 & H3).
  split; [eapply ProofsScopeDefs.R_pre; eauto|]. split; [eapply K_pre; eauto|eapply Z_pre; eauto].
Qed.

Lemma R_post st st1 st' ns us g f E S : R st st1 ns us g f E S -> Neutral st1 st' -> R st st' ns us g f E S.
Proof.
  intros (H1 & H2 & H3) (N1 & N2 & N3).
  split; [eapply ProofsScopeDefs.R_post; eauto|]. split; [eapply K_post; eauto|eapply Z_post; eauto].
Qed.

Lemma R_neutral st st' : WF W st -> Neutral st st' -> R st st' [] [] (globals st) (fileb st) [] [].
Proof.
  intros Hw (N1 & N2 & N3). split; [apply ProofsScopeDefs.R_neutral; auto|]. split; [apply K_same; auto|apply Z_same; auto].
Qed.

Lemma R_skip st : WF W st -> R st st [] [] (globals st) (fileb st) [] [].
Proof. intros Hw. apply R_neutral; auto. apply Neutral_refl. Qed.

Lemma R_pre' st st0 st' ns us g f E S :
  Neutral st st0 ->
  (WF W st0 -> env st0 = env st -> globals st0 = globals st -> fileb st0 = fileb st -> R st0 st' ns us g f E S) ->
  WF W st -> R st st' ns us g f E S.
Proof.
  intros N H Hw. eapply R_pre; [exact N|]. pose proof N as ((A1 & A2 & A3 & A4 & _) & _).
  apply H; auto. eapply WF_Neutral; [apply N|exact Hw].
Qed.

Lemma R_then_eq st st1 st2 ns ns1 ns2 us us1 us2 g1 f1 g2 f2 E E1 E2 S S1 S2 :
  WF W st -> R st st1 ns1 us1 g1 f1 E1 S1 ->
  (WF W st1 -> env st1 = env st -> globals st1 = g1 -> fileb st1 = f1 -> R st1 st2 ns2 us2 g2 f2 E2 S2) ->
  ns = ns1 ++ ns2 -> us = us1 ++ us2 -> E = E1 ++ E2 -> S = S1 ++ S2 ->
  R st st2 ns us g2 f2 E S.
Proof.
  intros Hw (H1 & K1 & Z1) H2 -> -> -> ->.
  assert (H2' : R st1 st2 ns2 us2 g2 f2 E2 S2).
  { destruct H1 as (Hw1 & (E1' & _) & Hg1 & Hb1 & _). apply H2; auto. }
  destruct H2' as (H2' & K2 & Z2).
  split; [eapply ProofsScopeDefs.R_trans; eauto|]. split; [eapply K_trans; eauto|eapply Z_trans; eauto].
Qed.

Lemma R_ns st st' ns ns' us g f E S :
  (forall x, smem x ns = smem x ns') -> R st st' ns us g f E S -> R st st' ns' us g f E S.
Proof. intros H (H1 & H2 & H3). split; [eapply ProofsScopeDefs.R_ns; eauto|auto]. Qed.

Lemma errs_pop st : errs (pop st) = errs st.
Proof. unfold pop. destruct (env st); auto. destruct (nth_error (blocks st) n); auto. Qed.
Lemma premem_pop st : premem (pop st) = premem st.
Proof. unfold pop. destruct (env st); auto. destruct (nth_error (blocks st) n); auto. Qed.

Lemma R_block st isfn st_out ns us g f E S :
  WF W st -> R (push st isfn) st_out ns us g f E S -> R st (pop st_out) [] (map (under ns) us) g f E S.
Proof.
  intros Hw (H1 & H2 & H3). split; [eapply ProofsScopeDefs.R_block; eauto|]. split.
  - eapply K_pre; [|eapply K_post; [exact H2|]].
    + apply same_rep_errs. reflexivity.
    + apply same_rep_errs. apply errs_pop.
  - apply Z_under. eapply Z_pre; [|eapply Z_post; [exact H3|]].
    + apply same_set_eq; reflexivity.
    + apply same_set_eq; [apply errs_pop|apply premem_pop].
Qed.

Lemma WF_enter st : WF W st -> WF W (enter_fn st).
Proof.
  intros H. eapply WF_Neutral; [|apply (WF_push W st true); exact H].
  repeat split; auto; unfold und; simpl; tauto.
Qed.

Lemma R_fn st X ns us g f E S :
  WF W st -> R (enter_fn st) X ns us g f E S -> R st (leave_fn st X) [] (map (under ns) us) g f E S.
Proof.
  intros Hw H. eapply R_post.
  - eapply R_block; [exact Hw|]. eapply R_pre; [|exact H]. apply Neutral_eq; reflexivity.
  - unfold leave_fn. apply Neutral_set_loops, Neutral_set_fdepth, Neutral_refl.
Qed.

Lemma same_rep_useToplevel st n x : same_rep st (useToplevel opts W st n x).
Proof.
  unfold useToplevel.
  destruct (mem x (fileb st)); [intros r m _; tauto|].
  destruct (mem x (globals st)); [intros r m _; tauto|].
  destruct (mem x (premem st)); [intros r m _; tauto|].
  destruct (mem x (w_predeclared W)); [apply same_rep_errs; reflexivity|].
  destruct (mem x (w_universal W)).
  - destruct (negb (o_set opts) && String.eqb x "set").
    + intros r m Hr. unfold rep. simpl. rewrite in_app_iff. simpl. split; auto.
      intros [H|[H|[]]]; auto. inversion H; subst. destruct Hr; discriminate.
    + apply same_rep_errs. reflexivity.
  - intros r m Hr. rewrite rep_errorf. split; auto. intros [H|[<- _]]; auto. destruct Hr; discriminate.
Qed.

Lemma mem_cons_set x l : mem "set"%string (x :: l) = String.eqb "set" x || mem "set"%string l.
Proof. reflexivity. Qed.

(* the key step for `set`: one toplevel lookup *)
Lemma Z_useToplevel st n x g :
  smem x g = mem x (fileb st) || mem x (globals st) ->
  Z st (useToplevel opts W st n x) [mkU n x [] (Some g)].
Proof.
  intros Hg.
  assert (Imm : forall m, ImmSet m [mkU n x [] (Some g)] <-> m = n /\ tl_set g x).
  { intros m. unfold ImmSet. split.
    - intros (u & g' & [<-|[]] & H1 & H2 & H3). simpl in *. inversion H2; subst. auto.
    - intros [-> H]. exists (mkU n x [] (Some g)), g. simpl. auto. }
  assert (NoImm : forall st', same_set st st' -> ~ tl_set g x -> Z st st' [mkU n x [] (Some g)]).
  { intros st' Hs Hn. destruct (Z_same _ _ Hs) as (A1 & A2 & A3). split; [|split]; auto.
    - intros m H. apply A1 in H. destruct H as [H|H]; auto. apply ImmSet_nil in H. destruct H.
    - intros HP. destruct (A3 HP) as [P _]. split; auto. intros [m H]. apply Imm in H. tauto. }
  unfold useToplevel.
  destruct (mem x (fileb st)) eqn:Ef.
  { apply NoImm; [split; [tauto|reflexivity]|]. intros (_ & _ & H & _). rewrite Hg in H. discriminate. }
  destruct (mem x (globals st)) eqn:Eg.
  { apply NoImm; [split; [tauto|reflexivity]|]. intros (_ & _ & H & _). rewrite Hg in H. discriminate. }
  destruct (mem x (premem st)) eqn:Ep.
  { (* already cached: a report exists unless the cache entry is harmless *)
    split; [|split].
    - intros m H. auto.
    - auto.
    - intros HP. split; auto. intros [m H]. apply Imm in H. destruct H as [_ (Hs & -> & _ & Hpre & _)].
      destruct (HP Ep) as [H|[H|H]]; auto; congruence. }
  destruct (mem x (w_predeclared W)) eqn:Epre.
  { split; [|split].
    - intros m H. left. exact H.
    - intros H. exact H.
    - intros HP. split.
      + unfold PremOK. simpl premem. rewrite mem_cons_set. intros H. apply orb_prop in H. destruct H as [H|H].
        * apply String.eqb_eq in H. subst x. auto.
        * destruct (HP H) as [K0|[K0|K0]]; auto.
      + intros [m H]. apply Imm in H. destruct H as [_ (_ & _ & _ & H & _)]. congruence. }
  destruct (mem x (w_universal W)) eqn:Euni.
  { destruct (negb (o_set opts) && String.eqb x "set") eqn:Ec.
    - apply andb_prop in Ec. destruct Ec as [Ec1 Ec2]. apply String.eqb_eq in Ec2.
      assert (Hos : o_set opts = false) by (destruct (o_set opts); [discriminate|reflexivity]).
      assert (HT : tl_set g x).
      { unfold tl_set. rewrite Hg. repeat split; auto. }
      assert (HS : SR (set_scope (errorf st RSetUnsupported n) (globals (errorf st RSetUnsupported n))
                         (fileb (errorf st RSetUnsupported n)) (x :: premem (errorf st RSetUnsupported n)))).
      { exists n. unfold setr. simpl. apply in_or_app. right. left. reflexivity. }
      split; [|split].
      + intros m H. unfold setr in H. simpl in H. apply in_app_or in H. destruct H as [H|[H|[]]]; [left; exact H|].
        inversion H; subst. right. apply Imm. auto.
      + intros _. exact HS.
      + intros HP. split; [|intros _; exact HS]. intros _. right. right. exact HS.
    - split; [|split].
      + intros m H. left. exact H.
      + intros H. exact H.
      + intros HP. split.
        * unfold PremOK. simpl premem. rewrite mem_cons_set. intros H. apply orb_prop in H. destruct H as [H|H].
          -- apply String.eqb_eq in H. subst x. simpl in Ec. rewrite andb_true_r in Ec.
             right. left. destruct (o_set opts); [reflexivity|discriminate].
          -- destruct (HP H) as [K0|[K0|K0]]; auto.
        * intros [m H]. apply Imm in H. destruct H as [_ (Hs & -> & _)]. rewrite Hs in Ec. simpl in Ec. discriminate. }
  apply NoImm.
  - split; [|reflexivity]. intros m. rewrite setr_errorf. split; auto. intros [H|[H _]]; auto. discriminate.
  - intros (_ & _ & _ & _ & H). congruence.
Qed.

Lemma R_use st n x :
  WF W st -> R st (use_ opts W st n x) [] [mkU n x [] (flof opts st)] (globals st) (fileb st) [] [].
Proof.
  intros Hw. split; [apply ProofsScopeDefs.R_use; auto|]. split.
  - apply K_same. unfold use_. destruct (o_global_reassign opts && _).
    + apply same_rep_useToplevel.
    + apply same_rep_errs. reflexivity.
  - unfold use_, flof, top, fl_of. destruct (env st) eqn:Ee.
    + rewrite andb_false_r. apply Z_nouse; [apply same_set_eq; reflexivity|].
      intros m (u & g & [<-|[]] & _ & H & _). discriminate.
    + rewrite andb_true_r. destruct (o_global_reassign opts) eqn:Eg.
      * apply Z_useToplevel. rewrite smem_app. apply orb_comm.
      * apply Z_nouse; [apply same_set_eq; reflexivity|].
        intros m (u & g & [<-|[]] & _ & H & _). discriminate.
Qed.

Lemma errs_bindLocal st n x : errs (snd (bindLocal st n x)) = errs st.
Proof.
  unfold bindLocal. destruct (env st).
  - destruct (nth_error (blocks st) n0); auto. simpl. destruct (mem x (k_names b) || mem x (k_memo b)); auto.
  - simpl. destruct (mem x (fileb st)); auto.
Qed.
Lemma premem_bindLocal st n x : premem (snd (bindLocal st n x)) = premem st.
Proof.
  unfold bindLocal. destruct (env st).
  - destruct (nth_error (blocks st) n0); auto. simpl. destruct (mem x (k_names b) || mem x (k_memo b)); auto.
  - simpl. destruct (mem x (fileb st)); auto.
Qed.
Lemma same_set_bindLocal st n x : same_set st (snd (bindLocal st n x)).
Proof. apply same_set_eq; [apply errs_bindLocal|apply premem_bindLocal]. Qed.

Lemma same_set_bind st n x : same_set st (snd (bind opts st n x)).
Proof.
  unfold bind. destruct (env st); [apply same_set_bindLocal|]. simpl.
  destruct (mem x (fileb st) || mem x (globals st)); simpl.
  - destruct (negb (o_global_reassign opts)); [apply same_set_errorf_ne; discriminate|split; [tauto|reflexivity]].
  - apply same_set_eq; reflexivity.
Qed.

Lemma R_bindLocal_blk st n x :
  WF W st -> top st = false -> R st (snd (bindLocal st n x)) [x] [] (globals st) (fileb st) [] [].
Proof.
  intros Hw Ht. split; [apply ProofsScopeDefs.R_bindLocal_blk; auto|]. split.
  - apply K_same, same_rep_errs, errs_bindLocal.
  - apply Z_same, same_set_bindLocal.
Qed.

Lemma R_bind_blk st n x :
  WF W st -> top st = false -> R st (snd (bind opts st n x)) [x] [] (globals st) (fileb st) [] [].
Proof.
  intros Hw Ht. split; [apply ProofsScopeDefs.R_bind_blk; auto|]. split.
  - apply K_same, same_rep_errs. unfold bind. unfold top in Ht. destruct (env st); [|discriminate]. apply errs_bindLocal.
  - apply Z_same, same_set_bind.
Qed.

Lemma R_bind_dup_blk st n x m :
  WF W st -> top st = false -> R st (bind_dup opts st n x m) [x] [] (globals st) (fileb st) [] [].
Proof.
  intros Hw Ht. unfold bind_dup. destruct (fst (bind opts st n x)).
  - eapply R_post; [apply R_bind_blk; auto|]. apply Neutral_errorf'; [apply Neutral_refl|reflexivity].
  - apply R_bind_blk; auto.
Qed.

Lemma R_bind_top st n x :
  WF W st -> top st = true ->
  R st (snd (bind opts st n x)) [x] [] (addg (globals st) (fileb st) x) (fileb st)
    (fst (t_bind opts (globals st) (fileb st) (LId n x))) [].
Proof.
  intros Hw Ht. split; [apply ProofsScopeDefs.R_bind_top; auto|]. split; [|apply Z_same, same_set_bind].
  change (t_bind opts (globals st) (fileb st) (LId n x)) with
    (if smem x (fileb st) || smem x (globals st)
     then (when (negb (o_global_reassign opts)) RReassign n, globals st) else ([], globals st ++ [x])).
  unfold bind. unfold top in Ht. destruct (env st); [discriminate|].
  change (smem x (fileb st)) with (mem x (fileb st)). change (smem x (globals st)) with (mem x (globals st)).
  destruct (mem x (fileb st) || mem x (globals st)); simpl.
  - destruct (negb (o_global_reassign opts)); simpl.
    + intros r m Hr. rewrite rep_errorf. split.
      * intros [H|[H|[]]]; [left; exact H|]. inversion H; subst. right. split; reflexivity.
      * intros [H|[<- <-]]; [left; exact H|]. right. left. left. reflexivity.
    + apply K_refl.
  - apply K_same, same_rep_errs. reflexivity.
Qed.

Lemma R_bindLocal_top st n x :
  WF W st -> top st = true ->
  R st (snd (bindLocal st n x)) [x] [] (globals st) (if smem x (fileb st) then fileb st else fileb st ++ [x]) [] [].
Proof.
  intros Hw Ht. split; [|split].
  - pose proof Ht as Ht'. unfold top in Ht'. unfold bindLocal.
    destruct (env st) eqn:Ee; [discriminate|]. change (smem x (fileb st)) with (mem x (fileb st)).
    destruct (mem x (fileb st)); simpl.
    + split; [exact Hw|]. split; [apply Frame_top; auto|]. split; auto. split; auto. apply Uses_nil; auto. tauto.
    + split; [exact Hw|]. split; [apply Frame_top; auto|]. split; auto. split; auto. apply Uses_nil; auto. tauto.
  - apply K_same, same_rep_errs, errs_bindLocal.
  - apply Z_same, same_set_bindLocal.
Qed.

Lemma R_weakS st st' ns us g f E S S' : R st st' ns us g f E S -> incl S S' -> R st st' ns us g f E S'.
Proof. intros (H1 & H2 & H3) Hi. split; auto. split; auto. eapply K_weak; eauto. Qed.

Lemma same_set_if_errorf st (c : bool) r m : untracked r = false -> r <> RSetUnsupported ->
  same_set st (if c then errorf st r m else st).
Proof.
  intros _ Hr. destruct c; [|split; [tauto|reflexivity]]. split; [|reflexivity].
  intros n. rewrite setr_errorf. split; auto. intros [H|[H _]]; auto. congruence.
Qed.

Lemma R_slack st st1 ns us g f E S (c : bool) tn :
  R st st1 ns us g f E S -> R st (if c then errorf st1 RLoadReassign tn else st1) ns us g f E (S ++ [tn]).
Proof.
  intros (H1 & H2 & H3). split; [|split].
  - eapply ProofsScopeDefs.R_post; [exact H1|]. destruct c; [|apply ProofsScopeDefs.Neutral_refl].
    apply ProofsScopeDefs.Neutral_errorf. discriminate.
  - rewrite <- (app_nil_r E). eapply K_trans; [exact H2|apply K_slack].
  - eapply Z_post; [exact H3|]. apply same_set_if_errorf; [reflexivity|discriminate].
Qed.

(* the non-global load binding at file level, with its rebinding report *)
Lemma R_loadre_top st tn to :
  WF W st -> top st = true ->
  R st (if fst (bindLocal st tn to) && negb (o_global_reassign opts)
        then errorf (snd (bindLocal st tn to)) RLoadReassign tn else snd (bindLocal st tn to))
    [to] [] (globals st) (if smem to (fileb st) then fileb st else fileb st ++ [to])
    (if smem to (fileb st) then when (negb (o_global_reassign opts)) RLoadReassign tn else []) [].
Proof.
  intros Hw Ht. destruct (R_bindLocal_top st tn to Hw Ht) as (H1 & H2 & H3). split; [|split].
  - eapply ProofsScopeDefs.R_post; [exact H1|].
    destruct (fst (bindLocal st tn to) && negb (o_global_reassign opts)); [|apply ProofsScopeDefs.Neutral_refl].
    apply ProofsScopeDefs.Neutral_errorf. discriminate.
  - assert (Hf : fst (bindLocal st tn to) = smem to (fileb st)).
    { unfold bindLocal. unfold top in Ht. destruct (env st); [discriminate|]. reflexivity. }
    rewrite Hf. destruct (smem to (fileb st)); simpl.
    + destruct (negb (o_global_reassign opts)); simpl.
      * intros r m Hr. rewrite rep_errorf. unfold rep. rewrite errs_bindLocal. split.
        -- intros [H|[H|[]]]; [left; exact H|]. inversion H; subst. right. split; reflexivity.
        -- intros [H|[<- <-]]; [left; exact H|]. right. left. left. reflexivity.
      * exact H2.
    + exact H2.
  - eapply Z_post; [exact H3|]. apply same_set_if_errorf; [reflexivity|discriminate].
Qed.

End D2.

