(* C09 -- one unfolding equation per constructor for the mutually recursive
   walk of Model.v (each is `reflexivity`; simpl/cbn do not refold these fixpoints). *)
From Coq Require Import String Ascii List Bool Arith NArith.
From SV Require Import C09.Syntax C09.Model.
Import ListNotations.

Section U.
Variable opts : options.
Variable W : world.
Notation expr' := (expr_ opts W).
Notation exprs' := (exprs_ opts W).
Notation args' := (args_ opts W).
Notation defaults' := (defaults_ opts W).
Notation params' := (params_ opts W).
Notation clauses' := (clauses_ opts W).
Notation assign' := (assign_ opts W).
Notation assigns' := (assigns_ opts W).
Notation stmt' := (stmt_ opts W).
Notation stmts' := (stmts_ opts W).
Notation bind' := (bind opts).

Definition a0 : astate := {| a_seenVar := false; a_seenKw := false; a_names := []; a_n := 0; a_p := 0 |}.
Definition p0 : pstate := {| p_seenOpt := false; p_star := None; p_starstar := None; p_nkw := 0 |}.
Definition enter_fn (st : rs) : rs := set_loops (set_fdepth (push st true) (S (fdepth st))) 0.
Definition leave_fn (st0 st : rs) : rs := set_loops (set_fdepth (pop st) (pred (fdepth st))) (loops st0).

Lemma u_EId st n x : expr' st (EId n x) = use_ opts W st n x. Proof. reflexivity. Qed.
Lemma u_ELit st : expr' st ELit = st. Proof. reflexivity. Qed.
Lemma u_EOp st es : expr' st (EOp es) = exprs' st es. Proof. reflexivity. Qed.
Lemma u_ECall st n f a :
  expr' st (ECall n f a) =
  let r := args' (expr' st f) a0 a in
  let st1 := if 256 <=? a_p (snd r) then errorf (fst r) RArgTooManyPos n else fst r in
  if 256 <=? a_n (snd r) then errorf st1 RArgTooManyNamed n else st1.
Proof. reflexivity. Qed.
Lemma u_ELambda st n ps body :
  expr' st (ELambda n ps body) =
  let st1 := defaults' st ps in
  leave_fn st1 (expr' (params' (enter_fn st1) p0 ps) body).
Proof. reflexivity. Qed.
Lemma u_EComp st n iter vars cl body :
  expr' st (EComp n iter vars cl body) =
  pop (expr' (clauses' (assign' (push (expr' st iter) false) false vars) cl) body).
Proof. reflexivity. Qed.
Lemma u_ENil st : exprs' st ENil = st. Proof. reflexivity. Qed.
Lemma u_ECons st e r : exprs' st (ECons e r) = exprs' (expr' st e) r. Proof. reflexivity. Qed.

Lemma u_ANil st a : args' st a ANil = (st, a). Proof. reflexivity. Qed.
Lemma u_APos st a n e r :
  args' st a (APos n e r) =
  let st1 := if a_seenVar a then errorf st RArgPosAfterStar n
             else if a_seenKw a then errorf st RArgPosAfterKwargs n
             else match a_names a with _ :: _ => errorf st RArgPosAfterNamed n | [] => st end in
  args' (expr' st1 e)
        {| a_seenVar := a_seenVar a; a_seenKw := a_seenKw a; a_names := a_names a; a_n := a_n a; a_p := S (a_p a) |} r.
Proof. reflexivity. Qed.
Lemma u_ANamed st a n x e r :
  args' st a (ANamed n x e r) =
  let st0 := if a_seenKw a then errorf st RArgNamedAfterKwargs n
             else if a_seenVar a then errorf st RArgNamedAfterStar n else st in
  let st1 := if mem x (a_names a) then errorf st0 RArgRepeatedName n else st0 in
  args' (expr' st1 e)
        {| a_seenVar := a_seenVar a; a_seenKw := a_seenKw a;
           a_names := if mem x (a_names a) then a_names a else x :: a_names a; a_n := S (a_n a); a_p := a_p a |} r.
Proof. reflexivity. Qed.
Lemma u_AStar st a n e r :
  args' st a (AStar n e r) =
  let st1 := if a_seenKw a then errorf st RArgStarAfterKwargs n
             else if a_seenVar a then errorf st RArgMultipleStar n else st in
  args' (expr' st1 e)
        {| a_seenVar := true; a_seenKw := a_seenKw a; a_names := a_names a; a_n := a_n a; a_p := a_p a |} r.
Proof. reflexivity. Qed.
Lemma u_AStarStar st a n e r :
  args' st a (AStarStar n e r) =
  let st1 := if a_seenKw a then errorf st RArgMultipleKwargs n else st in
  args' (expr' st1 e)
        {| a_seenVar := a_seenVar a; a_seenKw := true; a_names := a_names a; a_n := a_n a; a_p := a_p a |} r.
Proof. reflexivity. Qed.

Lemma u_dNil st : defaults' st PNil = st. Proof. reflexivity. Qed.
Lemma u_dId st n x r : defaults' st (PId n x r) = defaults' st r. Proof. reflexivity. Qed.
Lemma u_dDef st n x d r : defaults' st (PDef n x d r) = defaults' (expr' st d) r. Proof. reflexivity. Qed.
Lemma u_dStar st n nm r : defaults' st (PStar n nm r) = defaults' st r. Proof. reflexivity. Qed.
Lemma u_dSS st n nn x r : defaults' st (PStarStar n nn x r) = defaults' st r. Proof. reflexivity. Qed.

Definition bind_dup (st : rs) (n : N) (x : string) (m : N) : rs :=
  if fst (bind' st n x) then errorf (snd (bind' st n x)) RParDuplicate m else snd (bind' st n x).

Lemma u_pNil st p :
  params' st p PNil =
  let st1 := match p_star p with
             | Some (n, Some (an, ax)) => bind_dup st an ax an
             | Some (n, None) => if p_nkw p =? 0 then errorf st RParBareStar n else st
             | None => st
             end in
  match p_starstar p with
  | Some (nn, x) => bind_dup st1 nn x nn
  | None => st1
  end.
Proof. reflexivity. Qed.
Definition nkw_next (p : pstate) : nat :=
  match p_starstar p, p_star p with None, Some _ => S (p_nkw p) | _, _ => p_nkw p end.
Lemma u_pId st p n x r :
  params' st p (PId n x r) =
  let st1 := match p_starstar p, p_star p with
             | Some _, _ => errorf st RParReqAfterKwargs n
             | None, Some _ => st
             | None, None => if p_seenOpt p then errorf st RParReqAfterOptional n else st
             end in
  params' (bind_dup st1 n x n)
          {| p_seenOpt := p_seenOpt p; p_star := p_star p; p_starstar := p_starstar p; p_nkw := nkw_next p |} r.
Proof. reflexivity. Qed.
Lemma u_pDef st p n x d r :
  params' st p (PDef n x d r) =
  let st1 := match p_starstar p with Some _ => errorf st RParOptAfterKwargs n | None => st end in
  params' (bind_dup st1 n x n)
          {| p_seenOpt := true; p_star := p_star p; p_starstar := p_starstar p; p_nkw := nkw_next p |} r.
Proof. reflexivity. Qed.
Lemma u_pStar st p n name r :
  params' st p (PStar n name r) =
  match p_starstar p, p_star p with
  | Some _, _ => params' (errorf st RParStarAfterKwargs n) p r
  | None, Some _ => params' (errorf st RParMultipleStar n) p r
  | None, None =>
      params' st {| p_seenOpt := p_seenOpt p; p_star := Some (n, name); p_starstar := None; p_nkw := p_nkw p |} r
  end.
Proof. reflexivity. Qed.
Lemma u_pSS st p n nn x r :
  params' st p (PStarStar n nn x r) =
  let st1 := match p_starstar p with Some _ => errorf st RParMultipleKwargs n | None => st end in
  params' st1 {| p_seenOpt := p_seenOpt p; p_star := p_star p; p_starstar := Some (nn, x); p_nkw := p_nkw p |} r.
Proof. reflexivity. Qed.

Lemma u_CNil st : clauses' st CNil = st. Proof. reflexivity. Qed.
Lemma u_CFor st v e r : clauses' st (CFor v e r) = clauses' (expr' (assign' st false v) e) r. Proof. reflexivity. Qed.
Lemma u_CIf st e r : clauses' st (CIf e r) = clauses' (expr' st e) r. Proof. reflexivity. Qed.

Lemma u_LId st aug n x : assign' st aug (LId n x) = snd (bind' st n x). Proof. reflexivity. Qed.
Lemma u_LSeq st aug n ls :
  assign' st aug (LSeq n ls) = assigns' (if aug then errorf st RAugSeq n else st) aug ls.
Proof. reflexivity. Qed.
Lemma u_LExpr st aug es : assign' st aug (LExpr es) = exprs' st es. Proof. reflexivity. Qed.
Lemma u_LBad st aug n : assign' st aug (LBad n) = errorf st RBadAssign n. Proof. reflexivity. Qed.
Lemma u_LNil st aug : assigns' st aug LNil = st. Proof. reflexivity. Qed.
Lemma u_LCons st aug l r : assigns' st aug (LCons l r) = assigns' (assign' st aug l) aug r. Proof. reflexivity. Qed.

Definition gate (st : rs) (r : rule) (n : N) : rs :=
  if negb (o_toplevel_control opts) && negb (in_function st) then errorf st r n else st.

Lemma u_SExpr st e : stmt' st (SExpr e) = expr' st e. Proof. reflexivity. Qed.
Lemma u_SBranch st n : stmt' st (SBranch n) = if loops st =? 0 then errorf st RBranchNotInLoop n else st.
Proof. reflexivity. Qed.
Lemma u_SIf st n c t f :
  stmt' st (SIf n c t f) =
  let st1 := expr' (gate st RIfToplevel n) c in
  let st2 := stmts' (stmts' (set_ifstmts st1 (S (ifstmts st1))) t) f in
  set_ifstmts st2 (pred (ifstmts st2)).
Proof. reflexivity. Qed.
Lemma u_SAssign st aug l e : stmt' st (SAssign aug l e) = assign' (expr' st e) aug l. Proof. reflexivity. Qed.
Lemma u_SDef st n nn x ps body :
  stmt' st (SDef n nn x ps body) =
  let st1 := defaults' (snd (bind' st nn x)) ps in
  leave_fn st1 (stmts' (params' (enter_fn st1) p0 ps) body).
Proof. reflexivity. Qed.
Lemma u_SFor st n vars iter body :
  stmt' st (SFor n vars iter body) =
  let st1 := assign' (expr' (gate st RForToplevel n) iter) false vars in
  let st2 := stmts' (set_loops st1 (S (loops st1))) body in
  set_loops st2 (pred (loops st2)).
Proof. reflexivity. Qed.
Lemma u_SWhile st n c body :
  stmt' st (SWhile n c body) =
  let st0 := if negb (o_while opts) then errorf st RWhileUnsupported n else st in
  let st1 := expr' (gate st0 RWhileToplevel n) c in
  let st2 := stmts' (set_loops st1 (S (loops st1))) body in
  set_loops st2 (pred (loops st2)).
Proof. reflexivity. Qed.
Lemma u_SReturn st n e :
  stmt' st (SReturn n e) =
  let st1 := if negb (in_function st) then errorf st RReturnToplevel n else st in
  match e with Some e => expr' st1 e | None => st1 end.
Proof. reflexivity. Qed.
Lemma u_SLoad st n items :
  stmt' st (SLoad n items) =
  load_items opts (if in_function st then errorf st RLoadInFunction n
                   else if 0 <? loops st then errorf st RLoadInLoop n
                   else if 0 <? ifstmts st then errorf st RLoadInConditional n else st) items.
Proof. reflexivity. Qed.
Lemma u_SNil st : stmts' st SNil = st. Proof. reflexivity. Qed.
Lemma u_SCons st s r : stmts' st (SCons s r) = stmts' (stmt' st s) r. Proof. reflexivity. Qed.

End U.
