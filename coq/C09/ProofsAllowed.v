(* C09 -- an option that is ON never causes a rejection: every reported error's
   rule is one its option vector allows.  (The direction "flag on -> construct
   accepted for that reason" for all six options, including the three that gate
   scoping rules.) *)
From Coq Require Import String Ascii List Bool Arith NArith Lia.
From SV Require Import C09.Syntax C09.Model C09.Spec C09.Unfold C09.Proofs.
Import ListNotations.

Definition allowed (o : options) (r : rule) : bool :=
  match r with
  | RSetUnsupported => negb (o_set o)
  | RWhileUnsupported => negb (o_while o)
  | RIfToplevel | RForToplevel | RWhileToplevel => negb (o_toplevel_control o)
  | RReassign | RLoadReassign => negb (o_global_reassign o)
  | _ => true
  end.

Section A.
Variable opts : options.
Variable W : world.

Definition Pst (st : rs) : Prop := Forall (fun e => allowed opts (fst e) = true) (errs st).

Lemma P_errorf st r n : Pst st -> allowed opts r = true -> Pst (errorf st r n).
Proof. intros H Ha. unfold Pst. simpl. apply Forall_app. split; auto. Qed.

Lemma P_same st st' : errs st' = errs st -> Pst st -> Pst st'.
Proof. unfold Pst. intros ->. auto. Qed.

Lemma P_useToplevel st n x : Pst st -> Pst (useToplevel opts W st n x).
Proof.
  intros H. unfold useToplevel.
  destruct (mem x (fileb st)); auto. destruct (mem x (globals st)); auto.
  destruct (mem x (premem st)); auto.
  destruct (mem x (w_predeclared W)); [try (eapply P_same; [|exact H]; reflexivity)|].
  destruct (mem x (w_universal W)).
  - destruct (negb (o_set opts) && String.eqb x "set") eqn:E.
    + eapply P_same with (st := errorf st RSetUnsupported n); [reflexivity|].
      apply P_errorf; auto. simpl. apply andb_prop in E. tauto.
    + try (eapply P_same; [|exact H]; reflexivity).
  - apply P_errorf; auto.
Qed.

Lemma P_use st n x : Pst st -> Pst (use_ opts W st n x).
Proof.
  intros H. unfold use_. destruct (o_global_reassign opts && _).
  - apply P_useToplevel; auto.
  - try (eapply P_same; [|exact H]; reflexivity).
Qed.

Lemma P_bindLocal st n x : Pst st -> Pst (snd (bindLocal st n x)).
Proof.
  intros H. unfold bindLocal. destruct (env st).
  - destruct (nth_error (blocks st) n0); simpl; auto.
    destruct (mem x (k_names b) || mem x (k_memo b)); exact H.
  - simpl. destruct (mem x (fileb st)); exact H.
Qed.

Lemma P_bind st n x : Pst st -> Pst (snd (bind opts st n x)).
Proof.
  intros H. unfold bind. destruct (env st); [apply P_bindLocal; auto|]. simpl.
  destruct (mem x (fileb st) || mem x (globals st)); simpl.
  - destruct (negb (o_global_reassign opts)) eqn:E; [|exact H]. apply P_errorf; auto.
  - exact H.
Qed.

Lemma P_bind_dup st n x m : Pst st -> Pst (bind_dup opts st n x m).
Proof.
  intros H. unfold bind_dup. destruct (fst (bind opts st n x)).
  - apply P_errorf; [apply P_bind; auto|reflexivity].
  - apply P_bind; auto.
Qed.

Lemma P_pop st : Pst st -> Pst (pop st).
Proof.
  intros H. unfold pop. destruct (env st); auto. destruct (nth_error (blocks st) n); auto.
Qed.

Lemma P_enter st : Pst st -> Pst (enter_fn st).
Proof. intros H. eapply P_same; [|exact H]. reflexivity. Qed.

Lemma P_leave st0 st : Pst st -> Pst (leave_fn st0 st).
Proof. intros H. unfold leave_fn. eapply P_same; [|apply (P_pop st H)]. reflexivity. Qed.

Lemma P_push st b : Pst st -> Pst (push st b).
Proof. intros H. eapply P_same; [|exact H]. reflexivity. Qed.

Lemma P_set_loops st k : Pst st -> Pst (set_loops st k).
Proof. intros H. eapply P_same; [|exact H]. reflexivity. Qed.
Lemma P_set_ifstmts st k : Pst st -> Pst (set_ifstmts st k).
Proof. intros H. eapply P_same; [|exact H]. reflexivity. Qed.

Local Hint Resolve P_use P_bind P_bind_dup P_pop P_enter P_leave P_push P_set_loops P_set_ifstmts : pp.

Ltac errs :=
  repeat match goal with
         | |- Pst (errorf _ _ _) => apply P_errorf; [|reflexivity]
         end.

Theorem allowed_exprs :
  (forall e st, Pst st -> Pst (expr_ opts W st e)) /\
  (forall es st, Pst st -> Pst (exprs_ opts W st es)) /\
  (forall a st ast, Pst st -> Pst (fst (args_ opts W st ast a))) /\
  (forall ps, (forall st, Pst st -> Pst (defaults_ opts W st ps)) /\
              (forall st p, Pst st -> Pst (params_ opts W st p ps))) /\
  (forall cl st, Pst st -> Pst (clauses_ opts W st cl)) /\
  (forall l st aug, Pst st -> Pst (assign_ opts W st aug l)) /\
  (forall ls st aug, Pst st -> Pst (assigns_ opts W st aug ls)).
Proof.
  apply expr_mutind.
  - intros n x st H. rewrite u_EId. auto with pp.
  - intros st H. exact H.
  - intros es IH st H. rewrite u_EOp. auto.
  - intros n f IHf a IHa st H. rewrite u_ECall. cbv zeta.
    assert (H1 : Pst (fst (args_ opts W (expr_ opts W st f) a0 a))) by auto.
    destruct (256 <=? a_p _); destruct (256 <=? a_n _); errs; auto.
  - intros n ps [IHd IHp] body IHb st H. rewrite u_ELambda. cbv zeta. auto 10 with pp.
  - intros n iter IHi vars IHv cl IHc body IHb st H. rewrite u_EComp. auto 10 with pp.
  - intros st H. exact H.
  - intros e IHe r IHr st H. rewrite u_ECons. auto.
  - intros st ast H. rewrite u_ANil. exact H.
  - intros n e IHe r IHr st ast H. rewrite u_APos. cbv zeta. apply IHr. apply IHe.
    destruct (a_seenVar ast); errs; auto. destruct (a_seenKw ast); errs; auto.
    destruct (a_names ast); errs; auto.
  - intros n x e IHe r IHr st ast H. rewrite u_ANamed. cbv zeta. apply IHr. apply IHe.
    assert (H0 : Pst (if a_seenKw ast then errorf st RArgNamedAfterKwargs n
                      else if a_seenVar ast then errorf st RArgNamedAfterStar n else st)).
    { destruct (a_seenKw ast); errs; auto. destruct (a_seenVar ast); errs; auto. }
    destruct (mem x (a_names ast)); errs; auto.
  - intros n e IHe r IHr st ast H. rewrite u_AStar. cbv zeta. apply IHr. apply IHe.
    destruct (a_seenKw ast); errs; auto. destruct (a_seenVar ast); errs; auto.
  - intros n e IHe r IHr st ast H. rewrite u_AStarStar. cbv zeta. apply IHr. apply IHe.
    destruct (a_seenKw ast); errs; auto.
  - split; [intros st H; exact H|].
    intros st p H. rewrite u_pNil. cbv zeta.
    assert (H1 : Pst (match p_star p with
                      | Some (_, Some (an, ax)) => bind_dup opts st an ax an
                      | Some (n, None) => if p_nkw p =? 0 then errorf st RParBareStar n else st
                      | None => st
                      end)).
    { destruct (p_star p) as [[n [[an ax]|]]|]; auto with pp. destruct (p_nkw p =? 0); errs; auto. }
    destruct (p_starstar p) as [[nn x]|]; auto with pp.
  - intros n x r [IHd IHp]. split; [intros st H; rewrite u_dId; auto|].
    intros st p H. rewrite u_pId. cbv zeta. apply IHp. apply P_bind_dup.
    destruct (p_starstar p); errs; auto. destruct (p_star p); auto. destruct (p_seenOpt p); errs; auto.
  - intros n x d IHe r [IHd IHp]. split; [intros st H; rewrite u_dDef; auto|].
    intros st p H. rewrite u_pDef. cbv zeta. apply IHp. apply P_bind_dup.
    destruct (p_starstar p); errs; auto.
  - intros n name r [IHd IHp]. split; [intros st H; rewrite u_dStar; auto|].
    intros st p H. rewrite u_pStar.
    destruct (p_starstar p); [apply IHp; errs; auto|]. destruct (p_star p); apply IHp; errs; auto.
  - intros n nn x r [IHd IHp]. split; [intros st H; rewrite u_dSS; auto|].
    intros st p H. rewrite u_pSS. cbv zeta. apply IHp. destruct (p_starstar p); errs; auto.
  - intros st H. exact H.
  - intros vars IHv iter IHi r IHr st H. rewrite u_CFor. auto.
  - intros c IHc r IHr st H. rewrite u_CIf. auto.
  - intros n x st aug H. rewrite u_LId. auto with pp.
  - intros n ls IH st aug H. rewrite u_LSeq. apply IH. destruct aug; errs; auto.
  - intros es IH st aug H. rewrite u_LExpr. auto.
  - intros n st aug H. rewrite u_LBad. errs; auto.
  - intros st aug H. exact H.
  - intros l IHl r IHr st aug H. rewrite u_LCons. auto.
Qed.

Lemma P_gate st r n :
  Pst st -> (o_toplevel_control opts = false -> allowed opts r = true) -> Pst (gate opts st r n).
Proof.
  intros H Ha. unfold gate. destruct (negb (o_toplevel_control opts) && negb (in_function st)) eqn:E; auto.
  apply P_errorf; auto. apply Ha. apply andb_prop in E. destruct E as [E _].
  destruct (o_toplevel_control opts); [discriminate|reflexivity].
Qed.

Lemma P_load_items items : forall st, Pst st -> Pst (load_items opts st items).
Proof.
  induction items as [|[[[fn from] tn] to] items IH]; intros st H; simpl; auto.
  apply IH.
  assert (H1 : Pst (if starts_with_underscore from then errorf st RLoadUnderscore fn else st))
    by (destruct (starts_with_underscore from); errs; auto).
  destruct (o_load_binds_globally opts); [apply P_bind; auto|].
  destruct (fst (bindLocal _ tn to) && negb (o_global_reassign opts)) eqn:E.
  - apply P_errorf; [apply P_bindLocal; auto|]. simpl. apply andb_prop in E. tauto.
  - apply P_bindLocal; auto.
Qed.

Theorem allowed_stmts :
  (forall s st, Pst st -> Pst (stmt_ opts W st s)) /\
  (forall ss st, Pst st -> Pst (stmts_ opts W st ss)).
Proof.
  destruct allowed_exprs as [AE [AEs [AA [AP [AC [AL ALs]]]]]].
  apply stmt_mutind.
  - intros e st H. rewrite u_SExpr. auto.
  - intros n st H. rewrite u_SBranch. destruct (loops st =? 0); errs; auto.
  - intros n c t IHt f IHf st H. rewrite u_SIf. cbv zeta.
    apply P_set_ifstmts. apply IHf. apply IHt. apply P_set_ifstmts. apply AE.
    apply P_gate; auto. intros E. simpl. rewrite E. reflexivity.
  - intros aug l e st H. rewrite u_SAssign. auto.
  - intros n nn x ps body IHb st H. rewrite u_SDef. cbv zeta. destruct (AP ps) as [APd APp].
    apply P_leave. apply IHb. apply APp. apply P_enter. apply APd. apply P_bind. exact H.
  - intros n vars iter body IHb st H. rewrite u_SFor. cbv zeta.
    apply P_set_loops. apply IHb. apply P_set_loops. apply AL. apply AE.
    apply P_gate; auto. intros E. simpl. rewrite E. reflexivity.
  - intros n c body IHb st H. rewrite u_SWhile. cbv zeta.
    apply P_set_loops. apply IHb. apply P_set_loops. apply AE.
    apply P_gate; [|intros E; simpl; rewrite E; reflexivity].
    destruct (negb (o_while opts)) eqn:E; auto. apply P_errorf; auto.
  - intros n e st H. rewrite u_SReturn. cbv zeta.
    assert (H1 : Pst (if negb (in_function st) then errorf st RReturnToplevel n else st))
      by (destruct (negb (in_function st)); errs; auto).
    destruct e; auto.
  - intros n items st H. rewrite u_SLoad. apply P_load_items.
    destruct (in_function st); errs; auto. destruct (0 <? loops st); errs; auto.
    destruct (0 <? ifstmts st); errs; auto.
  - intros st H. exact H.
  - intros s IHs r IHr st H. rewrite u_SCons. auto.
Qed.

Lemma P_lookup fuel : forall st n x e, Pst st -> Pst (lookupLexical opts W fuel st n x e).
Proof.
  induction fuel as [|f IH]; intros st n x e H; simpl.
  - destruct e as [b|]; [|apply P_useToplevel; auto].
    destruct (nth_error (blocks st) b); auto. destruct (mem x (k_names b0) || mem x (k_memo b0)); auto.
  - destruct e as [b|]; [|apply P_useToplevel; auto].
    destruct (nth_error (blocks st) b); auto. destruct (mem x (k_names b0) || mem x (k_memo b0)); auto.
    eapply P_same; [|apply (IH st n x (k_parent b0) H)]. reflexivity.
Qed.

Lemma P_fold {A} (f : rs -> A -> rs) (l : list A) :
  (forall st a, Pst st -> Pst (f st a)) -> forall st, Pst st -> Pst (fold_left f l st).
Proof. intros Hf. induction l; intros st H; simpl; auto. Qed.

Lemma P_nonlocal fuel : forall st b, Pst st -> Pst (resolveNonLocalUses opts W fuel st b).
Proof.
  induction fuel as [|f IH]; intros st b H; simpl; auto.
  unfold resolve_uses_of. apply P_fold.
  - intros s cu Hs. destruct (match fst cu, b with None, None => true | Some a, Some b0 => a =? b0 | _, _ => false end); auto.
    apply P_lookup; auto.
  - apply P_fold; auto.
Qed.

Lemma flags_on_lemma (p : program) (r : rule) (n : N) :
  In (r, n) (resolve opts W p) -> allowed opts r = true.
Proof.
  intros Hin. unfold resolve in Hin.
  destruct allowed_stmts as [_ AS].
  assert (H : Pst (resolveNonLocalUses opts W (S (length (blocks (stmts_ opts W init p)))) (stmts_ opts W init p) None)).
  { apply P_nonlocal. apply AS. constructor. }
  unfold Pst in H. rewrite Forall_forall in H. apply (H (r, n) Hin).
Qed.

End A.
