(* C09 -- duplicate parameters: while the parameter list of a def or lambda is
   processed (in the fresh function block), the model reports exactly the
   duplicates the specification names (Spec.dup_params). *)
From Coq Require Import String Ascii List Bool Arith NArith Lia.
From SV Require Import C09.Syntax C09.Model C09.Spec C09.Unfold.
Import ListNotations.

Definition od (E : list (rule * N)) : list (rule * N) := filter (fun e => rule_eqb (fst e) RParDuplicate) E.

Lemma od_app a b : od (a ++ b) = od a ++ od b.
Proof. apply filter_app. Qed.

Section D.
Variable opts : options.
Variable W : world.

(* the current block is a function block whose local names are `seen` *)
Definition B (st : rs) (seen : list string) : Prop :=
  exists b k, env st = Some b /\ nth_error (blocks st) b = Some k /\ k_memo k = [] /\
              forall x, mem x (k_names k) = smem x seen.

Definition dsteps (st st' : rs) (V : list (rule * N)) : Prop :=
  exists E, errs st' = errs st ++ E /\ od E = V.

Lemma dsteps_refl st : dsteps st st [].
Proof. exists []. rewrite app_nil_r. auto. Qed.

Lemma dsteps_same st st' : errs st' = errs st -> dsteps st st' [].
Proof. intros H. exists []. rewrite app_nil_r. auto. Qed.

Lemma dsteps_trans a b c V1 V2 : dsteps a b V1 -> dsteps b c V2 -> dsteps a c (V1 ++ V2).
Proof.
  intros [E1 [H1 N1]] [E2 [H2 N2]]. exists (E1 ++ E2). split.
  - rewrite H2, H1, app_assoc. reflexivity.
  - rewrite od_app. congruence.
Qed.

Lemma dsteps_errorf st r n : r <> RParDuplicate -> dsteps st (errorf st r n) [].
Proof.
  intros H. exists [(r, n)]. split; auto. unfold od. simpl.
  unfold rule_eqb. destruct (rule_eq_dec r RParDuplicate); [contradiction|reflexivity].
Qed.

Lemma B_errorf st seen r n : B st seen -> B (errorf st r n) seen.
Proof. intros [b [k H]]. exists b, k. exact H. Qed.

Lemma nth_error_upd_blk_same i f l k :
  nth_error l i = Some k -> nth_error (upd_blk i f l) i = Some (f k).
Proof.
  revert i; induction l as [|a l IH]; intros [|i] H; simpl in *; try discriminate.
  - inversion H; subst. reflexivity.
  - apply IH. exact H.
Qed.

Lemma smem_cons y x seen : smem y (x :: seen) = String.eqb y x || smem y seen.
Proof. reflexivity. Qed.

Lemma mem_app_one y l x : mem y (l ++ [x]) = mem y l || String.eqb y x.
Proof. unfold mem. rewrite existsb_app. simpl. rewrite orb_false_r. reflexivity. Qed.

(* r.bind(param) followed by the duplicate report *)
Lemma bind_dup_spec st seen n x m :
  B st seen ->
  dsteps st (bind_dup opts st n x m) (when (smem x seen) RParDuplicate m) /\
  B (bind_dup opts st n x m) (if smem x seen then seen else x :: seen).
Proof.
  intros [b [k [He [Hk [Hm Hn]]]]]. unfold bind_dup, bind. rewrite He. unfold bindLocal. rewrite He, Hk.
  rewrite Hm. simpl mem at 2. rewrite orb_false_r. rewrite (Hn x).
  destruct (smem x seen) eqn:Es; simpl.
  - split.
    + exists [(RParDuplicate, m)]. split; reflexivity.
    + exists b, k. auto.
  - split.
    + apply dsteps_same. reflexivity.
    + exists b. eexists. split; [exact He|]. split.
      * simpl. apply nth_error_upd_blk_same. exact Hk.
      * simpl. split; auto. intros y. rewrite mem_app_one, Hn. unfold smem. simpl. apply orb_comm.
Qed.

Definition recorded_star (p : pstate) (ps : params) : option (N * string) :=
  match p_star p with
  | Some (_, nm) => nm
  | None => first_star (match p_starstar p with Some _ => true | None => false end) ps
  end.

Definition dup_tail (p : pstate) (seen : list string) (ps : params) : list (rule * N) :=
  let d := dup_regular seen ps in
  let s1 := match recorded_star p ps with
            | Some (an, ax) => (when (smem ax (snd d)) RParDuplicate an, if smem ax (snd d) then snd d else ax :: snd d)
            | None => ([], snd d)
            end in
  fst d ++ fst s1 ++
  match last_ss (p_starstar p) ps with Some (nn, x) => when (smem x (snd s1)) RParDuplicate nn | None => [] end.

Lemma params_dups (ps : params) : forall st p seen,
  B st seen -> dsteps st (params_ opts W st p ps) (dup_tail p seen ps).
Proof.
  induction ps as [|n x r IH|n x d r IH|n name r IH|n nn x r IH]; intros st p seen HB.
  - (* PNil *)
    rewrite u_pNil. cbv zeta. unfold dup_tail, recorded_star. simpl dup_regular. simpl fst. simpl snd.
    simpl first_star. simpl last_ss.
    destruct (p_star p) as [[sn [[an ax]|]]|]; cbn [app fst snd].
    + destruct (bind_dup_spec st seen an ax an HB) as [S1 B1].
      eapply dsteps_trans; [exact S1|].
      destruct (p_starstar p) as [[nn x]|].
      * destruct (bind_dup_spec _ _ nn x nn B1) as [S2 _]. exact S2.
      * apply dsteps_refl.
    + assert (S1 : dsteps st (if p_nkw p =? 0 then errorf st RParBareStar sn else st) []).
      { destruct (p_nkw p =? 0); [apply dsteps_errorf; discriminate|apply dsteps_refl]. }
      assert (B1 : B (if p_nkw p =? 0 then errorf st RParBareStar sn else st) seen).
      { destruct (p_nkw p =? 0); [apply B_errorf|]; exact HB. }
      change (dsteps st
                match p_starstar p with
                | Some (nn, x) => bind_dup opts (if p_nkw p =? 0 then errorf st RParBareStar sn else st) nn x nn
                | None => if p_nkw p =? 0 then errorf st RParBareStar sn else st
                end
                ([] ++ match p_starstar p with
                       | Some (nn, x) => when (smem x seen) RParDuplicate nn
                       | None => []
                       end)).
      eapply dsteps_trans; [exact S1|].
      destruct (p_starstar p) as [[nn x]|].
      * destruct (bind_dup_spec _ _ nn x nn B1) as [S2 _]. exact S2.
      * apply dsteps_refl.
    + destruct (p_starstar p) as [[nn x]|]; simpl.
      * destruct (bind_dup_spec st seen nn x nn HB) as [S2 _]. exact S2.
      * apply dsteps_refl.
  - (* PId *)
    rewrite u_pId. cbv zeta.
    set (st1 := match p_starstar p, p_star p with
                | Some _, _ => errorf st RParReqAfterKwargs n
                | None, Some _ => st
                | None, None => if p_seenOpt p then errorf st RParReqAfterOptional n else st
                end).
    assert (S1 : dsteps st st1 [] /\ B st1 seen).
    { unfold st1. destruct (p_starstar p); [split; [apply dsteps_errorf; discriminate|apply B_errorf; auto]|].
      destruct (p_star p); [split; [apply dsteps_refl|auto]|].
      destruct (p_seenOpt p); [split; [apply dsteps_errorf; discriminate|apply B_errorf; auto]|split; [apply dsteps_refl|auto]]. }
    destruct S1 as [S1 B1].
    destruct (bind_dup_spec st1 seen n x n B1) as [S2 B2].
    set (p' := {| p_seenOpt := p_seenOpt p; p_star := p_star p; p_starstar := p_starstar p; p_nkw := nkw_next p |}).
    replace (dup_tail p seen (PId n x r))
      with ([] ++ when (smem x seen) RParDuplicate n ++ dup_tail p' (if smem x seen then seen else x :: seen) r).
    + eapply dsteps_trans; [exact S1|]. eapply dsteps_trans; [exact S2|]. apply IH. exact B2.
    + unfold dup_tail, recorded_star, p'. simpl. rewrite <- !app_assoc. reflexivity.
  - (* PDef *)
    rewrite u_pDef. cbv zeta.
    set (st1 := match p_starstar p with Some _ => errorf st RParOptAfterKwargs n | None => st end).
    assert (S1 : dsteps st st1 [] /\ B st1 seen).
    { unfold st1. destruct (p_starstar p); [split; [apply dsteps_errorf; discriminate|apply B_errorf; auto]|].
      split; [apply dsteps_refl|auto]. }
    destruct S1 as [S1 B1].
    destruct (bind_dup_spec st1 seen n x n B1) as [S2 B2].
    set (p' := {| p_seenOpt := true; p_star := p_star p; p_starstar := p_starstar p; p_nkw := nkw_next p |}).
    replace (dup_tail p seen (PDef n x d r))
      with ([] ++ when (smem x seen) RParDuplicate n ++ dup_tail p' (if smem x seen then seen else x :: seen) r).
    + eapply dsteps_trans; [exact S1|]. eapply dsteps_trans; [exact S2|]. apply IH. exact B2.
    + unfold dup_tail, recorded_star, p'. simpl. rewrite <- !app_assoc. reflexivity.
  - (* PStar *)
    rewrite u_pStar.
    destruct (p_starstar p) as [ss|] eqn:Ess.
    + replace (dup_tail p seen (PStar n name r)) with ([] ++ dup_tail p seen r).
      * eapply dsteps_trans; [apply (dsteps_errorf st RParStarAfterKwargs n); discriminate|]. apply IH. apply B_errorf. exact HB.
      * unfold dup_tail, recorded_star. rewrite Ess. simpl. reflexivity.
    + destruct (p_star p) as [s0|] eqn:Est.
      * replace (dup_tail p seen (PStar n name r)) with ([] ++ dup_tail p seen r).
        -- eapply dsteps_trans; [apply (dsteps_errorf st RParMultipleStar n); discriminate|]. apply IH. apply B_errorf. exact HB.
        -- unfold dup_tail, recorded_star. rewrite Ess, Est. simpl. reflexivity.
      * set (p' := {| p_seenOpt := p_seenOpt p; p_star := Some (n, name); p_starstar := None; p_nkw := p_nkw p |}).
        replace (dup_tail p seen (PStar n name r)) with (dup_tail p' seen r).
        -- apply IH. exact HB.
        -- unfold dup_tail, recorded_star, p'. rewrite Ess, Est. simpl. reflexivity.
  - (* PStarStar *)
    rewrite u_pSS. cbv zeta.
    set (st1 := match p_starstar p with Some _ => errorf st RParMultipleKwargs n | None => st end).
    assert (S1 : dsteps st st1 [] /\ B st1 seen).
    { unfold st1. destruct (p_starstar p); [split; [apply dsteps_errorf; discriminate|apply B_errorf; auto]|].
      split; [apply dsteps_refl|auto]. }
    destruct S1 as [S1 B1].
    set (p' := {| p_seenOpt := p_seenOpt p; p_star := p_star p; p_starstar := Some (nn, x); p_nkw := p_nkw p |}).
    replace (dup_tail p seen (PStarStar n nn x r)) with ([] ++ dup_tail p' seen r).
    + eapply dsteps_trans; [exact S1|]. apply IH. exact B1.
    + unfold dup_tail, recorded_star, p'. simpl.
      destruct (p_star p) as [[sn nm]|]; simpl; auto;
      try (destruct (p_starstar p); reflexivity).
Qed.

(* on entry to a function (enter_fn: push the function block, reset loops) the block is fresh *)
Lemma B_enter st : B (enter_fn st) [].
Proof.
  unfold enter_fn, B. simpl.
  exists (length (blocks st)). eexists. split; [reflexivity|]. split.
  - rewrite nth_error_app2 by lia. rewrite Nat.sub_diag. reflexivity.
  - simpl. auto.
Qed.

Lemma param_duplicates_lemma (st : rs) (ps : params) :
  exists E, errs (params_ opts W (enter_fn st) p0 ps) = errs (enter_fn st) ++ E /\ od E = dup_params ps.
Proof.
  destruct (params_dups ps (enter_fn st) p0 [] (B_enter st)) as [E [H1 H2]].
  exists E. split; auto.
Qed.

End D.
