(* C09 -- scoping proofs, part 5: on regular programs (ScopeSpec.regular) the
   executable oracle of the check, Spec.scope_viol, calls undefined exactly the
   uses ScopeSpec.undefined_uses lists. *)
From Coq Require Import String Ascii List Bool Arith NArith Lia.
From SV Require Import C09.Syntax C09.Model C09.Spec C09.ScopeSpec C09.Proofs C09.ProofsScopeDefs C09.ProofsScopeDefs2 C09.ProofsScope.
Import ListNotations.

Lemma set_eqb_mem a b : set_eqb a b = true -> forall x, smem x a = smem x b.
Proof.
  unfold set_eqb. rewrite andb_true_iff, !forallb_forall. intros [H1 H2] x.
  destruct (smem x a) eqn:Ea.
  - unfold smem in Ea. apply existsb_exists in Ea. destruct Ea as (y & Hy & He).
    apply String.eqb_eq in He. subst y. symmetry. apply H1. exact Hy.
  - destruct (smem x b) eqn:Eb; auto. unfold smem in Eb. apply existsb_exists in Eb.
    destruct Eb as (y & Hy & He). apply String.eqb_eq in He. subst y. rewrite (H2 x Hy) in Ea. discriminate.
Qed.

Lemma in_when r m (b : bool) r' n : In (r, m) (when b r' n) -> r = r'.
Proof. destruct b; simpl; [intros [H|[]]; inversion H; auto|intros []]. Qed.

Lemma dup_regular_rule ps : forall seen r m, In (r, m) (fst (dup_regular seen ps)) -> r = RParDuplicate.
Proof.
  induction ps; intros seen r m; simpl; try (intros []); eauto.
  - intros H. apply in_app_or in H. destruct H as [H|H]; [eapply in_when; eauto|eauto].
  - intros H. apply in_app_or in H. destruct H as [H|H]; [eapply in_when; eauto|eauto].
Qed.

Lemma dup_params_rule ps r m : In (r, m) (dup_params ps) -> r = RParDuplicate.
Proof.
  unfold dup_params. intros H. apply in_app_or in H. destruct H as [H|H]; [eapply dup_regular_rule; eauto|].
  apply in_app_or in H. destruct H as [H|H].
  - destruct (first_star false ps) as [[an ax]|]; simpl in H; [eapply in_when; eauto|destruct H].
  - destruct (last_ss None ps) as [[nn x]|]; [eapply in_when; eauto|destruct H].
Qed.


(* the per-use verdicts of the oracle: "undefined" and "`set` without the Set option" *)
Definition ubE_und (W : world) (complete : list string) (env : list (list string)) (u : suse) : bool :=
  match s_fl u with
  | Some sofar => tl_undefb W sofar (s_x u)
  | None => negb (existsb (smem (s_x u)) (s_rel u ++ env)) && tl_undefb W complete (s_x u)
  end.
Definition ubE_set (o : options) (W : world) (complete : list string) (env : list (list string)) (u : suse) : bool :=
  negb (o_set o) && String.eqb (s_x u) "set" && negb (smem (s_x u) (w_predeclared W)) && smem (s_x u) (w_universal W) &&
  match s_fl u with
  | Some sofar => negb (smem (s_x u) sofar)
  | None => negb (existsb (smem (s_x u)) (s_rel u ++ env)) && negb (smem (s_x u) complete)
  end.

Lemma ubE_und_under W c env ns u : ubE_und W c env (under ns u) = ubE_und W c (ns :: env) u.
Proof. unfold ubE_und, under. simpl. rewrite <- app_assoc. reflexivity. Qed.
Lemma ubE_set_under o W c env ns u : ubE_set o W c env (under ns u) = ubE_set o W c (ns :: env) u.
Proof. unfold ubE_set, under. simpl. rewrite <- app_assoc. reflexivity. Qed.
Lemma ubE_und_ext W c env ns ns' u :
  (forall x, smem x ns = smem x ns') -> ubE_und W c (ns :: env) u = ubE_und W c (ns' :: env) u.
Proof. intros H. unfold ubE_und. destruct (s_fl u); auto. rewrite !existsb_app. simpl. rewrite H. reflexivity. Qed.
Lemma ubE_set_ext o W c env ns ns' u :
  (forall x, smem x ns = smem x ns') -> ubE_set o W c (ns :: env) u = ubE_set o W c (ns' :: env) u.
Proof. intros H. unfold ubE_set. destruct (s_fl u); auto. rewrite !existsb_app. simpl. rewrite H. reflexivity. Qed.

Lemma use_viol_und0 o W complete env fl n x m :
  fl = None \/ env = [] ->
  (In (RUndefined, m) (use_viol o W complete env fl n x) <-> m = n /\ ubE_und W complete env (mkU n x [] fl) = true).
Proof.
  intros Hc.
  assert (E : ubE_und W complete env (mkU n x [] fl) =
              negb (existsb (smem x) env) && tl_undefb W (match fl with Some s => s | None => complete end) x).
  { unfold ubE_und. simpl. destruct fl; auto. destruct Hc as [Hc|Hc]; [discriminate|]. subst. reflexivity. }
  rewrite E. unfold use_viol, tl_undefb. split.
  - intros Hin.
    destruct (existsb (smem x) env); [destruct Hin|].
    destruct (smem x (match fl with Some s => s | None => complete end)); [destruct Hin|].
    destruct (smem x (w_predeclared W)); [destruct Hin|].
    destruct (smem x (w_universal W)).
    + apply in_when in Hin. discriminate.
    + destruct Hin as [H|[]]. inversion H; subst. simpl. auto.
  - intros [-> Hu]. rewrite !andb_true_iff, !negb_true_iff in Hu. destruct Hu as (H1 & (H2 & H3) & H4).
    rewrite H1, H2, H3, H4. left. reflexivity.
Qed.

Lemma use_viol_set0 o W complete env fl n x m :
  fl = None \/ env = [] ->
  (In (RSetUnsupported, m) (use_viol o W complete env fl n x) <-> m = n /\ ubE_set o W complete env (mkU n x [] fl) = true).
Proof.
  intros Hc.
  assert (E : ubE_set o W complete env (mkU n x [] fl) =
              negb (o_set o) && String.eqb x "set" && negb (smem x (w_predeclared W)) && smem x (w_universal W) &&
              (negb (existsb (smem x) env) && negb (smem x (match fl with Some s => s | None => complete end)))).
  { unfold ubE_set. simpl. destruct fl; auto. destruct Hc as [Hc|Hc]; [discriminate|]. subst. reflexivity. }
  rewrite E. unfold use_viol. split.
  - intros Hin.
    destruct (existsb (smem x) env); [destruct Hin|].
    destruct (smem x (match fl with Some s => s | None => complete end)); [destruct Hin|].
    destruct (smem x (w_predeclared W)); [destruct Hin|].
    destruct (smem x (w_universal W)).
    + unfold when in Hin. destruct (negb (o_set o) && String.eqb x "set"); [|destruct Hin].
      destruct Hin as [H|[]]. inversion H; subst. simpl. auto.
    + destruct Hin as [H|[]]. inversion H.
  - intros [-> Hu]. rewrite !andb_true_iff, !negb_true_iff in Hu.
    destruct Hu as ((((H0 & H1) & H2) & H3) & (H4 & H5)).
    rewrite H4, H5, H2, H3. unfold when. rewrite negb_true_iff in H0 || idtac. 
    assert (Hc2 : negb (o_set o) && String.eqb x "set" = true) by (rewrite H0, H1; reflexivity).
    rewrite Hc2. left. reflexivity.
Qed.

Section B.
Variable o : options.
Variable W : world.
Variable complete : list string.

(* the rule and its per-use verdict: instantiated with RUndefined / ubE_und and RSetUnsupported / ubE_set *)
Variable rr : rule.
Hypothesis rr_ok : rr = RUndefined \/ rr = RSetUnsupported.
Variable ubE : list (list string) -> suse -> bool.
Hypothesis ubE_under : forall env ns u, ubE env (under ns u) = ubE (ns :: env) u.
Hypothesis ubE_ext : forall env ns ns' u, (forall x, smem x ns = smem x ns') -> ubE (ns :: env) u = ubE (ns' :: env) u.
Hypothesis use_viol_rr : forall env fl n x m, fl = None \/ env = [] ->
  (In (rr, m) (use_viol o W complete env fl n x) <-> m = n /\ ubE env (mkU n x [] fl) = true).

Ltac rrd K := destruct rr_ok as [Err|Err]; rewrite Err in K; discriminate.

Definition X (env : list (list string)) (us : list suse) (n : N) : Prop :=
  exists u, In u us /\ s_n u = n /\ ubE env u = true.

Lemma X_nil env n : X env [] n <-> False.
Proof. split; [intros (u & [] & _)|tauto]. Qed.

Lemma X_app env a b n : X env (a ++ b) n <-> X env a n \/ X env b n.
Proof.
  unfold X. split.
  - intros (u & Hin & H). apply in_app_or in Hin. destruct Hin; [left|right]; exists u; auto.
  - intros [(u & Hin & H)|(u & Hin & H)]; exists u; split; auto; apply in_or_app; auto.
Qed.


Lemma X_under env ns us n : X env (map (under ns) us) n <-> X (ns :: env) us n.
Proof.
  unfold X. split.
  - intros (u & Hin & Hn & Hu). apply in_map_iff in Hin. destruct Hin as (v & <- & Hv).
    exists v. rewrite ubE_under in Hu. auto.
  - intros (u & Hin & Hn & Hu). exists (under ns u). rewrite ubE_under. split; [apply in_map; auto|auto].
Qed.

Lemma X_ext env ns ns' us n : (forall x, smem x ns = smem x ns') -> (X (ns :: env) us n <-> X (ns' :: env) us n).
Proof.
  intros H. assert (E : forall u, ubE (ns :: env) u = ubE (ns' :: env) u).
  { intros u. apply ubE_ext. exact H. }
  unfold X. split; intros (u & Hin & Hn & Hu); exists u; [rewrite <- E|rewrite E]; auto.
Qed.

Lemma use_viol_und env fl n x m :
  fl = None \/ env = [] ->
  (In (rr, m) (use_viol o W complete env fl n x) <-> X env [mkU n x [] fl] m).
Proof.
  intros Hc. rewrite (use_viol_rr env fl n x m Hc). unfold X. split.
  - intros [-> H]. exists (mkU n x [] fl). simpl. auto.
  - intros (u & [<-|[]] & Hn & Hu). simpl in Hn. auto.
Qed.

Notation s_expr' := (s_expr o W complete).
Notation s_exprs' := (s_exprs o W complete).
Notation s_args' := (s_args o W complete).
Notation s_defaults' := (s_defaults o W complete).
Notation s_clauses' := (s_clauses o W complete).
Notation s_lhs' := (s_lhs o W complete).
Notation s_lhss' := (s_lhss o W complete).
Notation s_stmt' := (s_stmt o W complete).
Notation s_stmts' := (s_stmts o W complete).


(* unfolding equations of the oracle (simpl does not refold these fixpoints) *)
Lemma q_ECall env fl n f a : s_expr' env fl (ECall n f a) = s_expr' env fl f ++ s_args' env fl a. Proof. reflexivity. Qed.
Lemma q_ELambda env fl n ps body :
  s_expr' env fl (ELambda n ps body) = s_defaults' env fl ps ++ dup_params ps ++ s_expr' (param_names ps :: env) None body.
Proof. reflexivity. Qed.
Lemma q_EComp env fl n iter vars cl body :
  s_expr' env fl (EComp n iter vars cl body) =
  s_expr' env fl iter ++ s_lhs' ((lhs_names vars ++ clause_names cl) :: env) None vars
  ++ s_clauses' ((lhs_names vars ++ clause_names cl) :: env) cl
  ++ s_expr' ((lhs_names vars ++ clause_names cl) :: env) None body.
Proof. reflexivity. Qed.
Lemma q_ECons env fl e r : s_exprs' env fl (ECons e r) = s_expr' env fl e ++ s_exprs' env fl r. Proof. reflexivity. Qed.
Lemma q_APos env fl n e r : s_args' env fl (APos n e r) = s_expr' env fl e ++ s_args' env fl r. Proof. reflexivity. Qed.
Lemma q_ANamed env fl n x e r : s_args' env fl (ANamed n x e r) = s_expr' env fl e ++ s_args' env fl r. Proof. reflexivity. Qed.
Lemma q_AStar env fl n e r : s_args' env fl (AStar n e r) = s_expr' env fl e ++ s_args' env fl r. Proof. reflexivity. Qed.
Lemma q_AStarStar env fl n e r : s_args' env fl (AStarStar n e r) = s_expr' env fl e ++ s_args' env fl r. Proof. reflexivity. Qed.
Lemma q_PDef env fl n x d r : s_defaults' env fl (PDef n x d r) = s_expr' env fl d ++ s_defaults' env fl r. Proof. reflexivity. Qed.
Lemma q_CFor env vars iter r :
  s_clauses' env (CFor vars iter r) = s_lhs' env None vars ++ s_expr' env None iter ++ s_clauses' env r.
Proof. reflexivity. Qed.
Lemma q_CIf env c r : s_clauses' env (CIf c r) = s_expr' env None c ++ s_clauses' env r. Proof. reflexivity. Qed.
Lemma q_LCons env fl l r : s_lhss' env fl (LCons l r) = s_lhs' env fl l ++ s_lhss' env fl r. Proof. reflexivity. Qed.

Definition Und (n : N) (l : list (rule * N)) : Prop := In (rr, n) l.
Lemma Und_app n a b : Und n (a ++ b) <-> Und n a \/ Und n b.
Proof. unfold Und. apply in_app_iff. Qed.
Lemma Und_nil n : Und n [] <-> False.
Proof. unfold Und. simpl. tauto. Qed.

Arguments params_reg : simpl never.

Ltac breg H :=
  simpl in H; repeat (let H' := fresh "Hreg" in apply andb_prop in H; destruct H as [H H']).

Theorem bridge_exprs :
  (forall e, reg_expr e = true -> forall env fl n, fl = None \/ env = [] ->
     (Und n (s_expr' env fl e) <-> X env (uses_expr fl e) n)) /\
  (forall es, reg_exprs es = true -> forall env fl n, fl = None \/ env = [] ->
     (Und n (s_exprs' env fl es) <-> X env (uses_exprs fl es) n)) /\
  (forall a, reg_args a = true -> forall env fl n, fl = None \/ env = [] ->
     (Und n (s_args' env fl a) <-> X env (uses_args fl a) n)) /\
  (forall ps, reg_params ps = true -> forall env fl n, fl = None \/ env = [] ->
     (Und n (s_defaults' env fl ps) <-> X env (uses_defaults fl ps) n)) /\
  (forall cl, reg_clauses cl = true -> forall env n,
     (Und n (s_clauses' env cl) <-> X env (uses_clauses cl) n)) /\
  (forall l, reg_lhs l = true -> forall env n,
     (Und n (s_lhs' env None l) <-> X env (uses_lhs l) n)) /\
  (forall ls, reg_lhss ls = true -> forall env n,
     (Und n (s_lhss' env None ls) <-> X env (uses_lhss ls) n)).
Proof.
  apply expr_mutind.
  - intros n x _ env fl m Hc. apply use_viol_und. exact Hc.
  - intros _ env fl m _. simpl. rewrite Und_nil, X_nil. tauto.
  - intros es IH H env fl m Hc. apply IH; auto.
  - intros n f IHf a IHa H env fl m Hc. breg H. rewrite q_ECall. simpl. rewrite Und_app, X_app, IHf, IHa by auto. tauto.
  - intros n ps IHd body IHb H env fl m Hc. breg H. rewrite q_ELambda. simpl.
    rewrite !Und_app, X_app, X_under, (IHd Hreg0 env fl m Hc), (IHb Hreg (param_names ps :: env) None m) by auto.
    assert (Hp : params_reg ps = true) by (unfold params_reg, set_eqb; rewrite H, Hreg1; reflexivity).
    rewrite (X_ext env _ _ _ m (set_eqb_mem _ _ Hp)).
    assert (D : Und m (dup_params ps) <-> False).
    { split; [|tauto]. intros K. apply dup_params_rule in K. rrd K. }
    rewrite D. tauto.
  - intros n iter IHi vars IHv cl IHc body IHb H env fl m Hc. breg H. rewrite q_EComp. simpl.
    rewrite !Und_app, X_app, X_under, !X_app, (IHi H env fl m Hc), IHv, IHc, IHb by auto. tauto.
  - intros _ env fl m _. simpl. rewrite Und_nil, X_nil. tauto.
  - intros e IHe r IHr H env fl m Hc. breg H. rewrite q_ECons. simpl. rewrite Und_app, X_app, IHe, IHr by auto. tauto.
  - intros _ env fl m _. simpl. rewrite Und_nil, X_nil. tauto.
  - intros n e IHe r IHr H env fl m Hc. breg H. rewrite q_APos. simpl. rewrite Und_app, X_app, IHe, IHr by auto. tauto.
  - intros n x e IHe r IHr H env fl m Hc. breg H. rewrite q_ANamed. simpl. rewrite Und_app, X_app, IHe, IHr by auto. tauto.
  - intros n e IHe r IHr H env fl m Hc. breg H. rewrite q_AStar. simpl. rewrite Und_app, X_app, IHe, IHr by auto. tauto.
  - intros n e IHe r IHr H env fl m Hc. breg H. rewrite q_AStarStar. simpl. rewrite Und_app, X_app, IHe, IHr by auto. tauto.
  - intros _ env fl m _. simpl. rewrite Und_nil, X_nil. tauto.
  - intros n x r IHr H env fl m Hc. simpl in *. apply IHr; auto.
  - intros n x d IHd r IHr H env fl m Hc. breg H. rewrite q_PDef. simpl. rewrite Und_app, X_app, IHd, IHr by auto. tauto.
  - intros n nm r IHr H env fl m Hc. simpl in *. apply IHr; auto.
  - intros n nn x r IHr H env fl m Hc. simpl in *. apply IHr; auto.
  - intros _ env m. simpl. rewrite Und_nil, X_nil. tauto.
  - intros vars IHv iter IHi r IHr H env m. breg H. rewrite q_CFor. simpl.
    rewrite !Und_app, !X_app, IHv, IHi, IHr by auto. tauto.
  - intros c IHc r IHr H env m. breg H. rewrite q_CIf. simpl. rewrite Und_app, X_app, IHc, IHr by auto. tauto.
  - intros n x _ env m. simpl. rewrite Und_nil, X_nil. tauto.
  - intros n ls IH H env m. simpl in *. apply IH; auto.
  - intros es IH H env m. simpl in *. apply IH; auto.
  - intros n _ env m. simpl. rewrite Und_nil, X_nil. tauto.
  - intros _ env m. simpl. rewrite Und_nil, X_nil. tauto.
  - intros l IHl r IHr H env m. breg H. rewrite q_LCons. simpl. rewrite Und_app, X_app, IHl, IHr by auto. tauto.
Qed.

(* ---- statements inside a function ---- *)
Lemma q_SIf env n c t f : s_stmt' env (SIf n c t f) = s_expr' env None c ++ s_stmts' env t ++ s_stmts' env f. Proof. reflexivity. Qed.
Lemma q_SAssign env aug l e : s_stmt' env (SAssign aug l e) = s_expr' env None e ++ s_lhs' env None l. Proof. reflexivity. Qed.
Lemma q_SDef env n nn x ps body :
  s_stmt' env (SDef n nn x ps body) =
  s_defaults' env None ps ++ dup_params ps ++ s_stmts' ((param_names ps ++ bound_stmts body) :: env) body.
Proof. reflexivity. Qed.
Lemma q_SFor env n vars iter body :
  s_stmt' env (SFor n vars iter body) = s_expr' env None iter ++ s_lhs' env None vars ++ s_stmts' env body.
Proof. reflexivity. Qed.
Lemma q_SWhile env n c body : s_stmt' env (SWhile n c body) = s_expr' env None c ++ s_stmts' env body. Proof. reflexivity. Qed.
Lemma q_SCons env s r : s_stmts' env (SCons s r) = s_stmt' env s ++ s_stmts' env r. Proof. reflexivity. Qed.

Lemma params_reg_mem ps body x :
  params_reg ps = true -> smem x (param_names ps ++ bound_stmts body) = smem x (bound_params ps ++ bound_stmts body).
Proof. intros H. rewrite !smem_app, (set_eqb_mem _ _ H). reflexivity. Qed.

Lemma dup_no_und ps m : Und m (dup_params ps) <-> False.
Proof. split; [|tauto]. intros K. apply dup_params_rule in K. rrd K. Qed.

Theorem bridge_stmts :
  (forall s, reg_stmt s = true -> forall env n, Und n (s_stmt' env s) <-> X env (uses_stmt s) n) /\
  (forall ss, reg_stmts ss = true -> forall env n, Und n (s_stmts' env ss) <-> X env (uses_stmts ss) n).
Proof.
  destruct bridge_exprs as (BE & BEs & BA & BP & BC & BL & BLs).
  apply stmt_mutind.
  - intros e H env m. apply BE; auto.
  - intros n _ env m. simpl. rewrite Und_nil, X_nil. tauto.
  - intros n c t IHt f IHf H env m. breg H. rewrite q_SIf. simpl.
    rewrite !Und_app, !X_app, BE, IHt, IHf by auto. tauto.
  - intros aug l e H env m. breg H. rewrite q_SAssign. simpl. rewrite Und_app, X_app, BE, BL by auto. tauto.
  - intros n nn x ps body IHb H env m. simpl in H. apply andb_prop in H. destruct H as [H Hb].
    apply andb_prop in H. destruct H as [Hp Hd]. rewrite q_SDef. simpl.
    rewrite !Und_app, X_app, X_under, dup_no_und, BP, IHb by auto.
    rewrite (X_ext env _ _ _ m (fun x => params_reg_mem ps body x Hp)). tauto.
  - intros n vars iter body IHb H env m. breg H. rewrite q_SFor. simpl.
    rewrite !Und_app, !X_app, BE, BL, IHb by auto. tauto.
  - intros n c body IHb H env m. breg H. rewrite q_SWhile. simpl. rewrite Und_app, X_app, BE, IHb by auto. tauto.
  - intros n [e|] H env m; simpl in *.
    + apply BE; auto.
    + rewrite Und_nil, X_nil. tauto.
  - intros n items _ env m. simpl. rewrite Und_nil, X_nil. tauto.
  - intros _ env m. simpl. rewrite Und_nil, X_nil. tauto.
  - intros s IHs r IHr H env m. breg H. rewrite q_SCons. simpl. rewrite Und_app, X_app, IHs, IHr by auto. tauto.
Qed.

(* ---- file level ---- *)
Notation t_stmt' := (t_stmt o W complete).
Notation t_stmts' := (t_stmts o W complete).

Lemma r_LId g f n x :
  t_bind o g f (LId n x) =
  if smem x f || smem x g then (when (negb (o_global_reassign o)) RReassign n, g) else ([], g ++ [x]).
Proof. reflexivity. Qed.
Lemma r_LCons g f l r :
  t_binds o g f (LCons l r) = (fst (t_bind o g f l) ++ fst (t_binds o (snd (t_bind o g f l)) f r),
                               snd (t_binds o (snd (t_bind o g f l)) f r)).
Proof. reflexivity. Qed.

Lemma v_LCons g f l r :
  tu_lhss o g f (LCons l r) = (fst (tu_lhs o g f l) ++ fst (tu_lhss o (snd (tu_lhs o g f l)) f r),
                              snd (tu_lhss o (snd (tu_lhs o g f l)) f r)).
Proof. reflexivity. Qed.

Lemma t_bind_facts :
  (forall l g f, (forall n, ~ Und n (fst (t_bind o g f l))) /\ snd (t_bind o g f l) = snd (tu_lhs o g f l)) /\
  (forall ls g f, (forall n, ~ Und n (fst (t_binds o g f ls))) /\ snd (t_binds o g f ls) = snd (tu_lhss o g f ls)).
Proof.
  assert (H : (forall e : expr, True) /\ (forall es : exprs, True) /\ (forall a : args, True) /\
              (forall p : params, True) /\ (forall c : clauses, True) /\
              (forall l g f, (forall n, ~ Und n (fst (t_bind o g f l))) /\ snd (t_bind o g f l) = snd (tu_lhs o g f l)) /\
              (forall ls g f, (forall n, ~ Und n (fst (t_binds o g f ls))) /\ snd (t_binds o g f ls) = snd (tu_lhss o g f ls))).
  { apply expr_mutind; try (intros; exact I).
    - intros n x g f. rewrite r_LId. unfold tu_lhs, addg. destruct (smem x f || smem x g); simpl.
      + split; auto. intros m K. apply in_when in K. rrd K.
      + split; auto.
    - intros n ls IH g f. exact (IH g f).
    - intros es _ g f. split; auto.
    - intros n g f. split; auto.
    - intros g f. split; auto.
    - intros l IHl r IHr g f. rewrite r_LCons, v_LCons. destruct (IHl g f) as [A1 A2]. cbn [fst snd].
      rewrite A2. destruct (IHr (snd (tu_lhs o g f l)) f) as [B1 B2]. split; auto.
      intros m K. apply in_app_or in K. destruct K as [K|K]; [apply (A1 m K)|apply (B1 m K)]. }
  tauto.
Qed.

Lemma t_load_und items : forall g f n, ~ Und n (fst (t_load o g f items)).
Proof.
  induction items as [|[[[fn from] tn] to] items IH]; intros g f m; simpl; auto.
  destruct (o_load_binds_globally o).
  - cbv zeta. simpl. intros K. apply in_app_or in K. destruct K as [K|K]; [|apply (IH _ _ _ K)].
    destruct t_bind_facts as [A _]. destruct (A (LId tn to) g f) as [A1 _]. apply (A1 m K).
  - destruct (smem to f).
    + cbv zeta. simpl. intros K. apply in_app_or in K. destruct K as [K|K]; [apply in_when in K; rrd K|apply (IH _ _ _ K)].
    + apply IH.
Qed.

Lemma tu_lhs_off : o_global_reassign o = false ->
  (forall l g f, fst (tu_lhs o g f l) = uses_lhs l) /\ (forall ls g f, fst (tu_lhss o g f ls) = uses_lhss ls).
Proof.
  intros Hoff.
  assert (H : (forall e : expr, True) /\ (forall es : exprs, True) /\ (forall a : args, True) /\
              (forall p : params, True) /\ (forall c : clauses, True) /\
              (forall l g f, fst (tu_lhs o g f l) = uses_lhs l) /\ (forall ls g f, fst (tu_lhss o g f ls) = uses_lhss ls)).
  { apply expr_mutind; try (intros; exact I).
    - intros n x g f. reflexivity.
    - intros n ls IH g f. exact (IH g f).
    - intros es _ g f. simpl. unfold fl_of. rewrite Hoff. reflexivity.
    - intros n g f. reflexivity.
    - intros g f. reflexivity.
    - intros l IHl r IHr g f. rewrite v_LCons. cbn [fst snd]. rewrite IHl, IHr. reflexivity. }
  tauto.
Qed.

Lemma no_use_empty ls : no_use_lhss ls = true ->
  forall env fl g f, s_lhss' env fl ls = [] /\ fst (tu_lhss o g f ls) = [].
Proof.
  assert (H : (forall e : expr, True) /\ (forall es : exprs, True) /\ (forall a : args, True) /\
              (forall p : params, True) /\ (forall c : clauses, True) /\
              (forall l, no_use_lhs l = true -> forall env fl g f, s_lhs' env fl l = [] /\ fst (tu_lhs o g f l) = []) /\
              (forall ls, no_use_lhss ls = true -> forall env fl g f, s_lhss' env fl ls = [] /\ fst (tu_lhss o g f ls) = [])).
  { apply expr_mutind; try (intros; exact I).
    - intros n x _ env fl g f. split; reflexivity.
    - intros n ls0 IH H env fl g f. exact (IH H env fl g f).
    - intros es _ H. discriminate.
    - intros n _ env fl g f. split; reflexivity.
    - intros _ env fl g f. split; reflexivity.
    - intros l IHl r IHr H env fl g f. simpl in H. apply andb_prop in H. destruct H as [H1 H2].
      rewrite q_LCons, v_LCons. cbn [fst snd]. destruct (IHl H1 env fl g f) as [A1 A2]. rewrite A1, A2.
      destruct (IHr H2 env fl (snd (tu_lhs o g f l)) f) as [B1 B2]. rewrite B1, B2. auto. }
  destruct H as (_ & _ & _ & _ & _ & _ & H). exact (H ls).
Qed.

Lemma bridge_lhs_top l : o_global_reassign o = false \/ flat_lhs l = true -> reg_lhs l = true ->
  forall g f n, Und n (s_lhs' [] (fl_of o g f) l) <-> X [] (fst (tu_lhs o g f l)) n.
Proof.
  destruct bridge_exprs as (BE & BEs & BA & BP & BC & BL & BLs).
  intros [Hoff|Hflat] Hreg g f n.
  - destruct (tu_lhs_off Hoff) as [T _]. rewrite T. unfold fl_of. rewrite Hoff. apply BL. exact Hreg.
  - destruct l as [m x|m ls|es|m].
    + change (Und n [] <-> X [] [] n). rewrite Und_nil, X_nil. tauto.
    + destruct (no_use_empty ls Hflat [] (fl_of o g f) g f) as [A B].
      change (Und n (s_lhss' [] (fl_of o g f) ls) <-> X [] (fst (tu_lhss o g f ls)) n). rewrite A, B.
      rewrite Und_nil, X_nil. tauto.
    + change (Und n (s_exprs' [] (fl_of o g f) es) <-> X [] (uses_exprs (fl_of o g f) es) n). apply BEs; auto.
    + change (Und n [] <-> X [] [] n). rewrite Und_nil, X_nil. tauto.
Qed.

Lemma w_SExpr g f e : t_stmt' g f (SExpr e) = (s_expr' [] (fl_of o g f) e, (g, f)). Proof. reflexivity. Qed.
Lemma w_SIf g f n c t e :
  t_stmt' g f (SIf n c t e) =
  (s_expr' [] (fl_of o g f) c ++ fst (t_stmts' g f t)
     ++ fst (t_stmts' (fst (snd (t_stmts' g f t))) (snd (snd (t_stmts' g f t))) e),
   snd (t_stmts' (fst (snd (t_stmts' g f t))) (snd (snd (t_stmts' g f t))) e)).
Proof. reflexivity. Qed.
Lemma w_SAssign g f aug l e :
  t_stmt' g f (SAssign aug l e) =
  (s_expr' [] (fl_of o g f) e ++ s_lhs' [] (fl_of o g f) l ++ fst (t_bind o g f l), (snd (t_bind o g f l), f)).
Proof. reflexivity. Qed.
Lemma w_SDef g f n nn x ps body :
  t_stmt' g f (SDef n nn x ps body) =
  (fst (t_bind o g f (LId nn x)) ++ s_defaults' [] (fl_of o (snd (t_bind o g f (LId nn x))) f) ps ++ dup_params ps
     ++ s_stmts' [param_names ps ++ bound_stmts body] body, (snd (t_bind o g f (LId nn x)), f)).
Proof. reflexivity. Qed.
Lemma w_SFor g f n vars iter body :
  t_stmt' g f (SFor n vars iter body) =
  (s_expr' [] (fl_of o g f) iter ++ s_lhs' [] (fl_of o g f) vars ++ fst (t_bind o g f vars)
     ++ fst (t_stmts' (snd (t_bind o g f vars)) f body),
   snd (t_stmts' (snd (t_bind o g f vars)) f body)).
Proof. reflexivity. Qed.
Lemma w_SWhile g f n c body :
  t_stmt' g f (SWhile n c body) = (s_expr' [] (fl_of o g f) c ++ fst (t_stmts' g f body), snd (t_stmts' g f body)).
Proof. reflexivity. Qed.
Lemma w_SCons g f s r :
  t_stmts' g f (SCons s r) =
  (fst (t_stmt' g f s) ++ fst (t_stmts' (fst (snd (t_stmt' g f s))) (snd (snd (t_stmt' g f s))) r),
   snd (t_stmts' (fst (snd (t_stmt' g f s))) (snd (snd (t_stmt' g f s))) r)).
Proof. reflexivity. Qed.

Lemma x_SIf g f n c t e :
  tu_stmt o g f (SIf n c t e) =
  (uses_expr (fl_of o g f) c ++ fst (tu_stmts o g f t)
     ++ fst (tu_stmts o (fst (snd (tu_stmts o g f t))) (snd (snd (tu_stmts o g f t))) e),
   snd (tu_stmts o (fst (snd (tu_stmts o g f t))) (snd (snd (tu_stmts o g f t))) e)).
Proof. reflexivity. Qed.
Lemma x_SAssign g f aug l e :
  tu_stmt o g f (SAssign aug l e) = (uses_expr (fl_of o g f) e ++ fst (tu_lhs o g f l), (snd (tu_lhs o g f l), f)).
Proof. reflexivity. Qed.
Lemma x_SDef g f n nn x ps body :
  tu_stmt o g f (SDef n nn x ps body) =
  (uses_defaults (fl_of o (addg g f x) f) ps ++ map (under (bound_params ps ++ bound_stmts body)) (uses_stmts body),
   (addg g f x, f)).
Proof. reflexivity. Qed.
Lemma x_SFor g f n vars iter body :
  tu_stmt o g f (SFor n vars iter body) =
  (uses_expr (fl_of o g f) iter ++ fst (tu_lhs o g f vars) ++ fst (tu_stmts o (snd (tu_lhs o g f vars)) f body),
   snd (tu_stmts o (snd (tu_lhs o g f vars)) f body)).
Proof. reflexivity. Qed.
Lemma x_SWhile g f n c body :
  tu_stmt o g f (SWhile n c body) = (uses_expr (fl_of o g f) c ++ fst (tu_stmts o g f body), snd (tu_stmts o g f body)).
Proof. reflexivity. Qed.
Lemma x_SCons g f s r :
  tu_stmts o g f (SCons s r) =
  (fst (tu_stmt o g f s) ++ fst (tu_stmts o (fst (snd (tu_stmt o g f s))) (snd (snd (tu_stmt o g f s))) r),
   snd (tu_stmts o (fst (snd (tu_stmt o g f s))) (snd (snd (tu_stmt o g f s))) r)).
Proof. reflexivity. Qed.

Lemma or_and (A : Prop) (b1 b2 : bool) : A \/ b1 && b2 = true -> (A \/ b1 = true) /\ (A \/ b2 = true).
Proof. intros [H|H]; [tauto|]. apply andb_prop in H. tauto. Qed.

Definition BT (s : stmt) : Prop := reg_stmt s = true -> o_global_reassign o = false \/ flat_stmt s = true ->
  forall g f, snd (t_stmt' g f s) = snd (tu_stmt o g f s) /\
              forall n, Und n (fst (t_stmt' g f s)) <-> X [] (fst (tu_stmt o g f s)) n.
Definition BTs (ss : stmts) : Prop := reg_stmts ss = true -> o_global_reassign o = false \/ flat_stmts ss = true ->
  forall g f, snd (t_stmts' g f ss) = snd (tu_stmts o g f ss) /\
              forall n, Und n (fst (t_stmts' g f ss)) <-> X [] (fst (tu_stmts o g f ss)) n.

Theorem bridge_top : (forall s, BT s) /\ (forall ss, BTs ss).
Proof.
  destruct bridge_exprs as (BE & BEs & BA & BP & BC & BL & BLs).
  destruct bridge_stmts as (BS & BSs).
  destruct t_bind_facts as (TB & TBs).
  apply stmt_mutind.
  - intros e H _ g f. split; [reflexivity|]. intros m.
    change (Und m (s_expr' [] (fl_of o g f) e) <-> X [] (uses_expr (fl_of o g f) e) m). apply BE; auto.
  - intros n _ _ g f. split; [reflexivity|]. intros m. change (Und m [] <-> X [] [] m). rewrite Und_nil, X_nil. tauto.
  - intros n c t IHt e IHe H Hf g f. breg H. simpl in Hf. apply or_and in Hf. destruct Hf as [Hf1 Hf2].
    rewrite w_SIf, x_SIf. cbn [fst snd]. destruct (IHt Hreg0 Hf1 g f) as [A1 A2]. rewrite A1.
    destruct (IHe Hreg Hf2 (fst (snd (tu_stmts o g f t))) (snd (snd (tu_stmts o g f t)))) as [B1 B2].
    split; [exact B1|]. intros m. rewrite !Und_app, !X_app, A2, B2, BE by auto. tauto.
  - intros aug l e H Hf g f. breg H. simpl in Hf. rewrite w_SAssign, x_SAssign. cbn [fst snd]. destruct (TB l g f) as [A1 A2].
    rewrite A2. split; [reflexivity|]. intros m.
    rewrite !Und_app, X_app, BE, (bridge_lhs_top l Hf Hreg g f m) by auto. specialize (A1 m). tauto.
  - intros n nn x ps body _ H _ g f. simpl in H. apply andb_prop in H. destruct H as [H Hb].
    apply andb_prop in H. destruct H as [Hp Hd]. rewrite w_SDef, x_SDef. cbn [fst snd]. destruct (TB (LId nn x) g f) as [A1 A2].
    rewrite A2. change (snd (tu_lhs o g f (LId nn x))) with (addg g f x). split; [reflexivity|]. intros m.
    rewrite !Und_app, X_app, X_under, dup_no_und, BP, BSs by auto.
    rewrite (X_ext [] _ _ _ m (fun y => params_reg_mem ps body y Hp)). specialize (A1 m). tauto.
  - intros n vars iter body IHb H Hf g f. breg H. simpl in Hf. apply or_and in Hf. destruct Hf as [Hf1 Hf2].
    rewrite w_SFor, x_SFor. cbn [fst snd]. destruct (TB vars g f) as [A1 A2]. rewrite A2.
    destruct (IHb Hreg Hf2 (snd (tu_lhs o g f vars)) f) as [B1 B2]. split; [exact B1|]. intros m.
    rewrite !Und_app, !X_app, BE, (bridge_lhs_top vars Hf1 Hreg0 g f m), B2 by auto. specialize (A1 m). tauto.
  - intros n c body IHb H Hf g f. breg H. simpl in Hf. rewrite w_SWhile, x_SWhile. cbn [fst snd].
    destruct (IHb Hreg Hf g f) as [B1 B2]. split; [exact B1|]. intros m. rewrite Und_app, X_app, BE, B2 by auto. tauto.
  - intros n [e|] H _ g f; (split; [reflexivity|]); intros m.
    + change (Und m (s_expr' [] (fl_of o g f) e) <-> X [] (uses_expr (fl_of o g f) e) m). apply BE; auto.
    + change (Und m [] <-> X [] [] m). rewrite Und_nil, X_nil. tauto.
  - intros n items _ _ g f. split; [reflexivity|]. intros m.
    change (Und m (fst (t_load o g f items)) <-> X [] [] m). rewrite X_nil. split; [apply t_load_und|tauto].
  - intros _ _ g f. split; [reflexivity|]. intros m. change (Und m [] <-> X [] [] m). rewrite Und_nil, X_nil. tauto.
  - intros s IHs r IHr H Hf g f. breg H. simpl in Hf. apply or_and in Hf. destruct Hf as [Hf1 Hf2].
    rewrite w_SCons, x_SCons. cbn [fst snd]. destruct (IHs H Hf1 g f) as [A1 A2]. rewrite A1.
    destruct (IHr Hreg Hf2 (fst (snd (tu_stmt o g f s))) (snd (snd (tu_stmt o g f s)))) as [B1 B2].
    split; [exact B1|]. intros m. rewrite Und_app, X_app, A2, B2. tauto.
Qed.

(* ---- rebinding reports: the oracle's are those of ScopeSpec.rebindings, for every program ---- *)
Definition ntr (l : list (rule * N)) : Prop := forall r n, In (r, n) l -> ~ tracked r.
Lemma ntr_nil : ntr [].
Proof. intros r n []. Qed.
Lemma ntr_app a b : ntr a -> ntr b -> ntr (a ++ b).
Proof. intros H1 H2 r n H. apply in_app_or in H. destruct H; eauto. Qed.
Lemma ntr_use_viol env fl n x : ntr (use_viol o W complete env fl n x).
Proof.
  unfold use_viol. destruct (existsb (smem x) env); [apply ntr_nil|].
  destruct (smem x _); [apply ntr_nil|]. destruct (smem x (w_predeclared W)); [apply ntr_nil|].
  destruct (smem x (w_universal W)).
  - intros r m H. apply in_when in H. subst. intros [K|K]; discriminate.
  - intros r m [H|[]]. inversion H; subst. intros [K|K]; discriminate.
Qed.
Lemma ntr_dup ps : ntr (dup_params ps).
Proof. intros r n H. apply dup_params_rule in H. subst. intros [K|K]; discriminate. Qed.

Theorem ntr_exprs :
  (forall e env fl, ntr (s_expr' env fl e)) /\ (forall es env fl, ntr (s_exprs' env fl es)) /\
  (forall a env fl, ntr (s_args' env fl a)) /\ (forall ps env fl, ntr (s_defaults' env fl ps)) /\
  (forall cl env, ntr (s_clauses' env cl)) /\ (forall l env fl, ntr (s_lhs' env fl l)) /\
  (forall ls env fl, ntr (s_lhss' env fl ls)).
Proof.
  apply expr_mutind.
  - intros n x env fl. apply ntr_use_viol.
  - intros env fl. apply ntr_nil.
  - intros es IH env fl. exact (IH env fl).
  - intros n f IHf a IHa env fl. rewrite q_ECall. apply ntr_app; auto.
  - intros n ps IHd body IHb env fl. rewrite q_ELambda. apply ntr_app; auto. apply ntr_app; auto. apply ntr_dup.
  - intros n iter IHi vars IHv cl IHc body IHb env fl. rewrite q_EComp. repeat apply ntr_app; auto.
  - intros env fl. apply ntr_nil.
  - intros e IHe r IHr env fl. rewrite q_ECons. apply ntr_app; auto.
  - intros env fl. apply ntr_nil.
  - intros n e IHe r IHr env fl. rewrite q_APos. apply ntr_app; auto.
  - intros n x e IHe r IHr env fl. rewrite q_ANamed. apply ntr_app; auto.
  - intros n e IHe r IHr env fl. rewrite q_AStar. apply ntr_app; auto.
  - intros n e IHe r IHr env fl. rewrite q_AStarStar. apply ntr_app; auto.
  - intros env fl. apply ntr_nil.
  - intros n x r IHr env fl. exact (IHr env fl).
  - intros n x d IHd r IHr env fl. rewrite q_PDef. apply ntr_app; auto.
  - intros n nm r IHr env fl. exact (IHr env fl).
  - intros n nn x r IHr env fl. exact (IHr env fl).
  - intros env. apply ntr_nil.
  - intros vars IHv iter IHi r IHr env. rewrite q_CFor. repeat apply ntr_app; auto.
  - intros c IHc r IHr env. rewrite q_CIf. apply ntr_app; auto.
  - intros n x env fl. apply ntr_nil.
  - intros n ls IH env fl. exact (IH env fl).
  - intros es IH env fl. exact (IH env fl).
  - intros n env fl. apply ntr_nil.
  - intros env fl. apply ntr_nil.
  - intros l IHl r IHr env fl. rewrite q_LCons. apply ntr_app; auto.
Qed.

Theorem ntr_stmts : (forall s env, ntr (s_stmt' env s)) /\ (forall ss env, ntr (s_stmts' env ss)).
Proof.
  destruct ntr_exprs as (NE & NEs & NA & NP & NC & NL & NLs).
  apply stmt_mutind.
  - intros e env. exact (NE e env None).
  - intros n env. apply ntr_nil.
  - intros n c t IHt f IHf env. rewrite q_SIf. repeat apply ntr_app; auto.
  - intros aug l e env. rewrite q_SAssign. apply ntr_app; auto.
  - intros n nn x ps body IHb env. rewrite q_SDef. apply ntr_app; auto. apply ntr_app; auto. apply ntr_dup.
  - intros n vars iter body IHb env. rewrite q_SFor. repeat apply ntr_app; auto.
  - intros n c body IHb env. rewrite q_SWhile. apply ntr_app; auto.
  - intros n [e|] env; [exact (NE e env None)|apply ntr_nil].
  - intros n items env. apply ntr_nil.
  - intros env. apply ntr_nil.
  - intros s IHs r IHr env. rewrite q_SCons. apply ntr_app; auto.
Qed.

Lemma re_lhs_eq :
  (forall l g f, fst (t_bind o g f l) = re_lhs o g f l) /\ (forall ls g f, fst (t_binds o g f ls) = re_lhss o g f ls).
Proof.
  destruct t_bind_facts as [TB _].
  assert (H : (forall e : expr, True) /\ (forall es : exprs, True) /\ (forall a : args, True) /\
              (forall p : params, True) /\ (forall c : clauses, True) /\
              (forall l g f, fst (t_bind o g f l) = re_lhs o g f l) /\
              (forall ls g f, fst (t_binds o g f ls) = re_lhss o g f ls)).
  { apply expr_mutind; try (intros; exact I).
    - intros n x g f. reflexivity.
    - intros n ls IH g f. exact (IH g f).
    - intros es _ g f. reflexivity.
    - intros n g f. reflexivity.
    - intros g f. reflexivity.
    - intros l IHl r IHr g f. rewrite r_LCons. cbn [fst].
      change (re_lhss o g f (LCons l r)) with (re_lhs o g f l ++ re_lhss o (snd (tu_lhs o g f l)) f r).
      rewrite IHl. destruct (TB l g f) as [_ E]. rewrite E, IHr. reflexivity. }
  tauto.
Qed.

Lemma w_SLoad g f n items : t_stmt' g f (SLoad n items) = t_load o g f items. Proof. reflexivity. Qed.

Theorem thread_eq :
  (forall s g f, snd (t_stmt' g f s) = snd (tu_stmt o g f s)) /\
  (forall ss g f, snd (t_stmts' g f ss) = snd (tu_stmts o g f ss)).
Proof.
  destruct t_bind_facts as (TB & TBs).
  apply stmt_mutind.
  - intros e g f. reflexivity.
  - intros n g f. reflexivity.
  - intros n c t IHt e IHe g f. rewrite w_SIf, x_SIf. cbn [fst snd]. rewrite IHt. apply IHe.
  - intros aug l e g f. rewrite w_SAssign, x_SAssign. cbn [fst snd]. destruct (TB l g f) as [_ E]. rewrite E. reflexivity.
  - intros n nn x ps body _ g f. rewrite w_SDef, x_SDef. cbn [fst snd]. destruct (TB (LId nn x) g f) as [_ E]. rewrite E. reflexivity.
  - intros n vars iter body IHb g f. rewrite w_SFor, x_SFor. cbn [fst snd]. destruct (TB vars g f) as [_ E]. rewrite E. apply IHb.
  - intros n c body IHb g f. rewrite w_SWhile, x_SWhile. cbn [fst snd]. apply IHb.
  - intros n [e|] g f; reflexivity.
  - intros n items g f. reflexivity.
  - intros g f. reflexivity.
  - intros s IHs r IHr g f. rewrite w_SCons, x_SCons. cbn [fst snd]. rewrite IHs. apply IHr.
Qed.

Definition treq (a b : list (rule * N)) : Prop := forall r n, tracked r -> (In (r, n) a <-> In (r, n) b).
Lemma treq_refl a : treq a a.
Proof. intros r n _. tauto. Qed.
Lemma treq_app a a' b b' : treq a a' -> treq b b' -> treq (a ++ b) (a' ++ b').
Proof. intros H1 H2 r n Hr. rewrite !in_app_iff, (H1 r n Hr), (H2 r n Hr). tauto. Qed.
Lemma treq_ntr_l a b b' : ntr a -> treq b b' -> treq (a ++ b) b'.
Proof. intros H1 H2 r n Hr. rewrite in_app_iff, (H2 r n Hr). split; [intros [H|H]; auto; exfalso; eapply H1; eauto|auto]. Qed.
Lemma treq_ntr_nil a : ntr a -> treq a [].
Proof. intros H r n Hr. split; [intros K; exfalso; eapply H; eauto|intros []]. Qed.

Theorem rebind_bridge_stmts :
  (forall s g f, treq (fst (t_stmt' g f s)) (re_stmt o g f s)) /\
  (forall ss g f, treq (fst (t_stmts' g f ss)) (re_stmts o g f ss)).
Proof.
  destruct ntr_exprs as (NE & NEs & NA & NP & NC & NL & NLs).
  destruct ntr_stmts as (NS & NSs).
  destruct re_lhs_eq as (RL & RLs).
  destruct thread_eq as (TQ & TQs).
  destruct t_bind_facts as (TB & TBs).
  apply stmt_mutind.
  - intros e g f. rewrite w_SExpr. cbn [fst]. apply treq_ntr_nil. apply NE.
  - intros n g f. apply treq_refl.
  - intros n c t IHt e IHe g f. rewrite w_SIf. cbn [fst]. apply treq_ntr_l; [apply NE|].
    change (re_stmt o g f (SIf n c t e)) with
      (re_stmts o g f t ++ re_stmts o (fst (snd (tu_stmts o g f t))) (snd (snd (tu_stmts o g f t))) e).
    apply treq_app; [apply IHt|]. rewrite TQs. apply IHe.
  - intros aug l e g f. rewrite w_SAssign. cbn [fst]. apply treq_ntr_l; [apply NE|]. apply treq_ntr_l; [apply NL|].
    rewrite RL. apply treq_refl.
  - intros n nn x ps body _ g f. rewrite w_SDef. cbn [fst].
    change (re_stmt o g f (SDef n nn x ps body)) with (fst (t_bind o g f (LId nn x))).
    intros r m Hr. rewrite in_app_iff. split; auto. intros [H|H]; auto. exfalso.
    apply in_app_or in H. destruct H as [H|H]; [eapply NP; eauto|].
    apply in_app_or in H. destruct H as [H|H]; [eapply ntr_dup; eauto|eapply NSs; eauto].
  - intros n vars iter body IHb g f. rewrite w_SFor. cbn [fst]. apply treq_ntr_l; [apply NE|]. apply treq_ntr_l; [apply NL|].
    change (re_stmt o g f (SFor n vars iter body)) with (re_lhs o g f vars ++ re_stmts o (snd (tu_lhs o g f vars)) f body).
    rewrite RL. apply treq_app; [apply treq_refl|]. destruct (TB vars g f) as [_ E]. rewrite E. apply IHb.
  - intros n c body IHb g f. rewrite w_SWhile. cbn [fst]. apply treq_ntr_l; [apply NE|]. apply IHb.
  - intros n [e|] g f.
    + change (fst (t_stmt' g f (SReturn n (Some e)))) with (s_expr' [] (fl_of o g f) e). apply treq_ntr_nil. apply NE.
    + apply treq_refl.
  - intros n items g f. apply treq_refl.
  - intros g f. apply treq_refl.
  - intros s IHs r IHr g f. rewrite w_SCons. cbn [fst].
    change (re_stmts o g f (SCons s r)) with
      (re_stmt o g f s ++ re_stmts o (fst (snd (tu_stmt o g f s))) (snd (snd (tu_stmt o g f s))) r).
    apply treq_app; [apply IHs|]. rewrite TQ. apply IHr.
Qed.

End B.

Lemma regular_flat o p : regular o p = true -> reg_stmts p = true /\ (o_global_reassign o = false \/ flat_stmts p = true).
Proof.
  unfold regular. intros H. apply andb_prop in H. destruct H as [H1 H2]. split; auto.
  apply orb_prop in H2. destruct H2 as [H2|H2]; auto. left. destruct (o_global_reassign o); auto; discriminate.
Qed.

Lemma scope_viol_bridge (o : options) (W : world) (p : program) :
  regular o p = true ->
  forall n, In (RUndefined, n) (scope_viol o W p) <-> exists u, In u (undefined_uses o W p) /\ s_n u = n.
Proof.
  intros H. destruct (regular_flat o p H) as [H1 Hf].
  destruct (bridge_top o W (bound_stmts p) RUndefined (or_introl eq_refl) (ubE_und W (bound_stmts p))
              (ubE_und_under W _) (ubE_und_ext W _) (use_viol_und0 o W _)) as [_ BTs'].
  destruct (BTs' p H1 Hf [] []) as [_ B].
  intros n. unfold scope_viol. unfold Und in B. rewrite (B n). unfold X, undefined_uses, uses_prog. split.
  - intros (u & Hin & Hn & Hu). exists u. split; auto. apply filter_In. split; auto.
    unfold ubE_und in Hu. unfold unboundb. rewrite app_nil_r in Hu. exact Hu.
  - intros (u & Hin & Hn). apply filter_In in Hin. destruct Hin as [Hin Hu]. exists u. split; auto. split; auto.
    unfold ubE_und. unfold unboundb in Hu. rewrite app_nil_r. exact Hu.
Qed.

Lemma scope_viol_bridge_set (o : options) (W : world) (p : program) :
  regular o p = true ->
  forall n, In (RSetUnsupported, n) (scope_viol o W p) <-> exists u, In u (set_uses o W p) /\ s_n u = n.
Proof.
  intros H. destruct (regular_flat o p H) as [H1 Hf].
  destruct (bridge_top o W (bound_stmts p) RSetUnsupported (or_intror eq_refl) (ubE_set o W (bound_stmts p))
              (ubE_set_under o W _) (ubE_set_ext o W _) (use_viol_set0 o W _)) as [_ BTs'].
  destruct (BTs' p H1 Hf [] []) as [_ B].
  intros n. unfold scope_viol. unfold Und in B. rewrite (B n). unfold X, set_uses, uses_prog.
  assert (E : forall u, ubE_set o W (bound_stmts p) [] u = negb (o_set o) && set_useb W (bound_stmts p) u).
  { intros u. unfold ubE_set, set_useb. rewrite app_nil_r. rewrite <- !andb_assoc. reflexivity. }
  split.
  - intros (u & Hin & Hn & Hu). rewrite E in Hu. apply andb_prop in Hu. destruct Hu as [Ho Hu].
    destruct (o_set o); [discriminate|]. exists u. split; auto. apply filter_In. auto.
  - intros (u & Hin & Hn). destruct (o_set o) eqn:Eo; [destruct Hin|].
    apply filter_In in Hin. destruct Hin as [Hin Hu]. exists u. split; auto. split; auto. rewrite E, Hu. reflexivity.
Qed.

Lemma set_vs_oracle_lemma (o : options) (W : world) (p : program) :
  regular o p = true ->
  (forall n, In (RSetUnsupported, n) (resolve o W p) -> In (RSetUnsupported, n) (scope_viol o W p)) /\
  ((exists n, In (RSetUnsupported, n) (scope_viol o W p)) -> exists n, In (RSetUnsupported, n) (resolve o W p)).
Proof.
  intros Hr. pose proof (scope_viol_bridge_set o W p Hr) as B. destruct (set_main o W p) as (S1 & S2). split.
  - intros n H. apply B. apply S1. exact H.
  - intros (n & H). apply B in H. destruct H as (u & Hu & _). apply S2. intros E. rewrite E in Hu. destruct Hu.
Qed.

Lemma undefined_vs_oracle_lemma (o : options) (W : world) (p : program) :
  regular o p = true ->
  (forall n, In (RUndefined, n) (resolve o W p) -> In (RUndefined, n) (scope_viol o W p)) /\
  ((exists n, In (RUndefined, n) (scope_viol o W p)) -> exists n, In (RUndefined, n) (resolve o W p)).
Proof.
  intros Hr. pose proof (scope_viol_bridge o W p Hr) as B. destruct (undefined_lemma o W p) as (S1 & S2 & _). split.
  - intros n H. apply B. apply S1. exact H.
  - intros (n & H). apply B in H. destruct H as (u & Hu & _). destruct (S2 u Hu) as (u' & _ & _ & K). eauto.
Qed.

Lemma rebind_lemma (o : options) (W : world) (p : program) (r : rule) (n : N) :
  r = RReassign \/ r = RLoadReassign ->
  (In (r, n) (scope_viol o W p) -> In (r, n) (resolve o W p)) /\
  (In (r, n) (resolve o W p) ->
     In (r, n) (scope_viol o W p) \/ (r = RLoadReassign /\ In n (top_fn_loads_stmts p))).
Proof.
  intros Hr. destruct (rebind_main o W p r n Hr) as [A B].
  destruct (rebind_bridge_stmts o W (bound_stmts p) RUndefined (or_introl eq_refl)) as [_ T]. specialize (T p [] [] r n Hr).
  unfold scope_viol, rebindings in *. split.
  - intros H. apply A. apply T. exact H.
  - intros H. apply B in H. destruct H as [H|H]; auto. left. apply T. exact H.
Qed.

Lemma reassign_lemma (o : options) (W : world) (p : program) (n : N) :
  In (RReassign, n) (resolve o W p) <-> In (RReassign, n) (scope_viol o W p).
Proof.
  destruct (rebind_lemma o W p RReassign n (or_introl eq_refl)) as [A B]. split; auto.
  intros H. apply B in H. destruct H as [H|[H _]]; auto. discriminate.
Qed.

Lemma load_reassign_lemma (o : options) (W : world) (p : program) (n : N) :
  top_fn_loads_stmts p = [] ->
  (In (RLoadReassign, n) (resolve o W p) <-> In (RLoadReassign, n) (scope_viol o W p)).
Proof.
  intros Hn. destruct (rebind_lemma o W p RLoadReassign n (or_intror eq_refl)) as [A B]. split; auto.
  intros H. apply B in H. destruct H as [H|[_ H]]; auto. rewrite Hn in H. destruct H.
Qed.

Lemma load_reassign_partial_lemma (o : options) (W : world) (p : program) (n : N) :
  (In (RLoadReassign, n) (scope_viol o W p) -> In (RLoadReassign, n) (resolve o W p)) /\
  (In (RLoadReassign, n) (resolve o W p) ->
     In (RLoadReassign, n) (scope_viol o W p) \/ In n (top_fn_loads_stmts p)) /\
  (top_fn_loads_stmts p = [] ->
     (In (RLoadReassign, n) (resolve o W p) <-> In (RLoadReassign, n) (scope_viol o W p))).
Proof.
  destruct (rebind_lemma o W p RLoadReassign n (or_intror eq_refl)) as [A B]. split; [exact A|]. split.
  - intros H. apply B in H. destruct H as [H|[_ H]]; auto.
  - apply load_reassign_lemma.
Qed.

(* ---- a load statement inside a function is a violation of the placement rules ---- *)
Lemma fn_load_viol (o : options) :
  (forall s c n, c_fn c = true -> In n (fn_loads_stmt s) -> exists e, In e (v_stmt o c s)) /\
  (forall ss c n, c_fn c = true -> In n (fn_loads_stmts ss) -> exists e, In e (v_stmts o c ss)).
Proof.
  apply stmt_mutind.
  - intros e c n _ [].
  - intros m c n _ [].
  - intros m cnd t IHt f IHf c n Hc H. simpl in H. apply in_app_or in H.
    change (v_stmt o c (SIf m cnd t f)) with
      (toplevel_gate o c RIfToplevel m ++ v_expr c cnd ++ v_stmts o (in_if c) t ++ v_stmts o (in_if c) f).
    destruct H as [H|H]; [destruct (IHt (in_if c) n Hc H) as [e He]|destruct (IHf (in_if c) n Hc H) as [e He]];
      exists e; rewrite !in_app_iff; tauto.
  - intros aug l e c n _ [].
  - intros m nn x ps body IHb c n Hc H. simpl in H.
    change (v_stmt o c (SDef m nn x ps body)) with
      (v_defaults c ps ++ v_params [] [] ps ++ v_params_tail ps ++ v_stmts o (in_body c) body).
    destruct (IHb (in_body c) n eq_refl H) as [e He]. exists e. rewrite !in_app_iff. tauto.
  - intros m vars iter body IHb c n Hc H. simpl in H.
    change (v_stmt o c (SFor m vars iter body)) with
      (toplevel_gate o c RForToplevel m ++ v_expr c iter ++ v_lhs c false vars ++ v_stmts o (in_loop c) body).
    destruct (IHb (in_loop c) n Hc H) as [e He]. exists e. rewrite !in_app_iff. tauto.
  - intros m cnd body IHb c n Hc H. simpl in H.
    change (v_stmt o c (SWhile m cnd body)) with
      (when (negb (o_while o)) RWhileUnsupported m ++ toplevel_gate o c RWhileToplevel m
       ++ v_expr c cnd ++ v_stmts o (in_loop c) body).
    destruct (IHb (in_loop c) n Hc H) as [e He]. exists e. rewrite !in_app_iff. tauto.
  - intros m e c n _ [].
  - intros m items c n Hc _. exists (RLoadInFunction, m).
    change (v_stmt o c (SLoad m items)) with
      ((if c_fn c then [(RLoadInFunction, m)] else if c_loop c then [(RLoadInLoop, m)]
        else when (c_if c) RLoadInConditional m)
       ++ flat_map (fun it => match it with (fn, from, _, _) => when (underscore from) RLoadUnderscore fn end) items).
    rewrite Hc. left. reflexivity.
  - intros c n _ [].
  - intros s IHs r IHr c n Hc H. simpl in H. apply in_app_or in H.
    change (v_stmts o c (SCons s r)) with (v_stmt o c s ++ v_stmts o c r).
    destruct H as [H|H]; [destruct (IHs c n Hc H) as [e He]|destruct (IHr c n Hc H) as [e He]];
      exists e; rewrite in_app_iff; tauto.
Qed.

Lemma top_fn_load_viol (o : options) :
  (forall s c n, In n (top_fn_loads_stmt s) -> exists e, In e (v_stmt o c s)) /\
  (forall ss c n, In n (top_fn_loads_stmts ss) -> exists e, In e (v_stmts o c ss)).
Proof.
  destruct (fn_load_viol o) as [_ FL].
  apply stmt_mutind.
  - intros e c n [].
  - intros m c n [].
  - intros m cnd t IHt f IHf c n H. simpl in H. apply in_app_or in H.
    change (v_stmt o c (SIf m cnd t f)) with
      (toplevel_gate o c RIfToplevel m ++ v_expr c cnd ++ v_stmts o (in_if c) t ++ v_stmts o (in_if c) f).
    destruct H as [H|H]; [destruct (IHt (in_if c) n H) as [e He]|destruct (IHf (in_if c) n H) as [e He]];
      exists e; rewrite !in_app_iff; tauto.
  - intros aug l e c n [].
  - intros m nn x ps body _ c n H. simpl in H.
    change (v_stmt o c (SDef m nn x ps body)) with
      (v_defaults c ps ++ v_params [] [] ps ++ v_params_tail ps ++ v_stmts o (in_body c) body).
    destruct (FL body (in_body c) n eq_refl H) as [e He]. exists e. rewrite !in_app_iff. tauto.
  - intros m vars iter body IHb c n H. simpl in H.
    change (v_stmt o c (SFor m vars iter body)) with
      (toplevel_gate o c RForToplevel m ++ v_expr c iter ++ v_lhs c false vars ++ v_stmts o (in_loop c) body).
    destruct (IHb (in_loop c) n H) as [e He]. exists e. rewrite !in_app_iff. tauto.
  - intros m cnd body IHb c n H. simpl in H.
    change (v_stmt o c (SWhile m cnd body)) with
      (when (negb (o_while o)) RWhileUnsupported m ++ toplevel_gate o c RWhileToplevel m
       ++ v_expr c cnd ++ v_stmts o (in_loop c) body).
    destruct (IHb (in_loop c) n H) as [e He]. exists e. rewrite !in_app_iff. tauto.
  - intros m e c n [].
  - intros m items c n [].
  - intros c n [].
  - intros s IHs r IHr c n H. simpl in H. apply in_app_or in H.
    change (v_stmts o c (SCons s r)) with (v_stmt o c s ++ v_stmts o c r).
    destruct H as [H|H]; [destruct (IHs c n H) as [e He]|destruct (IHr c n H) as [e He]];
      exists e; rewrite in_app_iff; tauto.
Qed.
