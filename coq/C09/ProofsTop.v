(* C09 -- the statements of Properties.v. *)
From Coq Require Import String Ascii List Bool Arith NArith Lia.
From SV Require Import C09.Syntax C09.Model C09.Spec C09.Proofs C09.Recursion C09.RecursionProofs.
Import ListNotations.

Lemma sound_complete_lemma :
  forall (o : options) (W : world) (p : program) (r : rule) (n : N),
    scoping_rule r = false ->
    (In (r, n) (resolve o W p) <-> violates o p r n).
Proof.
  intros o W p r n Hr. unfold violates. rewrite <- (resolve_nonscoping o W p). unfold ns.
  rewrite filter_In. simpl. rewrite Hr. simpl. tauto.
Qed.

Lemma accepted_no_violation_lemma :
  forall (o : options) (W : world) (p : program), resolve o W p = [] -> viol o p = [].
Proof. intros o W p H. rewrite <- (resolve_nonscoping o W p), H. reflexivity. Qed.

(* the pipeline of ExecFileOptions / SourceProgramOptions: parse, resolve; only
   if the resolver returned no error, compile and run (exec = everything the
   compiled program does to the host, abstractly) *)
Definition pipeline {effect : Type} (exec : program -> list effect) (o : options) (W : world) (p : program)
  : list (rule * N) * list effect :=
  match resolve o W p with
  | [] => ([], exec p)
  | errs => (errs, [])
  end.

Lemma reject_before_run_lemma :
  forall (effect : Type) (exec : program -> list effect) (o : options) (W : world) (p : program),
    resolve o W p <> [] ->
    pipeline exec o W p = (resolve o W p, []).
Proof.
  intros effect exec o W p H. unfold pipeline. destruct (resolve o W p); [contradiction|reflexivity].
Qed.

Lemma violation_no_effect_lemma :
  forall (effect : Type) (exec : program -> list effect) (o : options) (W : world) (p : program) r n,
    scoping_rule r = false -> violates o p r n ->
    snd (pipeline exec o W p) = [].
Proof.
  intros effect exec o W p r n Hr Hv.
  apply (sound_complete_lemma o W p r n Hr) in Hv.
  unfold pipeline. destruct (resolve o W p); [contradiction|reflexivity].
Qed.
