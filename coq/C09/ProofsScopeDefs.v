(* C09 -- scoping proofs, part 1: the invariant of the resolver walk.
   R st st' ns us g f  relates the state before and after walking a construct:
   the block table only grows, only the current block gains names (the set ns),
   the identifier uses of the construct (ScopeSpec: us) are either resolved at
   once (file level under GlobalReassign) or deferred to the end-of-module pass
   with an environment whose chain of blocks carries exactly the binding sets
   the specification lists. *)
From Coq Require Import String Ascii List Bool Arith NArith Lia.
From SV Require Import C09.Syntax C09.Model C09.Spec C09.ScopeSpec C09.Unfold C09.Proofs.
Import ListNotations.

Lemma smem_app x a b : smem x (a ++ b) = smem x a || smem x b.
Proof. unfold smem. apply existsb_app. Qed.

Lemma nth_error_upd_blk_other i j f l : i <> j -> nth_error (upd_blk i f l) j = nth_error l j.
Proof.
  revert i j; induction l as [|a l IH]; intros [|i] [|j] H; simpl; auto; try congruence.
Qed.

Lemma length_upd_blk i f l : length (upd_blk i f l) = length l.
Proof. revert i; induction l as [|a l IH]; intros [|i]; simpl; auto. Qed.

Lemma Forall2_map_r {A B C} (P : A -> C -> Prop) (f : B -> C) l1 l2 :
  Forall2 (fun a b => P a (f b)) l1 l2 -> Forall2 P l1 (map f l2).
Proof. induction 1; simpl; constructor; auto. Qed.

Lemma Forall2_imp {A B} (P Q : A -> B -> Prop) l1 l2 :
  (forall a b, P a b -> Q a b) -> Forall2 P l1 l2 -> Forall2 Q l1 l2.
Proof. intros H. induction 1; constructor; auto. Qed.

Lemma filter_map_comm {A B} (p : B -> bool) (q : A -> bool) (f : A -> B) l :
  (forall a, p (f a) = q a) -> filter p (map f l) = map f (filter q l).
Proof. intros H. induction l as [|a l IH]; simpl; auto. rewrite H. destruct (q a); simpl; congruence. Qed.

Section D.
Variable opts : options.
Variable W : world.

Definition top (st : rs) : bool := match env st with None => true | Some _ => false end.
Definition flof (st : rs) : option (list string) :=
  if top st then fl_of opts (globals st) (fileb st) else None.
Definition und (st : rs) (n : N) : Prop := In (RUndefined, n) (errs st).

Definition WF (st : rs) : Prop :=
  (forall b, env st = Some b -> b < length (blocks st)) /\
  (forall i k, nth_error (blocks st) i = Some k -> k_memo k = [] /\ forall p, k_parent k = Some p -> p < i) /\
  (forall x, mem x (premem st) = true -> mem x (w_predeclared W) || mem x (w_universal W) = true).

Definition Frame (ns : list string) (st st' : rs) : Prop :=
  env st' = env st /\ length (blocks st) <= length (blocks st') /\
  (forall i, i < length (blocks st) -> Some i <> env st -> nth_error (blocks st') i = nth_error (blocks st) i) /\
  (forall b k, env st = Some b -> nth_error (blocks st) b = Some k ->
     exists k', nth_error (blocks st') b = Some k' /\ k_parent k' = k_parent k /\
                forall x, mem x (k_names k') = mem x (k_names k) || smem x ns).

Lemma Frame_trans ns1 ns2 st st1 st2 : Frame ns1 st st1 -> Frame ns2 st1 st2 -> Frame (ns1 ++ ns2) st st2.
Proof.
  intros (E1 & L1 & O1 & N1) (E2 & L2 & O2 & N2). split; [congruence|]. split; [lia|]. split.
  - intros i Hi Hne. rewrite O2; [apply O1; auto| lia | congruence].
  - intros b k He Hk. destruct (N1 b k He Hk) as (k1 & Hk1 & P1 & M1).
    destruct (N2 b k1 (eq_trans E1 He) Hk1) as (k2 & Hk2 & P2 & M2).
    exists k2. split; [auto|]. split; [congruence|].
    intros x. rewrite M2, M1, smem_app, orb_assoc. reflexivity.
Qed.

(* the chain of blocks from e up to e0 carries the binding sets rel (innermost first) *)
Fixpoint Path (BL : list blk) (base : nat) (e : option nat) (rel : list (list string)) (e0 : option nat) : Prop :=
  match rel with
  | [] => e = e0
  | ns :: rel' => exists b k, e = Some b /\ base <= b /\ nth_error BL b = Some k /\
                   (forall x, mem x (k_names k) = smem x ns) /\ Path BL base (k_parent k) rel' e0
  end.

Lemma Path_stable BL BL' base e rel e0 :
  (forall b, base <= b -> b < length BL -> nth_error BL' b = nth_error BL b) ->
  Path BL base e rel e0 -> Path BL' base e rel e0.
Proof.
  intros H. revert e. induction rel as [|ns rel IH]; intros e; simpl; auto.
  intros (b & k & He & Hb & Hk & Hn & Hp). exists b, k. repeat split; auto.
  rewrite H; auto. apply nth_error_Some. congruence.
Qed.

Lemma Path_base BL base base' e rel e0 : base' <= base -> Path BL base e rel e0 -> Path BL base' e rel e0.
Proof.
  intros H. revert e. induction rel as [|ns rel IH]; intros e; simpl; auto.
  intros (b & k & He & Hb & Hk & Hn & Hp). exists b, k. repeat split; auto. lia.
Qed.

Lemma Path_snoc BL b1 b0 e rel id k ns e0 :
  Path BL b1 e rel (Some id) -> b0 <= b1 -> b0 <= id -> nth_error BL id = Some k ->
  (forall x, mem x (k_names k) = smem x ns) -> k_parent k = e0 ->
  Path BL b0 e (rel ++ [ns]) e0.
Proof.
  intros HP H01 H0i Hk Hn Hpar. revert e HP. induction rel as [|m rel IH]; intros e; simpl.
  - intros ->. exists id, k. repeat split; auto.
  - intros (b & k' & He & Hb & Hk' & Hn' & Hp). exists b, k'. repeat split; auto. lia.
Qed.

Definition URel (BL : list blk) (base : nat) (e0 : option nat) (cu : option nat * use) (s : suse) : Prop :=
  u_node (snd cu) = s_n s /\ u_name (snd cu) = s_x s /\ Path BL base (u_env (snd cu)) (s_rel s) e0 /\
  (forall i, fst cu = Some i -> i < length BL).

Definition deferred (u : suse) : bool := match s_fl u with None => true | Some _ => false end.
Definition tl_undef (g : list string) (x : string) : Prop :=
  smem x g = false /\ mem x (w_predeclared W) = false /\ mem x (w_universal W) = false.
Definition ImmUndef (n : N) (us : list suse) : Prop :=
  exists u g, In u us /\ s_n u = n /\ s_fl u = Some g /\ tl_undef g (s_x u).

Lemma ImmUndef_app n a b : ImmUndef n (a ++ b) <-> ImmUndef n a \/ ImmUndef n b.
Proof.
  unfold ImmUndef. split.
  - intros (u & g & Hin & H). apply in_app_or in Hin. destruct Hin; [left|right]; exists u, g; auto.
  - intros [(u & g & Hin & H)|(u & g & Hin & H)]; exists u, g; split; auto; apply in_or_app; auto.
Qed.

Lemma ImmUndef_nil n : ImmUndef n [] <-> False.
Proof. split; [intros (u & g & [] & _)|tauto]. Qed.

Lemma ImmUndef_under n ns us : ImmUndef n (map (under ns) us) <-> ImmUndef n us.
Proof.
  unfold ImmUndef. split.
  - intros (u & g & Hin & H). apply in_map_iff in Hin. destruct Hin as (v & <- & Hv). exists v, g. auto.
  - intros (u & g & Hin & H). exists (under ns u), g. split; [apply in_map; auto|exact H].
Qed.

Definition Uses (st st' : rs) (us : list suse) : Prop :=
  (exists U, buses st' = buses st ++ U /\
             Forall2 (URel (blocks st') (length (blocks st)) (env st)) U (filter deferred us)) /\
  (forall n, und st' n <-> und st n \/ ImmUndef n us).

Definition R (st st' : rs) (ns : list string) (us : list suse) (g f : list string) : Prop :=
  WF st' /\ Frame ns st st' /\ globals st' = g /\ fileb st' = f /\ Uses st st' us.

(* states that differ in nothing the invariant looks at *)
Definition Neutral (st st' : rs) : Prop :=
  blocks st' = blocks st /\ env st' = env st /\ globals st' = globals st /\ fileb st' = fileb st /\
  premem st' = premem st /\ buses st' = buses st /\ forall n, und st' n <-> und st n.

Lemma Neutral_refl st : Neutral st st.
Proof. repeat split; auto. Qed.

Lemma Neutral_trans a b c : Neutral a b -> Neutral b c -> Neutral a c.
Proof.
  intros (A1 & A2 & A3 & A4 & A5 & A6 & A7) (B1 & B2 & B3 & B4 & B5 & B6 & B7).
  repeat split; try congruence; intros H; [apply A7, B7|apply B7, A7]; auto.
Qed.

Lemma Neutral_errorf st r n : r <> RUndefined -> Neutral st (errorf st r n).
Proof.
  intros H. repeat split; auto; unfold und; simpl.
  - intros Hin. apply in_app_or in Hin. destruct Hin as [|[E|[]]]; auto. inversion E; congruence.
  - intros Hin. apply in_or_app. auto.
Qed.

Lemma Neutral_if (b : bool) st st1 : Neutral st st1 -> Neutral st (if b then st1 else st).
Proof. destruct b; auto using Neutral_refl. Qed.

Lemma WF_Neutral st st' : Neutral st st' -> WF st -> WF st'.
Proof. intros (A1 & A2 & A3 & A4 & A5 & A6 & A7). unfold WF. rewrite A1, A2, A5. auto. Qed.

Lemma R_pre st st0 st' ns us g f : Neutral st st0 -> R st0 st' ns us g f -> R st st' ns us g f.
Proof.
  intros (A1 & A2 & A3 & A4 & A5 & A6 & A7) (Hw & Hf & Hg & Hfb & (U & HU & HF) & Hu).
  split; auto. split; [|split; [auto|split; [auto|split]]].
  - unfold Frame in *. rewrite A1, A2 in Hf. exact Hf.
  - exists U. rewrite <- A6, <- A1, <- A2. auto.
  - intros n. rewrite Hu, A7. tauto.
Qed.

Lemma R_post st st1 st' ns us g f : R st st1 ns us g f -> Neutral st1 st' -> R st st' ns us g f.
Proof.
  intros (Hw & Hf & Hg & Hfb & (U & HU & HF) & Hu) N. pose proof N as (A1 & A2 & A3 & A4 & A5 & A6 & A7).
  split; [eapply WF_Neutral; eauto|]. split; [|split; [congruence|split; [congruence|split]]].
  - unfold Frame in *. rewrite A1, A2. exact Hf.
  - exists U. rewrite A6, A1. auto.
  - intros n. rewrite A7. apply Hu.
Qed.

Lemma R_neutral st st' : WF st -> Neutral st st' -> R st st' [] [] (globals st) (fileb st).
Proof.
  intros Hw N. pose proof N as (A1 & A2 & A3 & A4 & A5 & A6 & A7).
  split; [eapply WF_Neutral; eauto|]. split; [|split; [auto|split; [auto|split]]].
  - unfold Frame. rewrite A1, A2. repeat split; auto.
    intros b k He Hk. exists k. repeat split; auto. intros x. simpl. rewrite orb_false_r. reflexivity.
  - exists []. rewrite app_nil_r. split; auto. simpl. constructor.
  - intros n. rewrite A7, ImmUndef_nil. tauto.
Qed.

Lemma R_trans st st1 st2 ns1 ns2 us1 us2 g1 f1 g2 f2 :
  WF st -> R st st1 ns1 us1 g1 f1 -> R st1 st2 ns2 us2 g2 f2 -> R st st2 (ns1 ++ ns2) (us1 ++ us2) g2 f2.
Proof.
  intros Hw0 (Hw1 & Hf1 & Hg1 & Hb1 & (U1 & HU1 & HF1) & Hu1) (Hw2 & Hf2 & Hg2 & Hb2 & (U2 & HU2 & HF2) & Hu2).
  split; auto. split; [eapply Frame_trans; eauto|]. split; auto. split; auto. split.
  - exists (U1 ++ U2). split; [rewrite HU2, HU1, app_assoc; reflexivity|].
    rewrite filter_app. apply Forall2_app.
    + destruct Hf1 as (E1 & L1 & O1 & N1). destruct Hf2 as (E2 & L2 & O2 & N2).
      eapply Forall2_imp; [|exact HF1]. intros cu s (Hn & Hx & Hp & Hc). repeat split; auto.
      * eapply Path_stable; [|exact Hp]. intros b Hb Hlt. apply O2; auto.
        rewrite E1. intros Heq. destruct Hw0 as (W1 & _). specialize (W1 b (eq_sym Heq)). lia.
      * intros i Hi. specialize (Hc i Hi). lia.
    + destruct Hf1 as (E1 & L1 & O1 & N1).
      eapply Forall2_imp; [|exact HF2]. intros cu s (Hn & Hx & Hp & Hc). repeat split; auto.
      rewrite <- E1. eapply Path_base; [|exact Hp]. exact L1.
  - intros n. rewrite Hu2, Hu1, ImmUndef_app. tauto.
Qed.

(* the continuation form used in the walk: the facts about the middle state are handed on *)
Lemma R_then st st1 st2 ns1 ns2 us1 us2 g1 f1 g2 f2 :
  WF st -> R st st1 ns1 us1 g1 f1 ->
  (WF st1 -> env st1 = env st -> globals st1 = g1 -> fileb st1 = f1 -> R st1 st2 ns2 us2 g2 f2) ->
  R st st2 (ns1 ++ ns2) (us1 ++ us2) g2 f2.
Proof.
  intros Hw H1 H2. eapply R_trans; eauto. destruct H1 as (Hw1 & (E1 & _) & Hg1 & Hb1 & _). apply H2; auto.
Qed.

Lemma R_ns st st' ns ns' us g f : (forall x, smem x ns = smem x ns') -> R st st' ns us g f -> R st st' ns' us g f.
Proof.
  intros H (Hw & (E & L & O & N) & Hr). split; auto. split; auto. repeat split; auto.
  intros b k He Hk. destruct (N b k He Hk) as (k' & A & B & C). exists k'. repeat split; auto.
  intros x. rewrite C, H. reflexivity.
Qed.

Lemma flof_tr st st1 fl :
  fl = flof st -> env st1 = env st -> globals st1 = globals st -> fileb st1 = fileb st -> fl = flof st1.
Proof. intros -> E G F. unfold flof, top. rewrite E, G, F. reflexivity. Qed.

Lemma top_tr st st1 b : top st = b -> env st1 = env st -> top st1 = b.
Proof. unfold top. intros H ->. exact H. Qed.

(* ---- entering and leaving a block ---- *)
Lemma WF_push st isfn : WF st -> WF (push st isfn).
Proof.
  intros (W1 & W2 & W3). split; [|split]; simpl; auto.
  - intros b Hb. inversion Hb; subst. rewrite app_length. simpl. lia.
  - intros i k Hk. destruct (Nat.lt_ge_cases i (length (blocks st))) as [Hlt|Hge].
    + rewrite nth_error_app1 in Hk by auto. eauto.
    + rewrite nth_error_app2 in Hk by auto. destruct (i - length (blocks st)) eqn:Ei; simpl in Hk.
      * inversion Hk; subst; simpl. split; auto. intros p Hp. specialize (W1 p Hp). lia.
      * destruct n; discriminate.
Qed.

Lemma R_block st isfn st_out ns us g f :
  WF st -> R (push st isfn) st_out ns us g f -> R st (pop st_out) [] (map (under ns) us) g f.
Proof.
  intros Hw (Hw2 & (E & L & O & N) & Hg & Hfb & (U & HU & HF) & Hu).
  set (id := length (blocks st)) in *.
  assert (Hid : nth_error (blocks (push st isfn)) id =
                Some {| k_parent := env st; k_isfn := isfn; k_names := []; k_memo := [] |}).
  { simpl. rewrite nth_error_app2 by (unfold id; lia). replace (id - length (blocks st)) with 0 by (unfold id; lia).
    reflexivity. }
  destruct (N id _ eq_refl Hid) as (k' & Hk' & Hpar & Hnames). simpl in Hpar, Hnames.
  assert (Hlen : S id <= length (blocks st_out)).
  { simpl in L. rewrite app_length in L. simpl in L. unfold id. lia. }
  assert (Hpop : env (pop st_out) = env st).
  { unfold pop. rewrite E. simpl. fold id. rewrite Hk'. simpl. exact Hpar. }
  assert (Hblk : blocks (pop st_out) = blocks st_out).
  { unfold pop. destruct (env st_out); auto. destruct (nth_error (blocks st_out) n); auto. }
  assert (Hsame : forall X (pr : rs -> X), (forall s e, pr (set_env s e) = pr s) -> pr (pop st_out) = pr st_out).
  { intros X pr Hpr. unfold pop. destruct (env st_out); auto. destruct (nth_error (blocks st_out) n); auto. }
  assert (Hold : forall i, i < id -> nth_error (blocks st_out) i = nth_error (blocks st) i).
  { intros i Hi. rewrite O.
    - simpl. apply nth_error_app1. exact Hi.
    - simpl. rewrite app_length. simpl. fold id. lia.
    - simpl. fold id. intros Heq. inversion Heq. lia. }
  destruct Hw as (W1 & W2 & W3). destruct Hw2 as (V1 & V2 & V3).
  split; [|split; [|split; [|split; [|split]]]].
  - split; [|split].
    + rewrite Hpop, Hblk. intros b Hb. specialize (W1 b Hb). fold id in W1. lia.
    + rewrite Hblk. exact V2.
    + rewrite (Hsame _ premem) by reflexivity. exact V3.
  - split; [exact Hpop|]. rewrite Hblk. split; [fold id; lia|]. split.
    + intros i Hi _. apply Hold. exact Hi.
    + intros b k He Hk. exists k. split; [|split].
      * rewrite Hold; auto.
      * reflexivity.
      * intros x. simpl. rewrite orb_false_r. reflexivity.
  - rewrite (Hsame _ globals) by reflexivity. exact Hg.
  - rewrite (Hsame _ fileb) by reflexivity. exact Hfb.
  - exists U. rewrite (Hsame _ buses) by reflexivity. split; [exact HU|]. rewrite Hblk.
    rewrite (filter_map_comm deferred deferred (under ns)) by reflexivity.
    apply Forall2_map_r. eapply Forall2_imp; [|exact HF].
    intros cu s (Hn & Hx & Hp & Hc). repeat split; auto. simpl.
    eapply Path_snoc; [exact Hp| | |exact Hk'| |exact Hpar].
    + simpl. rewrite app_length. simpl. fold id. lia.
    + fold id. lia.
    + intros x. rewrite Hnames. reflexivity.
  - intros n. unfold und in *. rewrite (Hsame _ errs) by reflexivity. rewrite ImmUndef_under. apply Hu.
Qed.

(* ---- use ---- *)
Lemma container_from_lt fuel bl e i : container_from fuel bl e = Some i -> i < length bl.
Proof.
  revert e. induction fuel as [|fu IH]; intros [b|]; simpl; try discriminate.
  - destruct (nth_error bl b) eqn:E; try discriminate. destruct (k_isfn b0); try discriminate.
    intros H. inversion H; subst. apply nth_error_Some. congruence.
  - destruct (nth_error bl b) eqn:E; try discriminate. destruct (k_isfn b0).
    + intros H. inversion H; subst. apply nth_error_Some. congruence.
    + apply IH.
Qed.

Lemma Frame_refl st : Frame [] st st.
Proof.
  repeat split; auto. intros b k He Hk. exists k. repeat split; auto.
  intros x. simpl. rewrite orb_false_r. reflexivity.
Qed.

Lemma R_useToplevel st n x g :
  WF st -> smem x g = mem x (fileb st) || mem x (globals st) ->
  R st (useToplevel opts W st n x) [] [mkU n x [] (Some g)] (globals st) (fileb st).
Proof.
  intros Hw Hg.
  assert (Key : forall st', blocks st' = blocks st -> env st' = env st -> globals st' = globals st ->
                 fileb st' = fileb st -> buses st' = buses st ->
                 (forall y, mem y (premem st') = true -> mem y (w_predeclared W) || mem y (w_universal W) = true) ->
                 (forall m, und st' m <-> und st m \/ (m = n /\ tl_undef g x)) ->
                 R st st' [] [mkU n x [] (Some g)] (globals st) (fileb st)).
  { intros st' B E G F U P Hu. destruct Hw as (W1 & W2 & W3).
    split; [|split; [|split; [auto|split; [auto|split]]]].
    - unfold WF. rewrite B, E. auto.
    - pose proof (Frame_refl st) as Fr. unfold Frame in *. rewrite B, E. exact Fr.
    - exists []. rewrite app_nil_r. split; auto. simpl. constructor.
    - intros m. rewrite Hu. unfold ImmUndef. split.
      + intros [H|[-> H]]; auto. right. exists (mkU n x [] (Some g)), g. simpl. auto.
      + intros [H|(u & g' & [<-|[]] & H1 & H2 & H3)]; auto. simpl in *. inversion H2; subst. auto. }
  destruct Hw as (W1 & W2 & W3). unfold useToplevel.
  destruct (mem x (fileb st)) eqn:Ef.
  { apply Key; auto. intros m. unfold tl_undef. rewrite Hg. simpl. split; [auto|]. intros [H|[_ [H _]]]; auto; discriminate. }
  destruct (mem x (globals st)) eqn:Eg.
  { apply Key; auto. intros m. unfold tl_undef. rewrite Hg. simpl. split; [auto|]. intros [H|[_ [H _]]]; auto; discriminate. }
  destruct (mem x (premem st)) eqn:Ep.
  { apply Key; auto. intros m. unfold tl_undef. split; [auto|]. intros [H|[_ [_ [H1 H2]]]]; auto.
    apply W3 in Ep. rewrite H1, H2 in Ep. discriminate. }
  destruct (mem x (w_predeclared W)) eqn:Epre.
  { apply Key; auto.
    - simpl. intros y. destruct (String.eqb y x) eqn:Ey; simpl; auto. apply String.eqb_eq in Ey. subst. rewrite Epre. auto.
    - intros m. unfold tl_undef. split; [auto|]. intros [H|[_ [_ [H1 H2]]]]; auto. congruence. }
  destruct (mem x (w_universal W)) eqn:Euni.
  { apply Key; auto.
    - destruct (negb (o_set opts) && String.eqb x "set"); reflexivity.
    - destruct (negb (o_set opts) && String.eqb x "set"); reflexivity.
    - destruct (negb (o_set opts) && String.eqb x "set"); reflexivity.
    - destruct (negb (o_set opts) && String.eqb x "set"); reflexivity.
    - destruct (negb (o_set opts) && String.eqb x "set"); reflexivity.
    - assert (Hp : forall st0, premem st0 = premem st ->
                forall y, mem y (x :: premem st0) = true -> mem y (w_predeclared W) || mem y (w_universal W) = true).
      { intros st0 -> y. simpl. destruct (String.eqb y x) eqn:Ey; simpl; auto.
        apply String.eqb_eq in Ey. subst. rewrite Euni. intros _. apply orb_true_r. }
      destruct (negb (o_set opts) && String.eqb x "set"); simpl; apply Hp; reflexivity.
    - intros m. unfold tl_undef, und. split.
      + destruct (negb (o_set opts) && String.eqb x "set"); simpl; auto.
        intros H. apply in_app_or in H. destruct H as [H|[H|[]]]; auto. inversion H.
      + intros [H|[_ [_ [_ H]]]]; [|congruence].
        destruct (negb (o_set opts) && String.eqb x "set"); simpl; auto. apply in_or_app. auto. }
  apply Key; auto. intros m. unfold und, tl_undef. simpl. rewrite Hg. simpl. split.
  - intros H. apply in_app_or in H. destruct H as [H|[H|[]]]; auto. inversion H; subst. auto.
  - intros [H|[-> _]]; apply in_or_app; simpl; auto.
Qed.

Lemma R_use st n x :
  WF st -> R st (use_ opts W st n x) [] [mkU n x [] (flof st)] (globals st) (fileb st).
Proof.
  intros Hw. unfold use_, flof, top, fl_of.
  destruct (env st) eqn:Ee.
  - rewrite andb_false_r. pose proof Hw as (W1 & W2 & W3).
    split; [|split; [|split; [auto|split; [auto|split]]]].
    + exact Hw.
    + pose proof (Frame_refl st) as Fr. exact Fr.
    + eexists. split; [reflexivity|].
      simpl. constructor; [|constructor]. repeat split; simpl; auto.
      intros i Hi. unfold container in Hi. apply container_from_lt in Hi. exact Hi.
    + intros m. unfold und. simpl. unfold ImmUndef. split; auto.
      intros [H|(u & g & [<-|[]] & _ & H & _)]; auto. discriminate.
  - rewrite andb_true_r. destruct (o_global_reassign opts) eqn:Eg.
    + apply R_useToplevel; auto. rewrite smem_app. apply orb_comm.
    + pose proof Hw as (W1 & W2 & W3).
      split; [|split; [|split; [auto|split; [auto|split]]]].
      * exact Hw.
      * pose proof (Frame_refl st) as Fr. exact Fr.
      * eexists. split; [reflexivity|].
        simpl. constructor; [|constructor]. repeat split; simpl; auto.
        intros i Hi. unfold container in Hi. apply container_from_lt in Hi. exact Hi.
      * intros m. unfold und. simpl. unfold ImmUndef. split; auto.
        intros [H|(u & g & [<-|[]] & _ & H & _)]; auto. discriminate.
Qed.

(* ---- bind ---- *)
Lemma R_bindLocal_blk st n x :
  WF st -> top st = false -> R st (snd (bindLocal st n x)) [x] [] (globals st) (fileb st).
Proof.
  intros Hw Ht. pose proof Hw as (W1 & W2 & W3). unfold top in Ht. unfold bindLocal.
  destruct (env st) as [b|] eqn:Ee; [|discriminate].
  pose proof (W1 b eq_refl) as Hb. apply nth_error_Some in Hb.
  destruct (nth_error (blocks st) b) as [k|] eqn:Ek; [|congruence].
  destruct (W2 b k Ek) as (Hm & Hp). rewrite Hm. simpl mem at 2. rewrite orb_false_r.
  assert (Hu : forall st', buses st' = buses st -> errs st' = errs st -> Uses st st' []).
  { intros st' B E. split.
    - exists []. rewrite app_nil_r. split; auto. simpl. constructor.
    - intros m. unfold und. rewrite E, ImmUndef_nil. tauto. }
  destruct (mem x (k_names k)) eqn:Ex; simpl.
  - split; [exact Hw|]. split; [|split; [auto|split; [auto|apply Hu; auto]]].
    repeat split; auto. intros b' k' He Hk'. rewrite Ee in He. inversion He; subst b'.
    rewrite Ek in Hk'. inversion Hk'; subst k'. exists k. repeat split; auto.
    intros y. unfold smem. simpl. rewrite orb_false_r. destruct (String.eqb y x) eqn:Ey.
    + apply String.eqb_eq in Ey. subst. rewrite Ex. reflexivity.
    + rewrite orb_false_r. reflexivity.
  - split; [|split; [|split; [auto|split; [auto|apply Hu; auto]]]].
    + split; [|split]; simpl; auto.
      * rewrite length_upd_blk. rewrite Ee. exact W1.
      * intros i k0 Hk0. destruct (Nat.eq_dec b i) as [->|Hne].
        -- rewrite (nth_error_upd_blk_same _ _ _ _ Ek) in Hk0. inversion Hk0; subst; simpl. split; auto.
        -- rewrite nth_error_upd_blk_other in Hk0 by auto. eauto.
    + split; [reflexivity|]. simpl. rewrite length_upd_blk. split; [lia|]. split.
      * intros i Hi Hne. apply nth_error_upd_blk_other. rewrite Ee in Hne. congruence.
      * intros b' k' He Hk'. rewrite Ee in He. inversion He; subst b'.
        rewrite Ek in Hk'. inversion Hk'; subst k'. eexists. split; [apply nth_error_upd_blk_same; exact Ek|].
        simpl. split; auto. intros y. rewrite mem_app_one. unfold smem. simpl. rewrite orb_false_r. reflexivity.
Qed.

Lemma R_bind_blk st n x :
  WF st -> top st = false -> R st (snd (bind opts st n x)) [x] [] (globals st) (fileb st).
Proof.
  intros Hw Ht. unfold bind. pose proof Ht as Ht'. unfold top in Ht'.
  destruct (env st) eqn:Ee; [|discriminate]. apply R_bindLocal_blk; auto.
Qed.

Lemma R_bind_dup_blk st n x m :
  WF st -> top st = false -> R st (bind_dup opts st n x m) [x] [] (globals st) (fileb st).
Proof.
  intros Hw Ht. unfold bind_dup. destruct (fst (bind opts st n x)).
  - eapply R_post; [apply R_bind_blk; auto|]. apply Neutral_errorf. discriminate.
  - apply R_bind_blk; auto.
Qed.

Lemma Uses_nil st st' : buses st' = buses st -> (forall m, und st' m <-> und st m) -> Uses st st' [].
Proof.
  intros B E. split.
  - exists []. rewrite app_nil_r. split; auto. simpl. constructor.
  - intros m. rewrite E, ImmUndef_nil. tauto.
Qed.

Lemma Frame_top ns st st' :
  top st = true -> env st' = env st -> blocks st' = blocks st -> Frame ns st st'.
Proof.
  unfold top. intros Ht E B. destruct (env st) eqn:Ee; [discriminate|].
  unfold Frame. rewrite B, E, Ee. repeat split; auto. intros b k He. discriminate.
Qed.

Lemma R_bind_top st n x :
  WF st -> top st = true ->
  R st (snd (bind opts st n x)) [x] [] (addg (globals st) (fileb st) x) (fileb st).
Proof.
  intros Hw Ht. pose proof Ht as Ht'. unfold top in Ht'. unfold bind, addg.
  destruct (env st) eqn:Ee; [discriminate|].
  change (smem x (fileb st)) with (mem x (fileb st)). change (smem x (globals st)) with (mem x (globals st)).
  destruct (mem x (fileb st) || mem x (globals st)); simpl.
  - destruct (negb (o_global_reassign opts)).
    + eapply R_post with (st1 := st); [|apply Neutral_errorf; discriminate].
      split; [exact Hw|]. split; [apply Frame_top; auto|]. split; auto. split; auto.
      apply Uses_nil; auto. tauto.
    + split; [exact Hw|]. split; [apply Frame_top; auto|]. split; auto. split; auto.
      apply Uses_nil; auto. tauto.
  - split; [exact Hw|]. split; [apply Frame_top; auto|]. split; auto. split; auto.
    apply Uses_nil; auto. tauto.
Qed.

End D.
