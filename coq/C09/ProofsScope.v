(* C09 -- scoping proofs, part 4: the resolver model reports "undefined" exactly
   as the declarative specification of ScopeSpec.v says, up to lookupLexical's
   memoisation (which suppresses repeated reports of one name inside one block
   tree): main lemma scope_main. *)
From Coq Require Import String Ascii List Bool Arith NArith Lia.
From SV Require Import C09.Syntax C09.Model C09.Spec C09.ScopeSpec C09.Unfold C09.Proofs
  C09.ProofsScopeDefs C09.ProofsScopeDefs2 C09.ProofsScopeWalk C09.ProofsScopeEnd.
Import ListNotations.

Lemma Forall2_In_l {A B} (P : A -> B -> Prop) l1 l2 a :
  Forall2 P l1 l2 -> In a l1 -> exists b, In b l2 /\ P a b.
Proof.
  induction 1; intros Hin; [destruct Hin|]. destruct Hin as [<-|Hin].
  - exists y. split; [left; auto|auto].
  - destruct (IHForall2 Hin) as (b & Hb & Hp). exists b. split; [right; auto|auto].
Qed.

Lemma Forall2_In_r {A B} (P : A -> B -> Prop) l1 l2 b :
  Forall2 P l1 l2 -> In b l2 -> exists a, In a l1 /\ P a b.
Proof.
  induction 1; intros Hin; [destruct Hin|]. destruct Hin as [<-|Hin].
  - exists x. split; [left; auto|auto].
  - destruct (IHForall2 Hin) as (a & Ha & Hp). exists a. split; [right; auto|auto].
Qed.

(* ---- what is visible at file level after a statement ---- *)
Definition vis (g f : list string) (x : string) : bool := smem x g || smem x f.

Lemma smem_one y x : smem y [x] = String.eqb y x.
Proof. unfold smem. simpl. apply orb_false_r. Qed.

Section V.
Variable o : options.

Lemma vis_addg g f x y : vis (addg g f x) f y = vis g f y || String.eqb y x.
Proof.
  unfold vis, addg. destruct (smem x f || smem x g) eqn:E.
  - destruct (String.eqb y x) eqn:Ey; [|rewrite orb_false_r; auto].
    apply String.eqb_eq in Ey. subst. rewrite orb_true_r. rewrite orb_comm. exact E.
  - rewrite smem_app, smem_one. destruct (smem y g), (smem y f), (String.eqb y x); reflexivity.
Qed.

Lemma vis_lhs :
  (forall l g f y, vis (snd (tu_lhs o g f l)) f y = vis g f y || smem y (lhs_names l)) /\
  (forall ls g f y, vis (snd (tu_lhss o g f ls)) f y = vis g f y || smem y (lhss_names ls)).
Proof.
  assert (H : (forall e : expr, True) /\ (forall es : exprs, True) /\ (forall a : args, True) /\
              (forall p : params, True) /\ (forall c : clauses, True) /\
              (forall l g f y, vis (snd (tu_lhs o g f l)) f y = vis g f y || smem y (lhs_names l)) /\
              (forall ls g f y, vis (snd (tu_lhss o g f ls)) f y = vis g f y || smem y (lhss_names ls))).
  { apply expr_mutind; auto.
    - intros n x g f y. change (vis (addg g f x) f y = vis g f y || smem y [x]). rewrite vis_addg, smem_one. reflexivity.
    - intros es _ g f y. simpl. rewrite orb_false_r. reflexivity.
    - intros n g f y. simpl. rewrite orb_false_r. reflexivity.
    - intros g f y. simpl. rewrite orb_false_r. reflexivity.
    - intros l IHl r IHr g f y. simpl. rewrite IHr, IHl, smem_app, orb_assoc. reflexivity. }
  tauto.
Qed.

Lemma vis_load items : forall g f y,
  vis (fst (snd (t_load o g f items))) (snd (snd (t_load o g f items))) y = vis g f y || smem y (to_names items).
Proof.
  induction items as [|[[[fn from] tn] to] items IH]; intros g f y.
  - change (vis g f y = vis g f y || false). rewrite orb_false_r. reflexivity.
  - rewrite snd_t_load_cons. change (to_names ((fn, from, tn, to) :: items)) with ([to] ++ to_names items).
    rewrite smem_app, smem_one. destruct (o_load_binds_globally o).
    + rewrite IH, vis_addg, orb_assoc. reflexivity.
    + destruct (smem to f) eqn:Em.
      * rewrite IH. destruct (String.eqb y to) eqn:Ey; [|reflexivity].
        apply String.eqb_eq in Ey. subst. unfold vis. rewrite Em. rewrite !orb_true_r. reflexivity.
      * rewrite IH. unfold vis. rewrite smem_app, smem_one.
        destruct (smem y g), (smem y f), (String.eqb y to); reflexivity.
Qed.

Lemma vis_stmts :
  (forall s g f y, vis (fst (snd (tu_stmt o g f s))) (snd (snd (tu_stmt o g f s))) y = vis g f y || smem y (bound_stmt s)) /\
  (forall ss g f y, vis (fst (snd (tu_stmts o g f ss))) (snd (snd (tu_stmts o g f ss))) y = vis g f y || smem y (bound_stmts ss)).
Proof.
  destruct vis_lhs as [VL VLs].
  apply stmt_mutind.
  - intros e g f y. simpl. rewrite orb_false_r. reflexivity.
  - intros n g f y. simpl. rewrite orb_false_r. reflexivity.
  - intros n c t IHt e IHe g f y. simpl. rewrite IHe, IHt, smem_app, orb_assoc. reflexivity.
  - intros aug l e g f y. simpl. apply VL.
  - intros n nn x ps body _ g f y. change (vis (addg g f x) f y = vis g f y || smem y [x]). rewrite vis_addg, smem_one. reflexivity.
  - intros n vars iter body IHb g f y. simpl. rewrite IHb, VL, smem_app, orb_assoc. reflexivity.
  - intros n c body IHb g f y. simpl. apply IHb.
  - intros n e g f y. simpl. rewrite orb_false_r. reflexivity.
  - intros n items g f y. simpl. apply vis_load.
  - intros g f y. simpl. rewrite orb_false_r. reflexivity.
  - intros s IHs r IHr g f y. simpl. rewrite IHr, IHs, smem_app, orb_assoc. reflexivity.
Qed.

End V.

(* ---- a chain of blocks that carries the binding sets rel binds x iff one of the sets has x ---- *)
Lemma Path_Unb BL x rel : forall e,
  Path BL 0 e rel None -> (Unb (sk BL) x e <-> existsb (smem x) rel = false).
Proof.
  induction rel as [|ns rel IH]; intros e; simpl.
  - intros ->. split; auto. intros _. constructor.
  - intros (b & k & -> & _ & Hk & Hn & Hp). rewrite orb_false_iff, <- (IH _ Hp). split.
    + intros HU. inversion HU; subst. rewrite (sk_nth _ _ _ Hk) in H0. inversion H0; subst.
      rewrite <- Hn. auto.
    + intros [H1 H2]. econstructor; [apply (sk_nth _ _ _ Hk)| |exact H2]. rewrite Hn. exact H1.
Qed.

Section Main.
Variable o : options.
Variable W : world.
Variable p : program.

Lemma WF_init : WF W init.
Proof.
  split; [|split]; simpl.
  - discriminate.
  - intros [|i] k H; discriminate.
  - discriminate.
Qed.

Lemma tl_undef_b g x : tl_undef W g x <-> tl_undefb W g x = true.
Proof.
  unfold tl_undef, tl_undefb. change mem with smem. rewrite !andb_true_iff, !negb_true_iff. tauto.
Qed.

Lemma scope_main :
  let us := uses_prog o p in
  let ub := unboundb W (bound_stmts p) in
  (forall n, In (RUndefined, n) (resolve o W p) -> exists u, In u us /\ s_n u = n /\ ub u = true) /\
  (forall u, In u us -> ub u = true ->
     exists u', In u' us /\ s_x u' = s_x u /\ ub u' = true /\ In (RUndefined, s_n u') (resolve o W p)) /\
  (forall u, In u us -> ub u = true -> s_rel u = [] \/ s_fl u <> None ->
     In (RUndefined, s_n u) (resolve o W p)).
Proof.
  intros us ub.
  destruct (walk_scope_stmts_top o W) as [_ WT].
  pose proof (WT p init [] [] WF_init eq_refl eq_refl eq_refl) as HR.
  set (stw := stmts_ o W init p) in *.
  destruct HR as [HR _]. destruct HR as (Hw & _ & Hg & Hf & (U & HU & HF) & Hund).
  fold (uses_prog o p) in HF, Hund. fold us in HF, Hund. simpl in HU, HF.
  assert (Hc : forall x, smem x (globals stw) || smem x (fileb stw) = smem x (bound_stmts p)).
  { intros x. destruct (vis_stmts o) as [_ V]. specialize (V p [] [] x). rewrite <- Hg, <- Hf in V. exact V. }
  set (BL := blocks stw) in *.
  assert (HTU : forall x, TU W (globals stw) (fileb stw) x <-> tl_undefb W (bound_stmts p) x = true).
  { intros x. unfold TU, tl_undefb. rewrite <- Hc. change mem with smem.
    rewrite !andb_true_iff, !negb_true_iff, orb_false_iff. tauto. }
  destruct Hw as (W1 & W2 & W3).
  assert (Hpar : forall i q ns, nth_error (sk BL) i = Some (Some q, ns) -> q < i).
  { intros i q ns H. apply sk_nth_inv in H. destruct H as (k & Hk & Hq & _). destruct (W2 i k Hk) as [_ Hlt]. auto. }
  assert (Hlen : length (sk BL) = length BL) by (unfold sk; apply map_length).
  assert (BUenv : forall c u b, In (c, u) (buses stw) -> u_env u = Some b -> b < length (sk BL)).
  { intros c u b Hin He. rewrite HU in Hin. destruct (Forall2_In_l _ _ _ _ HF Hin) as (s & _ & (_ & _ & Hp & _)).
    simpl in Hp. rewrite He in Hp. destruct (s_rel s); simpl in Hp; [discriminate|].
    destruct Hp as (b' & k & Hb & _ & Hk & _). inversion Hb; subst. rewrite Hlen. apply nth_error_Some. fold BL. congruence. }
  assert (BUcont : forall c u i, In (c, u) (buses stw) -> c = Some i -> i < length (sk BL)).
  { intros c u i Hin He. rewrite HU in Hin. destruct (Forall2_In_l _ _ _ _ HF Hin) as (s & _ & (_ & _ & _ & Hc')).
    rewrite Hlen. apply Hc'. exact He. }
  assert (HI : Inv W (sk BL) (globals stw) (fileb stw) (buses stw) (und stw) stw).
  { unfold Inv. repeat split; auto.
    intros i k y Hk Hy. destruct (W2 i k Hk) as [Hm _]. rewrite Hm in Hy. discriminate. }
  destruct (end_pass o W (sk BL) (globals stw) (fileb stw) (buses stw) (und stw) Hpar BUenv BUcont stw HI)
    as (FI & FM & FQ).
  assert (Hres : forall n, In (RUndefined, n) (resolve o W p) <->
                           und (resolveNonLocalUses o W (S (length (sk BL))) stw None) n).
  { intros n. unfold resolve. fold stw. fold BL. rewrite Hlen. unfold und. tauto. }
  set (stf := resolveNonLocalUses o W (S (length (sk BL))) stw None) in *.
  (* a deferred use of the table and its specification use *)
  assert (Hdef : forall c u s, URel BL 0 None (c, u) s -> s_fl s = None ->
                  (Unb (sk BL) (u_name u) (u_env u) /\ TU W (globals stw) (fileb stw) (u_name u) <-> ub s = true)).
  { intros c u s (Hn & Hx & Hp & _) Hfl. simpl in *. unfold ub, unboundb. rewrite Hfl, <- Hx.
    rewrite (Path_Unb BL (u_name u) _ _ Hp), HTU, andb_true_iff, negb_true_iff. tauto. }
  split; [|split].
  - (* sound *)
    intros n Hn. apply Hres in Hn. destruct FI as (_ & _ & _ & _ & _ & _ & Snd).
    destruct (Snd n Hn) as [H0|(c & u & Hin & Hnode & HUn & HT)].
    + apply Hund in H0. destruct H0 as [[]|(u & g & Hin & Hsn & Hfl & Ht)].
      exists u. split; auto. split; auto. unfold ub, unboundb. rewrite Hfl. apply tl_undef_b. exact Ht.
    + rewrite HU in Hin. destruct (Forall2_In_l _ _ _ _ HF Hin) as (s & Hs & HRel).
      apply filter_In in Hs. destruct Hs as [Hs Hd]. unfold deferred in Hd.
      destruct (s_fl s) eqn:Efl; [discriminate|].
      exists s. split; auto. split; [destruct HRel as (Hn' & _); simpl in Hn'; congruence|].
      apply (Hdef c u s HRel Efl). auto.
  - (* complete up to the memoisation *)
    intros u Hin Hub. destruct (s_fl u) as [g|] eqn:Efl.
    + exists u. split; auto. split; auto. split; auto. apply Hres. apply FM. apply Hund. right.
      exists u, g. split; auto. split; auto. split; auto. apply tl_undef_b.
      unfold ub, unboundb in Hub. rewrite Efl in Hub. exact Hub.
    + assert (Hd : In u (filter deferred us)) by (apply filter_In; split; auto; unfold deferred; rewrite Efl; auto).
      destruct (Forall2_In_r _ _ _ _ HF Hd) as ([c cu] & HinU & HRel).
      assert (HinB : In (c, cu) (buses stw)) by (rewrite HU; exact HinU).
      destruct (FQ _ HinB) as [Q1 _]. simpl in Q1.
      apply (Hdef c cu u HRel Efl) in Hub. destruct Hub as [HUn HT].
      destruct (Q1 HUn HT) as (c' & u' & Hin' & Hname & Hrep & HUn' & HT').
      rewrite HU in Hin'. destruct (Forall2_In_l _ _ _ _ HF Hin') as (s' & Hs' & HRel').
      apply filter_In in Hs'. destruct Hs' as [Hs' Hd']. unfold deferred in Hd'.
      destruct (s_fl s') eqn:Efl'; [discriminate|].
      pose proof HRel as (_ & Hx & _). pose proof HRel' as (Hn' & Hx' & _). simpl in *.
      exists s'. split; auto. split; [congruence|]. split.
      * apply (Hdef c' u' s' HRel' Efl'). rewrite Hname. auto.
      * apply Hres. rewrite <- Hn'. exact Hrep.
  - (* exact outside function and comprehension blocks *)
    intros u Hin Hub Hcase. destruct (s_fl u) as [g|] eqn:Efl.
    + apply Hres. apply FM. apply Hund. right.
      exists u, g. split; auto. split; auto. split; auto. apply tl_undef_b.
      unfold ub, unboundb in Hub. rewrite Efl in Hub. exact Hub.
    + destruct Hcase as [Hrel|Hne]; [|congruence].
      assert (Hd : In u (filter deferred us)) by (apply filter_In; split; auto; unfold deferred; rewrite Efl; auto).
      destruct (Forall2_In_r _ _ _ _ HF Hd) as ([c cu] & HinU & HRel).
      assert (HinB : In (c, cu) (buses stw)) by (rewrite HU; exact HinU).
      destruct (FQ _ HinB) as [_ Q2]. simpl in Q2.
      apply (Hdef c cu u HRel Efl) in Hub. destruct Hub as [HUn HT].
      destruct HRel as (Hn & Hx & Hp & _). simpl in *. rewrite Hrel in Hp. simpl in Hp.
      apply Hres. rewrite <- Hn. apply Q2; auto.
Qed.

(* ---- rebinding reports ---- *)
Lemma same_rep_refl st : same_rep st st.
Proof. intros r n _. tauto. Qed.
Lemma same_rep_trans a b c : same_rep a b -> same_rep b c -> same_rep a c.
Proof. intros H1 H2 r n Hr. rewrite (H2 r n Hr). apply H1. exact Hr. Qed.

Lemma same_rep_lookup fuel : forall st n x e, same_rep st (lookupLexical o W fuel st n x e).
Proof.
  induction fuel as [|fu IH]; intros st n x e; simpl.
  - destruct e as [b|]; [|apply same_rep_useToplevel].
    destruct (nth_error (blocks st) b); [|apply same_rep_refl]. destruct (mem x (k_names b0) || mem x (k_memo b0)); apply same_rep_refl.
  - destruct e as [b|]; [|apply same_rep_useToplevel].
    destruct (nth_error (blocks st) b); [|apply same_rep_refl].
    destruct (mem x (k_names b0) || mem x (k_memo b0)); [apply same_rep_refl|].
    eapply same_rep_trans; [apply IH|]. apply same_rep_errs. reflexivity.
Qed.

Lemma same_rep_fold {A} (F : rs -> A -> rs) (l : list A) :
  (forall st a, same_rep st (F st a)) -> forall st, same_rep st (fold_left F l st).
Proof.
  intros H. induction l as [|a l IH]; intros st; simpl; [apply same_rep_refl|].
  eapply same_rep_trans; [apply H|apply IH].
Qed.

Lemma same_rep_rnlu fuel : forall st b, same_rep st (resolveNonLocalUses o W fuel st b).
Proof.
  induction fuel as [|fu IH]; intros st b; simpl; [apply same_rep_refl|].
  apply (same_rep_trans st (fold_left (fun st c => resolveNonLocalUses o W fu st (Some c)) (children_of st b) st)).
  - apply (same_rep_fold (fun st c => resolveNonLocalUses o W fu st (Some c))). intros s c. apply IH.
  - unfold resolve_uses_of. apply same_rep_fold. intros s cu.
    destruct (match fst cu, b with None, None => true | Some a0, Some b0 => a0 =? b0 | _, _ => false end);
      [apply same_rep_lookup|apply same_rep_refl].
Qed.

Lemma rebind_main :
  forall r n, tracked r ->
    (In (r, n) (rebindings o p) -> In (r, n) (resolve o W p)) /\
    (In (r, n) (resolve o W p) ->
       In (r, n) (rebindings o p) \/ (r = RLoadReassign /\ In n (top_fn_loads_stmts p))).
Proof.
  intros r n Hr.
  destruct (walk_scope_stmts_top o W) as [_ WT].
  pose proof (WT p init [] [] WF_init eq_refl eq_refl eq_refl) as (_ & HK & _).
  set (stw := stmts_ o W init p) in *.
  pose proof (same_rep_rnlu (S (length (blocks stw))) stw None r n Hr) as HE.
  unfold resolve. fold stw. fold (rep r (resolveNonLocalUses o W (S (length (blocks stw))) stw None) n).
  destruct (HK r n Hr) as [A B]. unfold rebindings. split.
  - intros H. apply HE. apply A. right. exact H.
  - intros H. apply HE in H. apply B in H. destruct H as [[]|H]. exact H.
Qed.

(* ---- `set` without the Set option ---- *)
Lemma set_main :
  (forall n, In (RSetUnsupported, n) (resolve o W p) -> exists u, In u (set_uses o W p) /\ s_n u = n) /\
  (set_uses o W p <> [] -> exists n, In (RSetUnsupported, n) (resolve o W p)).
Proof.
  destruct (walk_scope_stmts_top o W) as [_ WT].
  pose proof (WT p init [] [] WF_init eq_refl eq_refl eq_refl) as HR.
  set (stw := stmts_ o W init p) in *.
  destruct HR as (HR & _ & (Zs & _ & Zc)).
  destruct HR as (Hw & _ & Hg & Hf & (U & HU & HF) & _).
  fold (uses_prog o p) in HF, Zs, Zc. set (us := uses_prog o p) in *. simpl in HU, HF.
  assert (Hc : forall x, smem x (globals stw) || smem x (fileb stw) = smem x (bound_stmts p)).
  { intros x. destruct (vis_stmts o) as [_ V]. specialize (V p [] [] x). rewrite <- Hg, <- Hf in V. exact V. }
  set (BL := blocks stw) in *.
  destruct Hw as (W1 & W2 & W3).
  assert (Hpar : forall i q ns, nth_error (sk BL) i = Some (Some q, ns) -> q < i).
  { intros i q ns H. apply sk_nth_inv in H. destruct H as (k & Hk & Hq & _). destruct (W2 i k Hk) as [_ Hlt]. auto. }
  assert (Hlen : length (sk BL) = length BL) by (unfold sk; apply map_length).
  assert (BUenv : forall c u b, In (c, u) (buses stw) -> u_env u = Some b -> b < length (sk BL)).
  { intros c u b Hin He. rewrite HU in Hin. destruct (Forall2_In_l _ _ _ _ HF Hin) as (s & _ & (_ & _ & Hp & _)).
    simpl in Hp. rewrite He in Hp. destruct (s_rel s); simpl in Hp; [discriminate|].
    destruct Hp as (b' & k & Hb & _ & Hk & _). inversion Hb; subst. rewrite Hlen. apply nth_error_Some. fold BL. congruence. }
  assert (BUcont : forall c u i, In (c, u) (buses stw) -> c = Some i -> i < length (sk BL)).
  { intros c u i Hin He. rewrite HU in Hin. destruct (Forall2_In_l _ _ _ _ HF Hin) as (s & _ & (_ & _ & _ & Hc')).
    rewrite Hlen. apply Hc'. exact He. }
  assert (HP0 : PremOK o W init) by (intros H; discriminate).
  destruct (Zc HP0) as [HPw HCw].
  assert (HI : InvS o W (sk BL) (globals stw) (fileb stw) (buses stw) (setr stw) stw).
  { unfold InvS. repeat split; auto.
    intros i k Hk Hy. destruct (W2 i k Hk) as [Hm _]. rewrite Hm in Hy. discriminate. }
  destruct (end_passS o W (sk BL) (globals stw) (fileb stw) (buses stw) (fun _ => False) Hpar BUenv BUcont (setr stw) stw HI)
    as (FI & FM & FQ).
  assert (Hres : forall n, In (RSetUnsupported, n) (resolve o W p) <->
                           setr (resolveNonLocalUses o W (S (length (sk BL))) stw None) n).
  { intros n. unfold resolve. fold stw. fold BL. rewrite Hlen. unfold setr. tauto. }
  set (stf := resolveNonLocalUses o W (S (length (sk BL))) stw None) in *.
  assert (Hdef : forall c u s, URel BL 0 None (c, u) s -> s_fl s = None ->
                  (u_name u = "set"%string /\ Unb (sk BL) "set"%string (u_env u) /\
                   TUS o W (globals stw) (fileb stw) <->
                   o_set o = false /\ set_useb W (bound_stmts p) s = true)).
  { intros c u s (Hn & Hx & Hp & _) Hfl. simpl in *. unfold set_useb, TUS. rewrite Hfl, <- Hx.
    rewrite !andb_true_iff, !negb_true_iff, String.eqb_eq. change mem with smem. split.
    - intros (E & HUn & T0 & T1 & T2 & T3 & T4). rewrite E in *.
      split; auto. repeat split; auto.
      + apply (Path_Unb BL "set"%string _ _ Hp). exact HUn.
      + rewrite <- Hc, T1, T2. reflexivity.
    - intros (T0 & (((E & T3) & T4) & (Hrel & Hcm))). rewrite E in *. split; auto. split.
      + apply (Path_Unb BL "set"%string _ _ Hp). exact Hrel.
      + rewrite <- Hc in Hcm. apply orb_false_iff in Hcm. destruct Hcm. repeat split; auto. }
  assert (Himm : forall n, ImmSet o W n us -> o_set o = false /\ exists u, In u us /\ s_n u = n /\ set_useb W (bound_stmts p) u = true).
  { intros n (u & g & Hin & Hsn & Hfl & (T0 & E & T1 & T2 & T3)). split; auto. exists u. split; auto. split; auto.
    unfold set_useb. rewrite Hfl, E in *. change mem with smem in *. rewrite T1, T2, T3. reflexivity. }
  split.
  - intros n Hn. apply Hres in Hn. destruct FI as (_ & _ & _ & _ & _ & _ & Snd).
    destruct (Snd n Hn) as [H0|(c & u & Hin & Hnode & Hname & HUn & HT)].
    + apply Zs in H0. destruct H0 as [[]|H0]. destruct (Himm n H0) as (Hos & u & Hin & Hsn & Hb).
      exists u. unfold set_uses. rewrite Hos. split; auto. apply filter_In. auto.
    + rewrite HU in Hin. destruct (Forall2_In_l _ _ _ _ HF Hin) as (s & Hs & HRel).
      apply filter_In in Hs. destruct Hs as [Hs Hd]. unfold deferred in Hd.
      destruct (s_fl s) eqn:Efl; [discriminate|].
      destruct (proj1 (Hdef c u s HRel Efl) (conj Hname (conj HUn HT))) as [Hos Hb].
      exists s. unfold set_uses. rewrite Hos. split; [apply filter_In; auto|].
      destruct HRel as (Hn' & _); simpl in Hn'; congruence.
  - intros Hne. unfold set_uses in Hne. destruct (o_set o) eqn:Hos; [congruence|].
    destruct (filter (set_useb W (bound_stmts p)) (uses_prog o p)) as [|u l] eqn:Ef; [congruence|].
    assert (Hin : In u (filter (set_useb W (bound_stmts p)) us)) by (unfold us; rewrite Ef; left; auto).
    apply filter_In in Hin. destruct Hin as [Hin Hb].
    assert (HS : SR stf).
    { destruct (s_fl u) as [g|] eqn:Efl.
      - apply FM. apply HCw. exists (s_n u). exists u, g. split; auto. split; auto. split; auto.
        unfold set_useb in Hb. rewrite Efl in Hb. rewrite !andb_true_iff, !negb_true_iff, String.eqb_eq in Hb.
        destruct Hb as (((E & T2) & T3) & T1). repeat split; auto.
      - assert (Hd : In u (filter deferred us)) by (apply filter_In; split; auto; unfold deferred; rewrite Efl; auto).
        destruct (Forall2_In_r _ _ _ _ HF Hd) as ([c cu] & HinU & HRel).
        assert (HinB : In (c, cu) (buses stw)) by (rewrite HU; exact HinU).
        destruct (proj2 (Hdef c cu u HRel Efl) (conj eq_refl Hb)) as (E & HUn & HT).
        apply (FQ _ HinB); auto. }
    destruct HS as (m & Hm). exists m. apply Hres. exact Hm.
Qed.

Lemma undefined_lemma :
  (forall n, In (RUndefined, n) (resolve o W p) -> exists u, In u (undefined_uses o W p) /\ s_n u = n) /\
  (forall u, In u (undefined_uses o W p) ->
     exists u', In u' (undefined_uses o W p) /\ s_x u' = s_x u /\ In (RUndefined, s_n u') (resolve o W p)) /\
  (forall u, In u (undefined_uses o W p) -> s_rel u = [] \/ s_fl u <> None ->
     In (RUndefined, s_n u) (resolve o W p)).
Proof.
  destruct scope_main as (A & B & C). unfold undefined_uses. split; [|split].
  - intros n H. destruct (A n H) as (u & H1 & H2 & H3). exists u. split; auto. apply filter_In. auto.
  - intros u H. apply filter_In in H. destruct H as [H1 H2]. destruct (B u H1 H2) as (u' & K1 & K2 & K3 & K4).
    exists u'. split; [apply filter_In; auto|auto].
  - intros u H Hc. apply filter_In in H. destruct H as [H1 H2]. apply C; auto.
Qed.

Lemma undefined_rejects_lemma : (exists n, In (RUndefined, n) (resolve o W p)) <-> undefined_uses o W p <> [].
Proof.
  destruct undefined_lemma as (A & B & _). split.
  - intros (n & H). destruct (A n H) as (u & Hu & _). intros E. rewrite E in Hu. destruct Hu.
  - intros H. destruct (undefined_uses o W p) as [|u l] eqn:E; [congruence|].
    destruct (B u (or_introl eq_refl)) as (u' & _ & _ & K). eauto.
Qed.

Lemma accepted_no_undefined_lemma : resolve o W p = [] -> undefined_uses o W p = [].
Proof.
  intros H. destruct (undefined_uses o W p) as [|u l] eqn:E; auto.
  assert (K : undefined_uses o W p <> []) by (rewrite E; discriminate).
  apply undefined_rejects_lemma in K. destruct K as (n & K). rewrite H in K. destruct K.
Qed.

End Main.
