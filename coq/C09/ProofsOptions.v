(* C09 -- each optional construct is rejected exactly when its own option is off. *)
From Coq Require Import String Ascii List Bool Arith NArith Lia.
From SV Require Import C09.Syntax C09.Model C09.Spec C09.Proofs C09.ProofsTop.
Import ListNotations.

(* the rules that an option can switch off (among those that need no name resolution) *)
Definition gated (r : rule) : bool :=
  match r with RWhileUnsupported | RIfToplevel | RForToplevel | RWhileToplevel => true | _ => false end.

Definition fg (l : list (rule * N)) : list (rule * N) := filter (fun e => gated (fst e)) l.

Lemma fg_app a b : fg (a ++ b) = fg a ++ fg b.
Proof. apply filter_app. Qed.

Lemma fg_when b r n : gated r = false -> fg (when b r n) = [].
Proof. intros H. destruct b; simpl; auto. rewrite H. reflexivity. Qed.

Ltac fgs :=
  repeat (rewrite fg_app); repeat (rewrite fg_when by reflexivity);
  repeat match goal with H : _ |- _ => rewrite H end; simpl; auto.

Lemma fg_tail ps : fg (bare_star ps) = [] -> fg (v_params_tail ps) = [].
Proof.
  intros Hb. unfold v_params_tail. rewrite fg_app.
  destruct (the_star false ps) as [[sn [[an ax]|]]|]; cbn [fst snd];
    rewrite ?Hb, ?fg_when by reflexivity; simpl;
    destruct (the_ss None ps) as [[nn x]|]; rewrite ?fg_when by reflexivity; reflexivity.
Qed.

(* no expression-level rule is switched by an option *)
Lemma fg_exprs :
  (forall e c, fg (v_expr c e) = []) /\
  (forall es c, fg (v_exprs c es) = []) /\
  (forall a c before, fg (v_args c before a) = []) /\
  (forall ps, (forall c, fg (v_defaults c ps) = []) /\ (forall before seen, fg (v_params before seen ps) = []) /\
              fg (bare_star ps) = []) /\
  (forall cl c, fg (v_clauses c cl) = []) /\
  (forall l c aug, fg (v_lhs c aug l) = []) /\
  (forall ls c aug, fg (v_lhss c aug ls) = []).
Proof.
  apply expr_mutind; intros;
    repeat match goal with H : _ /\ _ |- _ => destruct H end;
    repeat split; intros; simpl;
    repeat (rewrite fg_app);
    repeat match goal with
           | H : forall _, fg _ = [] |- _ => rewrite H
           | H : forall _ _, fg _ = [] |- _ => rewrite H
           | H : forall _ _ _, fg _ = [] |- _ => rewrite H
           | H : fg (bare_star ?q) = [] |- context [fg (v_params_tail ?q)] => rewrite (fg_tail q H)
           | H : fg _ = [] |- _ => rewrite H
           end;
    repeat (rewrite fg_when by reflexivity); simpl; auto;
    repeat match goal with
           | |- context [if ?b then _ else _] => destruct b; simpl; auto
           | |- context [match ?o with Some _ => _ | None => _ end] => destruct o; simpl; auto
           end;
    repeat (rewrite fg_when by reflexivity); simpl; auto.
Qed.

(* where the optional constructs are *)
Fixpoint while_sites (s : stmt) : list N :=
  match s with
  | SIf _ _ t f => whiles_in t ++ whiles_in f
  | SDef _ _ _ _ body => whiles_in body
  | SFor _ _ _ body => whiles_in body
  | SWhile n _ body => n :: whiles_in body
  | _ => []
  end
with whiles_in (ss : stmts) : list N :=
  match ss with SNil => [] | SCons s r => while_sites s ++ whiles_in r end.

(* if / for / while statements outside every function *)
Fixpoint control_sites (s : stmt) : list (rule * N) :=
  match s with
  | SIf n _ t f => (RIfToplevel, n) :: controls_in t ++ controls_in f
  | SFor n _ _ body => (RForToplevel, n) :: controls_in body
  | SWhile n _ body => (RWhileToplevel, n) :: controls_in body
  | _ => []
  end
with controls_in (ss : stmts) : list (rule * N) :=
  match ss with SNil => [] | SCons s r => control_sites s ++ controls_in r end.

Definition expected (o : options) (infn : bool) (s : list N) (c : list (rule * N)) : list (rule * N) -> Prop :=
  fun l => forall r n, In (r, n) l <->
    (r = RWhileUnsupported /\ o_while o = false /\ In n s) \/
    (r <> RWhileUnsupported /\ o_toplevel_control o = false /\ infn = false /\ In (r, n) c).

Lemma In_fg r n l : gated r = true -> (In (r, n) l <-> In (r, n) (fg l)).
Proof. intros H. unfold fg. rewrite filter_In. simpl. rewrite H. tauto. Qed.

Lemma control_rules :
  (forall s r n, In (r, n) (control_sites s) -> r <> RWhileUnsupported /\ gated r = true) /\
  (forall ss r n, In (r, n) (controls_in ss) -> r <> RWhileUnsupported /\ gated r = true).
Proof.
  apply stmt_mutind; simpl; intros;
    repeat match goal with
           | H : False |- _ => contradiction
           | H : In _ (_ ++ _) |- _ => apply in_app_or in H; destruct H
           | H : _ \/ _ |- _ => destruct H
           | H : (_, _) = (_, _) |- _ => inversion H; subst; clear H
           end; eauto; try (split; [discriminate|reflexivity]).
Qed.


(* unfolding equations of the specification's statement walk *)
Section VS.
Variable o : options.
Lemma vs_SExpr c e : v_stmt o c (SExpr e) = v_expr c e. Proof. reflexivity. Qed.
Lemma vs_SBranch c n : v_stmt o c (SBranch n) = when (negb (c_loop c)) RBranchNotInLoop n. Proof. reflexivity. Qed.
Lemma vs_SIf c n cnd t f :
  v_stmt o c (SIf n cnd t f) =
  toplevel_gate o c RIfToplevel n ++ v_expr c cnd ++ v_stmts o (in_if c) t ++ v_stmts o (in_if c) f.
Proof. reflexivity. Qed.
Lemma vs_SAssign c aug l e : v_stmt o c (SAssign aug l e) = v_expr c e ++ v_lhs c aug l. Proof. reflexivity. Qed.
Lemma vs_SDef c n nn x ps body :
  v_stmt o c (SDef n nn x ps body) = v_defaults c ps ++ v_params [] [] ps ++ v_params_tail ps ++ v_stmts o (in_body c) body.
Proof. reflexivity. Qed.
Lemma vs_SFor c n vars iter body :
  v_stmt o c (SFor n vars iter body) =
  toplevel_gate o c RForToplevel n ++ v_expr c iter ++ v_lhs c false vars ++ v_stmts o (in_loop c) body.
Proof. reflexivity. Qed.
Lemma vs_SWhile c n cnd body :
  v_stmt o c (SWhile n cnd body) =
  when (negb (o_while o)) RWhileUnsupported n ++ toplevel_gate o c RWhileToplevel n ++ v_expr c cnd ++ v_stmts o (in_loop c) body.
Proof. reflexivity. Qed.
Lemma vs_SReturn c n e :
  v_stmt o c (SReturn n e) =
  when (negb (c_fn c)) RReturnToplevel n ++ match e with Some e => v_expr c e | None => [] end.
Proof. reflexivity. Qed.
Lemma vs_SLoad c n items :
  v_stmt o c (SLoad n items) =
  (if c_fn c then [(RLoadInFunction, n)] else if c_loop c then [(RLoadInLoop, n)] else when (c_if c) RLoadInConditional n)
  ++ flat_map (fun it => match it with (fn, from, _, _) => when (underscore from) RLoadUnderscore fn end) items.
Proof. reflexivity. Qed.
Lemma vs_SNil c : v_stmts o c SNil = []. Proof. reflexivity. Qed.
Lemma vs_SCons c s r : v_stmts o c (SCons s r) = v_stmt o c s ++ v_stmts o c r. Proof. reflexivity. Qed.
End VS.

(* the gated part of the specification's violations, for every context *)
Lemma gated_viol o :
  (forall s c r n, gated r = true ->
     (In (r, n) (v_stmt o c s) <->
      (r = RWhileUnsupported /\ o_while o = false /\ In n (while_sites s)) \/
      (r <> RWhileUnsupported /\ o_toplevel_control o = false /\ c_fn c = false /\ In (r, n) (control_sites s)))) /\
  (forall ss c r n, gated r = true ->
     (In (r, n) (v_stmts o c ss) <->
      (r = RWhileUnsupported /\ o_while o = false /\ In n (whiles_in ss)) \/
      (r <> RWhileUnsupported /\ o_toplevel_control o = false /\ c_fn c = false /\ In (r, n) (controls_in ss)))).
Proof.
  destruct fg_exprs as [FE [FEs [FA [FP [FC [FL FLs]]]]]].
  assert (NE : forall e c r n, gated r = true -> ~ In (r, n) (v_expr c e)).
  { intros e c r n Hg Hin. apply (In_fg r n _ Hg) in Hin. rewrite FE in Hin. exact Hin. }
  assert (NL : forall l c aug r n, gated r = true -> ~ In (r, n) (v_lhs c aug l)).
  { intros l c aug r n Hg Hin. apply (In_fg r n _ Hg) in Hin. rewrite FL in Hin. exact Hin. }
  assert (ND : forall ps c r n, gated r = true -> ~ In (r, n) (v_defaults c ps)).
  { intros ps c r n Hg Hin. apply (In_fg r n _ Hg) in Hin. destruct (FP ps) as [Hd _]. rewrite Hd in Hin. exact Hin. }
  assert (NP : forall ps r n, gated r = true -> ~ In (r, n) (v_params [] [] ps)).
  { intros ps r n Hg Hin. apply (In_fg r n _ Hg) in Hin. destruct (FP ps) as [_ [Hp _]]. rewrite Hp in Hin. exact Hin. }
  assert (NB : forall ps r n, gated r = true -> ~ In (r, n) (v_params_tail ps)).
  { intros ps r n Hg Hin. apply (In_fg r n _ Hg) in Hin. destruct (FP ps) as [_ [_ Hb]].
    rewrite (fg_tail ps Hb) in Hin. exact Hin. }
  assert (GW : forall b r0 n0 r n, gated r = true -> In (r, n) (when b r0 n0) -> gated r0 = false -> False).
  { intros b r0 n0 r n Hg Hin H0. destruct b; simpl in Hin; [|contradiction].
    destruct Hin as [E|[]]. inversion E; subst. congruence. }
  apply stmt_mutind.
  - (* SExpr *) intros e c r n Hg. rewrite vs_SExpr. simpl while_sites. simpl control_sites. split; [intro H; exfalso; exact (NE _ _ _ _ Hg H)|].
    intros [[_ [_ []]]|[_ [_ [_ []]]]].
  - (* SBranch *) intros n0 c r n Hg. rewrite vs_SBranch. simpl while_sites. simpl control_sites. split; [intro H; exfalso; exact (GW _ _ _ _ _ Hg H eq_refl)|].
    intros [[_ [_ []]]|[_ [_ [_ []]]]].
  - (* SIf *)
    intros n0 cnd t IHt f IHf c r n Hg. rewrite vs_SIf. simpl while_sites. simpl control_sites.
    rewrite !in_app_iff. rewrite (IHt (in_if c) r n Hg), (IHf (in_if c) r n Hg). simpl c_fn.
    unfold toplevel_gate, when.
    split.
    + intros [H|[H|[H|H]]].
      * destruct (negb (o_toplevel_control o) && negb (c_fn c)) eqn:Eg; simpl in H; [|contradiction].
        destruct H as [E|[]]. inversion E; subst. apply andb_prop in Eg. destruct Eg as [E1 E2].
        right. split; [discriminate|]. split; [destruct (o_toplevel_control o); [discriminate|reflexivity]|].
        split; [destruct (c_fn c); [discriminate|reflexivity]|]. left; reflexivity.
      * exfalso. exact (NE _ _ _ _ Hg H).
      * destruct H as [[H1 [H2 H3]]|[H1 [H2 [H3 H4]]]]; [left|right]; repeat split; auto.
        right. apply in_or_app; auto.
      * destruct H as [[H1 [H2 H3]]|[H1 [H2 [H3 H4]]]]; [left|right]; repeat split; auto.
        right. apply in_or_app; auto.
    + intros [[H1 [H2 H3]]|[H1 [H2 [H3 H4]]]].
      * destruct H3 as [H3|H3]; [right; right; left|right; right; right]; left; auto.
      * destruct H4 as [E|H4].
        -- inversion E; subst. left. rewrite H2, H3. simpl. left; reflexivity.
        -- apply in_app_or in H4. destruct H4 as [H4|H4]; [right; right; left|right; right; right]; right; auto.
  - (* SAssign *) intros aug l e c r n Hg. rewrite vs_SAssign. simpl while_sites. simpl control_sites. rewrite in_app_iff.
    split; [intros [H|H]; exfalso; [exact (NE _ _ _ _ Hg H)|exact (NL _ _ _ _ _ Hg H)]|].
    intros [[_ [_ []]]|[_ [_ [_ []]]]].
  - (* SDef *)
    intros n0 nn x ps body IHb c r n Hg. rewrite vs_SDef. simpl while_sites. simpl control_sites.
    rewrite !in_app_iff. rewrite (IHb (in_body c) r n Hg). simpl c_fn.
    split.
    + intros [H|[H|[H|H]]]; try (exfalso; first [exact (ND _ _ _ _ Hg H)|exact (NP _ _ _ Hg H)|exact (NB _ _ _ Hg H)]).
      destruct H as [[H1 [H2 H3]]|[H1 [H2 [H3 H4]]]]; [left; auto|discriminate].
    + intros [[H1 [H2 H3]]|[H1 [H2 [H3 []]]]]. right; right; right. left; auto.
  - (* SFor *)
    intros n0 vars iter body IHb c r n Hg. rewrite vs_SFor. simpl while_sites. simpl control_sites.
    rewrite !in_app_iff. rewrite (IHb (in_loop c) r n Hg). simpl c_fn.
    unfold toplevel_gate, when.
    split.
    + intros [H|[H|[H|H]]].
      * destruct (negb (o_toplevel_control o) && negb (c_fn c)) eqn:Eg; simpl in H; [|contradiction].
        destruct H as [E|[]]. inversion E; subst. apply andb_prop in Eg. destruct Eg as [E1 E2].
        right. split; [discriminate|]. split; [destruct (o_toplevel_control o); [discriminate|reflexivity]|].
        split; [destruct (c_fn c); [discriminate|reflexivity]|]. left; reflexivity.
      * exfalso. exact (NE _ _ _ _ Hg H).
      * exfalso. exact (NL _ _ _ _ _ Hg H).
      * destruct H as [[H1 [H2 H3]]|[H1 [H2 [H3 H4]]]]; [left|right]; repeat split; auto.
        right; auto.
    + intros [[H1 [H2 H3]]|[H1 [H2 [H3 H4]]]].
      * right; right; right. left; auto.
      * destruct H4 as [E|H4].
        -- inversion E; subst. left. rewrite H2, H3. simpl. left; reflexivity.
        -- right; right; right. right; auto.
  - (* SWhile *)
    intros n0 cnd body IHb c r n Hg. rewrite vs_SWhile. simpl while_sites. simpl control_sites.
    rewrite !in_app_iff. rewrite (IHb (in_loop c) r n Hg). simpl c_fn.
    unfold toplevel_gate, when.
    split.
    + intros [H|[H|[H|H]]].
      * destruct (negb (o_while o)) eqn:Ew; simpl in H; [|contradiction].
        destruct H as [E|[]]. inversion E; subst. left. split; auto.
        split; [destruct (o_while o); [discriminate|reflexivity]|]. left; reflexivity.
      * destruct (negb (o_toplevel_control o) && negb (c_fn c)) eqn:Eg; simpl in H; [|contradiction].
        destruct H as [E|[]]. inversion E; subst. apply andb_prop in Eg. destruct Eg as [E1 E2].
        right. split; [discriminate|]. split; [destruct (o_toplevel_control o); [discriminate|reflexivity]|].
        split; [destruct (c_fn c); [discriminate|reflexivity]|]. left; reflexivity.
      * exfalso. exact (NE _ _ _ _ Hg H).
      * destruct H as [[H1 [H2 H3]]|[H1 [H2 [H3 H4]]]]; [left|right]; repeat split; auto.
        -- right; auto.
        -- right; auto.
    + intros [[H1 [H2 H3]]|[H1 [H2 [H3 H4]]]].
      * destruct H3 as [E|H3].
        -- subst. left. rewrite H2. simpl. left; reflexivity.
        -- right; right; right. left; auto.
      * destruct H4 as [E|H4].
        -- inversion E; subst. right; left. rewrite H2, H3. simpl. left; reflexivity.
        -- right; right; right. right; auto.
  - (* SReturn *) intros n0 e c r n Hg. rewrite vs_SReturn. simpl while_sites. simpl control_sites. rewrite in_app_iff.
    split.
    + intros [H|H]; [exfalso; exact (GW _ _ _ _ _ Hg H eq_refl)|]. destruct e; [exfalso; exact (NE _ _ _ _ Hg H)|contradiction].
    + intros [[_ [_ []]]|[_ [_ [_ []]]]].
  - (* SLoad *) intros n0 items c r n Hg. rewrite vs_SLoad. simpl while_sites. simpl control_sites. rewrite in_app_iff.
    split.
    + intros [H|H].
      * destruct (c_fn c); [destruct H as [E|[]]; inversion E; subst; discriminate|].
        destruct (c_loop c); [destruct H as [E|[]]; inversion E; subst; discriminate|].
        exfalso; exact (GW _ _ _ _ _ Hg H eq_refl).
      * exfalso. induction items as [|[[[fn from] tn] to] items IH]; simpl in H; auto.
        apply in_app_or in H. destruct H as [H|H]; auto. exact (GW _ _ _ _ _ Hg H eq_refl).
    + intros [[_ [_ []]]|[_ [_ [_ []]]]].
  - (* SNil *) intros c r n Hg. rewrite vs_SNil. simpl whiles_in. simpl controls_in. split; [contradiction|]. intros [[_ [_ []]]|[_ [_ [_ []]]]].
  - (* SCons *)
    intros s IHs ss IHss c r n Hg. rewrite vs_SCons. simpl whiles_in. simpl controls_in. rewrite !in_app_iff. rewrite (IHs c r n Hg), (IHss c r n Hg).
    split.
    + intros [[[H1 [H2 H3]]|[H1 [H2 [H3 H4]]]]|[[H1 [H2 H3]]|[H1 [H2 [H3 H4]]]]]; [left|right|left|right]; repeat split; auto.
    + intros [[H1 [H2 [H3|H3]]]|[H1 [H2 [H3 [H4|H4]]]]]; [left; left|right; left|left; right|right; right]; repeat split; auto.
Qed.

Lemma option_exact_lemma :
  forall (o : options) (W : world) (p : program) (n : N),
    (* while is available exactly when While is on -- whatever the other five options are *)
    (In (RWhileUnsupported, n) (resolve o W p) <-> o_while o = false /\ In n (whiles_in p)) /\
    (* if / for / while at top level are available exactly when TopLevelControl is on *)
    (forall r, r = RIfToplevel \/ r = RForToplevel \/ r = RWhileToplevel ->
       (In (r, n) (resolve o W p) <-> o_toplevel_control o = false /\ In (r, n) (controls_in p))).
Proof.
  intros o W p n. destruct (gated_viol o) as [_ G]. split.
  - rewrite (sound_complete_lemma o W p RWhileUnsupported n eq_refl). unfold violates, viol.
    rewrite (G p top RWhileUnsupported n eq_refl). split.
    + intros [[_ H]|[H _]]; [exact H|congruence].
    + intros H. left. split; auto.
  - intros r Hr.
    assert (Hs : scoping_rule r = false) by (destruct Hr as [->|[->| ->]]; reflexivity).
    assert (Hg : gated r = true) by (destruct Hr as [->|[->| ->]]; reflexivity).
    assert (Hn : r <> RWhileUnsupported) by (destruct Hr as [->|[->| ->]]; discriminate).
    rewrite (sound_complete_lemma o W p r n Hs). unfold violates, viol.
    rewrite (G p top r n Hg). simpl c_fn. split.
    + intros [[H _]|[_ [H1 [_ H2]]]]; [contradiction|auto].
    + intros [H1 H2]. right. auto.
Qed.

(* the other options never influence a rule that needs no name resolution *)
Lemma options_independent_lemma :
  forall (o1 o2 : options) (p : program),
    o_while o1 = o_while o2 -> o_toplevel_control o1 = o_toplevel_control o2 ->
    viol o1 p = viol o2 p.
Proof.
  intros o1 o2 p Hw Ht. unfold viol. generalize top.
  assert (G : (forall s c, v_stmt o1 c s = v_stmt o2 c s) /\ (forall ss c, v_stmts o1 c ss = v_stmts o2 c ss)).
  { apply stmt_mutind; intros;
      rewrite ?vs_SExpr, ?vs_SBranch, ?vs_SIf, ?vs_SAssign, ?vs_SDef, ?vs_SFor, ?vs_SWhile, ?vs_SReturn,
              ?vs_SLoad, ?vs_SNil, ?vs_SCons;
      unfold toplevel_gate; rewrite ?Hw, ?Ht;
      repeat match goal with H : forall c, _ = _ |- _ => rewrite H; clear H end; reflexivity. }
  apply G.
Qed.
