(* C09 -- abstract syntax shared by the resolver model (Model.v) and the
   specification (Spec.v): enough statement and expression forms to place every
   static-rule violation at any syntactic depth.  A `nat` in a node is its
   identity = the source position the resolver reports for it. *)
From Coq Require Import String List Bool Arith.
Import ListNotations.

Record options := {
  o_set : bool; o_while : bool; o_toplevel_control : bool;
  o_global_reassign : bool; o_load_binds_globally : bool; o_recursion : bool
}.

(* names visible without a binding in the file *)
Record world := { w_predeclared : list string; w_universal : list string }.

Inductive rule :=
(* context *)
| RBranchNotInLoop | RIfToplevel | RForToplevel | RWhileUnsupported | RWhileToplevel | RReturnToplevel
| RLoadInFunction | RLoadInLoop | RLoadInConditional | RLoadUnderscore
(* assignment targets *)
| RAugSeq | RBadAssign
(* call argument lists *)
| RArgMultipleKwargs | RArgStarAfterKwargs | RArgMultipleStar | RArgNamedAfterKwargs | RArgNamedAfterStar
| RArgRepeatedName | RArgPosAfterStar | RArgPosAfterKwargs | RArgPosAfterNamed | RArgTooManyPos | RArgTooManyNamed
(* parameter lists *)
| RParReqAfterKwargs | RParReqAfterOptional | RParDuplicate | RParOptAfterKwargs | RParStarAfterKwargs
| RParMultipleStar | RParMultipleKwargs | RParBareStar
(* scoping *)
| RReassign | RLoadReassign | RSetUnsupported | RUndefined.

Definition rule_eq_dec (a b : rule) : {a = b} + {a <> b}.
Proof. decide equality. Defined.
Definition rule_eqb (a b : rule) : bool := if rule_eq_dec a b then true else false.

Inductive expr :=
| EId (n : nat) (x : string)                      (* identifier use *)
| ELit
| EOp (es : exprs)                                (* any operator / display: children visited in order *)
| ECall (n : nat) (f : expr) (a : args)
| ELambda (n : nat) (ps : params) (body : expr)
| EComp (n : nat) (iter : expr) (vars : lhs) (cl : clauses) (body : expr)   (* [body for vars in iter cl..] *)
with exprs := ENil | ECons (e : expr) (r : exprs)
with args :=
| ANil
| APos (n : nat) (e : expr) (r : args)
| ANamed (n : nat) (x : string) (e : expr) (r : args)
| AStar (n : nat) (e : expr) (r : args)
| AStarStar (n : nat) (e : expr) (r : args)
with params :=
| PNil
| PId (n : nat) (x : string) (r : params)
| PDef (n : nat) (x : string) (d : expr) (r : params)       (* n = position of '=' *)
| PStar (n : nat) (name : option (nat * string)) (r : params)
| PStarStar (n : nat) (nn : nat) (x : string) (r : params)
with clauses :=
| CNil
| CFor (vars : lhs) (iter : expr) (r : clauses)
| CIf (c : expr) (r : clauses)
with lhs :=
| LId (n : nat) (x : string)
| LSeq (n : nat) (l : lhss)                       (* tuple or list of targets *)
| LExpr (es : exprs)                              (* x[i], x.f : operands are uses *)
| LBad (n : nat)                                  (* any other expression *)
with lhss := LNil | LCons (l : lhs) (r : lhss).

Inductive stmt :=
| SExpr (e : expr)
| SBranch (n : nat)                               (* break / continue *)
| SIf (n : nat) (c : expr) (t f : stmts)
| SAssign (aug : bool) (l : lhs) (e : expr)
| SDef (n : nat) (nn : nat) (x : string) (ps : params) (body : stmts)
| SFor (n : nat) (vars : lhs) (iter : expr) (body : stmts)
| SWhile (n : nat) (c : expr) (body : stmts)
| SReturn (n : nat) (e : option expr)
| SLoad (n : nat) (items : list (nat * string * nat * string))   (* from-pos, from-name, to-pos, to-name *)
with stmts := SNil | SCons (s : stmt) (r : stmts).

Definition program := stmts.
