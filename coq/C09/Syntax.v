(* C09 -- abstract syntax shared by the resolver model (Model.v) and the
   specification (Spec.v): enough statement and expression forms to place every
   static-rule violation at any syntactic depth.  An `N` in a node is its
   identity = the source position the resolver reports for it. *)
From Coq Require Import String List Bool Arith NArith.
Import ListNotations.

Record options := {
  o_set : bool; o_while : bool; o_toplevel_control : bool;
  o_global_reassign : bool; o_load_binds_globally : bool; o_recursion : bool
}.

(* names visible without a binding in the file *)
Record world := { w_predeclared : list string; w_universal : list string }.

Inductive rule :=
(* context *)
| RBranchNotInLoop | RIfToplevel | RForToplevel | RWhileUnsupported | RWhileToplevel | RReturnToplevel
| RLoadInFunction | RLoadInLoop | RLoadInConditional | RLoadUnderscore
(* assignment targets *)
| RAugSeq | RBadAssign
(* call argument lists *)
| RArgMultipleKwargs | RArgStarAfterKwargs | RArgMultipleStar | RArgNamedAfterKwargs | RArgNamedAfterStar
| RArgRepeatedName | RArgPosAfterStar | RArgPosAfterKwargs | RArgPosAfterNamed | RArgTooManyPos | RArgTooManyNamed
(* parameter lists *)
| RParReqAfterKwargs | RParReqAfterOptional | RParDuplicate | RParOptAfterKwargs | RParStarAfterKwargs
| RParMultipleStar | RParMultipleKwargs | RParBareStar
(* scoping *)
| RReassign | RLoadReassign | RSetUnsupported | RUndefined.

Definition rule_eq_dec (a b : rule) : {a = b} + {a <> b}.
Proof. decide equality. Defined.
Definition rule_eqb (a b : rule) : bool := if rule_eq_dec a b then true else false.

Inductive expr :=
| EId (n : N) (x : string)                      (* identifier use *)
| ELit
| EOp (es : exprs)                                (* any operator / display: children visited in order *)
| ECall (n : N) (f : expr) (a : args)
| ELambda (n : N) (ps : params) (body : expr)
| EComp (n : N) (iter : expr) (vars : lhs) (cl : clauses) (body : expr)   (* [body for vars in iter cl..] *)
with exprs := ENil | ECons (e : expr) (r : exprs)
with args :=
| ANil
| APos (n : N) (e : expr) (r : args)
| ANamed (n : N) (x : string) (e : expr) (r : args)
| AStar (n : N) (e : expr) (r : args)
| AStarStar (n : N) (e : expr) (r : args)
with params :=
| PNil
| PId (n : N) (x : string) (r : params)
| PDef (n : N) (x : string) (d : expr) (r : params)       (* n = position of '=' *)
| PStar (n : N) (name : option (N * string)) (r : params)
| PStarStar (n : N) (nn : N) (x : string) (r : params)
with clauses :=
| CNil
| CFor (vars : lhs) (iter : expr) (r : clauses)
| CIf (c : expr) (r : clauses)
with lhs :=
| LId (n : N) (x : string)
| LSeq (n : N) (l : lhss)                       (* tuple or list of targets *)
| LExpr (es : exprs)                              (* x[i], x.f : operands are uses *)
| LBad (n : N)                                  (* any other expression *)
with lhss := LNil | LCons (l : lhs) (r : lhss).

Inductive stmt :=
| SExpr (e : expr)
| SBranch (n : N)                               (* break / continue *)
| SIf (n : N) (c : expr) (t f : stmts)
| SAssign (aug : bool) (l : lhs) (e : expr)
| SDef (n : N) (nn : N) (x : string) (ps : params) (body : stmts)
| SFor (n : N) (vars : lhs) (iter : expr) (body : stmts)
| SWhile (n : N) (c : expr) (body : stmts)
| SReturn (n : N) (e : option expr)
| SLoad (n : N) (items : list (N * string * N * string))   (* from-pos, from-name, to-pos, to-name *)
with stmts := SNil | SCons (s : stmt) (r : stmts).

Definition program := stmts.
