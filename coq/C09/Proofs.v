(* C09 -- the resolver model reports exactly the violations of the
   specification, for the rules that do not need name resolution. *)
From Coq Require Import String Ascii List Bool Arith NArith Lia.
From SV Require Import C09.Syntax C09.Model C09.Spec C09.Unfold.
Import ListNotations.

Scheme expr_mind := Induction for expr Sort Prop
  with exprs_mind := Induction for exprs Sort Prop
  with args_mind := Induction for args Sort Prop
  with params_mind := Induction for params Sort Prop
  with clauses_mind := Induction for clauses Sort Prop
  with lhs_mind := Induction for lhs Sort Prop
  with lhss_mind := Induction for lhss Sort Prop.
Combined Scheme expr_mutind from expr_mind, exprs_mind, args_mind, params_mind, clauses_mind, lhs_mind, lhss_mind.

Scheme stmt_mind := Induction for stmt Sort Prop
  with stmts_mind := Induction for stmts Sort Prop.
Combined Scheme stmt_mutind from stmt_mind, stmts_mind.

Definition ns (E : list (rule * N)) : list (rule * N) := filter (fun e => negb (scoping_rule (fst e))) E.

Lemma ns_app a b : ns (a ++ b) = ns a ++ ns b.
Proof. apply filter_app. Qed.

Definition ctx_of (st : rs) : ctx :=
  {| c_fn := 0 <? fdepth st; c_loop := 0 <? loops st; c_if := 0 <? ifstmts st |}.

(* walking from st to st' left the counters alone and appended errors whose
   non-scoping part is V *)
Definition steps (st st' : rs) (V : list (rule * N)) : Prop :=
  loops st' = loops st /\ ifstmts st' = ifstmts st /\ fdepth st' = fdepth st /\
  exists E, errs st' = errs st ++ E /\ ns E = V.

Lemma steps_refl st : steps st st [].
Proof. repeat split; auto. exists []. rewrite app_nil_r. auto. Qed.

Lemma steps_trans a b c V1 V2 : steps a b V1 -> steps b c V2 -> steps a c (V1 ++ V2).
Proof.
  intros [L1 [I1 [F1 [E1 [H1 N1]]]]] [L2 [I2 [F2 [E2 [H2 N2]]]]].
  repeat split; try congruence.
  exists (E1 ++ E2). split.
  - rewrite H2, H1, app_assoc. reflexivity.
  - rewrite ns_app. congruence.
Qed.

Lemma steps_trans_nil a b c V : steps a b [] -> steps b c V -> steps a c V.
Proof. intros H1 H2. exact (steps_trans a b c [] V H1 H2). Qed.

Lemma steps_ctx a b V : steps a b V -> ctx_of b = ctx_of a.
Proof. intros [L [I [F _]]]. unfold ctx_of. rewrite L, I, F. reflexivity. Qed.

Lemma steps_same (st st' : rs) :
  loops st' = loops st -> ifstmts st' = ifstmts st -> fdepth st' = fdepth st -> errs st' = errs st ->
  steps st st' [].
Proof. intros. repeat split; auto. exists []. rewrite app_nil_r. auto. Qed.

Lemma steps_errorf st r n : steps st (errorf st r n) (if scoping_rule r then [] else [(r, n)]).
Proof.
  repeat split; auto. exists [(r, n)]. split; auto.
  unfold ns. simpl. destruct (scoping_rule r); reflexivity.
Qed.

Lemma steps_when st (b : bool) r n :
  scoping_rule r = false -> steps st (if b then errorf st r n else st) (when b r n).
Proof.
  intros H. destruct b; simpl.
  - pose proof (steps_errorf st r n) as S. rewrite H in S. exact S.
  - apply steps_refl.
Qed.

Arguments Nat.leb : simpl never.
Arguments Nat.ltb : simpl never.
Arguments Nat.eqb : simpl never.

Section WithOpts.
Variable opts : options.
Variable W : world.

Lemma steps_useToplevel st n x : steps st (useToplevel opts W st n x) [].
Proof.
  unfold useToplevel.
  destruct (mem x (fileb st)); [apply steps_refl|].
  destruct (mem x (globals st)); [apply steps_refl|].
  destruct (mem x (premem st)); [apply steps_refl|].
  destruct (mem x (w_predeclared W)); [apply steps_same; reflexivity|].
  destruct (mem x (w_universal W)).
  - destruct (negb (o_set opts) && String.eqb x "set").
    + change [] with (@nil (rule * N) ++ []). eapply steps_trans.
      * apply (steps_errorf st RSetUnsupported n).
      * apply steps_same; reflexivity.
    + apply steps_same; reflexivity.
  - apply (steps_errorf st RUndefined n).
Qed.

Lemma steps_use st n x : steps st (use_ opts W st n x) [].
Proof.
  unfold use_. destruct (o_global_reassign opts && _).
  - apply steps_useToplevel.
  - apply steps_same; reflexivity.
Qed.

Lemma steps_bindLocal st n x : steps st (snd (bindLocal st n x)) [].
Proof.
  unfold bindLocal. destruct (env st).
  - destruct (nth_error (blocks st) n0); simpl; [|apply steps_refl].
    destruct (mem x (k_names b) || mem x (k_memo b)); [apply steps_refl|apply steps_same; reflexivity].
  - simpl. destruct (mem x (fileb st)); [apply steps_refl|apply steps_same; reflexivity].
Qed.

Lemma steps_bind st n x : steps st (snd (bind opts st n x)) [].
Proof.
  unfold bind. destruct (env st); [apply steps_bindLocal|]. simpl.
  destruct (mem x (fileb st) || mem x (globals st)); simpl.
  - destruct (negb (o_global_reassign opts)).
    + apply (steps_errorf st RReassign n).
    + apply steps_refl.
  - apply steps_same; reflexivity.
Qed.

(* the current block is a function block whose local names are `seen` *)
Definition B (st : rs) (seen : list string) : Prop :=
  exists b k, env st = Some b /\ nth_error (blocks st) b = Some k /\ k_memo k = [] /\
              forall x, mem x (k_names k) = smem x seen.

Lemma B_errorf st seen r n : B st seen -> B (errorf st r n) seen.
Proof. intros [b [k H]]. exists b, k. exact H. Qed.

Lemma nth_error_upd_blk_same i f l k :
  nth_error l i = Some k -> nth_error (upd_blk i f l) i = Some (f k).
Proof.
  revert i; induction l as [|a l IH]; intros [|i] H; simpl in *; try discriminate.
  - inversion H; subst. reflexivity.
  - apply IH. exact H.
Qed.

Lemma mem_app_one y l x : mem y (l ++ [x]) = mem y l || String.eqb y x.
Proof. unfold mem. rewrite existsb_app. simpl. rewrite orb_false_r. reflexivity. Qed.

(* r.bind(param) in a function block, followed by the duplicate report *)
Lemma steps_bind_dup_B st seen n x m :
  B st seen ->
  steps st (bind_dup opts st n x m) (when (smem x seen) RParDuplicate m) /\
  B (bind_dup opts st n x m) (if smem x seen then seen else x :: seen).
Proof.
  intros [b [k [He [Hk [Hm Hn]]]]]. unfold bind_dup, bind. rewrite He. unfold bindLocal. rewrite He, Hk.
  rewrite Hm. simpl mem at 2. rewrite orb_false_r. rewrite (Hn x).
  destruct (smem x seen) eqn:Es; simpl.
  - split.
    + apply (steps_errorf st RParDuplicate m).
    + exists b, k. auto.
  - split.
    + apply steps_same; reflexivity.
    + exists b. eexists. split; [exact He|]. split.
      * simpl. apply nth_error_upd_blk_same. exact Hk.
      * simpl. split; auto. intros y. rewrite mem_app_one, Hn. unfold smem. simpl. apply orb_comm.
Qed.

(* entering and leaving a loop / an if / a function body *)
Lemma steps_loop st st5 V :
  steps (set_loops st (S (loops st))) st5 V -> steps st (set_loops st5 (pred (loops st5))) V.
Proof.
  intros [L [I [F [E [H Nn]]]]]. simpl in *. repeat split; simpl; auto.
  - rewrite L. reflexivity.
  - exists E. auto.
Qed.

Lemma steps_if st st5 V :
  steps (set_ifstmts st (S (ifstmts st))) st5 V -> steps st (set_ifstmts st5 (pred (ifstmts st5))) V.
Proof.
  intros [L [I [F [E [H Nn]]]]]. simpl in *. repeat split; simpl; auto.
  - rewrite I. reflexivity.
  - exists E. auto.
Qed.

Lemma steps_fn st0 st st5 V :
  loops st0 = loops st -> ifstmts st0 = ifstmts st -> fdepth st0 = fdepth st ->
  steps (enter_fn st0) st5 V -> errs st0 = errs st ->
  steps st (leave_fn st0 st5) V.
Proof.
  intros L0 I0 F0 [L [I [F [E [H Nn]]]]] E0. unfold enter_fn, leave_fn in *. simpl in *.
  assert (Hp : forall s, loops (pop s) = loops s /\ ifstmts (pop s) = ifstmts s /\ errs (pop s) = errs s).
  { intros s. unfold pop. destruct (env s); auto. destruct (nth_error (blocks s) n); auto. }
  destruct (Hp st5) as [P1 [P2 P3]].
  repeat split; simpl; auto.
  - rewrite P2. congruence.
  - rewrite F. simpl. congruence.
  - exists E. rewrite P3, H, E0. auto.
Qed.

Lemma ctx_enter_fn st : ctx_of (enter_fn st) = in_body (ctx_of st).
Proof. reflexivity. Qed.

Lemma ctx_loop st : ctx_of (set_loops st (S (loops st))) = in_loop (ctx_of st).
Proof. reflexivity. Qed.

Lemma ctx_if st : ctx_of (set_ifstmts st (S (ifstmts st))) = in_if (ctx_of st).
Proof. reflexivity. Qed.

Lemma steps_push_comp st st5 V :
  steps (push st false) st5 V -> steps st (pop st5) V.
Proof.
  intros [L [I [F [E [H Nn]]]]]. simpl in *.
  assert (Hp : loops (pop st5) = loops st5 /\ ifstmts (pop st5) = ifstmts st5 /\
               fdepth (pop st5) = fdepth st5 /\ errs (pop st5) = errs st5).
  { unfold pop. destruct (env st5); auto. destruct (nth_error (blocks st5) n); auto. }
  destruct Hp as [P1 [P2 [P3 P4]]].
  repeat split; try congruence. exists E. rewrite P4. auto.
Qed.

Lemma ctx_push st b : ctx_of (push st b) = ctx_of st.
Proof. reflexivity. Qed.

Lemma B_enter st : B (enter_fn st) [].
Proof.
  unfold enter_fn, B. simpl.
  exists (length (blocks st)). eexists. split; [reflexivity|]. split.
  - rewrite nth_error_app2 by lia. rewrite Nat.sub_diag. reflexivity.
  - simpl. auto.
Qed.

(* ---- relations between the loop states and "what precedes" ---- *)
Definition Rel_a (a : astate) (before : list akind) : Prop :=
  a_seenVar a = existsb is_kstar before /\
  a_seenKw a = existsb is_kss before /\
  (forall x, mem x (a_names a) = existsb (names_x x) before) /\
  (match a_names a with [] => false | _ :: _ => true end) = existsb is_knamed before.

Definition is_some {A} (o : option A) : bool := match o with Some _ => true | None => false end.

Definition Rel_p (p : pstate) (before : list pkind) : Prop :=
  p_seenOpt p = existsb is_kopt before /\
  is_some (p_starstar p) = existsb is_kpss before /\
  (existsb is_kpss before = false -> is_some (p_star p) = existsb is_kpstar before) /\
  (p_star p = None -> p_nkw p = 0).

(* what the end of the parameter loop reports, from a loop state *)
Definition ptail (p : pstate) (seen : list string) (ps : params) : list (rule * N) :=
  let seenF := regular_names seen ps in
  let named an ax := (when (smem ax seenF) RParDuplicate an, if smem ax seenF then seenF else ax :: seenF) in
  let s1 := match p_star p with
            | Some (_, Some (an, ax)) => named an ax
            | Some (n, None) =>
                (when (p_nkw p + (if is_some (p_starstar p) then 0 else kwonly_count ps) =? 0) RParBareStar n, seenF)
            | None =>
                if is_some (p_starstar p) then ([], seenF)
                else match the_star false ps with
                     | Some (_, Some (an, ax)) => named an ax
                     | Some (n, None) => (bare_star ps, seenF)
                     | None => ([], seenF)
                     end
            end in
  fst s1 ++ match the_ss (p_starstar p) ps with Some (nn, x) => when (smem x (snd s1)) RParDuplicate nn | None => [] end.

Lemma the_star_true ps : the_star true ps = None.
Proof. induction ps; simpl; auto. Qed.

Lemma mem_cons x y l : mem x (y :: l) = String.eqb x y || mem x l.
Proof. reflexivity. Qed.

Ltac chain S := eapply steps_trans; [exact S|].

Theorem walk_exprs :
  (forall e st, steps st (expr_ opts W st e) (v_expr (ctx_of st) e)) /\
  (forall es st, steps st (exprs_ opts W st es) (v_exprs (ctx_of st) es)) /\
  (forall a st ast before, Rel_a ast before ->
     steps st (fst (args_ opts W st ast a)) (v_args (ctx_of st) before a) /\
     a_p (snd (args_ opts W st ast a)) = a_p ast + count_pos a /\
     a_n (snd (args_ opts W st ast a)) = a_n ast + count_named a) /\
  (forall ps,
     (forall st, steps st (defaults_ opts W st ps) (v_defaults (ctx_of st) ps)) /\
     (forall st p before seen, Rel_p p before -> B st seen ->
        steps st (params_ opts W st p ps) (v_params before seen ps ++ ptail p seen ps))) /\
  (forall cl st, steps st (clauses_ opts W st cl) (v_clauses (ctx_of st) cl)) /\
  (forall l st aug, steps st (assign_ opts W st aug l) (v_lhs (ctx_of st) aug l)) /\
  (forall ls st aug, steps st (assigns_ opts W st aug ls) (v_lhss (ctx_of st) aug ls)).
Proof.
  apply expr_mutind.
  - (* EId *) intros n x st. rewrite u_EId. apply steps_use.
  - (* ELit *) intros st. apply steps_refl.
  - (* EOp *) intros es IH st. rewrite u_EOp. apply IH.
  - (* ECall *)
    intros n f IHf a IHa st. rewrite u_ECall. cbv zeta. simpl v_expr.
    set (st1 := expr_ opts W st f).
    assert (S1 : steps st st1 (v_expr (ctx_of st) f)) by apply IHf.
    destruct (IHa st1 (a0) []) as [S2 [Hp Hn]].
    { repeat split; auto. }
    set (r := args_ opts W st1 a0 a) in *.
    simpl in Hp, Hn. rewrite Hp, Hn. rewrite (steps_ctx _ _ _ S1) in S2.
    chain S1. chain S2.
    eapply steps_trans.
    + apply (steps_when (fst r) (256 <=? count_pos a) RArgTooManyPos n). reflexivity.
    + apply steps_when. reflexivity.
  - (* ELambda *)
    intros n ps [IHd IHp] body IHb st. rewrite u_ELambda. cbv zeta. simpl v_expr.
    set (st1 := defaults_ opts W st ps).
    assert (S1 : steps st st1 (v_defaults (ctx_of st) ps)) by apply IHd.
    chain S1.
    destruct S1 as [L1 [I1 [F1 [E1 [H1 N1]]]]].
    apply (steps_fn st1 st1); auto.
    set (st2 := params_ opts W (enter_fn st1) p0 ps).
    assert (S2 : steps (enter_fn st1) st2 (v_params [] [] ps ++ v_params_tail ps)).
    { apply (IHp (enter_fn st1) p0 [] []); [repeat split; auto|apply B_enter]. }
    rewrite app_assoc. chain S2.
    specialize (IHb st2). rewrite (steps_ctx _ _ _ S2), ctx_enter_fn in IHb.
    replace (ctx_of st1) with (ctx_of st) in IHb by (unfold ctx_of; rewrite L1, I1, F1; reflexivity).
    exact IHb.
  - (* EComp *)
    intros n iter IHi vars IHv cl IHc body IHb st. rewrite u_EComp. simpl v_expr.
    set (st1 := expr_ opts W st iter).
    assert (S1 : steps st st1 (v_expr (ctx_of st) iter)) by apply IHi.
    chain S1.
    apply steps_push_comp.
    set (st2 := assign_ opts W (push st1 false) false vars).
    assert (S2 : steps (push st1 false) st2 (v_lhs (ctx_of st) false vars)).
    { specialize (IHv (push st1 false) false). rewrite ctx_push, (steps_ctx _ _ _ S1) in IHv. exact IHv. }
    chain S2.
    set (st3 := clauses_ opts W st2 cl).
    assert (S3 : steps st2 st3 (v_clauses (ctx_of st) cl)).
    { specialize (IHc st2). rewrite (steps_ctx _ _ _ S2), ctx_push, (steps_ctx _ _ _ S1) in IHc. exact IHc. }
    chain S3.
    specialize (IHb st3). rewrite (steps_ctx _ _ _ S3), (steps_ctx _ _ _ S2), ctx_push, (steps_ctx _ _ _ S1) in IHb.
    exact IHb.
  - (* ENil *) intros st. apply steps_refl.
  - (* ECons *)
    intros e IHe r IHr st. rewrite u_ECons. simpl v_exprs.
    eapply steps_trans; [apply IHe|].
    specialize (IHr (expr_ opts W st e)). rewrite (steps_ctx _ _ _ (IHe st)) in IHr. exact IHr.
  - (* ANil *) intros st ast before R. rewrite u_ANil. simpl. split; [apply steps_refl|]. split; lia.
  - (* APos *)
    intros n e IHe r IHr st ast before [R1 [R2 [R3 R4]]]. rewrite u_APos. cbv zeta. simpl v_args.
    set (st1 := if a_seenVar ast then errorf st RArgPosAfterStar n
                else if a_seenKw ast then errorf st RArgPosAfterKwargs n
                else match a_names ast with _ :: _ => errorf st RArgPosAfterNamed n | [] => st end).
    assert (S1 : steps st st1 (if existsb is_kstar before then [(RArgPosAfterStar, n)]
                               else if existsb is_kss before then [(RArgPosAfterKwargs, n)]
                               else when (existsb is_knamed before) RArgPosAfterNamed n)).
    { unfold st1. rewrite <- R1, <- R2, <- R4.
      destruct (a_seenVar ast); [apply (steps_errorf st RArgPosAfterStar n)|].
      destruct (a_seenKw ast); [apply (steps_errorf st RArgPosAfterKwargs n)|].
      destruct (a_names ast); [apply steps_refl|apply (steps_errorf st RArgPosAfterNamed n)]. }
    set (st2 := expr_ opts W st1 e).
    assert (S2 : steps st1 st2 (v_expr (ctx_of st) e)).
    { specialize (IHe st1). rewrite (steps_ctx _ _ _ S1) in IHe. exact IHe. }
    destruct (IHr st2 {| a_seenVar := a_seenVar ast; a_seenKw := a_seenKw ast; a_names := a_names ast;
                         a_n := a_n ast; a_p := S (a_p ast) |} (KPos :: before)) as [S3 [Hp Hn]].
    { repeat split; simpl; auto. }
    rewrite (steps_ctx _ _ _ S2), (steps_ctx _ _ _ S1) in S3.
    split; [|simpl in *; split; lia].
    chain S1. chain S2. exact S3.
  - (* ANamed *)
    intros n x e IHe r IHr st ast before [R1 [R2 [R3 R4]]]. rewrite u_ANamed. cbv zeta. simpl v_args.
    set (st0 := if a_seenKw ast then errorf st RArgNamedAfterKwargs n
                else if a_seenVar ast then errorf st RArgNamedAfterStar n else st).
    assert (S0 : steps st st0 (if existsb is_kss before then [(RArgNamedAfterKwargs, n)]
                               else when (existsb is_kstar before) RArgNamedAfterStar n)).
    { unfold st0. rewrite <- R1, <- R2.
      destruct (a_seenKw ast); [apply (steps_errorf st RArgNamedAfterKwargs n)|].
      destruct (a_seenVar ast); [apply (steps_errorf st RArgNamedAfterStar n)|apply steps_refl]. }
    set (st1 := if mem x (a_names ast) then errorf st0 RArgRepeatedName n else st0).
    assert (S1 : steps st0 st1 (when (existsb (names_x x) before) RArgRepeatedName n)).
    { unfold st1. rewrite <- R3. apply steps_when. reflexivity. }
    set (st2 := expr_ opts W st1 e).
    assert (S2 : steps st1 st2 (v_expr (ctx_of st) e)).
    { specialize (IHe st1). rewrite (steps_ctx _ _ _ S1), (steps_ctx _ _ _ S0) in IHe. exact IHe. }
    destruct (IHr st2 {| a_seenVar := a_seenVar ast; a_seenKw := a_seenKw ast;
                         a_names := if mem x (a_names ast) then a_names ast else x :: a_names ast;
                         a_n := S (a_n ast); a_p := a_p ast |} (KNamed x :: before)) as [S3 [Hp Hn]].
    { repeat split; simpl; auto.
      - intros y. destruct (mem x (a_names ast)) eqn:Em.
        + rewrite R3. destruct (String.eqb_spec y x); auto. subst. rewrite <- R3, Em. reflexivity.
        + rewrite mem_cons, R3. reflexivity.
      - destruct (mem x (a_names ast)) eqn:Em; auto.
        destruct (a_names ast); [discriminate|reflexivity]. }
    rewrite (steps_ctx _ _ _ S2), (steps_ctx _ _ _ S1), (steps_ctx _ _ _ S0) in S3.
    split; [|simpl in *; split; lia].
    chain S0. chain S1. chain S2. exact S3.
  - (* AStar *)
    intros n e IHe r IHr st ast before [R1 [R2 [R3 R4]]]. rewrite u_AStar. cbv zeta. simpl v_args.
    set (st1 := if a_seenKw ast then errorf st RArgStarAfterKwargs n
                else if a_seenVar ast then errorf st RArgMultipleStar n else st).
    assert (S1 : steps st st1 (if existsb is_kss before then [(RArgStarAfterKwargs, n)]
                               else when (existsb is_kstar before) RArgMultipleStar n)).
    { unfold st1. rewrite <- R1, <- R2.
      destruct (a_seenKw ast); [apply (steps_errorf st RArgStarAfterKwargs n)|].
      destruct (a_seenVar ast); [apply (steps_errorf st RArgMultipleStar n)|apply steps_refl]. }
    set (st2 := expr_ opts W st1 e).
    assert (S2 : steps st1 st2 (v_expr (ctx_of st) e)).
    { specialize (IHe st1). rewrite (steps_ctx _ _ _ S1) in IHe. exact IHe. }
    destruct (IHr st2 {| a_seenVar := true; a_seenKw := a_seenKw ast; a_names := a_names ast;
                         a_n := a_n ast; a_p := a_p ast |} (KStar :: before)) as [S3 [Hp Hn]].
    { repeat split; simpl; auto. }
    rewrite (steps_ctx _ _ _ S2), (steps_ctx _ _ _ S1) in S3.
    split; [|simpl in *; split; lia].
    chain S1. chain S2. exact S3.
  - (* AStarStar *)
    intros n e IHe r IHr st ast before [R1 [R2 [R3 R4]]]. rewrite u_AStarStar. cbv zeta. simpl v_args.
    set (st1 := if a_seenKw ast then errorf st RArgMultipleKwargs n else st).
    assert (S1 : steps st st1 (when (existsb is_kss before) RArgMultipleKwargs n)).
    { unfold st1. rewrite <- R2. apply steps_when. reflexivity. }
    set (st2 := expr_ opts W st1 e).
    assert (S2 : steps st1 st2 (v_expr (ctx_of st) e)).
    { specialize (IHe st1). rewrite (steps_ctx _ _ _ S1) in IHe. exact IHe. }
    destruct (IHr st2 {| a_seenVar := a_seenVar ast; a_seenKw := true; a_names := a_names ast;
                         a_n := a_n ast; a_p := a_p ast |} (KSS :: before)) as [S3 [Hp Hn]].
    { repeat split; simpl; auto. }
    rewrite (steps_ctx _ _ _ S2), (steps_ctx _ _ _ S1) in S3.
    split; [|simpl in *; split; lia].
    chain S1. chain S2. exact S3.
  - (* PNil *)
    split.
    + intros st. apply steps_refl.
    + intros st p before seen R HB. rewrite u_pNil. cbv zeta. simpl v_params. unfold ptail.
      simpl regular_names. simpl the_star. simpl the_ss. simpl kwonly_count. simpl app.
      destruct (p_star p) as [[sn [[an ax]|]]|]; cbn [fst snd].
      * destruct (steps_bind_dup_B st seen an ax an HB) as [S1 B1].
        chain S1.
        destruct (p_starstar p) as [[nn x]|].
        -- destruct (steps_bind_dup_B _ _ nn x nn B1) as [S2 _]. exact S2.
        -- apply steps_refl.
      * replace (p_nkw p + (if is_some (p_starstar p) then 0 else 0)) with (p_nkw p)
          by (destruct (is_some (p_starstar p)); lia).
        assert (S1 : steps st (if p_nkw p =? 0 then errorf st RParBareStar sn else st)
                           (when (p_nkw p =? 0) RParBareStar sn)) by (apply steps_when; reflexivity).
        assert (B1 : B (if p_nkw p =? 0 then errorf st RParBareStar sn else st) seen)
          by (destruct (p_nkw p =? 0); [apply B_errorf|]; exact HB).
        chain S1.
        destruct (p_starstar p) as [[nn x]|].
        -- destruct (steps_bind_dup_B _ _ nn x nn B1) as [S2 _]. exact S2.
        -- apply steps_refl.
      * destruct (p_starstar p) as [[nn x]|]; cbn [is_some fst snd app].
        -- destruct (steps_bind_dup_B st seen nn x nn HB) as [S2 _]. exact S2.
        -- apply steps_refl.
  - (* PId *)
    intros n x r [IHd IHp]. split.
    + intros st. rewrite u_dId. apply IHd.
    + intros st p before seen [R1 [R2 [R3 R4]]] HB. rewrite u_pId. cbv zeta. simpl v_params.
      set (st1 := match p_starstar p, p_star p with
                  | Some _, _ => errorf st RParReqAfterKwargs n
                  | None, Some _ => st
                  | None, None => if p_seenOpt p then errorf st RParReqAfterOptional n else st
                  end).
      assert (S1 : steps st st1 (if existsb is_kpss before then [(RParReqAfterKwargs, n)]
                                 else if existsb is_kpstar before then []
                                 else when (existsb is_kopt before) RParReqAfterOptional n)).
      { unfold st1. rewrite <- R1, <- R2.
        destruct (p_starstar p) as [ss|] eqn:Ess; simpl.
        - apply (steps_errorf st RParReqAfterKwargs n).
        - simpl in R2. rewrite <- (R3 (eq_sym R2)).
          destruct (p_star p); simpl; [apply steps_refl|].
          apply steps_when. reflexivity. }
      assert (B1 : B st1 seen).
      { unfold st1. destruct (p_starstar p); [apply B_errorf; auto|]. destruct (p_star p); auto.
        destruct (p_seenOpt p); [apply B_errorf|]; auto. }
      destruct (steps_bind_dup_B st1 seen n x n B1) as [S2 B2].
      set (seen' := if smem x seen then seen else x :: seen) in *.
      set (p' := {| p_seenOpt := p_seenOpt p; p_star := p_star p; p_starstar := p_starstar p; p_nkw := nkw_next p |}).
      assert (S3 : steps (bind_dup opts st1 n x n) (params_ opts W (bind_dup opts st1 n x n) p' r)
                         (v_params (KReg :: before) seen' r ++ ptail p' seen' r)).
      { apply IHp; auto. repeat split; simpl; auto.
        intros Hs. unfold nkw_next. rewrite Hs. destruct (p_starstar p); auto. }
      replace (ptail p seen (PId n x r)) with (ptail p' seen' r).
      * rewrite <- !app_assoc. chain S1. chain S2. exact S3.
      * unfold ptail, p', nkw_next, seen'. simpl.
        destruct (p_star p) as [[sn [nm|]]|]; destruct (p_starstar p); simpl; auto.
        all: repeat match goal with
                    | |- context [?a =? 0] =>
                        replace (a =? 0) with false by (symmetry; apply Nat.eqb_neq; lia)
                    end; try reflexivity.
  - (* PDef *)
    intros n x d IHe r [IHd IHp]. split.
    + intros st. rewrite u_dDef. simpl v_defaults. eapply steps_trans; [apply IHe|].
      specialize (IHd (expr_ opts W st d)). rewrite (steps_ctx _ _ _ (IHe st)) in IHd. exact IHd.
    + intros st p before seen [R1 [R2 [R3 R4]]] HB. rewrite u_pDef. cbv zeta. simpl v_params.
      set (st1 := match p_starstar p with Some _ => errorf st RParOptAfterKwargs n | None => st end).
      assert (S1 : steps st st1 (when (existsb is_kpss before) RParOptAfterKwargs n)).
      { unfold st1. rewrite <- R2. destruct (p_starstar p); simpl.
        - apply (steps_errorf st RParOptAfterKwargs n).
        - apply steps_refl. }
      assert (B1 : B st1 seen) by (unfold st1; destruct (p_starstar p); [apply B_errorf|]; auto).
      destruct (steps_bind_dup_B st1 seen n x n B1) as [S2 B2].
      set (seen' := if smem x seen then seen else x :: seen) in *.
      set (p' := {| p_seenOpt := true; p_star := p_star p; p_starstar := p_starstar p; p_nkw := nkw_next p |}).
      assert (S3 : steps (bind_dup opts st1 n x n) (params_ opts W (bind_dup opts st1 n x n) p' r)
                         (v_params (KOpt :: before) seen' r ++ ptail p' seen' r)).
      { apply IHp; auto. repeat split; simpl; auto.
        intros Hs. unfold nkw_next. rewrite Hs. destruct (p_starstar p); auto. }
      replace (ptail p seen (PDef n x d r)) with (ptail p' seen' r).
      * rewrite <- !app_assoc. chain S1. chain S2. exact S3.
      * unfold ptail, p', nkw_next, seen'. simpl.
        destruct (p_star p) as [[sn [nm|]]|]; destruct (p_starstar p); simpl; auto.
        all: repeat match goal with
                    | |- context [?a =? 0] =>
                        replace (a =? 0) with false by (symmetry; apply Nat.eqb_neq; lia)
                    end; try reflexivity.
  - (* PStar *)
    intros n name r [IHd IHp]. split.
    + intros st. rewrite u_dStar. apply IHd.
    + intros st p before seen [R1 [R2 [R3 R4]]] HB. rewrite u_pStar. simpl v_params.
      destruct (p_starstar p) as [ss|] eqn:Ess.
      * (* rejected: after ** *)
        simpl in R2. rewrite <- R2.
        replace (ptail p seen (PStar n name r)) with (ptail p seen r).
        -- change (([(RParStarAfterKwargs, n)] ++ v_params (KPStar :: before) seen r) ++ ptail p seen r)
             with ([(RParStarAfterKwargs, n)] ++ (v_params (KPStar :: before) seen r ++ ptail p seen r)).
           eapply steps_trans; [apply (steps_errorf st RParStarAfterKwargs n)|].
           apply IHp; [|apply B_errorf; auto]. repeat split; simpl; auto.
           ++ rewrite Ess; simpl; auto.
           ++ rewrite <- R2. discriminate.
        -- unfold ptail. rewrite Ess. simpl. destruct (p_star p) as [[sn [nm|]]|]; reflexivity.
      * simpl in R2. rewrite <- R2. specialize (R3 (eq_sym R2)).
        destruct (p_star p) as [s0|] eqn:Est.
        -- (* a second star *)
           simpl in R3. rewrite <- R3.
           replace (ptail p seen (PStar n name r)) with (ptail p seen r).
           ++ change ((when true RParMultipleStar n ++ v_params (KPStar :: before) seen r) ++ ptail p seen r)
                with ([(RParMultipleStar, n)] ++ (v_params (KPStar :: before) seen r ++ ptail p seen r)).
              eapply steps_trans; [apply (steps_errorf st RParMultipleStar n)|].
              apply IHp; [|apply B_errorf; auto]. repeat split; simpl; auto.
              ** rewrite Ess. simpl. auto.
              ** intros _. rewrite Est. reflexivity.
              ** rewrite Est. discriminate.
           ++ unfold ptail. rewrite Est, Ess. simpl. destruct s0 as [sn [nm|]]; reflexivity.
        -- (* the star is recorded *)
           simpl in R3. rewrite <- R3. simpl app.
           set (p' := {| p_seenOpt := p_seenOpt p; p_star := Some (n, name); p_starstar := None; p_nkw := p_nkw p |}).
           replace (ptail p seen (PStar n name r)) with (ptail p' seen r).
           ++ apply IHp; auto. repeat split; simpl; auto; try discriminate.
           ++ unfold ptail, p'. rewrite Est, Ess. simpl.
              destruct name as [[an ax]|]; simpl; auto.
              rewrite (R4 eq_refl). reflexivity.
  - (* PStarStar *)
    intros n nn x r [IHd IHp]. split.
    + intros st. rewrite u_dSS. apply IHd.
    + intros st p before seen [R1 [R2 [R3 R4]]] HB. rewrite u_pSS. cbv zeta. simpl v_params.
      set (st1 := match p_starstar p with Some _ => errorf st RParMultipleKwargs n | None => st end).
      assert (S1 : steps st st1 (when (existsb is_kpss before) RParMultipleKwargs n)).
      { unfold st1. rewrite <- R2. destruct (p_starstar p); simpl.
        - apply (steps_errorf st RParMultipleKwargs n).
        - apply steps_refl. }
      assert (B1 : B st1 seen) by (unfold st1; destruct (p_starstar p); [apply B_errorf|]; auto).
      set (p' := {| p_seenOpt := p_seenOpt p; p_star := p_star p; p_starstar := Some (nn, x); p_nkw := p_nkw p |}).
      replace (ptail p seen (PStarStar n nn x r)) with (ptail p' seen r).
      * rewrite <- app_assoc. chain S1. apply IHp; auto. repeat split; simpl; auto; try discriminate.
      * unfold ptail, p'. simpl. rewrite the_star_true.
        destruct (p_star p) as [[sn [nm|]]|]; auto.
        -- destruct (is_some (p_starstar p)); simpl; rewrite ?Nat.add_0_r; reflexivity.
        -- destruct (is_some (p_starstar p)); reflexivity.
  - (* CNil *) intros st. apply steps_refl.
  - (* CFor *)
    intros vars IHv iter IHi r IHr st. rewrite u_CFor. simpl v_clauses.
    set (st1 := assign_ opts W st false vars).
    assert (S1 : steps st st1 (v_lhs (ctx_of st) false vars)) by apply IHv.
    set (st2 := expr_ opts W st1 iter).
    assert (S2 : steps st1 st2 (v_expr (ctx_of st) iter)).
    { specialize (IHi st1). rewrite (steps_ctx _ _ _ S1) in IHi. exact IHi. }
    chain S1. chain S2.
    specialize (IHr st2). rewrite (steps_ctx _ _ _ S2), (steps_ctx _ _ _ S1) in IHr. exact IHr.
  - (* CIf *)
    intros c IHc r IHr st. rewrite u_CIf. simpl v_clauses.
    eapply steps_trans; [apply IHc|].
    specialize (IHr (expr_ opts W st c)). rewrite (steps_ctx _ _ _ (IHc st)) in IHr. exact IHr.
  - (* LId *) intros n x st aug. rewrite u_LId. apply steps_bind.
  - (* LSeq *)
    intros n ls IH st aug. rewrite u_LSeq. simpl v_lhs.
    assert (S1 : steps st (if aug then errorf st RAugSeq n else st) (when aug RAugSeq n))
      by (apply steps_when; reflexivity).
    chain S1. specialize (IH (if aug then errorf st RAugSeq n else st) aug).
    rewrite (steps_ctx _ _ _ S1) in IH. exact IH.
  - (* LExpr *) intros es IH st aug. rewrite u_LExpr. apply IH.
  - (* LBad *) intros n st aug. rewrite u_LBad. apply (steps_errorf st RBadAssign n).
  - (* LNil *) intros st aug. apply steps_refl.
  - (* LCons *)
    intros l IHl r IHr st aug. rewrite u_LCons. simpl v_lhss.
    eapply steps_trans; [apply IHl|].
    specialize (IHr (assign_ opts W st aug l) aug). rewrite (steps_ctx _ _ _ (IHl st aug)) in IHr. exact IHr.
Qed.

(* ------------------------------------------------------------------ statements *)
Lemma eqb0_ltb n : (n =? 0) = negb (0 <? n).
Proof. destruct n; reflexivity. Qed.

Lemma steps_gate st r n :
  scoping_rule r = false -> steps st (gate opts st r n) (toplevel_gate opts (ctx_of st) r n).
Proof. intros H. unfold gate, toplevel_gate. apply steps_when. exact H. Qed.

Lemma steps_load_items items : forall st,
  steps st (load_items opts st items)
        (flat_map (fun it => match it with (fn, from, _, _) => when (underscore from) RLoadUnderscore fn end) items).
Proof.
  induction items as [|[[[fn from] tn] to] items IH]; intros st; simpl.
  - apply steps_refl.
  - set (st1 := if starts_with_underscore from then errorf st RLoadUnderscore fn else st).
    assert (S1 : steps st st1 (when (underscore from) RLoadUnderscore fn)).
    { unfold st1. change (starts_with_underscore from) with (underscore from). apply steps_when. reflexivity. }
    chain S1.
    set (st2 := if o_load_binds_globally opts then snd (bind opts st1 tn to)
                else if fst (bindLocal st1 tn to) && negb (o_global_reassign opts)
                     then errorf (snd (bindLocal st1 tn to)) RLoadReassign tn
                     else snd (bindLocal st1 tn to)).
    assert (S2 : steps st1 st2 []).
    { unfold st2. destruct (o_load_binds_globally opts); [apply steps_bind|].
      destruct (fst (bindLocal st1 tn to) && negb (o_global_reassign opts)).
      - change [] with (@nil (rule * N) ++ []). eapply steps_trans; [apply steps_bindLocal|].
        apply (steps_errorf _ RLoadReassign tn).
      - apply steps_bindLocal. }
    change (flat_map _ items) with ([] ++ flat_map (fun it : N * string * N * string =>
        let (p, _) := it in let (p0, _) := p in let (fn0, from0) := p0 in when (underscore from0) RLoadUnderscore fn0) items).
    chain S2. apply IH.
Qed.

Theorem walk_stmts :
  (forall s st, steps st (stmt_ opts W st s) (v_stmt opts (ctx_of st) s)) /\
  (forall ss st, steps st (stmts_ opts W st ss) (v_stmts opts (ctx_of st) ss)).
Proof.
  destruct walk_exprs as [WE [WEs [WA [WP [WC [WL WLs]]]]]].
  apply stmt_mutind.
  - (* SExpr *) intros e st. rewrite u_SExpr. apply WE.
  - (* SBranch *)
    intros n st. rewrite u_SBranch. simpl v_stmt. rewrite eqb0_ltb.
    apply (steps_when st (negb (0 <? loops st)) RBranchNotInLoop n). reflexivity.
  - (* SIf *)
    intros n c t IHt f IHf st. rewrite u_SIf. cbv zeta. simpl v_stmt.
    assert (S0 : steps st (gate opts st RIfToplevel n) (toplevel_gate opts (ctx_of st) RIfToplevel n))
      by (apply steps_gate; reflexivity).
    set (st0 := gate opts st RIfToplevel n) in *.
    set (st1 := expr_ opts W st0 c).
    assert (S1 : steps st0 st1 (v_expr (ctx_of st) c)).
    { specialize (WE c st0). rewrite (steps_ctx _ _ _ S0) in WE. exact WE. }
    chain S0. chain S1. apply steps_if.
    assert (C1 : ctx_of st1 = ctx_of st) by (rewrite (steps_ctx _ _ _ S1), (steps_ctx _ _ _ S0); reflexivity).
    set (st2 := stmts_ opts W (set_ifstmts st1 (S (ifstmts st1))) t).
    assert (S2 : steps (set_ifstmts st1 (S (ifstmts st1))) st2 (v_stmts opts (in_if (ctx_of st)) t)).
    { specialize (IHt (set_ifstmts st1 (S (ifstmts st1)))). rewrite ctx_if, C1 in IHt. exact IHt. }
    chain S2.
    specialize (IHf st2). rewrite (steps_ctx _ _ _ S2), ctx_if, C1 in IHf. exact IHf.
  - (* SAssign *)
    intros aug l e st. rewrite u_SAssign. simpl v_stmt.
    eapply steps_trans; [apply WE|].
    specialize (WL l (expr_ opts W st e) aug). rewrite (steps_ctx _ _ _ (WE e st)) in WL. exact WL.
  - (* SDef *)
    intros n nn x ps body IHb st. rewrite u_SDef. cbv zeta. simpl v_stmt.
    destruct (WP ps) as [WPd WPp].
    set (st0 := snd (bind opts st nn x)).
    assert (S0 : steps st st0 []) by apply steps_bind.
    set (st1 := defaults_ opts W st0 ps).
    assert (S1 : steps st0 st1 (v_defaults (ctx_of st) ps)).
    { specialize (WPd st0). rewrite (steps_ctx _ _ _ S0) in WPd. exact WPd. }
    eapply steps_trans_nil; [exact S0|]. chain S1.
    assert (C1 : ctx_of st1 = ctx_of st) by (rewrite (steps_ctx _ _ _ S1), (steps_ctx _ _ _ S0); reflexivity).
    apply (steps_fn st1 st1); auto.
    set (st2 := params_ opts W (enter_fn st1) p0 ps).
    assert (S2 : steps (enter_fn st1) st2 (v_params [] [] ps ++ v_params_tail ps)).
    { apply (WPp (enter_fn st1) p0 [] []); [repeat split; auto|apply B_enter]. }
    rewrite app_assoc. chain S2.
    specialize (IHb st2). rewrite (steps_ctx _ _ _ S2), ctx_enter_fn, C1 in IHb. exact IHb.
  - (* SFor *)
    intros n vars iter body IHb st. rewrite u_SFor. cbv zeta. simpl v_stmt.
    assert (S0 : steps st (gate opts st RForToplevel n) (toplevel_gate opts (ctx_of st) RForToplevel n))
      by (apply steps_gate; reflexivity).
    set (st0 := gate opts st RForToplevel n) in *.
    set (st1 := expr_ opts W st0 iter).
    assert (S1 : steps st0 st1 (v_expr (ctx_of st) iter)).
    { specialize (WE iter st0). rewrite (steps_ctx _ _ _ S0) in WE. exact WE. }
    set (st2 := assign_ opts W st1 false vars).
    assert (S2 : steps st1 st2 (v_lhs (ctx_of st) false vars)).
    { specialize (WL vars st1 false). rewrite (steps_ctx _ _ _ S1), (steps_ctx _ _ _ S0) in WL. exact WL. }
    chain S0. chain S1. chain S2. apply steps_loop.
    specialize (IHb (set_loops st2 (S (loops st2)))).
    rewrite ctx_loop, (steps_ctx _ _ _ S2), (steps_ctx _ _ _ S1), (steps_ctx _ _ _ S0) in IHb. exact IHb.
  - (* SWhile *)
    intros n c body IHb st. rewrite u_SWhile. cbv zeta. simpl v_stmt.
    set (stw := if negb (o_while opts) then errorf st RWhileUnsupported n else st).
    assert (Sw : steps st stw (when (negb (o_while opts)) RWhileUnsupported n)) by (apply steps_when; reflexivity).
    assert (S0 : steps stw (gate opts stw RWhileToplevel n) (toplevel_gate opts (ctx_of st) RWhileToplevel n)).
    { rewrite <- (steps_ctx _ _ _ Sw). apply steps_gate; reflexivity. }
    set (st0 := gate opts stw RWhileToplevel n) in *.
    set (st1 := expr_ opts W st0 c).
    assert (S1 : steps st0 st1 (v_expr (ctx_of st) c)).
    { specialize (WE c st0). rewrite (steps_ctx _ _ _ S0), (steps_ctx _ _ _ Sw) in WE. exact WE. }
    chain Sw. chain S0. chain S1. apply steps_loop.
    specialize (IHb (set_loops st1 (S (loops st1)))).
    rewrite ctx_loop, (steps_ctx _ _ _ S1), (steps_ctx _ _ _ S0), (steps_ctx _ _ _ Sw) in IHb. exact IHb.
  - (* SReturn *)
    intros n e st. rewrite u_SReturn. cbv zeta. simpl v_stmt.
    set (st1 := if negb (in_function st) then errorf st RReturnToplevel n else st).
    assert (S1 : steps st st1 (when (negb (c_fn (ctx_of st))) RReturnToplevel n))
      by (apply (steps_when st (negb (in_function st)) RReturnToplevel n); reflexivity).
    chain S1. destruct e as [e|].
    + specialize (WE e st1). rewrite (steps_ctx _ _ _ S1) in WE. exact WE.
    + apply steps_refl.
  - (* SLoad *)
    intros n items st. rewrite u_SLoad. simpl v_stmt.
    set (st1 := if in_function st then errorf st RLoadInFunction n
                else if 0 <? loops st then errorf st RLoadInLoop n
                else if 0 <? ifstmts st then errorf st RLoadInConditional n else st).
    assert (S1 : steps st st1 (if c_fn (ctx_of st) then [(RLoadInFunction, n)]
                               else if c_loop (ctx_of st) then [(RLoadInLoop, n)]
                               else when (c_if (ctx_of st)) RLoadInConditional n)).
    { unfold st1, in_function. simpl c_fn. simpl c_loop. simpl c_if.
      destruct (0 <? fdepth st); [apply (steps_errorf st RLoadInFunction n)|].
      destruct (0 <? loops st); [apply (steps_errorf st RLoadInLoop n)|].
      apply steps_when. reflexivity. }
    chain S1. apply steps_load_items.
  - (* SNil *) intros st. apply steps_refl.
  - (* SCons *)
    intros s IHs r IHr st. rewrite u_SCons. simpl v_stmts.
    eapply steps_trans; [apply IHs|].
    specialize (IHr (stmt_ opts W st s)). rewrite (steps_ctx _ _ _ (IHs st)) in IHr. exact IHr.
Qed.

(* ------------------------------------------------- the end-of-module pass *)
Lemma steps_lookup fuel : forall st n x e, steps st (lookupLexical opts W fuel st n x e) [].
Proof.
  induction fuel as [|f IH]; intros st n x e; simpl.
  - destruct e as [b|]; [|apply steps_useToplevel].
    destruct (nth_error (blocks st) b); [|apply steps_refl].
    destruct (mem x (k_names b0) || mem x (k_memo b0)); apply steps_refl.
  - destruct e as [b|]; [|apply steps_useToplevel].
    destruct (nth_error (blocks st) b); [|apply steps_refl].
    destruct (mem x (k_names b0) || mem x (k_memo b0)); [apply steps_refl|].
    change [] with (@nil (rule * N) ++ []). eapply steps_trans; [apply IH|].
    apply steps_same; reflexivity.
Qed.

Lemma steps_fold {A} (f : rs -> A -> rs) (l : list A) :
  (forall st a, steps st (f st a) []) -> forall st, steps st (fold_left f l st) [].
Proof.
  intros H. induction l as [|a l IH]; intros st; simpl; [apply steps_refl|].
  change [] with (@nil (rule * N) ++ []). eapply steps_trans; [apply H|apply IH].
Qed.

Lemma steps_resolve_uses st c : steps st (resolve_uses_of opts W st c) [].
Proof.
  unfold resolve_uses_of. apply steps_fold. intros s cu.
  destruct (match fst cu, c with None, None => true | Some a, Some b => a =? b | _, _ => false end);
    [apply steps_lookup|apply steps_refl].
Qed.

Lemma steps_nonlocal fuel : forall st b, steps st (resolveNonLocalUses opts W fuel st b) [].
Proof.
  induction fuel as [|f IH]; intros st b; simpl; [apply steps_refl|].
  change [] with (@nil (rule * N) ++ []). eapply steps_trans; [|apply steps_resolve_uses].
  apply steps_fold. intros s c. apply IH.
Qed.

(* every error the model reports for a rule that needs no name resolution is a
   violation of the specification, and conversely *)
Theorem resolve_nonscoping (p : program) :
  ns (resolve opts W p) = viol opts p.
Proof.
  unfold resolve, viol.
  destruct walk_stmts as [_ WS].
  pose proof (WS p init) as S1.
  pose proof (steps_nonlocal (S (length (blocks (stmts_ opts W init p)))) (stmts_ opts W init p) None) as S2.
  pose proof (steps_trans _ _ _ _ _ S1 S2) as [_ [_ [_ [E [H Nn]]]]].
  rewrite H. change (errs init) with (@nil (rule * N)). cbn [app]. rewrite Nn, app_nil_r. reflexivity.
Qed.

End WithOpts.
