(* C09 -- the static rules as a specification, written from doc/spec.md
   ("Name binding and variables", "Function definitions", "Function and method
   calls", "Load statements", "Break and Continue", "While loops", ...) and the
   FileOptions documentation, independently of the resolver's code: no counters,
   no accumulated error state.  A rule is stated for a construct in a CONTEXT
   (is it inside a function body? inside a loop of that function? inside an if?)
   and, for list rules, in terms of WHAT PRECEDES the element in its list.

     violates o p rule pos  :=  In (rule, pos) (viol o p)

   viol lists the violations in source order.  The rules whose statement needs
   name resolution (undefined name, set, rebinding at top level, duplicate
   parameter) are in the second part of this file (scope_viol). *)
From Coq Require Import String Ascii List Bool Arith NArith.
From SV Require Import C09.Syntax.
Import ListNotations.

Record ctx := { c_fn : bool; c_loop : bool; c_if : bool }.
Definition top : ctx := {| c_fn := false; c_loop := false; c_if := false |}.
Definition in_body (c : ctx) : ctx := {| c_fn := true; c_loop := false; c_if := c_if c |}.
Definition in_loop (c : ctx) : ctx := {| c_fn := c_fn c; c_loop := true; c_if := c_if c |}.
Definition in_if (c : ctx) : ctx := {| c_fn := c_fn c; c_loop := c_loop c; c_if := true |}.

Definition when (b : bool) (r : rule) (n : N) : list (rule * N) := if b then [(r, n)] else [].

(* ---- argument lists: what precedes an argument ---- *)
Inductive akind := KPos | KNamed (x : string) | KStar | KSS.
Definition is_kstar (k : akind) := match k with KStar => true | _ => false end.
Definition is_kss (k : akind) := match k with KSS => true | _ => false end.
Definition is_knamed (k : akind) := match k with KNamed _ => true | _ => false end.
Definition is_kpos (k : akind) := match k with KPos => true | _ => false end.
Definition names_x (x : string) (k : akind) := match k with KNamed y => String.eqb x y | _ => false end.

Fixpoint kinds_of (a : args) : list akind :=
  match a with
  | ANil => []
  | APos _ _ r => KPos :: kinds_of r
  | ANamed _ x _ r => KNamed x :: kinds_of r
  | AStar _ _ r => KStar :: kinds_of r
  | AStarStar _ _ r => KSS :: kinds_of r
  end.

(* ---- parameter lists: what precedes a parameter ---- *)
Inductive pkind := KReg | KOpt | KPStar | KPSS.
Definition is_kopt (k : pkind) := match k with KOpt => true | _ => false end.
Definition is_kpstar (k : pkind) := match k with KPStar => true | _ => false end.
Definition is_kpss (k : pkind) := match k with KPSS => true | _ => false end.

(* keyword-only parameters: the ordinary parameters up to the first ** *)
Fixpoint kwonly_count (ps : params) : nat :=
  match ps with
  | PNil => 0
  | PId _ _ r | PDef _ _ _ r => S (kwonly_count r)
  | PStar _ _ r => kwonly_count r
  | PStarStar _ _ _ _ => 0
  end.

(* "a bare * must be followed by keyword-only parameters": the first * of the
   list (if no ** precedes it) when it has no name *)
Fixpoint bare_star (ps : params) : list (rule * N) :=
  match ps with
  | PNil => []
  | PId _ _ r | PDef _ _ _ r => bare_star r
  | PStar n None r => when (kwonly_count r =? 0) RParBareStar n
  | PStar n (Some _) r => []
  | PStarStar _ _ _ _ => []
  end.

Fixpoint v_params (before : list pkind) (ps : params) : list (rule * N) :=
  match ps with
  | PNil => []
  | PId n x r =>
      (if existsb is_kpss before then [(RParReqAfterKwargs, n)]
       else if existsb is_kpstar before then []
       else when (existsb is_kopt before) RParReqAfterOptional n)
      ++ v_params (KReg :: before) r
  | PDef n x d r =>
      when (existsb is_kpss before) RParOptAfterKwargs n ++ v_params (KOpt :: before) r
  | PStar n name r =>
      (if existsb is_kpss before then [(RParStarAfterKwargs, n)]
       else when (existsb is_kpstar before) RParMultipleStar n)
      ++ v_params (KPStar :: before) r
  | PStarStar n nn x r =>
      when (existsb is_kpss before) RParMultipleKwargs n ++ v_params (KPSS :: before) r
  end.

Fixpoint count_pos (a : args) : nat :=
  match a with
  | ANil => 0 | APos _ _ r => S (count_pos r)
  | ANamed _ _ _ r | AStar _ _ r | AStarStar _ _ r => count_pos r
  end.
Fixpoint count_named (a : args) : nat :=
  match a with
  | ANil => 0 | ANamed _ _ _ r => S (count_named r)
  | APos _ _ r | AStar _ _ r | AStarStar _ _ r => count_named r
  end.

Fixpoint v_expr (c : ctx) (e : expr) {struct e} : list (rule * N) :=
  match e with
  | EId _ _ => []
  | ELit => []
  | EOp es => v_exprs c es
  | ECall n f a =>
      v_expr c f ++ v_args c [] a
      ++ when (256 <=? count_pos a) RArgTooManyPos n      (* the compiler's operand has 8 bits for each count *)
      ++ when (256 <=? count_named a) RArgTooManyNamed n
  | ELambda n ps body => v_defaults c ps ++ v_params [] ps ++ bare_star ps ++ v_expr (in_body c) body
  | EComp n iter vars cl body => v_expr c iter ++ v_lhs c false vars ++ v_clauses c cl ++ v_expr c body
  end
with v_exprs (c : ctx) (es : exprs) {struct es} : list (rule * N) :=
  match es with
  | ENil => []
  | ECons e r => v_expr c e ++ v_exprs c r
  end
with v_args (c : ctx) (before : list akind) (l : args) {struct l} : list (rule * N) :=
  match l with
  | ANil => []
  | APos n e r =>
      (* positional arguments come first *)
      (if existsb is_kstar before then [(RArgPosAfterStar, n)]
       else if existsb is_kss before then [(RArgPosAfterKwargs, n)]
       else when (existsb is_knamed before) RArgPosAfterNamed n)
      ++ v_expr c e ++ v_args c (KPos :: before) r
  | ANamed n x e r =>
      (if existsb is_kss before then [(RArgNamedAfterKwargs, n)]
       else when (existsb is_kstar before) RArgNamedAfterStar n)
      ++ when (existsb (names_x x) before) RArgRepeatedName n
      ++ v_expr c e ++ v_args c (KNamed x :: before) r
  | AStar n e r =>
      (if existsb is_kss before then [(RArgStarAfterKwargs, n)]
       else when (existsb is_kstar before) RArgMultipleStar n)
      ++ v_expr c e ++ v_args c (KStar :: before) r
  | AStarStar n e r =>
      when (existsb is_kss before) RArgMultipleKwargs n
      ++ v_expr c e ++ v_args c (KSS :: before) r
  end
(* default values are evaluated in the enclosing function *)
with v_defaults (c : ctx) (ps : params) {struct ps} : list (rule * N) :=
  match ps with
  | PNil => []
  | PId _ _ r | PStar _ _ r | PStarStar _ _ _ r => v_defaults c r
  | PDef _ _ d r => v_expr c d ++ v_defaults c r
  end
with v_clauses (c : ctx) (cl : clauses) {struct cl} : list (rule * N) :=
  match cl with
  | CNil => []
  | CFor vars iter r => v_lhs c false vars ++ v_expr c iter ++ v_clauses c r
  | CIf e r => v_expr c e ++ v_clauses c r
  end
with v_lhs (c : ctx) (aug : bool) (l : lhs) {struct l} : list (rule * N) :=
  match l with
  | LId _ _ => []
  | LSeq n ls => when aug RAugSeq n ++ v_lhss c aug ls
  | LExpr es => v_exprs c es
  | LBad n => [(RBadAssign, n)]
  end
with v_lhss (c : ctx) (aug : bool) (ls : lhss) {struct ls} : list (rule * N) :=
  match ls with
  | LNil => []
  | LCons l r => v_lhs c aug l ++ v_lhss c aug r
  end.

Definition underscore (s : string) : bool :=
  match s with String ch _ => Ascii.eqb ch "_"%char | EmptyString => false end.

Section Stmts.
Variable o : options.

(* if/for/while outside any function need TopLevelControl *)
Definition toplevel_gate (c : ctx) (r : rule) (n : N) : list (rule * N) :=
  when (negb (o_toplevel_control o) && negb (c_fn c)) r n.

Fixpoint v_stmt (c : ctx) (s : stmt) {struct s} : list (rule * N) :=
  match s with
  | SExpr e => v_expr c e
  | SBranch n => when (negb (c_loop c)) RBranchNotInLoop n
  | SIf n cnd t f =>
      toplevel_gate c RIfToplevel n ++ v_expr c cnd ++ v_stmts (in_if c) t ++ v_stmts (in_if c) f
  | SAssign aug l e => v_expr c e ++ v_lhs c aug l
  | SDef n nn x ps body =>
      v_defaults c ps ++ v_params [] ps ++ bare_star ps ++ v_stmts (in_body c) body
  | SFor n vars iter body =>
      toplevel_gate c RForToplevel n ++ v_expr c iter ++ v_lhs c false vars ++ v_stmts (in_loop c) body
  | SWhile n cnd body =>
      when (negb (o_while o)) RWhileUnsupported n ++ toplevel_gate c RWhileToplevel n
      ++ v_expr c cnd ++ v_stmts (in_loop c) body
  | SReturn n e =>
      when (negb (c_fn c)) RReturnToplevel n ++ match e with Some e => v_expr c e | None => [] end
  | SLoad n items =>
      (* a load statement may not be nested in any other statement *)
      (if c_fn c then [(RLoadInFunction, n)]
       else if c_loop c then [(RLoadInLoop, n)]
       else when (c_if c) RLoadInConditional n)
      ++ flat_map (fun it => match it with (fn, from, _, _) => when (underscore from) RLoadUnderscore fn end) items
  end
with v_stmts (c : ctx) (ss : stmts) {struct ss} : list (rule * N) :=
  match ss with
  | SNil => []
  | SCons s r => v_stmt c s ++ v_stmts c r
  end.

Definition viol (p : program) : list (rule * N) := v_stmts top p.

End Stmts.

Definition violates (o : options) (p : program) (r : rule) (n : N) : Prop := In (r, n) (viol o p).

(* the rules whose statement needs name resolution *)
Definition scoping_rule (r : rule) : bool :=
  match r with
  | RReassign | RLoadReassign | RSetUnsupported | RUndefined | RParDuplicate => true
  | _ => false
  end.

Definition err_eqb (a b : rule * N) : bool := rule_eqb (fst a) (fst b) && N.eqb (snd a) (snd b).
Fixpoint list_eqb {X} (f : X -> X -> bool) (a b : list X) : bool :=
  match a, b with [], [] => true | x :: r, y :: s => f x y && list_eqb f r s | _, _ => false end.

(* used by the check: do the errors the resolver reported agree with the rules? *)
Definition spec_agrees (o : options) (W : world) (p : program) (obs : list (rule * N)) : bool :=
  list_eqb err_eqb (filter (fun e => negb (scoping_rule (fst e))) obs) (viol o p).
