(* C09 -- the static rules as a specification, written from doc/spec.md
   ("Name binding and variables", "Function definitions", "Function and method
   calls", "Load statements", "Break and Continue", "While loops", ...) and the
   FileOptions documentation, independently of the resolver's code: no counters,
   no accumulated error state.  A rule is stated for a construct in a CONTEXT
   (is it inside a function body? inside a loop of that function? inside an if?)
   and, for list rules, in terms of WHAT PRECEDES the element in its list.

     violates o p rule pos  :=  In (rule, pos) (viol o p)

   viol lists the violations in source order.  The rules whose statement needs
   name resolution (undefined name, set, rebinding at top level; duplicate
   parameter is NOT among them: it only needs the names of the list) are in the
   second part of this file (scope_viol). *)
From Coq Require Import String Ascii List Bool Arith NArith.
From SV Require Import C09.Syntax.
Import ListNotations.

Record ctx := { c_fn : bool; c_loop : bool; c_if : bool }.
Definition top : ctx := {| c_fn := false; c_loop := false; c_if := false |}.
Definition in_body (c : ctx) : ctx := {| c_fn := true; c_loop := false; c_if := c_if c |}.
Definition in_loop (c : ctx) : ctx := {| c_fn := c_fn c; c_loop := true; c_if := c_if c |}.
Definition in_if (c : ctx) : ctx := {| c_fn := c_fn c; c_loop := c_loop c; c_if := true |}.

Definition when (b : bool) (r : rule) (n : N) : list (rule * N) := if b then [(r, n)] else [].

(* ---- argument lists: what precedes an argument ---- *)
Inductive akind := KPos | KNamed (x : string) | KStar | KSS.
Definition is_kstar (k : akind) := match k with KStar => true | _ => false end.
Definition is_kss (k : akind) := match k with KSS => true | _ => false end.
Definition is_knamed (k : akind) := match k with KNamed _ => true | _ => false end.
Definition is_kpos (k : akind) := match k with KPos => true | _ => false end.
Definition names_x (x : string) (k : akind) := match k with KNamed y => String.eqb x y | _ => false end.

Fixpoint kinds_of (a : args) : list akind :=
  match a with
  | ANil => []
  | APos _ _ r => KPos :: kinds_of r
  | ANamed _ x _ r => KNamed x :: kinds_of r
  | AStar _ _ r => KStar :: kinds_of r
  | AStarStar _ _ r => KSS :: kinds_of r
  end.

Definition smem (x : string) (l : list string) : bool := existsb (String.eqb x) l.

(* ---- parameter lists: what precedes a parameter ---- *)
Inductive pkind := KReg | KOpt | KPStar | KPSS.
Definition is_kopt (k : pkind) := match k with KOpt => true | _ => false end.
Definition is_kpstar (k : pkind) := match k with KPStar => true | _ => false end.
Definition is_kpss (k : pkind) := match k with KPSS => true | _ => false end.

(* keyword-only parameters: the ordinary parameters up to the first ** *)
Fixpoint kwonly_count (ps : params) : nat :=
  match ps with
  | PNil => 0
  | PId _ _ r | PDef _ _ _ r => S (kwonly_count r)
  | PStar _ _ r => kwonly_count r
  | PStarStar _ _ _ _ => 0
  end.

(* "a bare * must be followed by keyword-only parameters": the first * of the
   list (if no ** precedes it) when it has no name *)
Fixpoint bare_star (ps : params) : list (rule * N) :=
  match ps with
  | PNil => []
  | PId _ _ r | PDef _ _ _ r => bare_star r
  | PStar n None r => when (kwonly_count r =? 0) RParBareStar n
  | PStar n (Some _) r => []
  | PStarStar _ _ _ _ => []
  end.

(* parameter names must be distinct: `seen` = the names of the preceding ordinary parameters *)
Fixpoint v_params (before : list pkind) (seen : list string) (ps : params) : list (rule * N) :=
  match ps with
  | PNil => []
  | PId n x r =>
      (if existsb is_kpss before then [(RParReqAfterKwargs, n)]
       else if existsb is_kpstar before then []
       else when (existsb is_kopt before) RParReqAfterOptional n)
      ++ when (smem x seen) RParDuplicate n
      ++ v_params (KReg :: before) (if smem x seen then seen else x :: seen) r
  | PDef n x d r =>
      when (existsb is_kpss before) RParOptAfterKwargs n
      ++ when (smem x seen) RParDuplicate n
      ++ v_params (KOpt :: before) (if smem x seen then seen else x :: seen) r
  | PStar n name r =>
      (if existsb is_kpss before then [(RParStarAfterKwargs, n)]
       else when (existsb is_kpstar before) RParMultipleStar n)
      ++ v_params (KPStar :: before) seen r
  | PStarStar n nn x r =>
      when (existsb is_kpss before) RParMultipleKwargs n ++ v_params (KPSS :: before) seen r
  end.

(* the names of the ordinary parameters (each once) *)
Fixpoint regular_names (seen : list string) (ps : params) : list string :=
  match ps with
  | PNil => seen
  | PId _ x r | PDef _ x _ r => regular_names (if smem x seen then seen else x :: seen) r
  | PStar _ _ r | PStarStar _ _ _ r => regular_names seen r
  end.

(* the * parameter that counts: the first one, unless a ** precedes it *)
Fixpoint the_star (ss_seen : bool) (ps : params) : option (N * option (N * string)) :=
  match ps with
  | PNil => None
  | PId _ _ r | PDef _ _ _ r => the_star ss_seen r
  | PStar n nm r => if ss_seen then the_star ss_seen r else Some (n, nm)
  | PStarStar _ _ _ r => the_star true r
  end.
(* the ** parameter that counts: the last one *)
Fixpoint the_ss (acc : option (N * string)) (ps : params) : option (N * string) :=
  match ps with
  | PNil => acc
  | PId _ _ r | PDef _ _ _ r | PStar _ _ r => the_ss acc r
  | PStarStar _ nn x r => the_ss (Some (nn, x)) r
  end.

(* after the ordinary parameters: *args must not repeat one of them; a bare * must be
   followed by keyword-only parameters; **kwargs must not repeat any other name *)
Definition v_params_tail (ps : params) : list (rule * N) :=
  let seen := regular_names [] ps in
  let s1 := match the_star false ps with
            | Some (_, Some (an, ax)) =>
                (when (smem ax seen) RParDuplicate an, if smem ax seen then seen else ax :: seen)
            | Some (n, None) => (bare_star ps, seen)
            | None => ([], seen)
            end in
  fst s1 ++ match the_ss None ps with Some (nn, x) => when (smem x (snd s1)) RParDuplicate nn | None => [] end.

Fixpoint count_pos (a : args) : nat :=
  match a with
  | ANil => 0 | APos _ _ r => S (count_pos r)
  | ANamed _ _ _ r | AStar _ _ r | AStarStar _ _ r => count_pos r
  end.
Fixpoint count_named (a : args) : nat :=
  match a with
  | ANil => 0 | ANamed _ _ _ r => S (count_named r)
  | APos _ _ r | AStar _ _ r | AStarStar _ _ r => count_named r
  end.

Fixpoint v_expr (c : ctx) (e : expr) {struct e} : list (rule * N) :=
  match e with
  | EId _ _ => []
  | ELit => []
  | EOp es => v_exprs c es
  | ECall n f a =>
      v_expr c f ++ v_args c [] a
      ++ when (256 <=? count_pos a) RArgTooManyPos n      (* the compiler's operand has 8 bits for each count *)
      ++ when (256 <=? count_named a) RArgTooManyNamed n
  | ELambda n ps body => v_defaults c ps ++ v_params [] [] ps ++ v_params_tail ps ++ v_expr (in_body c) body
  | EComp n iter vars cl body => v_expr c iter ++ v_lhs c false vars ++ v_clauses c cl ++ v_expr c body
  end
with v_exprs (c : ctx) (es : exprs) {struct es} : list (rule * N) :=
  match es with
  | ENil => []
  | ECons e r => v_expr c e ++ v_exprs c r
  end
with v_args (c : ctx) (before : list akind) (l : args) {struct l} : list (rule * N) :=
  match l with
  | ANil => []
  | APos n e r =>
      (* positional arguments come first *)
      (if existsb is_kstar before then [(RArgPosAfterStar, n)]
       else if existsb is_kss before then [(RArgPosAfterKwargs, n)]
       else when (existsb is_knamed before) RArgPosAfterNamed n)
      ++ v_expr c e ++ v_args c (KPos :: before) r
  | ANamed n x e r =>
      (if existsb is_kss before then [(RArgNamedAfterKwargs, n)]
       else when (existsb is_kstar before) RArgNamedAfterStar n)
      ++ when (existsb (names_x x) before) RArgRepeatedName n
      ++ v_expr c e ++ v_args c (KNamed x :: before) r
  | AStar n e r =>
      (if existsb is_kss before then [(RArgStarAfterKwargs, n)]
       else when (existsb is_kstar before) RArgMultipleStar n)
      ++ v_expr c e ++ v_args c (KStar :: before) r
  | AStarStar n e r =>
      when (existsb is_kss before) RArgMultipleKwargs n
      ++ v_expr c e ++ v_args c (KSS :: before) r
  end
(* default values are evaluated in the enclosing function *)
with v_defaults (c : ctx) (ps : params) {struct ps} : list (rule * N) :=
  match ps with
  | PNil => []
  | PId _ _ r | PStar _ _ r | PStarStar _ _ _ r => v_defaults c r
  | PDef _ _ d r => v_expr c d ++ v_defaults c r
  end
with v_clauses (c : ctx) (cl : clauses) {struct cl} : list (rule * N) :=
  match cl with
  | CNil => []
  | CFor vars iter r => v_lhs c false vars ++ v_expr c iter ++ v_clauses c r
  | CIf e r => v_expr c e ++ v_clauses c r
  end
with v_lhs (c : ctx) (aug : bool) (l : lhs) {struct l} : list (rule * N) :=
  match l with
  | LId _ _ => []
  | LSeq n ls => when aug RAugSeq n ++ v_lhss c aug ls
  | LExpr es => v_exprs c es
  | LBad n => [(RBadAssign, n)]
  end
with v_lhss (c : ctx) (aug : bool) (ls : lhss) {struct ls} : list (rule * N) :=
  match ls with
  | LNil => []
  | LCons l r => v_lhs c aug l ++ v_lhss c aug r
  end.

Definition underscore (s : string) : bool :=
  match s with String ch _ => Ascii.eqb ch "_"%char | EmptyString => false end.

Section Stmts.
Variable o : options.

(* if/for/while outside any function need TopLevelControl *)
Definition toplevel_gate (c : ctx) (r : rule) (n : N) : list (rule * N) :=
  when (negb (o_toplevel_control o) && negb (c_fn c)) r n.

Fixpoint v_stmt (c : ctx) (s : stmt) {struct s} : list (rule * N) :=
  match s with
  | SExpr e => v_expr c e
  | SBranch n => when (negb (c_loop c)) RBranchNotInLoop n
  | SIf n cnd t f =>
      toplevel_gate c RIfToplevel n ++ v_expr c cnd ++ v_stmts (in_if c) t ++ v_stmts (in_if c) f
  | SAssign aug l e => v_expr c e ++ v_lhs c aug l
  | SDef n nn x ps body =>
      v_defaults c ps ++ v_params [] [] ps ++ v_params_tail ps ++ v_stmts (in_body c) body
  | SFor n vars iter body =>
      toplevel_gate c RForToplevel n ++ v_expr c iter ++ v_lhs c false vars ++ v_stmts (in_loop c) body
  | SWhile n cnd body =>
      when (negb (o_while o)) RWhileUnsupported n ++ toplevel_gate c RWhileToplevel n
      ++ v_expr c cnd ++ v_stmts (in_loop c) body
  | SReturn n e =>
      when (negb (c_fn c)) RReturnToplevel n ++ match e with Some e => v_expr c e | None => [] end
  | SLoad n items =>
      (* a load statement may not be nested in any other statement *)
      (if c_fn c then [(RLoadInFunction, n)]
       else if c_loop c then [(RLoadInLoop, n)]
       else when (c_if c) RLoadInConditional n)
      ++ flat_map (fun it => match it with (fn, from, _, _) => when (underscore from) RLoadUnderscore fn end) items
  end
with v_stmts (c : ctx) (ss : stmts) {struct ss} : list (rule * N) :=
  match ss with
  | SNil => []
  | SCons s r => v_stmt c s ++ v_stmts c r
  end.

Definition viol (p : program) : list (rule * N) := v_stmts top p.

End Stmts.

Definition violates (o : options) (p : program) (r : rule) (n : N) : Prop := In (r, n) (viol o p).

(* the rules whose statement needs name resolution *)
Definition scoping_rule (r : rule) : bool :=
  match r with
  | RReassign | RLoadReassign | RSetUnsupported | RUndefined => true
  | _ => false
  end.


(* ------------------------------------------------------------------------
   Second part: the rules that need name resolution, as an executable oracle
   (used by the check; no theorem is proved about it).

   doc/spec.md, "Name binding and variables": a name is local to the innermost
   function (or comprehension) that binds it anywhere in its body; otherwise it
   refers to a file-local (load) or global binding of the module, made anywhere
   in the file; otherwise to a predeclared or universal name; otherwise it is
   undefined.  A global may be bound once (unless GlobalReassign).  With
   GlobalReassign a use at file level sees only what is bound so far (the
   legacy semantics the option carries).  `set` needs the Set option. *)
Fixpoint lhs_names (l : lhs) : list string :=
  match l with
  | LId _ x => [x]
  | LSeq _ ls => lhss_names ls
  | _ => []
  end
with lhss_names (ls : lhss) : list string :=
  match ls with LNil => [] | LCons l r => lhs_names l ++ lhss_names r end.

(* names bound directly in a container: not entering nested functions / comprehensions *)
Fixpoint bound_stmt (s : stmt) : list string :=
  match s with
  | SAssign _ l _ => lhs_names l
  | SDef _ _ x _ _ => [x]
  | SFor _ vars _ body => lhs_names vars ++ bound_stmts body
  | SIf _ _ t f => bound_stmts t ++ bound_stmts f
  | SWhile _ _ body => bound_stmts body
  | SLoad _ items => map (fun it => match it with (_, _, _, to) => to end) items
  | _ => []
  end
with bound_stmts (ss : stmts) : list string :=
  match ss with SNil => [] | SCons s r => bound_stmt s ++ bound_stmts r end.

Fixpoint param_names (ps : params) : list string :=
  match ps with
  | PNil => []
  | PId _ x r | PDef _ x _ r => x :: param_names r
  | PStar _ (Some (_, x)) r => x :: param_names r
  | PStar _ None r => param_names r
  | PStarStar _ _ x r => x :: param_names r
  end.

Fixpoint clause_names (cl : clauses) : list string :=
  match cl with
  | CNil => []
  | CFor vars _ r => lhs_names vars ++ clause_names r
  | CIf _ r => clause_names r
  end.

(* duplicate parameters: ordinary parameters are bound in order, then *args, then **kwargs *)
Fixpoint dup_regular (seen : list string) (ps : params) : list (rule * N) * list string :=
  match ps with
  | PNil => ([], seen)
  | PId n x r | PDef n x _ r =>
      let d := dup_regular (if smem x seen then seen else x :: seen) r in
      (when (smem x seen) RParDuplicate n ++ fst d, snd d)
  | PStar _ _ r | PStarStar _ _ _ r => dup_regular seen r
  end.
(* the recorded star is the first one not preceded by **; the recorded ** is the last one *)
Fixpoint first_star (ss_seen : bool) (ps : params) : option (N * string) :=
  match ps with
  | PNil => None
  | PId _ _ r | PDef _ _ _ r => first_star ss_seen r
  | PStar _ nm r => if ss_seen then first_star ss_seen r else nm
  | PStarStar _ _ _ r => first_star true r
  end.
Fixpoint last_ss (acc : option (N * string)) (ps : params) : option (N * string) :=
  match ps with
  | PNil => acc
  | PId _ _ r | PDef _ _ _ r | PStar _ _ r => last_ss acc r
  | PStarStar _ nn x r => last_ss (Some (nn, x)) r
  end.
Definition dup_params (ps : params) : list (rule * N) :=
  let d := dup_regular [] ps in
  let seen := snd d in
  let s1 := match first_star false ps with
            | Some (an, ax) => (when (smem ax seen) RParDuplicate an, if smem ax seen then seen else ax :: seen)
            | None => ([], seen)
            end in
  fst d ++ fst s1 ++
  match last_ss None ps with Some (nn, x) => when (smem x (snd s1)) RParDuplicate nn | None => [] end.

Section Scope.
Variable o : options.
Variable W : world.
Variable complete : list string.      (* every name bound at file level anywhere in the module *)

(* fl = Some sofar: a use at file level under GlobalReassign sees only `sofar` *)
Definition use_viol (env : list (list string)) (fl : option (list string)) (n : N) (x : string) : list (rule * N) :=
  if existsb (smem x) env then []
  else if smem x (match fl with Some sofar => sofar | None => complete end) then []
  else if smem x (w_predeclared W) then []
  else if smem x (w_universal W) then when (negb (o_set o) && String.eqb x "set") RSetUnsupported n
  else [(RUndefined, n)].

Fixpoint s_expr (env : list (list string)) (fl : option (list string)) (e : expr) {struct e} : list (rule * N) :=
  match e with
  | EId n x => use_viol env fl n x
  | ELit => []
  | EOp es => s_exprs env fl es
  | ECall _ f a => s_expr env fl f ++ s_args env fl a
  | ELambda _ ps body => s_defaults env fl ps ++ dup_params ps ++ s_expr (param_names ps :: env) None body
  | EComp _ iter vars cl body =>
      let env' := (lhs_names vars ++ clause_names cl) :: env in
      s_expr env fl iter ++ s_lhs env' None vars ++ s_clauses env' cl ++ s_expr env' None body
  end
with s_exprs (env : list (list string)) (fl : option (list string)) (es : exprs) {struct es} : list (rule * N) :=
  match es with ENil => [] | ECons e r => s_expr env fl e ++ s_exprs env fl r end
with s_args (env : list (list string)) (fl : option (list string)) (a : args) {struct a} : list (rule * N) :=
  match a with
  | ANil => []
  | APos _ e r | ANamed _ _ e r | AStar _ e r | AStarStar _ e r => s_expr env fl e ++ s_args env fl r
  end
with s_defaults (env : list (list string)) (fl : option (list string)) (ps : params) {struct ps} : list (rule * N) :=
  match ps with
  | PNil => []
  | PId _ _ r | PStar _ _ r | PStarStar _ _ _ r => s_defaults env fl r
  | PDef _ _ d r => s_expr env fl d ++ s_defaults env fl r
  end
with s_clauses (env : list (list string)) (cl : clauses) {struct cl} : list (rule * N) :=
  match cl with
  | CNil => []
  | CFor vars iter r => s_lhs env None vars ++ s_expr env None iter ++ s_clauses env r
  | CIf c r => s_expr env None c ++ s_clauses env r
  end
(* the uses inside an assignment target (x[i] = .., x.f = ..) *)
with s_lhs (env : list (list string)) (fl : option (list string)) (l : lhs) {struct l} : list (rule * N) :=
  match l with
  | LId _ _ => []
  | LSeq _ ls => s_lhss env fl ls
  | LExpr es => s_exprs env fl es
  | LBad _ => []
  end
with s_lhss (env : list (list string)) (fl : option (list string)) (ls : lhss) {struct ls} : list (rule * N) :=
  match ls with LNil => [] | LCons l r => s_lhs env fl l ++ s_lhss env fl r end.

(* statements inside a function: every binding is local, nothing is rebinding *)
Fixpoint s_stmt (env : list (list string)) (s : stmt) {struct s} : list (rule * N) :=
  match s with
  | SExpr e => s_expr env None e
  | SBranch _ => []
  | SIf _ c t f => s_expr env None c ++ s_stmts env t ++ s_stmts env f
  | SAssign _ l e => s_expr env None e ++ s_lhs env None l
  | SDef _ _ _ ps body =>
      s_defaults env None ps ++ dup_params ps ++ s_stmts ((param_names ps ++ bound_stmts body) :: env) body
  | SFor _ vars iter body => s_expr env None iter ++ s_lhs env None vars ++ s_stmts env body
  | SWhile _ c body => s_expr env None c ++ s_stmts env body
  | SReturn _ e => match e with Some e => s_expr env None e | None => [] end
  | SLoad _ _ => []
  end
with s_stmts (env : list (list string)) (ss : stmts) {struct ss} : list (rule * N) :=
  match ss with SNil => [] | SCons s r => s_stmt env s ++ s_stmts env r end.

(* file level: g = globals bound so far, f = load-bound file-locals so far *)
Definition fl_of (g f : list string) : option (list string) :=
  if o_global_reassign o then Some (g ++ f) else None.

Fixpoint t_bind (g f : list string) (l : lhs) : list (rule * N) * list string :=
  match l with
  | LId n x =>
      if smem x f || smem x g then (when (negb (o_global_reassign o)) RReassign n, g) else ([], g ++ [x])
  | LSeq _ ls => t_binds g f ls
  | _ => ([], g)
  end
with t_binds (g f : list string) (ls : lhss) : list (rule * N) * list string :=
  match ls with
  | LNil => ([], g)
  | LCons l r => let a := t_bind g f l in let b := t_binds (snd a) f r in (fst a ++ fst b, snd b)
  end.

Fixpoint t_load (g f : list string) (items : list (N * string * N * string)) : list (rule * N) * (list string * list string) :=
  match items with
  | [] => ([], (g, f))
  | (_, _, tn, to) :: r =>
      if o_load_binds_globally o then
        let a := t_bind g f (LId tn to) in
        let b := t_load (snd a) f r in (fst a ++ fst b, snd b)
      else if smem to f then
        let b := t_load g f r in (when (negb (o_global_reassign o)) RLoadReassign tn ++ fst b, snd b)
      else t_load g (f ++ [to]) r
  end.

Fixpoint t_stmt (g f : list string) (s : stmt) {struct s} : list (rule * N) * (list string * list string) :=
  match s with
  | SExpr e => (s_expr [] (fl_of g f) e, (g, f))
  | SBranch _ => ([], (g, f))
  | SIf _ c t e =>
      let a := t_stmts g f t in
      let b := t_stmts (fst (snd a)) (snd (snd a)) e in
      (s_expr [] (fl_of g f) c ++ fst a ++ fst b, snd b)
  | SAssign _ l e =>
      let u := s_expr [] (fl_of g f) e in
      let b := t_bind g f l in
      (u ++ s_lhs [] (fl_of g f) l ++ fst b, (snd b, f))
  | SDef _ nn x ps body =>
      let b := t_bind g f (LId nn x) in
      (fst b ++ s_defaults [] (fl_of (snd b) f) ps ++ dup_params ps
       ++ s_stmts [param_names ps ++ bound_stmts body] body, (snd b, f))
  | SFor _ vars iter body =>
      let u := s_expr [] (fl_of g f) iter in
      let b := t_bind g f vars in
      let c := t_stmts (snd b) f body in
      (u ++ s_lhs [] (fl_of g f) vars ++ fst b ++ fst c, snd c)
  | SWhile _ c body =>
      let b := t_stmts g f body in (s_expr [] (fl_of g f) c ++ fst b, snd b)
  | SReturn _ e => (match e with Some e => s_expr [] (fl_of g f) e | None => [] end, (g, f))
  | SLoad _ items => t_load g f items
  end
with t_stmts (g f : list string) (ss : stmts) {struct ss} : list (rule * N) * (list string * list string) :=
  match ss with
  | SNil => ([], (g, f))
  | SCons s r =>
      let a := t_stmt g f s in
      let b := t_stmts (fst (snd a)) (snd (snd a)) r in (fst a ++ fst b, snd b)
  end.

End Scope.

Definition scope_viol (o : options) (W : world) (p : program) : list (rule * N) :=
  fst (t_stmts o W (bound_stmts p) [] [] p).

Definition err_eqb (a b : rule * N) : bool := rule_eqb (fst a) (fst b) && N.eqb (snd a) (snd b).
Fixpoint list_eqb {X} (f : X -> X -> bool) (a b : list X) : bool :=
  match a, b with [], [] => true | x :: r, y :: s => f x y && list_eqb f r s | _, _ => false end.

Definition only (r : rule) (l : list (rule * N)) : list (rule * N) := filter (fun e => rule_eqb (fst e) r) l.
Definition subset (a b : list (rule * N)) : bool := forallb (fun e => existsb (err_eqb e) b) a.
Definition nil_iff (a b : list (rule * N)) : bool := match a, b with [], [] => true | _ :: _, _ :: _ => true | _, _ => false end.

(* used by the check: do the errors the resolver reported agree with the rules?
   - rules that need no name resolution: the same list, in order;
   - rebinding and duplicate-parameter rules: the same set;
   - undefined / set: the resolver reports a use at most once per name and
     top-level block (lookupLexical memoises): every report is a violation, and
     there is a report iff there is a violation. *)
Definition spec_agrees (o : options) (W : world) (p : program) (obs : list (rule * N)) : bool :=
  let sv := scope_viol o W p in
  list_eqb err_eqb (filter (fun e => negb (scoping_rule (fst e))) obs) (viol o p)
  && forallb (fun r => subset (only r obs) (only r sv) && subset (only r sv) (only r obs))
             [RReassign; RLoadReassign]
  && forallb (fun r => subset (only r obs) (only r sv) && nil_iff (only r obs) (only r sv))
             [RUndefined; RSetUnsupported].
