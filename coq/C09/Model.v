(* C09 -- executable model of the static checks of resolve/resolve.go, in the
   order the code performs them, as a state-passing walk:
     resolver.stmt / expr / assign / function      context counters, option gating,
                                                    parameter and argument list rules, load rules
     resolver.bind / bindLocal / use / useToplevel  scoping; blocks are a table indexed by
                                                    creation order (the code's *block pointers)
     REPLChunk's tail: resolveNonLocalUses / lookupLexical (with its memoisation)
   Output: the list of (rule, position) in the order of the r.errorf calls.
   Not modelled: binding indices, free-variable capture, the spell-check hint,
   REPL globals (isGlobal = nil).  No proofs here. *)
From Coq Require Import String Ascii List Bool Arith NArith.
From SV Require Import C09.Syntax.
Import ListNotations.


Definition mem (x : string) (l : list string) : bool := existsb (String.eqb x) l.

Record blk := {
  k_parent : option nat;        (* None = the file block *)
  k_isfn : bool;                (* function block / comprehension block *)
  k_names : list string;        (* local bindings *)
  k_memo : list string          (* non-local bindings entered by lookupLexical *)
}.

Record use := { u_name : string; u_node : N; u_env : option nat }.

Record rs := {
  loops : nat; ifstmts : nat;
  fdepth : nat;                              (* number of enclosing function blocks: container().function != nil iff > 0 *)
  errs : list (rule * N);
  blocks : list blk;
  env : option nat;
  globals : list string;
  fileb : list string;                       (* r.file.bindings: load-bound file-locals *)
  premem : list string;                      (* r.predeclared *)
  buses : list (option nat * use)            (* (container, use), in order of r.use calls *)
}.

Section Resolver.
Variable opts : options.
Variable W : world.

Definition errorf (st : rs) (r : rule) (n : N) : rs :=
  {| loops := loops st; ifstmts := ifstmts st; fdepth := fdepth st; errs := errs st ++ [(r, n)]; blocks := blocks st;
     env := env st; globals := globals st; fileb := fileb st; premem := premem st; buses := buses st |}.

Definition set_loops (st : rs) (k : nat) : rs :=
  {| loops := k; ifstmts := ifstmts st; fdepth := fdepth st; errs := errs st; blocks := blocks st;
     env := env st; globals := globals st; fileb := fileb st; premem := premem st; buses := buses st |}.

Definition set_ifstmts (st : rs) (k : nat) : rs :=
  {| loops := loops st; ifstmts := k; fdepth := fdepth st; errs := errs st; blocks := blocks st;
     env := env st; globals := globals st; fileb := fileb st; premem := premem st; buses := buses st |}.

Definition set_fdepth (st : rs) (k : nat) : rs :=
  {| loops := loops st; ifstmts := ifstmts st; fdepth := k; errs := errs st; blocks := blocks st;
     env := env st; globals := globals st; fileb := fileb st; premem := premem st; buses := buses st |}.

Definition set_env (st : rs) (e : option nat) : rs :=
  {| loops := loops st; ifstmts := ifstmts st; fdepth := fdepth st; errs := errs st; blocks := blocks st;
     env := e; globals := globals st; fileb := fileb st; premem := premem st; buses := buses st |}.

Definition set_blocks (st : rs) (b : list blk) : rs :=
  {| loops := loops st; ifstmts := ifstmts st; fdepth := fdepth st; errs := errs st; blocks := b;
     env := env st; globals := globals st; fileb := fileb st; premem := premem st; buses := buses st |}.

Definition set_scope (st : rs) (g f p : list string) : rs :=
  {| loops := loops st; ifstmts := ifstmts st; fdepth := fdepth st; errs := errs st; blocks := blocks st;
     env := env st; globals := g; fileb := f; premem := p; buses := buses st |}.

Definition add_use (st : rs) (c : option nat) (u : use) : rs :=
  {| loops := loops st; ifstmts := ifstmts st; fdepth := fdepth st; errs := errs st; blocks := blocks st;
     env := env st; globals := globals st; fileb := fileb st; premem := premem st;
     buses := buses st ++ [(c, u)] |}.

Fixpoint upd_blk (i : nat) (f : blk -> blk) (l : list blk) : list blk :=
  match l, i with
  | [], _ => []
  | b :: r, 0 => f b :: r
  | b :: r, S j => b :: upd_blk j f r
  end.

(* container(): the innermost enclosing function block, or the file *)
Fixpoint container_from (fuel : nat) (bl : list blk) (e : option nat) : option nat :=
  match e with
  | None => None
  | Some b =>
      match nth_error bl b with
      | None => None
      | Some k => if k_isfn k then Some b
                  else match fuel with 0 => None | S f => container_from f bl (k_parent k) end
      end
  end.
Definition container (st : rs) : option nat := container_from (length (blocks st)) (blocks st) (env st).
(* container().function != nil; the depth counter is kept in step with push/pop of function blocks *)
Definition in_function (st : rs) : bool := 0 <? fdepth st.

(* push(&block{...}) / pop() *)
Definition push (st : rs) (isfn : bool) : rs :=
  let id := length (blocks st) in
  set_env (set_blocks st (blocks st ++ [{| k_parent := env st; k_isfn := isfn; k_names := []; k_memo := [] |}]))
          (Some id).
Definition pop (st : rs) : rs :=
  match env st with
  | Some b => match nth_error (blocks st) b with
              | Some k => set_env st (k_parent k)
              | None => st
              end
  | None => st
  end.

(* useToplevel: file-local, global, predeclared, universal, or undefined *)
Definition useToplevel (st : rs) (n : N) (x : string) : rs :=
  if mem x (fileb st) then st
  else if mem x (globals st) then st
  else if mem x (premem st) then st
  else if mem x (w_predeclared W) then set_scope st (globals st) (fileb st) (x :: premem st)
  else if mem x (w_universal W) then
    let st := if negb (o_set opts) && String.eqb x "set"%string then errorf st RSetUnsupported n else st in
    set_scope st (globals st) (fileb st) (x :: premem st)
  else errorf st RUndefined n.

Definition use_ (st : rs) (n : N) (x : string) : rs :=
  if o_global_reassign opts && match env st with None => true | Some _ => false end
  then useToplevel st n x
  else add_use st (container st) {| u_name := x; u_node := n; u_env := env st |}.

(* bindLocal: returns whether the name was already bound in the current block *)
Definition bindLocal (st : rs) (n : N) (x : string) : bool * rs :=
  match env st with
  | None =>
      let ok := mem x (fileb st) in
      (ok, if ok then st else set_scope st (globals st) (fileb st ++ [x]) (premem st))
  | Some b =>
      match nth_error (blocks st) b with
      | None => (false, st)
      | Some k =>
          let ok := mem x (k_names k) || mem x (k_memo k) in
          (ok, if ok then st
               else set_blocks st (upd_blk b (fun k => {| k_parent := k_parent k; k_isfn := k_isfn k;
                                                          k_names := k_names k ++ [x]; k_memo := k_memo k |})
                                           (blocks st)))
      end
  end.
(* (the r.use(id) at the end of bindLocal resolves to the binding just made: no check depends on it) *)

Definition bind (st : rs) (n : N) (x : string) : bool * rs :=
  match env st with
  | None =>
      let ok := mem x (fileb st) || mem x (globals st) in
      let st := if ok then st else set_scope st (globals st ++ [x]) (fileb st) (premem st) in
      (ok, if ok && negb (o_global_reassign opts) then errorf st RReassign n else st)
  | Some _ => bindLocal st n x
  end.

Definition starts_with_underscore (s : string) : bool :=
  match s with String c _ => Ascii.eqb c "_"%char | EmptyString => false end.

(* state of the loop over call arguments *)
Record astate := { a_seenVar : bool; a_seenKw : bool; a_names : list string; a_n : nat; a_p : nat }.
(* state of the loop over parameters *)
Record pstate := {
  p_seenOpt : bool;
  p_star : option (N * option (N * string));
  p_starstar : option (N * string);
  p_nkw : nat
}.

Fixpoint expr_ (st : rs) (e : expr) {struct e} : rs :=
  match e with
  | EId n x => use_ st n x
  | ELit => st
  | EOp es => exprs_ st es
  | ECall n f a =>
      let st := expr_ st f in
      let r := args_ st {| a_seenVar := false; a_seenKw := false; a_names := []; a_n := 0; a_p := 0 |} a in
      let st := fst r in
      let st := if 256 <=? a_p (snd r) then errorf st RArgTooManyPos n else st in
      if 256 <=? a_n (snd r) then errorf st RArgTooManyNamed n else st
  | ELambda n ps body =>
      let st := defaults_ st ps in
      let st := set_fdepth (push st true) (S (fdepth st)) in
      let outer := loops st in
      let st := set_loops st 0 in
      let st := params_ st {| p_seenOpt := false; p_star := None; p_starstar := None; p_nkw := 0 |} ps in
      let st := expr_ st body in
      set_loops (set_fdepth (pop st) (pred (fdepth st))) outer
  | EComp n iter vars cl body =>
      let st := expr_ st iter in
      let st := push st false in
      let st := assign_ st false vars in
      let st := clauses_ st cl in
      let st := expr_ st body in
      pop st
  end
with exprs_ (st : rs) (es : exprs) {struct es} : rs :=
  match es with
  | ENil => st
  | ECons e r => exprs_ (expr_ st e) r
  end
with args_ (st : rs) (a : astate) (l : args) {struct l} : rs * astate :=
  match l with
  | ANil => (st, a)
  | AStarStar n e r =>
      let st := if a_seenKw a then errorf st RArgMultipleKwargs n else st in
      let a := {| a_seenVar := a_seenVar a; a_seenKw := true; a_names := a_names a; a_n := a_n a; a_p := a_p a |} in
      args_ (expr_ st e) a r
  | AStar n e r =>
      let st := if a_seenKw a then errorf st RArgStarAfterKwargs n
                else if a_seenVar a then errorf st RArgMultipleStar n else st in
      let a := {| a_seenVar := true; a_seenKw := a_seenKw a; a_names := a_names a; a_n := a_n a; a_p := a_p a |} in
      args_ (expr_ st e) a r
  | ANamed n x e r =>
      let st := if a_seenKw a then errorf st RArgNamedAfterKwargs n
                else if a_seenVar a then errorf st RArgNamedAfterStar n else st in
      let dup := mem x (a_names a) in
      let st := if dup then errorf st RArgRepeatedName n else st in
      let a := {| a_seenVar := a_seenVar a; a_seenKw := a_seenKw a;
                  a_names := if dup then a_names a else x :: a_names a; a_n := S (a_n a); a_p := a_p a |} in
      args_ (expr_ st e) a r
  | APos n e r =>
      let st := if a_seenVar a then errorf st RArgPosAfterStar n
                else if a_seenKw a then errorf st RArgPosAfterKwargs n
                else match a_names a with _ :: _ => errorf st RArgPosAfterNamed n | [] => st end in
      let a := {| a_seenVar := a_seenVar a; a_seenKw := a_seenKw a; a_names := a_names a; a_n := a_n a; a_p := S (a_p a) |} in
      args_ (expr_ st e) a r
  end
(* "Resolve defaults in enclosing environment." *)
with defaults_ (st : rs) (ps : params) {struct ps} : rs :=
  match ps with
  | PNil => st
  | PId _ _ r => defaults_ st r
  | PDef _ _ d r => defaults_ (expr_ st d) r
  | PStar _ _ r => defaults_ st r
  | PStarStar _ _ _ r => defaults_ st r
  end
with params_ (st : rs) (p : pstate) (ps : params) {struct ps} : rs :=
  match ps with
  | PNil =>
      (* "Bind the *args and **kwargs parameters at the end" *)
      let st := match p_star p with
                | Some (n, Some (an, ax)) =>
                    let r := bind st an ax in if fst r then errorf (snd r) RParDuplicate an else snd r
                | Some (n, None) => if p_nkw p =? 0 then errorf st RParBareStar n else st
                | None => st
                end in
      match p_starstar p with
      | Some (nn, x) => let r := bind st nn x in if fst r then errorf (snd r) RParDuplicate nn else snd r
      | None => st
      end
  | PId n x r =>
      let st := match p_starstar p, p_star p with
                | Some _, _ => errorf st RParReqAfterKwargs n
                | None, Some _ => st
                | None, None => if p_seenOpt p then errorf st RParReqAfterOptional n else st
                end in
      let nkw := match p_starstar p, p_star p with None, Some _ => S (p_nkw p) | _, _ => p_nkw p end in
      let b := bind st n x in
      let st := if fst b then errorf (snd b) RParDuplicate n else snd b in
      params_ st {| p_seenOpt := p_seenOpt p; p_star := p_star p; p_starstar := p_starstar p; p_nkw := nkw |} r
  | PDef n x d r =>
      let st := match p_starstar p with Some _ => errorf st RParOptAfterKwargs n | None => st end in
      let nkw := match p_starstar p, p_star p with None, Some _ => S (p_nkw p) | _, _ => p_nkw p end in
      let b := bind st n x in
      let st := if fst b then errorf (snd b) RParDuplicate n else snd b in
      params_ st {| p_seenOpt := true; p_star := p_star p; p_starstar := p_starstar p; p_nkw := nkw |} r
  | PStar n name r =>
      match p_starstar p, p_star p with
      | Some _, _ => params_ (errorf st RParStarAfterKwargs n) p r
      | None, Some _ => params_ (errorf st RParMultipleStar n) p r
      | None, None =>
          params_ st {| p_seenOpt := p_seenOpt p; p_star := Some (n, name); p_starstar := None; p_nkw := p_nkw p |} r
      end
  | PStarStar n nn x r =>
      let st := match p_starstar p with Some _ => errorf st RParMultipleKwargs n | None => st end in
      params_ st {| p_seenOpt := p_seenOpt p; p_star := p_star p; p_starstar := Some (nn, x); p_nkw := p_nkw p |} r
  end
with clauses_ (st : rs) (cl : clauses) {struct cl} : rs :=
  match cl with
  | CNil => st
  | CFor vars iter r => clauses_ (expr_ (assign_ st false vars) iter) r
  | CIf c r => clauses_ (expr_ st c) r
  end
with assign_ (st : rs) (aug : bool) (l : lhs) {struct l} : rs :=
  match l with
  | LId n x => snd (bind st n x)
  | LSeq n ls => assigns_ (if aug then errorf st RAugSeq n else st) aug ls
  | LExpr es => exprs_ st es
  | LBad n => errorf st RBadAssign n
  end
with assigns_ (st : rs) (aug : bool) (ls : lhss) {struct ls} : rs :=
  match ls with
  | LNil => st
  | LCons l r => assigns_ (assign_ st aug l) aug r
  end.

Fixpoint load_items (st : rs) (items : list (N * string * N * string)) : rs :=
  match items with
  | [] => st
  | (fn, from, tn, to) :: r =>
      let st := if starts_with_underscore from then errorf st RLoadUnderscore fn else st in
      let st := if o_load_binds_globally opts then snd (bind st tn to)
                else let b := bindLocal st tn to in
                     if fst b && negb (o_global_reassign opts) then errorf (snd b) RLoadReassign tn else snd b in
      load_items st r
  end.

Fixpoint stmt_ (st : rs) (s : stmt) {struct s} : rs :=
  match s with
  | SExpr e => expr_ st e
  | SBranch n => if loops st =? 0 then errorf st RBranchNotInLoop n else st
  | SIf n c t f =>
      let st := if negb (o_toplevel_control opts) && negb (in_function st) then errorf st RIfToplevel n else st in
      let st := expr_ st c in
      let st := set_ifstmts st (S (ifstmts st)) in
      let st := stmts_ st t in
      let st := stmts_ st f in
      set_ifstmts st (pred (ifstmts st))
  | SAssign aug l e => assign_ (expr_ st e) aug l
  | SDef n nn x ps body =>
      let st := snd (bind st nn x) in
      let st := defaults_ st ps in
      let st := set_fdepth (push st true) (S (fdepth st)) in
      let outer := loops st in
      let st := set_loops st 0 in
      let st := params_ st {| p_seenOpt := false; p_star := None; p_starstar := None; p_nkw := 0 |} ps in
      let st := stmts_ st body in
      set_loops (set_fdepth (pop st) (pred (fdepth st))) outer
  | SFor n vars iter body =>
      let st := if negb (o_toplevel_control opts) && negb (in_function st) then errorf st RForToplevel n else st in
      let st := expr_ st iter in
      let st := assign_ st false vars in
      let st := set_loops st (S (loops st)) in
      let st := stmts_ st body in
      set_loops st (pred (loops st))
  | SWhile n c body =>
      let st := if negb (o_while opts) then errorf st RWhileUnsupported n else st in
      let st := if negb (o_toplevel_control opts) && negb (in_function st) then errorf st RWhileToplevel n else st in
      let st := expr_ st c in
      let st := set_loops st (S (loops st)) in
      let st := stmts_ st body in
      set_loops st (pred (loops st))
  | SReturn n e =>
      let st := if negb (in_function st) then errorf st RReturnToplevel n else st in
      match e with Some e => expr_ st e | None => st end
  | SLoad n items =>
      let st := if in_function st then errorf st RLoadInFunction n
                else if 0 <? loops st then errorf st RLoadInLoop n
                else if 0 <? ifstmts st then errorf st RLoadInConditional n else st in
      load_items st items
  end
with stmts_ (st : rs) (ss : stmts) {struct ss} : rs :=
  match ss with
  | SNil => st
  | SCons s r => stmts_ (stmt_ st s) r
  end.

(* ---- end of module: resolveNonLocalUses / lookupLexical ---- *)
Fixpoint lookupLexical (fuel : nat) (st : rs) (n : N) (x : string) (e : option nat) : rs :=
  match e with
  | None => useToplevel st n x
  | Some b =>
      match nth_error (blocks st) b with
      | None => st
      | Some k =>
          if mem x (k_names k) || mem x (k_memo k) then st
          else match fuel with
               | 0 => st
               | S f =>
                   let st := lookupLexical f st n x (k_parent k) in
                   (* Memoize, to avoid duplicate free vars and redundant global (failing) lookups *)
                   set_blocks st (upd_blk b (fun k => {| k_parent := k_parent k; k_isfn := k_isfn k;
                                                         k_names := k_names k; k_memo := x :: k_memo k |})
                                          (blocks st))
               end
      end
  end.

Definition resolve_uses_of (st : rs) (c : option nat) : rs :=
  fold_left (fun st cu => if match fst cu, c with
                             | None, None => true
                             | Some a, Some b => a =? b
                             | _, _ => false
                             end
                          then lookupLexical (length (blocks st)) st (u_node (snd cu)) (u_name (snd cu)) (u_env (snd cu))
                          else st)
            (buses st) st.

Definition children_of (st : rs) (p : option nat) : list nat :=
  filter (fun i => match nth_error (blocks st) i with
                   | Some k => match k_parent k, p with
                               | None, None => true
                               | Some a, Some b => a =? b
                               | _, _ => false
                               end
                   | None => false
                   end)
         (seq 0 (length (blocks st))).

(* for _, child := range b.children { r.resolveNonLocalUses(child) }; for _, use := range b.uses {...} *)
Fixpoint resolveNonLocalUses (fuel : nat) (st : rs) (b : option nat) : rs :=
  match fuel with
  | 0 => st
  | S f =>
      let st := fold_left (fun st c => resolveNonLocalUses f st (Some c)) (children_of st b) st in
      resolve_uses_of st b
  end.

Definition init : rs :=
  {| loops := 0; ifstmts := 0; fdepth := 0; errs := []; blocks := []; env := None; globals := []; fileb := [];
     premem := []; buses := [] |}.

Definition resolve (p : program) : list (rule * N) :=
  let st := stmts_ init p in
  errs (resolveNonLocalUses (S (length (blocks st))) st None).

End Resolver.
