(* C09 -- property theorems only.  Each is closed by `exact <lemma>`; axioms are
   printed by the audit step of bin/check (Print Assumptions per theorem). *)
From Coq Require Import String Ascii List Bool Arith NArith.
From SV Require Import C09.Syntax C09.Model C09.Spec C09.ProofsTop C09.ProofsOptions C09.ProofsAllowed C09.ProofsDup C09.ProofsIds C09.Unfold C09.Recursion C09.RecursionProofs.
From SV Require Import C09.ScopeSpec C09.ProofsScope C09.ProofsScopeBridge C09.ProofsScopeAll.
Import ListNotations.
Open Scope string_scope.

(* FULL STATEMENT (resolver_sound_complete): for ALL programs and ALL 2^6 option
   vectors, (rule, node) is reported  <->  the rule is broken at that node, and
   errors = []  <->  no rule is broken.
   PROVED: errors = [] <-> no rule is broken, for all 35 rules
   (resolver_accepts_iff_no_rule_broken); and the per-node equivalence
   - exactly, for the 30 rules whose statement needs no name resolution beyond the
     parameter list itself (this theorem): the 6 context rules (break/continue,
     return, if/for/while at top level, while), the 3 load-placement rules and the
     underscore rule, the 2 assignment-target rules, the 11 argument-list rules
     (order, duplicates, the 255 limits), the 8 parameter-list rules (order of
     star, double-star and default parameters, bare star, duplicate parameters);
   - exactly, for RReassign (reassign_sound_complete);
   - for RUndefined and RSetUnsupported: every report is at a broken node and a
     broken node leads to a report of the same rule (for RUndefined: of the same
     name; exactly at the node when it is outside every block) -- the resolver
     reports repeats of a failed lookup once (lookupLexical's memo, the
     predeclared-name cache), so the per-node equivalence is false for the code as
     it is (undefined_sound_complete, set_sound_complete, ex_memoised_once);
   - for RLoadReassign: exactly, unless the program has a load statement inside
     a function (load_reassign_sound_complete_partial).
   All of these together, rule by rule: resolver_sound_complete_all_rules_partial.
   MISSING for the full per-node statement: nothing can be added for RUndefined /
   RSetUnsupported (the code reports once); RLoadReassign at the items of a load
   statement nested in a function (the specification does not say whether such
   a binding is a rebinding; the program is rejected anyway). *)
Theorem resolver_sound_complete_partial :
  forall (o : options) (W : world) (p : program) (r : rule) (n : N),
    scoping_rule r = false ->
    (In (r, n) (resolve o W p) <-> violates o p r n).
Proof. exact sound_complete_lemma. Qed.

Theorem accepted_implies_no_violation_partial :
  forall (o : options) (W : world) (p : program), resolve o W p = [] -> viol o p = [].
Proof. exact accepted_no_violation_lemma. Qed.

(* Each optional construct is rejected exactly when its own flag is off, at every
   syntactic position and whatever the other five flags are (no leakage, e.g.
   `while` is not enabled by TopLevelControl): while statements <-> While;
   if/for/while outside any function <-> TopLevelControl.  And no other option
   (Set, GlobalReassign, LoadBindsGlobally, Recursion) influences any rule that
   needs no name resolution.  (Set, GlobalReassign, LoadBindsGlobally gate
   scoping rules: see the comment above; Recursion: no_reentry below.) *)
Theorem option_exact_partial :
  forall (o : options) (W : world) (p : program) (n : N),
    (In (RWhileUnsupported, n) (resolve o W p) <-> o_while o = false /\ In n (whiles_in p)) /\
    (forall r, r = RIfToplevel \/ r = RForToplevel \/ r = RWhileToplevel ->
       (In (r, n) (resolve o W p) <-> o_toplevel_control o = false /\ In (r, n) (controls_in p))).
Proof. exact option_exact_lemma. Qed.

(* For ALL six options, including those that gate scoping rules: an option that
   is ON never causes a rejection -- no error of a rule its flag switches off is
   ever reported (Set: RSetUnsupported; While: RWhileUnsupported;
   TopLevelControl: RIfToplevel/RForToplevel/RWhileToplevel; GlobalReassign:
   RReassign/RLoadReassign), at any position, for all programs. *)
Theorem option_on_never_rejects :
  forall (o : options) (W : world) (p : program) (r : rule) (n : N),
    In (r, n) (resolve o W p) -> allowed o r = true.
Proof. exact flags_on_lemma. Qed.

Theorem other_options_do_not_leak :
  forall (o1 o2 : options) (p : program),
    o_while o1 = o_while o2 -> o_toplevel_control o1 = o_toplevel_control o2 ->
    viol o1 p = viol o2 p.
Proof. exact options_independent_lemma. Qed.

(* Duplicate parameters.  A def or a lambda processes its parameter list in its
   freshly pushed function block (Unfold.u_SDef, u_ELambda: `params_ (enter_fn st) p0 ps`);
   from ANY state, for ALL parameter lists, the duplicate-parameter reports made
   there are exactly -- same positions, same order -- those the specification
   names: an ordinary parameter whose name occurs among the preceding ordinary
   ones, then *args if its name is an ordinary parameter's, then **kwargs if its
   name is any of those.  (The same fact is part of resolver_sound_complete_partial,
   where RParDuplicate is one of the proved rules; this is its local form.) *)
Theorem parameter_duplicates_exact_partial :
  forall (o : options) (W : world) (st : rs) (ps : params),
    exists E, errs (params_ o W (enter_fn st) p0 ps) = (errs (enter_fn st) ++ E)%list /\ od E = dup_params ps.
Proof. exact param_duplicates_lemma. Qed.

(* Positions of the name-resolution errors (the sound half of the scoping rules):
   for ALL programs and option vectors every "undefined" report is positioned at
   an occurrence of an identifier that is neither predeclared nor universal, and
   every "sets not supported" report at an occurrence of the identifier `set`,
   only when Set is off.  (The full statements against the scoping specification:
   undefined_sound_complete, set_sound_complete below.) *)
Theorem scoping_errors_at_identifiers_partial :
  forall (o : options) (W : world) (p : program) (n : N),
    (In (RUndefined, n) (resolve o W p) ->
       exists x, In (n, x) (ids_stmts p) /\ mem x (w_predeclared W) = false /\ mem x (w_universal W) = false) /\
    (In (RSetUnsupported, n) (resolve o W p) -> In (n, "set") (ids_stmts p) /\ o_set o = false).
Proof. exact scoping_positions_lemma. Qed.

(* ---- The scoping rule "undefined name" (RUndefined), for ALL programs of
   Syntax.v and ALL option vectors.  ScopeSpec.uses_prog lists every identifier
   USE with the binding sets of the function / comprehension blocks that enclose
   it (a block binds a name if it binds it anywhere in its body) and, for a use
   at file level under GlobalReassign, the file-level names bound so far;
   ScopeSpec.undefined_uses keeps the uses that are bound nowhere visible: by no
   enclosing block, by no file-level binding of the module (anywhere in the
   file; so far, under GlobalReassign), not predeclared, not universal.  The
   resolver model (use / useToplevel over the block table during the walk,
   lookupLexical with its memoisation in the end-of-module pass) agrees with it:
   (1) sound: every "undefined" report is at an undefined use;
   (2) complete up to the memoisation: for every undefined use there is a report
       at an undefined use of the SAME NAME (lookupLexical memoises the failed
       lookup in the blocks it walked through, so later uses of that name inside
       the same tree of blocks are not reported again: ex_memoised_once);
   (3) exact outside blocks: an undefined use that is in no function or
       comprehension block is reported at its own position, every time.
   The naive statement "reported at n <-> undefined at n" is false for the code
   as it is (and for the real resolver: `def f(): return x + x` reports x once);
   it is not what the property asks: a program with an undefined name is
   rejected (undefined_rejects_iff).
   Spec.scope_viol (the executable oracle of the check) lists the same uses on
   regular programs; the two corners where it differs from the resolver are
   stated in ex_oracle_corners. *)
Theorem undefined_sound_complete :
  forall (o : options) (W : world) (p : program),
    (forall n, In (RUndefined, n) (resolve o W p) -> exists u, In u (undefined_uses o W p) /\ s_n u = n) /\
    (forall u, In u (undefined_uses o W p) ->
       exists u', In u' (undefined_uses o W p) /\ s_x u' = s_x u /\ In (RUndefined, s_n u') (resolve o W p)) /\
    (forall u, In u (undefined_uses o W p) -> s_rel u = [] \/ s_fl u <> None ->
       In (RUndefined, s_n u) (resolve o W p)).
Proof. exact undefined_lemma. Qed.

(* a program is rejected for an undefined name exactly when it has an undefined use *)
Theorem undefined_rejects_iff :
  forall (o : options) (W : world) (p : program),
    (exists n, In (RUndefined, n) (resolve o W p)) <-> undefined_uses o W p <> [].
Proof. exact undefined_rejects_lemma. Qed.

Theorem accepted_implies_no_undefined :
  forall (o : options) (W : world) (p : program), resolve o W p = [] -> undefined_uses o W p = [].
Proof. exact accepted_no_undefined_lemma. Qed.

(* The executable oracle of the check, Spec.scope_viol, names exactly these uses on
   every REGULAR program (ScopeSpec.regular: no parameter list with a superfluous
   * or **, and -- under GlobalReassign -- no file-level tuple target with a use
   inside; both corners are in ex_oracle_corners) ... *)
Theorem scope_oracle_agrees_on_regular :
  forall (o : options) (W : world) (p : program), regular o p = true ->
    forall n, In (RUndefined, n) (scope_viol o W p) <-> exists u, In u (undefined_uses o W p) /\ s_n u = n.
Proof. exact scope_viol_bridge. Qed.

(* ... so that what the check evaluates on every run (Spec.spec_agrees: every
   "undefined" report is in scope_viol, and there is a report iff scope_viol has
   one) is a theorem about the model on regular programs. *)
Theorem undefined_vs_oracle :
  forall (o : options) (W : world) (p : program), regular o p = true ->
    (forall n, In (RUndefined, n) (resolve o W p) -> In (RUndefined, n) (scope_viol o W p)) /\
    ((exists n, In (RUndefined, n) (scope_viol o W p)) -> exists n, In (RUndefined, n) (resolve o W p)).
Proof. exact undefined_vs_oracle_lemma. Qed.

(* ---- The rebinding rules, against the oracle Spec.scope_viol itself (its file-level part,
   t_bind / t_load threaded through the module in execution order), for ALL programs and options.
   RReassign: a second binding of a file-level name (assignment, def, for target; load under
   LoadBindsGlobally) with GlobalReassign off is reported exactly where the specification says. *)
Theorem reassign_sound_complete :
  forall (o : options) (W : world) (p : program) (n : N),
    In (RReassign, n) (resolve o W p) <-> In (RReassign, n) (scope_viol o W p).
Proof. exact reassign_lemma. Qed.

(* RLoadReassign: every rebinding by a load the specification names is reported, and every report
   is one of those or sits at an item of a load statement INSIDE A FUNCTION (which is an error by
   itself, RLoadInFunction; the resolver binds such names in the function block and may report a
   rebinding there, about which the specification is silent: ex_rebinding).  FULL STATEMENT
   (load_reassign_sound_complete): the equivalence for all programs; proved here for the programs
   without a load statement inside a function, and as a two-sided bound for the others. *)
Theorem load_reassign_sound_complete_partial :
  forall (o : options) (W : world) (p : program) (n : N),
    (In (RLoadReassign, n) (scope_viol o W p) -> In (RLoadReassign, n) (resolve o W p)) /\
    (In (RLoadReassign, n) (resolve o W p) ->
       In (RLoadReassign, n) (scope_viol o W p) \/ In n (top_fn_loads_stmts p)) /\
    (top_fn_loads_stmts p = [] ->
       (In (RLoadReassign, n) (resolve o W p) <-> In (RLoadReassign, n) (scope_viol o W p))).
Proof. exact load_reassign_partial_lemma. Qed.

(* ---- `set` without the Set option (RSetUnsupported), for ALL programs and options:
   every report is at a use of the name `set` that resolves to the universal name
   (ScopeSpec.set_uses: bound by no enclosing block, no visible file-level binding, not
   predeclared) with the option off, and if there is such a use there is a report (useToplevel
   caches the names it found among the predeclared / universal ones, lookupLexical memoises:
   later uses are silent). *)
Theorem set_sound_complete :
  forall (o : options) (W : world) (p : program),
    (forall n, In (RSetUnsupported, n) (resolve o W p) -> exists u, In u (set_uses o W p) /\ s_n u = n) /\
    (set_uses o W p <> [] -> exists n, In (RSetUnsupported, n) (resolve o W p)).
Proof. exact set_main. Qed.

Theorem set_vs_oracle :
  forall (o : options) (W : world) (p : program), regular o p = true ->
    (forall n, In (RSetUnsupported, n) (scope_viol o W p) <-> exists u, In u (set_uses o W p) /\ s_n u = n) /\
    (forall n, In (RSetUnsupported, n) (resolve o W p) -> In (RSetUnsupported, n) (scope_viol o W p)) /\
    ((exists n, In (RSetUnsupported, n) (scope_viol o W p)) -> exists n, In (RSetUnsupported, n) (resolve o W p)).
Proof. exact set_oracle_lemma. Qed.

(* ---- all 35 rules: the resolver accepts a program exactly when no static rule is broken
   (ScopeSpec.no_rule_broken: no violation of the 30 rules of Spec.viol, no undefined use, no use
   of `set` without the option, no rebinding at file level), for ALL programs and ALL option
   vectors ... *)
Theorem resolver_accepts_iff_no_rule_broken :
  forall (o : options) (W : world) (p : program), resolve o W p = [] <-> no_rule_broken o W p.
Proof. exact accepted_iff_lemma. Qed.

(* ... and rule by rule (ScopeSpec.broken): every report is at a node where its rule is broken
   (except a load rebinding reported at an item of a load statement nested in a function), and
   every broken node is reported (for undefined names and `set`: a node of the same rule is). *)
Theorem resolver_sound_complete_all_rules_partial :
  forall (o : options) (W : world) (p : program) (r : rule) (n : N),
    (In (r, n) (resolve o W p) -> broken o W p r n \/ (r = RLoadReassign /\ In n (top_fn_loads_stmts p))) /\
    (broken o W p r n ->
       In (r, n) (resolve o W p) \/
       ((r = RUndefined \/ r = RSetUnsupported) /\ exists n', In (r, n') (resolve o W p))).
Proof. exact all_rules_lemma. Qed.

(* A program the resolver rejects performs no effect: the pipeline
   (ExecFileOptions: parse, resolve, and only then compile and run) returns the
   errors and runs nothing; in particular any violation of a proved rule, at any
   depth, under any option vector, prevents every effect. *)
Theorem reject_before_run :
  forall (effect : Type) (exec : program -> list effect) (o : options) (W : world) (p : program),
    resolve o W p <> [] -> pipeline exec o W p = (resolve o W p, []).
Proof. exact reject_before_run_lemma. Qed.

Theorem violation_prevents_effects :
  forall (effect : Type) (exec : program -> list effect) (o : options) (W : world) (p : program) r n,
    scoping_rule r = false -> violates o p r n -> snd (pipeline exec o W p) = [].
Proof. exact violation_no_effect_lemma. Qed.

(* With recursion off, for ALL call sequences (direct, mutual, through built-in
   frames such as sorted/min/max callbacks, through different closures of one
   definition: the check compares code identities) the active function frames
   have pairwise distinct code identities, a call that would break this fails
   and leaves no frame, and every other call enters; with recursion on the call
   enters. *)
Theorem no_reentry :
  forall (rec_on : nat -> bool) (max_depth : nat),
    (forall evs, distinct_active rec_on (fst (run rec_on max_depth [] evs))) /\
    (forall st fv code, rec_on code = false ->
       (active code st -> step rec_on max_depth st (CallFn fv code) = (st, FailedRecursion)) /\
       (~ active code st -> step rec_on max_depth st (CallFn fv code) = (Fn fv code :: st, Entered))) /\
    (forall st fv code, rec_on code = true -> length st < max_depth ->
       step rec_on max_depth st (CallFn fv code) = (Fn fv code :: st, Entered)).
Proof. exact no_reentry_lemma. Qed.

(* ---- the hypotheses are satisfiable on non-trivial inputs ---- *)
Definition ex_W : world := {| w_predeclared := ["log"]; w_universal := ["len"; "set"] |}.
Definition all_off : options :=
  {| o_set := false; o_while := false; o_toplevel_control := false; o_global_reassign := false;
     o_load_binds_globally := false; o_recursion := false |}.
(*  def f(a):
      for x in a:
        def g(): break          <- the loop does not extend into g
      while a: pass
    if f: pass                                                                   *)
Definition ex_prog : program :=
  SCons (SDef 1001 1005 "f" (PId 1007 "a" PNil)
          (SCons (SFor 2003 (LId 2007 "x") (EId 2012 "a")
                   (SCons (SDef 3005 3009 "g" PNil (SCons (SBranch 3014) SNil)) SNil))
          (SCons (SWhile 4003 (EId 4009 "a") (SCons (SExpr ELit) SNil)) SNil)))
  (SCons (SIf 5001 (EId 5004 "f") (SCons (SExpr ELit) SNil) SNil) SNil).

Example ex_dups :
  dup_params (PId 1 "a" (PDef 2 "a" ELit (PStar 3 (Some (4%N, "b")) (PId 5 "b" (PStarStar 6 7 "a" PNil)))))
  = [(RParDuplicate, 2%N); (RParDuplicate, 4%N); (RParDuplicate, 7%N)].
Proof. vm_compute. reflexivity. Qed.

Example ex_undefined :
  resolve all_off ex_W (SCons (SExpr (ECall 1001 (EId 1001 "log") (APos 1005 (EOp (ECons (EId 1005 "nosuch") (ECons (EId 1014 "set") ENil))) ANil))) SNil)
  = [(RUndefined, 1005%N); (RSetUnsupported, 1014%N)].
Proof. vm_compute. reflexivity. Qed.

Example ex_resolve :
  resolve all_off ex_W ex_prog = [(RBranchNotInLoop, 3014%N); (RWhileUnsupported, 4003%N); (RIfToplevel, 5001%N)]
  /\ viol all_off ex_prog = resolve all_off ex_W ex_prog
  /\ scoping_rule RBranchNotInLoop = false
  /\ resolve all_off ex_W ex_prog <> [].
Proof. repeat split; try (vm_compute; reflexivity). vm_compute. discriminate. Qed.

(* ---- scoping examples ----
    def f(p):                    1
      log(a, p, q)               2   a: local, used before its binding; q: undefined
      a = g1                     3   g1: global bound later in the file (f is defined before the binding)
      return lambda: a + q       4   a: free; q: undefined again, inside the same tree of blocks
    [y + z for y in len]         5   y: comprehension variable; z: undefined;
                                     len: the global bound at line 6 (a predeclared/universal name shadowed later)
    len = 1                      6
    g1 = len                     7
    w                            8   undefined at file level
    w                            9   undefined at file level again: reported again *)
Definition ex_scope : program :=
  SCons (SDef 1001 1005 "f" (PId 1007 "p" PNil)
    (SCons (SExpr (ECall 2004 (EId 2001 "log") (APos 2005 (EId 2005 "a") (APos 2008 (EId 2008 "p") (APos 2011 (EId 2011 "q") ANil)))))
    (SCons (SAssign false (LId 3001 "a") (EId 3005 "g1"))
    (SCons (SReturn 4001 (Some (ELambda 4008 PNil (EOp (ECons (EId 4016 "a") (ECons (EId 4020 "q") ENil)))))) SNil))))
  (SCons (SExpr (EComp 5001 (EId 5016 "len") (LId 5012 "y") CNil (EOp (ECons (EId 5002 "y") (ECons (EId 5006 "z") ENil)))))
  (SCons (SAssign false (LId 6001 "len") ELit)
  (SCons (SAssign false (LId 7001 "g1") (EId 7006 "len"))
  (SCons (SExpr (EId 8001 "w"))
  (SCons (SExpr (EId 9001 "w")) SNil))))).
Definition gr_on : options :=
  {| o_set := false; o_while := false; o_toplevel_control := false; o_global_reassign := true;
     o_load_binds_globally := false; o_recursion := false |}.

Example ex_scope_regular : regular all_off ex_scope = true /\ regular gr_on ex_scope = true.
Proof. split; vm_compute; reflexivity. Qed.

Example ex_scope_undefined :
  map (fun u => (s_n u, s_x u, s_rel u)) (undefined_uses all_off ex_W ex_scope)
  = [(2011%N, "q", [["p"; "a"]]); (4020%N, "q", [[]; ["p"; "a"]]); (5006%N, "z", [["y"]]); (8001%N, "w", []); (9001%N, "w", [])]
  /\ resolve all_off ex_W ex_scope = [(RUndefined, 4020%N); (RUndefined, 5006%N); (RUndefined, 8001%N); (RUndefined, 9001%N)]
  /\ scope_viol all_off ex_W ex_scope
     = [(RUndefined, 2011%N); (RUndefined, 4020%N); (RUndefined, 5006%N); (RUndefined, 8001%N); (RUndefined, 9001%N)].
Proof. repeat split; vm_compute; reflexivity. Qed.

(* under GlobalReassign the file-level uses are resolved at once against what is bound so far
   (line 5: len is still the universal name; lines 8, 9 see f, len, g1) *)
Example ex_scope_global_reassign :
  resolve gr_on ex_W ex_scope = [(RUndefined, 8001%N); (RUndefined, 9001%N); (RUndefined, 4020%N); (RUndefined, 5006%N)]
  /\ map (fun u => (s_n u, s_fl u)) (filter (fun u => match s_fl u with Some _ => true | None => false end) (uses_prog gr_on ex_scope))
     = [(5016%N, Some ["f"]); (7006%N, Some ["f"; "len"]); (8001%N, Some ["f"; "len"; "g1"]); (9001%N, Some ["f"; "len"; "g1"])].
Proof. split; vm_compute; reflexivity. Qed.

(* def f(): return x + x  -- both uses are undefined, the resolver reports the first one only *)
Example ex_memoised_once :
  let p := SCons (SDef 1 2 "f" PNil (SCons (SReturn 7 (Some (EOp (ECons (EId 8 "x") (ECons (EId 9 "x") ENil))))) SNil)) SNil in
  resolve all_off ex_W p = [(RUndefined, 8%N)] /\ map s_n (undefined_uses all_off ex_W p) = [8%N; 9%N].
Proof. split; vm_compute; reflexivity. Qed.

(* The two corners where the oracle Spec.scope_viol differs from the resolver (model and real code agree;
   ScopeSpec follows them):
   - y = {}; x, y[x] = ..  at file level under GlobalReassign: the elements of a tuple target are bound
     left to right, the use of x follows its binding (the program runs); the oracle calls x undefined;
   - def f( *a, *b): return b : the second * is an error and binds nothing, b is reported undefined;
     the oracle takes b as a parameter. *)
Example ex_oracle_corners :
  let p1 := SCons (SAssign false (LId 1 "y") ELit)
            (SCons (SAssign false (LSeq 2 (LCons (LId 3 "x") (LCons (LExpr (ECons (EId 4 "y") (ECons (EId 5 "x") ENil))) LNil))) ELit) SNil) in
  let p2 := SCons (SDef 1 2 "f" (PStar 3 (Some (4%N, "a")) (PStar 5 (Some (6%N, "b")) PNil))
                    (SCons (SReturn 7 (Some (EId 8 "b"))) SNil)) SNil in
  (resolve gr_on ex_W p1 = [] /\ undefined_uses gr_on ex_W p1 = [] /\ scope_viol gr_on ex_W p1 = [(RUndefined, 5%N)]) /\
  (resolve all_off ex_W p2 = [(RParMultipleStar, 5%N); (RUndefined, 8%N)] /\
   map s_n (undefined_uses all_off ex_W p2) = [8%N] /\ scope_viol all_off ex_W p2 = []).
Proof. repeat split; vm_compute; reflexivity. Qed.

(*  load("m", "a"); load("m", "a"); a = 1; x = 1; x = 2
    def f(): load("m", "b"); load("m", "b")                                       *)
Definition ex_rebind : program :=
  SCons (SLoad 1 [(2, "a", 3, "a")%N]) (SCons (SLoad 4 [(5, "a", 6, "a")%N]) (SCons (SAssign false (LId 7 "a") ELit)
  (SCons (SAssign false (LId 8 "x") ELit) (SCons (SAssign false (LId 9 "x") ELit)
  (SCons (SDef 10 11 "f" PNil (SCons (SLoad 12 [(13, "b", 14, "b")%N]) (SCons (SLoad 15 [(16, "b", 17, "b")%N]) SNil))) SNil))))).
Example ex_rebinding :
  resolve all_off ex_W ex_rebind
  = [(RLoadReassign, 6%N); (RReassign, 7%N); (RReassign, 9%N); (RLoadInFunction, 12%N); (RLoadInFunction, 15%N); (RLoadReassign, 17%N)]
  /\ scope_viol all_off ex_W ex_rebind = [(RLoadReassign, 6%N); (RReassign, 7%N); (RReassign, 9%N)]
  /\ top_fn_loads_stmts ex_rebind = [14%N; 17%N]
  /\ resolve gr_on ex_W ex_rebind = [(RLoadInFunction, 12%N); (RLoadInFunction, 15%N)]
  /\ top_fn_loads_stmts ex_scope = [].
Proof. repeat split; vm_compute; reflexivity. Qed.

(*  set([1]); def f(): return set()      -- Set off: the first lookup is reported, the name is cached *)
Definition ex_setp : program :=
  SCons (SExpr (ECall 1004 (EId 1001 "set") (APos 1005 ELit ANil)))
  (SCons (SDef 2001 2005 "f" PNil (SCons (SReturn 3003 (Some (ECall 3013 (EId 3010 "set") ANil))) SNil)) SNil).
Definition set_on : options :=
  {| o_set := true; o_while := false; o_toplevel_control := false; o_global_reassign := false;
     o_load_binds_globally := false; o_recursion := false |}.
Example ex_set :
  resolve all_off ex_W ex_setp = [(RSetUnsupported, 3010%N)]
  /\ map s_n (set_uses all_off ex_W ex_setp) = [1001%N; 3010%N]
  /\ scope_viol all_off ex_W ex_setp = [(RSetUnsupported, 1001%N); (RSetUnsupported, 3010%N)]
  /\ resolve set_on ex_W ex_setp = [] /\ set_uses set_on ex_W ex_setp = []
  /\ regular all_off ex_setp = true.
Proof. repeat split; vm_compute; reflexivity. Qed.

(* an accepted program of some size: nothing is broken *)
Example ex_accepted :
  let p := SCons (SAssign false (LId 1 "g") ELit)
           (SCons (SDef 2 3 "f" (PId 4 "a" (PStar 5 (Some (6%N, "r")) PNil))
                     (SCons (SReturn 7 (Some (EComp 8 (EId 9 "r") (LId 10 "y") CNil (EOp (ECons (EId 11 "y") (ECons (EId 12 "g") (ECons (EId 13 "len") ENil))))))) SNil))
           SNil) in
  resolve all_off ex_W p = [] /\ viol all_off p = [] /\ undefined_uses all_off ex_W p = [] /\ scope_viol all_off ex_W p = [].
Proof. repeat split; vm_compute; reflexivity. Qed.

(* f (code 7) calls sorted (a built-in) which calls back a second closure of the same def *)
Example ex_recursion :
  run (fun _ => false) 1000 [] [CallFn 1 7; CallBuiltin 0; CallFn 2 7]
  = ([Builtin 0; Fn 1 7], [Entered; Entered; FailedRecursion])
  /\ active 7 [Builtin 0; Fn 1 7].
Proof. split; [vm_compute; reflexivity|]. exists 1. simpl. auto. Qed.
