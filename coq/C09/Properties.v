(* C09 -- property theorems only.  Each is closed by `exact <lemma>`; axioms are
   printed by the audit step of bin/check (Print Assumptions per theorem). *)
From Coq Require Import String Ascii List Bool Arith NArith.
From SV Require Import C09.Syntax C09.Model C09.Spec C09.ProofsTop C09.ProofsOptions C09.ProofsAllowed C09.ProofsDup C09.ProofsIds C09.Unfold C09.Recursion C09.RecursionProofs.
Import ListNotations.
Open Scope string_scope.

(* FULL STATEMENT (resolver_sound_complete): for ALL programs and ALL 2^6 option
   vectors, (rule, node) is reported  <->  violates opts p rule node, and
   errors = []  <->  no rule is broken.
   PROVED HERE for the 30 rules whose statement needs no name resolution beyond the
   parameter list itself: the 6 context rules (break/continue, return, if/for/while
   at top level, while), the 3 load-placement rules and the underscore rule, the 2
   assignment-target rules, the 11 argument-list rules (order, duplicates, the 255
   limits), the 8 parameter-list rules (order of star, double-star and default
   parameters, bare star, duplicate parameters).
   MISSING: the same equivalence for RUndefined, RSetUnsupported, RReassign and
   RLoadReassign.  These depend on the block table and on lookupLexical's
   memoisation (one report per name and top-level block); they are modelled
   executable in Model.v and tied to the code by the correspondence check (exact
   error lists) and the scoping oracle Spec.scope_viol on every run; what is
   proved about them: scoping_errors_at_identifiers_partial (sound positions) and
   option_on_never_rejects.  Consequently `errors = [] <-> no rule broken` is
   proved in the direction accepted -> no violation (of the proved rules). *)
Theorem resolver_sound_complete_partial :
  forall (o : options) (W : world) (p : program) (r : rule) (n : N),
    scoping_rule r = false ->
    (In (r, n) (resolve o W p) <-> violates o p r n).
Proof. exact sound_complete_lemma. Qed.

Theorem accepted_implies_no_violation_partial :
  forall (o : options) (W : world) (p : program), resolve o W p = [] -> viol o p = [].
Proof. exact accepted_no_violation_lemma. Qed.

(* Each optional construct is rejected exactly when its own flag is off, at every
   syntactic position and whatever the other five flags are (no leakage, e.g.
   `while` is not enabled by TopLevelControl): while statements <-> While;
   if/for/while outside any function <-> TopLevelControl.  And no other option
   (Set, GlobalReassign, LoadBindsGlobally, Recursion) influences any rule that
   needs no name resolution.  (Set, GlobalReassign, LoadBindsGlobally gate
   scoping rules: see the comment above; Recursion: no_reentry below.) *)
Theorem option_exact_partial :
  forall (o : options) (W : world) (p : program) (n : N),
    (In (RWhileUnsupported, n) (resolve o W p) <-> o_while o = false /\ In n (whiles_in p)) /\
    (forall r, r = RIfToplevel \/ r = RForToplevel \/ r = RWhileToplevel ->
       (In (r, n) (resolve o W p) <-> o_toplevel_control o = false /\ In (r, n) (controls_in p))).
Proof. exact option_exact_lemma. Qed.

(* For ALL six options, including those that gate scoping rules: an option that
   is ON never causes a rejection -- no error of a rule its flag switches off is
   ever reported (Set: RSetUnsupported; While: RWhileUnsupported;
   TopLevelControl: RIfToplevel/RForToplevel/RWhileToplevel; GlobalReassign:
   RReassign/RLoadReassign), at any position, for all programs. *)
Theorem option_on_never_rejects :
  forall (o : options) (W : world) (p : program) (r : rule) (n : N),
    In (r, n) (resolve o W p) -> allowed o r = true.
Proof. exact flags_on_lemma. Qed.

Theorem other_options_do_not_leak :
  forall (o1 o2 : options) (p : program),
    o_while o1 = o_while o2 -> o_toplevel_control o1 = o_toplevel_control o2 ->
    viol o1 p = viol o2 p.
Proof. exact options_independent_lemma. Qed.

(* Duplicate parameters.  A def or a lambda processes its parameter list in its
   freshly pushed function block (Unfold.u_SDef, u_ELambda: `params_ (enter_fn st) p0 ps`);
   from ANY state, for ALL parameter lists, the duplicate-parameter reports made
   there are exactly -- same positions, same order -- those the specification
   names: an ordinary parameter whose name occurs among the preceding ordinary
   ones, then *args if its name is an ordinary parameter's, then **kwargs if its
   name is any of those.  (The same fact is part of resolver_sound_complete_partial,
   where RParDuplicate is one of the proved rules; this is its local form.) *)
Theorem parameter_duplicates_exact_partial :
  forall (o : options) (W : world) (st : rs) (ps : params),
    exists E, errs (params_ o W (enter_fn st) p0 ps) = (errs (enter_fn st) ++ E)%list /\ od E = dup_params ps.
Proof. exact param_duplicates_lemma. Qed.

(* Positions of the name-resolution errors (the sound half of the scoping rules):
   for ALL programs and option vectors every "undefined" report is positioned at
   an occurrence of an identifier that is neither predeclared nor universal, and
   every "sets not supported" report at an occurrence of the identifier `set`,
   only when Set is off.  (Completeness -- every undefined use leads to a report
   -- is not proved; see resolver_sound_complete_partial.) *)
Theorem scoping_errors_at_identifiers_partial :
  forall (o : options) (W : world) (p : program) (n : N),
    (In (RUndefined, n) (resolve o W p) ->
       exists x, In (n, x) (ids_stmts p) /\ mem x (w_predeclared W) = false /\ mem x (w_universal W) = false) /\
    (In (RSetUnsupported, n) (resolve o W p) -> In (n, "set") (ids_stmts p) /\ o_set o = false).
Proof. exact scoping_positions_lemma. Qed.

(* A program the resolver rejects performs no effect: the pipeline
   (ExecFileOptions: parse, resolve, and only then compile and run) returns the
   errors and runs nothing; in particular any violation of a proved rule, at any
   depth, under any option vector, prevents every effect. *)
Theorem reject_before_run :
  forall (effect : Type) (exec : program -> list effect) (o : options) (W : world) (p : program),
    resolve o W p <> [] -> pipeline exec o W p = (resolve o W p, []).
Proof. exact reject_before_run_lemma. Qed.

Theorem violation_prevents_effects :
  forall (effect : Type) (exec : program -> list effect) (o : options) (W : world) (p : program) r n,
    scoping_rule r = false -> violates o p r n -> snd (pipeline exec o W p) = [].
Proof. exact violation_no_effect_lemma. Qed.

(* With recursion off, for ALL call sequences (direct, mutual, through built-in
   frames such as sorted/min/max callbacks, through different closures of one
   definition: the check compares code identities) the active function frames
   have pairwise distinct code identities, a call that would break this fails
   and leaves no frame, and every other call enters; with recursion on the call
   enters. *)
Theorem no_reentry :
  forall (rec_on : nat -> bool) (max_depth : nat),
    (forall evs, distinct_active rec_on (fst (run rec_on max_depth [] evs))) /\
    (forall st fv code, rec_on code = false ->
       (active code st -> step rec_on max_depth st (CallFn fv code) = (st, FailedRecursion)) /\
       (~ active code st -> step rec_on max_depth st (CallFn fv code) = (Fn fv code :: st, Entered))) /\
    (forall st fv code, rec_on code = true -> length st < max_depth ->
       step rec_on max_depth st (CallFn fv code) = (Fn fv code :: st, Entered)).
Proof. exact no_reentry_lemma. Qed.

(* ---- the hypotheses are satisfiable on non-trivial inputs ---- *)
Definition ex_W : world := {| w_predeclared := ["log"]; w_universal := ["len"; "set"] |}.
Definition all_off : options :=
  {| o_set := false; o_while := false; o_toplevel_control := false; o_global_reassign := false;
     o_load_binds_globally := false; o_recursion := false |}.
(*  def f(a):
      for x in a:
        def g(): break          <- the loop does not extend into g
      while a: pass
    if f: pass                                                                   *)
Definition ex_prog : program :=
  SCons (SDef 1001 1005 "f" (PId 1007 "a" PNil)
          (SCons (SFor 2003 (LId 2007 "x") (EId 2012 "a")
                   (SCons (SDef 3005 3009 "g" PNil (SCons (SBranch 3014) SNil)) SNil))
          (SCons (SWhile 4003 (EId 4009 "a") (SCons (SExpr ELit) SNil)) SNil)))
  (SCons (SIf 5001 (EId 5004 "f") (SCons (SExpr ELit) SNil) SNil) SNil).

Example ex_dups :
  dup_params (PId 1 "a" (PDef 2 "a" ELit (PStar 3 (Some (4%N, "b")) (PId 5 "b" (PStarStar 6 7 "a" PNil)))))
  = [(RParDuplicate, 2%N); (RParDuplicate, 4%N); (RParDuplicate, 7%N)].
Proof. vm_compute. reflexivity. Qed.

Example ex_undefined :
  resolve all_off ex_W (SCons (SExpr (ECall 1001 (EId 1001 "log") (APos 1005 (EOp (ECons (EId 1005 "nosuch") (ECons (EId 1014 "set") ENil))) ANil))) SNil)
  = [(RUndefined, 1005%N); (RSetUnsupported, 1014%N)].
Proof. vm_compute. reflexivity. Qed.

Example ex_resolve :
  resolve all_off ex_W ex_prog = [(RBranchNotInLoop, 3014%N); (RWhileUnsupported, 4003%N); (RIfToplevel, 5001%N)]
  /\ viol all_off ex_prog = resolve all_off ex_W ex_prog
  /\ scoping_rule RBranchNotInLoop = false
  /\ resolve all_off ex_W ex_prog <> [].
Proof. repeat split; try (vm_compute; reflexivity). vm_compute. discriminate. Qed.

(* f (code 7) calls sorted (a built-in) which calls back a second closure of the same def *)
Example ex_recursion :
  run (fun _ => false) 1000 [] [CallFn 1 7; CallBuiltin 0; CallFn 2 7]
  = ([Builtin 0; Fn 1 7], [Entered; Entered; FailedRecursion])
  /\ active 7 [Builtin 0; Fn 1 7].
Proof. split; [vm_compute; reflexivity|]. exists 1. simpl. auto. Qed.
