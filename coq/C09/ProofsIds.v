(* C09 -- the name-resolution errors are positioned at identifiers: every
   "undefined" report is at an occurrence of an identifier that is neither
   predeclared nor universal, every "sets not supported" report at an occurrence
   of the identifier `set` (and only with Set off). *)
From Coq Require Import String Ascii List Bool Arith NArith Lia.
From SV Require Import C09.Syntax C09.Model C09.Spec C09.Unfold C09.Proofs.
Import ListNotations.

(* the identifier occurrences (uses) of a construct *)
Fixpoint ids_expr (e : expr) : list (N * string) :=
  match e with
  | EId n x => [(n, x)]
  | ELit => []
  | EOp es => ids_exprs es
  | ECall _ f a => ids_expr f ++ ids_args a
  | ELambda _ ps body => ids_params ps ++ ids_expr body
  | EComp _ iter vars cl body => ids_expr iter ++ ids_lhs vars ++ ids_clauses cl ++ ids_expr body
  end
with ids_exprs (es : exprs) : list (N * string) :=
  match es with ENil => [] | ECons e r => ids_expr e ++ ids_exprs r end
with ids_args (a : args) : list (N * string) :=
  match a with
  | ANil => []
  | APos _ e r | ANamed _ _ e r | AStar _ e r | AStarStar _ e r => ids_expr e ++ ids_args r
  end
with ids_params (ps : params) : list (N * string) :=
  match ps with
  | PNil => []
  | PId _ _ r | PStar _ _ r | PStarStar _ _ _ r => ids_params r
  | PDef _ _ d r => ids_expr d ++ ids_params r
  end
with ids_clauses (cl : clauses) : list (N * string) :=
  match cl with
  | CNil => []
  | CFor v e r => ids_lhs v ++ ids_expr e ++ ids_clauses r
  | CIf e r => ids_expr e ++ ids_clauses r
  end
with ids_lhs (l : lhs) : list (N * string) :=
  match l with
  | LId _ _ => []
  | LSeq _ ls => ids_lhss ls
  | LExpr es => ids_exprs es
  | LBad _ => []
  end
with ids_lhss (ls : lhss) : list (N * string) :=
  match ls with LNil => [] | LCons l r => ids_lhs l ++ ids_lhss r end.

Fixpoint ids_stmt (s : stmt) : list (N * string) :=
  match s with
  | SExpr e => ids_expr e
  | SBranch _ => []
  | SIf _ c t f => ids_expr c ++ ids_stmts t ++ ids_stmts f
  | SAssign _ l e => ids_expr e ++ ids_lhs l
  | SDef _ _ _ ps body => ids_params ps ++ ids_stmts body
  | SFor _ v e body => ids_expr e ++ ids_lhs v ++ ids_stmts body
  | SWhile _ c body => ids_expr c ++ ids_stmts body
  | SReturn _ e => match e with Some e => ids_expr e | None => [] end
  | SLoad _ _ => []
  end
with ids_stmts (ss : stmts) : list (N * string) :=
  match ss with SNil => [] | SCons s r => ids_stmt s ++ ids_stmts r end.

Section I.
Variable opts : options.
Variable W : world.
Variable Occ : N * string -> Prop.

Definition Good (st : rs) : Prop :=
  (forall n, In (RUndefined, n) (errs st) ->
     exists x, Occ (n, x) /\ mem x (w_predeclared W) = false /\ mem x (w_universal W) = false) /\
  (forall n, In (RSetUnsupported, n) (errs st) -> Occ (n, "set"%string) /\ o_set opts = false) /\
  (forall c u, In (c, u) (buses st) -> Occ (u_node u, u_name u)).

Lemma G_same st st' : errs st' = errs st -> buses st' = buses st -> Good st -> Good st'.
Proof. unfold Good. intros -> ->. auto. Qed.

Lemma G_errorf st r n : r <> RUndefined -> r <> RSetUnsupported -> Good st -> Good (errorf st r n).
Proof.
  intros H1 H2 [A [B C]]. split; [|split]; simpl; auto.
  - intros m Hin. apply in_app_or in Hin. destruct Hin as [Hin|[E|[]]]; auto. inversion E; congruence.
  - intros m Hin. apply in_app_or in Hin. destruct Hin as [Hin|[E|[]]]; auto. inversion E; congruence.
Qed.

Lemma G_useToplevel st n x : Occ (n, x) -> Good st -> Good (useToplevel opts W st n x).
Proof.
  intros Ho H. unfold useToplevel.
  destruct (mem x (fileb st)); auto. destruct (mem x (globals st)); auto.
  destruct (mem x (premem st)); auto.
  destruct (mem x (w_predeclared W)) eqn:Ep; [exact H|].
  destruct (mem x (w_universal W)) eqn:Eu.
  - destruct (negb (o_set opts) && String.eqb x "set") eqn:E; [|exact H].
    apply andb_prop in E. destruct E as [E1 E2]. apply String.eqb_eq in E2. subst x.
    destruct H as [A [B C]]. split; [|split]; simpl; auto.
    + intros m Hin. apply in_app_or in Hin. destruct Hin as [Hin|[E|[]]]; auto. inversion E.
    + intros m Hin. apply in_app_or in Hin. destruct Hin as [Hin|[E|[]]]; auto.
      inversion E; subst. split; auto. destruct (o_set opts); [discriminate|reflexivity].
  - destruct H as [A [B C]]. split; [|split]; simpl; auto.
    + intros m Hin. apply in_app_or in Hin. destruct Hin as [Hin|[E|[]]]; auto.
      inversion E; subst. exists x. auto.
    + intros m Hin. apply in_app_or in Hin. destruct Hin as [Hin|[E|[]]]; auto. inversion E.
Qed.

Lemma G_use st n x : Occ (n, x) -> Good st -> Good (use_ opts W st n x).
Proof.
  intros Ho H. unfold use_. destruct (o_global_reassign opts && _).
  - apply G_useToplevel; auto.
  - destruct H as [A [B C]]. split; [|split]; simpl; auto.
    intros c u Hin. apply in_app_or in Hin. destruct Hin as [Hin|[E|[]]]; [eauto|].
    inversion E; subst. simpl. exact Ho.
Qed.

Lemma G_bindLocal st n x : Good st -> Good (snd (bindLocal st n x)).
Proof.
  intros H. unfold bindLocal. destruct (env st).
  - destruct (nth_error (blocks st) n0); simpl; auto.
    destruct (mem x (k_names b) || mem x (k_memo b)); exact H.
  - simpl. destruct (mem x (fileb st)); exact H.
Qed.

Lemma G_bind st n x : Good st -> Good (snd (bind opts st n x)).
Proof.
  intros H. unfold bind. destruct (env st); [apply G_bindLocal; auto|]. simpl.
  destruct (mem x (fileb st) || mem x (globals st)); simpl.
  - destruct (negb (o_global_reassign opts)); [|exact H]. apply G_errorf; auto; discriminate.
  - exact H.
Qed.

Lemma G_bind_dup st n x m : Good st -> Good (bind_dup opts st n x m).
Proof.
  intros H. unfold bind_dup. destruct (fst (bind opts st n x)).
  - apply G_errorf; try discriminate. apply G_bind; auto.
  - apply G_bind; auto.
Qed.

Lemma G_pop st : Good st -> Good (pop st).
Proof. intros H. unfold pop. destruct (env st); auto. destruct (nth_error (blocks st) n); auto. Qed.
Lemma G_enter st : Good st -> Good (enter_fn st).
Proof. intros H. exact H. Qed.
Lemma G_leave st0 st : Good st -> Good (leave_fn st0 st).
Proof. intros H. unfold leave_fn. apply (G_same (pop st)); auto. apply G_pop; auto. Qed.
Lemma G_push st b : Good st -> Good (push st b).
Proof. intros H. exact H. Qed.
Lemma G_set_loops st k : Good st -> Good (set_loops st k).
Proof. intros H. exact H. Qed.
Lemma G_set_ifstmts st k : Good st -> Good (set_ifstmts st k).
Proof. intros H. exact H. Qed.

Local Hint Resolve G_bind G_bind_dup G_pop G_enter G_leave G_push G_set_loops G_set_ifstmts : gg.

Ltac ge :=
  repeat match goal with
         | |- Good (errorf _ _ _) => apply G_errorf; [discriminate|discriminate|]
         end.

Ltac sub := intros nx Hnx; match goal with H : forall _, In _ _ -> Occ _ |- _ => apply H end;
            simpl; repeat (rewrite in_app_iff); auto 8.

Theorem ids_exprs_walk :
  (forall e st, (forall nx, In nx (ids_expr e) -> Occ nx) -> Good st -> Good (expr_ opts W st e)) /\
  (forall es st, (forall nx, In nx (ids_exprs es) -> Occ nx) -> Good st -> Good (exprs_ opts W st es)) /\
  (forall a st ast, (forall nx, In nx (ids_args a) -> Occ nx) -> Good st -> Good (fst (args_ opts W st ast a))) /\
  (forall ps, (forall st, (forall nx, In nx (ids_params ps) -> Occ nx) -> Good st -> Good (defaults_ opts W st ps)) /\
              (forall st p, Good st -> Good (params_ opts W st p ps))) /\
  (forall cl st, (forall nx, In nx (ids_clauses cl) -> Occ nx) -> Good st -> Good (clauses_ opts W st cl)) /\
  (forall l st aug, (forall nx, In nx (ids_lhs l) -> Occ nx) -> Good st -> Good (assign_ opts W st aug l)) /\
  (forall ls st aug, (forall nx, In nx (ids_lhss ls) -> Occ nx) -> Good st -> Good (assigns_ opts W st aug ls)).
Proof.
  apply expr_mutind.
  - intros n x st Ho H. rewrite u_EId. apply G_use; auto. apply Ho. left; auto.
  - intros st _ H. exact H.
  - intros es IH st Ho H. rewrite u_EOp. auto.
  - intros n f IHf a IHa st Ho H. rewrite u_ECall. cbv zeta.
    assert (H1 : Good (fst (args_ opts W (expr_ opts W st f) a0 a))).
    { apply IHa; [sub|]. apply IHf; [sub|auto]. }
    destruct (256 <=? a_p _); destruct (256 <=? a_n _); ge; auto.
  - intros n ps [IHd IHp] body IHb st Ho H. rewrite u_ELambda. cbv zeta.
    apply G_leave. apply IHb; [sub|]. apply IHp. apply G_enter. apply IHd; [sub|auto].
  - intros n iter IHi vars IHv cl IHc body IHb st Ho H. rewrite u_EComp.
    apply G_pop. apply IHb; [sub|]. apply IHc; [sub|]. apply IHv; [sub|]. apply G_push. apply IHi; [sub|auto].
  - intros st _ H. exact H.
  - intros e IHe r IHr st Ho H. rewrite u_ECons. apply IHr; [sub|]. apply IHe; [sub|auto].
  - intros st ast _ H. rewrite u_ANil. exact H.
  - intros n e IHe r IHr st ast Ho H. rewrite u_APos. cbv zeta. apply IHr; [sub|]. apply IHe; [sub|].
    destruct (a_seenVar ast); ge; auto. destruct (a_seenKw ast); ge; auto. destruct (a_names ast); ge; auto.
  - intros n x e IHe r IHr st ast Ho H. rewrite u_ANamed. cbv zeta. apply IHr; [sub|]. apply IHe; [sub|].
    assert (H0 : Good (if a_seenKw ast then errorf st RArgNamedAfterKwargs n
                       else if a_seenVar ast then errorf st RArgNamedAfterStar n else st)).
    { destruct (a_seenKw ast); ge; auto. destruct (a_seenVar ast); ge; auto. }
    destruct (mem x (a_names ast)); ge; auto.
  - intros n e IHe r IHr st ast Ho H. rewrite u_AStar. cbv zeta. apply IHr; [sub|]. apply IHe; [sub|].
    destruct (a_seenKw ast); ge; auto. destruct (a_seenVar ast); ge; auto.
  - intros n e IHe r IHr st ast Ho H. rewrite u_AStarStar. cbv zeta. apply IHr; [sub|]. apply IHe; [sub|].
    destruct (a_seenKw ast); ge; auto.
  - split; [intros st _ H; exact H|].
    intros st p H. rewrite u_pNil. cbv zeta.
    assert (H1 : Good (match p_star p with
                       | Some (_, Some (an, ax)) => bind_dup opts st an ax an
                       | Some (n, None) => if p_nkw p =? 0 then errorf st RParBareStar n else st
                       | None => st
                       end)).
    { destruct (p_star p) as [[n [[an ax]|]]|]; auto with gg. destruct (p_nkw p =? 0); ge; auto. }
    destruct (p_starstar p) as [[nn x]|]; auto with gg.
  - intros n x r [IHd IHp]. split; [intros st Ho H; rewrite u_dId; apply IHd; [sub|auto]|].
    intros st p H. rewrite u_pId. cbv zeta. apply IHp. apply G_bind_dup.
    destruct (p_starstar p); ge; auto. destruct (p_star p); auto. destruct (p_seenOpt p); ge; auto.
  - intros n x d IHe r [IHd IHp]. split.
    + intros st Ho H. rewrite u_dDef. apply IHd; [sub|]. apply IHe; [sub|auto].
    + intros st p H. rewrite u_pDef. cbv zeta. apply IHp. apply G_bind_dup. destruct (p_starstar p); ge; auto.
  - intros n name r [IHd IHp]. split; [intros st Ho H; rewrite u_dStar; apply IHd; [sub|auto]|].
    intros st p H. rewrite u_pStar.
    destruct (p_starstar p); [apply IHp; ge; auto|]. destruct (p_star p); apply IHp; ge; auto.
  - intros n nn x r [IHd IHp]. split; [intros st Ho H; rewrite u_dSS; apply IHd; [sub|auto]|].
    intros st p H. rewrite u_pSS. cbv zeta. apply IHp. destruct (p_starstar p); ge; auto.
  - intros st _ H. exact H.
  - intros vars IHv iter IHi r IHr st Ho H. rewrite u_CFor. apply IHr; [sub|]. apply IHi; [sub|]. apply IHv; [sub|auto].
  - intros c IHc r IHr st Ho H. rewrite u_CIf. apply IHr; [sub|]. apply IHc; [sub|auto].
  - intros n x st aug _ H. rewrite u_LId. auto with gg.
  - intros n ls IH st aug Ho H. rewrite u_LSeq. apply IH; [sub|]. destruct aug; ge; auto.
  - intros es IH st aug Ho H. rewrite u_LExpr. apply IH; [sub|auto].
  - intros n st aug _ H. rewrite u_LBad. ge; auto.
  - intros st aug _ H. exact H.
  - intros l IHl r IHr st aug Ho H. rewrite u_LCons. apply IHr; [sub|]. apply IHl; [sub|auto].
Qed.

Lemma G_gate st r n : r <> RUndefined -> r <> RSetUnsupported -> Good st -> Good (gate opts st r n).
Proof.
  intros H1 H2 H. unfold gate. destruct (negb (o_toplevel_control opts) && negb (in_function st)); auto.
  apply G_errorf; auto.
Qed.

Lemma G_load_items items : forall st, Good st -> Good (load_items opts st items).
Proof.
  induction items as [|[[[fn from] tn] to] items IH]; intros st H; simpl; auto.
  apply IH.
  assert (H1 : Good (if starts_with_underscore from then errorf st RLoadUnderscore fn else st))
    by (destruct (starts_with_underscore from); ge; auto).
  destruct (o_load_binds_globally opts); [apply G_bind; auto|].
  destruct (fst (bindLocal _ tn to) && negb (o_global_reassign opts)).
  - apply G_errorf; try discriminate. apply G_bindLocal; auto.
  - apply G_bindLocal; auto.
Qed.

Theorem ids_stmts_walk :
  (forall s st, (forall nx, In nx (ids_stmt s) -> Occ nx) -> Good st -> Good (stmt_ opts W st s)) /\
  (forall ss st, (forall nx, In nx (ids_stmts ss) -> Occ nx) -> Good st -> Good (stmts_ opts W st ss)).
Proof.
  destruct ids_exprs_walk as [AE [AEs [AA [AP [AC [AL ALs]]]]]].
  apply stmt_mutind.
  - intros e st Ho H. rewrite u_SExpr. apply AE; auto.
  - intros n st _ H. rewrite u_SBranch. destruct (loops st =? 0); ge; auto.
  - intros n c t IHt f IHf st Ho H. rewrite u_SIf. cbv zeta.
    apply G_set_ifstmts. apply IHf; [sub|]. apply IHt; [sub|]. apply G_set_ifstmts. apply AE; [sub|].
    apply G_gate; auto; try discriminate.
  - intros aug l e st Ho H. rewrite u_SAssign. apply AL; [sub|]. apply AE; [sub|auto].
  - intros n nn x ps body IHb st Ho H. rewrite u_SDef. cbv zeta. destruct (AP ps) as [APd APp].
    apply G_leave. apply IHb; [sub|]. apply APp. apply G_enter. apply APd; [sub|]. apply G_bind. exact H.
  - intros n vars iter body IHb st Ho H. rewrite u_SFor. cbv zeta.
    apply G_set_loops. apply IHb; [sub|]. apply G_set_loops. apply AL; [sub|]. apply AE; [sub|].
    apply G_gate; auto; try discriminate.
  - intros n c body IHb st Ho H. rewrite u_SWhile. cbv zeta.
    apply G_set_loops. apply IHb; [sub|]. apply G_set_loops. apply AE; [sub|].
    apply G_gate; try discriminate.
    destruct (negb (o_while opts)); ge; auto.
  - intros n e st Ho H. rewrite u_SReturn. cbv zeta.
    assert (H1 : Good (if negb (in_function st) then errorf st RReturnToplevel n else st))
      by (destruct (negb (in_function st)); ge; auto).
    destruct e; auto.
  - intros n items st _ H. rewrite u_SLoad. apply G_load_items.
    destruct (in_function st); ge; auto. destruct (0 <? loops st); ge; auto.
    destruct (0 <? ifstmts st); ge; auto.
  - intros st _ H. exact H.
  - intros s IHs r IHr st Ho H. rewrite u_SCons. apply IHr; [sub|]. apply IHs; [sub|auto].
Qed.

Lemma G_lookup fuel : forall st n x e, Occ (n, x) -> Good st -> Good (lookupLexical opts W fuel st n x e).
Proof.
  induction fuel as [|f IH]; intros st n x e Ho H; simpl.
  - destruct e as [b|]; [|apply G_useToplevel; auto].
    destruct (nth_error (blocks st) b); auto. destruct (mem x (k_names b0) || mem x (k_memo b0)); auto.
  - destruct e as [b|]; [|apply G_useToplevel; auto].
    destruct (nth_error (blocks st) b); auto. destruct (mem x (k_names b0) || mem x (k_memo b0)); auto.
    apply (G_same (lookupLexical opts W f st n x (k_parent b0))); auto.
Qed.

Lemma G_fold_uses (c : option nat) (l : list (option nat * use)) : forall st,
  (forall cu, In cu l -> Occ (u_node (snd cu), u_name (snd cu))) ->
  Good st ->
  Good (fold_left (fun st cu => if match fst cu, c with
                                   | None, None => true
                                   | Some a, Some b => a =? b
                                   | _, _ => false
                                   end
                                then lookupLexical opts W (length (blocks st)) st (u_node (snd cu)) (u_name (snd cu)) (u_env (snd cu))
                                else st) l st).
Proof.
  induction l as [|cu l IH]; intros st Hl H; simpl; auto.
  apply IH; [intros; apply Hl; right; auto|].
  destruct (match fst cu, c with None, None => true | Some a, Some b => a =? b | _, _ => false end); auto.
  apply G_lookup; auto. apply Hl. left; auto.
Qed.

Lemma G_resolve_uses st c : Good st -> Good (resolve_uses_of opts W st c).
Proof.
  intros H. unfold resolve_uses_of. apply G_fold_uses; auto.
  intros [c0 u] Hin. destruct H as [_ [_ C]]. simpl. eapply C; eauto.
Qed.

Lemma G_nonlocal fuel : forall st b, Good st -> Good (resolveNonLocalUses opts W fuel st b).
Proof.
  induction fuel as [|f IH]; intros st b H; simpl; auto.
  apply G_resolve_uses.
  generalize (children_of st b). intros l. revert st H.
  induction l as [|c l IHl]; intros st H; simpl; auto.
Qed.

End I.

Lemma scoping_positions_lemma (o : options) (W : world) (p : program) (n : N) :
  (In (RUndefined, n) (resolve o W p) ->
     exists x, In (n, x) (ids_stmts p) /\ mem x (w_predeclared W) = false /\ mem x (w_universal W) = false) /\
  (In (RSetUnsupported, n) (resolve o W p) -> In (n, "set"%string) (ids_stmts p) /\ o_set o = false).
Proof.
  set (Occ := fun nx : N * string => In nx (ids_stmts p)).
  assert (G : Good o W Occ (resolveNonLocalUses o W (S (length (blocks (stmts_ o W init p)))) (stmts_ o W init p) None)).
  { apply G_nonlocal. destruct (ids_stmts_walk o W Occ) as [_ WS]. apply WS; [auto|].
    split; [|split]; simpl; intros; contradiction. }
  destruct G as [A [B _]]. split; intros H; unfold resolve in H.
  - apply A in H. exact H.
  - apply B in H. exact H.
Qed.
