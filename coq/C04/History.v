(* C04/History.v -- Function.Freeze as it was on the pinned tree, before the
   "fix:" commit in /repo (starlark/value.go):

       func (fn *Function) Freeze() { fn.defaults.Freeze(); fn.freevars.Freeze() }

   i.e. Function had no frozen flag: like Tuple, cell and Builtin it recursed
   unconditionally.  A function that is reachable from one of its own free
   variables  (def outer(): def f(): return f ...; g = outer())  sits on the
   cycle  function -> cell -> function  on which no object has a flag, and the
   recursion never ends: for EVERY stack depth the old Freeze runs out of it.
   This file is documentation of the finding: it is about a frozen copy of the
   old definition, not about /repo. *)
From Coq Require Import List Arith Bool ZArith Lia.
From SV Require Import C04.Heap C04.Model.
Import ListNotations.

Definition old_flagged (o : obj) : bool :=
  match o with OFunc _ _ _ _ => false | _ => flagged o end.

Fixpoint old_freeze (fuel : nat) (h : heap) (v : val) {struct fuel} : option heap :=
  match fuel with
  | O => None
  | S f =>
      match v with
      | VAtom _ => Some h
      | VRef l =>
          match lookup h l with
          | None => Some h
          | Some o =>
              if old_flagged o then
                if flag o then Some h
                else fold_opt (old_freeze f) (children o) (update h l (set_flag true o))
              else fold_opt (old_freeze f) (children o) h
          end
      end
  end.

(* g = outer() where  def outer(): def f(): return f; return f
   object 0: the function f, free variable = cell 1;  object 1: the cell, holding f *)
Definition self_closure : heap := [OFunc false [] [VRef 1] 0; OCell (Some (VRef 0))].

Lemma old_freeze_diverges_lemma : forall fuel,
  old_freeze fuel self_closure (VRef 0) = None /\ old_freeze fuel self_closure (VRef 1) = None.
Proof.
  induction fuel as [|f [IH0 IH1]]; [split; reflexivity|].
  split; simpl; [rewrite IH1 | rewrite IH0]; reflexivity.
Qed.

(* the repaired Freeze terminates on the same heap and freezes the function *)
Lemma new_freeze_terminates :
  freeze 3 self_closure (VRef 0) = Some [OFunc true [] [VRef 1] 0; OCell (Some (VRef 0))].
Proof. reflexivity. Qed.
