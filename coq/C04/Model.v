(* C04/Model.v -- executable model of freezing and of every mutator.

   Freeze, per kind, exactly as the code does it (after the "fix:" commit that
   gave Function a frozen flag; the pinned behaviour is in History.v):

     List.Freeze / hashtable.freeze / Struct.Freeze / Function.Freeze
         if !frozen { frozen = true; for each child: child.Freeze() }
     Tuple.Freeze            for each element: elem.Freeze()        (no flag)
     cell.Freeze             if v != nil { v.Freeze() }             (no flag)
     Builtin.Freeze          if recv != nil { recv.Freeze() }       (no flag)
     atoms, opaque values    no-op

   The recursion of the code is the recursion of `freeze`; `fuel` bounds the
   DEPTH of the Go call stack.  Running out of fuel is the distinguished result
   None (in the code: unbounded recursion, a fatal stack overflow); it is never
   turned into a normal-looking value.

   Module epilogue (starlark/eval.go ExecFileOptions): g, err := mod.Init(..);
   g.Freeze() -- StringDict.Freeze calls Freeze on every global in Go map order,
   on success and on error alike; `freeze_globals` takes the globals in any
   order (the theorems quantify over the list).

   Mutators: heap -> res, with the checkMutable test in the position the code
   has it.  Arguments that are hashed or compared (keys, the operand of
   remove) are atoms; stored payloads are arbitrary values. *)
From Coq Require Import List Arith Bool ZArith.
From SV Require Import C04.Heap.
Import ListNotations.

(* ------------------------------------------------------------------ Freeze *)

Fixpoint fold_opt (f : heap -> val -> option heap) (vs : list val) (h : heap) : option heap :=
  match vs with
  | [] => Some h
  | v :: r => match f h v with
              | Some h1 => fold_opt f r h1
              | None => None
              end
  end.

Fixpoint freeze (fuel : nat) (h : heap) (v : val) {struct fuel} : option heap :=
  match fuel with
  | O => None
  | S f =>
      match v with
      | VAtom _ => Some h
      | VRef l =>
          match lookup h l with
          | None => Some h
          | Some o =>
              if flagged o then
                if flag o then Some h
                else fold_opt (freeze f) (children o) (update h l (set_flag true o))
              else fold_opt (freeze f) (children o) h
          end
      end
  end.

Definition freeze_globals (fuel : nat) (h : heap) (globals : list val) : option heap :=
  fold_opt (freeze fuel) globals h.

(* ---------------------------------------------------------------- Mutators *)

Inductive errclass := EFrozen | EIter | EOther | EType.

Inductive res :=
| Ok (h : heap)
| Err (e : errclass)
| Panic.                    (* a Go run-time panic in the host (API misuse) *)

(* List.checkMutable / hashtable.checkMutable *)
Definition check_mutable (fr : bool) (ic : nat) : option errclass :=
  if fr then Some EFrozen else if 0 <? ic then Some EIter else None.

Definition veq (v : val) (a : Z) : bool :=
  match v with VAtom b => Z.eqb a b | VRef _ => false end.

Fixpoint remove_first (a : Z) (es : list val) : option (list val) :=
  match es with
  | [] => None
  | e :: r => if veq e a then Some r
              else match remove_first a r with Some r' => Some (e :: r') | None => None end
  end.

Fixpoint remove_at (i : nat) (es : list val) : list val :=
  match es, i with
  | [], _ => []
  | _ :: r, O => r
  | e :: r, S n => e :: remove_at n r
  end.

Fixpoint insert_at (i : nat) (v : val) (es : list val) : list val :=
  match i, es with
  | O, _ => v :: es
  | S n, [] => [v]
  | S n, e :: r => e :: insert_at n v r
  end.

Fixpoint set_at (i : nat) (v : val) (es : list val) : list val :=
  match es, i with
  | [], _ => []
  | _ :: r, O => v :: r
  | e :: r, S n => e :: set_at n v r
  end.

Fixpoint ht_has (k : Z) (kvs : list (val * val)) : bool :=
  match kvs with
  | [] => false
  | (k', _) :: r => veq k' k || ht_has k r
  end.

Fixpoint ht_set (k : Z) (v : val) (kvs : list (val * val)) : list (val * val) :=
  match kvs with
  | [] => [(VAtom k, v)]
  | (k', v') :: r => if veq k' k then (k', v) :: r else (k', v') :: ht_set k v r
  end.

Fixpoint ht_del (k : Z) (kvs : list (val * val)) : list (val * val) :=
  match kvs with
  | [] => []
  | (k', v') :: r => if veq k' k then r else (k', v') :: ht_del k r
  end.

Definition set_has (k : Z) (ks : list val) : bool := existsb (fun e => veq e k) ks.
Definition set_ins (k : Z) (ks : list val) : list val := if set_has k ks then ks else ks ++ [VAtom k].
Definition set_del (k : Z) (ks : list val) : list val :=
  match remove_first k ks with Some r => r | None => ks end.

Definition norm_index (i : Z) (n : nat) : Z := if (i <? 0)%Z then (i + Z.of_nat n)%Z else i.
Definition in_range (i : Z) (n : nat) : bool := ((0 <=? i) && (i <? Z.of_nat n))%Z.

Definition with_check (fr : bool) (ic : nat) (k : res) : res :=
  match check_mutable fr ic with Some e => Err e | None => k end.

Fixpoint ht_set_all (kvs : list (Z * val)) (d : list (val * val)) : list (val * val) :=
  match kvs with
  | [] => d
  | (k, v) :: r => ht_set_all r (ht_set k v d)
  end.

Fixpoint set_ins_all (ks : list Z) (s : list val) : list val :=
  match ks with
  | [] => s
  | k :: r => set_ins_all r (set_ins k s)
  end.

Definition mutate_list (h : heap) (l : loc) (fr : bool) (ic : nat) (es : list val) (o : mop) : res :=
  let put es' := Ok (update h l (OList fr ic es')) in
  let n := length es in
  match o with
  | LAppend v | GoLAppend v => with_check fr ic (put (es ++ [v]))
  | LClear | GoLClear => with_check fr ic (put [])
  | LExtend vs | LInplaceAdd vs => with_check fr ic (put (es ++ vs))
  | LInsert i v =>
      with_check fr ic
        (let i := norm_index i n in
         if (Z.of_nat n <=? i)%Z then put (es ++ [v])
         else put (insert_at (Z.to_nat (Z.max 0 i)) v es))
  | LPop oi =>
      (* index computed and range-checked BEFORE checkMutable (library.go list_pop) *)
      let i := norm_index (match oi with Some i => i | None => (Z.of_nat n - 1)%Z end) n in
      if in_range i n then with_check fr ic (put (remove_at (Z.to_nat i) es)) else Err EOther
  | LRemove a =>
      with_check fr ic
        (match remove_first a es with Some es' => put es' | None => Err EOther end)
  | LSetIndex i v =>
      (* eval.go setIndex: range check first, then List.SetIndex *)
      let i := norm_index i n in
      if in_range i n then with_check fr ic (put (set_at (Z.to_nat i) v es)) else Err EOther
  | GoLSetIndex i v =>
      with_check fr ic (if i <? n then put (set_at i v es) else Panic)
  | XSetField _ _ => Err EOther
  | _ => Err EType
  end.

Definition mutate_dict (h : heap) (l : loc) (fr : bool) (ic : nat) (kvs : list (val * val)) (o : mop) : res :=
  let put kvs' := Ok (update h l (ODict fr ic kvs')) in
  match o with
  | DClear | GoDClear => with_check fr ic (put [])
  | DPop k d =>
      (* Dict.Delete: checkMutable first *)
      with_check fr ic
        (if ht_has k kvs then put (ht_del k kvs)
         else match d with Some _ => Ok h | None => Err EOther end)
  | DPopitem =>
      match kvs with
      | [] => Err EOther                                   (* "empty dict", before any check *)
      | (k, _) :: r => with_check fr ic (put r)
      end
  | DSetdefault k d =>
      if ht_has k kvs then Ok h                            (* found: returned without any check *)
      else with_check fr ic (put (ht_set k d kvs))
  | DUpdate ups =>
      match ups with
      | [] => Ok h                                         (* nothing to insert: no check is reached *)
      | _ => with_check fr ic (put (ht_set_all ups kvs))
      end
  | DSetKey k v | GoDSetKey k v => with_check fr ic (put (ht_set k v kvs))
  | DInplacePipe ups => with_check fr ic (put (ht_set_all ups kvs))
  | GoDDelete k => with_check fr ic (put (ht_del k kvs))
  | XSetField _ _ => Err EOther
  | _ => Err EType
  end.

Definition mutate_set (h : heap) (l : loc) (fr : bool) (ic : nat) (ks : list val) (o : mop) : res :=
  let put ks' := Ok (update h l (OSet fr ic ks')) in
  match o with
  | SAdd k => with_check fr ic (put (set_ins k ks))
  | SClear =>
      match ks with
      | [] => Ok h                                         (* Len() == 0: Clear is not called *)
      | _ => with_check fr ic (put [])
      end
  | GoSClear => with_check fr ic (put [])
  | SDiscard k | GoSDelete k => with_check fr ic (put (set_del k ks))
  | SPop =>
      match ks with
      | [] => Err EOther
      | _ :: r => with_check fr ic (put r)
      end
  | SRemove k =>
      with_check fr ic (if set_has k ks then put (set_del k ks) else Err EOther)
  | SUpdate kss =>
      match concat kss with
      | [] => Ok h                                         (* no element: Insert is never called *)
      | all => with_check fr ic (put (set_ins_all all ks))
      end
  | GoSInsert k => with_check fr ic (put (set_ins k ks))
  | XSetField _ _ => Err EOther
  | _ => Err EType
  end.

Definition mutate (h : heap) (l : loc) (o : mop) : res :=
  match lookup h l with
  | Some (OList fr ic es) => mutate_list h l fr ic es o
  | Some (ODict fr ic kvs) => mutate_dict h l fr ic kvs o
  | Some (OSet fr ic ks) => mutate_set h l fr ic ks o
  | Some _ => match o with XSetField _ _ => Err EOther | _ => Err EType end
  | None => Err EType
  end.

(* the explicit cases in which a mutator applied to a frozen object returns
   without error (and without having done anything) *)
Definition noop_case (h : heap) (l : loc) (o : mop) : bool :=
  match lookup h l, o with
  | Some (ODict _ _ kvs), DSetdefault k _ => ht_has k kvs     (* key present: value returned *)
  | Some (ODict _ _ _), DUpdate [] => true                    (* d.update() / d.update({}) *)
  | Some (OSet _ _ []), SClear => true                        (* clear() of an empty set *)
  | Some (OSet _ _ _), SUpdate kss => match concat kss with [] => true | _ => false end
  | _, _ => false
  end.

(* --------------------------------------------------- operation sequences *)

Definition run_step (h : heap) (s : step) : heap :=
  match s with
  | SMut l o => match mutate h l o with Ok h' => h' | _ => h end
  | SAlloc o => alloc h o
  | SCellSet c v =>
      (* locals[arg].(cell).v = value -- no check of any kind *)
      match lookup h c with
      | Some (OCell _) => update h c (OCell (Some v))
      | _ => h
      end
  end.

Definition is_cell_set (s : step) : bool := match s with SCellSet _ _ => true | _ => false end.
Definition no_cell_set (ss : list step) : bool := forallb (fun s => negb (is_cell_set s)) ss.

Definition run_steps (h : heap) (ss : list step) : heap := fold_left run_step ss h.
