(* C04/Spec.v -- the oracle.  Independent of Model.v: it never runs the model's
   freeze or mutators.  It decides reachability in the graph AS DESCRIBED (the
   object graph the module builds, before anything is frozen) and states what
   the property demands of one observed mutation attempt:

     node reachable from the globals that were defined when execution returned
     (successfully or not), or already frozen before, or of a kind without
     mutators
         => the attempt changed nothing, and it either failed or is one of the
            written-out cases in which nothing was to be done;
     otherwise (a host or local value the module does not keep)
         => it is still mutable: the operations that always succeed on a
            mutable value succeed, append really appends. *)
From Coq Require Import List Arith Bool ZArith.
From SV Require Import C04.Heap.
Import ListNotations.

Definition memb (l : loc) (s : list loc) : bool := existsb (Nat.eqb l) s.

Fixpoint refs (vs : list val) : list loc :=
  match vs with
  | [] => []
  | VRef l :: r => l :: refs r
  | VAtom _ :: r => refs r
  end.

Definition succs (h : heap) (l : loc) : list loc :=
  match lookup h l with Some o => refs (children o) | None => [] end.

Fixpoint add_all (xs s : list loc) : list loc :=
  match xs with
  | [] => s
  | x :: r => if memb x s then add_all r s else add_all r (s ++ [x])
  end.

Definition expand (h : heap) (s : list loc) : list loc :=
  fold_left (fun acc l => add_all (succs h l) acc) s s.

Fixpoint iter {A} (n : nat) (f : A -> A) (x : A) : A :=
  match n with O => x | S k => iter k f (f x) end.

Definition reach_set (h : heap) (roots : list val) : list loc :=
  iter (length h) (expand h) (add_all (refs roots) []).

(* the set contains the roots and is closed under the edge relation *)
Definition closedb (h : heap) (roots : list val) (s : list loc) : bool :=
  forallb (fun r => memb r s) (refs roots) &&
  forallb (fun l => forallb (fun c => memb c s) (succs h l)) s.

Definition reach_dec (h : heap) (roots : list val) : option (list loc) :=
  let s := reach_set h roots in if closedb h roots s then Some s else None.

(* ------------------------------------------------------------ observations *)

(* One attempted mutation, as observed on the implementation. *)
Record probe := {
  p_node : loc;                     (* the object the operation is applied to *)
  p_op : mop;
  p_err : bool;                     (* the operation returned an error *)
  p_after : option (list val)       (* None: the contents of the object are as before;
                                       Some vs: its children afterwards *)
}.

Definition key_present (k : Z) (kvs : list (val * val)) : bool :=
  existsb (fun kv => match fst kv with VAtom a => Z.eqb a k | VRef _ => false end) kvs.

(* the written-out cases in which a mutator of a frozen value has nothing to do
   and returns normally *)
Definition spec_noop (o : obj) (m : mop) : bool :=
  match o, m with
  | ODict _ _ kvs, DSetdefault k _ => key_present k kvs
  | ODict _ _ _, DUpdate [] => true
  | OSet _ _ [], SClear => true
  | OSet _ _ _, SUpdate kss => forallb (fun ks => match ks with [] => true | _ => false end) kss
  | _, _ => false
  end.

Definition always_succeeds (o : obj) (m : mop) : bool :=
  match o, m with
  | OList _ _ _, (LAppend _ | GoLAppend _ | LClear | GoLClear | LExtend _ | LInplaceAdd _ | LInsert _ _) => true
  | ODict _ _ _, (DClear | GoDClear | DSetKey _ _ | GoDSetKey _ _ | DUpdate _ | DInplacePipe _
                  | GoDDelete _ | DSetdefault _ _) => true
  | OSet _ _ _, (SAdd _ | SClear | GoSClear | SDiscard _ | GoSDelete _ | SUpdate _ | GoSInsert _) => true
  | _, _ => false
  end.

Definition vals_eqb := list_eqb val_eqb.

Definition expected_after (o : obj) (m : mop) (after : option (list val)) : bool :=
  match o, m with
  | OList _ _ es, (LAppend v | GoLAppend v) => opt_eqb vals_eqb after (Some (es ++ [v]))
  | OList _ _ (_ :: _), (LClear | GoLClear) => opt_eqb vals_eqb after (Some [])
  | _, _ => true
  end.

Definition must_be_immutable (s : list loc) (l : loc) (o : obj) : bool :=
  memb l s || negb (mutable_kind o) || flag o.

(* h0: the graph as described (before the module's freeze); s: the set of
   locations reachable from the globals defined when execution returned *)
Definition spec_ok_with (rs : option (list loc)) (h0 : heap) (p : probe) : bool :=
  match rs, lookup h0 (p_node p) with
  | Some s, Some o =>
      if must_be_immutable s (p_node p) o then
        match p_after p with None => true | Some _ => false end
        && (p_err p || spec_noop o (p_op p))
      else if negb (0 <? itercount o) && always_succeeds o (p_op p) then
        negb (p_err p) && expected_after o (p_op p) (p_after p)
      else true
  | _, _ => false
  end.

Definition spec_ok (h0 : heap) (gs : list val) (p : probe) : bool :=
  spec_ok_with (reach_dec h0 gs) h0 p.

(* the objects (locations below n) the Go API walk found are exactly the
   reachable ones *)
Definition walk_ok (rs : option (list loc)) (n : nat) (walk : list loc) : bool :=
  match rs with
  | Some s => forallb (fun l => memb l s) walk && forallb (fun l => negb (l <? n) || memb l walk) s
  | None => false
  end.
