(* C04/ProofsFreeze.v -- Freeze only sets flags (ext), leaves unreachable objects
   alone (frame), and leaves everything reachable frozen (closure). *)
From Coq Require Import List Arith Bool ZArith Lia Relations.
From SV Require Import C04.Heap C04.Model C04.ProofsMut.
Import ListNotations.

(* ---------------------------------------------------------------- shapes *)

Lemma children_shape o : children (shape o) = children o.
Proof. destruct o; reflexivity. Qed.
Lemma flagged_shape o : flagged (shape o) = flagged o.
Proof. destruct o; reflexivity. Qed.
Lemma mutable_kind_shape o : mutable_kind (shape o) = mutable_kind o.
Proof. destruct o; reflexivity. Qed.
Lemma shape_set_flag b o : shape (set_flag b o) = shape o.
Proof. destruct o; reflexivity. Qed.
Lemma flag_set_flag o : flagged o = true -> flag (set_flag true o) = true.
Proof. destruct o; simpl; auto. Qed.
Lemma flagged_set_flag b o : flagged (set_flag b o) = flagged o.
Proof. destruct o; reflexivity. Qed.

Lemma shape_eq_children o o' : shape o' = shape o -> children o' = children o.
Proof. intros H. rewrite <- (children_shape o'), H. apply children_shape. Qed.
Lemma shape_eq_flagged o o' : shape o' = shape o -> flagged o' = flagged o.
Proof. intros H. rewrite <- (flagged_shape o'), H. apply flagged_shape. Qed.

(* h' differs from h at most by frozen flags that went from false to true *)
Definition ext (h h' : heap) : Prop :=
  length h' = length h /\
  forall l o, lookup h l = Some o ->
    exists o', lookup h' l = Some o' /\ shape o' = shape o /\ (flag o = true -> flag o' = true).

Lemma ext_refl h : ext h h.
Proof. split; auto. intros l o H. exists o. auto. Qed.

Lemma ext_trans h1 h2 h3 : ext h1 h2 -> ext h2 h3 -> ext h1 h3.
Proof.
  intros [L12 E12] [L23 E23]. split; [congruence|].
  intros l o H. destruct (E12 l o H) as [o2 [H2 [S2 F2]]].
  destruct (E23 l o2 H2) as [o3 [H3 [S3 F3]]].
  exists o3. repeat split; auto. congruence.
Qed.

Lemma ext_mark h l o : lookup h l = Some o -> ext h (update h l (set_flag true o)).
Proof.
  intros Hl. split; [apply length_update|].
  intros l' o' H'. destruct (Nat.eq_dec l' l) as [->|Hne].
  - exists (set_flag true o). rewrite lookup_update_same by (eapply lookup_lt; eauto).
    assert (o' = o) by congruence. subst o'.
    repeat split; auto. apply shape_set_flag.
    destruct o; simpl; auto.
  - exists o'. rewrite lookup_update_other by auto. auto.
Qed.

Lemma lookup_none_ge h l : lookup h l = None <-> length h <= l.
Proof. unfold lookup. apply nth_error_None. Qed.

Lemma ext_back h h' l o' : ext h h' -> lookup h' l = Some o' ->
  exists o, lookup h l = Some o /\ shape o' = shape o /\ (flag o = true -> flag o' = true).
Proof.
  intros [L E] H'. destruct (lookup h l) as [o|] eqn:Hl.
  - destruct (E l o Hl) as [o2 [H2 [S2 F2]]]. exists o. assert (o2 = o') by congruence. subst. auto.
  - apply lookup_none_ge in Hl. apply lookup_lt in H'. lia.
Qed.

Lemma ext_none h h' l : ext h h' -> lookup h l = None -> lookup h' l = None.
Proof. intros [L _] H. apply lookup_none_ge. apply lookup_none_ge in H. lia. Qed.

Lemma ext_child h h' a b : ext h h' -> (child h a b <-> child h' a b).
Proof.
  intros E. split; intros [o [Hl Hc]].
  - destruct (proj2 E a o Hl) as [o' [Hl' [S _]]]. exists o'. split; auto.
    rewrite (shape_eq_children _ _ S). exact Hc.
  - destruct (ext_back _ _ _ _ E Hl) as [o0 [Hl0 [S _]]]. exists o0. split; auto.
    rewrite <- (shape_eq_children _ _ S). exact Hc.
Qed.

Lemma ext_reach h h' a b : ext h h' -> (reach h a b <-> reach h' a b).
Proof.
  intros E. split; intros Hp; induction Hp as [x|x y z Hxy Hyz IH]; try (constructor; fail).
  - econstructor; [apply (proj1 (ext_child _ _ x y E)); exact Hxy | exact IH].
  - econstructor; [apply (proj2 (ext_child _ _ x y E)); exact Hxy | exact IH].
Qed.

(* --------------------------------------------------- generic fold lemma *)

Lemma fold_opt_ext f vs :
  (forall h v h', f h v = Some h' -> ext h h') ->
  forall h h', fold_opt f vs h = Some h' -> ext h h'.
Proof.
  intros Hf. induction vs as [|v r IH]; intros h h' H; simpl in H.
  - injection H as <-. apply ext_refl.
  - destruct (f h v) as [h1|] eqn:H1; [|discriminate].
    eapply ext_trans; [eapply Hf; eauto | eapply IH; eauto].
Qed.

Lemma freeze_ext_lemma : forall fuel h v h', freeze fuel h v = Some h' -> ext h h'.
Proof.
  induction fuel as [|f IH]; intros h v h' H; simpl in H; [discriminate|].
  destruct v as [a|l]; [injection H as <-; apply ext_refl|].
  destruct (lookup h l) as [o|] eqn:Hl; [|injection H as <-; apply ext_refl].
  destruct (flagged o) eqn:Hfl.
  - destruct (flag o) eqn:Hfr; [injection H as <-; apply ext_refl|].
    eapply ext_trans; [apply ext_mark; eauto|].
    eapply fold_opt_ext; eauto.
  - eapply fold_opt_ext; eauto.
Qed.

Lemma freeze_globals_ext_lemma : forall fuel h gs h', freeze_globals fuel h gs = Some h' -> ext h h'.
Proof. intros. eapply fold_opt_ext; eauto. intros; eapply freeze_ext_lemma; eauto. Qed.

(* ------------------------------------------------------------------ frame *)

Definition reachv (h : heap) (v : val) (l : loc) : Prop :=
  match v with VRef r => reach h r l | VAtom _ => False end.

Lemma fold_opt_frame f vs h0 l :
  (forall h v h', f h v = Some h' -> ext h h') ->
  (forall h v h', f h v = Some h' -> ~ reachv h v l -> lookup h' l = lookup h l) ->
  forall h h', ext h0 h -> fold_opt f vs h = Some h' ->
    (forall c, In c vs -> ~ reachv h0 c l) -> lookup h' l = lookup h l.
Proof.
  intros Hext Hfr. induction vs as [|v r IH]; intros h h' E H Hn; simpl in H.
  - injection H as <-. reflexivity.
  - destruct (f h v) as [h1|] eqn:H1; [|discriminate].
    rewrite (IH h1 h').
    + eapply Hfr; eauto. intros Hr. apply (Hn v); [left; auto|].
      destruct v; simpl in *; auto. eapply ext_reach; eauto.
    + eapply ext_trans; eauto.
    + exact H.
    + intros c Hc. apply Hn. right. exact Hc.
Qed.

Lemma freeze_frame_val : forall fuel h v h',
  freeze fuel h v = Some h' -> forall l, ~ reachv h v l -> lookup h' l = lookup h l.
Proof.
  induction fuel as [|f IH]; intros h v h' H l Hn; simpl in H; [discriminate|].
  destruct v as [a|l0]; [injection H as <-; reflexivity|].
  destruct (lookup h l0) as [o|] eqn:Hl; [|injection H as <-; reflexivity].
  assert (Hch : forall c, In c (children o) -> ~ reachv h c l).
  { intros c Hc Hr. apply Hn. destruct c as [a|lc]; simpl in Hr; [contradiction|].
    simpl. econstructor; [exists o; split; eauto | exact Hr]. }
  assert (Hne : l <> l0).
  { intros ->. apply Hn. simpl. constructor. }
  destruct (flagged o) eqn:Hfl.
  - destruct (flag o) eqn:Hfr; [injection H as <-; reflexivity|].
    rewrite (fold_opt_frame (freeze f) (children o) h l (freeze_ext_lemma f) (fun h v h' Hz => IH h v h' Hz l)
               (update h l0 (set_flag true o)) h' (ext_mark _ _ _ Hl) H Hch).
    apply lookup_update_other. exact Hne.
  - apply (fold_opt_frame (freeze f) (children o) h l (freeze_ext_lemma f) (fun h v h' Hz => IH h v h' Hz l)
               h h' (ext_refl h) H Hch).
Qed.

Lemma reachable_cons_iff h g gs l :
  reachable h (g :: gs) l <-> reachv h g l \/ reachable h gs l.
Proof.
  split.
  - intros [r [[Hin|Hin] Hp]]; [left; subst; exact Hp | right; exists r; auto].
  - intros [Hr|[r [Hin Hp]]].
    + destruct g as [a|r]; simpl in Hr; [contradiction|]. exists r. split; [left; auto|auto].
    + exists r. split; [right; auto|auto].
Qed.

Lemma ext_reachable h h' gs l : ext h h' -> (reachable h gs l <-> reachable h' gs l).
Proof.
  intros E. split; intros [r [Hin Hp]]; exists r; split; auto.
  - apply (proj1 (ext_reach _ _ r l E)); exact Hp.
  - apply (proj2 (ext_reach _ _ r l E)); exact Hp.
Qed.

Lemma freeze_frame_lemma : forall fuel gs h h',
  freeze_globals fuel h gs = Some h' ->
  forall l, ~ reachable h gs l -> lookup h' l = lookup h l.
Proof.
  unfold freeze_globals. intros fuel. induction gs as [|g gs IH]; intros h h' H l Hn; simpl in H.
  - injection H as <-. reflexivity.
  - destruct (freeze fuel h g) as [h1|] eqn:H1; [|discriminate].
    assert (E := freeze_ext_lemma _ _ _ _ H1).
    rewrite (IH h1 h' H l).
    + eapply freeze_frame_val; eauto. intros Hr. apply Hn. apply reachable_cons_iff. left. exact Hr.
    + intros Hr. apply Hn. apply reachable_cons_iff. right. eapply ext_reachable; eauto.
Qed.

(* ---------------------------------------------------------------- closure *)

(* v needs no further freezing in h: an atom, a frozen flagged object, or an
   unflagged object (tuple, cell, builtin) all of whose children need none *)
Inductive done (h : heap) : val -> Prop :=
| done_atom a : done h (VAtom a)
| done_dangling l : lookup h l = None -> done h (VRef l)
| done_frozen l o : lookup h l = Some o -> flagged o = true -> flag o = true -> done h (VRef l)
| done_unflagged l o : lookup h l = Some o -> flagged o = false ->
    (forall c, In c (children o) -> done h c) -> done h (VRef l).

(* every frozen object outside G (the objects whose Freeze is still running)
   has only finished children *)
Definition closedG (h : heap) (G : list loc) : Prop :=
  forall l o, lookup h l = Some o -> flagged o = true -> flag o = true -> ~ In l G ->
    forall c, In c (children o) -> done h c.

Definition closed_frozen (h : heap) : Prop := closedG h [].

Lemma done_ext h h' v : ext h h' -> done h v -> done h' v.
Proof.
  intros E D. induction D as [a | l Hn | l o Hl Hfl Hfr | l o Hl Hfl Hc IH].
  - constructor.
  - apply done_dangling. eapply ext_none; eauto.
  - destruct (proj2 E l o Hl) as [o' [Hl' [S F]]].
    eapply done_frozen; eauto. rewrite (shape_eq_flagged _ _ S). exact Hfl.
  - destruct (proj2 E l o Hl) as [o' [Hl' [S F]]].
    eapply done_unflagged; eauto.
    + rewrite (shape_eq_flagged _ _ S). exact Hfl.
    + rewrite (shape_eq_children _ _ S). exact IH.
Qed.

Lemma fold_opt_closure f vs G :
  (forall h v h', f h v = Some h' -> ext h h') ->
  (forall h v h', f h v = Some h' -> closedG h G -> closedG h' G /\ done h' v) ->
  forall h h', fold_opt f vs h = Some h' -> closedG h G ->
    closedG h' G /\ forall c, In c vs -> done h' c.
Proof.
  intros Hext Hf. induction vs as [|v r IH]; intros h h' H C; simpl in H.
  - injection H as <-. split; auto. intros c [].
  - destruct (f h v) as [h1|] eqn:H1; [|discriminate].
    destruct (Hf _ _ _ H1 C) as [C1 D1].
    destruct (IH _ _ H C1) as [C' D'].
    split; auto. intros c [<-|Hc]; auto.
    eapply done_ext; [|exact D1]. eapply fold_opt_ext; eauto.
Qed.

Lemma freeze_closure_val : forall fuel h v h' G,
  freeze fuel h v = Some h' -> closedG h G -> closedG h' G /\ done h' v.
Proof.
  induction fuel as [|f IH]; intros h v h' G H C; simpl in H; [discriminate|].
  destruct v as [a|l]; [injection H as <-; split; auto; constructor|].
  destruct (lookup h l) as [o|] eqn:Hl; [|injection H as <-; split; auto; apply done_dangling; auto].
  destruct (flagged o) eqn:Hfl.
  - destruct (flag o) eqn:Hfr; [injection H as <-; split; auto; eapply done_frozen; eauto|].
    set (h1 := update h l (set_flag true o)) in *.
    assert (E1 : ext h h1) by (apply ext_mark; auto).
    assert (Hl1 : lookup h1 l = Some (set_flag true o)).
    { apply lookup_update_same. eapply lookup_lt; eauto. }
    assert (C1 : closedG h1 (l :: G)).
    { intros l' o' Hl' Hfl' Hfr' Hni c Hc.
      assert (Hne : l' <> l) by (intros ->; apply Hni; left; auto).
      unfold h1 in Hl'. rewrite lookup_update_other in Hl' by auto.
      eapply done_ext; [exact E1|]. eapply C; eauto. intros Hin. apply Hni. right. exact Hin. }
    destruct (fold_opt_closure (freeze f) (children o) (l :: G) (freeze_ext_lemma f)
                (fun h v h' Hz => IH h v h' (l :: G) Hz) h1 h' H C1) as [C' D'].
    assert (E' : ext h1 h') by (eapply fold_opt_ext; eauto; apply freeze_ext_lemma).
    destruct (proj2 E' l _ Hl1) as [o' [Hl' [S' F']]].
    rewrite shape_set_flag in S'.
    assert (Hfr' : flag o' = true) by (apply F'; apply flag_set_flag; auto).
    assert (Hfl' : flagged o' = true) by (rewrite (shape_eq_flagged _ _ S'); auto).
    split.
    + intros l2 o2 Hl2 Hfl2 Hfr2 Hni c Hc.
      destruct (Nat.eq_dec l2 l) as [->|Hne].
      * assert (o2 = o') by congruence. subst o2.
        apply D'. rewrite <- (shape_eq_children _ _ S'). exact Hc.
      * eapply C'; eauto. intros [Heq|Hin]; [congruence|auto].
    + eapply done_frozen; eauto.
  - destruct (fold_opt_closure (freeze f) (children o) G (freeze_ext_lemma f)
                (fun h v h' Hz => IH h v h' G Hz) h h' H C) as [C' D'].
    split; auto.
    assert (E' : ext h h') by (eapply fold_opt_ext; eauto; apply freeze_ext_lemma).
    destruct (proj2 E' l o Hl) as [o' [Hl' [S' F']]].
    eapply done_unflagged; eauto.
    + rewrite (shape_eq_flagged _ _ S'). exact Hfl.
    + rewrite (shape_eq_children _ _ S'). exact D'.
Qed.

Lemma freeze_globals_closure : forall fuel gs h h',
  freeze_globals fuel h gs = Some h' -> closed_frozen h ->
  closed_frozen h' /\ forall g, In g gs -> done h' g.
Proof.
  intros fuel gs h h' H C. unfold freeze_globals in H.
  eapply (fold_opt_closure (freeze fuel) gs []); eauto.
  - apply freeze_ext_lemma.
  - intros. eapply freeze_closure_val; eauto.
Qed.

(* from "done" and "closed" to: everything reachable is frozen *)
Lemma done_reach_frozen h : closed_frozen h ->
  forall a b, reach h a b -> done h (VRef a) ->
  forall o, lookup h b = Some o -> flagged o = true -> flag o = true.
Proof.
  intros C a b Hp. induction Hp as [x | x y z Hxy Hyz IH]; intros D o Hl Hfl.
  - inversion D as [| l Hn | l o' Hl' Hfl' Hfr' | l o' Hl' Hfl' Hc]; subst; congruence.
  - apply IH; auto.
    destruct Hxy as [ox [Hlx Hcx]].
    inversion D as [| l Hn | l o' Hl' Hfl' Hfr' | l o' Hl' Hfl' Hc]; subst.
    + congruence.
    + assert (o' = ox) by congruence. subst. eapply (C x ox); eauto.
    + assert (o' = ox) by congruence. subst. apply Hc. exact Hcx.
Qed.

Lemma freeze_closure_lemma : forall fuel h gs h',
  closed_frozen h ->
  freeze_globals fuel h gs = Some h' ->
  closed_frozen h' /\
  forall l o, reachable h gs l -> lookup h' l = Some o -> flagged o = true -> flag o = true.
Proof.
  intros fuel h gs h' C H.
  destruct (freeze_globals_closure _ _ _ _ H C) as [C' D'].
  split; auto.
  intros l o Hr Hl Hfl.
  assert (E := freeze_globals_ext_lemma _ _ _ _ H).
  apply (ext_reachable _ _ gs l E) in Hr. destruct Hr as [r [Hin Hp]].
  eapply done_reach_frozen; eauto.
Qed.

(* a heap in which nothing is frozen yet (a module that only uses its own
   fresh values) is closed *)
Lemma nothing_frozen_closed h :
  (forall l o, lookup h l = Some o -> flagged o = true -> flag o = false) -> closed_frozen h.
Proof. intros H l o Hl Hfl Hfr. rewrite (H l o Hl Hfl) in Hfr. discriminate. Qed.
