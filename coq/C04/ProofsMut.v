(* C04/ProofsMut.v -- every mutator respects the frozen flag; no operation
   sequence changes a frozen object. *)
From Coq Require Import List Arith Bool ZArith Lia.
From SV Require Import C04.Heap C04.Model.
Import ListNotations.

(* An object no mutator may change: a mutable kind whose flag is set, or a kind
   without mutators. *)
Definition is_frozen (h : heap) (l : loc) : bool :=
  match lookup h l with
  | Some o => if mutable_kind o then flag o else true
  | None => false
  end.

Lemma lookup_update_same h l o : l < length h -> lookup (update h l o) l = Some o.
Proof.
  revert l. induction h as [|x t IH]; intros [|l] Hl; simpl in *; try lia; auto.
  apply IH. lia.
Qed.

Lemma lookup_update_other h l l' o : l <> l' -> lookup (update h l' o) l = lookup h l.
Proof.
  revert l l'. induction h as [|x t IH]; intros [|l] [|l'] Hne; simpl; auto; try congruence;
    try (apply IH; congruence).
Qed.

Lemma length_update h l o : length (update h l o) = length h.
Proof. revert l. induction h as [|x t IH]; intros [|l]; simpl; auto. Qed.

Lemma lookup_lt h l o : lookup h l = Some o -> l < length h.
Proof. unfold lookup. intros H. apply nth_error_Some. congruence. Qed.

Lemma update_same_id h l o : lookup h l = Some o -> update h l o = h.
Proof.
  revert l. induction h as [|x t IH]; intros [|l] H; simpl in *; try discriminate.
  - congruence.
  - f_equal. apply IH. exact H.
Qed.

Lemma with_check_frozen ic k : with_check true ic k = Err EFrozen.
Proof. reflexivity. Qed.

(* frozen_rejects *)
Lemma frozen_rejects_lemma : forall h l o,
  is_frozen h l = true ->
  (exists e, mutate h l o = Err e) \/ (mutate h l o = Ok h /\ noop_case h l o = true).
Proof.
  intros h l o Hf. unfold is_frozen in Hf. unfold mutate, noop_case.
  destruct (lookup h l) as [ob|] eqn:Hl; [|discriminate].
  destruct ob; simpl in Hf; subst;
    try (left; destruct o; eexists; reflexivity).
  - (* list *)
    left. unfold mutate_list. destruct o; try (eexists; reflexivity).
    + destruct (in_range _ _); eexists; reflexivity.
    + destruct (in_range _ _); eexists; reflexivity.
  - (* dict *)
    unfold mutate_dict. destruct o; try (left; eexists; reflexivity).
    + destruct kvs as [|[k v] r]; left; eexists; reflexivity.
    + destruct (ht_has k kvs) eqn:Hh; [right; auto | left; eexists; reflexivity].
    + destruct kvs0; [right; auto | left; eexists; reflexivity].
  - (* set *)
    unfold mutate_set. destruct o; try (left; eexists; reflexivity).
    + destruct ks; [right; auto | left; eexists; reflexivity].
    + destruct ks; left; eexists; reflexivity.
    + destruct (concat kss); [right; split; [reflexivity | destruct ks; reflexivity] | left; eexists; reflexivity].
Qed.

Corollary frozen_unchanged : forall h l o h',
  is_frozen h l = true -> mutate h l o = Ok h' -> h' = h.
Proof.
  intros h l o h' Hf Hm. destruct (frozen_rejects_lemma h l o Hf) as [[e He]|[Hk _]]; congruence.
Qed.

(* a mutator touches only the object it is applied to *)
Lemma mutate_local : forall h l o h',
  mutate h l o = Ok h' ->
  length h' = length h /\ forall l', l' <> l -> lookup h' l' = lookup h l'.
Proof.
  intros h l o h' Hm.
  assert (Hupd : forall ob, h' = update h l ob \/ h' = h ->
            length h' = length h /\ forall l', l' <> l -> lookup h' l' = lookup h l').
  { intros ob [->| ->]; [|auto]. split; [apply length_update|].
    intros l' Hne. apply lookup_update_other; auto. }
  unfold mutate in Hm. destruct (lookup h l) as [ob|] eqn:Hl; [|discriminate].
  destruct ob; try (destruct o; discriminate);
    unfold mutate_list, mutate_dict, mutate_set, with_check in Hm;
    destruct o; try discriminate;
    repeat match type of Hm with
           | context [match ?c with _ => _ end] => destruct c; try discriminate
           end;
    injection Hm as <-;
    ((eapply Hupd; left; reflexivity) || (eapply (Hupd OOpaque); right; reflexivity)).
Qed.

Lemma lookup_alloc_old h o l ob : lookup h l = Some ob -> lookup (alloc h o) l = Some ob.
Proof.
  unfold lookup, alloc. intros H. rewrite nth_error_app1; auto. apply nth_error_Some. congruence.
Qed.

Definition is_cell (h : heap) (l : loc) : bool :=
  match lookup h l with Some (OCell _) => true | _ => false end.

(* one step leaves a frozen object alone -- unless the object is a cell and the
   step is the assignment of that very variable by its (still running) owner *)
Lemma run_step_frozen : forall h s l,
  is_frozen h l = true -> is_cell h l = false \/ is_cell_set s = false ->
  lookup (run_step h s) l = lookup h l.
Proof.
  intros h [l' o|ob|c v] l Hf Hc; simpl.
  - destruct (mutate h l' o) as [h'| |] eqn:Hm; auto.
    destruct (Nat.eq_dec l l') as [->|Hne].
    + rewrite (frozen_unchanged _ _ _ _ Hf Hm). reflexivity.
    + apply (proj2 (mutate_local _ _ _ _ Hm)). exact Hne.
  - unfold is_frozen in Hf. destruct (lookup h l) eqn:Hl; [|discriminate].
    apply lookup_alloc_old. exact Hl.
  - destruct Hc as [Hc|Hc]; [|discriminate].
    destruct (lookup h c) as [[]|] eqn:Hlc; auto.
    destruct (Nat.eq_dec l c) as [->|Hne].
    + unfold is_cell in Hc. rewrite Hlc in Hc. discriminate.
    + apply lookup_update_other. exact Hne.
Qed.

(* no_op_changes_frozen, object-wise: over ALL step sequences (cell assignments
   included) a frozen object that is not itself a cell keeps its flag, its
   itercount and its contents *)
Lemma frozen_stays_lemma : forall ss h l,
  is_frozen h l = true -> is_cell h l = false -> lookup (run_steps h ss) l = lookup h l.
Proof.
  induction ss as [|s ss IH]; intros h l Hf Hc; simpl; auto.
  unfold run_steps in *. simpl.
  assert (Hs := run_step_frozen h s l Hf (or_introl Hc)).
  rewrite IH.
  - exact Hs.
  - unfold is_frozen. rewrite Hs. exact Hf.
  - unfold is_cell. rewrite Hs. exact Hc.
Qed.

(* ... and when no variable captured by a closure is re-assigned, cells too *)
Lemma frozen_stays_nocell_lemma : forall ss h l,
  no_cell_set ss = true -> is_frozen h l = true -> lookup (run_steps h ss) l = lookup h l.
Proof.
  induction ss as [|s ss IH]; intros h l Hn Hf; simpl; auto.
  unfold run_steps in *. simpl in *. apply andb_true_iff in Hn. destruct Hn as [Hs0 Hn].
  apply negb_true_iff in Hs0.
  assert (Hs := run_step_frozen h s l Hf (or_intror Hs0)).
  rewrite IH; auto. unfold is_frozen. rewrite Hs. exact Hf.
Qed.

Lemma reach_snoc h r x y : reach h r x -> child h x y -> reach h r y.
Proof.
  intros Hp Hc. induction Hp as [x | x x' z Hxx' Hp IH].
  - econstructor; [exact Hc | constructor].
  - econstructor; [exact Hxx' | apply IH; exact Hc].
Qed.

(* lifted to the reachable part of the graph: if everything reachable from the
   roots is frozen, the whole reachable subgraph (objects, edges, hence every
   observable) is the same after any step sequence without cell assignments *)
Lemma reach_frozen_closed_lemma : forall ss h roots,
  no_cell_set ss = true ->
  (forall l, reachable h roots l -> is_frozen h l = true) ->
  forall l, reachable h roots l ->
    lookup (run_steps h ss) l = lookup h l /\ reachable (run_steps h ss) roots l.
Proof.
  intros ss h roots Hn Hall.
  assert (Hsame : forall l, reachable h roots l -> lookup (run_steps h ss) l = lookup h l).
  { intros l Hr. apply frozen_stays_nocell_lemma; auto. }
  intros l Hr. split; [apply Hsame; exact Hr|].
  destruct Hr as [r [Hin Hpath]]. exists r. split; [exact Hin|].
  assert (Hrr : reachable h roots r) by (exists r; split; [exact Hin | constructor]).
  clear Hin. induction Hpath as [x | x y z Hxy Hyz IH].
  - constructor.
  - econstructor.
    + destruct Hxy as [ob [Hl Hc]]. exists ob. split; [|exact Hc].
      rewrite Hsame; auto.
    + apply IH. destruct Hrr as [r0 [Hin0 Hp0]]. exists r0. split; [exact Hin0|].
      eapply reach_snoc; eauto.
Qed.
