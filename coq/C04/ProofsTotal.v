(* C04/ProofsTotal.v -- Freeze terminates: its recursion depth is bounded by the
   number of not-yet-frozen flagged objects times the longest chain of objects
   that have no flag (tuple, cell, builtin).

   The hypothesis `ranked`: objects WITHOUT a frozen flag do not form a cycle
   among themselves.  In the implementation this holds by construction: the
   children of a tuple and the receiver of a builtin exist before the object
   does and never change; a cell is referenced only by Functions (free
   variables) and frames, so every cycle through a cell passes through a
   Function -- which has a flag since the "fix:" commit.  On the pinned tree
   Function had no flag and the cycle cell -> function -> cell refutes
   termination (History.v). *)
From Coq Require Import List Arith Bool ZArith Lia Relations.
From SV Require Import C04.Heap C04.Model C04.ProofsMut C04.ProofsFreeze.
Import ListNotations.

Definition ranked (h : heap) (rank : loc -> nat) (R : nat) : Prop :=
  forall l o, lookup h l = Some o -> flagged o = false ->
    rank l <= R /\
    forall c oc, In (VRef c) (children o) -> lookup h c = Some oc -> flagged oc = false ->
      rank c < rank l.

Definition unfrozenb (o : obj) : bool := flagged o && negb (flag o).
Definition unfrozen_count (h : heap) : nat := length (filter unfrozenb h).

Definition vrank (h : heap) (rank : loc -> nat) (v : val) : nat :=
  match v with
  | VAtom _ => 0
  | VRef l => match lookup h l with
              | Some o => if flagged o then 0 else rank l + 1
              | None => 0
              end
  end.

Definition measure (h : heap) (rank : loc -> nat) (R : nat) (v : val) : nat :=
  unfrozen_count h * (R + 2) + vrank h rank v.

Lemma ext_cons_inv x t x' t' : ext (x :: t) (x' :: t') ->
  shape x' = shape x /\ (flag x = true -> flag x' = true) /\ ext t t'.
Proof.
  intros [L E]. destruct (E 0 x eq_refl) as [o' [H0 [Sh F]]]. simpl in H0. injection H0 as <-.
  split; auto. split; auto. split; [simpl in L; lia|].
  intros l o Hl. apply (E (S l) o). exact Hl.
Qed.

Lemma ext_count : forall h h', ext h h' -> unfrozen_count h' <= unfrozen_count h.
Proof.
  unfold unfrozen_count.
  induction h as [|x t IH]; intros [|x' t'] E; simpl; try lia.
  - destruct E as [L _]. simpl in L. lia.
  - destruct (ext_cons_inv _ _ _ _ E) as [Sh [F E']].
    specialize (IH _ E').
    assert (Hx : unfrozenb x' = true -> unfrozenb x = true).
    { unfold unfrozenb. rewrite (shape_eq_flagged _ _ Sh).
      destruct (flagged x); simpl; auto. destruct (flag x); simpl; auto.
      rewrite (F eq_refl). auto. }
    destruct (unfrozenb x') eqn:Hx'; destruct (unfrozenb x) eqn:Hxx; simpl; try lia;
      try (specialize (Hx eq_refl); discriminate).
Qed.

Lemma count_mark : forall h l o, lookup h l = Some o -> flagged o = true -> flag o = false ->
  S (unfrozen_count (update h l (set_flag true o))) = unfrozen_count h.
Proof.
  unfold unfrozen_count.
  induction h as [|x t IH]; intros [|l] o Hl Hfl Hfr; simpl in *; try discriminate.
  - injection Hl as ->.
    assert (H1 : unfrozenb (set_flag true o) = false).
    { unfold unfrozenb. rewrite flagged_set_flag, Hfl, (flag_set_flag _ Hfl). reflexivity. }
    assert (H2 : unfrozenb o = true) by (unfold unfrozenb; rewrite Hfl, Hfr; reflexivity).
    rewrite H1, H2. reflexivity.
  - specialize (IH l o Hl Hfl Hfr). destruct (unfrozenb x); simpl; lia.
Qed.

Lemma ext_ranked h h' rank R : ext h h' -> ranked h rank R -> ranked h' rank R.
Proof.
  intros E Hr l o' Hl' Hfl'.
  destruct (ext_back _ _ _ _ E Hl') as [o [Hl [S _]]].
  assert (Hfl : flagged o = false) by (rewrite <- (shape_eq_flagged _ _ S); auto).
  destruct (Hr l o Hl Hfl) as [Hle Hc]. split; auto.
  intros c oc' Hin Hlc' Hflc'.
  destruct (ext_back _ _ _ _ E Hlc') as [oc [Hlc [Sc _]]].
  eapply Hc; eauto.
  - rewrite <- (shape_eq_children _ _ S). exact Hin.
  - rewrite <- (shape_eq_flagged _ _ Sc). exact Hflc'.
Qed.

Lemma ext_vrank h h' rank v : ext h h' -> vrank h' rank v = vrank h rank v.
Proof.
  intros E. destruct v as [a|l]; simpl; auto.
  destruct (lookup h l) as [o|] eqn:Hl.
  - destruct (proj2 E l o Hl) as [o' [Hl' [S _]]]. rewrite Hl', (shape_eq_flagged _ _ S). reflexivity.
  - rewrite (ext_none _ _ _ E Hl). reflexivity.
Qed.

Lemma fold_opt_total f vs rank R bound :
  (forall h v h', f h v = Some h' -> ext h h') ->
  (forall h v, ranked h rank R -> measure h rank R v < bound -> exists h', f h v = Some h') ->
  forall h, ranked h rank R ->
    (forall c h1, In c vs -> ext h h1 -> measure h1 rank R c < bound) ->
    exists h', fold_opt f vs h = Some h'.
Proof.
  intros Hext Hf. induction vs as [|v r IH]; intros h Hr Hm; simpl.
  - eauto.
  - destruct (Hf h v Hr) as [h1 H1]; [apply Hm; [left; auto | apply ext_refl]|].
    rewrite H1. assert (E1 := Hext _ _ _ H1).
    apply IH.
    + eapply ext_ranked; eauto.
    + intros c h2 Hc E2. apply Hm; [right; auto | eapply ext_trans; eauto].
Qed.

Lemma vrank_bound h rank R v : ranked h rank R -> vrank h rank v <= R + 1.
Proof.
  intros Hr. destruct v as [a|l]; simpl; [lia|].
  destruct (lookup h l) as [o|] eqn:Hl; [|lia].
  destruct (flagged o) eqn:Hfl; [lia|].
  destruct (Hr l o Hl Hfl). lia.
Qed.

Lemma freeze_total_measure : forall rank R fuel h v,
  ranked h rank R -> measure h rank R v < fuel -> exists h', freeze fuel h v = Some h'.
Proof.
  intros rank R. induction fuel as [|f IH]; intros h v Hr Hm; [lia|]. simpl.
  destruct v as [a|l]; [eauto|].
  destruct (lookup h l) as [o|] eqn:Hl; [|eauto].
  destruct (flagged o) eqn:Hfl.
  - destruct (flag o) eqn:Hfr; [eauto|].
    set (h1 := update h l (set_flag true o)).
    assert (E1 : ext h h1) by (apply ext_mark; auto).
    assert (Hcnt : S (unfrozen_count h1) = unfrozen_count h) by (apply count_mark; auto).
    apply (fold_opt_total (freeze f) (children o) rank R f (freeze_ext_lemma f) IH h1).
    + eapply ext_ranked; eauto.
    + intros c h2 Hc E2.
      assert (Hr2 : ranked h2 rank R) by (apply (ext_ranked h h2); [apply (ext_trans _ h1); auto | auto]).
      assert (Hc2 := ext_count _ _ E2). assert (Hv := vrank_bound h2 rank R c Hr2).
      unfold measure in *. simpl in Hm. rewrite Hl, Hfl in Hm. nia.
  - apply (fold_opt_total (freeze f) (children o) rank R f (freeze_ext_lemma f) IH h Hr).
    intros c h2 Hc E2.
    assert (Hc2 := ext_count _ _ E2).
    unfold measure in *. rewrite (ext_vrank _ _ rank c E2).
    simpl in Hm. rewrite Hl, Hfl in Hm.
    assert (vrank h rank c < rank l + 1); [|nia].
    destruct c as [a|lc]; simpl; [lia|].
    destruct (lookup h lc) as [oc|] eqn:Hlc; [|lia].
    destruct (flagged oc) eqn:Hflc; [lia|].
    destruct (Hr l o Hl Hfl) as [_ Hlt]. specialize (Hlt lc oc Hc Hlc Hflc). lia.
Qed.

Lemma count_le_length h : unfrozen_count h <= length h.
Proof.
  unfold unfrozen_count. induction h as [|x t IH]; simpl; auto.
  destruct (unfrozenb x); simpl; lia.
Qed.

(* freeze_total: a stack of depth (|h| + 1) * (R + 2) suffices, for every heap
   whose unflagged objects are ranked by `rank` with maximum R *)
Lemma freeze_total_lemma : forall rank R h v,
  ranked h rank R -> exists h', freeze ((length h + 1) * (R + 2)) h v = Some h'.
Proof.
  intros rank R h v Hr. apply (freeze_total_measure rank R); auto.
  unfold measure. assert (H1 := count_le_length h). assert (H2 := vrank_bound h rank R v Hr). nia.
Qed.

Lemma freeze_globals_total_lemma : forall rank R h gs,
  ranked h rank R -> exists h', freeze_globals ((length h + 1) * (R + 2)) h gs = Some h'.
Proof.
  intros rank R h gs Hr. unfold freeze_globals.
  apply (fold_opt_total (freeze ((length h + 1) * (R + 2))) gs rank R ((length h + 1) * (R + 2))
           (freeze_ext_lemma _)); auto.
  - intros h0 v Hr0 Hm. apply (freeze_total_measure rank R); auto.
  - intros c h1 _ E1.
    assert (Hr1 : ranked h1 rank R) by (eapply ext_ranked; eauto).
    unfold measure. assert (H0 := ext_count _ _ E1).
    assert (H1 := count_le_length h). assert (H2 := vrank_bound h1 rank R c Hr1). nia.
Qed.

(* more fuel never changes the answer *)
Lemma fold_opt_mono f g vs :
  (forall h v h', f h v = Some h' -> g h v = Some h') ->
  forall h h', fold_opt f vs h = Some h' -> fold_opt g vs h = Some h'.
Proof.
  intros Hfg. induction vs as [|v r IH]; intros h h' H; simpl in *; auto.
  destruct (f h v) as [h1|] eqn:H1; [|discriminate].
  rewrite (Hfg _ _ _ H1). apply IH. exact H.
Qed.

Lemma freeze_fuel_mono : forall f1 f2 h v h', f1 <= f2 ->
  freeze f1 h v = Some h' -> freeze f2 h v = Some h'.
Proof.
  induction f1 as [|f1 IH]; intros f2 h v h' Hle H; simpl in H; [discriminate|].
  destruct f2 as [|f2]; [lia|]. simpl.
  destruct v as [a|l]; auto.
  destruct (lookup h l) as [o|]; auto.
  assert (Hmono : forall h0 v0 h0', freeze f1 h0 v0 = Some h0' -> freeze f2 h0 v0 = Some h0').
  { intros h0 v0 h0' H0. apply (IH f2 h0 v0 h0'); [lia | exact H0]. }
  destruct (flagged o); [destruct (flag o); auto|];
    apply (fold_opt_mono (freeze f1) (freeze f2) _ Hmono); exact H.
Qed.
