(* C04/Check.v -- the correspondence test evaluated by bin/check: does the
   executable model (freeze_globals, then the mutator) reproduce what the
   implementation was observed to do on this graph and this attempt? *)
From Coq Require Import List Arith Bool ZArith.
From SV Require Import C04.Heap C04.Model C04.Spec.
Import ListNotations.

Definition is_none {A} (o : option A) : bool := match o with None => true | Some _ => false end.

Definition model_probe (h' : heap) (p : probe) : bool :=
  match mutate h' (p_node p) (p_op p) with
  | Ok h2 =>
      negb (p_err p) &&
      match lookup h' (p_node p), lookup h2 (p_node p) with
      | Some o1, Some o2 =>
          match p_after p with
          | None => vals_eqb (children o2) (children o1)
          | Some vs => vals_eqb (children o2) vs
          end
      | _, _ => false
      end
  | Err _ => p_err p && is_none (p_after p)
  | Panic => false
  end.

(* a graph as described by the harness: objects, the globals defined when
   execution returned, and a stack depth that is ample for it *)
Record graph := { g_heap : heap; g_globals : list val }.

Definition g_fuel (g : graph) : nat := (length (g_heap g) + 1) * (length (g_heap g) + 2).

Definition frozen_heap (g : graph) : option heap :=
  freeze_globals (g_fuel g) (g_heap g) (g_globals g).

Definition model_ok (fh : option heap) (p : probe) : bool :=
  match fh with Some h' => model_probe h' p | None => false end.

Definition dummy_graph : graph := {| g_heap := []; g_globals := [] |}.
