(* C04/Check.v -- the correspondence test evaluated by bin/check: does the
   executable model (freeze_globals, then the mutator) reproduce what the
   implementation was observed to do on this graph and this attempt? *)
From Coq Require Import List Arith Bool ZArith.
From SV Require Import C04.Heap C04.Model C04.Spec.
Import ListNotations.

Definition is_none {A} (o : option A) : bool := match o with None => true | Some _ => false end.

Definition model_probe (h' : heap) (p : probe) : bool :=
  match mutate h' (p_node p) (p_op p) with
  | Ok h2 =>
      negb (p_err p) &&
      match lookup h' (p_node p), lookup h2 (p_node p) with
      | Some o1, Some o2 =>
          match p_after p with
          | None => vals_eqb (children o2) (children o1)
          | Some vs => vals_eqb (children o2) vs
          end
      | _, _ => false
      end
  | Err _ => p_err p && is_none (p_after p)
  | Panic => false
  end.

(* a graph as described by the harness: objects, the globals defined when
   execution returned, and a stack depth that is ample for it *)
Record graph := { g_heap : heap; g_globals : list val }.

Definition g_fuel (g : graph) : nat := (length (g_heap g) + 1) * (length (g_heap g) + 2).

Definition frozen_heap (g : graph) : option heap :=
  freeze_globals (g_fuel g) (g_heap g) (g_globals g).

Definition model_ok (fh : option heap) (p : probe) : bool :=
  match fh with Some h' => model_probe h' p | None => false end.

Definition dummy_graph : graph := {| g_heap := []; g_globals := [] |}.

(* The nested-module scenario of the harness (a module finishes while the
   function that owns a captured variable is still running):
     0: f, free variable cell 1    1: cell x -> 2    2: first value    3: value assigned later
   B's epilogue freezes from f; then (rebind) the owner assigns x := 3; then (keep)
   the owner's module A, which also binds f to a global, runs its epilogue.
   Predicts whether the value B's global reaches through the closure accepts a mutation. *)
Definition nested_heap : heap :=
  [OFunc false [] [VRef 1] 0; OCell (Some (VRef 2)); OList false 0 [VAtom 1]; OList false 0 [VAtom 2]].

Definition nested_predict (rebind keep : bool) : option bool :=
  match freeze_globals 8 nested_heap [VRef 0] with
  | None => None
  | Some h1 =>
      let h2 := if rebind then run_steps h1 [SCellSet 1 (VRef 3)] else h1 in
      match (if keep then freeze_globals 8 h2 [VRef 0] else Some h2) with
      | None => None
      | Some h3 =>
          match lookup h3 1 with
          | Some (OCell (Some (VRef x))) =>
              match mutate h3 x (GoLAppend (VAtom 3)) with Ok _ => Some true | _ => Some false end
          | _ => None
          end
      end
  end.

Definition nested_ok (c : bool * bool * bool) : bool :=
  match c with (rebind, keep, mutable) =>
    match nested_predict rebind keep with Some b => Bool.eqb b mutable | None => false end
  end.
