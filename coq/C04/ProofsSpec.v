(* C04/ProofsSpec.v -- the reachability decision of the oracle (Spec.reach_dec)
   is sound and complete for `reachable`. *)
From Coq Require Import List Arith Bool ZArith Lia Relations.
From SV Require Import C04.Heap C04.Spec.
Import ListNotations.

Lemma memb_In l s : memb l s = true <-> In l s.
Proof.
  unfold memb. rewrite existsb_exists. split.
  - intros [x [Hin Heq]]. apply Nat.eqb_eq in Heq. subst. exact Hin.
  - intros Hin. exists l. split; auto. apply Nat.eqb_refl.
Qed.

Lemma In_refs b vs : In b (refs vs) <-> In (VRef b) vs.
Proof.
  induction vs as [|[a|l] r IH]; simpl.
  - tauto.
  - rewrite IH. split; [auto|]. intros [H|H]; [discriminate|auto].
  - rewrite IH. split; intros [H|H]; auto; left; congruence.
Qed.

Lemma child_succs h a b : child h a b <-> In b (succs h a).
Proof.
  unfold child, succs. split.
  - intros [o [Hl Hc]]. rewrite Hl. apply In_refs. exact Hc.
  - destruct (lookup h a) as [o|]; [|intros []]. intros H. exists o. split; auto. apply In_refs. exact H.
Qed.

(* completeness: a set that contains the roots and is closed contains everything reachable *)
Lemma closedb_complete h roots s :
  closedb h roots s = true -> forall l, reachable h roots l -> memb l s = true.
Proof.
  unfold closedb. intros H. apply andb_true_iff in H. destruct H as [Hr Hc].
  rewrite forallb_forall in Hr, Hc.
  intros l [r [Hin Hp]].
  assert (Hrs : memb r s = true) by (apply Hr; apply In_refs; exact Hin).
  clear Hin. induction Hp as [x | x y z Hxy Hyz IH]; auto.
  apply IH. assert (Hx := Hc x (proj1 (memb_In _ _) Hrs)).
  rewrite forallb_forall in Hx. apply Hx. apply child_succs. exact Hxy.
Qed.

Lemma reach_dec_complete_lemma h roots s :
  reach_dec h roots = Some s -> forall l, reachable h roots l -> memb l s = true.
Proof.
  unfold reach_dec. destruct (closedb h roots (reach_set h roots)) eqn:Hc; [|discriminate].
  intros H. injection H as <-. apply closedb_complete. exact Hc.
Qed.

(* soundness: everything the iteration collects is reachable *)
Lemma add_all_In xs s x : In x (add_all xs s) -> In x xs \/ In x s.
Proof.
  revert s. induction xs as [|y r IH]; intros s H; simpl in H; auto.
  destruct (memb y s).
  - destruct (IH _ H); auto. left. right. auto.
  - destruct (IH _ H) as [H1|H1]; [left; right; auto|].
    apply in_app_or in H1. destruct H1 as [H1|[H1|[]]]; auto. left. left. auto.
Qed.

Definition all_reachable h roots (s : list loc) : Prop := forall x, In x s -> reachable h roots x.

Lemma reachable_step h roots a b : reachable h roots a -> child h a b -> reachable h roots b.
Proof.
  intros [r [Hin Hp]] Hc. exists r. split; auto.
  clear Hin. induction Hp as [x | x y z Hxy Hyz IH].
  - econstructor; [exact Hc|constructor].
  - econstructor; [exact Hxy | apply IH; exact Hc].
Qed.

Lemma expand_sound h roots s : all_reachable h roots s -> all_reachable h roots (expand h s).
Proof.
  unfold expand. intros Hs.
  assert (G : forall todo acc, all_reachable h roots todo -> all_reachable h roots acc ->
            all_reachable h roots (fold_left (fun acc l => add_all (succs h l) acc) todo acc)).
  { induction todo as [|t r IH]; intros acc Ht Ha; simpl; auto.
    apply IH.
    - intros x Hx. apply Ht. right. exact Hx.
    - intros x Hx. destruct (add_all_In _ _ _ Hx) as [H1|H1]; auto.
      eapply reachable_step; [apply Ht; left; reflexivity|]. apply child_succs. exact H1. }
  apply G; auto.
Qed.

Lemma iter_sound h roots n s : all_reachable h roots s -> all_reachable h roots (iter n (expand h) s).
Proof.
  revert s. induction n as [|n IH]; intros s Hs; simpl; auto.
  apply IH. apply expand_sound. exact Hs.
Qed.

Lemma reach_set_sound_lemma h roots l : memb l (reach_set h roots) = true -> reachable h roots l.
Proof.
  intros H. apply memb_In in H. revert l H. apply iter_sound.
  intros x Hx. destruct (add_all_In _ _ _ Hx) as [H1|[]].
  exists x. split; [apply In_refs; exact H1 | constructor].
Qed.

Lemma reach_dec_sound_lemma h roots s l :
  reach_dec h roots = Some s -> memb l s = true -> reachable h roots l.
Proof.
  unfold reach_dec. destruct (closedb h roots (reach_set h roots)); [|discriminate].
  intros H. injection H as <-. apply reach_set_sound_lemma.
Qed.

(* ------------------------------------------------------------------------
   The model meets the specification: whatever the model's mutators do to the
   heap the model's epilogue produced is accepted by the oracle Spec.spec_ok. *)
From SV Require Import C04.Model C04.ProofsMut C04.ProofsFreeze.

(* what an observer of the model would record *)
Definition observe (h' : heap) (l : loc) (m : mop) : probe :=
  match mutate h' l m with
  | Ok h2 =>
      {| p_node := l; p_op := m; p_err := false;
         p_after := match lookup h' l, lookup h2 l with
                    | Some o1, Some o2 =>
                        if vals_eqb (children o2) (children o1) then None else Some (children o2)
                    | _, _ => None
                    end |}
  | _ => {| p_node := l; p_op := m; p_err := true; p_after := None |}
  end.

Lemma val_eqb_refl v : val_eqb v v = true.
Proof. destruct v; simpl; [apply Z.eqb_refl | apply Nat.eqb_refl]. Qed.

Lemma vals_eqb_refl vs : vals_eqb vs vs = true.
Proof. unfold vals_eqb. induction vs; simpl; auto. rewrite val_eqb_refl, IHvs. reflexivity. Qed.

Lemma vals_eqb_length a b : vals_eqb a b = true -> length a = length b.
Proof.
  unfold vals_eqb. revert b. induction a as [|x a IH]; intros [|y b] H; simpl in *; try discriminate; auto.
  apply andb_true_iff in H. destruct H as [_ H]. f_equal. apply IH. exact H.
Qed.

Lemma ht_has_key_present k kvs : ht_has k kvs = key_present k kvs.
Proof.
  unfold key_present. induction kvs as [|[k' v] r IH]; simpl; auto.
  rewrite IH. destruct k'; simpl; auto. rewrite Z.eqb_sym. reflexivity.
Qed.

Lemma concat_nil_forallb (kss : list (list Z)) :
  (match concat kss with [] => true | _ => false end) =
  forallb (fun ks => match ks with [] => true | _ => false end) kss.
Proof.
  induction kss as [|ks r IH]; simpl; auto.
  destruct ks; simpl; auto.
Qed.

Lemma noop_case_spec h l o m :
  lookup h l = Some o -> noop_case h l m = true -> spec_noop o m = true.
Proof.
  unfold noop_case, spec_noop. intros -> H.
  destruct o; try discriminate; destruct m; try discriminate; auto.
  - rewrite <- ht_has_key_present. exact H.
  - rewrite <- concat_nil_forallb. exact H.
Qed.

Lemma spec_noop_shape o o' m : shape o' = shape o -> spec_noop o' m = spec_noop o m.
Proof.
  intros S. destruct o, o'; simpl in S; try discriminate; try (injection S; intros; subst); destruct m; reflexivity.
Qed.

Lemma observe_frozen h' l m o :
  lookup h' l = Some o -> is_frozen h' l = true ->
  let p := observe h' l m in
  p_node p = l /\ p_op p = m /\ p_after p = None /\ (p_err p = true \/ spec_noop o m = true).
Proof.
  intros Hl Hf. unfold observe.
  destruct (frozen_rejects_lemma h' l m Hf) as [[e He]|[Hk Hn]].
  - rewrite He. simpl. auto.
  - rewrite Hk. simpl. rewrite Hl, vals_eqb_refl. repeat split; auto.
    right. eapply noop_case_spec; eauto.
Qed.

Lemma mutable_kind_flagged o : mutable_kind o = true -> flagged o = true.
Proof. destruct o; simpl; auto. Qed.

Lemma model_meets_spec_lemma : forall fuel h0 gs h' s l o m,
  closed_frozen h0 ->
  freeze_globals fuel h0 gs = Some h' ->
  reach_dec h0 gs = Some s ->
  lookup h0 l = Some o ->
  spec_ok_with (Some s) h0 (observe h' l m) = true.
Proof.
  intros fuel h0 gs h' s l o m C H Hs Hl.
  assert (E := freeze_globals_ext_lemma _ _ _ _ H).
  destruct (proj2 E l o Hl) as [o' [Hl' [Sh Fl]]].
  unfold spec_ok_with.
  destruct (must_be_immutable s l o) eqn:Him.
  - (* must be immutable: the model's object is frozen *)
    assert (Hfz : is_frozen h' l = true).
    { unfold is_frozen. rewrite Hl'. destruct (mutable_kind o') eqn:Hmk; auto.
      unfold must_be_immutable in Him.
      rewrite <- (mutable_kind_shape o'), Sh, mutable_kind_shape in Hmk.
      rewrite Hmk in Him. simpl in Him. rewrite orb_false_r in Him.
      apply orb_true_iff in Him. destruct Him as [Hm|Hfo]; [|auto].
      destruct (freeze_closure_lemma _ _ _ _ C H) as [_ Hall].
      apply (Hall l o').
      - eapply reach_dec_sound_lemma; eauto.
      - exact Hl'.
      - rewrite (shape_eq_flagged _ _ Sh). apply mutable_kind_flagged. exact Hmk. }
    destruct (observe_frozen h' l m o' Hl' Hfz) as [Hn [Ho [Ha He]]].
    rewrite Hn, Hl, Him, Ha, Ho. simpl.
    destruct He as [->|Hsn]; auto. rewrite <- (spec_noop_shape _ _ m Sh), Hsn. apply orb_true_r.
  - (* not reachable, mutable kind, not frozen: the frame theorem says the object is untouched *)
    assert (Hobs : p_node (observe h' l m) = l /\ p_op (observe h' l m) = m).
    { unfold observe. destruct (mutate h' l m); simpl; auto. }
    destruct Hobs as [Hn Ho]. rewrite Hn, Hl, Him, Ho.
    unfold must_be_immutable in Him.
    apply orb_false_iff in Him. destruct Him as [Him Hfo].
    apply orb_false_iff in Him. destruct Him as [Hm Hmk]. apply negb_false_iff in Hmk.
    assert (Hnr : ~ reachable h0 gs l).
    { intros Hr. rewrite (reach_dec_complete_lemma _ _ _ Hs l Hr) in Hm. discriminate. }
    assert (Hsame : lookup h' l = Some o).
    { rewrite (freeze_frame_lemma _ _ _ _ H l Hnr). exact Hl. }
    destruct (negb (0 <? itercount o) && always_succeeds o m) eqn:Hal; auto.
    apply andb_true_iff in Hal. destruct Hal as [Hic Has].
    apply negb_true_iff in Hic. apply Nat.ltb_ge in Hic.
    assert (Hlt : l < length h') by (eapply lookup_lt; eauto).
    unfold observe, mutate. rewrite Hsame.
    destruct o; simpl in Hmk, Hfo, Hic, Has; try discriminate; subst;
      assert (ic = 0) by lia; subst ic;
      destruct m; try discriminate; unfold mutate_list, mutate_dict, mutate_set, with_check; simpl;
      repeat match goal with
             | |- context [if ?c then _ else _] => destruct c eqn:?
             | |- context [match ?c with [] => _ | _ :: _ => _ end] => destruct c eqn:?
             end; simpl;
      rewrite ?Hsame, ?lookup_update_same by exact Hlt; simpl;
      try reflexivity;
      repeat match goal with
             | |- context [if ?c then _ else _] => destruct c eqn:?
             end; simpl; rewrite ?vals_eqb_refl; try reflexivity;
      try (match goal with Hv : vals_eqb _ _ = true |- _ => apply vals_eqb_length in Hv; simpl in Hv;
             rewrite ?app_length in Hv; simpl in Hv; lia end).
Qed.
