(* C04/Heap.v -- object graphs of the Starlark value world (shared with C05).

   A heap is a finite map  loc -> obj  (a list indexed by position).  An object
   is one of the kinds whose Freeze method the property speaks about:

     list / dict / set          starlark/value.go List, Dict, Set (hashtable.go)
     struct                     starlarkstruct/struct.go Struct
     function                   starlark/value.go Function (defaults, freevars = cells, module)
     tuple                      starlark/value.go Tuple
     cell                       starlark/interp.go cell
     builtin with receiver      starlark/value.go Builtin (recv)
     opaque                     any host value the model does not open (immutable, no children)

   Values stored in objects are either atoms (None, bool, int, float, string,
   bytes, range, ...: immutable, Freeze is a no-op, identified by an integer)
   or references.  `frozen` flags and `itercount` are fields of exactly the
   kinds that have them in the code.  A reference to a location outside the
   heap is treated like an opaque host value (no children, nothing to freeze). *)
From Coq Require Import List Arith Bool ZArith Relations.
Import ListNotations.

Definition loc := nat.

Inductive val :=
| VAtom (a : Z)
| VRef (l : loc).

Inductive obj :=
| OList (fr : bool) (ic : nat) (es : list val)
| ODict (fr : bool) (ic : nat) (kvs : list (val * val))
| OSet (fr : bool) (ic : nat) (ks : list val)
| OStruct (fr : bool) (fs : list (nat * val))          (* field name id, value *)
| OFunc (fr : bool) (defaults : list val) (freevars : list val) (modl : nat)
| OTuple (es : list val)
| OCell (c : option val)
| OBuiltin (name : nat) (recv : option val)
| OOpaque.

Definition heap := list obj.

Definition lookup (h : heap) (l : loc) : option obj := nth_error h l.

Fixpoint update (h : heap) (l : loc) (o : obj) : heap :=
  match h, l with
  | [], _ => []
  | _ :: t, O => o :: t
  | x :: t, S n => x :: update t n o
  end.

Definition alloc (h : heap) (o : obj) : heap := h ++ [o].

Definition opt_list {A} (o : option A) : list A :=
  match o with Some x => [x] | None => [] end.

Fixpoint flat_pairs (kvs : list (val * val)) : list val :=
  match kvs with
  | [] => []
  | (k, v) :: r => k :: v :: flat_pairs r
  end.

(* The values an object holds, in the order Freeze visits them. *)
Definition children (o : obj) : list val :=
  match o with
  | OList _ _ es => es
  | ODict _ _ kvs => flat_pairs kvs            (* keys AND values *)
  | OSet _ _ ks => ks
  | OStruct _ fs => map snd fs
  | OFunc _ ds fvs _ => ds ++ fvs              (* defaults, then free-variable cells *)
  | OTuple es => es
  | OCell c => opt_list c
  | OBuiltin _ r => opt_list r
  | OOpaque => []
  end.

(* Kinds that carry a frozen flag in the code. *)
Definition flagged (o : obj) : bool :=
  match o with
  | OList _ _ _ | ODict _ _ _ | OSet _ _ _ | OStruct _ _ | OFunc _ _ _ _ => true
  | _ => false
  end.

(* Kinds that have mutators at all. *)
Definition mutable_kind (o : obj) : bool :=
  match o with
  | OList _ _ _ | ODict _ _ _ | OSet _ _ _ => true
  | _ => false
  end.

Definition flag (o : obj) : bool :=
  match o with
  | OList fr _ _ | ODict fr _ _ | OSet fr _ _ | OStruct fr _ | OFunc fr _ _ _ => fr
  | _ => false
  end.

Definition set_flag (b : bool) (o : obj) : obj :=
  match o with
  | OList _ ic es => OList b ic es
  | ODict _ ic kvs => ODict b ic kvs
  | OSet _ ic ks => OSet b ic ks
  | OStruct _ fs => OStruct b fs
  | OFunc _ ds fvs m => OFunc b ds fvs m
  | o => o
  end.

(* Everything but the frozen flag. *)
Definition shape (o : obj) : obj := set_flag true o.

Definition itercount (o : obj) : nat :=
  match o with
  | OList _ ic _ | ODict _ ic _ | OSet _ ic _ => ic
  | _ => 0
  end.

(* The edge relation and reachability. *)
Definition child (h : heap) (a b : loc) : Prop :=
  exists o, lookup h a = Some o /\ In (VRef b) (children o).

Definition reach (h : heap) : loc -> loc -> Prop := clos_refl_trans_1n loc (child h).

Definition reachable (h : heap) (roots : list val) (b : loc) : Prop :=
  exists r, In (VRef r) roots /\ reach h r b.

(* frozen, as an observer would define it: a flagged object whose flag is set *)
Definition frozen_at (h : heap) (l : loc) : bool :=
  match lookup h l with
  | Some o => flagged o && flag o
  | None => false
  end.

(* ---- decidable equality, used by specifications and checks ---- *)
Definition val_eqb (x y : val) : bool :=
  match x, y with
  | VAtom a, VAtom b => Z.eqb a b
  | VRef a, VRef b => Nat.eqb a b
  | _, _ => false
  end.

Fixpoint list_eqb {A} (eqb : A -> A -> bool) (x y : list A) : bool :=
  match x, y with
  | [], [] => true
  | a :: r, b :: s => eqb a b && list_eqb eqb r s
  | _, _ => false
  end.

Definition opt_eqb {A} (eqb : A -> A -> bool) (x y : option A) : bool :=
  match x, y with
  | None, None => true
  | Some a, Some b => eqb a b
  | _, _ => false
  end.

Definition pair_eqb (x y : val * val) : bool := val_eqb (fst x) (fst y) && val_eqb (snd x) (snd y).
Definition field_eqb (x y : nat * val) : bool := Nat.eqb (fst x) (fst y) && val_eqb (snd x) (snd y).

Definition obj_eqb (x y : obj) : bool :=
  match x, y with
  | OList f i e, OList f' i' e' => Bool.eqb f f' && Nat.eqb i i' && list_eqb val_eqb e e'
  | ODict f i e, ODict f' i' e' => Bool.eqb f f' && Nat.eqb i i' && list_eqb pair_eqb e e'
  | OSet f i e, OSet f' i' e' => Bool.eqb f f' && Nat.eqb i i' && list_eqb val_eqb e e'
  | OStruct f e, OStruct f' e' => Bool.eqb f f' && list_eqb field_eqb e e'
  | OFunc f d v m, OFunc f' d' v' m' =>
      Bool.eqb f f' && list_eqb val_eqb d d' && list_eqb val_eqb v v' && Nat.eqb m m'
  | OTuple e, OTuple e' => list_eqb val_eqb e e'
  | OCell c, OCell c' => opt_eqb val_eqb c c'
  | OBuiltin n r, OBuiltin n' r' => Nat.eqb n n' && opt_eqb val_eqb r r'
  | OOpaque, OOpaque => true
  | _, _ => false
  end.

Definition heap_eqb (x y : heap) : bool := list_eqb obj_eqb x y.

(* ---- the vocabulary of mutating operations (shared by Model and Spec) ----
   Arguments that are hashed or compared (keys, the operand of remove) are
   atoms (Z); stored payloads are arbitrary values. *)
Inductive mop :=
(* list: the methods of listMethods (library.go) *)
| LAppend (v : val) | LClear | LExtend (vs : list val) | LInsert (i : Z) (v : val)
| LPop (i : option Z) | LRemove (a : Z)
(* list: interpreter opcodes SETINDEX (x[i] = v) and INPLACE_ADD (x += iterable) *)
| LSetIndex (i : Z) (v : val) | LInplaceAdd (vs : list val)
(* list: Go API  List.Append / Clear / SetIndex *)
| GoLAppend (v : val) | GoLClear | GoLSetIndex (i : nat) (v : val)
(* dict: the methods of dictMethods *)
| DClear | DPop (k : Z) (d : option val) | DPopitem | DSetdefault (k : Z) (d : val)
| DUpdate (kvs : list (Z * val))
(* dict: SETINDEX / SETDICT (d[k] = v), INPLACE_PIPE (d |= dict) *)
| DSetKey (k : Z) (v : val) | DInplacePipe (kvs : list (Z * val))
(* dict: Go API Dict.SetKey / Delete / Clear *)
| GoDSetKey (k : Z) (v : val) | GoDDelete (k : Z) | GoDClear
(* set: the methods of setMethods *)
| SAdd (k : Z) | SClear | SDiscard (k : Z) | SPop | SRemove (k : Z) | SUpdate (kss : list (list Z))
(* set: Go API Set.Insert / Delete / Clear *)
| GoSInsert (k : Z) | GoSDelete (k : Z) | GoSClear
(* x.f = v: no value kind of the model implements HasSetField *)
| XSetField (f : nat) (v : val).


Inductive step :=
| SMut (l : loc) (o : mop)        (* any mutator applied to any object *)
| SAlloc (o : obj)                (* a new object is created (by running code) *)
| SCellSet (c : loc) (v : val).   (* interp.go SETLOCALCELL: a function that is still running assigns
                                     one of its local variables that inner functions captured *)

