(* C04 -- property theorems only.  Each is closed by `exact <lemma>`; axioms are
   printed by the audit step of bin/check (Print Assumptions per theorem).

   Vocabulary (Heap.v): a heap is a finite map loc -> obj over the kinds list,
   dict, set, struct, function, tuple, cell, builtin-with-receiver, opaque;
   `child` follows list/tuple elements, dict keys AND values, set members,
   struct fields, function defaults and free-variable cells, cell contents and
   bound-method receivers; `reachable h roots l` is its reflexive-transitive
   closure from the roots.  Model.v: `freeze` (the Freeze methods, recursion
   depth bounded by fuel, None = the stack is exhausted), `freeze_globals` (the
   module epilogue), `mutate` (every mutator, with checkMutable where the code
   has it), `run_steps` (any sequence of mutators and allocations). *)
From Coq Require Import List Arith Bool ZArith Lia.
From SV Require Import C04.Heap C04.Model C04.Spec C04.ProofsMut C04.ProofsFreeze C04.ProofsTotal C04.ProofsSpec C04.History.
Import ListNotations.

(* freeze_closure.  When the module epilogue returns -- whichever globals were
   defined, in whichever order the map yields them -- every object with a frozen
   flag (list, dict, set, struct, function) that is reachable from the globals
   has its flag set, for ALL finite heaps: shared, nested, cyclic.
   Premise closed_frozen: values that were frozen BEFORE (by an earlier
   module or by the host) were frozen deeply; it holds trivially when nothing
   is frozen yet (nothing_frozen_closed) and is re-established by the epilogue,
   so it is an invariant of module-after-module execution.  (What can break it
   is a cell being re-assigned after the function holding it was frozen, which
   needs a module to end while a function of another, still running, module is
   active -- see the report.) *)
Theorem freeze_closure :
  forall fuel h globals h',
    closed_frozen h ->
    freeze_globals fuel h globals = Some h' ->
    closed_frozen h' /\
    forall l o, reachable h globals l -> lookup h' l = Some o -> flagged o = true -> flag o = true.
Proof. exact freeze_closure_lemma. Qed.

Theorem nothing_frozen_is_closed :
  forall h, (forall l o, lookup h l = Some o -> flagged o = true -> flag o = false) -> closed_frozen h.
Proof. exact nothing_frozen_closed. Qed.

(* freeze_total.  The epilogue does return: a Go stack of depth
   (|h|+1)*(R+2) suffices for every heap whose objects WITHOUT a flag (tuple,
   cell, builtin) are not cyclic among themselves (`ranked`, with chains of
   length at most R).  This is what the frozen flag on Function buys; on the
   pinned tree it fails (pinned_function_freeze_diverges below). *)
Theorem freeze_total :
  forall rank R h globals,
    ranked h rank R ->
    exists h', freeze_globals ((length h + 1) * (R + 2)) h globals = Some h'.
Proof. exact freeze_globals_total_lemma. Qed.

(* The pinned tree (Function without a flag): for the heap of
   `def outer(): def f(): return f ...; g = outer()` NO stack depth suffices. *)
Theorem pinned_function_freeze_diverges :
  forall fuel, old_freeze fuel self_closure (VRef 0) = None.
Proof. exact (fun fuel => proj1 (old_freeze_diverges_lemma fuel)). Qed.

(* freeze_frame.  Objects not reachable from the globals keep their flags and
   their contents (they stay mutable if they were). *)
Theorem freeze_frame :
  forall fuel globals h h',
    freeze_globals fuel h globals = Some h' ->
    forall l, ~ reachable h globals l -> lookup h' l = lookup h l.
Proof. exact freeze_frame_lemma. Qed.

(* frozen is monotone and Freeze changes nothing but flags: every object keeps
   its kind, itercount and contents (`shape` erases only the flag). *)
Theorem freeze_only_sets_flags :
  forall fuel h globals h',
    freeze_globals fuel h globals = Some h' ->
    length h' = length h /\
    forall l o, lookup h l = Some o ->
      exists o', lookup h' l = Some o' /\ shape o' = shape o /\ (flag o = true -> flag o' = true).
Proof. exact freeze_globals_ext_lemma. Qed.

(* frozen_rejects.  Every mutator applied to a frozen object (or to an object of
   a kind without mutators) returns an error, or is one of the four written-out
   cases in which it has nothing to do -- and then the heap is the same heap. *)
Theorem frozen_rejects :
  forall h l o,
    is_frozen h l = true ->
    (exists e, mutate h l o = Err e) \/ (mutate h l o = Ok h /\ noop_case h l o = true).
Proof. exact frozen_rejects_lemma. Qed.

(* no_op_changes_frozen.  Over ALL sequences of mutators (applied to any
   objects, frozen or not), allocations and assignments of captured variables,
   a frozen object keeps flag, itercount and contents.  (A cell is not an object
   with a frozen flag; it is covered by the next theorems.) *)
Theorem no_op_changes_frozen :
  forall steps h l,
    is_frozen h l = true -> is_cell h l = false -> lookup (run_steps h steps) l = lookup h l.
Proof. exact frozen_stays_lemma. Qed.

(* ... and if everything reachable from some roots is frozen, the whole
   reachable subgraph -- objects and edges -- is preserved.
   FULL statement (for all step sequences): refuted below.  Proved here with the
   guard `no_cell_set steps`: no function that is still running re-assigns a
   variable captured by a closure.  Starlark code run AFTER the module finished
   cannot do that to a variable of the finished module (there is no nonlocal
   assignment, and the activations that own the variables have returned); a host
   that lets a module finish while the owner is still running can. *)
Theorem frozen_subgraph_stable_partial :
  forall steps h roots,
    no_cell_set steps = true ->
    (forall l, reachable h roots l -> is_frozen h l = true) ->
    forall l, reachable h roots l ->
      lookup (run_steps h steps) l = lookup h l /\ reachable (run_steps h steps) roots l.
Proof. exact reach_frozen_closed_lemma. Qed.

(* The property, composed: after the module epilogue no sequence of operations
   changes any object reachable from the globals.  Same guard. *)
Lemma module_values_immutable_lemma :
  forall fuel h globals h' steps,
    no_cell_set steps = true ->
    closed_frozen h ->
    freeze_globals fuel h globals = Some h' ->
    forall l o, reachable h globals l -> lookup h' l = Some o ->
      lookup (run_steps h' steps) l = Some o.
Proof.
  intros fuel h globals h' steps Hn C H l o Hr Hl.
  rewrite <- Hl. apply frozen_stays_nocell_lemma; auto.
  unfold is_frozen. rewrite Hl.
  destruct (mutable_kind o) eqn:Hm; auto.
  destruct (freeze_closure_lemma _ _ _ _ C H) as [_ Hall].
  apply (Hall l o Hr Hl). destruct o; simpl in *; auto; discriminate.
Qed.

Theorem module_values_immutable_partial :
  forall fuel h globals h' steps,
    no_cell_set steps = true ->
    closed_frozen h ->
    freeze_globals fuel h globals = Some h' ->
    forall l o, reachable h globals l -> lookup h' l = Some o ->
      lookup (run_steps h' steps) l = Some o.
Proof. exact module_values_immutable_lemma. Qed.

(* The full statement is FALSE for the code as it is (finding
   "closure-variable-rebound-after-freeze"): module B is run by a built-in that
   a function `outer` of module A calls with its inner function f (which
   captures outer's variable x); B binds f to a global and finishes: f and the
   list x holds are frozen.  Then `outer` continues with  x = [2] : the cell of
   the frozen closure now holds a fresh mutable list, which is reachable from
   B's global and accepts append.
     0: f = function, free variable cell 1     1: cell x, holding list 2
     2: [1]                                    3: [2], created by outer afterwards *)
Definition rebind_heap : heap :=
  [OFunc false [] [VRef 1] 0; OCell (Some (VRef 2)); OList false 0 [VAtom 1]; OList false 0 [VAtom 2]].
Definition rebind_steps : list step := [SCellSet 1 (VRef 3); SMut 3 (LAppend (VAtom 3))].

Lemma rebind_refutes :
  exists h' : heap,
    closed_frozen rebind_heap /\
    freeze_globals 8 rebind_heap [VRef 0] = Some h' /\
    (* the captured variable, reachable from the global, changed ... *)
    reachable rebind_heap [VRef 0] 1 /\
    lookup h' 1 = Some (OCell (Some (VRef 2))) /\
    lookup (run_steps h' rebind_steps) 1 = Some (OCell (Some (VRef 3))) /\
    (* ... and a list reachable from the global is not frozen and was appended to *)
    reachable (run_steps h' rebind_steps) [VRef 0] 3 /\
    lookup (run_steps h' rebind_steps) 3 = Some (OList false 0 [VAtom 2; VAtom 3]).
Proof.
  eexists. split; [|split; [reflexivity|]].
  - apply nothing_frozen_closed. intros l o Hl Hfl.
    do 4 (destruct l as [|l]; [simpl in Hl; injection Hl as <-; simpl in *; congruence|]).
    destruct l; discriminate.
  - assert (P1 : forall hh, lookup hh 0 = Some (OFunc true [] [VRef 1] 0) -> reach hh 0 1).
    { intros hh H0. apply Relation_Operators.rt1n_trans with 1; [eexists; split; [exact H0|simpl; auto]|].
      apply Relation_Operators.rt1n_refl. }
    repeat split; try reflexivity.
    + exists 0. split; [left; reflexivity|].
      apply Relation_Operators.rt1n_trans with 1; [eexists; split; [reflexivity|simpl; auto]|].
      apply Relation_Operators.rt1n_refl.
    + exists 0. split; [left; reflexivity|].
      apply Relation_Operators.rt1n_trans with 1; [eexists; split; [reflexivity|simpl; auto]|].
      apply Relation_Operators.rt1n_trans with 3; [eexists; split; [reflexivity|simpl; auto]|].
      apply Relation_Operators.rt1n_refl.
Qed.

Theorem module_values_immutable_refuted :
  exists fuel h globals h' steps l o,
    closed_frozen h /\
    freeze_globals fuel h globals = Some h' /\
    reachable h globals l /\ lookup h' l = Some o /\
    lookup (run_steps h' steps) l <> Some o.
Proof.
  destruct rebind_refutes as [h' [C [F [R [L1 [L2 _]]]]]].
  exists 8, rebind_heap, [VRef 0], h', rebind_steps, 1, (OCell (Some (VRef 2))).
  repeat split; auto. rewrite L2. discriminate.
Qed.

Theorem frozen_module_reaches_mutable_value_refuted :
  exists fuel h globals h' steps l es,
    closed_frozen h /\
    freeze_globals fuel h globals = Some h' /\
    reachable (run_steps h' steps) globals l /\
    lookup (run_steps h' steps) l = Some (OList false 0 es).
Proof.
  destruct rebind_refutes as [h' [C [F [_ [_ [_ [R L]]]]]]].
  exists 8, rebind_heap, [VRef 0], h', rebind_steps, 3, [VAtom 2; VAtom 3]. auto.
Qed.

(* The oracle of the correspondence check (Spec.reach_dec, a bounded iteration
   that is accepted only if its result is closed under the edge relation)
   decides `reachable` exactly. *)
Theorem oracle_reachability_complete :
  forall h roots s, reach_dec h roots = Some s -> forall l, reachable h roots l -> memb l s = true.
Proof. exact reach_dec_complete_lemma. Qed.

Theorem oracle_reachability_sound :
  forall h roots s l, reach_dec h roots = Some s -> memb l s = true -> reachable h roots l.
Proof. exact reach_dec_sound_lemma. Qed.

(* The model meets the specification used as the oracle: whatever Model.mutate
   does to the heap Model.freeze_globals produced is accepted by Spec.spec_ok --
   objects reachable from the globals reject (or do nothing), objects that are
   not reachable are untouched by the epilogue and still accept what a mutable
   object accepts (append appends, clear clears). *)
Theorem model_meets_spec :
  forall fuel h0 globals h' s l o m,
    closed_frozen h0 ->
    freeze_globals fuel h0 globals = Some h' ->
    reach_dec h0 globals = Some s ->
    lookup h0 l = Some o ->
    spec_ok_with (Some s) h0 (observe h' l m) = true.
Proof. exact model_meets_spec_lemma. Qed.

(* ------------------------------------------------------------------------
   The hypotheses are satisfiable on a non-trivial heap:
     0: list [1, ref 1, ref 0]            (cyclic: contains itself)
     1: dict {ref 2: ref 3}               (key: a bound method, value: a closure)
     2: builtin append bound to list 0
     3: function, default ref 4, free variable cell 5
     4: set {7}
     5: cell holding the function 3 itself (the repaired cycle)
     6: list [9]                          (not reachable from the global: stays mutable)
   global: ref 0. *)
Definition ex_heap : heap :=
  [ OList false 0 [VAtom 1; VRef 1; VRef 0];
    ODict false 0 [(VRef 2, VRef 3)];
    OBuiltin 0 (Some (VRef 0));
    OFunc false [VRef 4] [VRef 5] 0;
    OSet false 0 [VAtom 7];
    OCell (Some (VRef 3));
    OList false 0 [VAtom 9] ].

Definition ex_frozen : heap :=
  [ OList true 0 [VAtom 1; VRef 1; VRef 0];
    ODict true 0 [(VRef 2, VRef 3)];
    OBuiltin 0 (Some (VRef 0));
    OFunc true [VRef 4] [VRef 5] 0;
    OSet true 0 [VAtom 7];
    OCell (Some (VRef 3));
    OList false 0 [VAtom 9] ].

Example ex_closed : closed_frozen ex_heap.
Proof.
  apply nothing_frozen_closed. intros l o Hl Hfl.
  do 7 (destruct l as [|l]; [simpl in Hl; injection Hl as <-; simpl in *; congruence|]).
  destruct l; discriminate.
Qed.

Example ex_freeze : freeze_globals 8 ex_heap [VRef 0] = Some ex_frozen.
Proof. reflexivity. Qed.

Example ex_reachable_set : reachable ex_heap [VRef 0] 4.
Proof.
  exists 0. split; [left; reflexivity|].
  apply Relation_Operators.rt1n_trans with 1; [eexists; split; [reflexivity|simpl; auto]|].
  apply Relation_Operators.rt1n_trans with 3; [eexists; split; [reflexivity|simpl; auto]|].
  apply Relation_Operators.rt1n_trans with 4; [eexists; split; [reflexivity|simpl; auto]|].
  apply Relation_Operators.rt1n_refl.
Qed.

Example ex_ranked : ranked ex_heap (fun l => match l with 5 => 1 | _ => 0 end) 1.
Proof.
  intros l o Hl Hfl.
  do 7 (destruct l as [|l]; [simpl in Hl; injection Hl as <-; simpl in *; try discriminate;
        (split; [lia|]; intros c oc [Hc|[]] Hlc Hfc; injection Hc as <-; simpl in Hlc; injection Hlc as <-;
         simpl in Hfc; discriminate)|]).
  destruct l; discriminate.
Qed.

Example ex_frozen_rejects : mutate ex_frozen 0 (LAppend (VAtom 5)) = Err EFrozen
                         /\ mutate ex_frozen 4 (SAdd 8) = Err EFrozen
                         /\ mutate ex_frozen 1 (DSetdefault 99 (VAtom 0)) = Err EFrozen
                         /\ is_frozen ex_frozen 0 = true.
Proof. repeat split; reflexivity. Qed.

Example ex_unreachable_still_mutable :
  mutate ex_frozen 6 (LAppend (VAtom 5)) =
  Ok (update ex_frozen 6 (OList false 0 [VAtom 9; VAtom 5])).
Proof. reflexivity. Qed.

Example ex_noop_case : mutate [OSet true 0 []] 0 SClear = Ok [OSet true 0 []]
                    /\ noop_case [OSet true 0 []] 0 SClear = true.
Proof. split; reflexivity. Qed.

Example ex_reach_dec : reach_dec ex_heap [VRef 0] = Some [0; 1; 2; 3; 4; 5].
Proof. reflexivity. Qed.

Example ex_model_meets_spec :
  spec_ok ex_heap [VRef 0] (observe ex_frozen 6 (LAppend (VAtom 5))) = true /\
  spec_ok ex_heap [VRef 0] (observe ex_frozen 4 (SAdd 8)) = true /\
  p_err (observe ex_frozen 4 (SAdd 8)) = true.
Proof. repeat split; reflexivity. Qed.

Example ex_partial_guard :
  no_cell_set [SMut 0 (LAppend (VAtom 5)); SAlloc (OList false 0 []); SMut 6 LClear] = true /\
  lookup (run_steps ex_frozen [SMut 0 (LAppend (VAtom 5)); SAlloc (OList false 0 []); SMut 6 LClear]) 0
    = lookup ex_frozen 0.
Proof. split; reflexivity. Qed.
