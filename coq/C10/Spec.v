(* C10 -- specification of Starlark integers: they are the mathematical integers
   (Coq's Z).  Independent of the implementation model (imports only the
   operator names).  Floor division and modulo are Z.div / Z.modulo, which Coq's
   library defines by  a = b * (a / b) + a mod b  with the remainder taking the
   sign of the divisor; shifts are multiplication / floor division by 2^n. *)
From Coq Require Import ZArith Bool List.
From SV Require Import Common.GoInt C10.Model.
Open Scope Z_scope.

(* None = the operation must fail (division by zero, shift count negative or
   unreasonably large).  Shift counts: << accepts 0..511, >> any count that fits
   in 32 bits (doc/spec.md: implementation limit). *)
Definition spec_binary (o : binop) (x y : Z) : option Z :=
  match o with
  | ADD => Some (x + y)
  | SUB => Some (x - y)
  | MUL => Some (x * y)
  | FLOORDIV => if y =? 0 then None else Some (x / y)
  | MOD => if y =? 0 then None else Some (x mod y)
  | AND => Some (Z.land x y)
  | OR => Some (Z.lor x y)
  | XOR => Some (Z.lxor x y)
  | LSH => if (y <? 0) || (512 <=? y) then None else Some (x * 2 ^ y)
  | RSH => if (y <? 0) || (max_int32 <? y) then None else Some (x / 2 ^ y)
  end.

Definition spec_unary (o : unop) (x : Z) : Z :=
  match o with UPLUS => x | UMINUS => - x | UNOT => - x - 1 end.

Definition spec_compare (c : cmpop) (x y : Z) : bool :=
  match c with
  | EQL => x =? y | NEQ => negb (x =? y)
  | LT => x <? y | LE => x <=? y | GT => y <? x | GE => y <=? x
  end.

Definition sign_of (z : Z) : Z := if z <? 0 then -1 else if z =? 0 then 0 else 1.
