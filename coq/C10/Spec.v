(* C10 -- specification of Starlark integers: they are the mathematical integers
   (Coq's Z).  Independent of the implementation model (imports only the
   operator names).  Floor division and modulo are Z.div / Z.modulo, which Coq's
   library defines by  a = b * (a / b) + a mod b  with the remainder taking the
   sign of the divisor; shifts are multiplication / floor division by 2^n. *)
From Coq Require Import ZArith Bool List.
From SV Require Import Common.GoInt C10.Model.
Open Scope Z_scope.

(* None = the operation must fail (division by zero, shift count negative or
   unreasonably large).  Shift counts: << accepts 0..511, >> any count that fits
   in 32 bits (doc/spec.md: implementation limit). *)
Definition spec_binary (o : binop) (x y : Z) : option Z :=
  match o with
  | ADD => Some (x + y)
  | SUB => Some (x - y)
  | MUL => Some (x * y)
  | FLOORDIV => if y =? 0 then None else Some (x / y)
  | MOD => if y =? 0 then None else Some (x mod y)
  | AND => Some (Z.land x y)
  | OR => Some (Z.lor x y)
  | XOR => Some (Z.lxor x y)
  | LSH => if (y <? 0) || (512 <=? y) then None else Some (x * 2 ^ y)
  | RSH => if (y <? 0) || (max_int32 <? y) then None else Some (x / 2 ^ y)
  end.

Definition spec_unary (o : unop) (x : Z) : Z :=
  match o with UPLUS => x | UMINUS => - x | UNOT => - x - 1 end.

Definition spec_compare (c : cmpop) (x y : Z) : bool :=
  match c with
  | EQL => x =? y | NEQ => negb (x =? y)
  | LT => x <? y | LE => x <=? y | GT => y <? x | GE => y <=? x
  end.

Definition sign_of (z : Z) : Z := if z <? 0 then -1 else if z =? 0 then 0 else 1.

(* =====================================================================
   range(start, stop, step), step <> 0: the sequence start, start+step, ...
   of all values strictly before stop (in the direction of step).
   ===================================================================== *)

(* x lies on the stop-side bound *)
Definition before_stop (stop step x : Z) : Prop := (0 < step -> x < stop) /\ (step < 0 -> stop < x).

(* the i-th element *)
Definition seq_at (start step i : Z) : Z := start + i * step.

(* number of elements (characterised by seq_len_char in ProofsRange: for i >= 0,
   i < seq_len <-> before_stop (seq_at i)) *)
Definition seq_len (start stop step : Z) : Z :=
  if 0 <? step then (if start <? stop then (stop - start - 1) / step + 1 else 0)
  else if step <? 0 then (if stop <? start then (start - stop - 1) / (- step) + 1 else 0)
  else 0.

(* membership, as a proposition and decided *)
Definition seq_mem (start stop step x : Z) : Prop :=
  exists i, 0 <= i /\ x = seq_at start step i /\ before_stop stop step x.

Definition seq_has (start stop step x : Z) : bool :=
  let d := x - start in
  (d mod step =? 0) && (0 <=? d / step) && (d / step <? seq_len start stop step).

Definition seq_list (start stop step : Z) : list Z :=
  map (fun i => seq_at start step (Z.of_nat i)) (seq 0 (Z.to_nat (seq_len start stop step))).

(* Python slice index normalisation for a sequence of length n, step k <> 0:
   (first index, count) of the selected indices first, first+k, ... *)
Definition norm_index (n : Z) (v : option Z) (dflt lo hi : Z) : Z :=
  match v with
  | None => dflt
  | Some z => let z := if z <? 0 then z + n else z in if z <? lo then lo else if hi <? z then hi else z
  end.

Definition opt_in32 (v : option Z) : bool := match v with Some z => in_int32 z | None => true end.

Definition slice_sel (n : Z) (lo hi : option Z) (k : Z) : Z * Z :=
  if 0 <? k then
    let s := norm_index n lo 0 0 n in let e := norm_index n hi n 0 n in
    (s, seq_len s e k)
  else
    let s := norm_index n lo (n - 1) (-1) (n - 1) in let e := norm_index n hi (-1) (-1) (n - 1) in
    (s, seq_len s e k).

(* =====================================================================
   floats: a finite binary64 value is (signed mantissa m) * 2^e
   ===================================================================== *)
Import Floats.SpecFloat.

Definition float_me (f : spec_float) : option (Z * Z) :=
  match f with
  | S754_zero _ => Some (0, 0)
  | S754_finite s m e => Some ((if s then Zneg m else Zpos m), e)
  | _ => None
  end.

(* truncation towards zero, floor and ceiling of m * 2^e *)
Definition trunc_me (m e : Z) : Z := if 0 <=? e then m * 2 ^ e else Z.quot m (2 ^ (- e)).
Definition floor_me (m e : Z) : Z := if 0 <=? e then m * 2 ^ e else m / 2 ^ (- e).
Definition ceil_me (m e : Z) : Z := if 0 <=? e then m * 2 ^ e else - ((- m) / 2 ^ (- e)).
Definition integral_me (m e : Z) : bool := if 0 <=? e then true else m mod 2 ^ (- e) =? 0.

(* x compared with m * 2^e, exactly *)
Definition cmp_Z_me (x m e : Z) : comparison :=
  if 0 <=? e then x ?= m * 2 ^ e else (x * 2 ^ (- e)) ?= m.

(* the documented total order: NaN is above everything, +-inf beyond every int *)
Definition spec_cmp_int_float (x : Z) (f : spec_float) : comparison :=
  match f with
  | S754_nan => Lt
  | S754_infinity s => if s then Gt else Lt
  | _ => match float_me f with Some (m, e) => cmp_Z_me x m e | None => Eq end
  end.

Definition holds (c : cmpop) (k : comparison) : bool :=
  match c, k with
  | EQL, Eq => true | EQL, _ => false
  | NEQ, Eq => false | NEQ, _ => true
  | LT, Lt => true | LT, _ => false
  | LE, Gt => false | LE, _ => true
  | GT, Gt => true | GT, _ => false
  | GE, Lt => false | GE, _ => true
  end.

Definition spec_compare_if (c : cmpop) (x : Z) (f : spec_float) : bool := holds c (spec_cmp_int_float x f).
Definition spec_compare_fi (c : cmpop) (f : spec_float) (x : Z) : bool := holds c (CompOpp (spec_cmp_int_float x f)).

(* int(float), math.floor, math.ceil: None = must fail (NaN, infinities) *)
Definition spec_int_of_float (f : spec_float) : option Z :=
  match float_me f with Some (m, e) => Some (trunc_me m e) | None => None end.
Definition spec_floor (f : spec_float) : option Z :=
  match float_me f with Some (m, e) => Some (floor_me m e) | None => None end.
Definition spec_ceil (f : spec_float) : option Z :=
  match float_me f with Some (m, e) => Some (ceil_me m e) | None => None end.

(* x in range(...): an int by its value; a float only if it is integral *)
Definition spec_range_has (start stop step : Z) (y : num) : option bool :=
  match y with
  | NInt z => Some (seq_has start stop step z)
  | NFloat f =>
      match float_me f with
      | Some (m, e) => Some (integral_me m e && seq_has start stop step (trunc_me m e))
      | None => None
      end
  end.

(* =====================================================================
   text: int(string, base) per doc/spec.md -- optional sign, then either
   (base 0) an integer literal with optional 0x/0o/0b prefix, or (explicit base)
   an optional matching prefix followed by at least one digit of the base.
   Strings are lists of bytes.  base is 0 or 2..36 (validated by the caller).
   ===================================================================== *)
Import ListNotations.

Definition spec_digit (c : Z) : Z :=
  if (48 <=? c) && (c <=? 57) then c - 48
  else if (97 <=? c) && (c <=? 122) then c - 97 + 10
  else if (65 <=? c) && (c <=? 90) then c - 65 + 10
  else -1.

Definition spec_digits (base : Z) (s : list Z) : option Z :=
  match s with
  | [] => None
  | _ => if forallb (fun c => (0 <=? spec_digit c) && (spec_digit c <? base)) s
         then Some (fold_left (fun acc c => acc * base + spec_digit c) s 0)
         else None
  end.

Definition spec_prefix (body : list Z) : Z :=
  match body with
  | c0 :: c1 :: _ =>
      if c0 =? 48 then
        if (c1 =? 120) || (c1 =? 88) then 16
        else if (c1 =? 111) || (c1 =? 79) then 8
        else if (c1 =? 98) || (c1 =? 66) then 2 else 0
      else 0
  | _ => 0
  end.

Definition spec_parse (s : list Z) (base : Z) : option Z :=
  let '(sgn, body) :=
    match s with
    | c :: t => if c =? 45 then (-1, t) else if c =? 43 then (1, t) else (1, s)
    | [] => (1, s)
    end in
  let pre := spec_prefix body in
  let r :=
    if base =? 0 then
      if negb (pre =? 0) then spec_digits pre (skipn 2 body)
      else match body with
           | c0 :: _ :: _ => if c0 =? 48
                             then (if forallb (fun c => c =? 48) body then Some 0 else None)
                             else spec_digits 10 body
           | _ => spec_digits 10 body
           end
    else if (pre =? base) && (2 <? Z.of_nat (length body)) then spec_digits base (skipn 2 body)
    else spec_digits base body in
  match r with Some v => Some (sgn * v) | None => None end.

Definition spec_int_of_string (s : list Z) (base : option Z) : option Z :=
  match base with
  | None => spec_parse s 10
  | Some b => if (b =? 0) || ((2 <=? b) && (b <=? 36)) then spec_parse s b else None
  end.
