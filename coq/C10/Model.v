(* C10 -- executable model of starlark/int.go (+ int_posix64.go / int_generic.go)
   and of the integer part of starlark.Binary / Compare (eval.go, value.go).

   An Int is a union (small int64 restricted to the int32 range | *big.Int).
   Two concrete representations exist in the code:
     - `union_impl`   : int_generic.go (struct {small_; big_}) and int_posix64.go
                        with the 4GB address-space reservation (pointer inside the
                        region = small value, otherwise *big.Int);
     - `fallback_impl`: int_posix64.go when the reservation failed (smallints = 0):
                        every Int is a *big.Int and get() re-derives the arm with
                        isSmall on every access.
   The operations of int.go are written once over the accessor interface
   (get / makeSmallInt / makeBigInt), exactly as the Go code is.

   Where Go computes in int64 the wrap is explicit (wrap64).  math/big is an
   oracle: big.Int add/sub/mul/QuoRem/And/Or/Xor/Not/Lsh/Rsh/Cmp/Sign are the Z
   operations (QuoRem = truncated division Z.quot / Z.rem). *)
From Coq Require Import ZArith Bool List.
From Coq Require Floats.SpecFloat.
From SV Require Import Common.GoInt.
Import ListNotations.
Open Scope Z_scope.

(* ---------- the accessor interface *)
Record int_impl := {
  T : Type;
  get : T -> Z * option Z;       (* (small, big) : big = None <=> small arm *)
  makeSmallInt : Z -> T;         (* precondition: int32 range *)
  makeBigInt : Z -> T            (* precondition: outside the int32 range *)
}.

(* big.Int.BitLen: length of the absolute value in bits *)
Definition bitlen (z : Z) : Z := if z =? 0 then 0 else Z.log2 (Z.abs z) + 1.

(* func isSmall(x *big.Int) bool { n := x.BitLen(); return n < 32 || n == 32 && x.Int64() == math.MinInt32 } *)
Definition isSmall (z : Z) : bool :=
  let n := bitlen z in
  (n <? 32) || ((n =? 32) && (wrap64 z =? min_int32)).

Inductive rep := Small (z : Z) | Big (z : Z).

Definition union_impl : int_impl := {|
  T := rep;
  get := fun r => match r with Small z => (z, None) | Big z => (0, Some z) end;
  makeSmallInt := Small;
  makeBigInt := Big
|}.

Definition fallback_impl : int_impl := {|
  T := Z;
  get := fun z => if isSmall z then (wrap64 z, None) else (0, Some z);
  makeSmallInt := fun z => z;
  makeBigInt := fun z => z
|}.

(* big.Int.Rsh: arithmetic shift = Z.shiftr.  Written so that it evaluates in
   time independent of the count (Z.shiftr iterates n times); proved equal to
   Z.shiftr in ProofsInt.big_rsh_shiftr. *)
Definition big_rsh (x n : Z) : Z :=
  if Z.log2 (Z.abs x) <? n then (if x <? 0 then -1 else 0) else Z.shiftr x n.

Definition is_some {A} (o : option A) : bool := match o with Some _ => true | None => false end.

Definition signum64 (x : Z) : Z := if x <? 0 then -1 else if 0 <? x then 1 else 0.
Definition cmp_to_int (c : comparison) : Z := match c with Lt => -1 | Eq => 0 | Gt => 1 end.

Inductive binop := ADD | SUB | MUL | FLOORDIV | MOD | AND | OR | XOR | LSH | RSH.
Inductive unop := UPLUS | UMINUS | UNOT.
Inductive cmpop := EQL | NEQ | LT | LE | GT | GE.
(* func threeway(op syntax.Token, cmp int) bool *)
Definition threeway (c : cmpop) (k : Z) : bool :=
  match c with
  | EQL => k =? 0 | NEQ => negb (k =? 0)
  | LT => k <? 0 | LE => k <=? 0 | GT => 0 <? k | GE => 0 <=? k
  end.

Section Ops.
  Variable I : int_impl.
  Notation t := (T I).

  (* func MakeInt64(x int64) Int *)
  Definition MakeInt64 (x : Z) : t :=
    if (min_int32 <=? x) && (x <=? max_int32) then makeSmallInt I x else makeBigInt I x.

  (* func MakeUint64(x uint64) Int *)
  Definition MakeUint64 (x : Z) : t :=
    if x <=? max_int32 then makeSmallInt I (wrap64 x) else makeBigInt I x.

  (* func MakeBigInt(x *big.Int) Int *)
  Definition MakeBigInt (x : Z) : t :=
    if isSmall x then makeSmallInt I (wrap64 x) else makeBigInt I x.

  (* func (i Int) bigInt() *big.Int *)
  Definition bigInt (i : t) : Z :=
    match get I i with (_, Some b) => b | (s, None) => s end.

  Definition zero : t := makeSmallInt I 0.

  Definition either_big (xb yb : option Z) : bool := is_some xb || is_some yb.

  Definition Add (x y : t) : t :=
    let '(xs, xb) := get I x in let '(ys, yb) := get I y in
    if either_big xb yb then MakeBigInt (bigInt x + bigInt y)
    else MakeInt64 (wrap64 (xs + ys)).

  Definition Sub (x y : t) : t :=
    let '(xs, xb) := get I x in let '(ys, yb) := get I y in
    if either_big xb yb then MakeBigInt (bigInt x - bigInt y)
    else MakeInt64 (wrap64 (xs - ys)).

  Definition Mul (x y : t) : t :=
    let '(xs, xb) := get I x in let '(ys, yb) := get I y in
    if either_big xb yb then MakeBigInt (bigInt x * bigInt y)
    else MakeInt64 (wrap64 (xs * ys)).

  Definition Or (x y : t) : t :=
    let '(xs, xb) := get I x in let '(ys, yb) := get I y in
    if either_big xb yb then MakeBigInt (Z.lor (bigInt x) (bigInt y))
    else makeSmallInt I (Z.lor xs ys).

  Definition And (x y : t) : t :=
    let '(xs, xb) := get I x in let '(ys, yb) := get I y in
    if either_big xb yb then MakeBigInt (Z.land (bigInt x) (bigInt y))
    else makeSmallInt I (Z.land xs ys).

  Definition Xor (x y : t) : t :=
    let '(xs, xb) := get I x in let '(ys, yb) := get I y in
    if either_big xb yb then MakeBigInt (Z.lxor (bigInt x) (bigInt y))
    else makeSmallInt I (Z.lxor xs ys).

  Definition Not (x : t) : t :=
    let '(xs, xb) := get I x in
    match xb with
    | Some b => MakeBigInt (Z.lnot b)
    | None => makeSmallInt I (Z.lnot xs)
    end.

  (* y : uint *)
  Definition Lsh (x : t) (y : Z) : t := MakeBigInt (Z.shiftl (bigInt x) y).
  Definition Rsh (x : t) (y : Z) : t := MakeBigInt (big_rsh (bigInt x) y).

  Definition Sign (x : t) : Z :=
    let '(xs, xb) := get I x in
    match xb with Some b => Z.sgn b | None => signum64 xs end.

  (* Precondition: y is nonzero.  Go's int64 / and % are truncated. *)
  Definition Div (x y : t) : t :=
    let '(xs, xb) := get I x in let '(ys, yb) := get I y in
    if either_big xb yb then
      let xb' := bigInt x in let yb' := bigInt y in
      let quo := Z.quot xb' yb' in let rem := Z.rem xb' yb' in
      let quo := if negb (Bool.eqb (Z.sgn xb' <? 0) (Z.sgn yb' <? 0)) && negb (Z.sgn rem =? 0)
                 then quo - 1 else quo in
      MakeBigInt quo
    else
      let quo := wrap64 (Z.quot xs ys) in
      let rem := wrap64 (Z.rem xs ys) in
      let quo := if negb (Bool.eqb (xs <? 0) (ys <? 0)) && negb (rem =? 0)
                 then wrap64 (quo - 1) else quo in
      MakeInt64 quo.

  Definition Mod (x y : t) : t :=
    let '(xs, xb) := get I x in let '(ys, yb) := get I y in
    if either_big xb yb then
      let xb' := bigInt x in let yb' := bigInt y in
      let rem := Z.rem xb' yb' in
      let rem := if negb (Bool.eqb (Z.sgn xb' <? 0) (Z.sgn yb' <? 0)) && negb (Z.sgn rem =? 0)
                 then rem + yb' else rem in
      MakeBigInt rem
    else
      let rem := wrap64 (Z.rem xs ys) in
      let rem := if negb (Bool.eqb (xs <? 0) (ys <? 0)) && negb (rem =? 0)
                 then wrap64 (rem + ys) else rem in
      makeSmallInt I rem.

  (* func (i Int) Cmp(v Value, depth int) (int, error) *)
  Definition Cmp (i j : t) : Z :=
    let '(is_, ib) := get I i in let '(js, jb) := get I j in
    if either_big ib jb then cmp_to_int (Z.compare (bigInt i) (bigInt j))
    else signum64 (wrap64 (is_ - js)).

  (* func (i Int) Int64() (_ int64, ok bool) : None = not representable *)
  Definition Int64 (i : t) : option Z :=
    let '(is_, ib) := get I i in
    match ib with
    | Some b =>
        if 0 <? Z.sgn b then (if max_int64 <? b then None else Some (wrap64 b))
        else if Z.sgn b <? 0 then (if b <? min_int64 then None else Some (wrap64 b))
        else Some (wrap64 b)
    | None => Some is_
    end.

  (* func AsInt32(x Value) (int, error), on an Int *)
  Definition AsInt32 (i : t) : option Z :=
    let '(is_, ib) := get I i in
    match ib with Some _ => None | None => Some is_ end.

  (* decimal text is printed from the value: big.Int.Text(10) / strconv.FormatInt *)
  Definition value (i : t) : Z := bigInt i.

  (* ---------- starlark.Binary restricted to two Int operands; None = error *)

  Definition Binary (o : binop) (x y : t) : option t :=
    match o with
    | ADD => Some (Add x y)
    | SUB => Some (Sub x y)
    | MUL => Some (Mul x y)
    | FLOORDIV => if Sign y =? 0 then None else Some (Div x y)
    | MOD => if Sign y =? 0 then None else Some (Mod x y)
    | AND => Some (And x y)
    | OR => Some (Or x y)
    | XOR => Some (Xor x y)
    | LSH =>
        match AsInt32 y with
        | None => None
        | Some n => if n <? 0 then None else if 512 <=? n then None else Some (Lsh x n)
        end
    | RSH =>
        match AsInt32 y with
        | None => None
        | Some n => if n <? 0 then None else Some (Rsh x n)
        end
    end.

  Definition Unary (o : unop) (x : t) : t :=
    match o with UPLUS => x | UMINUS => Sub zero x | UNOT => Not x end.

  Definition Compare (c : cmpop) (x y : t) : bool := threeway c (Cmp x y).
End Ops.


(* =====================================================================
   range, enumerate (starlark/library.go) -- Go `int` is int64, `uint` is uint64
   ===================================================================== *)

Inductive res (A : Type) := Ok (a : A) | Err.
Arguments Ok {A} a. Arguments Err {A}.

Record rangeValue := { r_start : Z; r_stop : Z; r_step : Z; r_len : Z }.

(* func rangeLen(start, stop, step int) int   (None = panic "rangeLen: zero step")
     case step > 0: if stop > start { return int(uint(stop-1-start)/uint(step) + 1) }
     case step < 0: if start > stop { return int(uint(start-1-stop)/uint(-step) + 1) } *)
Definition rangeLen (start stop step : Z) : option Z :=
  if 0 <? step then
    if start <? stop
    then Some (wrap64 (wrapu64 (wrapu64 (wrap64 (wrap64 (stop - 1) - start)) / wrapu64 step + 1)))
    else Some 0
  else if step <? 0 then
    if stop <? start
    then Some (wrap64 (wrapu64 (wrapu64 (wrap64 (wrap64 (start - 1) - stop)) / wrapu64 (wrap64 (- step)) + 1)))
    else Some 0
  else None.

(* unpacking a Starlark int into a Go int: AsInt -> Int64(), error when it does not fit *)
Definition unpack_int (z : Z) : res Z := if in_int64 z then Ok z else Err.

(* func range_(...): 1 to 3 positional int arguments *)
Definition range_ (args : list Z) : res rangeValue :=
  let mk (a b c : Z) :=
    match unpack_int a, unpack_int b, unpack_int c with
    | Ok start, Ok stop, Ok step =>
        if step =? 0 then Err
        else match rangeLen start stop step with
             | Some n => if n <? 0 then Err else Ok {| r_start := start; r_stop := stop; r_step := step; r_len := n |}
             | None => Err
             end
    | _, _, _ => Err
    end in
  match args with
  | [a] => mk 0 a 1
  | [a; b] => mk a b 1
  | [a; b; c] => mk a b c
  | _ => Err
  end.

(* func (r rangeValue) Index(i int) Value { return MakeInt(r.start + i*r.step) } *)
Definition range_index (r : rangeValue) (i : Z) : Z := wrap64 (r_start r + wrap64 (i * r_step r)).

(* getIndex on an Indexable: i, err := AsInt32(y); if i < 0 { i += n }; if i < 0 || i >= n { error } *)
Definition range_getIndex (r : rangeValue) (y : Z) : res Z :=
  if negb (in_int32 y) then Err
  else let n := r_len r in
       let i := if y <? 0 then wrap64 (y + n) else y in
       if (i <? 0) || (n <=? i) then Err else Ok (range_index r i).

(* rangeIterator.Next: position i -> Some (element, next position) *)
Definition range_next (r : rangeValue) (i : Z) : option (Z * Z) :=
  if i <? r_len r then Some (range_index r i, wrap64 (i + 1)) else None.

Fixpoint range_iterate (fuel : nat) (r : rangeValue) (i : Z) : list Z :=
  match fuel with
  | O => []
  | S k => match range_next r i with Some (x, j) => x :: range_iterate k r j | None => [] end
  end.

(* func rangeEqual(x, y rangeValue) bool *)
Definition rangeEqual (x y : rangeValue) : bool :=
  if negb (r_len x =? r_len y) then false
  else if r_len x =? 0 then true
  else if negb (r_start x =? r_start y) then false
  else (r_len x =? 1) || (r_step x =? r_step y).

Section RangeInt.
  Variable I : int_impl.

  (* func (r rangeValue) contains(x Int) bool -- after the fix: Int arithmetic
       delta := x.Sub(MakeInt(r.start)); step := MakeInt(r.step)
       if delta.Mod(step).Sign() != 0 { return false }
       quo := delta.Div(step)
       return quo.Sign() >= 0 && quo.Sub(MakeInt(r.len)).Sign() < 0 *)
  Definition range_contains (r : rangeValue) (x : T I) : bool :=
    let delta := Sub I x (MakeInt64 I (r_start r)) in
    let step := MakeInt64 I (r_step r) in
    if negb (Sign I (Mod I delta step) =? 0) then false
    else let quo := Div I delta step in
         (0 <=? Sign I quo) && (Sign I (Sub I quo (MakeInt64 I (r_len r))) <? 0).

  (* enumerate: pair[0] = MakeInt(start).Add(MakeInt(i)), i = 0, 1, ... (after the fix) *)
  Definition enumerate_index (start i : Z) : T I := Add I (MakeInt64 I start) (MakeInt64 I i).
End RangeInt.

(* enumerate(iterable, start): start is unpacked into a Go int *)
Definition enumerate_indices (I : int_impl) (start : Z) (n : nat) : res (list Z) :=
  match unpack_int start with
  | Ok s => Ok (map (fun i => value I (enumerate_index I s (Z.of_nat i))) (seq 0 n))
  | Err => Err
  end.

(* ---------- slicing: eval.go slice() index normalisation, then rangeValue.Slice *)

(* func asIndex(v Value, len int, result *int): None/absent keeps the default; an int
   that fits in a Go int is used (negative + len); a larger one is truncated to
   the nearest bound: -1 if negative, len otherwise *)
Definition asIndex (v : option Z) (len dflt : Z) : Z :=
  match v with
  | None => dflt
  | Some z => if in_int64 z then (if z <? 0 then wrap64 (z + len) else z)
              else if z <? 0 then -1 else len
  end.

Definition clamp (x lo hi : Z) : Z := if x <? lo then lo else if hi <? x then hi else x.

(* the step of slice(): used as is when it fits in 32 bits or is smaller in magnitude than n;
   otherwise replaced by +-max(n, 1), which selects the same (at most one) element *)
Definition slice_step (n : Z) (st : option Z) : res Z :=
  match st with
  | None => Ok 1
  | Some x =>
      let step :=
        if in_int64 x && (in_int32 x || ((wrap64 (- n) <? x) && (x <? n))) then x
        else if x <? 0 then wrap64 (- (Z.max n 1)) else Z.max n 1 in
      if step =? 0 then Err else Ok step
  end.

(* returns (start, end, step) passed to Sliceable.Slice *)
Definition slice_indices (n : Z) (lo hi st : option Z) : res (Z * Z * Z) :=
  match slice_step n st with
  | Err => Err
  | Ok step =>
      if 0 <? step then
        let s := clamp (asIndex lo n 0) 0 n in let e := clamp (asIndex hi n n) 0 n in
        Ok (s, (if e <? s then s else e), step)
      else
        let s0 := asIndex lo n (wrap64 (n - 1)) in let e0 := asIndex hi n (-1) in
        let s := if n <=? s0 then wrap64 (n - 1) else s0 in
        let e := if e0 <? -1 then -1 else e0 in
        Ok ((if s <? e then e else s), e, step)
  end.

(* func (r rangeValue) Slice(start, end, step int) Value   (None = panic in rangeLen) *)
Definition range_slice (r : rangeValue) (start end_ step : Z) : option rangeValue :=
  let newStart := wrap64 (r_start r + wrap64 (r_step r * start)) in
  let newStop := wrap64 (r_start r + wrap64 (r_step r * end_)) in
  let newStep := wrap64 (r_step r * step) in
  match rangeLen newStart newStop newStep with
  | Some n => Some {| r_start := newStart; r_stop := newStop; r_step := newStep; r_len := n |}
  | None => None
  end.

(* =====================================================================
   floats (value.go Float, int.go conversions, lib/math floor/ceil)

   A float64 is a Coq.Floats.SpecFloat.spec_float (the proof-free datatype that
   underlies Flocq's binary_float: zero / infinity / NaN / finite sign mantissa
   exponent, value = +-m * 2^e) restricted by valid_binary 53 1024.  Hardware
   operations are oracles: comparison and float->int64 conversion of finite
   values are exact on the rational value, int->float conversion and + - * /
   are SpecFloat's round-to-nearest-even operations.
   ===================================================================== *)
Import Floats.SpecFloat.
Notation float := spec_float.

Definition valid_float (f : float) : bool := valid_binary 53 1024 f.

Definition float_of_bits (b : Z) : float :=
  let s := Z.testbit b 63 in
  let e := (b / 4503599627370496) mod 2048 in
  let m := b mod 4503599627370496 in
  if e =? 2047 then (if m =? 0 then S754_infinity s else S754_nan)
  else if e =? 0 then match m with Zpos p => S754_finite s p (-1074) | _ => S754_zero s end
  else match m + 4503599627370496 with Zpos p => S754_finite s p (e - 1075) | _ => S754_nan end.

(* func (f Float) rational() *big.Rat = new(big.Rat).SetFloat64(f): the exact value
   num/den with den a positive power of two; None (nil) when f is not finite *)
Definition rational (f : float) : option (Z * Z) :=
  match f with
  | S754_zero _ => Some (0, 1)
  | S754_finite s m e =>
      let n := if s then Zneg m else Zpos m in
      if 0 <=? e then Some (n * 2 ^ e, 1) else Some (n, 2 ^ (- e))
  | _ => None
  end.

Inductive num := NInt (z : Z) | NFloat (f : float).

Section FloatInt.
  Variable I : int_impl.

  (* func finiteFloatToInt(f Float) Int, on the exact value n/d of f:
       if math.MinInt64 <= f && f < math.MaxInt64+1 { return MakeInt64(int64(f)) }   -- hardware truncation
       rat := f.rational(); return MakeBigInt(new(big.Int).Div(rat.Num(), rat.Denom()))  -- Euclidean division *)
  Definition finiteFloatToInt_q (n d : Z) : T I :=
    if (min_int64 * d <=? n) && (n <? 9223372036854775808 * d)
    then MakeInt64 I (wrap64 (Z.quot n d))
    else MakeBigInt I (n / d).

  (* None = panic(f): non-finite *)
  Definition finiteFloatToInt (f : float) : option (T I) :=
    match rational f with Some (n, d) => Some (finiteFloatToInt_q n d) | None => None end.

  (* func NumberToInt(x Value) (Int, error) *)
  Definition NumberToInt (x : num) : res (T I) :=
    match x with
    | NInt z => Ok (MakeBigInt I z)
    | NFloat f =>
        match f with
        | S754_infinity _ | S754_nan => Err
        | _ => match finiteFloatToInt f with Some i => Ok i | None => Err end
        end
    end.

  (* lib/math floor / ceil: NumberToInt(Float(math.Floor(f))); math.Floor / math.Ceil
     return the float whose value is the floor / ceiling of n/d (oracle) *)
  Definition math_floor (x : num) : res (T I) :=
    match x with
    | NInt z => Ok (MakeBigInt I z)
    | NFloat f => match rational f with Some (n, d) => Ok (finiteFloatToInt_q (n / d) 1) | None => Err end
    end.
  Definition math_ceil (x : num) : res (T I) :=
    match x with
    | NInt z => Ok (MakeBigInt I z)
    | NFloat f => match rational f with Some (n, d) => Ok (finiteFloatToInt_q (- ((- n) / d)) 1) | None => Err end
    end.

  (* func (i Int) Float() Float *)
  Definition Z_to_float (z : Z) : float := binary_normalize 53 1024 z 0 false.
  Definition Int_Float (i : T I) : float :=
    let '(is_, ib) := get I i in
    match ib with
    | Some b =>
        if (0 <=? b) && (b <=? max_uint64) then Z_to_float b        (* Float(iBig.Uint64()) *)
        else if in_int64 b then Z_to_float b                          (* Float(iBig.Int64()) *)
        else if 1024 <? bitlen b then S754_infinity (b <? 0)          (* math.Inf(iBig.Sign()) *)
        else Z_to_float b                                             (* big.Float.SetInt(iBig).Float64() *)
    | None => Z_to_float is_
    end.

  (* func (i Int) finiteFloat() (Float, error) *)
  Definition finiteFloat (i : T I) : res float :=
    match Int_Float i with S754_infinity _ => Err | f => Ok f end.

  (* CompareDepth, Int vs Float and Float vs Int: the three-way value.
     Rat.Cmp(a/b, c/d) with b, d > 0 is the sign of a*d - c*b (oracle). *)
  Definition rat_cmp (a b c d : Z) : Z := cmp_to_int (Z.compare (a * d) (c * b)).

  Definition cmp_int_float (x : T I) (y : float) : Z :=
    match y with
    | S754_nan => -1
    | S754_infinity s => if s then 1 else -1
    | _ => match rational y with Some (n, d) => rat_cmp (bigInt I x) 1 n d | None => 0 end
    end.

  Definition cmp_float_int (x : float) (y : T I) : Z :=
    match x with
    | S754_nan => 1
    | S754_infinity s => if s then -1 else 1
    | _ => match rational x with Some (n, d) => rat_cmp n d (bigInt I y) 1 | None => 0 end
    end.

  Definition Compare_if (c : cmpop) (x : T I) (y : float) : bool := threeway c (cmp_int_float x y).
  Definition Compare_fi (c : cmpop) (x : float) (y : T I) : bool := threeway c (cmp_float_int x y).

  (* func (r rangeValue) Has(y Value) (bool, error) -- after the fix:
       i, err := NumberToInt(y); if err != nil { error }
       if f, ok := y.(Float); ok && f != floor(f) { return false, nil }
       return r.contains(i), nil *)
  Definition range_has (r : rangeValue) (y : num) : res bool :=
    match NumberToInt y with
    | Err => Err
    | Ok i =>
        match y with
        | NFloat f =>
            match rational f with
            | Some (n, d) => if negb (n mod d =? 0) then Ok false else Ok (range_contains I r i)
            | None => Err
            end
        | NInt _ => Ok (range_contains I r i)
        end
    end.

  (* mixed arithmetic int (op) float of starlark.Binary for + - * / : the int is
     converted with finiteFloat (error when infinite), then the hardware operation *)
  Inductive flop := FADD | FSUB | FMUL | FDIV.
  Definition float_is_zero (f : float) : bool := match f with S754_zero _ => true | _ => false end.
  Definition float_binary (o : flop) (a b : float) : res float :=
    match o with
    | FADD => Ok (SFadd 53 1024 a b)
    | FSUB => Ok (SFsub 53 1024 a b)
    | FMUL => Ok (SFmul 53 1024 a b)
    | FDIV => if float_is_zero b then Err else Ok (SFdiv 53 1024 a b)
    end.
  Definition Binary_if (o : flop) (x : T I) (y : float) : res float :=
    match finiteFloat x with Ok xf => float_binary o xf y | Err => Err end.
  Definition Binary_fi (o : flop) (x : float) (y : T I) : res float :=
    match finiteFloat y with Ok yf => float_binary o x yf | Err => Err end.
  Definition Binary_ii_div (x y : T I) : res float :=
    match finiteFloat x with
    | Ok xf => match finiteFloat y with Ok yf => float_binary FDIV xf yf | Err => Err end
    | Err => Err
    end.
End FloatInt.

(* =====================================================================
   text: int(string, base) (library.go int_ / parseInt) and printing
   Strings are lists of bytes (Z).  big.Int.SetString(s, base) for 2 <= base <= 36
   on a string without sign is an oracle: all characters must be digits of the
   base (letters in either case), at least one; the value is positional.
   ===================================================================== *)

Definition digit_val (c : Z) : option Z :=
  if (48 <=? c) && (c <=? 57) then Some (c - 48)
  else if (97 <=? c) && (c <=? 122) then Some (c - 87)
  else if (65 <=? c) && (c <=? 90) then Some (c - 55)
  else None.

Fixpoint parse_digits_acc (base acc : Z) (s : list Z) : option Z :=
  match s with
  | [] => Some acc
  | c :: t => match digit_val c with
              | Some d => if d <? base then parse_digits_acc base (acc * base + d) t else None
              | None => None
              end
  end.

Definition big_SetString (s : list Z) (base : Z) : option Z :=
  match s with [] => None | _ => parse_digits_acc base 0 s end.

Definition all_zero_digits (s : list Z) : bool := forallb (fun c => c =? 48) s.

(* func parseInt(s string, base int) Value -- None = nil *)
Definition is_sign (c : Z) : bool := (c =? 43) || (c =? 45).

Definition prefix_base (c : Z) : Z :=
  if (c =? 111) || (c =? 79) then 8
  else if (c =? 120) || (c =? 88) then 16
  else if (c =? 98) || (c =? 66) then 2
  else 0.

(* the part after sign and prefix handling: base 0 means 10; a second sign is invalid *)
Definition parse_finish (neg : bool) (s : list Z) (base : Z) : option Z :=
  let base := if base =? 0 then 10 else base in
  match s with
  | c :: _ => if is_sign c then None
              else match big_SetString s base with
                   | Some v => Some (if neg then 0 - v else v)
                   | None => None
                   end
  | [] => None     (* SetString("") fails *)
  end.

Definition parse_unsigned (neg : bool) (s : list Z) (base : Z) : option Z :=
  match s with
  | c0 :: c1 :: rest =>
      if c0 =? 48 then
        let baseprefix := match rest with [] => 0 | _ => prefix_base c1 end in
        if negb (baseprefix =? 0) then
          if (base =? 0) || (baseprefix =? base) then parse_finish neg rest baseprefix
          else parse_finish neg s base
        else if base =? 0 then (if all_zero_digits (c1 :: rest) then Some 0 else None)
        else parse_finish neg s base
      else parse_finish neg s base
  | _ => parse_finish neg s base
  end.

Definition parseInt (s : list Z) (base : Z) : option Z :=
  match s with
  | c :: t => if c =? 43 then parse_unsigned false t base
              else if c =? 45 then parse_unsigned true t base
              else parse_unsigned false s base
  | [] => parse_unsigned false s base
  end.

(* func int_(...) on a string argument; base : None = absent *)
Definition int_of_string (s : list Z) (base : option Z) : option Z :=
  match base with
  | None => parseInt s 10
  | Some b => if negb (in_int32 b) then None
              else if negb (b =? 0) && ((b <? 2) || (36 <? b)) then None
              else parseInt s b
  end.

(* printing: big.Int.Text(base) / strconv.FormatInt / fmt %d %x %o (oracles): sign, then
   the positional digits of the absolute value, most significant first *)
Definition digit_char (d : Z) : Z := if d <? 10 then 48 + d else 87 + d.

Fixpoint digits_of (fuel : nat) (base n : Z) : list Z :=
  match fuel with
  | O => [n mod base]
  | S k => if n <? base then [n] else digits_of k base (n / base) ++ [n mod base]
  end.

Definition print_int (base z : Z) : list Z :=
  let a := Z.abs z in
  (if z <? 0 then [45] else []) ++ map digit_char (digits_of (Z.to_nat (Z.log2 a)) base a).

(* "0x" / "0o" / "0b" literal of z *)
Definition prefix_of (base : Z) : list Z :=
  if base =? 16 then [48; 120] else if base =? 8 then [48; 111] else [48; 98].
Definition print_prefixed (base z : Z) : list Z :=
  let a := Z.abs z in
  (if z <? 0 then [45] else []) ++ prefix_of base ++ map digit_char (digits_of (Z.to_nat (Z.log2 a)) base a).

(* =====================================================================
   repetition guards (eval.go tupleRepeat / stringRepeat): the length of x * n
     if len == 0 -> empty; i, err := AsInt32(n) (error: "repeat count too large", unless n < 0 -> empty);
     if i < 1 -> empty; of, sz := bits.Mul(uint(len), uint(i));
     if of != 0 || sz >= maxAlloc -> error; else sz elements
   ===================================================================== *)
Definition maxAlloc : Z := 1073741824.

Definition repeat_len (I : int_impl) (len : Z) (n : T I) : res Z :=
  if len =? 0 then Ok 0
  else match AsInt32 I n with
       | None => if Sign I n <? 0 then Ok 0 else Err     (* negative counts behave like zero *)
       | Some i =>
           if i <? 1 then Ok 0
           else let p := wrapu64 len * wrapu64 i in
                let of_ := p / 18446744073709551616 in let sz := p mod 18446744073709551616 in
                if negb (of_ =? 0) || (maxAlloc <=? sz) then Err else Ok sz
       end.
