(* C10 -- executable model of starlark/int.go (+ int_posix64.go / int_generic.go)
   and of the integer part of starlark.Binary / Compare (eval.go, value.go).

   An Int is a union (small int64 restricted to the int32 range | *big.Int).
   Two concrete representations exist in the code:
     - `union_impl`   : int_generic.go (struct {small_; big_}) and int_posix64.go
                        with the 4GB address-space reservation (pointer inside the
                        region = small value, otherwise *big.Int);
     - `fallback_impl`: int_posix64.go when the reservation failed (smallints = 0):
                        every Int is a *big.Int and get() re-derives the arm with
                        isSmall on every access.
   The operations of int.go are written once over the accessor interface
   (get / makeSmallInt / makeBigInt), exactly as the Go code is.

   Where Go computes in int64 the wrap is explicit (wrap64).  math/big is an
   oracle: big.Int add/sub/mul/QuoRem/And/Or/Xor/Not/Lsh/Rsh/Cmp/Sign are the Z
   operations (QuoRem = truncated division Z.quot / Z.rem). *)
From Coq Require Import ZArith Bool List.
From SV Require Import Common.GoInt.
Import ListNotations.
Open Scope Z_scope.

(* ---------- the accessor interface *)
Record int_impl := {
  T : Type;
  get : T -> Z * option Z;       (* (small, big) : big = None <=> small arm *)
  makeSmallInt : Z -> T;         (* precondition: int32 range *)
  makeBigInt : Z -> T            (* precondition: outside the int32 range *)
}.

(* big.Int.BitLen: length of the absolute value in bits *)
Definition bitlen (z : Z) : Z := if z =? 0 then 0 else Z.log2 (Z.abs z) + 1.

(* func isSmall(x *big.Int) bool { n := x.BitLen(); return n < 32 || n == 32 && x.Int64() == math.MinInt32 } *)
Definition isSmall (z : Z) : bool :=
  let n := bitlen z in
  (n <? 32) || ((n =? 32) && (wrap64 z =? min_int32)).

Inductive rep := Small (z : Z) | Big (z : Z).

Definition union_impl : int_impl := {|
  T := rep;
  get := fun r => match r with Small z => (z, None) | Big z => (0, Some z) end;
  makeSmallInt := Small;
  makeBigInt := Big
|}.

Definition fallback_impl : int_impl := {|
  T := Z;
  get := fun z => if isSmall z then (wrap64 z, None) else (0, Some z);
  makeSmallInt := fun z => z;
  makeBigInt := fun z => z
|}.

Definition is_some {A} (o : option A) : bool := match o with Some _ => true | None => false end.

Definition signum64 (x : Z) : Z := if x <? 0 then -1 else if 0 <? x then 1 else 0.
Definition cmp_to_int (c : comparison) : Z := match c with Lt => -1 | Eq => 0 | Gt => 1 end.

Inductive binop := ADD | SUB | MUL | FLOORDIV | MOD | AND | OR | XOR | LSH | RSH.
Inductive unop := UPLUS | UMINUS | UNOT.
Inductive cmpop := EQL | NEQ | LT | LE | GT | GE.
(* func threeway(op syntax.Token, cmp int) bool *)
Definition threeway (c : cmpop) (k : Z) : bool :=
  match c with
  | EQL => k =? 0 | NEQ => negb (k =? 0)
  | LT => k <? 0 | LE => k <=? 0 | GT => 0 <? k | GE => 0 <=? k
  end.

Section Ops.
  Variable I : int_impl.
  Notation t := (T I).

  (* func MakeInt64(x int64) Int *)
  Definition MakeInt64 (x : Z) : t :=
    if (min_int32 <=? x) && (x <=? max_int32) then makeSmallInt I x else makeBigInt I x.

  (* func MakeUint64(x uint64) Int *)
  Definition MakeUint64 (x : Z) : t :=
    if x <=? max_int32 then makeSmallInt I (wrap64 x) else makeBigInt I x.

  (* func MakeBigInt(x *big.Int) Int *)
  Definition MakeBigInt (x : Z) : t :=
    if isSmall x then makeSmallInt I (wrap64 x) else makeBigInt I x.

  (* func (i Int) bigInt() *big.Int *)
  Definition bigInt (i : t) : Z :=
    match get I i with (_, Some b) => b | (s, None) => s end.

  Definition zero : t := makeSmallInt I 0.

  Definition either_big (xb yb : option Z) : bool := is_some xb || is_some yb.

  Definition Add (x y : t) : t :=
    let '(xs, xb) := get I x in let '(ys, yb) := get I y in
    if either_big xb yb then MakeBigInt (bigInt x + bigInt y)
    else MakeInt64 (wrap64 (xs + ys)).

  Definition Sub (x y : t) : t :=
    let '(xs, xb) := get I x in let '(ys, yb) := get I y in
    if either_big xb yb then MakeBigInt (bigInt x - bigInt y)
    else MakeInt64 (wrap64 (xs - ys)).

  Definition Mul (x y : t) : t :=
    let '(xs, xb) := get I x in let '(ys, yb) := get I y in
    if either_big xb yb then MakeBigInt (bigInt x * bigInt y)
    else MakeInt64 (wrap64 (xs * ys)).

  Definition Or (x y : t) : t :=
    let '(xs, xb) := get I x in let '(ys, yb) := get I y in
    if either_big xb yb then MakeBigInt (Z.lor (bigInt x) (bigInt y))
    else makeSmallInt I (Z.lor xs ys).

  Definition And (x y : t) : t :=
    let '(xs, xb) := get I x in let '(ys, yb) := get I y in
    if either_big xb yb then MakeBigInt (Z.land (bigInt x) (bigInt y))
    else makeSmallInt I (Z.land xs ys).

  Definition Xor (x y : t) : t :=
    let '(xs, xb) := get I x in let '(ys, yb) := get I y in
    if either_big xb yb then MakeBigInt (Z.lxor (bigInt x) (bigInt y))
    else makeSmallInt I (Z.lxor xs ys).

  Definition Not (x : t) : t :=
    let '(xs, xb) := get I x in
    match xb with
    | Some b => MakeBigInt (Z.lnot b)
    | None => makeSmallInt I (Z.lnot xs)
    end.

  (* y : uint *)
  Definition Lsh (x : t) (y : Z) : t := MakeBigInt (Z.shiftl (bigInt x) y).
  Definition Rsh (x : t) (y : Z) : t := MakeBigInt (Z.shiftr (bigInt x) y).

  Definition Sign (x : t) : Z :=
    let '(xs, xb) := get I x in
    match xb with Some b => Z.sgn b | None => signum64 xs end.

  (* Precondition: y is nonzero.  Go's int64 / and % are truncated. *)
  Definition Div (x y : t) : t :=
    let '(xs, xb) := get I x in let '(ys, yb) := get I y in
    if either_big xb yb then
      let xb' := bigInt x in let yb' := bigInt y in
      let quo := Z.quot xb' yb' in let rem := Z.rem xb' yb' in
      let quo := if negb (Bool.eqb (Z.sgn xb' <? 0) (Z.sgn yb' <? 0)) && negb (Z.sgn rem =? 0)
                 then quo - 1 else quo in
      MakeBigInt quo
    else
      let quo := wrap64 (Z.quot xs ys) in
      let rem := wrap64 (Z.rem xs ys) in
      let quo := if negb (Bool.eqb (xs <? 0) (ys <? 0)) && negb (rem =? 0)
                 then wrap64 (quo - 1) else quo in
      MakeInt64 quo.

  Definition Mod (x y : t) : t :=
    let '(xs, xb) := get I x in let '(ys, yb) := get I y in
    if either_big xb yb then
      let xb' := bigInt x in let yb' := bigInt y in
      let rem := Z.rem xb' yb' in
      let rem := if negb (Bool.eqb (Z.sgn xb' <? 0) (Z.sgn yb' <? 0)) && negb (Z.sgn rem =? 0)
                 then rem + yb' else rem in
      MakeBigInt rem
    else
      let rem := wrap64 (Z.rem xs ys) in
      let rem := if negb (Bool.eqb (xs <? 0) (ys <? 0)) && negb (rem =? 0)
                 then wrap64 (rem + ys) else rem in
      makeSmallInt I rem.

  (* func (i Int) Cmp(v Value, depth int) (int, error) *)
  Definition Cmp (i j : t) : Z :=
    let '(is_, ib) := get I i in let '(js, jb) := get I j in
    if either_big ib jb then cmp_to_int (Z.compare (bigInt i) (bigInt j))
    else signum64 (wrap64 (is_ - js)).

  (* func (i Int) Int64() (_ int64, ok bool) : None = not representable *)
  Definition Int64 (i : t) : option Z :=
    let '(is_, ib) := get I i in
    match ib with
    | Some b =>
        if 0 <? Z.sgn b then (if max_int64 <? b then None else Some (wrap64 b))
        else if Z.sgn b <? 0 then (if b <? min_int64 then None else Some (wrap64 b))
        else Some (wrap64 b)
    | None => Some is_
    end.

  (* func AsInt32(x Value) (int, error), on an Int *)
  Definition AsInt32 (i : t) : option Z :=
    let '(is_, ib) := get I i in
    match ib with Some _ => None | None => Some is_ end.

  (* decimal text is printed from the value: big.Int.Text(10) / strconv.FormatInt *)
  Definition value (i : t) : Z := bigInt i.

  (* ---------- starlark.Binary restricted to two Int operands; None = error *)

  Definition Binary (o : binop) (x y : t) : option t :=
    match o with
    | ADD => Some (Add x y)
    | SUB => Some (Sub x y)
    | MUL => Some (Mul x y)
    | FLOORDIV => if Sign y =? 0 then None else Some (Div x y)
    | MOD => if Sign y =? 0 then None else Some (Mod x y)
    | AND => Some (And x y)
    | OR => Some (Or x y)
    | XOR => Some (Xor x y)
    | LSH =>
        match AsInt32 y with
        | None => None
        | Some n => if n <? 0 then None else if 512 <=? n then None else Some (Lsh x n)
        end
    | RSH =>
        match AsInt32 y with
        | None => None
        | Some n => if n <? 0 then None else Some (Rsh x n)
        end
    end.

  Definition Unary (o : unop) (x : t) : t :=
    match o with UPLUS => x | UMINUS => Sub zero x | UNOT => Not x end.

  Definition Compare (c : cmpop) (x y : t) : bool := threeway c (Cmp x y).
End Ops.

