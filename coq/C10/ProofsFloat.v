(* C10 -- lemmas about float <-> int conversion, comparison, range membership of floats *)
From Coq Require Import ZArith Bool List Lia.
From Coq Require Import ZifyBool.
From Coq Require Floats.SpecFloat.
From SV Require Import Common.GoInt C10.Model C10.Spec C10.ProofsInt C10.ProofsRange.
Import ListNotations.
Import Floats.SpecFloat.
Open Scope Z_scope.

(* ---------- a valid binary64 mantissa has at most 53 bits *)
Lemma digits2_pos_bound m : Zpos m < 2 ^ Zpos (digits2_pos m).
Proof.
  induction m as [m IH|m IH|]; cbn [digits2_pos].
  - rewrite Pos2Z.inj_succ, Z.pow_succ_r by lia. lia.
  - rewrite Pos2Z.inj_succ, Z.pow_succ_r by lia. lia.
  - cbn. lia.
Qed.

Lemma valid_mantissa s m e : valid_float (S754_finite s m e) = true -> Zpos m < 2 ^ 53 /\ -1074 <= e <= 971.
Proof.
  unfold valid_float, valid_binary, bounded, canonical_mantissa, fexp, emin. intros H.
  apply andb_true_iff in H. destruct H as [H1 H2].
  apply Zeq_is_eq_bool in H1. apply Zle_bool_imp_le in H2.
  pose proof (digits2_pos_bound m) as B.
  assert (D : Zpos (digits2_pos m) <= 53) by lia.
  split; [|lia].
  eapply Z.lt_le_trans; [exact B|]. apply Z.pow_le_mono_r; lia.
Qed.

(* ---------- rational agrees with mantissa * 2^exponent *)
Lemma rational_me f :
  match rational f, float_me f with
  | Some (n, d), Some (m, e) =>
      0 < d /\ (if 0 <=? e then n = m * 2 ^ e /\ d = 1 else n = m /\ d = 2 ^ (- e))
  | None, None => True
  | _, _ => False
  end.
Proof.
  destruct f as [s|s| |s m e]; cbn [rational float_me]; try exact Logic.I.
  - cbn. lia.
  - destruct (0 <=? e) eqn:E.
    + split; [lia|]. split; reflexivity.
    + split; [apply Z.pow_pos_nonneg; lia|]. split; reflexivity.
Qed.

Section WithInt.
  Variable I : int_impl.
  Hypothesis OK : impl_ok I.

  Lemma quot_small_range n d : 0 < d -> min_int64 * d <= n -> n < 9223372036854775808 * d ->
    in_int64 (Z.quot n d) = true.
  Proof.
    intros Hd L U. rng. destruct (Z_lt_le_dec n 0) as [N|P].
    - assert (E : Z.quot n d = - ((- n) / d)).
      { rewrite <- (Z.opp_involutive n) at 1. rewrite Z.quot_opp_l by lia. rewrite Z.quot_div_nonneg by lia. reflexivity. }
      rewrite E. assert (0 <= (- n) / d) by (apply Z.div_pos; lia).
      assert ((- n) / d <= 9223372036854775808) by (apply Z.div_le_upper_bound; lia). lia.
    - rewrite Z.quot_div_nonneg by lia. assert (0 <= n / d) by (apply Z.div_pos; lia).
      assert (n / d < 9223372036854775808) by (apply Z.div_lt_upper_bound; lia). lia.
  Qed.

  (* the conversion is truncation whenever the rational is in lowest-enough terms:
     outside the int64 window the denominator must be 1 (true for every valid float) *)
  Lemma finiteFloatToInt_q_exact n d : 0 < d ->
    (d = 1 \/ Z.abs n < 9223372036854775808) ->
    canonical I (finiteFloatToInt_q I n d) = true /\ value I (finiteFloatToInt_q I n d) = Z.quot n d.
  Proof.
    intros Hd Hv. unfold finiteFloatToInt_q.
    destruct ((min_int64 * d <=? n) && (n <? 9223372036854775808 * d)) eqn:G.
    - rewrite wrap64_id by (apply quot_small_range; lia). apply MakeInt64_ok; assumption.
    - destruct Hv as [->|Hv].
      + rewrite Z.div_1_r, Z.quot_1_r. apply MakeBigInt_ok; assumption.
      + exfalso. rng. nia.
  Qed.

  Lemma valid_rational_cond f n d : valid_float f = true -> rational f = Some (n, d) ->
    0 < d /\ (d = 1 \/ Z.abs n < 9223372036854775808).
  Proof.
    intros V R. destruct f as [s|s| |s m e]; cbn [rational] in R; try discriminate.
    - injection R as <- <-. lia.
    - destruct (valid_mantissa s m e V) as [B _]. destruct (0 <=? e) eqn:E; injection R as <- <-.
      + lia.
      + split; [apply Z.pow_pos_nonneg; lia|]. right. change (2 ^ 53) with 9007199254740992 in B. destruct s; lia.
  Qed.

  Lemma float_to_int_lemma f : valid_float f = true ->
    match finiteFloatToInt I f, spec_int_of_float f with
    | Some i, Some z => canonical I i = true /\ value I i = z
    | None, None => True
    | _, _ => False
    end.
  Proof.
    intros V. unfold finiteFloatToInt, spec_int_of_float.
    pose proof (rational_me f) as RM. pose proof (valid_rational_cond f) as VC.
    destruct (rational f) as [[n d]|]; destruct (float_me f) as [[m e]|]; try contradiction; try exact Logic.I.
    destruct (VC n d V eq_refl) as [Hd Hc]. destruct RM as [_ RM].
    destruct (finiteFloatToInt_q_exact n d Hd Hc) as [C Vq]. split; [assumption|]. rewrite Vq.
    unfold trunc_me. destruct (0 <=? e); destruct RM as [-> ->]; [apply Z.quot_1_r|reflexivity].
  Qed.

  Lemma NumberToInt_lemma x : match x with NFloat f => valid_float f = true | NInt _ => True end ->
    match NumberToInt I x, (match x with NInt z => Some z | NFloat f => spec_int_of_float f end) with
    | Ok i, Some z => canonical I i = true /\ value I i = z
    | Err, None => True
    | _, _ => False
    end.
  Proof.
    destruct x as [z|f]; intros V; cbn [NumberToInt].
    - apply MakeBigInt_ok; assumption.
    - pose proof (float_to_int_lemma f V) as H.
      destruct f as [s|s| |s m e]; cbn [spec_int_of_float float_me] in *; try exact Logic.I;
        destruct (finiteFloatToInt I _); try contradiction; assumption.
  Qed.

  Lemma integer_q_exact z :
    canonical I (finiteFloatToInt_q I z 1) = true /\ value I (finiteFloatToInt_q I z 1) = z.
  Proof.
    destruct (finiteFloatToInt_q_exact z 1 ltac:(lia) ltac:(left; reflexivity)) as [C V].
    split; [assumption|]. rewrite V. apply Z.quot_1_r.
  Qed.

  Lemma math_floor_ceil_lemma x : match x with NFloat f => valid_float f = true | NInt _ => True end ->
    (match math_floor I x, (match x with NInt z => Some z | NFloat f => spec_floor f end) with
     | Ok i, Some z => canonical I i = true /\ value I i = z
     | Err, None => True
     | _, _ => False
     end) /\
    (match math_ceil I x, (match x with NInt z => Some z | NFloat f => spec_ceil f end) with
     | Ok i, Some z => canonical I i = true /\ value I i = z
     | Err, None => True
     | _, _ => False
     end).
  Proof.
    destruct x as [z|f]; intros V; cbn [math_floor math_ceil].
    - split; apply MakeBigInt_ok; assumption.
    - unfold spec_floor, spec_ceil. pose proof (rational_me f) as RM.
      destruct (rational f) as [[n d]|]; destruct (float_me f) as [[m e]|]; try contradiction; try (split; exact Logic.I).
      destruct RM as [Hd RM]. split.
      + destruct (integer_q_exact (n / d)) as [C Vq]. split; [assumption|]. rewrite Vq.
        unfold floor_me. destruct (0 <=? e); destruct RM as [-> ->]; [apply Z.div_1_r|reflexivity].
      + destruct (integer_q_exact (- (- n / d))) as [C Vq]. split; [assumption|]. rewrite Vq.
        unfold ceil_me. destruct (0 <=? e); destruct RM as [-> ->]; [rewrite Z.div_1_r; lia|reflexivity].
  Qed.

  (* ---------- int / float comparison *)
  Lemma threeway_holds c k : threeway c (cmp_to_int k) = holds c k.
  Proof. destruct c, k; reflexivity. Qed.

  Lemma cmp_int_float_lemma (x : T I) f :
    cmp_int_float I x f = cmp_to_int (spec_cmp_int_float (value I x) f) /\
    cmp_float_int I f x = cmp_to_int (CompOpp (spec_cmp_int_float (value I x) f)).
  Proof.
    unfold cmp_int_float, cmp_float_int, spec_cmp_int_float. pose proof (rational_me f) as RM.
    destruct f as [s|s| |s m e]; cbn [rational float_me] in *.
    - unfold rat_cmp, cmp_Z_me. cbn [Z.leb Z.compare]. change (bigInt I x) with (value I x).
      rewrite !Z.mul_1_r. cbn [Z.pow Z.mul]. split; [reflexivity|]. rewrite Z.compare_antisym. reflexivity.
    - destruct s; split; reflexivity.
    - split; reflexivity.
    - destruct (0 <=? e) eqn:E; unfold rat_cmp, cmp_Z_me; rewrite E; change (bigInt I x) with (value I x);
        rewrite ?Z.mul_1_r; (split; [reflexivity|]); rewrite Z.compare_antisym; reflexivity.
  Qed.

  Lemma compare_int_float_lemma c (x : T I) f :
    Compare_if I c x f = spec_compare_if c (value I x) f /\
    Compare_fi I c f x = spec_compare_fi c f (value I x).
  Proof.
    unfold Compare_if, Compare_fi, spec_compare_if, spec_compare_fi.
    destruct (cmp_int_float_lemma x f) as [A B]. rewrite A, B, !threeway_holds. split; reflexivity.
  Qed.

  (* ---------- membership of ints and floats in a range *)
  Lemma range_has_lemma r y : range_wf r ->
    match y with NFloat f => valid_float f = true | NInt _ => True end ->
    range_has I r y =
      match spec_range_has (r_start r) (r_stop r) (r_step r) y with Some b => Ok b | None => Err end.
  Proof.
    intros W V. unfold range_has. pose proof (NumberToInt_lemma y V) as N.
    destruct y as [z|f].
    - destruct (NumberToInt I (NInt z)) as [i|]; [|contradiction]. destruct N as [C Vi].
      cbn [spec_range_has]. rewrite (range_contains_exact I OK r i W C), Vi. reflexivity.
    - cbn [spec_range_has]. unfold spec_int_of_float in N. pose proof (rational_me f) as RM.
      destruct (NumberToInt I (NFloat f)) as [i|].
      + destruct (float_me f) as [[m e]|]; [|contradiction]. destruct N as [C Vi].
        destruct (rational f) as [[n d]|]; [|contradiction]. destruct RM as [Hd RM].
        rewrite (range_contains_exact I OK r i W C), Vi.
        unfold integral_me. destruct (0 <=? e); destruct RM as [-> ->].
        * rewrite Z.mod_1_r. reflexivity.
        * destruct (m mod 2 ^ (- e) =? 0); reflexivity.
      + destruct (float_me f) as [[m e]|]; [contradiction|]. reflexivity.
  Qed.

  (* ---------- int -> float: the shortcut for huge values is consistent with
     the sign, and every arm that converts uses round-to-nearest-even *)
  Lemma Int_Float_lemma (x : T I) : canonical I x = true ->
    Int_Float I x = if 1024 <? bitlen (value I x) then S754_infinity (value I x <? 0) else Z_to_float (value I x).
  Proof.
    intros Hx. unfold Int_Float.
    destruct (canon_cases I x Hx) as [[G R]|[s [G R]]]; rewrite G.
    - assert (B : (1024 <? bitlen (value I x)) = false).
      { rewrite (bitlen_lt (value I x) 1025 ltac:(lia)) || idtac.
        assert (H : (bitlen (value I x) <? 1025) = true).
        { rewrite bitlen_lt by lia. assert (2 ^ 31 <= 2 ^ (1025 - 1)) by (apply Z.pow_le_mono_r; lia).
          change (2 ^ 31) with 2147483648 in *. rng. lia. }
        lia. }
      rewrite B. reflexivity.
    - set (v := value I x) in *.
      destruct ((0 <=? v) && (v <=? max_uint64)) eqn:U.
      + assert (B : (bitlen v <? 1025) = true).
        { rewrite bitlen_lt by lia. assert (2 ^ 64 <= 2 ^ (1025 - 1)) by (apply Z.pow_le_mono_r; lia).
          change (2 ^ 64) with 18446744073709551616 in *. unfold max_uint64 in *. lia. }
        assert (B' : (1024 <? bitlen v) = false) by lia. rewrite B'. reflexivity.
      + destruct (in_int64 v) eqn:S64.
        * assert (B : (bitlen v <? 1025) = true).
          { rewrite bitlen_lt by lia. assert (2 ^ 64 <= 2 ^ (1025 - 1)) by (apply Z.pow_le_mono_r; lia).
            change (2 ^ 64) with 18446744073709551616 in *. rng. lia. }
          assert (B' : (1024 <? bitlen v) = false) by lia. rewrite B'. reflexivity.
        * destruct (1024 <? bitlen v); reflexivity.
  Qed.
End WithInt.
