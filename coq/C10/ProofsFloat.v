(* C10 -- lemmas about float <-> int conversion, comparison, range membership of floats *)
From Coq Require Import ZArith Bool List Lia Zpower.
From Coq Require Import ZifyBool.
From Coq Require Floats.SpecFloat.
From SV Require Import Common.GoInt C10.Model C10.Spec C10.ProofsInt C10.ProofsRange.
Import ListNotations.
Import Floats.SpecFloat.
Open Scope Z_scope.

(* ---------- a valid binary64 mantissa has at most 53 bits *)
Lemma digits2_pos_bound m : Zpos m < 2 ^ Zpos (digits2_pos m).
Proof.
  induction m as [m IH|m IH|]; cbn [digits2_pos].
  - rewrite Pos2Z.inj_succ, Z.pow_succ_r by lia. lia.
  - rewrite Pos2Z.inj_succ, Z.pow_succ_r by lia. lia.
  - cbn. lia.
Qed.

Lemma valid_mantissa s m e : valid_float (S754_finite s m e) = true -> Zpos m < 2 ^ 53 /\ -1074 <= e <= 971.
Proof.
  unfold valid_float, valid_binary, bounded, canonical_mantissa, fexp, emin. intros H.
  apply andb_true_iff in H. destruct H as [H1 H2].
  apply Zeq_is_eq_bool in H1. apply Zle_bool_imp_le in H2.
  pose proof (digits2_pos_bound m) as B.
  assert (D : Zpos (digits2_pos m) <= 53) by lia.
  split; [|lia].
  eapply Z.lt_le_trans; [exact B|]. apply Z.pow_le_mono_r; lia.
Qed.

(* ---------- rational agrees with mantissa * 2^exponent *)
Lemma rational_me f :
  match rational f, float_me f with
  | Some (n, d), Some (m, e) =>
      0 < d /\ (if 0 <=? e then n = m * 2 ^ e /\ d = 1 else n = m /\ d = 2 ^ (- e))
  | None, None => True
  | _, _ => False
  end.
Proof.
  destruct f as [s|s| |s m e]; cbn [rational float_me]; try exact Logic.I.
  - cbn. lia.
  - destruct (0 <=? e) eqn:E.
    + split; [lia|]. split; reflexivity.
    + split; [apply Z.pow_pos_nonneg; lia|]. split; reflexivity.
Qed.

Section WithInt.
  Variable I : int_impl.
  Hypothesis OK : impl_ok I.

  Lemma quot_small_range n d : 0 < d -> min_int64 * d <= n -> n < 9223372036854775808 * d ->
    in_int64 (Z.quot n d) = true.
  Proof.
    intros Hd L U. rng. destruct (Z_lt_le_dec n 0) as [N|P].
    - assert (E : Z.quot n d = - ((- n) / d)).
      { rewrite <- (Z.opp_involutive n) at 1. rewrite Z.quot_opp_l by lia. rewrite Z.quot_div_nonneg by lia. reflexivity. }
      rewrite E. assert (0 <= (- n) / d) by (apply Z.div_pos; lia).
      assert ((- n) / d <= 9223372036854775808) by (apply Z.div_le_upper_bound; lia). lia.
    - rewrite Z.quot_div_nonneg by lia. assert (0 <= n / d) by (apply Z.div_pos; lia).
      assert (n / d < 9223372036854775808) by (apply Z.div_lt_upper_bound; lia). lia.
  Qed.

  (* the conversion is truncation whenever the rational is in lowest-enough terms:
     outside the int64 window the denominator must be 1 (true for every valid float) *)
  Lemma finiteFloatToInt_q_exact n d : 0 < d ->
    (d = 1 \/ Z.abs n < 9223372036854775808) ->
    canonical I (finiteFloatToInt_q I n d) = true /\ value I (finiteFloatToInt_q I n d) = Z.quot n d.
  Proof.
    intros Hd Hv. unfold finiteFloatToInt_q.
    destruct ((min_int64 * d <=? n) && (n <? 9223372036854775808 * d)) eqn:G.
    - rewrite wrap64_id by (apply quot_small_range; lia). apply MakeInt64_ok; assumption.
    - destruct Hv as [->|Hv].
      + rewrite Z.div_1_r, Z.quot_1_r. apply MakeBigInt_ok; assumption.
      + exfalso. rng. nia.
  Qed.

  Lemma valid_rational_cond f n d : valid_float f = true -> rational f = Some (n, d) ->
    0 < d /\ (d = 1 \/ Z.abs n < 9223372036854775808).
  Proof.
    intros V R. destruct f as [s|s| |s m e]; cbn [rational] in R; try discriminate.
    - injection R as <- <-. lia.
    - destruct (valid_mantissa s m e V) as [B _]. destruct (0 <=? e) eqn:E; injection R as <- <-.
      + lia.
      + split; [apply Z.pow_pos_nonneg; lia|]. right. change (2 ^ 53) with 9007199254740992 in B. destruct s; lia.
  Qed.

  Lemma float_to_int_lemma f : valid_float f = true ->
    match finiteFloatToInt I f, spec_int_of_float f with
    | Some i, Some z => canonical I i = true /\ value I i = z
    | None, None => True
    | _, _ => False
    end.
  Proof.
    intros V. unfold finiteFloatToInt, spec_int_of_float.
    pose proof (rational_me f) as RM. pose proof (valid_rational_cond f) as VC.
    destruct (rational f) as [[n d]|]; destruct (float_me f) as [[m e]|]; try contradiction; try exact Logic.I.
    destruct (VC n d V eq_refl) as [Hd Hc]. destruct RM as [_ RM].
    destruct (finiteFloatToInt_q_exact n d Hd Hc) as [C Vq]. split; [assumption|]. rewrite Vq.
    unfold trunc_me. destruct (0 <=? e); destruct RM as [-> ->]; [apply Z.quot_1_r|reflexivity].
  Qed.

  Lemma NumberToInt_lemma x : match x with NFloat f => valid_float f = true | NInt _ => True end ->
    match NumberToInt I x, (match x with NInt z => Some z | NFloat f => spec_int_of_float f end) with
    | Ok i, Some z => canonical I i = true /\ value I i = z
    | Err, None => True
    | _, _ => False
    end.
  Proof.
    destruct x as [z|f]; intros V; cbn [NumberToInt].
    - apply MakeBigInt_ok; assumption.
    - pose proof (float_to_int_lemma f V) as H.
      destruct f as [s|s| |s m e]; cbn [spec_int_of_float float_me] in *; try exact Logic.I;
        destruct (finiteFloatToInt I _); try contradiction; assumption.
  Qed.

  Lemma integer_q_exact z :
    canonical I (finiteFloatToInt_q I z 1) = true /\ value I (finiteFloatToInt_q I z 1) = z.
  Proof.
    destruct (finiteFloatToInt_q_exact z 1 ltac:(lia) ltac:(left; reflexivity)) as [C V].
    split; [assumption|]. rewrite V. apply Z.quot_1_r.
  Qed.

  Lemma math_floor_ceil_lemma x : match x with NFloat f => valid_float f = true | NInt _ => True end ->
    (match math_floor I x, (match x with NInt z => Some z | NFloat f => spec_floor f end) with
     | Ok i, Some z => canonical I i = true /\ value I i = z
     | Err, None => True
     | _, _ => False
     end) /\
    (match math_ceil I x, (match x with NInt z => Some z | NFloat f => spec_ceil f end) with
     | Ok i, Some z => canonical I i = true /\ value I i = z
     | Err, None => True
     | _, _ => False
     end).
  Proof.
    destruct x as [z|f]; intros V; cbn [math_floor math_ceil].
    - split; apply MakeBigInt_ok; assumption.
    - unfold spec_floor, spec_ceil. pose proof (rational_me f) as RM.
      destruct (rational f) as [[n d]|]; destruct (float_me f) as [[m e]|]; try contradiction; try (split; exact Logic.I).
      destruct RM as [Hd RM]. split.
      + destruct (integer_q_exact (n / d)) as [C Vq]. split; [assumption|]. rewrite Vq.
        unfold floor_me. destruct (0 <=? e); destruct RM as [-> ->]; [apply Z.div_1_r|reflexivity].
      + destruct (integer_q_exact (- (- n / d))) as [C Vq]. split; [assumption|]. rewrite Vq.
        unfold ceil_me. destruct (0 <=? e); destruct RM as [-> ->]; [rewrite Z.div_1_r; lia|reflexivity].
  Qed.

  (* ---------- int / float comparison *)
  Lemma threeway_holds c k : threeway c (cmp_to_int k) = holds c k.
  Proof. destruct c, k; reflexivity. Qed.

  Lemma cmp_int_float_lemma (x : T I) f :
    cmp_int_float I x f = cmp_to_int (spec_cmp_int_float (value I x) f) /\
    cmp_float_int I f x = cmp_to_int (CompOpp (spec_cmp_int_float (value I x) f)).
  Proof.
    unfold cmp_int_float, cmp_float_int, spec_cmp_int_float. pose proof (rational_me f) as RM.
    destruct f as [s|s| |s m e]; cbn [rational float_me] in *.
    - unfold rat_cmp, cmp_Z_me. cbn [Z.leb Z.compare]. change (bigInt I x) with (value I x).
      rewrite !Z.mul_1_r. cbn [Z.pow Z.mul]. split; [reflexivity|]. rewrite Z.compare_antisym. reflexivity.
    - destruct s; split; reflexivity.
    - split; reflexivity.
    - destruct (0 <=? e) eqn:E; unfold rat_cmp, cmp_Z_me; rewrite E; change (bigInt I x) with (value I x);
        rewrite ?Z.mul_1_r; (split; [reflexivity|]); rewrite Z.compare_antisym; reflexivity.
  Qed.

  Lemma compare_int_float_lemma c (x : T I) f :
    Compare_if I c x f = spec_compare_if c (value I x) f /\
    Compare_fi I c f x = spec_compare_fi c f (value I x).
  Proof.
    unfold Compare_if, Compare_fi, spec_compare_if, spec_compare_fi.
    destruct (cmp_int_float_lemma x f) as [A B]. rewrite A, B, !threeway_holds. split; reflexivity.
  Qed.

  (* ---------- membership of ints and floats in a range *)
  Lemma range_has_lemma r y : range_wf r ->
    match y with NFloat f => valid_float f = true | NInt _ => True end ->
    range_has I r y =
      match spec_range_has (r_start r) (r_stop r) (r_step r) y with Some b => Ok b | None => Err end.
  Proof.
    intros W V. unfold range_has. pose proof (NumberToInt_lemma y V) as N.
    destruct y as [z|f].
    - destruct (NumberToInt I (NInt z)) as [i|]; [|contradiction]. destruct N as [C Vi].
      cbn [spec_range_has]. rewrite (range_contains_exact I OK r i W C), Vi. reflexivity.
    - cbn [spec_range_has]. unfold spec_int_of_float in N. pose proof (rational_me f) as RM.
      destruct (NumberToInt I (NFloat f)) as [i|].
      + destruct (float_me f) as [[m e]|]; [|contradiction]. destruct N as [C Vi].
        destruct (rational f) as [[n d]|]; [|contradiction]. destruct RM as [Hd RM].
        rewrite (range_contains_exact I OK r i W C), Vi.
        unfold integral_me. destruct (0 <=? e); destruct RM as [-> ->].
        * rewrite Z.mod_1_r. reflexivity.
        * destruct (m mod 2 ^ (- e) =? 0); reflexivity.
      + destruct (float_me f) as [[m e]|]; [contradiction|]. reflexivity.
  Qed.

  (* ---------- int -> float: the shortcut for huge values is consistent with
     the sign, and every arm that converts uses round-to-nearest-even *)
  Lemma Int_Float_lemma (x : T I) : canonical I x = true ->
    Int_Float I x = if 1024 <? bitlen (value I x) then S754_infinity (value I x <? 0) else Z_to_float (value I x).
  Proof.
    intros Hx. unfold Int_Float.
    destruct (canon_cases I x Hx) as [[G R]|[s [G R]]]; rewrite G.
    - assert (B : (1024 <? bitlen (value I x)) = false).
      { rewrite (bitlen_lt (value I x) 1025 ltac:(lia)) || idtac.
        assert (H : (bitlen (value I x) <? 1025) = true).
        { rewrite bitlen_lt by lia. assert (2 ^ 31 <= 2 ^ (1025 - 1)) by (apply Z.pow_le_mono_r; lia).
          change (2 ^ 31) with 2147483648 in *. rng. lia. }
        lia. }
      rewrite B. reflexivity.
    - set (v := value I x) in *.
      destruct ((0 <=? v) && (v <=? max_uint64)) eqn:U.
      + assert (B : (bitlen v <? 1025) = true).
        { rewrite bitlen_lt by lia. assert (2 ^ 64 <= 2 ^ (1025 - 1)) by (apply Z.pow_le_mono_r; lia).
          change (2 ^ 64) with 18446744073709551616 in *. unfold max_uint64 in *. lia. }
        assert (B' : (1024 <? bitlen v) = false) by lia. rewrite B'. reflexivity.
      + destruct (in_int64 v) eqn:S64.
        * assert (B : (bitlen v <? 1025) = true).
          { rewrite bitlen_lt by lia. assert (2 ^ 64 <= 2 ^ (1025 - 1)) by (apply Z.pow_le_mono_r; lia).
            change (2 ^ 64) with 18446744073709551616 in *. rng. lia. }
          assert (B' : (1024 <? bitlen v) = false) by lia. rewrite B'. reflexivity.
        * destruct (1024 <? bitlen v); reflexivity.
  Qed.
End WithInt.

(* ---------- int -> float is exact for every integer of fewer than 54 bits:
   SpecFloat's round-to-nearest-even conversion does not round at all there *)
Lemma digits2_pos_lower p : 2 ^ (Zpos (digits2_pos p) - 1) <= Zpos p.
Proof.
  induction p as [p IH|p IH|]; cbn [digits2_pos].
  - rewrite Pos2Z.inj_succ. replace (Z.succ (Zpos (digits2_pos p)) - 1) with (Z.succ (Zpos (digits2_pos p) - 1)) by lia.
    rewrite Z.pow_succ_r by lia. lia.
  - rewrite Pos2Z.inj_succ. replace (Z.succ (Zpos (digits2_pos p)) - 1) with (Z.succ (Zpos (digits2_pos p) - 1)) by lia.
    rewrite Z.pow_succ_r by lia. lia.
  - cbn. lia.
Qed.

Lemma digits2_le_53 p : Zpos p < 2 ^ 53 -> Zpos (digits2_pos p) <= 53.
Proof.
  intros H. pose proof (digits2_pos_lower p) as L.
  destruct (Z_le_gt_dec (Zpos (digits2_pos p)) 53) as [|G]; [assumption|exfalso].
  assert (2 ^ 53 <= 2 ^ (Zpos (digits2_pos p) - 1)) by (apply Z.pow_le_mono_r; lia). lia.
Qed.

Lemma digits2_shift d p : digits2_pos (shift_pos d p) = (digits2_pos p + d)%positive.
Proof.
  unfold shift_pos. induction d using Pos.peano_ind.
  - cbn. lia.
  - rewrite Pos.iter_succ. cbn [digits2_pos]. rewrite IHd. lia.
Qed.

Lemma shift_pos_val d p : Zpos (shift_pos d p) = Zpos p * 2 ^ Zpos d.
Proof. rewrite shift_pos_correct. rewrite Zpower_pos_nat, Zpower_nat_Z, positive_nat_Z. lia. Qed.

Lemma round_aux_exact sx mz ez : digits2_pos mz = 53%positive -> -1074 <= ez <= 971 ->
  binary_round_aux 53 1024 sx (Zpos mz) ez loc_Exact = S754_finite sx mz ez.
Proof.
  intros Hd He. unfold binary_round_aux, shr_fexp. cbn [Zdigits2]. rewrite Hd.
  assert (F : fexp 53 1024 (53 + ez) - ez = 0) by (unfold fexp, emin; lia).
  rewrite F. cbn [shr shr_record_of_loc shr_m loc_of_shr_record round_nearest_even Zdigits2]. rewrite Hd, F.
  cbn [shr shr_record_of_loc shr_m].
  assert (L : Zle_bool ez (1024 - 53) = true) by (apply Zle_imp_le_bool; lia). rewrite L. reflexivity.
Qed.

Lemma binary_round_exact sx p : Zpos p < 2 ^ 53 ->
  exists m e, binary_round 53 1024 sx p 0 = S754_finite sx m e /\ -52 <= e <= 0 /\ Zpos m = Zpos p * 2 ^ (- e) /\
              valid_float (S754_finite sx m e) = true.
Proof.
  intros H. pose proof (digits2_le_53 p H) as D.
  unfold binary_round.
  assert (F : fexp 53 1024 (Zpos (digits2_pos p) + 0) = Zpos (digits2_pos p) - 53).
  { unfold fexp, emin. lia. }
  rewrite F. unfold shl_align.
  destruct (Zpos (digits2_pos p) - 53 - 0) as [|q|q] eqn:E.
  - assert (Hd : digits2_pos p = 53%positive) by lia.
    rewrite (round_aux_exact sx p 0 Hd ltac:(lia)). exists p, 0. split; [reflexivity|]. split; [lia|]. split; [cbn; lia|].
    unfold valid_float, valid_binary, bounded, canonical_mantissa. rewrite Hd. reflexivity.
  - lia.
  - assert (Hq : Zpos q = 53 - Zpos (digits2_pos p)) by lia.
    assert (Hd : digits2_pos (shift_pos q p) = 53%positive) by (rewrite digits2_shift; lia).
    rewrite (round_aux_exact sx (shift_pos q p) (Zpos (digits2_pos p) - 53) Hd ltac:(lia)).
    exists (shift_pos q p), (Zpos (digits2_pos p) - 53). split; [reflexivity|]. split; [lia|].
    split; [rewrite shift_pos_val; f_equal; f_equal; lia|].
    unfold valid_float, valid_binary, bounded, canonical_mantissa. rewrite Hd.
    assert (F2 : fexp 53 1024 (53 + (Zpos (digits2_pos p) - 53)) = Zpos (digits2_pos p) - 53) by (unfold fexp, emin; lia).
    rewrite F2.
    apply andb_true_iff. split; [apply Zeq_is_eq_bool; reflexivity|apply Zle_imp_le_bool; lia].
Qed.

(* every integer of magnitude below 2^53 converts to a float of exactly that value *)
Lemma Z_to_float_exact z : Z.abs z < 2 ^ 53 ->
  valid_float (Z_to_float z) = true /\
  spec_int_of_float (Z_to_float z) = Some z /\
  spec_cmp_int_float z (Z_to_float z) = Eq.
Proof.
  intros H. unfold Z_to_float, binary_normalize. destruct z as [|p|p].
  - repeat split.
  - destruct (binary_round_exact false p ltac:(lia)) as (m & e & E & He & Hm & V). rewrite E.
    split; [exact V|]. unfold spec_int_of_float, spec_cmp_int_float, float_me, trunc_me, cmp_Z_me.
    assert (P : 0 < 2 ^ (- e)) by (apply Z.pow_pos_nonneg; lia).
    destruct (0 <=? e) eqn:E0.
    + assert (e = 0) by lia. subst e. cbn [Z.opp Z.pow] in Hm. split; [f_equal; cbn; lia|]. apply Z.compare_eq_iff. cbn. lia.
    + split; [f_equal; rewrite Hm; apply Z.quot_mul; lia|]. apply Z.compare_eq_iff. lia.
  - destruct (binary_round_exact true p ltac:(lia)) as (m & e & E & He & Hm & V). rewrite E.
    split; [exact V|]. unfold spec_int_of_float, spec_cmp_int_float, float_me, trunc_me, cmp_Z_me.
    assert (P : 0 < 2 ^ (- e)) by (apply Z.pow_pos_nonneg; lia).
    assert (N : Zneg m = Zneg p * 2 ^ (- e)) by lia.
    destruct (0 <=? e) eqn:E0.
    + assert (e = 0) by lia. subst e. cbn [Z.opp Z.pow] in N. split; [f_equal; cbn; lia|]. apply Z.compare_eq_iff. cbn. lia.
    + split; [f_equal; rewrite N; apply Z.quot_mul; lia|]. apply Z.compare_eq_iff. lia.
Qed.

Lemma Int_Float_exact_lemma I (x : T I) : canonical I x = true -> Z.abs (value I x) < 2 ^ 53 ->
  valid_float (Int_Float I x) = true /\
  spec_int_of_float (Int_Float I x) = Some (value I x) /\
  spec_cmp_int_float (value I x) (Int_Float I x) = Eq /\
  finiteFloat I x = Ok (Int_Float I x).
Proof.
  intros Hx Hb. rewrite (Int_Float_lemma I x Hx).
  assert (B : (1024 <? bitlen (value I x)) = false).
  { assert (H : (bitlen (value I x) <? 1025) = true).
    { rewrite bitlen_lt by lia. assert (2 ^ 53 <= 2 ^ (1025 - 1)) by (apply Z.pow_le_mono_r; lia). lia. }
    lia. }
  destruct (Z_to_float_exact (value I x) Hb) as (V & T & C).
  assert (FF : finiteFloat I x = Ok (Z_to_float (value I x))).
  { unfold finiteFloat. rewrite (Int_Float_lemma I x Hx), B.
    destruct (Z_to_float (value I x)) eqn:E; try reflexivity. cbn in T. discriminate. }
  rewrite B. repeat split; assumption.
Qed.
