(* C10 -- lemmas about the Int union and the operations of int.go *)
From Coq Require Import ZArith Bool List Lia.
From Coq Require Import ZifyBool.
From SV Require Import Common.GoInt C10.Model C10.Spec.
Open Scope Z_scope.

(* ---------- isSmall is exactly the int32 range test *)
Lemma bitlen_lt z n : 0 < n -> (bitlen z <? n) = (Z.abs z <? 2 ^ (n - 1)).
Proof.
  intros Hn. unfold bitlen. destruct (z =? 0) eqn:E.
  - apply Z.eqb_eq in E. subst. cbn [Z.abs].
    assert (0 < 2 ^ (n - 1)) by (apply Z.pow_pos_nonneg; lia). lia.
  - apply Z.eqb_neq in E. assert (Ha : 0 < Z.abs z) by lia.
    pose proof (Z.log2_lt_pow2 (Z.abs z) (n - 1) Ha) as L.
    destruct (Z.abs z <? 2 ^ (n - 1)) eqn:F.
    + apply Z.ltb_lt in F. apply L in F. lia.
    + apply Z.ltb_ge in F. apply Z.ltb_ge.
      destruct (Z_lt_le_dec (Z.log2 (Z.abs z)) (n - 1)) as [G|G]; [apply L in G; lia | lia].
Qed.

Lemma isSmall_spec z : isSmall z = in_int32 z.
Proof.
  unfold isSmall.
  assert (H32 : (bitlen z =? 32) = negb (bitlen z <? 32) && (bitlen z <? 33)) by lia.
  rewrite H32. rewrite (bitlen_lt z 32), (bitlen_lt z 33) by lia.
  change (2 ^ (32 - 1)) with 2147483648. change (2 ^ (33 - 1)) with 4294967296.
  unfold in_int32, min_int32, max_int32.
  destruct (Z.abs z <? 4294967296) eqn:A.
  - assert (W : wrap64 z = z) by (apply wrap64_id; unfold in_int64, min_int64, max_int64; lia).
    rewrite W. lia.
  - lia.
Qed.

(* ---------- a right shift by more than the bit length is 0 or -1 *)
Lemma shr_far x n : 0 <= n -> Z.log2 (Z.abs x) < n -> x / 2 ^ n = if x <? 0 then -1 else 0.
Proof.
  intros Hn Hl.
  assert (P : 0 < 2 ^ n) by (apply Z.pow_pos_nonneg; lia).
  assert (B : Z.abs x < 2 ^ n).
  { destruct (Z.eq_dec x 0) as [->|NZ]; [cbn; lia|]. apply Z.log2_lt_pow2; lia. }
  destruct (x <? 0) eqn:E.
  - symmetry. apply (Z.div_unique x (2 ^ n) (-1) (x + 2 ^ n)); lia.
  - apply Z.div_small. lia.
Qed.

Lemma big_rsh_shiftr x n : 0 <= n -> big_rsh x n = Z.shiftr x n.
Proof.
  intros Hn. unfold big_rsh. destruct (Z.log2 (Z.abs x) <? n) eqn:E; [|reflexivity].
  rewrite Z.shiftr_div_pow2 by assumption. symmetry. apply shr_far; lia.
Qed.

(* evaluation form of the specification used by C10.Cases: identical to
   spec_binary, but a shift count far beyond the operand's length is answered
   without computing 2^count *)
Definition spec_binary_eval (o : binop) (x y : Z) : option Z :=
  match o with
  | RSH => if (y <? 0) || (max_int32 <? y) then None
           else if Z.log2 (Z.abs x) <? y then Some (if x <? 0 then -1 else 0) else Some (x / 2 ^ y)
  | _ => spec_binary o x y
  end.

Lemma spec_binary_eval_eq o x y : spec_binary_eval o x y = spec_binary o x y.
Proof.
  destruct o; try reflexivity. cbn [spec_binary_eval spec_binary].
  destruct ((y <? 0) || (max_int32 <? y)) eqn:E; [reflexivity|].
  destruct (Z.log2 (Z.abs x) <? y) eqn:F; [|reflexivity].
  f_equal. symmetry. apply shr_far; lia.
Qed.

(* ---------- canonical representation *)
Definition canonical (I : int_impl) (x : T I) : bool :=
  match get I x with
  | (s, None) => in_int32 s
  | (_, Some b) => negb (in_int32 b)
  end.

Record impl_ok (I : int_impl) : Prop := {
  mk_small : forall z, in_int32 z = true -> get I (makeSmallInt I z) = (z, None);
  mk_big : forall z, in_int32 z = false -> get I (makeBigInt I z) = (0, Some z)
}.

Lemma union_ok : impl_ok union_impl.
Proof. split; intros; reflexivity. Qed.

Lemma fallback_ok : impl_ok fallback_impl.
Proof.
  split; intros z H; cbn [get fallback_impl makeSmallInt makeBigInt]; rewrite isSmall_spec, H.
  - rewrite wrap64_id; [reflexivity|]. unfold in_int32, in_int64, min_int32, max_int32, min_int64, max_int64 in *. lia.
  - reflexivity.
Qed.

(* every value of the fallback representation is canonical: the arm is recomputed on each access *)
Lemma fallback_canonical z : canonical fallback_impl z = true.
Proof.
  unfold canonical. cbn [get fallback_impl]. rewrite isSmall_spec.
  destruct (in_int32 z) eqn:E; [|cbn; rewrite E; reflexivity].
  rewrite wrap64_id; [assumption|]. unfold in_int32, in_int64, min_int32, max_int32, min_int64, max_int64 in *. lia.
Qed.

Lemma fallback_value z : value fallback_impl z = z.
Proof.
  unfold value, bigInt. cbn [get fallback_impl]. rewrite isSmall_spec.
  destruct (in_int32 z) eqn:E; [|reflexivity].
  apply wrap64_id. unfold in_int32, in_int64, min_int32, max_int32, min_int64, max_int64 in *. lia.
Qed.

Lemma int32_int64 z : in_int32 z = true -> in_int64 z = true.
Proof. unfold in_int32, in_int64, min_int32, max_int32, min_int64, max_int64. lia. Qed.

Section Generic.
  Variable I : int_impl.
  Hypothesis OK : impl_ok I.
  Notation t := (T I).
  Notation val := (value I).
  Notation canon := (canonical I).

  Lemma canon_cases x :
    canon x = true ->
    (get I x = (val x, None) /\ in_int32 (val x) = true) \/
    (exists s, get I x = (s, Some (val x)) /\ in_int32 (val x) = false).
  Proof.
    unfold canonical, value, bigInt. destruct (get I x) as [s [b|]]; intros H.
    - right. exists s. split; [reflexivity|]. destruct (in_int32 b); [discriminate|reflexivity].
    - left. split; [reflexivity|assumption].
  Qed.

  Lemma small_ok z : in_int32 z = true -> canon (makeSmallInt I z) = true /\ val (makeSmallInt I z) = z.
  Proof.
    intros H. unfold canonical, value, bigInt. rewrite (mk_small I OK z H). split; [assumption|reflexivity].
  Qed.

  Lemma big_ok z : in_int32 z = false -> canon (makeBigInt I z) = true /\ val (makeBigInt I z) = z.
  Proof.
    intros H. unfold canonical, value, bigInt. rewrite (mk_big I OK z H). rewrite H. split; reflexivity.
  Qed.

  Lemma MakeBigInt_ok z : canon (MakeBigInt I z) = true /\ val (MakeBigInt I z) = z.
  Proof.
    unfold MakeBigInt. rewrite isSmall_spec. destruct (in_int32 z) eqn:E.
    - rewrite wrap64_id by (apply int32_int64; assumption). apply small_ok; assumption.
    - apply big_ok; assumption.
  Qed.

  Lemma MakeInt64_ok z : canon (MakeInt64 I z) = true /\ val (MakeInt64 I z) = z.
  Proof.
    unfold MakeInt64. change ((min_int32 <=? z) && (z <=? max_int32)) with (in_int32 z).
    destruct (in_int32 z) eqn:E; [apply small_ok | apply big_ok]; assumption.
  Qed.

  Lemma MakeUint64_ok z : 0 <= z -> canon (MakeUint64 I z) = true /\ val (MakeUint64 I z) = z.
  Proof.
    intros Hz. unfold MakeUint64. destruct (z <=? max_int32) eqn:E.
    - assert (in_int32 z = true) by (unfold in_int32, min_int32, max_int32 in *; lia).
      rewrite wrap64_id by (apply int32_int64; assumption). apply small_ok; assumption.
    - apply big_ok. unfold in_int32, min_int32, max_int32 in *. lia.
  Qed.

  (* a tactic: split the two operands into their arms *)
  Ltac arms x Hx :=
    let s := fresh "s" in let G := fresh "G" in let R := fresh "R" in
    destruct (canon_cases x Hx) as [[G R]|[s [G R]]].

  Definition res_is (r : t) (z : Z) : Prop := canon r = true /\ val r = z.

  Lemma bigInt_val x : bigInt I x = val x. Proof. reflexivity. Qed.

  Ltac ifs := repeat match goal with |- context [if ?c then _ else _] => destruct c eqn:? end.
  Ltac range32 := unfold in_int32, in_int64, min_int32, max_int32, min_int64, max_int64 in *.

  Lemma Add_ok x y : canon x = true -> canon y = true -> res_is (Add I x y) (val x + val y).
  Proof.
    intros Hx Hy. unfold Add, res_is. arms x Hx; arms y Hy; rewrite G, G0; cbn [either_big is_some orb];
      change (bigInt I x) with (val x); change (bigInt I y) with (val y); try apply MakeBigInt_ok.
    rewrite wrap64_id by (range32; lia). apply MakeInt64_ok.
  Qed.

  Lemma Sub_ok x y : canon x = true -> canon y = true -> res_is (Sub I x y) (val x - val y).
  Proof.
    intros Hx Hy. unfold Sub, res_is. arms x Hx; arms y Hy; rewrite G, G0; cbn [either_big is_some orb];
      change (bigInt I x) with (val x); change (bigInt I y) with (val y); try apply MakeBigInt_ok.
    rewrite wrap64_id by (range32; lia). apply MakeInt64_ok.
  Qed.

  Lemma Mul_ok x y : canon x = true -> canon y = true -> res_is (Mul I x y) (val x * val y).
  Proof.
    intros Hx Hy. unfold Mul, res_is. arms x Hx; arms y Hy; rewrite G, G0; cbn [either_big is_some orb];
      change (bigInt I x) with (val x); change (bigInt I y) with (val y); try apply MakeBigInt_ok.
    rewrite wrap64_id by (range32; nia). apply MakeInt64_ok.
  Qed.

  (* ---------- bitwise operations keep the int32 range *)
  Lemma int32_shiftr z : in_int32 z = true <-> (Z.shiftr z 31 = 0 \/ Z.shiftr z 31 = -1).
  Proof.
    rewrite Z.shiftr_div_pow2 by lia. change (2 ^ 31) with 2147483648.
    range32. split; intros H.
    - assert (-1 <= z / 2147483648 < 1).
      { split; [apply Z.div_le_lower_bound | apply Z.div_lt_upper_bound]; lia. }
      lia.
    - pose proof (Z.div_mod z 2147483648 ltac:(lia)). pose proof (Z.mod_pos_bound z 2147483648 ltac:(lia)).
      destruct H as [H|H]; rewrite H in *; lia.
  Qed.

  Lemma int32_bitop (f : Z -> Z -> Z) a b :
    (forall x y n, Z.shiftr (f x y) n = f (Z.shiftr x n) (Z.shiftr y n)) ->
    (forall x y, (x = 0 \/ x = -1) -> (y = 0 \/ y = -1) -> (f x y = 0 \/ f x y = -1)) ->
    in_int32 a = true -> in_int32 b = true -> in_int32 (f a b) = true.
  Proof.
    intros Hs Hc Ha Hb. apply int32_shiftr. rewrite Hs. apply Hc; apply int32_shiftr; assumption.
  Qed.

  Lemma int32_lor a b : in_int32 a = true -> in_int32 b = true -> in_int32 (Z.lor a b) = true.
  Proof.
    apply int32_bitop. { intros; apply Z.shiftr_lor. }
    intros x y [->| ->] [->| ->]; cbn; auto.
  Qed.
  Lemma int32_land a b : in_int32 a = true -> in_int32 b = true -> in_int32 (Z.land a b) = true.
  Proof.
    apply int32_bitop. { intros; apply Z.shiftr_land. }
    intros x y [->| ->] [->| ->]; cbn; auto.
  Qed.
  Lemma int32_lxor a b : in_int32 a = true -> in_int32 b = true -> in_int32 (Z.lxor a b) = true.
  Proof.
    apply int32_bitop. { intros; apply Z.shiftr_lxor. }
    intros x y [->| ->] [->| ->]; cbn; auto.
  Qed.

  Lemma Or_ok x y : canon x = true -> canon y = true -> res_is (Or I x y) (Z.lor (val x) (val y)).
  Proof.
    intros Hx Hy. unfold Or, res_is. arms x Hx; arms y Hy; rewrite G, G0; cbn [either_big is_some orb];
      change (bigInt I x) with (val x); change (bigInt I y) with (val y); try apply MakeBigInt_ok.
    apply small_ok. apply int32_lor; assumption.
  Qed.
  Lemma And_ok x y : canon x = true -> canon y = true -> res_is (And I x y) (Z.land (val x) (val y)).
  Proof.
    intros Hx Hy. unfold And, res_is. arms x Hx; arms y Hy; rewrite G, G0; cbn [either_big is_some orb];
      change (bigInt I x) with (val x); change (bigInt I y) with (val y); try apply MakeBigInt_ok.
    apply small_ok. apply int32_land; assumption.
  Qed.
  Lemma Xor_ok x y : canon x = true -> canon y = true -> res_is (Xor I x y) (Z.lxor (val x) (val y)).
  Proof.
    intros Hx Hy. unfold Xor, res_is. arms x Hx; arms y Hy; rewrite G, G0; cbn [either_big is_some orb];
      change (bigInt I x) with (val x); change (bigInt I y) with (val y); try apply MakeBigInt_ok.
    apply small_ok. apply int32_lxor; assumption.
  Qed.

  Lemma lnot_eq z : Z.lnot z = - z - 1.
  Proof. unfold Z.lnot. lia. Qed.

  Lemma Not_ok x : canon x = true -> res_is (Not I x) (- val x - 1).
  Proof.
    intros Hx. unfold Not, res_is. arms x Hx; rewrite G.
    - rewrite lnot_eq. apply small_ok. range32. lia.
    - rewrite lnot_eq. apply MakeBigInt_ok.
  Qed.

  Lemma Lsh_ok x n : 0 <= n -> res_is (Lsh I x n) (val x * 2 ^ n).
  Proof. intros Hn. unfold Lsh, res_is. change (bigInt I x) with (val x); rewrite Z.shiftl_mul_pow2 by assumption. apply MakeBigInt_ok. Qed.

  Lemma Rsh_ok x n : 0 <= n -> res_is (Rsh I x n) (val x / 2 ^ n).
  Proof. intros Hn. unfold Rsh, res_is. change (bigInt I x) with (val x); rewrite big_rsh_shiftr, Z.shiftr_div_pow2 by assumption. apply MakeBigInt_ok. Qed.

  Lemma Sign_ok x : canon x = true -> Sign I x = sign_of (val x).
  Proof.
    intros Hx. unfold Sign, sign_of, signum64. arms x Hx; rewrite G.
    - destruct (val x <? 0) eqn:A; [reflexivity|]. destruct (0 <? val x) eqn:B; destruct (val x =? 0) eqn:C; lia.
    - pose proof (Z.sgn_spec (val x)).
      destruct (val x <? 0) eqn:A; [lia|]. destruct (val x =? 0) eqn:C; lia.
  Qed.

  (* ---------- floored division from truncated division: the correction step *)
  (* q, r : truncated quotient and remainder (Go's / and %, big.Int.QuoRem) *)
  Lemma floor_correction a b :
    b <> 0 ->
    let q := Z.quot a b in let r := Z.rem a b in
    let fix_ := negb (Bool.eqb (a <? 0) (b <? 0)) && negb (r =? 0) in
    (if fix_ then q - 1 else q) = a / b /\ (if fix_ then r + b else r) = a mod b.
  Proof.
    intros Hb q r fix_.
    pose proof (Z.quot_rem' a b) as E. fold q r in E.
    assert (Hr : Z.abs r < Z.abs b) by (apply Z.rem_bound_abs; assumption).
    assert (Hs : r = 0 \/ (0 < r /\ 0 < a) \/ (r < 0 /\ a < 0)).
    { pose proof (Z.rem_sign_nz a b Hb) as S. fold r in S.
      destruct (Z.eq_dec r 0) as [Z0|NZ]; [left; assumption|right].
      specialize (S NZ). pose proof (Z.sgn_spec r). pose proof (Z.sgn_spec a). lia. }
    assert (U : forall q' r', a = b * q' + r' -> (0 <= r' < b \/ b < r' <= 0) -> q' = a / b /\ r' = a mod b).
    { intros q' r' E' B'. split; [apply (Z.div_unique a b q' r') | apply (Z.mod_unique a b q' r')]; assumption. }
    subst fix_. destruct (negb (Bool.eqb (a <? 0) (b <? 0)) && negb (r =? 0)) eqn:F.
    - apply U; lia.
    - apply U; lia.
  Qed.

  Lemma sgn_ltb z : (Z.sgn z <? 0) = (z <? 0).
  Proof. pose proof (Z.sgn_spec z). lia. Qed.
  Lemma sgn_eqb z : (Z.sgn z =? 0) = (z =? 0).
  Proof. pose proof (Z.sgn_spec z). lia. Qed.

  Lemma Div_ok x y : canon x = true -> canon y = true -> val y <> 0 -> res_is (Div I x y) (val x / val y).
  Proof.
    intros Hx Hy Hnz. unfold Div, res_is. cbv zeta.
    pose proof (floor_correction (val x) (val y) Hnz) as [FQ _]. cbv zeta in FQ.
    arms x Hx; arms y Hy; rewrite G, G0; cbn [either_big is_some orb]; change (bigInt I x) with (val x); change (bigInt I y) with (val y).
    2,3,4: rewrite !sgn_ltb, sgn_eqb, FQ; apply MakeBigInt_ok.
    assert (Q : in_int64 (Z.quot (val x) (val y)) = true).
    { pose proof (quot_bound (val x) (val y) Hnz). range32. lia. }
    assert (Rm : in_int64 (Z.rem (val x) (val y)) = true).
    { pose proof (Z.rem_bound_abs (val x) (val y) Hnz). range32. lia. }
    rewrite (wrap64_id _ Q), (wrap64_id _ Rm).
    assert (W : wrap64 (Z.quot (val x) (val y) - 1) = Z.quot (val x) (val y) - 1).
    { apply wrap64_id. pose proof (quot_bound (val x) (val y) Hnz). range32. lia. }
    rewrite W, FQ. apply MakeInt64_ok.
  Qed.

  Lemma Mod_ok x y : canon x = true -> canon y = true -> val y <> 0 -> res_is (Mod I x y) (val x mod val y).
  Proof.
    intros Hx Hy Hnz. unfold Mod, res_is. cbv zeta.
    pose proof (floor_correction (val x) (val y) Hnz) as [_ FR]. cbv zeta in FR.
    arms x Hx; arms y Hy; rewrite G, G0; cbn [either_big is_some orb]; change (bigInt I x) with (val x); change (bigInt I y) with (val y).
    2,3,4: rewrite !sgn_ltb, sgn_eqb, FR; apply MakeBigInt_ok.
    assert (Rm : in_int64 (Z.rem (val x) (val y)) = true).
    { pose proof (Z.rem_bound_abs (val x) (val y) Hnz). range32. lia. }
    rewrite (wrap64_id _ Rm).
    assert (W : wrap64 (Z.rem (val x) (val y) + val y) = Z.rem (val x) (val y) + val y).
    { apply wrap64_id. pose proof (Z.rem_bound_abs (val x) (val y) Hnz). range32. lia. }
    rewrite W, FR. apply small_ok.
    pose proof (Z.mod_pos_bound (val x) (val y)). pose proof (Z.mod_neg_bound (val x) (val y)).
    range32. lia.
  Qed.

  Lemma Cmp_ok x y : canon x = true -> canon y = true ->
    Cmp I x y = cmp_to_int (Z.compare (val x) (val y)).
  Proof.
    intros Hx Hy. unfold Cmp. arms x Hx; arms y Hy; rewrite G, G0; cbn [either_big is_some orb];
      change (bigInt I x) with (val x); change (bigInt I y) with (val y); try reflexivity.
    rewrite wrap64_id by (range32; lia). unfold signum64, cmp_to_int.
    destruct (Z.compare_spec (val x) (val y)); ifs; lia.
  Qed.

  Lemma Compare_ok c x y : canon x = true -> canon y = true ->
    Compare I c x y = spec_compare c (val x) (val y).
  Proof.
    intros Hx Hy. unfold Compare. rewrite Cmp_ok by assumption.
    unfold threeway, spec_compare, cmp_to_int. destruct (Z.compare_spec (val x) (val y)); destruct c; lia.
  Qed.

  Lemma AsInt32_ok x : canon x = true ->
    AsInt32 I x = if in_int32 (val x) then Some (val x) else None.
  Proof. intros Hx. unfold AsInt32. arms x Hx; rewrite G, R; reflexivity. Qed.

  Lemma Int64_ok x : canon x = true ->
    Int64 I x = if in_int64 (val x) then Some (val x) else None.
  Proof.
    intros Hx. unfold Int64. arms x Hx; rewrite G.
    - rewrite (int32_int64 _ R). reflexivity.
    - rewrite !sgn_ltb. assert (S : (0 <? Z.sgn (val x)) = (0 <? val x)) by (pose proof (Z.sgn_spec (val x)); lia).
      rewrite S. destruct (in_int64 (val x)) eqn:E.
      + rewrite (wrap64_id _ E). range32.
        destruct (0 <? val x) eqn:P; [destruct (9223372036854775807 <? val x) eqn:M; [lia|reflexivity]|].
        destruct (val x <? 0) eqn:N; [destruct (val x <? -9223372036854775808) eqn:M; [lia|reflexivity]|reflexivity].
      + range32.
        destruct (0 <? val x) eqn:P; [destruct (9223372036854775807 <? val x) eqn:M; [reflexivity|lia]|].
        destruct (val x <? 0) eqn:N; [destruct (val x <? -9223372036854775808) eqn:M; [reflexivity|lia]|lia].
  Qed.

  Definition opt_res (r : option t) (z : option Z) : Prop :=
    match r, z with
    | Some r, Some z => res_is r z
    | None, None => True
    | _, _ => False
    end.

  Lemma Binary_ok o x y : canon x = true -> canon y = true ->
    opt_res (Binary I o x y) (spec_binary o (val x) (val y)).
  Proof.
    intros Hx Hy. destruct o; cbn [Binary spec_binary opt_res].
    - apply Add_ok; assumption.
    - apply Sub_ok; assumption.
    - apply Mul_ok; assumption.
    - rewrite (Sign_ok y Hy). unfold sign_of.
      destruct (val y =? 0) eqn:E.
      + assert (Z0 : (val y <? 0) = false) by lia. rewrite Z0. cbn. exact Logic.I.
      + destruct (val y <? 0); cbn; apply Div_ok; try assumption; lia.
    - rewrite (Sign_ok y Hy). unfold sign_of.
      destruct (val y =? 0) eqn:E.
      + assert (Z0 : (val y <? 0) = false) by lia. rewrite Z0. cbn. exact Logic.I.
      + destruct (val y <? 0); cbn; apply Mod_ok; try assumption; lia.
    - apply And_ok; assumption.
    - apply Or_ok; assumption.
    - apply Xor_ok; assumption.
    - rewrite (AsInt32_ok y Hy). destruct (in_int32 (val y)) eqn:E.
      + destruct (val y <? 0) eqn:N; cbn [orb]; [exact Logic.I|].
        destruct (512 <=? val y) eqn:L; [exact Logic.I|]. apply Lsh_ok. lia.
      + assert (F : (val y <? 0) || (512 <=? val y) = true) by (range32; lia). rewrite F. exact Logic.I.
    - rewrite (AsInt32_ok y Hy). destruct (in_int32 (val y)) eqn:E.
      + destruct (val y <? 0) eqn:N; cbn [orb]; [exact Logic.I|].
        assert (F : (max_int32 <? val y) = false) by (range32; lia). rewrite F. apply Rsh_ok. lia.
      + assert (F : (val y <? 0) || (max_int32 <? val y) = true) by (range32; lia). rewrite F. exact Logic.I.
  Qed.

  Lemma zero_ok : res_is (zero I) 0.
  Proof. apply small_ok. reflexivity. Qed.

  Lemma Unary_ok o x : canon x = true -> res_is (Unary I o x) (spec_unary o (val x)).
  Proof.
    intros Hx. destruct o; cbn [Unary spec_unary].
    - split; [assumption|reflexivity].
    - destruct zero_ok as [Z1 Z2]. pose proof (Sub_ok (zero I) x Z1 Hx) as S. rewrite Z2 in S. exact S.
    - apply Not_ok; assumption.
  Qed.

  (* the division law, from the code's correction logic *)
  Lemma floor_div_mod_law x y : canon x = true -> canon y = true -> val y <> 0 ->
    let q := val (Div I x y) in let r := val (Mod I x y) in
    val x = q * val y + r /\ (r = 0 \/ sign_of r = sign_of (val y)) /\ Z.abs r < Z.abs (val y).
  Proof.
    intros Hx Hy Hnz q r.
    destruct (Div_ok x y Hx Hy Hnz) as [_ Q]. destruct (Mod_ok x y Hx Hy Hnz) as [_ Rm].
    subst q r. rewrite Q, Rm.
    pose proof (Z.div_mod (val x) (val y) Hnz).
    pose proof (Z.mod_pos_bound (val x) (val y)). pose proof (Z.mod_neg_bound (val x) (val y)).
    unfold sign_of. split; [lia|]. split; [|lia].
    destruct (val x mod val y =? 0) eqn:E; [left; lia|right]. ifs; lia.
  Qed.
End Generic.

(* ---------- corollaries used by Properties.v *)
Lemma arith_exact_repr_lemma :
  forall o (x y : Z),
    let rU := Binary union_impl o (MakeBigInt union_impl x) (MakeBigInt union_impl y) in
    let rF := Binary fallback_impl o (MakeBigInt fallback_impl x) (MakeBigInt fallback_impl y) in
    match spec_binary o x y with
    | Some z => rU = Some (MakeBigInt union_impl z) /\ rF = Some z
    | None => rU = None /\ rF = None
    end.
Proof.
  intros o x y rU rF.
  destruct (MakeBigInt_ok union_impl union_ok x) as [Cx Vx].
  destruct (MakeBigInt_ok union_impl union_ok y) as [Cy Vy].
  destruct (MakeBigInt_ok fallback_impl fallback_ok x) as [Cx' Vx'].
  destruct (MakeBigInt_ok fallback_impl fallback_ok y) as [Cy' Vy'].
  pose proof (Binary_ok union_impl union_ok o _ _ Cx Cy) as HU.
  pose proof (Binary_ok fallback_impl fallback_ok o _ _ Cx' Cy') as HF.
  rewrite Vx, Vy in HU. rewrite Vx', Vy' in HF. fold rU in HU. fold rF in HF.
  destruct (spec_binary o x y) as [z|].
  - destruct rU as [u|]; [|contradiction]. destruct rF as [f|]; [|contradiction].
    cbn [opt_res] in HU, HF. destruct HU as [CU VU]. destruct HF as [_ VF].
    split.
    + f_equal. (* a canonical union value is determined by its integer *)
      destruct (MakeBigInt_ok union_impl union_ok z) as [Cz Vz].
      revert CU VU Cz Vz. generalize (MakeBigInt union_impl z). intros w.
      unfold canonical, value, bigInt. destruct u as [a|a], w as [b|b]; cbn [get union_impl]; intros; subst; try reflexivity;
        match goal with H : in_int32 ?a = true, H' : negb (in_int32 ?a) = true |- _ => rewrite H in H'; discriminate end.
    + f_equal. rewrite fallback_value in VF. exact VF.
  - destruct rU; [contradiction|]. destruct rF; [contradiction|]. split; reflexivity.
Qed.

Lemma bitwise_bits_lemma :
  forall I, impl_ok I -> forall (x y : T I) n,
    canonical I x = true -> canonical I y = true -> 0 <= n ->
    Z.testbit (value I (And I x y)) n = Z.testbit (value I x) n && Z.testbit (value I y) n /\
    Z.testbit (value I (Or I x y)) n = Z.testbit (value I x) n || Z.testbit (value I y) n /\
    Z.testbit (value I (Xor I x y)) n = xorb (Z.testbit (value I x) n) (Z.testbit (value I y) n) /\
    Z.testbit (value I (Not I x)) n = negb (Z.testbit (value I x) n).
Proof.
  intros I OK x y n Hx Hy Hn.
  destruct (And_ok I OK x y Hx Hy) as [_ A]. destruct (Or_ok I OK x y Hx Hy) as [_ O].
  destruct (Xor_ok I OK x y Hx Hy) as [_ X]. destruct (Not_ok I OK x Hx) as [_ N].
  rewrite A, O, X, N. rewrite Z.land_spec, Z.lor_spec, Z.lxor_spec.
  repeat split. replace (- value I x - 1) with (Z.lnot (value I x)) by (unfold Z.lnot; lia).
  apply Z.lnot_spec. assumption.
Qed.

Lemma to_machine_lemma :
  forall I, impl_ok I -> forall (x : T I), canonical I x = true ->
    Int64 I x = (if in_int64 (value I x) then Some (value I x) else None) /\
    AsInt32 I x = (if in_int32 (value I x) then Some (value I x) else None) /\
    Sign I x = sign_of (value I x).
Proof.
  intros I OK x Hx. split; [apply Int64_ok; assumption|]. split; [apply AsInt32_ok; assumption|apply Sign_ok; assumption].
Qed.

Lemma Compare_exact_lemma :
  forall I, impl_ok I -> forall c (x y : T I), canonical I x = true -> canonical I y = true ->
    Compare I c x y = spec_compare c (value I x) (value I y).
Proof. intros I _. exact (Compare_ok I). Qed.
