(* C10 -- property theorems only.  Each is closed by `exact <lemma>`; axioms are
   printed by the audit step of bin/check (Print Assumptions per theorem). *)
From Coq Require Import ZArith Bool List.
From Coq Require Floats.SpecFloat.
From SV Require Import Common.GoInt C10.Model C10.Spec C10.ProofsInt C10.ProofsRange C10.ProofsSlice C10.ProofsFloat C10.ProofsText C10.SpecRound C10.ProofsRound C10.SpecFloatArith C10.ModelFloatDiv C10.ProofsFloatArith C10.ProofsFloatDiv.
Import ListNotations.
Import Floats.SpecFloat.
Open Scope Z_scope.

(* ------------------------------------------------------------------ integers *)

(* Every binary operator of int.go / Binary, on ANY implementation of the Int
   union that satisfies the two accessor laws (both concrete representations
   do, see the next two theorems), for ALL canonical operands of any magnitude:
   the result is the Z result of the specification and is canonical again; the
   operation fails exactly when the specification says it must (division by
   zero, shift count negative / > 511 / not a 32-bit value). *)
Theorem arith_exact :
  forall I, impl_ok I -> forall o (x y : T I),
    canonical I x = true -> canonical I y = true ->
    match Binary I o x y, spec_binary o (value I x) (value I y) with
    | Some r, Some z => canonical I r = true /\ value I r = z
    | None, None => True
    | _, _ => False
    end.
Proof. exact Binary_ok. Qed.

(* Both representations satisfy the accessor laws; in the fallback
   representation every value is canonical and denotes itself. *)
Theorem both_representations :
  impl_ok union_impl /\ impl_ok fallback_impl /\
  (forall z, canonical fallback_impl z = true /\ value fallback_impl z = z) /\
  (forall I, impl_ok I -> forall z, canonical I (MakeBigInt I z) = true /\ value I (MakeBigInt I z) = z) /\
  (forall I, impl_ok I -> forall z, canonical I (MakeInt64 I z) = true /\ value I (MakeInt64 I z) = z).
Proof.
  split; [exact union_ok|]. split; [exact fallback_ok|].
  split; [intros z; split; [apply fallback_canonical | apply fallback_value]|].
  split; [exact MakeBigInt_ok | exact MakeInt64_ok].
Qed.

(* The same statement about the integers themselves: whatever arm holds them,
   operators applied to the representations of x and y give the representation
   of the exact result -- identically in the two representations. *)
Theorem arith_exact_repr :
  forall o (x y : Z),
    let rU := Binary union_impl o (MakeBigInt union_impl x) (MakeBigInt union_impl y) in
    let rF := Binary fallback_impl o (MakeBigInt fallback_impl x) (MakeBigInt fallback_impl y) in
    match spec_binary o x y with
    | Some z => rU = Some (MakeBigInt union_impl z) /\ rF = Some z
    | None => rU = None /\ rF = None
    end.
Proof. exact arith_exact_repr_lemma. Qed.

Theorem unary_exact :
  forall I, impl_ok I -> forall o (x : T I), canonical I x = true ->
    canonical I (Unary I o x) = true /\ value I (Unary I o x) = spec_unary o (value I x).
Proof. exact Unary_ok. Qed.

Theorem compare_exact :
  forall I, impl_ok I -> forall c (x y : T I), canonical I x = true -> canonical I y = true ->
    Compare I c x y = spec_compare c (value I x) (value I y).
Proof. exact Compare_exact_lemma. Qed.

(* x == (x // y) * y + x % y, the remainder has the sign of the divisor and is
   smaller in magnitude -- derived from the code's truncated quotient /
   remainder plus correction step (small arm: int64 / and %; big arm:
   big.Int.QuoRem), for all x and all y <> 0. *)
Theorem floor_div_mod :
  forall I, impl_ok I -> forall (x y : T I),
    canonical I x = true -> canonical I y = true -> value I y <> 0 ->
    let q := value I (Div I x y) in let r := value I (Mod I x y) in
    value I x = q * value I y + r /\ (r = 0 \/ sign_of r = sign_of (value I y)) /\ Z.abs r < Z.abs (value I y).
Proof. exact floor_div_mod_law. Qed.

(* the correction step in isolation: truncated (q, r) -> floored, for all a, b <> 0 *)
Theorem floor_correction_exact :
  forall a b, b <> 0 ->
    let q := Z.quot a b in let r := Z.rem a b in
    let fix_ := negb (Bool.eqb (a <? 0) (b <? 0)) && negb (r =? 0) in
    (if fix_ then q - 1 else q) = a / b /\ (if fix_ then r + b else r) = a mod b.
Proof. exact floor_correction. Qed.

(* bit-level reading of the bitwise operators (two's complement, infinitely sign-extended) *)
Theorem bitwise_exact_bits :
  forall I, impl_ok I -> forall (x y : T I) n,
    canonical I x = true -> canonical I y = true -> 0 <= n ->
    Z.testbit (value I (And I x y)) n = Z.testbit (value I x) n && Z.testbit (value I y) n /\
    Z.testbit (value I (Or I x y)) n = Z.testbit (value I x) n || Z.testbit (value I y) n /\
    Z.testbit (value I (Xor I x y)) n = xorb (Z.testbit (value I x) n) (Z.testbit (value I y) n) /\
    Z.testbit (value I (Not I x)) n = negb (Z.testbit (value I x) n).
Proof. exact bitwise_bits_lemma. Qed.

(* conversions to machine integers used by the built-ins: exact or rejected *)
Theorem to_machine_int_exact :
  forall I, impl_ok I -> forall (x : T I), canonical I x = true ->
    Int64 I x = (if in_int64 (value I x) then Some (value I x) else None) /\
    AsInt32 I x = (if in_int32 (value I x) then Some (value I x) else None) /\
    Sign I x = sign_of (value I x).
Proof. exact to_machine_lemma. Qed.

(* Non-vacuity: canonical operands exist in both arms, and the hypotheses hold on them. *)
Example arith_premises_hold :
  let x := MakeBigInt union_impl (2 ^ 31 - 1) in let y := MakeBigInt union_impl (- 2 ^ 64) in
  canonical union_impl x = true /\ canonical union_impl y = true /\ x = Small 2147483647 /\ y = Big (-18446744073709551616) /\
  value union_impl y <> 0 /\
  Binary union_impl FLOORDIV y x = Some (Big (-8589934597)) /\ Binary union_impl MOD y x = Some (Small 2147483643) /\
  Binary union_impl MUL x x = Some (Big 4611686014132420609) /\
  Binary union_impl LSH x (Small 512) = None /\ Binary union_impl FLOORDIV x (Small 0) = None.
Proof. vm_compute. repeat split; discriminate. Qed.

(* ------------------------------------------------------------------ range, enumerate *)

(* range(...) as computed by range_ / rangeLen in Go int64 / uint64 arithmetic
   (wrap-around written out in the model), for ALL integer arguments: it fails
   when an argument is not a machine int, the step is zero or the number of
   elements exceeds MaxInt64, and otherwise its length IS the mathematical
   length -- no guard, the uint computation cannot wrap (after fix 049fe9c). *)
Theorem range_len_exact :
  forall start stop step,
    range_ [start; stop; step] =
      (if negb (in_int64 start && in_int64 stop && in_int64 step) then Err
       else if step =? 0 then Err
       else if max_int64 <? seq_len start stop step then Err
       else Ok {| r_start := start; r_stop := stop; r_step := step; r_len := seq_len start stop step |}) /\
    range_ [stop] = range_ [0; stop; 1] /\ range_ [start; stop] = range_ [start; stop; 1].
Proof.
  intros. split; [exact (range3_exact start stop step)|]. split; reflexivity.
Qed.

(* the specification's length is the number of elements: i-th element is before stop iff i < length *)
Theorem seq_len_counts :
  forall start stop step i, step <> 0 -> 0 <= i ->
    (i < seq_len start stop step <-> before_stop stop step (seq_at start step i)).
Proof. exact seq_len_char. Qed.

(* indexing (incl. negative indices and the 32-bit index limit), for every constructed range: exact or error *)
Theorem range_index_exact :
  forall args r y, range_ args = Ok r ->
    range_getIndex r y =
      if negb (in_int32 y) then Err
      else let i := if y <? 0 then y + r_len r else y in
           if (0 <=? i) && (i <? r_len r) then Ok (seq_at (r_start r) (r_step r) i) else Err.
Proof. intros args r y H. apply range_getIndex_exact. exact (range_wf_of_range_ args r H). Qed.

(* iteration yields exactly the mathematical sequence, in order, whatever its length *)
Theorem range_iterate_exact :
  forall args r fuel, range_ args = Ok r -> (Z.to_nat (r_len r) <= fuel)%nat ->
    range_iterate fuel r 0 = seq_list (r_start r) (r_stop r) (r_step r).
Proof. intros args r fuel H. apply range_iterate_exact. exact (range_wf_of_range_ args r H). Qed.

(* membership: x in range(...) for an int x of ANY magnitude and for floats, in
   both representations: an int is a member iff it is an element; a float iff it
   is integral and its value is an element; NaN / infinities are rejected
   (after fixes a97db64 and bb40dc5; refutation of the old code in History.v) *)
Theorem range_has_exact :
  forall I, impl_ok I -> forall args r y, range_ args = Ok r ->
    match y with NFloat f => valid_float f = true | NInt _ => True end ->
    range_has I r y =
      match spec_range_has (r_start r) (r_stop r) (r_step r) y with Some b => Ok b | None => Err end.
Proof. intros I OK args r y H. apply range_has_lemma; [exact OK|exact (range_wf_of_range_ args r H)]. Qed.

Theorem seq_has_is_membership :
  forall start stop step x, step <> 0 ->
    (seq_has start stop step x = true <-> exists i, 0 <= i /\ x = seq_at start step i /\ before_stop stop step x).
Proof. exact seq_has_mem. Qed.

(* range equality is equality of the denoted sequences *)
Theorem range_equal_exact :
  forall a1 r1 a2 r2, range_ a1 = Ok r1 -> range_ a2 = Ok r2 ->
    (rangeEqual r1 r2 = true <->
     (r_len r1 = r_len r2 /\ forall i, 0 <= i < r_len r1 ->
        seq_at (r_start r1) (r_step r1) i = seq_at (r_start r2) (r_step r2) i)).
Proof.
  intros a1 r1 a2 r2 H1 H2. apply rangeEqual_exact; [exact (range_wf_of_range_ a1 r1 H1)|exact (range_wf_of_range_ a2 r2 H2)].
Qed.

(* enumerate(x, start): index i is start + i exactly, or the call fails (start not a machine int); after fix f63dc59 *)
Theorem enumerate_exact :
  forall I, impl_ok I -> forall start n,
    enumerate_indices I start n =
      if in_int64 start then Ok (map (fun i => start + Z.of_nat i) (seq 0 n)) else Err.
Proof. exact enumerate_exact. Qed.

(* slicing a range.  Full statement: for every constructed range r and slice
   indices (s, e, k) produced by eval.go's slice(), range_slice r s e k is the
   range of the selected elements or an error.  That is REFUTED on this tree
   (known finding rng_slice:int64-overflow): Slice computes start + step*index
   and step*k in int64 and has no error result. *)
Theorem range_slice_refuted :
  (exists r s e k r',
      range_ [0; 9223372036854775807; 4611686018427387904] = Ok r /\
      slice_indices (r_len r) (Some 0) (Some 2) None = Ok (s, e, k) /\
      seq_len s e k = 2 /\ range_slice r s e k = Some r' /\ r_len r' = 0) /\
  (exists r s e k,
      range_ [0; 10; 4611686018427387904] = Ok r /\
      slice_indices (r_len r) None None (Some 4) = Ok (s, e, k) /\
      range_slice r s e k = None).
Proof. exact range_slice_refuted. Qed.

(* What does hold: under the explicit no-overflow guard (the three quantities
   Slice computes stay inside int64) the result is exactly the range of the
   selected elements r[s], r[s+k], ...  Missing for the full statement: the
   unguarded case, where the code neither fails nor is right (above). *)
Theorem range_slice_exact_partial :
  forall args r s e k, range_ args = Ok r -> k <> 0 ->
    (forall j, 0 <= j < seq_len s e k -> 0 <= s + j * k < r_len r) ->
    slice_no_overflow r s e k = true ->
    exists r', range_slice r s e k = Some r' /\
               r_len r' = seq_len s e k /\ r_len r' <= max_int64 /\
               forall j, 0 <= j < r_len r' ->
                 seq_at (r_start r') (r_step r') j = seq_at (r_start r) (r_step r) (s + j * k).
Proof.
  intros args r s e k H Hk Hin G.
  destruct (range_slice_guarded r s e k (range_wf_of_range_ args r H) Hk Hin G) as (r' & E & W & L & A).
  exists r'. split; [exact E|]. split; [exact L|]. split; [apply W|exact A].
Qed.

(* repetition (x * n): the guard computes the exact length len(x) * max(n, 0) or fails
   (positive count that is not a 32-bit value, or 2^30 elements or more); it never wraps *)
Theorem repeat_len_exact :
  forall I (n : T I) len, canonical I n = true -> 0 <= len <= max_int64 ->
    repeat_len I len n =
      if len =? 0 then Ok 0
      else if value I n <? 1 then Ok 0
      else if negb (in_int32 (value I n)) then Err
      else if maxAlloc <=? len * value I n then Err else Ok (len * value I n).
Proof. exact repeat_len_exact. Qed.

(* ------------------------------------------------------------------ floats *)

(* int(f), for every binary64 value: truncation towards zero of the exact value
   m * 2^e, canonical; NaN and infinities are rejected.  Covers both paths of
   finiteFloatToInt: the int64 fast path (its guard keeps the hardware
   conversion in range) and the big.Rat path (Euclidean division is truncation
   there because every float beyond the int64 window is an integer). *)
Theorem float_to_int_exact :
  forall I, impl_ok I -> forall f, valid_float f = true ->
    match NumberToInt I (NFloat f), spec_int_of_float f with
    | Ok i, Some z => canonical I i = true /\ value I i = z
    | Err, None => True
    | _, _ => False
    end.
Proof. intros I OK f V. exact (NumberToInt_lemma I OK (NFloat f) V). Qed.

(* math.floor / math.ceil return the exact integer for every float and every int *)
Theorem math_floor_ceil_exact :
  forall I, impl_ok I -> forall x, match x with NFloat f => valid_float f = true | NInt _ => True end ->
    (match math_floor I x, (match x with NInt z => Some z | NFloat f => spec_floor f end) with
     | Ok i, Some z => canonical I i = true /\ value I i = z
     | Err, None => True
     | _, _ => False
     end) /\
    (match math_ceil I x, (match x with NInt z => Some z | NFloat f => spec_ceil f end) with
     | Ok i, Some z => canonical I i = true /\ value I i = z
     | Err, None => True
     | _, _ => False
     end).
Proof. exact math_floor_ceil_lemma. Qed.

(* comparisons between an int of any magnitude and any float (incl. NaN, +-inf,
   subnormals) are exact: the int is compared with m * 2^e as integers, never
   through a rounded conversion; both operand orders *)
Theorem int_float_compare_exact :
  forall I c (x : T I) f,
    Compare_if I c x f = spec_compare_if c (value I x) f /\
    Compare_fi I c f x = spec_compare_fi c f (value I x).
Proof. exact compare_int_float_lemma. Qed.

(* Int.Float(): every path is the round-to-nearest-even conversion of the value,
   the shortcut for more than 1024 bits returns the infinity of the right sign *)
Theorem int_to_float_paths :
  forall I (x : T I), canonical I x = true ->
    Int_Float I x = if 1024 <? bitlen (value I x) then S754_infinity (value I x <? 0) else Z_to_float (value I x).
Proof. exact Int_Float_lemma. Qed.

(* Corollary of int_to_float_nearest_even (below; its fourth part shows that the
   nearest-even specification forces the exact value for |x| < 2^53), kept under
   its original name and in its original form because it also gives the
   round-trip through int(): the conversion is EXACT for every |x| < 2^53
   (float(x) == x and int(float(x)) == x, both representations).  The part this
   theorem used to leave open -- the rounding direction for ints that need more
   than 53 bits -- is now proved for all integers: int_to_float_nearest_even. *)
Theorem int_to_float_exact_partial :
  forall I (x : T I), canonical I x = true -> Z.abs (value I x) < 2 ^ 53 ->
    valid_float (Int_Float I x) = true /\
    spec_int_of_float (Int_Float I x) = Some (value I x) /\
    spec_cmp_int_float (value I x) (Int_Float I x) = Eq /\
    finiteFloat I x = Ok (Int_Float I x).
Proof. exact Int_Float_exact_lemma. Qed.

(* Int.Float() / float(x) for EVERY integer, of any magnitude, in both
   representations and on every path of int.go (the small arm, the uint64 and
   int64 hardware fast paths, the > 1024-bit shortcut to +-Inf, and
   big.Float.SetInt(x).Float64()): the result is the binary64 value nearest to x,
   ties to even, as specified independently in SpecRound.v --
     |x| >= 2^1024 - 2^970 (the IEEE overflow threshold): the infinity of x's sign,
     and that is exactly when finiteFloat / float(x) fails;
     otherwise a valid finite float whose exact value v minimises |x - v| over
     ALL finite binary64 values {m * 2^e : |m| < 2^53, -1074 <= e <= 971}
     (compared exactly on the 2^-1074 grid), with an even significand whenever
     another binary64 value is equally near; 0 gives +0.
   The model's conversion Z_to_float is SpecFloat.binary_normalize (align, shift
   right keeping round and sticky bits, round to nearest even, renormalise on
   carry, overflow); part 1 proves that this function meets the specification
   for all z by arithmetic on powers of two (no reals, no axioms).  Part 3: the
   specification determines the result uniquely (so it pins down every bit of
   the conversion); part 4: it forces the exact value below 2^53; part 5: every
   valid float is in the set minimised over. *)
Theorem int_to_float_nearest_even :
  (forall z, rounds_to_nearest_even z (Z_to_float z)) /\
  (forall I (x : T I), canonical I x = true ->
     rounds_to_nearest_even (value I x) (Int_Float I x) /\
     finiteFloat I x = (if overflow_threshold <=? Z.abs (value I x) then Err else Ok (Int_Float I x))) /\
  (forall z f g, rounds_to_nearest_even z f -> rounds_to_nearest_even z g -> f = g) /\
  (forall z f, Z.abs z < 2 ^ 53 -> rounds_to_nearest_even z f -> scaled_val f = Some (z * scale)) /\
  (forall f w, valid_float f = true -> scaled_val f = Some w -> b64_scaled w).
Proof. exact int_to_float_nearest_even_lemma. Qed.

(* Non-vacuity: canonical ints beyond 53 bits exist, and the conversion really
   rounds there: 2^53+1 -> 2^53 (tie, down to even), 2^53+3 -> 2^53+4 (tie, up to
   even), 2^54-1 -> 2^54 (carry into the next binade), the largest int below the
   threshold -> MaxFloat64, the threshold itself and 2^1024 (shortcut) -> +Inf. *)
Example int_to_float_rounding_examples :
  canonical union_impl (Big (2 ^ 53 + 1)) = true /\
  Int_Float union_impl (Big (2 ^ 53 + 1)) = S754_finite false 4503599627370496 1 /\
  Int_Float union_impl (Big (2 ^ 53 + 3)) = S754_finite false 4503599627370498 1 /\
  Int_Float fallback_impl (- (2 ^ 53 + 1)) = S754_finite true 4503599627370496 1 /\
  Int_Float union_impl (Big (2 ^ 54 - 1)) = S754_finite false 4503599627370496 2 /\
  Int_Float union_impl (Big (2 ^ 1024 - 2 ^ 970 - 1)) = S754_finite false 9007199254740991 971 /\
  Int_Float union_impl (Big (2 ^ 1024 - 2 ^ 970)) = S754_infinity false /\
  Int_Float union_impl (Big (2 ^ 1024)) = S754_infinity false /\
  Int_Float fallback_impl (- 2 ^ 1024) = S754_infinity true /\
  finiteFloat union_impl (Big (2 ^ 1024 - 2 ^ 970)) = Err /\
  finiteFloat union_impl (Big (2 ^ 53 + 3)) = Ok (S754_finite false 4503599627370498 1) /\
  (overflow_threshold <=? Z.abs (2 ^ 53 + 3)) = false /\ (overflow_threshold <=? Z.abs (- 2 ^ 1024)) = true /\
  scaled_val (S754_finite false 4503599627370498 1) = Some ((2 ^ 53 + 4) * scale).
Proof. vm_compute. repeat split. Qed.

(* Float `%` and `//` (eval.go Binary, value.go Float.Mod / floor; model in
   ModelFloatDiv.v; math.Mod and math.Floor are exact library oracles, x / y and
   z + y are SpecFloat's SFdiv / SFadd), for ALL valid finite x and finite
   y <> 0, values taken exactly on the 2^-1074 grid (SpecFloatArith.v):
   1. x % y: Float.Mod returns the binary64 value nearest (ties to even) to the
      exact remainder of floored division X mod Y -- its fmod-plus-sign-correction
      is right, the only inexactness is the final z + y, and when the signs agree
      or the truncated remainder is zero the result is the exact X mod Y; the
      result lies between 0 and y inclusive (it has the divisor's sign or is zero;
      |r| = |y| can only arise by rounding, e.g. -5e-324 % 1.0 == 1.0);
   2. x // y is floor(q) EXACTLY, where q = x / y is the binary64 value nearest
      (ties to even) to the exact rational quotient -- doc/spec.md: "x // y yields
      floor(x / y)" -- or q itself when q overflowed to an infinity;
      (this includes the proof that SpecFloat's SFdiv and SFadd round correctly);
   3. a zero divisor is an error for both;
   4. the int/float mixes convert the int with finiteFloat first (nearest even by
      int_to_float_nearest_even; error exactly from the overflow threshold on; a
      zero int divisor is an error) and then behave as 1-3.
   Tie to /repo: the harness observations of int // float, float // int, int % float,
   float % int (both representations) are evaluated on every run against
   ModelFloatDiv (CasesFloatDiv.model_ok_fd) and against an independent
   rational nearest-even oracle (CasesFloatDiv.spec_ok_fd). *)
Theorem float_floor_div_mod :
  (forall x y X Y, valid_float x = true -> valid_float y = true ->
     scaled_val x = Some X -> scaled_val y = Some Y -> Y <> 0 ->
     Binary_ff_mod x y = Ok (Float_Mod x y) /\
     rounds_grid_to_nearest_even (spec_grid_mod X Y) (Float_Mod x y) /\
     (negb (Bool.eqb (X <? 0) (Y <? 0)) && negb (Z.rem X Y =? 0) = false ->
        scaled_val (Float_Mod x y) = Some (spec_grid_mod X Y)) /\
     (exists v, valid_float (Float_Mod x y) = true /\ scaled_val (Float_Mod x y) = Some v /\
                (0 < Y -> 0 <= v <= Y) /\ (Y < 0 -> Y <= v <= 0))) /\
  (forall x y X Y, valid_float x = true -> valid_float y = true ->
     scaled_val x = Some X -> scaled_val y = Some Y -> Y <> 0 ->
     let q := SFdiv 53 1024 x y in
     Binary_ff_floordiv x y = Ok (Float_floor q) /\
     rounds_ratio_to_nearest_even (quotient_num X Y) (quotient_den Y) q /\
     (forall Q, scaled_val q = Some Q ->
        valid_float (Float_floor q) = true /\ scaled_val (Float_floor q) = Some (spec_grid_floor Q)) /\
     (forall s, q = S754_infinity s -> Float_floor q = S754_infinity s)) /\
  (forall x y, float_is_zero y = true -> Binary_ff_mod x y = Err /\ Binary_ff_floordiv x y = Err) /\
  (forall I, impl_ok I -> forall (i : T I) (f : float), canonical I i = true ->
     let ovf := overflow_threshold <=? Z.abs (value I i) in
     Binary_if_floordiv I i f = (if ovf then Err else Binary_ff_floordiv (Int_Float I i) f) /\
     Binary_if_mod I i f = (if ovf then Err else Binary_ff_mod (Int_Float I i) f) /\
     Binary_fi_floordiv I f i = (if ovf then Err else Binary_ff_floordiv f (Int_Float I i)) /\
     Binary_fi_mod I f i = (if value I i =? 0 then Err else if ovf then Err else Ok (Float_Mod f (Int_Float I i)))).
Proof. exact float_floor_div_mod_lemma. Qed.

(* Non-vacuity: -7.0 % 3.0 == 2.0, 7.0 % -3.0 == -2.0, 1.0 % 0.1 == 0.09999999999999995,
   -5e-324 % 1.0 == 1.0 (rounded), 1.0 // 0.1 == 10.0 (floor of the rounded quotient),
   -7.0 // 2.0 == -4.0, division by -0.0 fails, 7 % -3.0 == -2.0, 1.0 % 2^1024 fails. *)
Example float_floor_div_mod_examples :
  let m7 := S754_finite true 7881299347898368 (-50) in let p3 := S754_finite false 6755399441055744 (-51) in
  let p7 := S754_finite false 7881299347898368 (-50) in let m3 := S754_finite true 6755399441055744 (-51) in
  let one := S754_finite false 4503599627370496 (-52) in let two := S754_finite false 4503599627370496 (-51) in
  let tenth := S754_finite false 7205759403792794 (-56) in let tiny := S754_finite true 1 (-1074) in
  valid_float m7 = true /\ valid_float p3 = true /\ valid_float tenth = true /\ valid_float tiny = true /\
  scaled_val m7 = Some (-7 * scale) /\ scaled_val p3 = Some (3 * scale) /\ 3 * scale <> 0 /\
  Float_Mod m7 p3 = two /\ Float_Mod p7 m3 = S754_finite true 4503599627370496 (-51) /\
  Float_Mod one tenth = S754_finite false 7205759403792790 (-56) /\
  Float_Mod tiny one = one /\
  Binary_ff_floordiv one tenth = Ok (S754_finite false 5629499534213120 (-49)) /\
  Binary_ff_floordiv m7 two = Ok (S754_finite true 4503599627370496 (-50)) /\
  Binary_ff_mod one (S754_zero true) = Err /\
  Binary_if_mod union_impl (Small 7) m3 = Ok (S754_finite true 4503599627370496 (-51)) /\
  Binary_fi_mod union_impl one (Big (2 ^ 1024)) = Err /\ Binary_fi_floordiv union_impl p7 (Small 0) = Err.
Proof. vm_compute. repeat split; discriminate. Qed.

(* ------------------------------------------------------------------ text *)

(* printing in any base 2..36 and reading back is the identity, for all z *)
Theorem parse_print_int :
  forall base z, 2 <= base <= 36 ->
    parseInt (print_int base z) base = Some z /\ int_of_string (print_int base z) (Some base) = Some z.
Proof. exact parse_print_lemma. Qed.

Theorem parse_print_decimal_and_literals :
  forall z,
    (int_of_string (print_int 10 z) None = Some z /\ parseInt (print_int 10 z) 0 = Some z) /\
    (forall base, base = 2 \/ base = 8 \/ base = 16 ->
       parseInt (print_prefixed base z) 0 = Some z /\ parseInt (print_prefixed base z) base = Some z).
Proof. intros z. split; [exact (parse_print_decimal_lemma z)|]. intros base. exact (parse_prefixed_lemma base z). Qed.

(* int(s, base) accepts exactly the strings the specification describes, with
   the same value, for ALL byte strings and all bases (invalid bases rejected) *)
Theorem parse_accepts_exactly_spec :
  forall s base, int_of_string s base = spec_int_of_string s base.
Proof. exact int_of_string_spec_lemma. Qed.

(* Non-vacuity of the range / float / slice premises *)
Example range_float_premises_hold :
  let r := {| r_start := -9223372036854775808; r_stop := 9223372036854775807; r_step := 3; r_len := 6148914691236517205 |} in
  let q := {| r_start := 0; r_stop := 10; r_step := 2; r_len := 5 |} in
  let f := S754_finite false 6755399441055744 (-52) in   (* 1.5 *)
  range_ [-9223372036854775808; 9223372036854775807; 3] = Ok r /\
  range_getIndex r (-1) = Ok 9223372036854775804 /\
  range_has union_impl r (NInt 9223372036854775804) = Ok true /\
  valid_float f = true /\ range_has union_impl r (NFloat f) = Ok false /\
  NumberToInt union_impl (NFloat f) = Ok (Small 1) /\
  range_ [0; 10; 2] = Ok q /\ slice_no_overflow q 1 4 2 = true /\ seq_len 1 4 2 = 2 /\
  range_slice q 1 4 2 = Some {| r_start := 2; r_stop := 8; r_step := 4; r_len := 2 |}.
Proof. vm_compute. repeat split. Qed.

Example text_repeat_premises_hold :
  2 <= 36 <= 36 /\ print_int 36 (-1295) = [45; 122; 122] /\ parseInt [45; 122; 122] 36 = Some (-1295) /\
  print_prefixed 16 255 = [48; 120; 102; 102] /\ parseInt [48; 120; 102; 102] 0 = Some 255 /\
  canonical union_impl (Small 5) = true /\ repeat_len union_impl 3 (Small 5) = Ok 15 /\
  repeat_len union_impl 3 (Big 4294967296) = Err /\
  Z.abs (value union_impl (Small (-7))) < 2 ^ 53 /\ finiteFloat union_impl (Small (-7)) = Ok (S754_finite true 7881299347898368 (-50)).
Proof. vm_compute. repeat split; try discriminate. Qed.
