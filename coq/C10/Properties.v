(* C10 -- property theorems only.  Each is closed by `exact <lemma>`; axioms are
   printed by the audit step of bin/check (Print Assumptions per theorem). *)
From Coq Require Import ZArith Bool List.
From SV Require Import Common.GoInt C10.Model C10.Spec C10.ProofsInt.
Import ListNotations.
Open Scope Z_scope.

(* ------------------------------------------------------------------ integers *)

(* Every binary operator of int.go / Binary, on ANY implementation of the Int
   union that satisfies the two accessor laws (both concrete representations
   do, see the next two theorems), for ALL canonical operands of any magnitude:
   the result is the Z result of the specification and is canonical again; the
   operation fails exactly when the specification says it must (division by
   zero, shift count negative / > 511 / not a 32-bit value). *)
Theorem arith_exact :
  forall I, impl_ok I -> forall o (x y : T I),
    canonical I x = true -> canonical I y = true ->
    match Binary I o x y, spec_binary o (value I x) (value I y) with
    | Some r, Some z => canonical I r = true /\ value I r = z
    | None, None => True
    | _, _ => False
    end.
Proof. exact Binary_ok. Qed.

(* Both representations satisfy the accessor laws; in the fallback
   representation every value is canonical and denotes itself. *)
Theorem both_representations :
  impl_ok union_impl /\ impl_ok fallback_impl /\
  (forall z, canonical fallback_impl z = true /\ value fallback_impl z = z) /\
  (forall I, impl_ok I -> forall z, canonical I (MakeBigInt I z) = true /\ value I (MakeBigInt I z) = z) /\
  (forall I, impl_ok I -> forall z, canonical I (MakeInt64 I z) = true /\ value I (MakeInt64 I z) = z).
Proof.
  split; [exact union_ok|]. split; [exact fallback_ok|].
  split; [intros z; split; [apply fallback_canonical | apply fallback_value]|].
  split; [exact MakeBigInt_ok | exact MakeInt64_ok].
Qed.

(* The same statement about the integers themselves: whatever arm holds them,
   operators applied to the representations of x and y give the representation
   of the exact result -- identically in the two representations. *)
Theorem arith_exact_repr :
  forall o (x y : Z),
    let rU := Binary union_impl o (MakeBigInt union_impl x) (MakeBigInt union_impl y) in
    let rF := Binary fallback_impl o (MakeBigInt fallback_impl x) (MakeBigInt fallback_impl y) in
    match spec_binary o x y with
    | Some z => rU = Some (MakeBigInt union_impl z) /\ rF = Some z
    | None => rU = None /\ rF = None
    end.
Proof. exact arith_exact_repr_lemma. Qed.

Theorem unary_exact :
  forall I, impl_ok I -> forall o (x : T I), canonical I x = true ->
    canonical I (Unary I o x) = true /\ value I (Unary I o x) = spec_unary o (value I x).
Proof. exact Unary_ok. Qed.

Theorem compare_exact :
  forall I, impl_ok I -> forall c (x y : T I), canonical I x = true -> canonical I y = true ->
    Compare I c x y = spec_compare c (value I x) (value I y).
Proof. exact Compare_exact_lemma. Qed.

(* x == (x // y) * y + x % y, the remainder has the sign of the divisor and is
   smaller in magnitude -- derived from the code's truncated quotient /
   remainder plus correction step (small arm: int64 / and %; big arm:
   big.Int.QuoRem), for all x and all y <> 0. *)
Theorem floor_div_mod :
  forall I, impl_ok I -> forall (x y : T I),
    canonical I x = true -> canonical I y = true -> value I y <> 0 ->
    let q := value I (Div I x y) in let r := value I (Mod I x y) in
    value I x = q * value I y + r /\ (r = 0 \/ sign_of r = sign_of (value I y)) /\ Z.abs r < Z.abs (value I y).
Proof. exact floor_div_mod_law. Qed.

(* the correction step in isolation: truncated (q, r) -> floored, for all a, b <> 0 *)
Theorem floor_correction_exact :
  forall a b, b <> 0 ->
    let q := Z.quot a b in let r := Z.rem a b in
    let fix_ := negb (Bool.eqb (a <? 0) (b <? 0)) && negb (r =? 0) in
    (if fix_ then q - 1 else q) = a / b /\ (if fix_ then r + b else r) = a mod b.
Proof. exact floor_correction. Qed.

(* bit-level reading of the bitwise operators (two's complement, infinitely sign-extended) *)
Theorem bitwise_exact_bits :
  forall I, impl_ok I -> forall (x y : T I) n,
    canonical I x = true -> canonical I y = true -> 0 <= n ->
    Z.testbit (value I (And I x y)) n = Z.testbit (value I x) n && Z.testbit (value I y) n /\
    Z.testbit (value I (Or I x y)) n = Z.testbit (value I x) n || Z.testbit (value I y) n /\
    Z.testbit (value I (Xor I x y)) n = xorb (Z.testbit (value I x) n) (Z.testbit (value I y) n) /\
    Z.testbit (value I (Not I x)) n = negb (Z.testbit (value I x) n).
Proof. exact bitwise_bits_lemma. Qed.

(* conversions to machine integers used by the built-ins: exact or rejected *)
Theorem to_machine_int_exact :
  forall I, impl_ok I -> forall (x : T I), canonical I x = true ->
    Int64 I x = (if in_int64 (value I x) then Some (value I x) else None) /\
    AsInt32 I x = (if in_int32 (value I x) then Some (value I x) else None) /\
    Sign I x = sign_of (value I x).
Proof. exact to_machine_lemma. Qed.

(* Non-vacuity: canonical operands exist in both arms, and the hypotheses hold on them. *)
Example arith_premises_hold :
  let x := MakeBigInt union_impl (2 ^ 31 - 1) in let y := MakeBigInt union_impl (- 2 ^ 64) in
  canonical union_impl x = true /\ canonical union_impl y = true /\ x = Small 2147483647 /\ y = Big (-18446744073709551616) /\
  value union_impl y <> 0 /\
  Binary union_impl FLOORDIV y x = Some (Big (-8589934597)) /\ Binary union_impl MOD y x = Some (Small 2147483643) /\
  Binary union_impl MUL x x = Some (Big 4611686014132420609) /\
  Binary union_impl LSH x (Small 512) = None /\ Binary union_impl FLOORDIV x (Small 0) = None.
Proof. vm_compute. repeat split; discriminate. Qed.
