(* C10 -- the int -> float conversion of the model (SpecFloat.binary_normalize:
   align, shift right keeping a round and a sticky bit, round to nearest even,
   renormalise on carry, overflow to infinity) meets the independent
   round-to-nearest-even specification of SpecRound.v for EVERY integer.
   Pure Z arithmetic on powers of two; no reals, no axioms. *)
From Coq Require Import ZArith Bool List Lia Zpower.
From Coq Require Import ZifyBool.
From Coq Require Floats.SpecFloat.
From SV Require Import Common.GoInt C10.Model C10.Spec C10.ProofsInt C10.ProofsRange C10.ProofsFloat C10.SpecRound.
Import Floats.SpecFloat.
Open Scope Z_scope.

(* ---------- 1. the right shift with round and sticky bits.
   A record (m, r, s) is the result of shifting x right by k when x = m * 2^k + rem
   with 0 <= rem < 2^k and (r, s) locate rem relative to the midpoint 2^k / 2 *)
Definition loc_ok (rem k : Z) (r s : bool) : Prop :=
  match r, s with
  | false, false => rem = 0
  | false, true => 0 < rem /\ 2 * rem < 2 ^ k
  | true, false => 2 * rem = 2 ^ k
  | true, true => 2 ^ k < 2 * rem
  end.

Definition rec_inv (x k : Z) (mrs : shr_record) : Prop :=
  0 <= shr_m mrs /\ 0 <= k /\
  exists rem, x = shr_m mrs * 2 ^ k + rem /\ 0 <= rem < 2 ^ k /\ loc_ok rem k (shr_r mrs) (shr_s mrs).

Lemma shr_1_inv x k mrs : rec_inv x k mrs -> rec_inv x (k + 1) (shr_1 mrs).
Proof.
  destruct mrs as [m r s]. unfold rec_inv. cbn [shr_m shr_r shr_s]. intros (Hm & Hk & rem & Hx & Hr & Hl).
  assert (P : 0 < 2 ^ k) by (apply Z.pow_pos_nonneg; lia).
  unfold loc_ok in *.
  rewrite Z.pow_add_r by lia. change (2 ^ 1) with 2.
  set (Q := 2 ^ k) in *.
  destruct m as [|[p|p|]|p]; cbn [shr_1 shr_m shr_r shr_s]; try lia.
  - split; [lia|]. split; [lia|]. exists rem. destruct r, s; cbn [orb] in *; lia.
  - split; [lia|]. split; [lia|]. exists (Q + rem). destruct r, s; cbn [orb] in *; lia.
  - split; [lia|]. split; [lia|]. exists rem. destruct r, s; cbn [orb] in *; lia.
  - split; [lia|]. split; [lia|]. exists (Q + rem). destruct r, s; cbn [orb] in *; lia.
Qed.

Lemma iter_shr_inv n : forall x k mrs, rec_inv x k mrs -> rec_inv x (k + Zpos n) (iter_pos shr_1 n mrs).
Proof.
  induction n as [n IH|n IH|]; intros x k mrs H; cbn [iter_pos].
  - replace (k + Zpos n~1) with (k + 1 + Zpos n + Zpos n) by lia. apply IH, IH, shr_1_inv, H.
  - replace (k + Zpos n~0) with (k + Zpos n + Zpos n) by lia. apply IH, IH, H.
  - apply shr_1_inv, H.
Qed.

(* ---------- 2. the rounding decision *)
Definition round_case (m'' m rem k : Z) : Prop :=
  (m'' = m /\ 2 * rem <= 2 ^ k /\ (2 * rem = 2 ^ k -> Z.even m'' = true)) \/
  (m'' = m + 1 /\ 2 ^ k <= 2 * rem /\ (2 * rem = 2 ^ k -> Z.even m'' = true)).

Lemma round_ne_cases m rem k r s : 0 <= rem < 2 ^ k -> loc_ok rem k r s ->
  round_case (round_nearest_even m (loc_of_shr_record {| shr_m := m; shr_r := r; shr_s := s |})) m rem k.
Proof.
  intros Hr Hl. unfold round_case.
  destruct r, s; cbn [loc_ok loc_of_shr_record round_nearest_even] in *.
  - right. split; [reflexivity|]. lia.
  - destruct (Z.even m) eqn:E.
    + left. split; [reflexivity|]. split; [lia|]. intros _. exact E.
    + right. split; [reflexivity|]. split; [lia|]. intros _.
      replace (m + 1) with (Z.succ m) by lia. rewrite Z.even_succ, <- Z.negb_even, E. reflexivity.
  - left. split; [reflexivity|]. lia.
  - left. split; [reflexivity|]. lia.
Qed.

(* ---------- 3. number of binary digits *)
Lemma digits2_unique p n : 2 ^ (n - 1) <= Zpos p < 2 ^ n -> Zpos (digits2_pos p) = n.
Proof.
  intros [L U]. pose proof (digits2_pos_bound p) as B. pose proof (digits2_pos_lower p) as Lo.
  set (D := Zpos (digits2_pos p)) in *. assert (0 < D) by (unfold D; lia).
  destruct (Z_lt_le_dec n 1) as [N|N].
  { exfalso. destruct (Z.eq_dec n 0) as [->|]; [cbn in U; lia|]. rewrite Z.pow_neg_r in U by lia. lia. }
  destruct (Z.lt_trichotomy D n) as [C|[C|C]]; [exfalso|exact C|exfalso].
  - assert (2 ^ D <= 2 ^ (n - 1)) by (apply Z.pow_le_mono_r; lia). lia.
  - assert (2 ^ n <= 2 ^ (D - 1)) by (apply Z.pow_le_mono_r; lia). lia.
Qed.

(* ---------- 4. the second (renormalising) shift of binary_round_aux: a rounded
   significand in [2^52, 2^53] either already has 53 bits or is exactly 2^53 *)
Lemma second_shift m e : 2 ^ 52 <= m <= 2 ^ 53 -> -1074 <= e ->
  (m < 2 ^ 53 /\ shr_fexp 53 1024 m e loc_Exact = ({| shr_m := m; shr_r := false; shr_s := false |}, e)) \/
  (m = 2 ^ 53 /\ shr_fexp 53 1024 m e loc_Exact = ({| shr_m := 2 ^ 52; shr_r := false; shr_s := false |}, e + 1)).
Proof.
  intros Hm He. destruct m as [|pm|pm]; try lia.
  destruct (Z_lt_le_dec (Zpos pm) (2 ^ 53)) as [Lt|Ge].
  - left. split; [exact Lt|]. unfold shr_fexp. cbn [Zdigits2].
    rewrite (digits2_unique pm 53) by (change (53 - 1) with 52; lia).
    assert (F : fexp 53 1024 (53 + e) - e = 0) by (unfold fexp, emin; lia).
    rewrite F. reflexivity.
  - right. assert (E : Zpos pm = 2 ^ 53) by lia. split; [exact E|].
    change (2 ^ 53) with (Zpos 9007199254740992) in E. injection E as ->.
    unfold shr_fexp. cbn [Zdigits2].
    change (Zpos (digits2_pos 9007199254740992)) with 54.
    assert (F : fexp 53 1024 (54 + e) - e = 1) by (unfold fexp, emin; lia).
    rewrite F. reflexivity.
Qed.

(* ---------- 5. structure of binary_round on an integer of at least 54 bits *)
Lemma binary_round_big sx p : 2 ^ 53 <= Zpos p ->
  exists m' k rem m'',
    Zpos p = m' * 2 ^ k + rem /\ 0 <= rem < 2 ^ k /\ 1 <= k /\ 2 ^ 52 <= m' < 2 ^ 53 /\
    round_case m'' m' rem k /\
    binary_round 53 1024 sx p 0 =
      (if m'' <? 2 ^ 53
       then (if k <=? 971 then S754_finite sx (Z.to_pos m'') k else S754_infinity sx)
       else (if k + 1 <=? 971 then S754_finite sx (Z.to_pos (2 ^ 52)) (k + 1) else S754_infinity sx)).
Proof.
  intros Hp.
  pose proof (digits2_pos_bound p) as B. pose proof (digits2_pos_lower p) as Lo.
  set (d := Zpos (digits2_pos p)) in *.
  assert (Hd : 53 < d).
  { destruct (Z_lt_le_dec 53 d) as [|C]; [assumption|exfalso].
    assert (2 ^ d <= 2 ^ 53) by (apply Z.pow_le_mono_r; lia). lia. }
  remember (binary_round 53 1024 sx p 0) as BR eqn:EBR.
  unfold binary_round in EBR. fold d in EBR.
  assert (F : fexp 53 1024 (d + 0) = d - 53) by (unfold fexp, emin; lia).
  rewrite F in EBR. unfold shl_align in EBR.
  destruct (d - 53 - 0) as [|q|q] eqn:E; try lia.
  unfold binary_round_aux in EBR. unfold shr_fexp at 1 in EBR. cbn [Zdigits2] in EBR. fold d in EBR. rewrite F, E in EBR.
  cbn [shr shr_record_of_loc] in EBR.
  assert (I0 : rec_inv (Zpos p) 0 {| shr_m := Zpos p; shr_r := false; shr_s := false |}).
  { unfold rec_inv. cbn [shr_m shr_r shr_s loc_ok]. split; [lia|]. split; [lia|]. exists 0. cbn. lia. }
  pose proof (iter_shr_inv q _ _ _ I0) as I1. cbn [Z.add] in I1.
  destruct (iter_pos shr_1 q _) as [m' r s].
  destruct I1 as (Hm' & _ & rem & Hx & Hrem & Hl). cbn [shr_m shr_r shr_s] in *.
  assert (Hk : Zpos q = d - 53) by lia.
  (* the shifted significand has exactly 53 bits *)
  assert (P : 0 < 2 ^ Zpos q) by (apply Z.pow_pos_nonneg; lia).
  assert (Hm52 : 2 ^ 52 <= m' < 2 ^ 53).
  { assert (E1 : 2 ^ (d - 1) = 2 ^ 52 * 2 ^ Zpos q) by (rewrite <- Z.pow_add_r by lia; f_equal; lia).
    assert (E2 : 2 ^ d = 2 ^ 53 * 2 ^ Zpos q) by (rewrite <- Z.pow_add_r by lia; f_equal; lia).
    rewrite E1 in Lo. rewrite E2 in B. split; nia. }
  pose proof (round_ne_cases m' rem (Zpos q) r s Hrem Hl) as RC.
  set (m'' := round_nearest_even m' _) in *.
  assert (Hm'' : 2 ^ 52 <= m'' <= 2 ^ 53) by (unfold round_case in RC; lia).
  exists m', (Zpos q), rem, m''.
  split; [exact Hx|]. split; [exact Hrem|]. split; [lia|]. split; [exact Hm52|]. split; [exact RC|].
  rewrite EBR.
  destruct (second_shift m'' (0 + Zpos q) Hm'' ltac:(lia)) as [[Lt ->]|[Eq ->]]; cbn [shr_m].
  - assert (T : (m'' <? 2 ^ 53) = true) by lia. rewrite T.
    destruct m'' as [|pm|pm] eqn:Em; try lia. cbn [Z.to_pos Z.add]. reflexivity.
  - assert (T : (m'' <? 2 ^ 53) = false) by lia. rewrite T.
    change (2 ^ 52) with (Zpos 4503599627370496). cbn [Z.to_pos].
    replace (0 + Zpos q + 1) with (Zpos q + 1) by lia. reflexivity.
Qed.

(* ---------- 6. no binary64 value lies strictly between two consecutive multiples
   m' * 2^K and (m'+1) * 2^K when m' has at least 53 bits *)
Lemma no_value_between m' K mw E : 2 ^ 52 <= m' -> 0 <= K -> 0 <= E -> Z.abs mw < 2 ^ 53 ->
  ~ (m' * 2 ^ K < mw * 2 ^ E < (m' + 1) * 2 ^ K).
Proof.
  intros Hm HK HE Hw [L U].
  change (2 ^ 52) with 4503599627370496 in *. change (2 ^ 53) with 9007199254740992 in *.
  destruct (Z_le_gt_dec K E) as [C|C].
  - replace E with ((E - K) + K) in L, U by lia. rewrite Z.pow_add_r in L, U by lia.
    assert (P : 0 < 2 ^ K) by (apply Z.pow_pos_nonneg; lia).
    set (T := 2 ^ (E - K)) in *. set (Q := 2 ^ K) in *.
    assert (m' < mw * T) by nia. assert (mw * T < m' + 1) by nia. lia.
  - replace K with ((K - E - 1) + 1 + E) in L by lia. rewrite !Z.pow_add_r in L by lia. change (2 ^ 1) with 2 in L.
    assert (P : 0 < 2 ^ E) by (apply Z.pow_pos_nonneg; lia).
    assert (P' : 0 < 2 ^ (K - E - 1)) by (apply Z.pow_pos_nonneg; lia).
    set (T := 2 ^ (K - E - 1)) in *. set (Q := 2 ^ E) in *.
    assert (m' * (T * 2) < mw) by nia. nia.
Qed.

Lemma b64_scaled_opp w : b64_scaled w -> b64_scaled (- w).
Proof.
  intros (m & e & Hm & He & ->). exists (- m), e. split; [lia|]. split; [lia|]. ring.
Qed.

(* ---------- 7. nearest, ties to even, among all binary64 values (positive side) *)
Definition nearest_pos (x mf ef : Z) : Prop :=
  let V := mf * 2 ^ (ef + 1074) in
  let X := x * scale in
  (forall w, b64_scaled w -> Z.abs (X - V) <= Z.abs (X - w)) /\
  (forall w, b64_scaled w -> w <> V -> Z.abs (X - w) = Z.abs (X - V) -> Z.even mf = true).

Lemma nearest_from_round x m' k rem m'' mf ef :
  x = m' * 2 ^ k + rem -> 0 <= rem < 2 ^ k -> 0 <= k -> 2 ^ 52 <= m' -> round_case m'' m' rem k ->
  0 <= ef -> mf * 2 ^ ef = m'' * 2 ^ k -> (2 * rem = 2 ^ k -> Z.even mf = true) ->
  nearest_pos x mf ef.
Proof.
  intros Hx Hrem Hk Hm' RC Hef Hv Hev. unfold nearest_pos, scale.
  assert (S0 : 0 < 2 ^ 1074) by (apply Z.pow_pos_nonneg; lia).
  assert (EG : 2 ^ k * 2 ^ 1074 = 2 ^ (k + 1074)) by (rewrite Z.pow_add_r by lia; reflexivity).
  assert (EV : mf * 2 ^ (ef + 1074) = m'' * (2 ^ k * 2 ^ 1074)).
  { rewrite Z.pow_add_r by lia. rewrite Z.mul_assoc, Hv. ring. }
  rewrite EV. clear EV.
  assert (gap : forall w, b64_scaled w -> w <= m' * (2 ^ k * 2 ^ 1074) \/ (m' + 1) * (2 ^ k * 2 ^ 1074) <= w).
  { intros w (mw & e & Hmw & He & ->). rewrite EG.
    pose proof (no_value_between m' (k + 1074) mw (e + 1074) Hm' ltac:(lia) ltac:(lia) Hmw). lia. }
  set (S := 2 ^ 1074) in *. set (P := 2 ^ k) in *.
  assert (EX : x * S = m' * (P * S) + rem * S) by (rewrite Hx; ring).
  rewrite EX. clear EX.
  assert (HR : 0 <= rem * S < P * S) by nia.
  assert (HM : (m' + 1) * (P * S) = m' * (P * S) + P * S) by ring.
  set (G := P * S) in *. set (R := rem * S) in *.
  split.
  - intros w Hw. destruct (gap w Hw) as [W|W]; destruct RC as [(-> & H1 & _)|(-> & H1 & _)].
    + lia.
    + assert (G <= 2 * R) by (unfold G, R; nia). lia.
    + assert (2 * R <= G) by (unfold G, R; nia). lia.
    + lia.
  - intros w Hw Hne Heq. apply Hev.
    assert (T : 2 * R = G).
    { destruct (gap w Hw) as [W|W]; destruct RC as [(-> & H1 & _)|(-> & H1 & _)].
      - lia.
      - assert (G <= 2 * R) by (unfold G, R; nia). lia.
      - assert (2 * R <= G) by (unfold G, R; nia). lia.
      - lia. }
    unfold G, R in T. nia.
Qed.

(* ---------- 8. the result is finite exactly below the IEEE overflow threshold *)
Lemma overflow_iff x m' k rem m'' :
  x = m' * 2 ^ k + rem -> 0 <= rem < 2 ^ k -> 1 <= k -> 2 ^ 52 <= m' < 2 ^ 53 -> round_case m'' m' rem k ->
  ((if m'' <? 2 ^ 53 then k else k + 1) <=? 971) = negb (overflow_threshold <=? x).
Proof.
  intros Hx Hrem Hk Hm' RC. unfold overflow_threshold.
  change (2 ^ 1024) with (18014398509481984 * 2 ^ 970).
  change (2 ^ 52) with 4503599627370496 in *. change (2 ^ 53) with 9007199254740992 in *.
  assert (C0 : 0 < 2 ^ 970) by (apply Z.pow_pos_nonneg; lia).
  assert (EP : 2 ^ k = 2 * 2 ^ (k - 1)).
  { replace k with (1 + (k - 1)) at 1 by lia. rewrite Z.pow_add_r by lia. reflexivity. }
  assert (H0 : 0 < 2 ^ (k - 1)) by (apply Z.pow_pos_nonneg; lia).
  assert (Mono : forall a b, 0 <= a <= b -> 2 ^ a <= 2 ^ b) by (intros; apply Z.pow_le_mono_r; lia).
  unfold round_case in RC. rewrite EP in *. set (H := 2 ^ (k - 1)) in *.
  assert (EvB : forall c, Z.even c = true -> c < 9007199254740992 -> c <= 9007199254740990).
  { intros c Ec Hc. apply Z.even_spec in Ec. destruct Ec as [h ->]. lia. }
  destruct (m'' <? 9007199254740992) eqn:Lt.
  - destruct (k <=? 971) eqn:K.
    + (* finite, no carry *)
      assert (HC : H <= 2 ^ 970) by (apply Mono; lia). set (C := 2 ^ 970) in *.
      destruct RC as [(-> & H1 & Ev)|(-> & H1 & _)].
      * destruct (Z.eq_dec (2 * rem) (2 * H)) as [Tie|NT].
        -- pose proof (EvB m' (Ev Tie) ltac:(lia)). nia.
        -- nia.
      * nia.
    + (* exponent too large *)
      assert (HC : 2 ^ 971 <= H) by (apply Mono; lia).
      change (2 ^ 971) with (2 * 2 ^ 970) in HC. set (C := 2 ^ 970) in *. nia.
  - (* carry: m'' = 2^53 *)
    destruct RC as [(-> & _)|(-> & H1 & _)]; [lia|].
    assert (m' = 9007199254740991) by lia. subst m'.
    destruct (k + 1 <=? 971) eqn:K.
    + assert (HC : 2 * H <= 2 ^ 970). { rewrite <- EP. apply Mono; lia. }
      set (C := 2 ^ 970) in *. nia.
    + assert (HC : 2 ^ 970 <= H) by (apply Mono; lia). set (C := 2 ^ 970) in *. nia.
Qed.

(* ---------- 9. binary_round on every positive integer *)
Lemma threshold_above_2_53 : 2 ^ 53 <= overflow_threshold.
Proof. unfold overflow_threshold. apply Z.leb_le. vm_compute. reflexivity. Qed.

Lemma valid_53 sx pm e : 2 ^ 52 <= Zpos pm < 2 ^ 53 -> -1074 <= e <= 971 ->
  valid_float (S754_finite sx pm e) = true.
Proof.
  intros Hm He. unfold valid_float, valid_binary, bounded, canonical_mantissa.
  rewrite (digits2_unique pm 53) by (change (53 - 1) with 52; lia).
  assert (F : fexp 53 1024 (53 + e) = e) by (unfold fexp, emin; lia). rewrite F.
  apply andb_true_iff. split; [apply Zeq_is_eq_bool; reflexivity|apply Zle_imp_le_bool; lia].
Qed.

Lemma binary_round_spec sx p :
  if overflow_threshold <=? Zpos p then binary_round 53 1024 sx p 0 = S754_infinity sx
  else exists m e, binary_round 53 1024 sx p 0 = S754_finite sx m e /\
                   valid_float (S754_finite sx m e) = true /\ nearest_pos (Zpos p) (Zpos m) e.
Proof.
  pose proof threshold_above_2_53 as TH.
  destruct (Z_lt_le_dec (Zpos p) (2 ^ 53)) as [Small|Big].
  - (* fewer than 54 bits: exact *)
    assert (O : (overflow_threshold <=? Zpos p) = false) by lia. rewrite O.
    destruct (binary_round_exact sx p Small) as (m & e & E & He & Hm & V).
    exists m, e. split; [exact E|]. split; [exact V|].
    unfold nearest_pos, scale.
    assert (EV : Zpos m * 2 ^ (e + 1074) = Zpos p * 2 ^ 1074).
    { rewrite Hm. rewrite <- Z.mul_assoc, <- Z.pow_add_r by lia. f_equal. f_equal. lia. }
    rewrite EV. split.
    + intros w _. lia.
    + intros w _ Hne Heq. exfalso. lia.
  - destruct (binary_round_big sx p Big) as (m' & k & rem & m'' & Hx & Hrem & Hk & Hm' & RC & E).
    pose proof (overflow_iff (Zpos p) m' k rem m'' Hx Hrem Hk Hm' RC) as OV.
    assert (Hm'' : 2 ^ 52 <= m'' <= 2 ^ 53) by (unfold round_case in RC; lia).
    destruct (overflow_threshold <=? Zpos p) eqn:O; cbn [negb] in OV.
    + rewrite E. destruct (m'' <? 2 ^ 53); rewrite OV; reflexivity.
    + rewrite E. destruct (m'' <? 2 ^ 53) eqn:Lt; rewrite OV.
      * destruct m'' as [|pm|pm] eqn:Em; try lia. cbn [Z.to_pos].
        exists pm, k. split; [reflexivity|]. split; [apply valid_53; lia|].
        apply (nearest_from_round (Zpos p) m' k rem (Zpos pm) (Zpos pm) k); try assumption; try lia.
        unfold round_case in RC. intros Tie. destruct RC as [(_ & _ & Ev)|(_ & _ & Ev)]; exact (Ev Tie).
      * assert (Em : m'' = 2 ^ 53) by lia.
        change (2 ^ 52) with (Zpos 4503599627370496). cbn [Z.to_pos].
        exists 4503599627370496%positive, (k + 1). split; [reflexivity|].
        split; [apply valid_53; [change (2 ^ 52) with 4503599627370496; change (2 ^ 53) with 9007199254740992; lia|lia]|].
        apply (nearest_from_round (Zpos p) m' k rem m'' (Zpos 4503599627370496) (k + 1)); try assumption; try lia.
        -- rewrite Em. rewrite Z.pow_add_r by lia. change (2 ^ 1) with 2. change (2 ^ 53) with 9007199254740992. lia.
        -- intros _. reflexivity.
Qed.

(* ---------- 10. the conversion of the model, for every integer *)
Lemma Z_to_float_nearest_even z : rounds_to_nearest_even z (Z_to_float z).
Proof.
  unfold rounds_to_nearest_even, Z_to_float, binary_normalize. destruct z as [|p|p].
  - assert (O : (overflow_threshold <=? Z.abs 0) = false) by (pose proof threshold_above_2_53; cbn [Z.abs]; lia).
    rewrite O. split; [reflexivity|]. split; [reflexivity|]. exists 0. split; [reflexivity|].
    split; [intros; lia|reflexivity].
  - cbn [Z.abs]. pose proof (binary_round_spec false p) as BR.
    destruct (overflow_threshold <=? Zpos p); [rewrite BR; reflexivity|].
    destruct BR as (m & e & -> & V & N1 & N2). split; [exact V|]. split; [discriminate|].
    exists (Zpos m * 2 ^ (e + 1074)). split; [reflexivity|]. split; [exact N1|]. exact N2.
  - cbn [Z.abs]. pose proof (binary_round_spec true p) as BR.
    destruct (overflow_threshold <=? Zpos p); [rewrite BR; reflexivity|].
    destruct BR as (m & e & -> & V & N1 & N2). split; [exact V|]. split; [discriminate|].
    exists (Zneg m * 2 ^ (e + 1074)). split; [reflexivity|].
    assert (EX : Zneg p * scale = - (Zpos p * scale)) by (rewrite <- Pos2Z.opp_pos; ring).
    assert (EV : Zneg m * 2 ^ (e + 1074) = - (Zpos m * 2 ^ (e + 1074))) by (rewrite <- Pos2Z.opp_pos; ring).
    rewrite EX, EV. cbn [mantissa_even]. split.
    + intros w Hw. pose proof (N1 (- w) (b64_scaled_opp w Hw)). lia.
    + intros w Hw Hne Heq. apply (N2 (- w) (b64_scaled_opp w Hw)); lia.
Qed.

(* below 2^53 the specification forces the exact value: the exactness result
   (Z_to_float_exact) is a consequence of nearest-even rounding *)
Lemma nearest_even_exact_below_2_53 z f : Z.abs z < 2 ^ 53 -> rounds_to_nearest_even z f ->
  scaled_val f = Some (z * scale).
Proof.
  intros Hz. unfold rounds_to_nearest_even.
  assert (O : (overflow_threshold <=? Z.abs z) = false) by (pose proof threshold_above_2_53; lia).
  rewrite O. intros (_ & _ & v & -> & N & _). f_equal.
  assert (B : b64_scaled (z * scale)) by (exists z, 0; split; [exact Hz|]; split; [lia|reflexivity]).
  pose proof (N _ B). lia.
Qed.

(* ---------- 11. Int.Float() and finiteFloat, both arms of the Int union, all paths *)
Lemma Int_Float_nearest_even I (x : T I) : canonical I x = true ->
  rounds_to_nearest_even (value I x) (Int_Float I x) /\
  finiteFloat I x = (if overflow_threshold <=? Z.abs (value I x) then Err else Ok (Int_Float I x)).
Proof.
  intros Hx. unfold finiteFloat. rewrite (Int_Float_lemma I x Hx). set (v := value I x).
  pose proof (bitlen_lt v 1025 ltac:(lia)) as BL. change (1025 - 1) with 1024 in BL.
  destruct (1024 <? bitlen v) eqn:B.
  - (* more than 1024 bits: the shortcut returns the infinity, and that is the correct rounding *)
    assert (A : 2 ^ 1024 <= Z.abs v) by lia.
    assert (O : (overflow_threshold <=? Z.abs v) = true).
    { unfold overflow_threshold. assert (0 < 2 ^ 970) by (apply Z.pow_pos_nonneg; lia). lia. }
    unfold rounds_to_nearest_even. rewrite O. split; reflexivity.
  - pose proof (Z_to_float_nearest_even v) as N. split; [exact N|].
    unfold rounds_to_nearest_even in N. destruct (overflow_threshold <=? Z.abs v).
    + rewrite N. reflexivity.
    + destruct N as (_ & _ & w & Sv & _). destruct (Z_to_float v); try reflexivity. discriminate Sv.
Qed.

(* every valid float denotes a member of the set the specification minimises over *)
Lemma valid_float_in_b64 f w : valid_float f = true -> scaled_val f = Some w -> b64_scaled w.
Proof.
  intros V Sv. destruct f as [s|s| |s m e]; cbn [scaled_val] in Sv; try discriminate; injection Sv as <-.
  - exists 0, 0. split; [cbn; lia|]. split; [lia|reflexivity].
  - destruct (valid_mantissa s m e V) as [B He].
    exists (if s then Zneg m else Zpos m), e. split; [destruct s; cbn [Z.abs]; exact B|]. split; [exact He|reflexivity].
Qed.

(* ---------- 12. the specification determines the result: of two equally near
   binary64 values exactly one has an even significand, and a value has one
   canonical representation *)
Definition canon (m E : Z) : Prop := 0 < m < 2 ^ 53 /\ 0 <= E <= 2045 /\ (2 ^ 52 <= m \/ E = 0).

Lemma valid_canon s m e : valid_float (S754_finite s m e) = true -> canon (Zpos m) (e + 1074).
Proof.
  intros V. destruct (valid_mantissa s m e V) as [B He].
  unfold valid_float, valid_binary, bounded, canonical_mantissa in V.
  apply andb_true_iff in V. destruct V as [V1 _]. apply Zeq_is_eq_bool in V1.
  unfold canon. split; [lia|]. split; [lia|].
  pose proof (digits2_pos_lower m) as Lo. set (d := Zpos (digits2_pos m)) in *.
  unfold fexp, emin in V1.
  destruct (Z.eq_dec e (-1074)) as [->|Ne]; [right; reflexivity|left].
  assert (d = 53) by lia. replace (d - 1) with 52 in Lo by lia. exact Lo.
Qed.

Lemma canon_unique m1 E1 m2 E2 : canon m1 E1 -> canon m2 E2 -> m1 * 2 ^ E1 = m2 * 2 ^ E2 -> m1 = m2 /\ E1 = E2.
Proof.
  unfold canon. change (2 ^ 52) with 4503599627370496. change (2 ^ 53) with 9007199254740992.
  intros (B1 & R1 & C1) (B2 & R2 & C2) Eq.
  assert (Aux : forall a Ea b Eb, 0 < a < 9007199254740992 -> 0 <= Ea -> Ea < Eb -> 4503599627370496 <= b ->
                a * 2 ^ Ea = b * 2 ^ Eb -> False).
  { intros a Ea b Eb Ba HEa Lt Bb H.
    replace Eb with ((Eb - Ea - 1) + 1 + Ea) in H by lia. rewrite !Z.pow_add_r in H by lia. change (2 ^ 1) with 2 in H.
    assert (0 < 2 ^ Ea) by (apply Z.pow_pos_nonneg; lia). assert (0 < 2 ^ (Eb - Ea - 1)) by (apply Z.pow_pos_nonneg; lia).
    set (Q := 2 ^ Ea) in *. set (T := 2 ^ (Eb - Ea - 1)) in *.
    assert (a = b * (T * 2)) by nia. nia. }
  destruct (Z.lt_trichotomy E1 E2) as [Lt|[->|Gt]].
  - exfalso. apply (Aux m1 E1 m2 E2); try lia.
  - split; [|reflexivity]. assert (0 < 2 ^ E2) by (apply Z.pow_pos_nonneg; lia). nia.
  - exfalso. apply (Aux m2 E2 m1 E1); try lia.
Qed.

Lemma adjacent_not_both_even m1 E1 m2 E2 : canon m1 E1 -> canon m2 E2 -> m1 * 2 ^ E1 < m2 * 2 ^ E2 ->
  (forall w, b64_scaled w -> ~ (m1 * 2 ^ E1 < w < m2 * 2 ^ E2)) ->
  Z.even m1 = true -> Z.even m2 = true -> False.
Proof.
  intros C1 C2 Lt NB Ev1 Ev2. pose proof C1 as (B1 & R1 & K1). pose proof C2 as (B2 & R2 & K2).
  assert (B1' : m1 + 1 < 2 ^ 53).
  { change (2 ^ 53) with 9007199254740992 in *. apply Z.even_spec in Ev1. destruct Ev1 as [h ->]. lia. }
  assert (P : 0 < 2 ^ E1) by (apply Z.pow_pos_nonneg; lia).
  assert (Bw : b64_scaled ((m1 + 1) * 2 ^ E1)).
  { exists (m1 + 1), (E1 - 1074). split; [lia|]. split; [lia|]. f_equal. f_equal. lia. }
  assert (Up : m2 * 2 ^ E2 <= (m1 + 1) * 2 ^ E1) by (pose proof (NB _ Bw); nia).
  assert (Dn : (m1 + 1) * 2 ^ E1 <= m2 * 2 ^ E2).
  { destruct K1 as [K1| ->].
    - pose proof (no_value_between m1 E1 m2 E2 K1 ltac:(lia) ltac:(lia) ltac:(lia)). lia.
    - change (2 ^ 0) with 1 in *. lia. }
  assert (C1' : canon (m1 + 1) E1) by (unfold canon; split; [lia|]; split; [lia|]; destruct K1; [left|right]; lia).
  destruct (canon_unique _ _ _ _ C2 C1' ltac:(lia)) as [-> _].
  replace (m1 + 1) with (Z.succ m1) in Ev2 by lia. rewrite Z.even_succ, <- Z.negb_even, Ev1 in Ev2. discriminate.
Qed.

Lemma nearest_nonzero z v : z <> 0 ->
  (forall w, b64_scaled w -> Z.abs (z * scale - v) <= Z.abs (z * scale - w)) -> v <> 0.
Proof.
  intros Hz N ->. assert (S0 : 0 < scale) by (apply Z.pow_pos_nonneg; lia).
  assert (B1 : b64_scaled scale) by (exists 1, 0; split; [cbn; lia|]; split; [lia|]; unfold scale; cbn [Z.add]; lia).
  pose proof (N _ B1) as N1. pose proof (N _ (b64_scaled_opp _ B1)) as N2.
  destruct (Z_lt_le_dec z 0).
  - assert (z * scale <= - scale) by nia. lia.
  - assert (scale <= z * scale) by nia. lia.
Qed.

Lemma nearest_even_unique z f g : rounds_to_nearest_even z f -> rounds_to_nearest_even z g -> f = g.
Proof.
  unfold rounds_to_nearest_even. destruct (overflow_threshold <=? Z.abs z); [congruence|].
  intros (Vf & Zf & vf & Sf & Nf & Tf) (Vg & Zg & vg & Sg & Ng & Tg).
  destruct (Z.eq_dec z 0) as [Z0|NZ]; [rewrite (Zf Z0), (Zg Z0); reflexivity|].
  change (valid_binary 53 1024 f) with (valid_float f) in Vf. change (valid_binary 53 1024 g) with (valid_float g) in Vg.
  pose proof (valid_float_in_b64 f vf Vf Sf) as Bf. pose proof (valid_float_in_b64 g vg Vg Sg) as Bg.
  pose proof (nearest_nonzero z vf NZ Nf) as NZf. pose proof (nearest_nonzero z vg NZ Ng) as NZg.
  assert (D : Z.abs (z * scale - vf) = Z.abs (z * scale - vg)) by (pose proof (Nf _ Bg); pose proof (Ng _ Bf); lia).
  destruct f as [sf|sf| |sf mf ef]; cbn [scaled_val] in Sf; try discriminate; [injection Sf as <-; lia|].
  destruct g as [sg|sg| |sg mg eg]; cbn [scaled_val] in Sg; try discriminate; [injection Sg as <-; lia|].
  pose proof (valid_canon _ _ _ Vf) as Cf. pose proof (valid_canon _ _ _ Vg) as Cg.
  set (a := Zpos mf * 2 ^ (ef + 1074)) in *. set (b := Zpos mg * 2 ^ (eg + 1074)) in *.
  assert (Pa : 0 < a) by (unfold a; apply Z.mul_pos_pos; [lia|apply Z.pow_pos_nonneg; destruct Cf; lia]).
  assert (Pb : 0 < b) by (unfold b; apply Z.mul_pos_pos; [lia|apply Z.pow_pos_nonneg; destruct Cg; lia]).
  assert (Ef : vf = if sf then - a else a).
  { injection Sf as <-. destruct sf; [|reflexivity]. unfold a. rewrite <- Pos2Z.opp_pos. ring. }
  assert (Eg : vg = if sg then - b else b).
  { injection Sg as <-. destruct sg; [|reflexivity]. unfold b. rewrite <- Pos2Z.opp_pos. ring. }
  clear Sf Sg.
  destruct (Z.eq_dec vf vg) as [Same|Diff].
  - (* the same value: the same canonical representation *)
    assert (Es : sf = sg) by (destruct sf, sg; try reflexivity; lia).
    subst sg. assert (Eab : a = b) by (destruct sf; lia).
    destruct (canon_unique _ _ _ _ Cf Cg Eab) as [Em Ee]. injection Em as ->. assert (ef = eg) by lia. subst. reflexivity.
  - (* two different values at the same distance: both would need an even significand *)
    exfalso.
    assert (Evf : Z.even (Zpos mf) = true) by (apply (Tf vg Bg); [congruence|lia]).
    assert (Evg : Z.even (Zpos mg) = true) by (apply (Tg vf Bf); [congruence|lia]).
    assert (NB : forall w, b64_scaled w -> ~ (Z.min vf vg < w < Z.max vf vg)).
    { intros w Hw Bt. pose proof (Nf w Hw). lia. }
    assert (B0 : b64_scaled 0) by (exists 0, 0; split; [cbn; lia|]; split; [lia|reflexivity]).
    pose proof (NB 0 B0) as NB0.
    destruct sf, sg; try lia.
    + (* both negative *)
      destruct (Z_lt_le_dec a b).
      * apply (adjacent_not_both_even _ _ _ _ Cf Cg); try assumption.
        intros w Hw Bt. apply (NB (- w) (b64_scaled_opp w Hw)). fold a b in Bt. lia.
      * apply (adjacent_not_both_even _ _ _ _ Cg Cf); try assumption; [fold a b; lia|].
        intros w Hw Bt. apply (NB (- w) (b64_scaled_opp w Hw)). fold a b in Bt. lia.
    + destruct (Z_lt_le_dec a b).
      * apply (adjacent_not_both_even _ _ _ _ Cf Cg); try assumption.
        intros w Hw Bt. apply (NB w Hw). fold a b in Bt. lia.
      * apply (adjacent_not_both_even _ _ _ _ Cg Cf); try assumption; [fold a b; lia|].
        intros w Hw Bt. apply (NB w Hw). fold a b in Bt. lia.
Qed.

(* ---------- the statement of Properties.int_to_float_nearest_even *)
Lemma int_to_float_nearest_even_lemma :
  (forall z, rounds_to_nearest_even z (Z_to_float z)) /\
  (forall I (x : T I), canonical I x = true ->
     rounds_to_nearest_even (value I x) (Int_Float I x) /\
     finiteFloat I x = (if overflow_threshold <=? Z.abs (value I x) then Err else Ok (Int_Float I x))) /\
  (forall z f g, rounds_to_nearest_even z f -> rounds_to_nearest_even z g -> f = g) /\
  (forall z f, Z.abs z < 2 ^ 53 -> rounds_to_nearest_even z f -> scaled_val f = Some (z * scale)) /\
  (forall f w, valid_float f = true -> scaled_val f = Some w -> b64_scaled w).
Proof.
  split; [exact Z_to_float_nearest_even|]. split; [exact Int_Float_nearest_even|].
  split; [exact nearest_even_unique|]. split; [exact nearest_even_exact_below_2_53|exact valid_float_in_b64].
Qed.
