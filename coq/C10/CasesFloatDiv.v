(* C10 -- evaluation of harness observations of float `//` and `%` (the kinds
   mixif / mixfi with ops "//" and "%") inside Coq:
   model_ok_fd = ModelFloatDiv reproduces the observation (correspondence),
   spec_ok_fd  = the observation satisfies the specification, computed by an
                 independent oracle: nearest-even rounding of an exact rational
                 written with Z.log2 and integer division (no SpecFloat operation,
                 no model function), exact floor / floored remainder in Z. *)
From Coq Require Import ZArith Bool List.
From Coq Require Floats.SpecFloat.
From SV Require Import Common.GoInt C10.Model C10.Spec C10.Cases C10.ModelFloatDiv.
Import ListNotations.
Import Floats.SpecFloat.
Open Scope Z_scope.

Inductive fdcase :=
| CFdIF (fallback : bool) (ismod : bool) (x : Z) (f : Z) (r : obs)     (* int op float *)
| CFdFI (fallback : bool) (ismod : bool) (f : Z) (x : Z) (r : obs).    (* float op int *)

Definition model_ok_fd (c : fdcase) : bool :=
  match c with
  | CFdIF fb ismod x f r =>
      let I := impl_of fb in
      float_res_eqb (if ismod then Binary_if_mod I (MakeBigInt I x) (float_of_bits f)
                     else Binary_if_floordiv I (MakeBigInt I x) (float_of_bits f)) r
  | CFdFI fb ismod f x r =>
      let I := impl_of fb in
      float_res_eqb (if ismod then Binary_fi_mod I (float_of_bits f) (MakeBigInt I x)
                     else Binary_fi_floordiv I (float_of_bits f) (MakeBigInt I x)) r
  end.

(* ---------- the oracle.  A value is  Fin m e  (= m * 2^e, m <> 0, canonical),
   Zero, Inf (by sign) or "not a number" *)
Inductive oval := OZero | OFin (m e : Z) | OInf (neg : bool) | ONaN.

(* nearest-even rounding of the positive rational tn / td *)
Definition rn_pos (tn td : Z) : oval :=
  let g := Z.log2 tn - Z.log2 td in                      (* 2^(g-1) < tn/td < 2^(g+1) *)
  let fl e := if 0 <=? e then tn / (td * 2 ^ e) else (tn * 2 ^ (- e)) / td in
  let e1 := g - 52 in
  let e2 := if 2 ^ 52 <=? fl e1 then e1 else e1 - 1 in   (* floor(tn/td / 2^e2) has 53 bits *)
  let e := Z.max e2 (-1074) in
  let num := if 0 <=? e then tn else tn * 2 ^ (- e) in
  let den := if 0 <=? e then td * 2 ^ e else td in
  let m := num / den in let r := num mod den in
  let up := (den <? 2 * r) || ((den =? 2 * r) && Z.odd m) in
  let m' := if up then m + 1 else m in
  let '(mf, ef) := if m' =? 2 ^ 53 then (2 ^ 52, e + 1) else (m', e) in
  if mf =? 0 then OZero else if 971 <? ef then OInf false else OFin mf ef.

Definition oneg (v : oval) : oval :=
  match v with OFin m e => OFin (- m) e | OInf s => OInf (negb s) | _ => v end.

(* nearest-even rounding of tn / td, td > 0 *)
Definition rn (tn td : Z) : oval :=
  if tn =? 0 then OZero else if tn <? 0 then oneg (rn_pos (- tn) td) else rn_pos tn td.

Definition oval_of_float (f : float) : oval :=
  match f with
  | S754_zero _ => OZero
  | S754_infinity s => OInf s
  | S754_nan => ONaN
  | S754_finite s m e => OFin (if s then Zneg m else Zpos m) e
  end.

Definition oval_eqb (a b : oval) : bool :=
  match a, b with
  | OZero, OZero => true
  | OFin m e, OFin n g => (m =? n) && (e =? g)
  | OInf s, OInf t => Bool.eqb s t
  | ONaN, ONaN => true
  | _, _ => false
  end.

(* exact value as a fraction n / d, d > 0, of a finite oracle value *)
Definition ofrac (v : oval) : option (Z * Z) :=
  match v with
  | OZero => Some (0, 1)
  | OFin m e => if 0 <=? e then Some (m * 2 ^ e, 1) else Some (m, 2 ^ (- e))
  | _ => None
  end.

(* x // y on exact values: floor of the correctly rounded quotient *)
Definition spec_floordiv (x y : oval) : option oval :=     (* None: no opinion (non-finite operand) *)
  match ofrac x, ofrac y with
  | Some (xn, xd), Some (yn, yd) =>
      let tn := xn * yd * Z.sgn yn in let td := xd * Z.abs yn in
      match rn tn td with
      | OFin m e => Some (rn (floor_me m e) 1)
      | q => Some q
      end
  | _, _ => None
  end.

(* x % y on exact values: the correctly rounded remainder of floored division *)
Definition spec_mod (x y : oval) : option oval :=
  match ofrac x, ofrac y with
  | Some (xn, xd), Some (yn, yd) =>
      (* x = xn/xd, y = yn/yd: (x mod y) = ((xn*yd) mod (yn*xd)) / (xd*yd) *)
      Some (rn ((xn * yd) mod (yn * xd)) (xd * yd))
  | _, _ => None
  end.

Definition int_overflows (x : Z) : bool := 2 ^ 1024 - 2 ^ 970 <=? Z.abs x.

Definition spec_res (must_fail : bool) (want : option oval) (r : obs) : bool :=
  match r with
  | OErr => must_fail
  | OFloat b => negb must_fail &&
                match want with Some w => oval_eqb w (oval_of_float (float_of_bits b)) | None => true end
  | _ => false
  end.

Definition spec_ok_fd (c : fdcase) : bool :=
  match c with
  | CFdIF _ ismod x f r =>
      let y := oval_of_float (float_of_bits f) in
      let xv := rn x 1 in
      spec_res (int_overflows x || (match y with OZero => true | _ => false end))
               (if ismod then spec_mod xv y else spec_floordiv xv y) r
  | CFdFI _ ismod f x r =>
      let xv := oval_of_float (float_of_bits f) in
      let y := rn x 1 in
      spec_res (int_overflows x || (x =? 0))
               (if ismod then spec_mod xv y else spec_floordiv xv y) r
  end.
