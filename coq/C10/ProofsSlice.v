(* C10 -- rangeValue.Slice: exact under an explicit no-overflow guard *)
From Coq Require Import ZArith Bool List Lia.
From Coq Require Import ZifyBool.
From SV Require Import Common.GoInt C10.Model C10.Spec C10.ProofsInt C10.ProofsRange.
Import ListNotations.
Open Scope Z_scope.

(* an affine image of an index progression has the same number of elements *)
Lemma seq_len_scale a s i0 i1 k : s <> 0 -> k <> 0 ->
  seq_len (a + s * i0) (a + s * i1) (s * k) = seq_len i0 i1 k.
Proof.
  intros Hs Hk. apply bound_unique; try apply seq_len_nonneg.
  assert (SK : s * k <> 0) by (apply Z.neq_mul_0; split; assumption).
  intros j Hj. rewrite (seq_len_char _ _ _ j SK Hj), (seq_len_char _ _ _ j Hk Hj).
  unfold before_stop, seq_at.
  replace (a + s * i0 + j * (s * k)) with (a + s * (i0 + j * k)) by ring.
  set (X := i0 + j * k).
  destruct (Z_lt_le_dec 0 s) as [Ps|Ns]; destruct (Z_lt_le_dec 0 k) as [Pk|Nk].
  - assert (0 < s * k) by (apply Z.mul_pos_pos; lia).
    pose proof (Z.mul_lt_mono_pos_l s X i1 Ps). lia.
  - assert (s * k < 0) by (apply Z.mul_pos_neg; lia).
    pose proof (Z.mul_lt_mono_pos_l s i1 X Ps). lia.
  - assert (s * k < 0) by (apply Z.mul_neg_pos; lia).
    pose proof (Z.mul_lt_mono_neg_l s X i1 ltac:(lia)). lia.
  - assert (0 < s * k) by (apply Z.mul_neg_neg; lia).
    pose proof (Z.mul_lt_mono_neg_l s i1 X ltac:(lia)). lia.
Qed.

(* the guard: the three products/sums computed by Slice stay inside int64 *)
Definition slice_no_overflow (r : rangeValue) (start end_ step : Z) : bool :=
  in_int64 (r_start r + r_step r * start) && in_int64 (r_start r + r_step r * end_) && in_int64 (r_step r * step).

Lemma range_slice_guarded r start end_ step :
  range_wf r -> step <> 0 ->
  (forall j, 0 <= j < seq_len start end_ step -> 0 <= start + j * step < r_len r) ->
  slice_no_overflow r start end_ step = true ->
  exists r', range_slice r start end_ step = Some r' /\ range_wf r' /\
             r_len r' = seq_len start end_ step /\
             forall j, 0 <= j < r_len r' ->
               seq_at (r_start r') (r_step r') j = seq_at (r_start r) (r_step r) (start + j * step).
Proof.
  intros W Hk Hin G. pose proof W as (A & B & C & S & L & M).
  unfold slice_no_overflow in G. apply andb_true_iff in G. destruct G as [G G3].
  apply andb_true_iff in G. destruct G as [G1 G2].
  unfold range_slice. rewrite !wrap64_add_r.
  rewrite (wrap64_id _ G1), (wrap64_id _ G2), (wrap64_id _ G3).
  assert (NZ : r_step r * step <> 0) by (apply Z.neq_mul_0; split; assumption).
  destruct (rangeLen_exact _ _ _ G1 G2 G3 NZ) as [E U]. rewrite E.
  rewrite seq_len_scale in * by assumption.
  set (cnt := seq_len start end_ step) in *.
  pose proof (seq_len_nonneg start end_ step) as NN. fold cnt in NN.
  pose proof (seq_len_nonneg (r_start r) (r_stop r) (r_step r)) as NL. rewrite <- L in NL.
  assert (CL : cnt <= r_len r).
  { destruct (Z.eq_dec cnt 0); [lia|].
    pose proof (Hin 0 ltac:(lia)). pose proof (Hin (cnt - 1) ltac:(lia)). nia. }
  rewrite wrap64_id by (rng; lia).
  eexists. split; [reflexivity|]. cbn [r_start r_stop r_step r_len].
  split.
  - unfold range_wf. cbn [r_start r_stop r_step r_len]. rewrite seq_len_scale by assumption. fold cnt.
    repeat split; try assumption; lia.
  - split; [reflexivity|]. intros j Hj. unfold seq_at. lia.
Qed.

(* ---------- without the guard the code is wrong (known finding): frozen witnesses *)
Lemma range_slice_refuted :
  (* list(range(0, 2^63-1, 2^62)[0:2]) : two elements, the code answers an empty range *)
  (exists r s e k r',
      range_ [0; 9223372036854775807; 4611686018427387904] = Ok r /\
      slice_indices (r_len r) (Some 0) (Some 2) None = Ok (s, e, k) /\
      seq_len s e k = 2 /\ range_slice r s e k = Some r' /\ r_len r' = 0) /\
  (* range(0, 10, 2^62)[::4] : host panic "rangeLen: zero step" *)
  (exists r s e k,
      range_ [0; 10; 4611686018427387904] = Ok r /\
      slice_indices (r_len r) None None (Some 4) = Ok (s, e, k) /\
      range_slice r s e k = None).
Proof.
  split.
  - exists {| r_start := 0; r_stop := 9223372036854775807; r_step := 4611686018427387904; r_len := 2 |}, 0, 2, 1,
           {| r_start := 0; r_stop := -9223372036854775808; r_step := 4611686018427387904; r_len := 0 |}.
    vm_compute. repeat split.
  - exists {| r_start := 0; r_stop := 10; r_step := 4611686018427387904; r_len := 1 |}, 0, 1, 4.
    vm_compute. repeat split.
Qed.
