(* C10 -- lemmas about range / enumerate (library.go) *)
From Coq Require Import ZArith Bool List Lia.
From Coq Require Import ZifyBool.
From SV Require Import Common.GoInt C10.Model C10.Spec C10.ProofsInt.
Import ListNotations.
Open Scope Z_scope.

Ltac rng := unfold in_int32, in_int64, min_int32, max_int32, min_int64, max_int64 in *.

(* ---------- the specification's length really counts the elements *)
Lemma div_le_iff a b i : 0 < b -> (i <= a / b <-> b * i <= a).
Proof.
  intros Hb. pose proof (Z.div_mod a b ltac:(lia)). pose proof (Z.mod_pos_bound a b Hb). split; intros; nia.
Qed.

Lemma seq_len_nonneg start stop step : 0 <= seq_len start stop step.
Proof.
  unfold seq_len. destruct (0 <? step) eqn:P.
  - destruct (start <? stop) eqn:L; [|lia].
    assert (0 <= (stop - start - 1) / step) by (apply Z.div_pos; lia). lia.
  - destruct (step <? 0) eqn:N; [|lia]. destruct (stop <? start) eqn:L; [|lia].
    assert (0 <= (start - stop - 1) / - step) by (apply Z.div_pos; lia). lia.
Qed.

Lemma seq_len_char start stop step i :
  step <> 0 -> 0 <= i ->
  (i < seq_len start stop step <-> before_stop stop step (seq_at start step i)).
Proof.
  intros Hs Hi. unfold seq_len, before_stop, seq_at. destruct (0 <? step) eqn:P.
  - destruct (start <? stop) eqn:L.
    + pose proof (div_le_iff (stop - start - 1) step i ltac:(lia)). split; intros; [split; intros; nia| nia].
    + split; intros; [lia|]. destruct H as [H _]. specialize (H ltac:(lia)). nia.
  - assert (N : (step <? 0) = true) by lia. rewrite N. destruct (stop <? start) eqn:L.
    + pose proof (div_le_iff (start - stop - 1) (- step) i ltac:(lia)). split; intros; [split; intros; nia| nia].
    + split; intros; [lia|]. destruct H as [_ H]. specialize (H ltac:(lia)). nia.
Qed.

(* two natural-number-like bounds with the same "below" predicate are equal *)
Lemma bound_unique n m : 0 <= n -> 0 <= m -> (forall j, 0 <= j -> (j < n <-> j < m)) -> n = m.
Proof.
  intros Hn Hm H. destruct (Z_lt_le_dec n m) as [L|L].
  - specialize (H n Hn). lia.
  - destruct (Z.eq_dec n m); [assumption|]. specialize (H m Hm). lia.
Qed.

Lemma seq_has_mem start stop step x :
  step <> 0 -> (seq_has start stop step x = true <-> seq_mem start stop step x).
Proof.
  intros Hs. unfold seq_has, seq_mem. split.
  - intros H. apply andb_true_iff in H. destruct H as [H H3]. apply andb_true_iff in H. destruct H as [H1 H2].
    exists ((x - start) / step). pose proof (Z.div_mod (x - start) step Hs).
    assert (E : x = seq_at start step ((x - start) / step)) by (unfold seq_at; lia).
    split; [lia|]. split; [assumption|]. rewrite E at 1. apply seq_len_char; lia.
  - intros [i [Hi [E B]]]. unfold seq_at in E.
    assert (D : (x - start) / step = i) by (symmetry; apply (Z.div_unique_exact); lia).
    assert (M : (x - start) mod step = 0).
    { rewrite Z.mod_eq by assumption. rewrite D. lia. }
    assert (B' : before_stop stop step (seq_at start step i)) by (unfold seq_at; rewrite <- E; exact B).
    rewrite M, D. apply (seq_len_char start stop step i Hs Hi) in B'. lia.
Qed.

(* ---------- machine arithmetic *)
Lemma wrapu64_wrap64 z : wrapu64 (wrap64 z) = wrapu64 z.
Proof.
  unfold wrapu64, wrap64. rewrite Zminus_mod_idemp_l. f_equal. lia.
Qed.

Lemma wrap64_add_r a b : wrap64 (a + wrap64 b) = wrap64 (a + b).
Proof.
  unfold wrap64. f_equal.
  replace (a + ((b + 9223372036854775808) mod 18446744073709551616 - 9223372036854775808) + 9223372036854775808)
    with (a + (b + 9223372036854775808) mod 18446744073709551616) by lia.
  rewrite Zplus_mod_idemp_r. f_equal. lia.
Qed.

Lemma wrapu64_id z : 0 <= z < 18446744073709551616 -> wrapu64 z = z.
Proof. intros. unfold wrapu64. apply Z.mod_small. assumption. Qed.

Lemma wrap64_high z : 9223372036854775807 < z < 18446744073709551616 -> wrap64 z < 0.
Proof.
  intros H. unfold wrap64.
  replace (z + 9223372036854775808) with ((z - 9223372036854775808) + 1 * 18446744073709551616) by lia.
  rewrite Z.mod_add by lia. rewrite Z.mod_small by lia. lia.
Qed.

(* ---------- rangeLen / range_ *)
Lemma rangeLen_exact start stop step :
  in_int64 start = true -> in_int64 stop = true -> in_int64 step = true -> step <> 0 ->
  rangeLen start stop step = Some (wrap64 (seq_len start stop step)) /\
  seq_len start stop step < 18446744073709551616.
Proof.
  intros H1 H2 H3 Hs. unfold rangeLen, seq_len. destruct (0 <? step) eqn:P.
  - destruct (start <? stop) eqn:L; [|split; [reflexivity|lia]].
    rewrite (wrap64_id (stop - 1)) by (rng; lia). rewrite wrapu64_wrap64.
    rewrite (wrapu64_id (stop - 1 - start)) by (rng; lia). rewrite (wrapu64_id step) by (rng; lia).
    replace (stop - start - 1) with (stop - 1 - start) by lia.
    assert (Q : 0 <= (stop - 1 - start) / step <= stop - 1 - start).
    { split; [apply Z.div_pos; lia|]. apply Z.div_le_upper_bound; [lia|]. nia. }
    rewrite wrapu64_id by (rng; lia). split; [reflexivity|rng; lia].
  - assert (N : (step <? 0) = true) by lia. rewrite N.
    destruct (stop <? start) eqn:L; [|split; [reflexivity|lia]].
    rewrite (wrap64_id (start - 1)) by (rng; lia). rewrite !wrapu64_wrap64.
    rewrite (wrapu64_id (start - 1 - stop)) by (rng; lia). rewrite (wrapu64_id (- step)) by (rng; lia).
    replace (start - stop - 1) with (start - 1 - stop) by lia.
    assert (Q : 0 <= (start - 1 - stop) / - step <= start - 1 - stop).
    { split; [apply Z.div_pos; lia|]. apply Z.div_le_upper_bound; [lia|]. nia. }
    rewrite wrapu64_id by (rng; lia). split; [reflexivity|rng; lia].
Qed.

(* the three-argument form decides everything; 1 and 2 arguments are defaults *)
Definition range_spec (start stop step : Z) : res rangeValue :=
  if negb (in_int64 start && in_int64 stop && in_int64 step) then Err
  else if step =? 0 then Err
  else if max_int64 <? seq_len start stop step then Err   (* "too many elements" *)
  else Ok {| r_start := start; r_stop := stop; r_step := step; r_len := seq_len start stop step |}.

Lemma range3_exact start stop step : range_ [start; stop; step] = range_spec start stop step.
Proof.
  unfold range_, range_spec, unpack_int.
  destruct (in_int64 start) eqn:A; [|reflexivity]. destruct (in_int64 stop) eqn:B; [|reflexivity].
  destruct (in_int64 step) eqn:C; [|reflexivity]. cbn [andb negb].
  destruct (step =? 0) eqn:Z0; [reflexivity|].
  destruct (rangeLen_exact start stop step A B C ltac:(lia)) as [E U]. rewrite E.
  pose proof (seq_len_nonneg start stop step) as NN.
  destruct (max_int64 <? seq_len start stop step) eqn:M.
  - pose proof (wrap64_high (seq_len start stop step) ltac:(rng; lia)).
    destruct (wrap64 (seq_len start stop step) <? 0) eqn:W; [reflexivity|lia].
  - rewrite wrap64_id by (rng; lia).
    destruct (seq_len start stop step <? 0) eqn:W; [lia|reflexivity].
Qed.

Lemma range_exact args :
  range_ args = match args with
                | [a] => range_spec 0 a 1
                | [a; b] => range_spec a b 1
                | [a; b; c] => range_spec a b c
                | _ => Err
                end.
Proof.
  destruct args as [|a [|b [|c [|d l]]]]; try reflexivity.
  - rewrite <- range3_exact. reflexivity.
  - rewrite <- range3_exact. reflexivity.
  - apply range3_exact.
Qed.

(* ---------- a constructed range: invariant used by everything below *)
Definition range_wf (r : rangeValue) : Prop :=
  in_int64 (r_start r) = true /\ in_int64 (r_stop r) = true /\ in_int64 (r_step r) = true /\
  r_step r <> 0 /\ r_len r = seq_len (r_start r) (r_stop r) (r_step r) /\ r_len r <= max_int64.

Lemma range_spec_wf a b c r : range_spec a b c = Ok r -> range_wf r /\ r_start r = a /\ r_stop r = b /\ r_step r = c.
Proof.
  unfold range_spec. destruct (in_int64 a) eqn:A; [|discriminate]. destruct (in_int64 b) eqn:B; [|discriminate].
  destruct (in_int64 c) eqn:C; [|discriminate]. cbn [andb negb].
  destruct (c =? 0) eqn:Z0; [discriminate|]. destruct (max_int64 <? seq_len a b c) eqn:M; [discriminate|].
  intros H. injection H as <-. cbn. unfold range_wf. cbn. repeat split; try assumption; lia.
Qed.

Lemma range_wf_of_range_ args r : range_ args = Ok r -> range_wf r.
Proof.
  rewrite range_exact. destruct args as [|a [|b [|c [|d l]]]]; try discriminate; intros H; apply range_spec_wf in H; tauto.
Qed.

(* elements stay between start and stop, hence inside int64 *)
Lemma elem_in_range r i : range_wf r -> 0 <= i < r_len r ->
  in_int64 (seq_at (r_start r) (r_step r) i) = true.
Proof.
  intros (A & B & C & S & L & M) Hi. rewrite L in Hi.
  destruct Hi as [Hi0 Hi1]. apply (seq_len_char _ _ _ i S Hi0) in Hi1. unfold before_stop, seq_at in *.
  destruct Hi1 as [P N]. rng. destruct (Z_lt_le_dec 0 (r_step r)).
  - specialize (P ltac:(lia)). nia.
  - specialize (N ltac:(lia)). nia.
Qed.

Lemma range_index_exact r i : range_wf r -> 0 <= i < r_len r ->
  range_index r i = seq_at (r_start r) (r_step r) i.
Proof.
  intros W Hi. unfold range_index. rewrite wrap64_add_r. apply wrap64_id.
  apply (elem_in_range r i W Hi).
Qed.

Lemma range_getIndex_exact r y : range_wf r ->
  range_getIndex r y =
    if negb (in_int32 y) then Err
    else let i := if y <? 0 then y + r_len r else y in
         if (0 <=? i) && (i <? r_len r) then Ok (seq_at (r_start r) (r_step r) i) else Err.
Proof.
  intros W. unfold range_getIndex. destruct (in_int32 y) eqn:Y; [|reflexivity]. cbn [negb].
  destruct W as (A & B & C & S & L & M).
  pose proof (seq_len_nonneg (r_start r) (r_stop r) (r_step r)) as NN. rewrite <- L in NN.
  assert (E : (if y <? 0 then wrap64 (y + r_len r) else y) = (if y <? 0 then y + r_len r else y)).
  { destruct (y <? 0) eqn:N; [|reflexivity]. apply wrap64_id. rng. lia. }
  rewrite E. cbv zeta. set (i := if y <? 0 then y + r_len r else y).
  destruct ((i <? 0) || (r_len r <=? i)) eqn:O.
  - assert (F : (0 <=? i) && (i <? r_len r) = false) by lia. rewrite F. reflexivity.
  - assert (F : (0 <=? i) && (i <? r_len r) = true) by lia. rewrite F. f_equal.
    apply range_index_exact; [unfold range_wf; tauto | lia].
Qed.

(* iteration yields exactly the elements, in order *)
Lemma range_iterate_from r (k : nat) i : range_wf r -> 0 <= i -> i + Z.of_nat k = r_len r ->
  forall fuel, (k <= fuel)%nat ->
  range_iterate fuel r i = map (fun j => seq_at (r_start r) (r_step r) (i + Z.of_nat j)) (seq 0 k).
Proof.
  intros W. revert i. induction k as [|k IH]; intros i Hi E fuel Hf.
  - destruct fuel; [reflexivity|]. cbn [range_iterate]. unfold range_next.
    assert (F : (i <? r_len r) = false) by lia. rewrite F. reflexivity.
  - destruct fuel as [|fuel]; [lia|]. cbn [range_iterate]. unfold range_next.
    assert (F : (i <? r_len r) = true) by lia. rewrite F.
    destruct W as (A & B & C & S & L & M).
    assert (W' : range_wf r) by (unfold range_wf; tauto).
    rewrite (wrap64_id (i + 1)) by (rng; lia).
    rewrite (range_index_exact r i W' ltac:(lia)).
    cbn [seq map]. f_equal; [f_equal; lia|].
    rewrite (IH (i + 1) ltac:(lia) ltac:(lia) fuel ltac:(lia)).
    rewrite <- seq_shift, map_map. apply map_ext. intros j. f_equal. lia.
Qed.

Lemma range_iterate_exact r fuel : range_wf r -> (Z.to_nat (r_len r) <= fuel)%nat ->
  range_iterate fuel r 0 = seq_list (r_start r) (r_stop r) (r_step r).
Proof.
  intros W Hf. pose proof W as (A & B & C & S & L & M).
  pose proof (seq_len_nonneg (r_start r) (r_stop r) (r_step r)) as NN. rewrite <- L in NN.
  rewrite (range_iterate_from r (Z.to_nat (r_len r)) 0 W ltac:(lia) ltac:(lia) fuel Hf).
  unfold seq_list. rewrite <- L. apply map_ext. intros j. f_equal.
Qed.

(* ---------- equality of ranges is equality of the sequences *)
Lemma rangeEqual_exact x y : range_wf x -> range_wf y ->
  (rangeEqual x y = true <->
   (r_len x = r_len y /\ forall i, 0 <= i < r_len x ->
      seq_at (r_start x) (r_step x) i = seq_at (r_start y) (r_step y) i)).
Proof.
  intros Wx Wy. unfold rangeEqual.
  pose proof Wx as (_ & _ & _ & _ & Lx & _). pose proof (seq_len_nonneg (r_start x) (r_stop x) (r_step x)) as NN. rewrite <- Lx in NN.
  destruct (r_len x =? r_len y) eqn:E; cbn [negb].
  2: { split; [discriminate|]. intros [H _]. lia. }
  destruct (r_len x =? 0) eqn:Z0.
  { split; [|reflexivity]. intros _. split; [lia|]. intros i Hi. lia. }
  destruct (r_start x =? r_start y) eqn:S; cbn [negb].
  2: { split; [discriminate|]. intros [_ H]. specialize (H 0 ltac:(lia)). unfold seq_at in H. lia. }
  unfold seq_at. split.
  - intros H. split; [lia|]. intros i Hi. destruct (r_len x =? 1) eqn:O; [assert (i = 0) by lia; subst; lia|].
    assert (r_step x = r_step y) by lia. nia.
  - intros [_ H]. destruct (r_len x =? 1) eqn:O; [reflexivity|]. specialize (H 1 ltac:(lia)). lia.
Qed.

(* ---------- membership and enumerate, through the Int operations *)
Section WithInt.
  Variable I : int_impl.
  Hypothesis OK : impl_ok I.

  Lemma range_contains_exact r (x : T I) : range_wf r -> canonical I x = true ->
    range_contains I r x = seq_has (r_start r) (r_stop r) (r_step r) (value I x).
  Proof.
    intros (A & B & C & S & L & M) Hx. unfold range_contains, seq_has. cbv zeta.
    destruct (MakeInt64_ok I OK (r_start r)) as [C1 V1].
    destruct (MakeInt64_ok I OK (r_step r)) as [C2 V2].
    destruct (MakeInt64_ok I OK (r_len r)) as [C3 V3].
    destruct (Sub_ok I OK x _ Hx C1) as [Cd Vd]. rewrite V1 in Vd.
    assert (NZ : value I (MakeInt64 I (r_step r)) <> 0) by (rewrite V2; assumption).
    destruct (Mod_ok I OK _ _ Cd C2 NZ) as [Cm Vm]. rewrite Vd, V2 in Vm.
    destruct (Div_ok I OK _ _ Cd C2 NZ) as [Cq Vq]. rewrite Vd, V2 in Vq.
    destruct (Sub_ok I OK _ _ Cq C3) as [Cs Vs]. rewrite Vq, V3 in Vs.
    rewrite (Sign_ok I _ Cm), (Sign_ok I _ Cq), (Sign_ok I _ Cs), Vm, Vq, Vs, L. unfold sign_of.
    set (d := value I x - r_start r). set (n := seq_len (r_start r) (r_stop r) (r_step r)).
    destruct (d mod r_step r =? 0) eqn:E1.
    - assert (F : (d mod r_step r <? 0) = false) by lia. rewrite F. cbn [negb Z.eqb andb].
      destruct (d / r_step r <? 0) eqn:E2; destruct (d / r_step r =? 0) eqn:E3; destruct (d / r_step r - n <? 0) eqn:E4;
        destruct (d / r_step r - n =? 0) eqn:E5; cbn; lia.
    - destruct (d mod r_step r <? 0); reflexivity.
  Qed.

  Lemma enumerate_index_exact start i : value I (enumerate_index I start i) = start + i /\
    canonical I (enumerate_index I start i) = true.
  Proof.
    unfold enumerate_index.
    destruct (MakeInt64_ok I OK start) as [C1 V1]. destruct (MakeInt64_ok I OK i) as [C2 V2].
    destruct (Add_ok I OK _ _ C1 C2) as [C V]. rewrite V1, V2 in V. split; assumption.
  Qed.

  Lemma enumerate_exact start n :
    enumerate_indices I start n =
      if in_int64 start then Ok (map (fun i => start + Z.of_nat i) (seq 0 n)) else Err.
  Proof.
    unfold enumerate_indices, unpack_int. destruct (in_int64 start); [|reflexivity].
    f_equal. apply map_ext. intros i. apply enumerate_index_exact.
  Qed.
End WithInt.

(* ---------- repetition: the exact length or an error, never a wrong length *)
Lemma repeat_len_exact I (n : T I) len : canonical I n = true -> 0 <= len <= max_int64 ->
  repeat_len I len n =
    if len =? 0 then Ok 0
    else if value I n <? 1 then Ok 0
    else if negb (in_int32 (value I n)) then Err
    else if maxAlloc <=? len * value I n then Err else Ok (len * value I n).
Proof.
  intros Hn Hl. unfold repeat_len. destruct (len =? 0) eqn:L0; [reflexivity|].
  rewrite (AsInt32_ok I n Hn), (Sign_ok I n Hn). unfold sign_of.
  destruct (in_int32 (value I n)) eqn:R; cbn [negb].
  2: { destruct (value I n <? 0) eqn:N.
       - assert (L1 : (value I n <? 1) = true) by lia. rewrite L1. reflexivity.
       - assert (L1 : (value I n <? 1) = false) by (rng; lia). rewrite L1.
         destruct (value I n =? 0); reflexivity. }
  set (i := value I n) in *. destruct (i <? 1) eqn:P; [reflexivity|]. cbv zeta.
  rewrite (wrapu64_id len) by (rng; lia). rewrite (wrapu64_id i) by (rng; lia).
  destruct (Z_lt_le_dec (len * i) 18446744073709551616) as [B|B].
  - assert (B' : 0 <= len * i < 18446744073709551616) by (split; [nia|assumption]).
    rewrite (Z.div_small _ _ B'), (Z.mod_small _ _ B'). cbn [Z.eqb negb orb]. reflexivity.
  - assert (Q : 1 <= len * i / 18446744073709551616) by (apply Z.div_le_lower_bound; lia).
    assert (NZ : (len * i / 18446744073709551616 =? 0) = false) by lia. rewrite NZ. cbn [negb orb].
    assert (M : (maxAlloc <=? len * i) = true) by (unfold maxAlloc; lia). rewrite M. reflexivity.
Qed.
