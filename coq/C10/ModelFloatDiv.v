(* C10 -- executable model of the float cases of `//` and `%` in starlark.Binary
   (eval.go) and of Float.Mod / floor (value.go).  Extends C10.Model (same float
   datatype, same conventions).  Library oracles:
     math.Mod(x, y)  : the exact remainder x - trunc(x/y) * y, which is always
                       representable; sign of x; NaN / Inf / 0 special cases as
                       documented in package math;
     math.Floor(x)   : the exact floor, always representable; floor(-0) = -0;
     x / y, z + y    : SpecFloat's SFdiv / SFadd (as in C10.Model.float_binary). *)
From Coq Require Import ZArith Bool List.
From Coq Require Floats.SpecFloat.
From SV Require Import Common.GoInt C10.Model.
Import Floats.SpecFloat.
Open Scope Z_scope.

(* Go's  x < 0  on a float64 *)
Definition float_neg (x : float) : bool :=
  match x with S754_finite true _ _ | S754_infinity true => true | _ => false end.

(* math.Mod *)
Definition math_Mod (x y : float) : float :=
  match x, y with
  | S754_nan, _ | _, S754_nan => S754_nan
  | S754_infinity _, _ => S754_nan
  | _, S754_zero _ => S754_nan
  | _, S754_infinity _ => x
  | S754_zero _, _ => x
  | S754_finite sx mx ex, S754_finite sy my ey =>
      let e := Z.min ex ey in
      let a := Zpos mx * 2 ^ (ex - e) in
      let b := Zpos my * 2 ^ (ey - e) in
      let r := a mod b in
      binary_normalize 53 1024 (if sx then - r else r) e sx
  end.

(* math.Floor *)
Definition math_Floor (x : float) : float :=
  match x with
  | S754_finite s m e =>
      if 0 <=? e then x
      else binary_normalize 53 1024 ((if s then Zneg m else Zpos m) / 2 ^ (- e)) 0 s
  | _ => x
  end.

(* func (x Float) Mod(y Float) Float {
     z := Float(math.Mod(float64(x), float64(y)))
     if (x < 0) != (y < 0) && z != 0 { z += y }
     return z } *)
Definition Float_Mod (x y : float) : float :=
  let z := math_Mod x y in
  if negb (Bool.eqb (float_neg x) (float_neg y)) && negb (float_is_zero z)
  then SFadd 53 1024 z y else z.

(* func floor(f Float) Float { return Float(math.Floor(float64(f))) } *)
Definition Float_floor (f : float) : float := math_Floor f.

(* Binary, case SLASHSLASH / PERCENT with Float operands *)
Definition Binary_ff_floordiv (x y : float) : res float :=
  if float_is_zero y then Err else Ok (Float_floor (SFdiv 53 1024 x y)).
Definition Binary_ff_mod (x y : float) : res float :=
  if float_is_zero y then Err else Ok (Float_Mod x y).

Section Mixed.
  Variable I : int_impl.
  (* Int op Float: xf, err := x.finiteFloat(); then the zero test on y *)
  Definition Binary_if_floordiv (x : T I) (y : float) : res float :=
    match finiteFloat I x with Ok xf => Binary_ff_floordiv xf y | Err => Err end.
  Definition Binary_if_mod (x : T I) (y : float) : res float :=
    match finiteFloat I x with Ok xf => Binary_ff_mod xf y | Err => Err end.
  (* Float op Int: yf, err := y.finiteFloat(); yf == 0.0 / y.Sign() == 0 is an error *)
  Definition Binary_fi_floordiv (x : float) (y : T I) : res float :=
    match finiteFloat I y with Ok yf => Binary_ff_floordiv x yf | Err => Err end.
  Definition Binary_fi_mod (x : float) (y : T I) : res float :=
    if Sign I y =? 0 then Err
    else match finiteFloat I y with Ok yf => Ok (Float_Mod x yf) | Err => Err end.
End Mixed.
