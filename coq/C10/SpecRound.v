(* C10 -- specification of int -> float conversion: IEEE 754 roundTiesToEven into
   binary64.  Written without reference to the implementation model (C10.Model)
   and without SpecFloat's rounding functions: only the datatype spec_float and
   its validity predicate valid_binary (canonical mantissa, exponent range) are
   used, to say which value a float denotes.

   The finite binary64 values are the numbers m * 2^e with |m| < 2^53 and
   -1074 <= e <= 971.  Every one of them is an integer multiple of 2^-1074, so a
   value is represented exactly by the integer  value * 2^1074  and distances are
   compared on that scale: no rationals, no reals. *)
From Coq Require Import ZArith Bool.
From Coq Require Floats.SpecFloat.
Import Floats.SpecFloat.
Open Scope Z_scope.

Definition scale : Z := 2 ^ 1074.

(* w = (a finite binary64 value) * 2^1074 *)
Definition b64_scaled (w : Z) : Prop :=
  exists m e, Z.abs m < 2 ^ 53 /\ -1074 <= e <= 971 /\ w = m * 2 ^ (e + 1074).

(* the value denoted by a float, on that scale (meaningful for valid floats: e >= -1074) *)
Definition scaled_val (f : spec_float) : option Z :=
  match f with
  | S754_zero _ => Some 0
  | S754_finite s m e => Some ((if s then Zneg m else Zpos m) * 2 ^ (e + 1074))
  | _ => None
  end.

(* last bit of the significand of the canonical representation (valid_binary
   forces the representation to be the canonical one: 53 significant bits, or
   the minimal exponent) *)
Definition mantissa_even (f : spec_float) : bool :=
  match f with
  | S754_zero _ => true
  | S754_finite _ m _ => Z.even (Zpos m)
  | _ => false
  end.

(* IEEE 754-2008 section 4.3.1, roundTiesToEven: a number of magnitude at least
   b^emax * (b - b^(1-p) / 2) = 2^1024 - 2^970 rounds to the infinity of its sign *)
Definition overflow_threshold : Z := 2 ^ 1024 - 2 ^ 970.

(* f is the result of rounding the integer z to binary64, ties to even:
   - |z| at or beyond the overflow threshold: the infinity with the sign of z;
   - otherwise f is a valid finite float whose value v is at minimal distance
     from z among ALL finite binary64 values, and if some other binary64 value
     is equally near then the significand of f is even; zero converts to +0. *)
Definition rounds_to_nearest_even (z : Z) (f : spec_float) : Prop :=
  if overflow_threshold <=? Z.abs z then f = S754_infinity (z <? 0)
  else
    valid_binary 53 1024 f = true /\
    (z = 0 -> f = S754_zero false) /\
    exists v, scaled_val f = Some v /\
      (forall w, b64_scaled w -> Z.abs (z * scale - v) <= Z.abs (z * scale - w)) /\
      (forall w, b64_scaled w -> w <> v ->
         Z.abs (z * scale - w) = Z.abs (z * scale - v) -> mantissa_even f = true).
