(* C10 -- range / enumerate as they were on the pinned tree, before the four
   "fix:" commits in /repo (starlark/library.go: a97db64 contains, bb40dc5 Has,
   f63dc59 enumerate, 049fe9c rangeLen/range_).  This file documents the
   findings: it is about frozen copies of the old definitions, not about /repo. *)
From Coq Require Import ZArith Bool List.
From Coq Require Floats.SpecFloat.
From SV Require Import Common.GoInt C10.Model C10.Spec.
Import ListNotations.
Import Floats.SpecFloat.
Open Scope Z_scope.

(* func rangeLen(start, stop, step int) int  -- all in int:
     step > 0: (stop-1-start)/step + 1 ; step < 0: (start-1-stop)/-step + 1 *)
Definition old_rangeLen (start stop step : Z) : option Z :=
  if 0 <? step then
    if start <? stop then Some (wrap64 (wrap64 (Z.quot (wrap64 (wrap64 (stop - 1) - start)) step) + 1)) else Some 0
  else if step <? 0 then
    if stop <? start then Some (wrap64 (wrap64 (Z.quot (wrap64 (wrap64 (start - 1) - stop)) (wrap64 (- step))) + 1)) else Some 0
  else None.

(* range_ did not test the length *)
Definition old_range3 (start stop step : Z) : res rangeValue :=
  if negb (in_int64 start && in_int64 stop && in_int64 step) then Err
  else if step =? 0 then Err
  else match old_rangeLen start stop step with
       | Some n => Ok {| r_start := start; r_stop := stop; r_step := step; r_len := n |}
       | None => Err
       end.

(* func (r rangeValue) contains(x Int) bool:
     x32, err := AsInt32(x); if err != nil { return false }
     delta := x32 - r.start; quo, rem := delta/r.step, delta%r.step
     return rem == 0 && 0 <= quo && quo < r.len *)
Definition old_contains (r : rangeValue) (x : Z) : bool :=
  if negb (in_int32 x) then false
  else let delta := wrap64 (x - r_start r) in
       let quo := wrap64 (Z.quot delta (r_step r)) in let rem := wrap64 (Z.rem delta (r_step r)) in
       (rem =? 0) && (0 <=? quo) && (quo <? r_len r).

(* Has: i, err := NumberToInt(y) ... return r.contains(i): a float was truncated *)
Definition old_has (r : rangeValue) (y : num) : res bool :=
  match NumberToInt union_impl y with
  | Ok i => Ok (old_contains r (value union_impl i))
  | Err => Err
  end.

(* enumerate: pair[0] = MakeInt(start + i) *)
Definition old_enumerate_index (start i : Z) : Z := wrap64 (start + i).

Definition one_and_a_half : float := S754_finite false 6755399441055744 (-52).

Lemma range_exact_refuted_before_fix :
  (* len(range(-2^63, 2^63-1)): the length wrapped to -1 ("has no len"), the sequence has 2^64-1 elements *)
  (exists r, old_range3 (-9223372036854775808) 9223372036854775807 1 = Ok r /\ r_len r = -1 /\
             seq_len (-9223372036854775808) 9223372036854775807 1 = 18446744073709551615) /\
  (* range(-2^63, 2^63-1, 2) was empty; it has 2^63 elements *)
  (exists r, old_range3 (-9223372036854775808) 9223372036854775807 2 = Ok r /\ r_len r = 0 /\
             seq_len (-9223372036854775808) 9223372036854775807 2 = 9223372036854775808) /\
  (* range(2^31, -2^63, -7): a legitimate range whose length was wrong *)
  (exists r, old_range3 2147483648 (-9223372036854775808) (-7) = Ok r /\
             r_len r <> seq_len 2147483648 (-9223372036854775808) (-7) /\
             seq_len 2147483648 (-9223372036854775808) (-7) <= max_int64) /\
  (* (1<<40) in range(1<<41) was False *)
  (exists r, old_range3 0 2199023255552 1 = Ok r /\ old_contains r 1099511627776 = false /\
             seq_has 0 2199023255552 1 1099511627776 = true) /\
  (* 5 in range(-2^63, 10) was False: x - start wrapped *)
  (exists r, old_range3 (-9223372036854775808) 10 1 = Ok r /\ old_contains r 5 = false /\
             seq_has (-9223372036854775808) 10 1 5 = true) /\
  (* 1.5 in range(3) was True *)
  (exists r, old_range3 0 3 1 = Ok r /\ valid_float one_and_a_half = true /\
             old_has r (NFloat one_and_a_half) = Ok true /\
             spec_range_has 0 3 1 (NFloat one_and_a_half) = Some false) /\
  (* enumerate(x, 2^63-1): the second index was -2^63 *)
  (old_enumerate_index 9223372036854775807 1 = -9223372036854775808).
Proof.
  split; [exists {| r_start := -9223372036854775808; r_stop := 9223372036854775807; r_step := 1; r_len := -1 |}; vm_compute; repeat split|].
  split; [exists {| r_start := -9223372036854775808; r_stop := 9223372036854775807; r_step := 2; r_len := 0 |}; vm_compute; repeat split|].
  split; [eexists; split; [vm_compute; reflexivity|]; vm_compute; split; discriminate|].
  split; [exists {| r_start := 0; r_stop := 2199023255552; r_step := 1; r_len := 2199023255552 |}; vm_compute; repeat split|].
  split; [exists {| r_start := -9223372036854775808; r_stop := 10; r_step := 1; r_len := -9223372036854775798 |}; vm_compute; repeat split|].
  split; [exists {| r_start := 0; r_stop := 3; r_step := 1; r_len := 3 |}; vm_compute; repeat split|].
  vm_compute. reflexivity.
Qed.
