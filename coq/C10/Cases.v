(* C10 -- evaluation of harness observations inside Coq (used by checks/c10.py):
   model_ok = the executable model reproduces the observation (correspondence),
   spec_ok  = the observation satisfies the specification (oracle; does not use the model;
              spec_binary_eval is proved equal to Spec.spec_binary in ProofsInt). *)
From Coq Require Import ZArith Bool List.
From SV Require Import Common.GoInt C10.Model C10.Spec C10.ProofsInt.
Import ListNotations.
Open Scope Z_scope.

Inductive case :=
| CBin (fallback : bool) (o : binop) (x y : Z) (r : option Z) (arm : nat)
| CCmp (fallback : bool) (c : cmpop) (x y : Z) (r : bool)
| CUn (fallback : bool) (o : unop) (x : Z) (r : Z) (arm : nat).

Definition optZ_eqb (a b : option Z) : bool :=
  match a, b with Some x, Some y => x =? y | None, None => true | _, _ => false end.

(* arm: 1 = small arm, 2 = *big.Int arm, 0 = not an Int *)
Definition arm_of (I : int_impl) (x : T I) : nat :=
  match get I x with (_, None) => 1%nat | (_, Some _) => 2%nat end.

Definition res_eqb (I : int_impl) (m : option (T I)) (r : option Z) (arm : nat) : bool :=
  match m, r with
  | Some v, Some z => (value I v =? z) && Nat.eqb (arm_of I v) arm
  | None, None => true
  | _, _ => false
  end.

Definition impl_of (fb : bool) : int_impl := if fb then fallback_impl else union_impl.

Definition model_ok (c : case) : bool :=
  match c with
  | CBin fb o x y r arm =>
      let I := impl_of fb in res_eqb I (Binary I o (MakeBigInt I x) (MakeBigInt I y)) r arm
  | CCmp fb c x y r =>
      let I := impl_of fb in Bool.eqb (Compare I c (MakeBigInt I x) (MakeBigInt I y)) r
  | CUn fb o x r arm =>
      let I := impl_of fb in res_eqb I (Some (Unary I o (MakeBigInt I x))) (Some r) arm
  end.

Definition arm_spec (z : Z) : nat := if in_int32 z then 1%nat else 2%nat.

Definition spec_ok (c : case) : bool :=
  match c with
  | CBin _ o x y r arm =>
      optZ_eqb (spec_binary_eval o x y) r && match r with Some z => Nat.eqb arm (arm_spec z) | None => true end
  | CCmp _ c x y r => Bool.eqb (spec_compare c x y) r
  | CUn _ o x r arm => (spec_unary o x =? r) && Nat.eqb arm (arm_spec r)
  end.
