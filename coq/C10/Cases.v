(* C10 -- evaluation of harness observations inside Coq (used by checks/c10.py):
   model_ok = the executable model reproduces the observation (correspondence),
   spec_ok  = the observation satisfies the specification (oracle; does not use the model;
              spec_binary_eval is proved equal to Spec.spec_binary in ProofsInt). *)
From Coq Require Import ZArith Bool List.
From Coq Require Floats.SpecFloat.
From SV Require Import Common.GoInt C10.Model C10.Spec C10.ProofsInt.
Import ListNotations.
Import Floats.SpecFloat.
Open Scope Z_scope.

(* observed values *)
Inductive obs :=
| OInt (z : Z)
| OFloat (bits : Z)
| OBool (b : bool)
| OInts (l : list Z)
| OStr (s : list Z)
| OErr.

Inductive case :=
| CBin (fallback : bool) (o : binop) (x y : Z) (r : option Z) (arm : nat)
| CCmp (fallback : bool) (c : cmpop) (x y : Z) (r : bool)
| CUn (fallback : bool) (o : unop) (x : Z) (r : Z) (arm : nat)
| CCmpIF (fallback : bool) (c : cmpop) (x : Z) (f : Z) (r : bool)
| CCmpFI (fallback : bool) (c : cmpop) (f : Z) (x : Z) (r : bool)
| CMixIF (fallback : bool) (o : flop) (x : Z) (f : Z) (r : obs)
| CMixFI (fallback : bool) (o : flop) (f : Z) (x : Z) (r : obs)
| CTrueDiv (fallback : bool) (x y : Z) (r : obs)
| CFloatOfInt (fallback : bool) (x : Z) (r : obs)
| CIntOf (fallback : bool) (which : nat) (x : num) (r : obs) (arm : nat)   (* 0 int(), 1 math.floor, 2 math.ceil *)
| CRngLen (a b c : Z) (r : obs)
| CRngIdx (a b c i : Z) (r : obs)
| CRngIn (fallback : bool) (a b c : Z) (y : num) (r : obs)
| CRngList (a b c : Z) (r : obs)
| CRngEq (a b c d e f : Z) (neq : bool) (r : obs)
| CRngSlice (a b c : Z) (lo hi st : option Z) (len_only : bool) (r : obs)
| CEnum (fallback : bool) (start : Z) (n : nat) (r : obs)
| CParse (s : list Z) (base : option Z) (r : obs)
| CPrint (base : Z) (z : Z) (s : list Z)
| CRepeat (fallback : bool) (len : Z) (n : Z) (r : obs).   (* len(x * n) for len(x) = len *)

Definition optZ_eqb (a b : option Z) : bool :=
  match a, b with Some x, Some y => x =? y | None, None => true | _, _ => false end.

Fixpoint listZ_eqb (a b : list Z) : bool :=
  match a, b with
  | [], [] => true
  | x :: s, y :: t => (x =? y) && listZ_eqb s t
  | _, _ => false
  end.

(* floats are compared as values of the datatype; all NaNs are one value *)
Definition float_eqb (a b : float) : bool :=
  match a, b with
  | S754_zero s, S754_zero t => Bool.eqb s t
  | S754_infinity s, S754_infinity t => Bool.eqb s t
  | S754_nan, S754_nan => true
  | S754_finite s m e, S754_finite t n g => Bool.eqb s t && (Zpos m =? Zpos n) && (e =? g)
  | _, _ => false
  end.

(* arm: 1 = small arm, 2 = *big.Int arm, 0 = not an Int *)
Definition arm_of (I : int_impl) (x : T I) : nat :=
  match get I x with (_, None) => 1%nat | (_, Some _) => 2%nat end.

Definition res_eqb (I : int_impl) (m : option (T I)) (r : option Z) (arm : nat) : bool :=
  match m, r with
  | Some v, Some z => (value I v =? z) && Nat.eqb (arm_of I v) arm
  | None, None => true
  | _, _ => false
  end.

Definition impl_of (fb : bool) : int_impl := if fb then fallback_impl else union_impl.

Definition float_res_eqb (m : res float) (r : obs) : bool :=
  match m, r with
  | Ok f, OFloat b => float_eqb f (float_of_bits b)
  | Err, OErr => true
  | _, _ => false
  end.

Definition int_res_eqb (I : int_impl) (m : res (T I)) (r : obs) (arm : nat) : bool :=
  match m, r with
  | Ok v, OInt z => (value I v =? z) && Nat.eqb (arm_of I v) arm
  | Err, OErr => true
  | _, _ => false
  end.

Definition bool_res_eqb (m : res bool) (r : obs) : bool :=
  match m, r with
  | Ok a, OBool b => Bool.eqb a b
  | Err, OErr => true
  | _, _ => false
  end.

Definition ints_res_eqb (m : res (list Z)) (r : obs) : bool :=
  match m, r with
  | Ok a, OInts b => listZ_eqb a b
  | Err, OErr => true
  | _, _ => false
  end.

Definition mk_num (I : int_impl) (y : num) : num := y.

(* the elements of a (possibly sliced) range, through the iterator *)
(* only short sequences are ever materialised (the harness lists at most 1000 elements) *)
Definition range_elems (r : rangeValue) : list Z :=
  if 1000 <? r_len r then [] else range_iterate (Z.to_nat (Z.max 0 (r_len r))) r 0.

Definition model_slice (a b c : Z) (lo hi st : option Z) : res rangeValue :=
  match range_ [a; b; c] with
  | Ok r => match slice_indices (r_len r) lo hi st with
            | Ok (s, e, k) => match range_slice r s e k with Some q => Ok q | None => Err end
            | Err => Err
            end
  | Err => Err
  end.

Definition model_ok (c : case) : bool :=
  match c with
  | CBin fb o x y r arm =>
      let I := impl_of fb in res_eqb I (Binary I o (MakeBigInt I x) (MakeBigInt I y)) r arm
  | CCmp fb c x y r =>
      let I := impl_of fb in Bool.eqb (Compare I c (MakeBigInt I x) (MakeBigInt I y)) r
  | CUn fb o x r arm =>
      let I := impl_of fb in res_eqb I (Some (Unary I o (MakeBigInt I x))) (Some r) arm
  | CCmpIF fb c x f r => let I := impl_of fb in Bool.eqb (Compare_if I c (MakeBigInt I x) (float_of_bits f)) r
  | CCmpFI fb c f x r => let I := impl_of fb in Bool.eqb (Compare_fi I c (float_of_bits f) (MakeBigInt I x)) r
  | CMixIF fb o x f r => let I := impl_of fb in float_res_eqb (Binary_if I o (MakeBigInt I x) (float_of_bits f)) r
  | CMixFI fb o f x r => let I := impl_of fb in float_res_eqb (Binary_fi I o (float_of_bits f) (MakeBigInt I x)) r
  | CTrueDiv fb x y r => let I := impl_of fb in float_res_eqb (Binary_ii_div I (MakeBigInt I x) (MakeBigInt I y)) r
  | CFloatOfInt fb x r => let I := impl_of fb in float_res_eqb (finiteFloat I (MakeBigInt I x)) r
  | CIntOf fb w x r arm =>
      let I := impl_of fb in
      int_res_eqb I (match w with 0%nat => NumberToInt I x | 1%nat => math_floor I x | _ => math_ceil I x end) r arm
  | CRngLen a b c r =>
      match range_ [a; b; c], r with
      | Ok q, OInt n => r_len q =? n
      | Err, OErr => true
      | _, _ => false
      end
  | CRngIdx a b c i r =>
      match range_ [a; b; c] with
      | Ok q => match range_getIndex q i, r with Ok x, OInt z => x =? z | Err, OErr => true | _, _ => false end
      | Err => match r with OErr => true | _ => false end
      end
  | CRngIn fb a b c y r =>
      let I := impl_of fb in
      match range_ [a; b; c] with
      | Ok q => bool_res_eqb (range_has I q y) r
      | Err => match r with OErr => true | _ => false end
      end
  | CRngList a b c r =>
      ints_res_eqb (match range_ [a; b; c] with Ok q => Ok (range_elems q) | Err => Err end) r
  | CRngEq a b c d e f neq r =>
      match range_ [a; b; c], range_ [d; e; f] with
      | Ok p, Ok q => bool_res_eqb (Ok (xorb neq (rangeEqual p q))) r
      | _, _ => match r with OErr => true | _ => false end
      end
  | CRngSlice a b c lo hi st len_only r =>
      match model_slice a b c lo hi st with
      | Ok q => if len_only then (match r with OInt n => r_len q =? n | _ => false end)
                else ints_res_eqb (Ok (range_elems q)) r
      | Err => match r with OErr => true | _ => false end
      end
  | CEnum fb start n r => let I := impl_of fb in ints_res_eqb (enumerate_indices I start n) r
  | CParse s base r =>
      match int_of_string s base, r with
      | Some z, OInt w => z =? w
      | None, OErr => true
      | _, _ => false
      end
  | CPrint base z s => listZ_eqb (print_int base z) s
  | CRepeat fb len n r =>
      let I := impl_of fb in
      match repeat_len I len (MakeBigInt I n), r with
      | Ok m, OInt w => m =? w
      | Err, OErr => true
      | _, _ => false
      end
  end.

Definition arm_spec (z : Z) : nat := if in_int32 z then 1%nat else 2%nat.

(* |x - n1/d1| <= |x - n2/d2|, denominators positive *)
Definition closer_eq (x n1 d1 n2 d2 : Z) : bool := Z.abs (x * d1 - n1) * d2 <=? Z.abs (x * d2 - n2) * d1.
Definition closer (x n1 d1 n2 d2 : Z) : bool := Z.abs (x * d1 - n1) * d2 <? Z.abs (x * d2 - n2) * d1.

(* value of a float as a fraction, with an infinity read as +-2^1024 (the next
   value of the unbounded format), for the nearest-neighbour test *)
Definition frac_of (f : float) : option (Z * Z) :=
  match f with
  | S754_zero _ => Some (0, 1)
  | S754_infinity s => Some ((if s then -1 else 1) * 2 ^ 1024, 1)
  | S754_nan => None
  | S754_finite s m e => let n := if s then Zneg m else Zpos m in
                         if 0 <=? e then Some (n * 2 ^ e, 1) else Some (n, 2 ^ (- e))
  end.

Definition even_mantissa (f : float) : bool :=
  match f with S754_finite _ m _ => Z.even (Zpos m) | _ => true end.

(* f is the binary64 value nearest to the integer x, ties to even *)
Definition nearest_even (x : Z) (f : float) : bool :=
  match frac_of f, frac_of (SFsucc 53 1024 f), frac_of (SFpred 53 1024 f) with
  | Some (n, d), Some (ns, ds), Some (np, dp) =>
      valid_float f &&
      (closer x n d ns ds || (closer_eq x n d ns ds && even_mantissa f)) &&
      (closer x n d np dp || (closer_eq x n d np dp && even_mantissa f))
  | _, _, _ => false
  end.

(* float(x) / x.Float(): the nearest float, or an error when that is an infinity *)
Definition spec_float_of_int (x : Z) (r : obs) : bool :=
  let overflow := 2 ^ 1024 - 2 ^ 970 <=? Z.abs x in
  match r with
  | OErr => overflow
  | OFloat b => negb overflow && nearest_even x (float_of_bits b)
  | _ => false
  end.

Definition spec_int_res (z : option Z) (r : obs) (arm : nat) : bool :=
  match z, r with
  | Some z, OInt w => (z =? w) && Nat.eqb arm (arm_spec z)
  | None, OErr => true
  | _, _ => false
  end.

(* a range the implementation must construct, and those it may (must) reject *)
Definition rng_args_ok (a b c : Z) : bool :=
  in_int64 a && in_int64 b && in_int64 c && negb (c =? 0) && (seq_len a b c <=? max_int64).

Definition spec_elems (a c first k cnt : Z) : list Z :=
  if 1000 <? cnt then [] else map (fun j => seq_at a c (first + Z.of_nat j * k)) (seq 0 (Z.to_nat cnt)).


Definition canonical_digits (base : Z) (s : list Z) : bool :=
  match s with
  | [] => false
  | [c] => (0 <=? spec_digit c) && (spec_digit c <? base) && negb ((65 <=? c) && (c <=? 90))
  | c :: _ => negb (c =? 48) && forallb (fun c => (0 <=? spec_digit c) && (spec_digit c <? base) && negb ((65 <=? c) && (c <=? 90))) s
  end.

Definition spec_ok (c : case) : bool :=
  match c with
  | CBin _ o x y r arm =>
      optZ_eqb (spec_binary_eval o x y) r && match r with Some z => Nat.eqb arm (arm_spec z) | None => true end
  | CCmp _ c x y r => Bool.eqb (spec_compare c x y) r
  | CUn _ o x r arm => (spec_unary o x =? r) && Nat.eqb arm (arm_spec r)
  | CCmpIF _ c x f r => Bool.eqb (spec_compare_if c x (float_of_bits f)) r
  | CCmpFI _ c f x r => Bool.eqb (spec_compare_fi c (float_of_bits f) x) r
  | CMixIF _ _ x _ r | CMixFI _ _ _ x r =>
      (* the int operand must convert (error iff it rounds to an infinity); the float result is the hardware's *)
      match r with OErr => true | OFloat _ => negb (2 ^ 1024 - 2 ^ 970 <=? Z.abs x) | _ => false end
  | CTrueDiv _ x y r =>
      match r with
      | OErr => (y =? 0) || (2 ^ 1024 - 2 ^ 970 <=? Z.abs x) || (2 ^ 1024 - 2 ^ 970 <=? Z.abs y)
      | OFloat _ => negb (y =? 0) | _ => false end
  | CFloatOfInt _ x r => spec_float_of_int x r
  | CIntOf _ w x r arm =>
      spec_int_res (match x with
                    | NInt z => Some z
                    | NFloat f => match w with 0%nat => spec_int_of_float f | 1%nat => spec_floor f | _ => spec_ceil f end
                    end) r arm
  | CRngLen a b c r =>
      match r with
      | OInt n => rng_args_ok a b c && (n =? seq_len a b c)
      | OErr => negb (rng_args_ok a b c)
      | _ => false
      end
  | CRngIdx a b c i r =>
      let n := seq_len a b c in
      let j := if i <? 0 then i + n else i in
      match r with
      | OInt z => rng_args_ok a b c && in_int32 i && (0 <=? j) && (j <? n) && (z =? seq_at a c j)
      | OErr => negb (rng_args_ok a b c && in_int32 i && (0 <=? j) && (j <? n))
      | _ => false
      end
  | CRngIn _ a b c y r =>
      match r, spec_range_has a b c y with
      | OBool v, Some w => rng_args_ok a b c && Bool.eqb v w
      | OErr, None => true
      | OErr, Some _ => negb (rng_args_ok a b c)
      | _, _ => false
      end
  | CRngList a b c r =>
      match r with
      | OInts l => rng_args_ok a b c && (seq_len a b c <=? 1000) && listZ_eqb l (seq_list a b c)
      | OErr => negb (rng_args_ok a b c)
      | _ => false
      end
  | CRngEq a b c d e f neq r =>
      match r with
      | OBool v =>
          rng_args_ok a b c && rng_args_ok d e f &&
          (* two arithmetic progressions are equal iff they have the same length and agree on their first two elements *)
          let n := seq_len a b c in
          Bool.eqb v (xorb neq ((n =? seq_len d e f) &&
                                ((n <=? 0) || (seq_at a c 0 =? seq_at d f 0)) &&
                                ((n <=? 1) || (seq_at a c 1 =? seq_at d f 1))))
      | OErr => negb (rng_args_ok a b c && rng_args_ok d e f)
      | _ => false
      end
  | CRngSlice a b c lo hi st len_only r =>
      let n := seq_len a b c in
      let k := match st with Some k => k | None => 1 end in
      (* slice operands of any magnitude are legal (they are truncated to the bounds); only a zero step fails *)
      let legal := rng_args_ok a b c && negb (k =? 0) in
      let '(first, cnt) := slice_sel n lo hi k in
      match r with
      | OErr => negb legal
      | OInt m => legal && len_only && (m =? cnt)
      | OInts l => legal && negb len_only && listZ_eqb l (spec_elems a c first k cnt)
      | _ => false
      end
  | CEnum _ start n r =>
      match r with
      | OInts l => in_int64 start && listZ_eqb l (map (fun i => start + Z.of_nat i) (seq 0 n))
      | OErr => negb (in_int64 start)
      | _ => false
      end
  | CParse s base r =>
      match spec_int_of_string s base, r with
      | Some z, OInt w => z =? w
      | None, OErr => true
      | _, _ => false
      end
  | CPrint base z s =>
      (* canonical text: optional '-', lower-case digits of the base without leading zeros, reading back as z *)
      let body := match s with 45 :: t => t | _ => s end in
      canonical_digits base body &&
      (match s with 45 :: _ => z <? 0 | _ => 0 <=? z end) &&
      optZ_eqb (spec_digits base body) (Some (Z.abs z))
  | CRepeat _ len n r =>
      (* the exact length, or a failure when the count does not fit in 32 bits or the result is huge *)
      let exact := len * Z.max n 0 in
      match r with
      | OInt w => w =? exact
      | OErr => (0 <? len) && ((max_int32 <? n) || (maxAlloc <=? exact))
      | _ => false
      end
  end.
