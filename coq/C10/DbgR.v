(* C10 -- SpecFloat's rounding (binary_normalize / binary_round) at ANY exponent
   e >= -1074 meets the nearest-even specification on the 2^-1074 grid; hence
   float addition is correctly rounded, math.Mod as modelled is exact, and
   Float.Mod / float % returns the correctly rounded remainder of floored
   division.  Builds on ProofsRound.v (shift invariant, rounding decision, gap
   between consecutive 53-bit multiples).  Pure Z arithmetic. *)
From Coq Require Import ZArith Bool List Lia Zpower.
From Coq Require Import ZifyBool.
From Coq Require Floats.SpecFloat.
From SV Require Import Common.GoInt C10.Model C10.Spec C10.ProofsInt C10.ProofsRange C10.ProofsFloat.
From SV Require Import C10.SpecRound C10.ProofsRound C10.SpecFloatArith C10.ModelFloatDiv.
Import Floats.SpecFloat.
Open Scope Z_scope.

(* ---------- 1. nearest on the grid, from the rounding decision *)
Definition nearest_grid (X mf Ef : Z) : Prop :=
  let V := mf * 2 ^ Ef in
  (forall w, b64_scaled w -> Z.abs (X - V) <= Z.abs (X - w)) /\
  (forall w, b64_scaled w -> w <> V -> Z.abs (X - w) = Z.abs (X - V) -> Z.even mf = true).

Lemma nearest_grid_from_round X m' K R m'' mf Ef :
  X = m' * 2 ^ K + R -> 0 <= R < 2 ^ K -> 0 <= K -> 2 ^ 52 <= m' -> round_case m'' m' R K ->
  mf * 2 ^ Ef = m'' * 2 ^ K -> (2 * R = 2 ^ K -> Z.even mf = true) ->
  nearest_grid X mf Ef.
Proof.
  intros HX HR HK Hm' RC Hv Hev. unfold nearest_grid. rewrite Hv.
  assert (gap : forall w, b64_scaled w -> w <= m' * 2 ^ K \/ (m' + 1) * 2 ^ K <= w).
  { intros w (mw & e & Hmw & He & ->).
    pose proof (no_value_between m' K mw (e + 1074) Hm' HK ltac:(lia) Hmw). lia. }
  assert (HM : (m' + 1) * 2 ^ K = m' * 2 ^ K + 2 ^ K) by ring.
  set (G := 2 ^ K) in *. rewrite HX. unfold round_case in RC.
  split.
  - intros w Hw. destruct (gap w Hw) as [W|W]; destruct RC as [(-> & H1 & _)|(-> & H1 & _)]; lia.
  - intros w Hw Hne Heq. apply Hev.
    destruct (gap w Hw) as [W|W]; destruct RC as [(-> & H1 & _)|(-> & H1 & _)]; lia.
Qed.

(* ---------- 2. binary_round_aux on an already aligned significand is exact *)
Lemma round_aux_aligned sx mz ez : fexp 53 1024 (Zpos (digits2_pos mz) + ez) = ez ->
  binary_round_aux 53 1024 sx (Zpos mz) ez loc_Exact =
    if ez <=? 971 then S754_finite sx mz ez else S754_infinity sx.
Proof.
  intros F. unfold binary_round_aux, shr_fexp. cbn [Zdigits2]. rewrite F, Z.sub_diag.
  cbn [shr shr_record_of_loc shr_m loc_of_shr_record round_nearest_even Zdigits2]. rewrite F, Z.sub_diag.
  cbn [shr shr_record_of_loc shr_m]. reflexivity.
Qed.

(* a significand of at most 53 bits, any exponent e >= -1074: only a left shift, exact *)
Lemma binary_round_gen_small sx p e : Zpos p < 2 ^ 53 -> -1074 <= e ->
  exists m fe, -1074 <= fe <= e /\ Zpos m = Zpos p * 2 ^ (e - fe) /\ Zpos m < 2 ^ 53 /\
    (2 ^ 52 <= Zpos m \/ fe = -1074) /\
    binary_round 53 1024 sx p e = if fe <=? 971 then S754_finite sx m fe else S754_infinity sx.
Proof.
  intros Hp He. pose proof (digits2_le_53 p Hp) as D.
  pose proof (digits2_pos_lower p) as Lo. pose proof (digits2_pos_bound p) as Up.
  unfold binary_round. set (d := Zpos (digits2_pos p)) in *.
  set (fe := fexp 53 1024 (d + e)).
  assert (Hfe : fe = Z.max (d + e - 53) (-1074)) by (unfold fe, fexp, emin; lia).
  unfold shl_align.
  destruct (fe - e) as [|q|q] eqn:E; try lia.
  - (* fe = e *)
    assert (fe = e) by lia.
    rewrite round_aux_aligned by (fold d; fold fe; lia).
    exists p, e. split; [lia|]. split; [rewrite Z.sub_diag; cbn; lia|]. split; [exact Hp|].
    split; [|replace fe with e by lia; reflexivity].
    destruct (Z.eq_dec e (-1074)); [right; assumption|left].
    assert (d = 53) by lia. replace (d - 1) with 52 in Lo by lia. exact Lo.
  - (* fe < e: shift left by e - fe *)
    assert (Hq : Zpos q = e - fe) by lia.
    assert (Dg : Zpos (digits2_pos (shift_pos q p)) = d + (e - fe)) by (rewrite digits2_shift; unfold d; lia).
    rewrite round_aux_aligned by (rewrite Dg; replace (d + (e - fe) + fe) with (d + e) by lia; reflexivity).
    exists (shift_pos q p), fe. split; [lia|]. split; [rewrite shift_pos_val, Hq; reflexivity|].
    pose proof (digits2_pos_bound (shift_pos q p)) as Up'. pose proof (digits2_pos_lower (shift_pos q p)) as Lo'.
    rewrite Dg in Up', Lo'.
    split.
    + eapply Z.lt_le_trans; [exact Up'|]. apply Z.pow_le_mono_r; lia.
    + split; [|reflexivity].
      destruct (Z.eq_dec fe (-1074)); [right; assumption|left].
      assert (d + (e - fe) = 53) by lia. replace (d + (e - fe) - 1) with 52 in Lo' by lia. exact Lo'.
Qed.

(* ---------- 3. a significand of at least 54 bits, any exponent e >= -1074 *)
Lemma binary_round_gen_big sx p e : 2 ^ 53 <= Zpos p -> -1074 <= e ->
  exists m' k rem m'',
    Zpos p = m' * 2 ^ k + rem /\ 0 <= rem < 2 ^ k /\ 1 <= k /\ 2 ^ 52 <= m' < 2 ^ 53 /\
    round_case m'' m' rem k /\
    binary_round 53 1024 sx p e =
      (if m'' <? 2 ^ 53
       then (if e + k <=? 971 then S754_finite sx (Z.to_pos m'') (e + k) else S754_infinity sx)
       else (if e + k + 1 <=? 971 then S754_finite sx (Z.to_pos (2 ^ 52)) (e + k + 1) else S754_infinity sx)).
Proof.
  intros Hp He.
  pose proof (digits2_pos_bound p) as B. pose proof (digits2_pos_lower p) as Lo.
  set (d := Zpos (digits2_pos p)) in *.
  assert (Hd : 53 < d).
  { destruct (Z_lt_le_dec 53 d) as [|C]; [assumption|exfalso].
    assert (2 ^ d <= 2 ^ 53) by (apply Z.pow_le_mono_r; lia). lia. }
  remember (binary_round 53 1024 sx p e) as BR eqn:EBR.
  unfold binary_round in EBR. fold d in EBR.
  assert (F : fexp 53 1024 (d + e) = d + e - 53) by (unfold fexp, emin; lia).
  rewrite F in EBR. unfold shl_align in EBR.
  destruct (d + e - 53 - e) as [|q|q] eqn:E; try lia.
  unfold binary_round_aux in EBR. unfold shr_fexp at 1 in EBR. cbn [Zdigits2] in EBR. fold d in EBR. rewrite F, E in EBR.
  cbn [shr shr_record_of_loc] in EBR.
  assert (I0 : rec_inv (Zpos p) 0 {| shr_m := Zpos p; shr_r := false; shr_s := false |}).
  { unfold rec_inv. cbn [shr_m shr_r shr_s loc_ok]. split; [lia|]. split; [lia|]. exists 0. cbn. lia. }
  pose proof (iter_shr_inv q _ _ _ I0) as I1. cbn [Z.add] in I1.
  destruct (iter_pos shr_1 q _) as [m' r s].
  destruct I1 as (Hm' & _ & rem & Hx & Hrem & Hl). cbn [shr_m shr_r shr_s] in *.
  assert (Hk : Zpos q = d - 53) by lia.
  assert (P : 0 < 2 ^ Zpos q) by (apply Z.pow_pos_nonneg; lia).
  assert (Hm52 : 2 ^ 52 <= m' < 2 ^ 53).
  { assert (E1 : 2 ^ (d - 1) = 2 ^ 52 * 2 ^ Zpos q) by (rewrite <- Z.pow_add_r by lia; f_equal; lia).
    assert (E2 : 2 ^ d = 2 ^ 53 * 2 ^ Zpos q) by (rewrite <- Z.pow_add_r by lia; f_equal; lia).
    rewrite E1 in Lo. rewrite E2 in B. split; nia. }
  pose proof (round_ne_cases m' rem (Zpos q) r s Hrem Hl) as RC.
  set (m'' := round_nearest_even m' _) in *.
  assert (Hm'' : 2 ^ 52 <= m'' <= 2 ^ 53) by (unfold round_case in RC; lia).
  exists m', (Zpos q), rem, m''.
  split; [exact Hx|]. split; [exact Hrem|]. split; [lia|]. split; [exact Hm52|]. split; [exact RC|].
  rewrite EBR.
  destruct (second_shift m'' (e + Zpos q) Hm'' ltac:(lia)) as [[Lt ->]|[Eq ->]]; cbn [shr_m].
  - assert (T : (m'' <? 2 ^ 53) = true) by lia. rewrite T.
    destruct m'' as [|pm|pm] eqn:Em; try lia. cbn [Z.to_pos]. reflexivity.
  - assert (T : (m'' <? 2 ^ 53) = false) by lia. rewrite T.
    change (2 ^ 52) with (Zpos 4503599627370496). cbn [Z.to_pos]. reflexivity.
Qed.

(* ---------- 4. overflow threshold at an arbitrary maximal exponent c *)
Lemma overflow_iff_gen c x m' k rem m'' : 1 <= c ->
  x = m' * 2 ^ k + rem -> 0 <= rem < 2 ^ k -> 1 <= k -> 2 ^ 52 <= m' < 2 ^ 53 -> round_case m'' m' rem k ->
  ((if m'' <? 2 ^ 53 then k else k + 1) <=? c) = negb (2 ^ (c + 53) - 2 ^ (c - 1) <=? x).
Proof.
  intros Hc Hx Hrem Hk Hm' RC.
  assert (E54 : 2 ^ (c + 53) = 18014398509481984 * 2 ^ (c - 1)).
  { replace (c + 53) with (54 + (c - 1)) by lia. rewrite Z.pow_add_r by lia. reflexivity. }
  rewrite E54.
  change (2 ^ 52) with 4503599627370496 in *. change (2 ^ 53) with 9007199254740992 in *.
  assert (C0 : 0 < 2 ^ (c - 1)) by (apply Z.pow_pos_nonneg; lia).
  assert (EP : 2 ^ k = 2 * 2 ^ (k - 1)).
  { replace k with (1 + (k - 1)) at 1 by lia. rewrite Z.pow_add_r by lia. reflexivity. }
  assert (EC : 2 ^ c = 2 * 2 ^ (c - 1)).
  { replace c with (1 + (c - 1)) at 1 by lia. rewrite Z.pow_add_r by lia. reflexivity. }
  assert (H0 : 0 < 2 ^ (k - 1)) by (apply Z.pow_pos_nonneg; lia).
  assert (Mono : forall a b, 0 <= a <= b -> 2 ^ a <= 2 ^ b) by (intros; apply Z.pow_le_mono_r; lia).
  unfold round_case in RC. rewrite EP in *. set (H := 2 ^ (k - 1)) in *.
  assert (EvB : forall c, Z.even c = true -> c < 9007199254740992 -> c <= 9007199254740990).
  { intros c0 Ec Hc0. apply Z.even_spec in Ec. destruct Ec as [h ->]. lia. }
  destruct (m'' <? 9007199254740992) eqn:Lt.
  - destruct (k <=? c) eqn:K.
    + assert (HC : H <= 2 ^ (c - 1)) by (apply Mono; lia). set (C := 2 ^ (c - 1)) in *.
      destruct RC as [(-> & H1 & Ev)|(-> & H1 & _)].
      * destruct (Z.eq_dec (2 * rem) (2 * H)) as [Tie|NT].
        -- pose proof (EvB m' (Ev Tie) ltac:(lia)). nia.
        -- nia.
      * nia.
    + assert (HC : 2 ^ c <= H) by (apply Mono; lia).
      rewrite EC in HC. set (C := 2 ^ (c - 1)) in *. nia.
  - destruct RC as [(-> & _)|(-> & H1 & _)]; [lia|].
    assert (m' = 9007199254740991) by lia. subst m'.
    destruct (k + 1 <=? c) eqn:K.
    + assert (HC : 2 * H <= 2 ^ (c - 1)). { rewrite <- EP. apply Mono; lia. }
      set (C := 2 ^ (c - 1)) in *. nia.
    + assert (HC : 2 ^ (c - 1) <= H) by (apply Mono; lia). set (C := 2 ^ (c - 1)) in *. nia.
Qed.

Lemma round_case_scale m'' m' rem k j : 0 <= k -> 0 <= j -> round_case m'' m' rem k ->
  round_case m'' m' (rem * 2 ^ j) (k + j).
Proof.
  intros Hk Hj RC. unfold round_case in *.
  assert (P : 0 < 2 ^ j) by (apply Z.pow_pos_nonneg; lia).
  rewrite Z.pow_add_r by lia. set (Q := 2 ^ j) in *. set (A := 2 ^ k) in *.
  destruct RC as [(E & H1 & Ev)|(E & H1 & Ev)]; [left|right]; (split; [exact E|]).
  - split; [nia|]. intros T. apply Ev. nia.
  - split; [nia|]. intros T. apply Ev. nia.
Qed.

Lemma threshold_grid : overflow_threshold * scale = 2 ^ (2045 + 53) - 2 ^ (2045 - 1).
Proof. apply Z.eqb_eq. vm_compute. reflexivity. Qed.

Lemma valid_min_exp sx pm : Zpos pm < 2 ^ 53 -> valid_float (S754_finite sx pm (-1074)) = true.
Proof.
  intros Hm. pose proof (digits2_le_53 pm Hm) as D.
  unfold valid_float, valid_binary, bounded, canonical_mantissa.
  assert (F : fexp 53 1024 (Zpos (digits2_pos pm) + -1074) = -1074) by (unfold fexp, emin; lia). rewrite F.
  reflexivity.
Qed.

(* ---------- 5. binary_round at any exponent e >= -1074 *)
Lemma binary_round_gen_spec sx p e : -1074 <= e ->
  if overflow_threshold * scale <=? Zpos p * 2 ^ (e + 1074) then binary_round 53 1024 sx p e = S754_infinity sx
  else exists m ef, binary_round 53 1024 sx p e = S754_finite sx m ef /\
                    valid_float (S754_finite sx m ef) = true /\
                    nearest_grid (Zpos p * 2 ^ (e + 1074)) (Zpos m) (ef + 1074).
Proof.
  intros He. rewrite threshold_grid.
  destruct (Z_lt_le_dec (Zpos p) (2 ^ 53)) as [Small|Big].
  - destruct (binary_round_gen_small sx p e Small He) as (m & fe & Hfe & Hm & Bm & Cm & E).
    assert (EX : Zpos p * 2 ^ (e + 1074) = Zpos m * 2 ^ (fe + 1074)).
    { rewrite Hm, <- Z.mul_assoc, <- Z.pow_add_r by lia. f_equal. f_equal. lia. }
    rewrite EX, E.
    assert (P : 0 < 2 ^ (fe + 1074)) by (apply Z.pow_pos_nonneg; lia).
    change (2 ^ (2045 + 53)) with (18014398509481984 * 2 ^ 2044). change (2045 - 1) with 2044.
    change (2 ^ 52) with 4503599627370496 in *. change (2 ^ 53) with 9007199254740992 in *.
    assert (C0 : 0 < 2 ^ 2044) by (apply Z.pow_pos_nonneg; lia).
    destruct (fe <=? 971) eqn:F.
    + assert (HC : 2 ^ (fe + 1074) <= 2 ^ 2045) by (apply Z.pow_le_mono_r; lia).
      change (2 ^ 2045) with (2 * 2 ^ 2044) in HC. set (C := 2 ^ 2044) in *. set (Q := 2 ^ (fe + 1074)) in *.
      assert (O : (18014398509481984 * C - C <=? Zpos m * Q) = false) by nia. rewrite O.
      exists m, fe. split; [reflexivity|]. split.
      * destruct Cm as [Cm| ->]; [apply valid_53; [change (2 ^ 52) with 4503599627370496; change (2 ^ 53) with 9007199254740992; lia|lia]|apply valid_min_exp; exact Bm].
      * unfold nearest_grid. split; [intros; lia|intros w _ Hne Heq; exfalso; lia].
    + assert (HC : 2 ^ 2046 <= 2 ^ (fe + 1074)) by (apply Z.pow_le_mono_r; lia).
      change (2 ^ 2046) with (4 * 2 ^ 2044) in HC. set (C := 2 ^ 2044) in *. set (Q := 2 ^ (fe + 1074)) in *.
      assert (O : (18014398509481984 * C - C <=? Zpos m * Q) = true) by (destruct Cm; nia). rewrite O. reflexivity.
  - destruct (binary_round_gen_big sx p e Big He) as (m' & k & rem & m'' & Hx & Hrem & Hk & Hm' & RC & E).
    set (J := e + 1074). assert (HJ : 0 <= J) by (unfold J; lia).
    assert (PJ : 0 < 2 ^ J) by (apply Z.pow_pos_nonneg; lia).
    assert (EX : Zpos p * 2 ^ J = m' * 2 ^ (k + J) + rem * 2 ^ J) by (rewrite Hx, Z.pow_add_r by lia; ring).
    assert (HR : 0 <= rem * 2 ^ J < 2 ^ (k + J)) by (rewrite Z.pow_add_r by lia; nia).
    pose proof (round_case_scale m'' m' rem k J ltac:(lia) HJ RC) as RC'.
    pose proof (overflow_iff_gen 2045 _ m' (k + J) _ m'' ltac:(lia) EX HR ltac:(lia) Hm' RC') as OV.
    assert (Hm'' : 2 ^ 52 <= m'' <= 2 ^ 53) by (unfold round_case in RC; lia).
    rewrite E.
    destruct (2 ^ (2045 + 53) - 2 ^ (2045 - 1) <=? Zpos p * 2 ^ J) eqn:O; cbn [negb] in OV.
    + destruct (m'' <? 2 ^ 53).
      * assert (T : (e + k <=? 971) = false) by (unfold J in OV; lia). rewrite T. reflexivity.
      * assert (T : (e + k + 1 <=? 971) = false) by (unfold J in OV; lia). rewrite T. reflexivity.
    + destruct (m'' <? 2 ^ 53) eqn:Lt.
      * assert (T : (e + k <=? 971) = true) by (unfold J in OV; lia). rewrite T.
        destruct m'' as [|pm|pm] eqn:Em; try lia. cbn [Z.to_pos].
        exists pm, (e + k). split; [reflexivity|]. split; [apply valid_53; lia|].
        apply (nearest_grid_from_round _ m' (k + J) (rem * 2 ^ J) (Zpos pm)); try assumption; try lia.
        -- f_equal. f_equal. unfold J. lia.
        -- unfold round_case in RC'. intros Tie. destruct RC' as [(_ & _ & Ev)|(_ & _ & Ev)]; exact (Ev Tie).
      * assert (T : (e + k + 1 <=? 971) = true) by (unfold J in OV; lia). rewrite T.
        assert (Em : m'' = 2 ^ 53) by lia.
        change (2 ^ 52) with (Zpos 4503599627370496). cbn [Z.to_pos].
        exists 4503599627370496%positive, (e + k + 1). split; [reflexivity|].
        split; [apply valid_53; [change (2 ^ 52) with 4503599627370496; change (2 ^ 53) with 9007199254740992; lia|lia]|].
        apply (nearest_grid_from_round _ m' (k + J) (rem * 2 ^ J) m''); try assumption; try lia.
        -- rewrite Em. replace (e + k + 1 + 1074) with (1 + (k + J)) by (unfold J; lia).
           rewrite (Z.pow_add_r 2 1) by lia. change (2 ^ 1) with 2. change (2 ^ 53) with 9007199254740992. lia.
        -- intros _. reflexivity.
Qed.

(* ---------- 6. binary_normalize, any sign, any exponent e >= -1074 *)
Lemma threshold_grid_pos : 0 < overflow_threshold * scale.
Proof. apply Z.ltb_lt. vm_compute. reflexivity. Qed.

Definition sign_is (f : float) (s : bool) : Prop :=
  match f with S754_finite t _ _ | S754_infinity t => t = s | _ => False end.

Lemma binary_normalize_grid m e sz : -1074 <= e ->
  rounds_grid_to_nearest_even (m * 2 ^ (e + 1074)) (binary_normalize 53 1024 m e sz) /\
  (m = 0 -> binary_normalize 53 1024 m e sz = S754_zero sz) /\
  (m <> 0 -> sign_is (binary_normalize 53 1024 m e sz) (m <? 0)).
Proof.
  intros He. pose proof threshold_grid_pos as TP.
  assert (P : 0 < 2 ^ (e + 1074)) by (apply Z.pow_pos_nonneg; lia).
  unfold rounds_grid_to_nearest_even, binary_normalize. destruct m as [|p|p].
  - split; [|split; [reflexivity|intros H; contradiction H; reflexivity]].
    cbn [Z.mul Z.abs]. assert (O : (overflow_threshold * scale <=? 0) = false) by lia. rewrite O.
    split; [reflexivity|]. exists 0. split; [reflexivity|]. split; [intros; lia|reflexivity].
  - split; [|split; [discriminate|]].
    + pose proof (binary_round_gen_spec false p e He) as BR.
      rewrite Z.abs_eq by lia.
      destruct (overflow_threshold * scale <=? Zpos p * 2 ^ (e + 1074)).
      * rewrite BR. f_equal. lia.
      * destruct BR as (m & ef & -> & V & N1 & N2). split; [exact V|].
        exists (Zpos m * 2 ^ (ef + 1074)). split; [reflexivity|]. split; [exact N1|exact N2].
    + intros _. pose proof (binary_round_gen_spec false p e He) as BR.
      destruct (overflow_threshold * scale <=? Zpos p * 2 ^ (e + 1074)).
      * rewrite BR. reflexivity.
      * destruct BR as (m & ef & -> & _). reflexivity.
  - assert (EX : Zneg p * 2 ^ (e + 1074) = - (Zpos p * 2 ^ (e + 1074))) by (rewrite <- Pos2Z.opp_pos; ring).
    split; [|split; [discriminate|]].
    + pose proof (binary_round_gen_spec true p e He) as BR.
      rewrite EX, Z.abs_opp, Z.abs_eq by lia.
      destruct (overflow_threshold * scale <=? Zpos p * 2 ^ (e + 1074)).
      * rewrite BR. f_equal. lia.
      * destruct BR as (m & ef & -> & V & N1 & N2). split; [exact V|].
        exists (Zneg m * 2 ^ (ef + 1074)). split; [reflexivity|].
        assert (EV : Zneg m * 2 ^ (ef + 1074) = - (Zpos m * 2 ^ (ef + 1074))) by (rewrite <- Pos2Z.opp_pos; ring).
        rewrite EV. cbn [mantissa_even]. unfold nearest_grid in N1, N2. split.
        -- intros w Hw. pose proof (N1 (- w) (b64_scaled_opp w Hw)). lia.
        -- intros w Hw Hne Heq. apply (N2 (- w) (b64_scaled_opp w Hw)); lia.
    + intros _. pose proof (binary_round_gen_spec true p e He) as BR.
      destruct (overflow_threshold * scale <=? Zpos p * 2 ^ (e + 1074)).
      * rewrite BR. reflexivity.
      * destruct BR as (m & ef & -> & _). reflexivity.
Qed.

(* ---------- 7. representable numbers round to themselves *)
Lemma b64_below_threshold W : b64_scaled W -> Z.abs W < overflow_threshold * scale.
Proof.
  intros (m & e & Hm & He & ->). rewrite threshold_grid.
  change (2 ^ (2045 + 53)) with (18014398509481984 * 2 ^ 2044). change (2045 - 1) with 2044.
  change (2 ^ 53) with 9007199254740992 in *.
  assert (P : 0 < 2 ^ (e + 1074)) by (apply Z.pow_pos_nonneg; lia).
  assert (HC : 2 ^ (e + 1074) <= 2 ^ 2045) by (apply Z.pow_le_mono_r; lia).
  change (2 ^ 2045) with (2 * 2 ^ 2044) in HC.
  assert (C0 : 0 < 2 ^ 2044) by (apply Z.pow_pos_nonneg; lia).
  set (C := 2 ^ 2044) in *. set (Q := 2 ^ (e + 1074)) in *.
  rewrite Z.abs_mul, (Z.abs_eq Q) by lia. nia.
Qed.

Lemma grid_exact X f : b64_scaled X -> rounds_grid_to_nearest_even X f ->
  valid_float f = true /\ scaled_val f = Some X.
Proof.
  intros B. pose proof (b64_below_threshold X B) as Lt. unfold rounds_grid_to_nearest_even.
  assert (O : (overflow_threshold * scale <=? Z.abs X) = false) by lia. rewrite O.
  intros (V & v & Sv & N & _). split; [exact V|]. rewrite Sv. f_equal. pose proof (N X B). lia.
Qed.

Lemma exact_is_nearest X f : valid_float f = true -> scaled_val f = Some X -> rounds_grid_to_nearest_even X f.
Proof.
  intros V Sv. pose proof (valid_float_in_b64 f X V Sv) as B. pose proof (b64_below_threshold X B) as Lt.
  unfold rounds_grid_to_nearest_even.
  assert (O : (overflow_threshold * scale <=? Z.abs X) = false) by lia. rewrite O.
  split; [exact V|]. exists X. split; [exact Sv|]. split; [intros; lia|intros w _ Hne Heq; exfalso; lia].
Qed.

(* the value found by rounding lies between any two representable numbers that enclose the target *)
Lemma nearest_between X f lo hi : b64_scaled lo -> b64_scaled hi -> lo <= X <= hi ->
  rounds_grid_to_nearest_even X f ->
  valid_float f = true /\ exists v, scaled_val f = Some v /\ lo <= v <= hi.
Proof.
  intros Bl Bh Hx. pose proof (b64_below_threshold lo Bl). pose proof (b64_below_threshold hi Bh).
  unfold rounds_grid_to_nearest_even.
  assert (O : (overflow_threshold * scale <=? Z.abs X) = false) by lia. rewrite O.
  intros (V & v & Sv & N & _). split; [exact V|]. exists v. split; [exact Sv|].
  pose proof (N lo Bl). pose proof (N hi Bh). lia.
Qed.

(* ---------- 8. float addition of finite operands is correctly rounded *)
Lemma shl_align_val m e e' : e' <= e -> Zpos (fst (shl_align m e e')) = Zpos m * 2 ^ (e - e').
Proof.
  intros H. unfold shl_align. destruct (e' - e) as [|q|q] eqn:E; cbn [fst]; try lia.
  - replace (e - e') with 0 by lia. cbn. lia.
  - rewrite shift_pos_val. f_equal. f_equal. lia.
Qed.

Definition sv (s : bool) (m : positive) (e : Z) : Z := (if s then Zneg m else Zpos m) * 2 ^ (e + 1074).

Lemma sv_split s m e e' : -1074 <= e' <= e ->
  sv s m e = (if s then - (Zpos m * 2 ^ (e - e')) else Zpos m * 2 ^ (e - e')) * 2 ^ (e' + 1074).
Proof.
  intros H. unfold sv. replace (e + 1074) with ((e - e') + (e' + 1074)) by lia. rewrite Z.pow_add_r by lia.
  destruct s; [rewrite <- Pos2Z.opp_pos|]; ring.
Qed.

Lemma SFadd_finite_grid sx mx ex sy my ey :
  valid_float (S754_finite sx mx ex) = true -> valid_float (S754_finite sy my ey) = true ->
  let r := SFadd 53 1024 (S754_finite sx mx ex) (S754_finite sy my ey) in
  let S := sv sx mx ex + sv sy my ey in
  rounds_grid_to_nearest_even S r /\ (S = 0 -> r = S754_zero false) /\ (S <> 0 -> sign_is r (S <? 0)).
Proof.
  intros Vx Vy. destruct (valid_mantissa _ _ _ Vx) as [_ Hex]. destruct (valid_mantissa _ _ _ Vy) as [_ Hey].
  cbn [SFadd]. set (ez := Z.min ex ey).
  rewrite (sv_split sx mx ex ez) by lia. rewrite (sv_split sy my ey ez) by lia.
  rewrite <- Z.mul_add_distr_r.
  rewrite <- (shl_align_val mx ex ez) by lia. rewrite <- (shl_align_val my ey ez) by lia.
  set (a := Zpos (fst (shl_align mx ex ez))). set (b := Zpos (fst (shl_align my ey ez))).
  assert (EA : cond_Zopp sx a = if sx then - a else a) by (destruct sx; reflexivity).
  assert (EB : cond_Zopp sy b = if sy then - b else b) by (destruct sy; reflexivity).
  rewrite EA, EB. set (Ssum := (if sx then - a else a) + (if sy then - b else b)).
  assert (P : 0 < 2 ^ (ez + 1074)) by (apply Z.pow_pos_nonneg; lia).
  destruct (binary_normalize_grid Ssum ez false ltac:(lia)) as (G & Z0 & Sg).
  cbv zeta. split; [exact G|]. split.
  - intros H. apply Z0. nia.
  - intros H. assert (Ssum <> 0) by nia. replace (Ssum * 2 ^ (ez + 1074) <? 0) with (Ssum <? 0) by nia. apply Sg. assumption.
Qed.

(* ---------- 9. math.Mod (as modelled) returns the exact truncated remainder, sign of x *)
Lemma rem_scaled (sa sb : bool) (a b Q : Z) : 0 <= a -> 0 < b -> 0 < Q ->
  Z.rem ((if sa then - a else a) * Q) ((if sb then - b else b) * Q) = (if sa then - (a mod b) else a mod b) * Q.
Proof.
  intros Ha Hb HQ.
  assert (E : Z.rem (a * Q) (b * Q) = a mod b * Q).
  { rewrite Z.rem_mod_nonneg by nia. apply Z.mul_mod_distr_r; lia. }
  destruct sa, sb; rewrite ?Z.mul_opp_l, ?Z.rem_opp_l, ?Z.rem_opp_r, E by nia; reflexivity.
Qed.

Lemma math_Mod_finite sx mx ex sy my ey :
  valid_float (S754_finite sx mx ex) = true -> valid_float (S754_finite sy my ey) = true ->
  let z := math_Mod (S754_finite sx mx ex) (S754_finite sy my ey) in
  let R := Z.rem (sv sx mx ex) (sv sy my ey) in
  valid_float z = true /\ scaled_val z = Some R /\
  (R = 0 -> z = S754_zero sx) /\ (R <> 0 -> exists m e, z = S754_finite sx m e).
Proof.
  intros Vx Vy. destruct (valid_mantissa _ _ _ Vx) as [Bx Hex]. destruct (valid_mantissa _ _ _ Vy) as [By Hey].
  cbn [math_Mod]. set (e := Z.min ex ey).
  rewrite (sv_split sx mx ex e) by lia. rewrite (sv_split sy my ey e) by lia.
  set (a := Zpos mx * 2 ^ (ex - e)). set (b := Zpos my * 2 ^ (ey - e)).
  assert (Pa : 0 < a) by (unfold a; apply Z.mul_pos_pos; [lia|apply Z.pow_pos_nonneg; lia]).
  assert (Pb : 0 < b) by (unfold b; apply Z.mul_pos_pos; [lia|apply Z.pow_pos_nonneg; lia]).
  assert (Q0 : 0 < 2 ^ (e + 1074)) by (apply Z.pow_pos_nonneg; lia).
  rewrite rem_scaled by lia.
  pose proof (Z.mod_pos_bound a b Pb) as Hr. set (r := a mod b) in *.
  assert (Br : r < 2 ^ 53).
  { destruct (Z_le_gt_dec ey ex).
    - assert (E : b = Zpos my) by (unfold b; replace (ey - e) with 0 by lia; cbn; lia). lia.
    - assert (E : a = Zpos mx) by (unfold a; replace (ex - e) with 0 by lia; cbn; lia).
      pose proof (Z.mod_le a b ltac:(lia) Pb). fold r in H. lia. }
  set (sr := if sx then - r else r).
  destruct (binary_normalize_grid sr e sx ltac:(lia)) as (G & Z0 & Sg).
  assert (B : b64_scaled (sr * 2 ^ (e + 1074))).
  { exists sr, e. split; [unfold sr; destruct sx; lia|]. split; [lia|reflexivity]. }
  destruct (grid_exact _ _ B G) as [V Sv]. cbv zeta.
  split; [exact V|]. split; [exact Sv|]. split.
  - intros H. apply Z0. nia.
  - intros H. assert (NZ : sr <> 0) by nia. specialize (Sg NZ).
    destruct (binary_normalize 53 1024 sr e sx) as [s|s| |s m ee]; cbn [sign_is scaled_val] in *; try contradiction; try discriminate.

Show. Abort.
